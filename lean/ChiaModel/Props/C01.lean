import ChiaModel.Lemmas.BundleInv
import ChiaModel.Lemmas.BundleRules
import ChiaModel.Lemmas.MsgKey
import ChiaModel.Lemmas.ArgGrammar
/-
C01 — spend conditions are accepted, rejected and summarised exactly per the rules.
Theorems about the executable model of `parse_spends` (Model/Conditions.lean), which is tied to the
Rust code by the correspondence check.

First part (below): opcode recognition, the deferred cross-spend checks as declarative predicates.
Second part (end of the file): the refinement to the order-free declarative specification of
`Spec/ConditionRules.lean` (one spend) and `Spec/BundleRules.lean` (the bundle): `spend_refines`,
`condLoop_refines`, `C01_refines`, `C01_rejects`.  What the specification still takes from the model
(argument grammar table `parseArgs`, mempool eligibility flags inside the fold) is said at `C01_refines`;
the closed forms of the flags follow it.
Third part (end of the file): the argument grammar as an independent data table (`Spec/ArgGrammar.lean`,
written from DESIGN.md Appendix A.1 and the Rust source): `parseArgs_table` (the model's `parseArgs` = the
table-driven `specParseArgs`, all trees / opcode numbers / flags), `C01_refines_grammar` / `C01_rejects_grammar`
(the refinement with the parse written over the table), `message_opcode_inversion`, the value-level reading of
the integer classes, sanity theorems about the table and its behaviour at the boundaries.
-/
namespace ChiaModel.C01
open ChiaModel ChiaModel.Cond

/-! ### opcode recognition -/

/-- the one-byte whitelist extracted from `parse_opcode` is exactly the documented opcode set -/
theorem opcode_whitelist :
    Gen.opcodeWhitelist = [1, 43, 44, 45, 46, 47, 48, 49, 50, 51, 52, 60, 61, 62, 63, 64, 65, 66, 67,
      70, 71, 72, 73, 74, 75, 76, 80, 81, 82, 83, 84, 85, 86, 87, 90] := by decide

/-- every named opcode constant is in the whitelist, and they are pairwise distinct -/
theorem opcode_constants :
    [Gen.opRemark, Gen.opAggSigParent, Gen.opAggSigPuzzle, Gen.opAggSigAmount, Gen.opAggSigPuzzleAmount,
     Gen.opAggSigParentAmount, Gen.opAggSigParentPuzzle, Gen.opAggSigUnsafe, Gen.opAggSigMe, Gen.opCreateCoin,
     Gen.opReserveFee, Gen.opCreateCoinAnnouncement, Gen.opAssertCoinAnnouncement, Gen.opCreatePuzzleAnnouncement,
     Gen.opAssertPuzzleAnnouncement, Gen.opAssertConcurrentSpend, Gen.opAssertConcurrentPuzzle, Gen.opSendMessage,
     Gen.opReceiveMessage, Gen.opAssertMyCoinId, Gen.opAssertMyParentId, Gen.opAssertMyPuzzlehash,
     Gen.opAssertMyAmount, Gen.opAssertMyBirthSeconds, Gen.opAssertMyBirthHeight, Gen.opAssertEphemeral,
     Gen.opAssertSecondsRelative, Gen.opAssertSecondsAbsolute, Gen.opAssertHeightRelative, Gen.opAssertHeightAbsolute,
     Gen.opAssertBeforeSecondsRelative, Gen.opAssertBeforeSecondsAbsolute, Gen.opAssertBeforeHeightRelative,
     Gen.opAssertBeforeHeightAbsolute, Gen.opSoftfork] = Gen.opcodeWhitelist := by decide

/-- Opcode recognition rule: a one-byte atom in the whitelist is that opcode; a two-byte atom with a
non-zero first byte is the two-byte opcode; a pair, the empty atom, any other one-byte atom, a two-byte
atom with a zero first byte, and any atom of three or more bytes is not an opcode. -/
theorem parseOpcode_spec (n : Sexp) (op : Nat) :
    parseOpcode n = some op ↔
      (∃ b0, n = .atom [b0] ∧ b0 ∈ Gen.opcodeWhitelist ∧ op = b0) ∨
      (∃ b0 b1, n = .atom [b0, b1] ∧ b0 ≠ 0 ∧ op = b0 * 256 + b1) := by
  cases n with
  | pair l r => simp [parseOpcode]
  | atom b =>
    match b with
    | [] => simp [parseOpcode]
    | [b0] =>
      simp only [parseOpcode]
      constructor
      · intro h; split at h
        · rename_i hc; injection h with h; exact Or.inl ⟨b0, rfl, by simpa using hc, h.symm⟩
        · cases h
      · rintro (⟨x, hx, hm, rfl⟩ | ⟨x, y, hx, _⟩)
        · injection hx with hx; injection hx with hx; subst hx
          rw [if_pos (by simpa using hm)]
        · injection hx with hx; injection hx with _ hx; cases hx
    | [b0, b1] =>
      simp only [parseOpcode]
      constructor
      · intro h; split at h
        · cases h
        · rename_i hc; injection h with h; exact Or.inr ⟨b0, b1, rfl, hc, h.symm⟩
      · rintro (⟨x, hx, _⟩ | ⟨x, y, hx, hne, rfl⟩)
        · injection hx with hx; injection hx with _ hx; cases hx
        · injection hx with hx; injection hx with h1 hx; injection hx with h2 _; subst h1; subst h2
          rw [if_neg hne]
    | _ :: _ :: _ :: _ => simp [parseOpcode]

/-! ### deferred (cross-spend) validation, declaratively -/

theorem optLe_false_iff (o : Option Nat) (v : Nat) : optLe o v = false ↔ ∀ x, o = some x → v < x := by
  cases o with
  | none => simp [optLe]
  | some y => simp [optLe]

/-- **Cross-spend assertions pass exactly when a matching counterpart exists.**  `validate_conditions`
accepts iff: no coin is minted; the fee fits in what is left; absolute before/after locks are
compatible; every asserted concurrent spend / puzzle is spent in the bundle; every asserted
announcement id is the SHA-256 of (coin id ‖ message) resp. (puzzle hash ‖ message) of an announcement
made in the bundle; every ASSERT_EPHEMERAL spend is ephemeral and no spend with a relative or birth
condition is; every message key is received exactly as often as it is sent. -/
theorem guard_bind (c : Prop) [Decidable c] (k : R Unit) :
    ((if c then (Except.error Err.reject : R PUnit) else pure PUnit.unit) >>= fun _ => k) = .ok () ↔ ¬ c ∧ k = .ok () := by
  by_cases h : c <;> simp [h, bind, Except.bind, pure, Except.pure]

theorem guard_last : ((pure () : R Unit) = .ok ()) ↔ True := by simp [pure, Except.pure]

theorem validateConditions_iff (ret : Bundle) (st : PState) :
    validateConditions ret st = .ok () ↔
      ret.additionAmount ≤ ret.removalAmount ∧
      ret.reserveFee ≤ ret.removalAmount - ret.additionAmount ∧
      (∀ bh, ret.beforeHeightAbsolute = some bh → ret.heightAbsolute < bh) ∧
      (∀ bs, ret.beforeSecondsAbsolute = some bs → ret.secondsAbsolute < bs) ∧
      (∀ id ∈ st.assertConcurrentSpend, id ∈ st.spentCoins) ∧
      (∀ ph ∈ st.assertConcurrentPuzzle, ph ∈ st.spentPuzzles) ∧
      (∀ a ∈ st.assertCoin, ∃ p ∈ st.announceCoin, a = sha256 (p.1 ++ p.2)) ∧
      (∀ i ∈ st.assertEphemeral, isEphemeral st ret.spends i = true) ∧
      (∀ i ∈ st.assertNotEphemeral, isEphemeral st ret.spends i = false) ∧
      (∀ a ∈ st.assertPuzzle, ∃ p ∈ st.announcePuzzle, a = sha256 (p.1 ++ p.2)) ∧
      (∀ m ∈ st.messages, ((st.messages.filter (fun x => x.1 == m.1)).map (·.2)).sum = 0) := by
  unfold validateConditions
  constructor
  · intro h
    split at h
    · rename_i hv
      simp only [validOk, messagesBalanced, Bool.and_eq_true, Bool.not_eq_true', decide_eq_false_iff_not, List.any_eq_false] at hv
      obtain ⟨⟨⟨⟨⟨⟨⟨⟨⟨⟨k1, k2⟩, k3⟩, k4⟩, k5⟩, k6⟩, k7⟩, k8⟩, k9⟩, k10⟩, k11⟩ := hv
      refine ⟨by omega, by omega, (optLe_false_iff _ _).mp k3, (optLe_false_iff _ _).mp k4, ?_, ?_, ?_, ?_, ?_, ?_, ?_⟩
      · intro id hid; simpa using List.all_eq_true.mp k5 id hid
      · intro ph hph; simpa using List.all_eq_true.mp k6 ph hph
      · intro a ha
        have := List.all_eq_true.mp k7 a ha
        simp only [List.contains_eq_mem, List.mem_map, decide_eq_true_eq] at this
        obtain ⟨p, hp, e⟩ := this
        exact ⟨p, hp, e.symm⟩
      · intro i hi; exact List.all_eq_true.mp k8 i hi
      · intro i hi; simpa using k9 i hi
      · intro a ha
        have := List.all_eq_true.mp k10 a ha
        simp only [List.contains_eq_mem, List.mem_map, decide_eq_true_eq] at this
        obtain ⟨p, hp, e⟩ := this
        exact ⟨p, hp, e.symm⟩
      · intro m hm; simpa using List.all_eq_true.mp k11 m hm
    · cases h
  · rintro ⟨c1, c2, c3, c4, c5, c6, c7, c8, c9, c10, c11⟩
    rw [if_pos]
    simp only [validOk, messagesBalanced, Bool.and_eq_true, Bool.not_eq_true', decide_eq_false_iff_not, List.any_eq_false]
    refine ⟨⟨⟨⟨⟨⟨⟨⟨⟨⟨by omega, by omega⟩, (optLe_false_iff _ _).mpr c3⟩, (optLe_false_iff _ _).mpr c4⟩, ?_⟩, ?_⟩, ?_⟩, ?_⟩, ?_⟩, ?_⟩, ?_⟩
    · exact List.all_eq_true.mpr (fun id hid => by simpa using c5 id hid)
    · exact List.all_eq_true.mpr (fun ph hph => by simpa using c6 ph hph)
    · apply List.all_eq_true.mpr
      intro a ha
      obtain ⟨p, hp, e⟩ := c7 a ha
      simp only [List.contains_eq_mem, List.mem_map, decide_eq_true_eq]
      exact ⟨p, hp, e.symm⟩
    · exact List.all_eq_true.mpr c8
    · intro i hi; simpa using c9 i hi
    · apply List.all_eq_true.mpr
      intro a ha
      obtain ⟨p, hp, e⟩ := c10 a ha
      simp only [List.contains_eq_mem, List.mem_map, decide_eq_true_eq]
      exact ⟨p, hp, e.symm⟩
    · exact List.all_eq_true.mpr (fun m hm => by simpa using c11 m hm)

end ChiaModel.C01

/-! ## refinement to the order-free rules -/

namespace ChiaModel.C01
open ChiaModel ChiaModel.Cond ChiaModel.Rules ChiaModel.TL

/-! ### one spend: the parsed conditions -/

/-- **Per-spend refinement.**  Let `s` be the parser state in which the conditions of a spend are entered
(a fresh spend record; bundle summary and parse state as left by the earlier spends, whose reserved fee is a
u64) and `cs` the parsed conditions of the spend in listing order.  The fold of the parser's per-condition
effect over `cs` (`applyAll`, i.e. `applyCond` = the `match` of `parse_conditions`, with early exit) accepts
iff the ORDER-FREE per-spend rules `SpendAccepts` hold for the spend's attributes, the fee reserved before
and the announcement budget; and then the state is exactly `spendResult`: `s` with the order-free summary
`spendSummary` of `cs` entered (max / min / common value for the locks, created coins and the seven
AGG_SIG lists in listing order, sums for additions and fee, absolute locks combined with the earlier
spends' by max / min, the announcements / assertions / messages / signed pairs appended to the parse state).
The equality is an equality of complete records (every field, lists in order). -/
theorem spend_refines (env : Env) (s : CSt) (hs : FreshSpend s.spend) (hfee : s.ret.reserveFee < 2 ^ 64)
    (cs : List Cond) (s' : CSt) :
    applyAll env s cs = .ok s' ↔
      SpendAccepts env (Rules.attrsOf s.spend) s.ret.reserveFee s.countdown cs ∧ s' = spendResult env s cs :=
  applyAll_iff env s hs hfee cs s'

/-- the conditions of a spend are rejected exactly when the per-spend rules fail (totality) -/
theorem spend_rejects (env : Env) (s : CSt) (hs : FreshSpend s.spend) (hfee : s.ret.reserveFee < 2 ^ 64)
    (cs : List Cond) :
    (∃ e, applyAll env s cs = .error e) ↔ ¬ SpendAccepts env (Rules.attrsOf s.spend) s.ret.reserveFee s.countdown cs := by
  cases h : applyAll env s cs with
  | error e =>
    refine ⟨fun _ ha => ?_, fun _ => ⟨e, rfl⟩⟩
    have := (spend_refines env s hs hfee cs _).mpr ⟨ha, rfl⟩
    rw [h] at this; cases this
  | ok s' =>
    refine ⟨fun ⟨e, he⟩ => (by cases he), fun hn => absurd ((spend_refines env s hs hfee cs s').mp h).1 hn⟩

/-- **The per-spend rules are order-free**: they hold of a condition list iff they hold of any
permutation of it. -/
theorem spend_accepts_order_free (env : Env) (a : Attrs) (feeBefore countdown : Nat) {cs cs' : List Cond}
    (hp : List.Perm cs cs') : SpendAccepts env a feeBefore countdown cs ↔ SpendAccepts env a feeBefore countdown cs' :=
  accepts_perm env a feeBefore countdown hp

/-- `spendResult`, field by field: what the state after the conditions `cs` of a spend is, in terms of
the state `s` before them and order-free aggregates of `cs`.  (All by unfolding the specification.) -/
theorem spend_result_fields (env : Env) (s : CSt) (cs : List Cond) :
    let r := spendResult env s cs
    let a := Rules.attrsOf s.spend
    -- spend record
    r.spend.heightRelative = maxOpt (heightRels cs) ∧ r.spend.secondsRelative = maxOpt (secondsRels cs) ∧
    r.spend.beforeHeightRelative = minOpt (beforeHeightRels cs) ∧
    r.spend.beforeSecondsRelative = minOpt (beforeSecondsRels cs) ∧
    r.spend.birthHeight = commonValue (birthHeights cs) ∧ r.spend.birthSeconds = commonValue (birthSeconds cs) ∧
    r.spend.createCoin = newCoins cs ∧
    r.spend.aggSigMe = sigsOf Gen.opAggSigMe cs ∧ r.spend.aggSigParent = sigsOf Gen.opAggSigParent cs ∧
    r.spend.aggSigPuzzle = sigsOf Gen.opAggSigPuzzle cs ∧ r.spend.aggSigAmount = sigsOf Gen.opAggSigAmount cs ∧
    r.spend.aggSigPuzzleAmount = sigsOf Gen.opAggSigPuzzleAmount cs ∧
    r.spend.aggSigParentAmount = sigsOf Gen.opAggSigParentAmount cs ∧
    r.spend.aggSigParentPuzzle = sigsOf Gen.opAggSigParentPuzzle cs ∧
    r.spend.flags = (bif anyNotEphemeral cs then s.spend.flags + HAS_RELATIVE_CONDITION else s.spend.flags) ∧
    r.spend.parentId = s.spend.parentId ∧ r.spend.coinAmount = s.spend.coinAmount ∧
    r.spend.puzzleHash = s.spend.puzzleHash ∧ r.spend.coinId = s.spend.coinId ∧
    r.spend.executionCost = s.spend.executionCost ∧ r.spend.conditionCost = s.spend.conditionCost ∧
    -- bundle summary
    r.ret.reserveFee = s.ret.reserveFee + feeSum cs ∧ r.ret.additionAmount = s.ret.additionAmount + additions cs ∧
    r.ret.heightAbsolute = max s.ret.heightAbsolute (maxList (heightAbss cs)) ∧
    r.ret.secondsAbsolute = max s.ret.secondsAbsolute (maxList (secondsAbss cs)) ∧
    r.ret.beforeHeightAbsolute = minOpt2 s.ret.beforeHeightAbsolute (minOpt (beforeHeightAbss cs)) ∧
    r.ret.beforeSecondsAbsolute = minOpt2 s.ret.beforeSecondsAbsolute (minOpt (beforeSecondsAbss cs)) ∧
    r.ret.aggSigUnsafe = s.ret.aggSigUnsafe ++ sigsOf Gen.opAggSigUnsafe cs ∧
    r.ret.spends = s.ret.spends ∧ r.ret.removalAmount = s.ret.removalAmount ∧ r.ret.cost = s.ret.cost ∧
    r.ret.executionCost = s.ret.executionCost ∧ r.ret.conditionCost = s.ret.conditionCost ∧
    r.ret.validatedSignature = s.ret.validatedSignature ∧
    -- parse state (the model puts the latest item first, hence `reverse`)
    r.st.announceCoin = (cs.filterMap (coinAnnouncementOf a)).reverse ++ s.st.announceCoin ∧
    r.st.announcePuzzle = (cs.filterMap (puzzleAnnouncementOf a)).reverse ++ s.st.announcePuzzle ∧
    r.st.assertCoin = (cs.filterMap assertCoinAnnouncementOf).reverse ++ s.st.assertCoin ∧
    r.st.assertPuzzle = (cs.filterMap assertPuzzleAnnouncementOf).reverse ++ s.st.assertPuzzle ∧
    r.st.messages = (cs.filterMap (messageOf a)).reverse ++ s.st.messages ∧
    r.st.assertConcurrentSpend = (cs.filterMap concurrentSpendOf).reverse ++ s.st.assertConcurrentSpend ∧
    r.st.assertConcurrentPuzzle = (cs.filterMap concurrentPuzzleOf).reverse ++ s.st.assertConcurrentPuzzle ∧
    r.st.assertEphemeral = List.replicate (ephemeralCount cs) s.ret.spends.length ++ s.st.assertEphemeral ∧
    r.st.assertNotEphemeral =
      (bif anyNotEphemeral cs then s.ret.spends.length :: s.st.assertNotEphemeral else s.st.assertNotEphemeral) ∧
    r.st.pkmPairs = s.st.pkmPairs ++
      (if hasFlag env.flags Gen.flagDontValidateSignature then [] else cs.filterMap (signedPairOf a)) ∧
    r.st.spentCoins = s.st.spentCoins ∧ r.st.spentPuzzles = s.st.spentPuzzles ∧
    -- loop counters
    r.countdown = (if hasFlag env.flags Gen.flagCostConditions then s.countdown else s.countdown - announceCount cs) ∧
    r.counter = s.counter :=
  ⟨rfl, rfl, rfl, rfl, rfl, rfl, rfl, rfl, rfl, rfl, rfl, rfl, rfl, rfl, rfl, rfl, rfl, rfl, rfl, rfl, rfl,
   rfl, rfl, rfl, rfl, rfl, rfl, rfl, rfl, rfl, rfl, rfl, rfl, rfl,
   rfl, rfl, rfl, rfl, rfl, rfl, rfl, rfl, rfl, rfl, rfl, rfl, rfl, rfl⟩

/-- The aggregates used by the summary are the declarative ones of C03: `maxOpt` is the maximum (absent
iff the list is empty), `minOpt` the minimum, `maxList` the maximum with 0 for "no constraint", and under
the "all equal" rule `commonValue` is the value all elements have. -/
theorem summary_aggregates_spec (l : List Nat) :
    MaxSpec (maxOpt l) l ∧ MinSpec (minOpt l) l ∧ AbsMaxSpec (maxList l) l ∧
    ((∀ v ∈ l, ∀ w ∈ l, v = w) → SameSpec (commonValue l) l) :=
  ⟨maxOpt_spec l, minOpt_spec l, maxList_spec l, commonValue_spec l⟩

/-- the lock fields of an accepted spend, in the vocabulary of C03 -/
theorem spend_locks_spec (env : Env) (s : CSt) (cs : List Cond)
    (ha : SpendAccepts env (Rules.attrsOf s.spend) s.ret.reserveFee s.countdown cs) :
    MaxSpec (spendResult env s cs).spend.heightRelative (heightRels cs) ∧
    MaxSpec (spendResult env s cs).spend.secondsRelative (secondsRels cs) ∧
    MinSpec (spendResult env s cs).spend.beforeHeightRelative (beforeHeightRels cs) ∧
    MinSpec (spendResult env s cs).spend.beforeSecondsRelative (beforeSecondsRels cs) ∧
    SameSpec (spendResult env s cs).spend.birthHeight (birthHeights cs) ∧
    SameSpec (spendResult env s cs).spend.birthSeconds (birthSeconds cs) :=
  ⟨maxOpt_spec _, maxOpt_spec _, minOpt_spec _, minOpt_spec _, commonValue_spec _ ha.2.2.2.1, commonValue_spec _ ha.2.2.2.2.1⟩

/-! non-vacuity of `SpendAccepts`: a list that exercises every rule is accepted, one-edit variants are not -/

example : SpendAccepts exEnv exAttrs 0 1024 exConds := by decide
-- a wrong ASSERT_MY_COIN_ID / ASSERT_MY_AMOUNT
example : ¬ SpendAccepts exEnv exAttrs 0 1024 (.assertMyCoinId [4] :: exConds) := by decide
example : ¬ SpendAccepts exEnv exAttrs 0 1024 (.assertMyAmount 11 :: exConds) := by decide
-- a second CREATE_COIN with the same (puzzle hash, amount), different hint
example : ¬ SpendAccepts exEnv exAttrs 0 1024 (.createCoin [7] 4 (some [1]) :: exConds) := by decide
-- a differing birth height
example : ¬ SpendAccepts exEnv exAttrs 0 1024 (.assertMyBirthHeight 4 :: exConds) := by decide
-- ASSERT_BEFORE_HEIGHT_RELATIVE 5 against ASSERT_HEIGHT_RELATIVE 5; ASSERT_SECONDS_RELATIVE 101 against before 101
example : ¬ SpendAccepts exEnv exAttrs 0 1024 (.assertBeforeHeightRelative 5 :: exConds) := by decide
example : ¬ SpendAccepts exEnv exAttrs 0 1024 (.assertSecondsRelative 101 :: exConds) := by decide
-- an invalid public key
example : ¬ SpendAccepts exEnv exAttrs 0 1024 (.aggSig Gen.opAggSigParent [0] [] :: exConds) := by decide
-- an AGG_SIG_UNSAFE message ending in a domain-separation constant (fine for AGG_SIG_ME)
example : ¬ SpendAccepts exEnv exAttrs 0 1024 (.aggSig Gen.opAggSigUnsafe [1] Gen.aggSigMeAdditionalData :: exConds) := by
  decide
example : SpendAccepts exEnv exAttrs 0 1024 (.aggSig Gen.opAggSigMe [1] Gen.aggSigMeAdditionalData :: exConds) := by
  decide
-- fee overflow: the list reserves 3
example : ¬ SpendAccepts exEnv exAttrs (2 ^ 64 - 3) 1024 exConds := by decide
example : SpendAccepts exEnv exAttrs (2 ^ 64 - 4) 1024 exConds := by decide
-- the list has two announcement-class conditions: a budget of 1 is exceeded, unless COST_CONDITIONS is on
example : ¬ SpendAccepts exEnv exAttrs 0 1 exConds := by decide
example : SpendAccepts { exEnv with flags := Gen.flagCostConditions } exAttrs 0 1 exConds := by decide
-- the summary of the list
example : (spendSummary exEnv exAttrs exConds).heightRelative = some 5
    ∧ (spendSummary exEnv exAttrs exConds).beforeHeightRelative = some 9
    ∧ (spendSummary exEnv exAttrs exConds).birthHeight = some 3
    ∧ (spendSummary exEnv exAttrs exConds).fee = 3
    ∧ (spendSummary exEnv exAttrs exConds).additions = 9
    ∧ (spendSummary exEnv exAttrs exConds).heightAbsolute = 4
    ∧ (spendSummary exEnv exAttrs exConds).beforeHeightAbsolute = some 2
    ∧ (spendSummary exEnv exAttrs exConds).createCoin = [⟨[7], 4, none⟩, ⟨[7], 5, some [9]⟩]
    ∧ (spendSummary exEnv exAttrs exConds).aggSigMe = [([1], [2])]
    ∧ (spendSummary exEnv exAttrs exConds).announceCoin = [([3], [1])]
    ∧ (spendSummary exEnv exAttrs exConds).announceCount = 2
    ∧ (spendSummary exEnv exAttrs exConds).notEphemeral = true := by decide
-- non-vacuity of the hypotheses of `spend_refines`
example : FreshSpend ({ parentId := [], coinAmount := 5, puzzleHash := [], coinId := [] } : Spend) := by
  constructor <;> first | rfl | decide

/-! ### one spend: the condition loop of `parse_conditions` -/

/-- **The condition loop refines the per-spend rules.**  `condLoop` (for every element: opcode
recognition, pre-charge, argument parsing under the flags, visitor, effect, SOFTFORK charge) accepts the
tree `t` from a fresh per-spend state `s` with cost countdown `m` iff
 * `t` is a NIL-terminated list `cs` every element of which is ignored or parses — `parseAll`, i.e. the
   argument grammar `parseArgs` / `parseOpcode` applied element-wise, an element that is not an opcode
   being ignored unless NO_UNKNOWN_CONDS is set (an order-free condition: `PermLoop.parseAll_perm`),
 * the table cost of the list (`totalCost`, a sum) fits the countdown, which is reduced by it,
 * the parsed conditions satisfy the order-free per-spend rules `SpendAccepts`,
and then the state is `spendResult` of the parsed conditions, with the table cost booked, the recognised
conditions counted and the eligibility flags cleared that the mempool visitor clears (`wrapF … allBits`). -/
theorem condLoop_refines (env : Env) (t : Sexp) (s : CSt) (hs : FreshSpend s.spend) (hfee : s.ret.reserveFee < 2 ^ 64)
    (m : Nat) (s' : CSt) (m' : Nat) :
    condLoop env t s m = .ok (s', m') ↔
      ∃ cs items, sexpList t = some cs ∧ parseAll env.flags cs = .ok items ∧
        totalCost env.flags items ≤ m ∧ m' = m - totalCost env.flags items ∧
        SpendAccepts env (Rules.attrsOf s.spend) s.ret.reserveFee s.countdown (itemConds items) ∧
        s' = wrapF (allBits env.mempool s.counter items) (spendResult env s (itemConds items)) (totalCount items)
              (totalCost env.flags items) :=
  condLoop_rules env t s hs hfee m s' m'

/-! ### the bundle -/

/-- **C01, refinement.**  `parse_spends` accepts the generator output `t` under cost limit `L` (flags,
visitor and key validity in `env`, signature verdict `sigOk`) with summary `b` and parse state `st` iff
 * `t` parses (`parseBundle`: `(spends . ext)` with `spends` NIL-terminated, every spend a tuple
   `(parent ph amount conds . ext)` with 32-byte parent id and puzzle hash and a canonical u64 amount, every
   condition list NIL-terminated with every element ignored or parsing per the argument grammar), giving the
   parsed spends `ps` (attributes incl. coin id = SHA-256(parent ‖ puzzle hash ‖ amount atom), and items);
 * the bundle rules `BundleAccepts` hold — all order-free: spend count within the limit, coin ids pairwise
   distinct, Σ table cost ≤ `L`, every spend satisfies the per-spend rules `SpendAccepts`, Σ RESERVE_FEE <
   2^64, the deferred cross-spend rules (`Deferred`: no minting, fee covered, absolute locks compatible,
   concurrent spends / puzzles present, announcements matched, ephemeral rules, messages balanced) hold of the
   summary, and the aggregate signature verifies the collected (key, signed text) pairs unless
   DONT_VALIDATE_SIGNATURE;
 * `(b, st)` is `bundleSummary`: the left fold over the spends, in listing order, of the per-spend
   summaries (`enterSpend` = `spendResult` + cost bookkeeping + finished spend record), then the visitor's
   post-processing, `validated_signature`, and `cost` = the table cost.
All record equalities are exact (every field; lists in listing order, which is stronger than "up to the
order of `create_coin`").  Both visitors, all flags.

What the specification takes from the model rather than restating: (a) the argument grammar of the
individual conditions (`parseArgs`, `parseOpcode`, via `parseAll`; its rule table is Appendix A and is tied
to the Rust code by the correspondence check; `parseOpcode_spec` above is its opcode part); (b) the values
of the two mempool eligibility flags in `Spend.flags` (`newSpendVisit`, `allBits`, `postSpend`,
`postProcess`; their closed forms per Appendix A.3 are `dedup_flag_closed_form`, `ff_flag_closed_form` and
`flags_empty_visitor` below); (c) the cost table in
list form (`totalCost`, `spendCharge`; C04 proves it equal to the consensus cost table). -/
theorem C01_refines (env : Env) (sigOk : List (Bytes × Bytes) → Bool) (t : Sexp) (L cc : Nat) (b : Bundle) (st : PState) :
    parseSpends env sigOk t L cc = .ok (b, st) ↔
      ∃ ps, parseBundle env.flags t = some ps ∧ BundleAccepts env sigOk L cc ps ∧ (b, st) = bundleSummary env cc ps := by
  rw [parseSpends_rules]
  unfold BundleAccepts
  have hv : ∀ ps, validateConditions (postProcess env (bundleFold env cc ps).1 (bundleFold env cc ps).2) (bundleFold env cc ps).2 = .ok ()
      ↔ Deferred (postProcess env (bundleFold env cc ps).1 (bundleFold env cc ps).2) (bundleFold env cc ps).2 :=
    fun ps => validateConditions_iff _ _
  constructor
  · rintro ⟨ps, h0, h1, h2, h3, h4, h5, h6, h7, h8⟩
    exact ⟨ps, h0, ⟨h1, h2, h3, h4, h5, (hv ps).mp h6, h7⟩, h8⟩
  · rintro ⟨ps, h0, ⟨h1, h2, h3, h4, h5, h6, h7⟩, h8⟩
    exact ⟨ps, h0, h1, h2, h3, h4, h5, (hv ps).mpr h6, h7, h8⟩

/-- **C01, rejection.**  `parse_spends` rejects (with either error kind) exactly when the generator
output does not parse or the parsed spends violate the bundle rules. -/
theorem C01_rejects (env : Env) (sigOk : List (Bytes × Bytes) → Bool) (t : Sexp) (L cc : Nat) :
    (∃ e, parseSpends env sigOk t L cc = .error e) ↔
      ¬ ∃ ps, parseBundle env.flags t = some ps ∧ BundleAccepts env sigOk L cc ps := by
  cases h : parseSpends env sigOk t L cc with
  | error e =>
    refine ⟨fun _ ⟨ps, h1, h2⟩ => ?_, fun _ => ⟨e, rfl⟩⟩
    have := (C01_refines env sigOk t L cc _ _).mpr ⟨ps, h1, h2, rfl⟩
    rw [h] at this; cases this
  | ok r =>
    obtain ⟨b, st⟩ := r
    obtain ⟨ps, h1, h2, _⟩ := (C01_refines env sigOk t L cc b st).mp h
    exact ⟨fun ⟨e, he⟩ => (by cases he), fun hn => absurd ⟨ps, h1, h2⟩ hn⟩

/-- the summary of an accepted bundle is a function of the parsed spends: two accepting runs on the same
tree under the same flags report the same summary whatever the limit and the signature verdict -/
theorem C01_summary_unique (env : Env) (sigOk sigOk' : List (Bytes × Bytes) → Bool) (t : Sexp) (L L' cc : Nat)
    (r r' : Bundle × PState) (h : parseSpends env sigOk t L cc = .ok r) (h' : parseSpends env sigOk' t L' cc = .ok r') :
    r = r' := by
  obtain ⟨b, st⟩ := r
  obtain ⟨b', st'⟩ := r'
  obtain ⟨ps, h1, _, h3⟩ := (C01_refines env sigOk t L cc b st).mp h
  obtain ⟨ps', h1', _, h3'⟩ := (C01_refines env sigOk' t L' cc b' st').mp h'
  rw [h1] at h1'; injection h1' with h1'; subst h1'
  rw [h3, h3']

/-! non-vacuity of `BundleAccepts`: a two-spend bundle is accepted; one-edit variants are not -/

example : ∃ ps, parseBundle envB.flags exBundle = some ps ∧ BundleAccepts envB (fun _ => true) 11000000000 0 ps := by
  have h : okB (parseSpends envB (fun _ => true) exBundle 11000000000 0) = true := by decide +kernel
  obtain ⟨⟨b, st⟩, h⟩ := okB_true h
  obtain ⟨ps, h1, h2, _⟩ := (C01_refines _ _ _ _ _ b st).mp h
  exact ⟨ps, h1, h2⟩
-- the table cost of that bundle is 1 800 000 (one CREATE_COIN; COST_CONDITIONS off): the limit is exact
example : ¬ ∃ ps, parseBundle envB.flags exBundle = some ps ∧ BundleAccepts envB (fun _ => true) 1799999 0 ps :=
  (C01_rejects _ _ _ _ _).mp (okB_false (by decide +kernel))
example : ∃ ps, parseBundle envB.flags exBundle = some ps ∧ BundleAccepts envB (fun _ => true) 1800000 0 ps := by
  have h : okB (parseSpends envB (fun _ => true) exBundle 1800000 0) = true := by decide +kernel
  obtain ⟨⟨b, st⟩, h⟩ := okB_true h
  obtain ⟨ps, h1, h2, _⟩ := (C01_refines _ _ _ _ _ b st).mp h
  exact ⟨ps, h1, h2⟩
-- the same coin spent twice
example : ¬ ∃ ps, parseBundle envB.flags (.pair (slist [spnd 1 [10] [], spnd 1 [10] []]) (.atom [])) = some ps ∧
    BundleAccepts envB (fun _ => true) 11000000000 0 ps :=
  (C01_rejects _ _ _ _ _).mp (okB_false (by decide +kernel))
-- minting: a coin of 10 creating a coin of 11
example : ¬ ∃ ps, parseBundle envB.flags (.pair (slist [spnd 1 [10] [cnd 51 [h32 7, [11]]]]) (.atom [])) = some ps ∧
    BundleAccepts envB (fun _ => true) 11000000000 0 ps :=
  (C01_rejects _ _ _ _ _).mp (okB_false (by decide +kernel))
-- a failing aggregate signature
example : ¬ ∃ ps, parseBundle envB.flags exBundle = some ps ∧ BundleAccepts envB (fun _ => false) 11000000000 0 ps :=
  (C01_rejects _ _ _ _ _).mp (okB_false (by decide +kernel))
-- an improper spend list (terminator is not NIL)
example : ¬ ∃ ps, parseBundle envB.flags (.pair (.pair (spnd 1 [10] []) (.atom [1])) (.atom [])) = some ps ∧
    BundleAccepts envB (fun _ => true) 11000000000 0 ps :=
  (C01_rejects _ _ _ _ _).mp (okB_false (by decide +kernel))

/-! ### the mempool eligibility flags (Appendix A.3) -/

/-- **Closed form of ELIGIBLE_FOR_DEDUP.**  Under the mempool visitor, the spend record that the summary
fold pushes for a spend `p` (`enterSpend`; `postProcess` never touches this flag) has ELIGIBLE_FOR_DEDUP set
iff the spend has no AGG_SIG condition of any kind, no SEND_MESSAGE / RECEIVE_MESSAGE, and its created
amounts sum to at least the coin amount. -/
theorem dedup_flag_closed_form (env : Env) (cc : Nat) (acc : Bundle × PState) (p : PSpend) (sp : Spend)
    (hm : env.mempool = true) (hl : (enterSpend env cc acc p).1.spends.getLast? = some sp) :
    (sp.flags &&& ELIGIBLE_FOR_DEDUP ≠ 0 ↔
      (∀ c ∈ itemConds p.items, (∀ op pk msg, c ≠ .aggSig op pk msg) ∧ (∀ m d g, c ≠ .sendMessage m d g) ∧
        (∀ src m g, c ≠ .receiveMessage src m g)) ∧
      p.attrs.amount ≤ additions (itemConds p.items)) :=
  Rules.dedup_flag_closed_form env cc acc p sp hm hl

/-- **Closed form of ELIGIBLE_FOR_FF, per-spend part.**  Under the mempool visitor, the spend record that
the summary fold pushes for a spend `p` has ELIGIBLE_FOR_FF set iff the coin amount is odd, no recognised
condition blocks fast-forward at its position (`blocksFF`: ASSERT_MY_COIN_ID, relative locks with an
in-range value, birth assertions, ASSERT_EPHEMERAL, CREATE_COIN_ANNOUNCEMENT, AGG_SIG_ME / PARENT /
PARENT_AMOUNT / PARENT_PUZZLE, a message whose own-side mode has the parent bit, and ASSERT_MY_PARENT_ID
anywhere but as the second recognised condition), and some created coin has the spend's own puzzle hash and
amount.  Afterwards `postProcess` clears the flag of a spend whose coin id is named by an
ASSERT_CONCURRENT_SPEND of the bundle or one of whose created coins is spent in the bundle (that part is
the model's definition, which is already a closed form). -/
theorem ff_flag_closed_form (env : Env) (cc : Nat) (acc : Bundle × PState) (p : PSpend) (sp : Spend)
    (hm : env.mempool = true) (hl : (enterSpend env cc acc p).1.spends.getLast? = some sp) :
    (sp.flags &&& ELIGIBLE_FOR_FF ≠ 0 ↔
      p.attrs.amount % 2 = 1 ∧
      (∀ i c, (itemConds p.items)[i]? = some c → blocksFF i c = false) ∧
      (p.attrs.puzzleHash, p.attrs.amount) ∈ createKeys (itemConds p.items)) :=
  Rules.ff_flag_closed_form env cc acc p sp hm hl

/-- under the empty visitor (block validation) the eligibility flags are never set: the only bit ever set
in `Spend.flags` is HAS_RELATIVE_CONDITION -/
theorem flags_empty_visitor (env : Env) (cc : Nat) (acc : Bundle × PState) (p : PSpend) (sp : Spend)
    (hm : env.mempool = false) (hl : (enterSpend env cc acc p).1.spends.getLast? = some sp) :
    sp.flags = (bif anyNotEphemeral (itemConds p.items) then HAS_RELATIVE_CONDITION else 0) :=
  Rules.flags_empty_visitor env cc acc p sp hm hl

/-! ### message keys -/

/-- **`msgKey_injective`.**  A message is counted under the key (source key ‖ destination key ‖ message).
Each end-point key has the form `KeyForm`: a mode byte followed by exactly the fixed-width fields the mode
selects (coin id for mode 7; otherwise parent id 32, puzzle hash 32, amount 8 bytes, each iff its mode bit is
set).  For keys of that form the concatenation determines source, destination and message, so "every key
is sent exactly as often as it is received" (`Deferred`, last clause) is about the right objects. -/
theorem msgKey_injective {src dst msg src' dst' msg' : Bytes} (h1 : KeyForm src) (h2 : KeyForm dst)
    (h1' : KeyForm src') (h2' : KeyForm dst') (h : src ++ dst ++ msg = src' ++ dst' ++ msg') :
    src = src' ∧ dst = dst' ∧ msg = msg' :=
  msgKey_inj h1 h2 h1' h2' h

/-- every end-point key that enters a message key has the form `KeyForm`: the key of the spend's own end
(`selfKey`, for a spend whose parent id, puzzle hash and coin id have 32 bytes — which `spendTuple`
guarantees, the coin id being a SHA-256 digest), and the foreign end that `parse_args` returns for a
SEND_MESSAGE resp. RECEIVE_MESSAGE condition -/
theorem message_keys_wellformed :
    (∀ (mode : Nat) (a : Attrs), a.parentId.length = 32 → a.puzzleHash.length = 32 → a.coinId.length = 32 →
      KeyForm (selfKey mode a)) ∧
    (∀ (sp conds : Sexp) (a : Attrs), spendTuple sp = some (a, conds) →
      a.parentId.length = 32 ∧ a.puzzleHash.length = 32 ∧ a.coinId.length = 32) ∧
    (∀ (c : Sexp) (flags : Nat) (cva : Cond), parseArgs c Gen.opSendMessage flags = .ok cva →
      ∃ srcMode dst msg, cva = .sendMessage srcMode dst msg ∧ KeyForm dst) ∧
    (∀ (c : Sexp) (flags : Nat) (cva : Cond), parseArgs c Gen.opReceiveMessage flags = .ok cva →
      ∃ src dstMode msg, cva = .receiveMessage src dstMode msg ∧ KeyForm src) := by
  refine ⟨fun mode a h1 h2 h3 => keyForm_fromSelf mode _ _ _ _ h1 h2 h3, ?_,
    fun c flags cva h => parseArgs_send_keyForm h, fun c flags cva h => parseArgs_receive_keyForm h⟩
  intro sp conds a h
  obtain ⟨parent, ph, amt, r, v, _, l1, l2, _, rfl⟩ := spendTuple_some h
  exact ⟨l1, l2, sha256_len _⟩

-- non-vacuity: a mode-5 key (parent id and amount) and a mode-7 key
example : KeyForm (spendIdFromSelf 5 (h32 1) (h32 2) 10 (h32 3)) := keyForm_fromSelf 5 _ _ _ _ rfl rfl rfl
example : ¬ KeyForm [5, 1, 2] := by
  rintro ⟨mode, rest, h, hl⟩
  injection h with h1 h2; subst h1
  simp [keyLen] at hl

/-! ### open -/

/-- FORMERLY OPEN, now proved (`message_opcode_inversion` below): the converse reading of
`message_keys_wellformed` — a parsed condition is a SEND_MESSAGE / RECEIVE_MESSAGE condition only if its
opcode is 66 / 67.  With it, `message_keys_wellformed_all` speaks about every message condition of
`itemConds items` rather than about the two opcodes.

The second formerly open item — the argument grammar of the individual conditions (Appendix A's table for
`parseArgs`: argument shapes, integer classes, STRICT_ARGS_COUNT terminators) restated independently of the
model — is closed by `parseArgs_table` and `C01_refines_grammar` below. -/
def open_message_opcode_inversion : Prop :=
  ∀ (c : Sexp) (op flags : Nat) (cva : Cond), parseArgs c op flags = .ok cva →
    ((∃ m d g, cva = .sendMessage m d g) → op = Gen.opSendMessage) ∧
    ((∃ src m g, cva = .receiveMessage src m g) → op = Gen.opReceiveMessage)

end ChiaModel.C01

/-! ## the argument grammar as a table (Appendix A.1), and the refinement over it -/

namespace ChiaModel.C01
open ChiaModel ChiaModel.Cond ChiaModel.Rules ChiaModel.Grammar

/-- **The argument parser is the rule table.**  For every tree `c`, every opcode number `op` (recognised
or not) and every flag set, the model's `parseArgs` (the mirror of `parse_args`) returns exactly what the
table-driven specification `specParseArgs` of `Spec/ArgGrammar.lean` prescribes: the data table `grammar`
(required argument kinds in order + tail rule per opcode), one decoding function per argument kind
(`argValue`: exact lengths for hashes and keys, ≤ 1024 bytes for messages, the integer classes
canon / neg / over / bad with a per-kind policy for neg and over, the message mode 0 … 63), the tail rules
(`tailRule`: exact, ignored, the CREATE_COIN memo / hint rule, the mode-selected end-point fields of
SEND / RECEIVE_MESSAGE), the strict-terminator rule stated once (`terminatorOk`), NO_UNKNOWN_CONDS for the
soft-fork class, and the table of constructors (`build`). -/
theorem parseArgs_table (c : Sexp) (op flags : Nat) : parseArgs c op flags = specParseArgs c op flags :=
  parseArgs_eq_spec c op flags

/-- the element-wise parse of a condition list and the parse of a generator output over the table-driven
grammar are the ones the refinement theorem `C01_refines` uses -/
theorem parse_table (flags : Nat) :
    (∀ cs, parseAll flags cs = specParseAll flags cs) ∧ (∀ t, parseBundle flags t = specParseBundle flags t) :=
  ⟨parseAll_eq_spec flags, parseBundle_eq_spec flags⟩

/-- **C01, refinement, over the table-driven argument grammar.**  The statement of `C01_refines` with the
parse of the generator output written with the rule table: `specParseBundle` = list termination and tuple
shape as before, every condition `(opcode . args)` recognised by `parseOpcode` (`parseOpcode_spec`) and its
arguments parsed by `specParseArgs`.  With this, the only things the specification still takes from the
model are (b) the mempool eligibility flags (closed forms proved above) and (c) the cost table in list form
(C04); the argument grammar — item (a) of `C01_refines` — is the independent table. -/
theorem C01_refines_grammar (env : Env) (sigOk : List (Bytes × Bytes) → Bool) (t : Sexp) (L cc : Nat) (b : Bundle) (st : PState) :
    parseSpends env sigOk t L cc = .ok (b, st) ↔
      ∃ ps, specParseBundle env.flags t = some ps ∧ BundleAccepts env sigOk L cc ps ∧ (b, st) = bundleSummary env cc ps := by
  rw [← parseBundle_eq_spec]
  exact C01_refines env sigOk t L cc b st

/-- **C01, rejection, over the table-driven argument grammar.** -/
theorem C01_rejects_grammar (env : Env) (sigOk : List (Bytes × Bytes) → Bool) (t : Sexp) (L cc : Nat) :
    (∃ e, parseSpends env sigOk t L cc = .error e) ↔
      ¬ ∃ ps, specParseBundle env.flags t = some ps ∧ BundleAccepts env sigOk L cc ps := by
  rw [← parseBundle_eq_spec]
  exact C01_rejects env sigOk t L cc

/-- the per-spend form: the condition loop over the table-driven grammar (`condLoop_refines` with
`specParseAll`) -/
theorem condLoop_refines_grammar (env : Env) (t : Sexp) (s : CSt) (hs : FreshSpend s.spend) (hfee : s.ret.reserveFee < 2 ^ 64)
    (m : Nat) (s' : CSt) (m' : Nat) :
    condLoop env t s m = .ok (s', m') ↔
      ∃ cs items, sexpList t = some cs ∧ specParseAll env.flags cs = .ok items ∧
        totalCost env.flags items ≤ m ∧ m' = m - totalCost env.flags items ∧
        SpendAccepts env (Rules.attrsOf s.spend) s.ret.reserveFee s.countdown (itemConds items) ∧
        s' = wrapF (allBits env.mempool s.counter items) (spendResult env s (itemConds items)) (totalCount items)
              (totalCost env.flags items) := by
  simp only [← parseAll_eq_spec]
  exact condLoop_refines env t s hs hfee m s' m'

/-- **Only opcodes 66 / 67 parse to message conditions** (formerly the open item
`open_message_opcode_inversion`): by the table of constructors, the entry of no other opcode builds a
`sendMessage` resp. `receiveMessage`. -/
theorem message_opcode_inversion : open_message_opcode_inversion := by
  intro c op flags cva h
  rw [parseArgs_eq_spec] at h
  obtain ⟨kinds, tail, vs, _, hb⟩ := specParseArgs_ok h
  constructor
  · rintro ⟨m, d, g, rfl⟩; exact build_send hb
  · rintro ⟨src, m, g, rfl⟩; exact build_receive hb

/-- hence every message condition that any opcode parses to carries a well-formed end-point key
(`message_keys_wellformed`, now for every parsed condition rather than per opcode) -/
theorem message_keys_wellformed_all (c : Sexp) (op flags : Nat) (cva : Cond) (h : parseArgs c op flags = .ok cva) :
    (∀ m d g, cva = .sendMessage m d g → KeyForm d) ∧ (∀ src m g, cva = .receiveMessage src m g → KeyForm src) := by
  obtain ⟨h1, h2⟩ := message_opcode_inversion c op flags cva h
  constructor
  · intro m d g e
    have hop := h1 ⟨m, d, g, e⟩
    subst hop
    obtain ⟨m', d', g', e', hk⟩ := message_keys_wellformed.2.2.1 c flags cva h
    rw [e] at e'; injection e' with _ e2 _; subst e2; exact hk
  · intro src m g e
    have hop := h2 ⟨src, m, g, e⟩
    subst hop
    obtain ⟨s', m', g', e', hk⟩ := message_keys_wellformed.2.2.2 c flags cva h
    rw [e] at e'; injection e' with e1 _ _; subst e1; exact hk

/-- only opcode 51 parses to a CREATE_COIN condition (same finite check) -/
theorem createCoin_opcode_inversion (c : Sexp) (op flags : Nat) (ph : Bytes) (a : Nat) (hint : Option Bytes)
    (h : parseArgs c op flags = .ok (.createCoin ph a hint)) : op = Gen.opCreateCoin := by
  rw [parseArgs_eq_spec] at h
  obtain ⟨_, _, vs, _, hb⟩ := specParseArgs_ok h
  exact build_createCoin hb

/-! ### the integer classes, value level -/

/-- **Integer arguments, value level** (atoms that are byte strings, widths up to 8 bytes): an atom is in
class `canon v` iff it is THE canonical CLVM encoding `canonNat v` of a value `v < 256^w` (so zero is the empty
atom only, nothing is truncated, and a redundant leading zero is never accepted); `neg` iff its two's-complement
value is negative; `over` iff it is non-negative and canonical with value ≥ 256^w; `bad` iff it is non-negative
with a redundant leading zero byte.  The four classes are the four results of `sanitize_uint`. -/
theorem int_classes_spec (w : Nat) (hw : w ≤ 8) (b : Bytes) (hb : isBytes b) :
    (∀ v, intClass w b = .canon v ↔ b = canonNat v ∧ v < 256 ^ w) ∧
    (intClass w b = .neg ↔ intOfBytes b < 0) ∧
    (intClass w b = .over ↔ 0 ≤ intOfBytes b ∧ Minimal b ∧ 256 ^ w ≤ beVal b) ∧
    (intClass w b = .bad ↔ 0 ≤ intOfBytes b ∧ ¬ Minimal b) ∧
    sanitizeUint b w = classToSan (intClass w b) := by
  have hneg : headGe128 b = false ↔ 0 ≤ intOfBytes b := by
    have := headGe128_iff_negative b hb
    cases hh : headGe128 b <;> simp [hh] at this ⊢ <;> omega
  refine ⟨fun v => ⟨fun h => intClass_canon_canonNat w hw b hb v h, ?_⟩, ?_, ?_, ?_, sanitizeUint_eq_class b w⟩
  · rintro ⟨rfl, hv⟩; exact intClass_canonNat w hw v hv
  · rw [intClass_neg_iff, headGe128_iff_negative b hb]
  · rw [intClass_over_iff w b hb, hneg]
  · rw [intClass_bad_iff, hneg]

/-! ### sanity of the table itself (finite checks) -/

/-- **The opcodes with a grammar entry are exactly the recognised ones**: the one-byte whitelist extracted
from `parse_opcode` (each exactly once, in the table's order) and every two-byte number 256 … 65535; no
other number has an entry. -/
theorem grammar_domain :
    oneByteTable.map Prod.fst = Gen.opcodeWhitelist ∧
    (List.range 256).filter (fun op => (grammar op).isSome) = Gen.opcodeWhitelist ∧
    (∀ op, (grammar op).isSome = true ↔ op ∈ Gen.opcodeWhitelist ∨ (256 ≤ op ∧ op ≤ 65535)) := by
  refine ⟨by decide, by decide +kernel, fun op => ?_⟩
  by_cases hr : 256 ≤ op ∧ op ≤ 65535
  · simp [grammar, hr]
  · by_cases hw : op ∈ Gen.opcodeWhitelist
    · have : ∀ k ∈ Gen.opcodeWhitelist, (grammar k).isSome = true := by decide
      simp [this op hw, hw]
    · have hg : grammar op = none := by
        simp only [grammar, if_neg hr]
        exact lookup_none op _ (by rw [table_keys]; exact hw)
      simp [hg, hw, hr]

/-- every AGG_SIG_* opcode takes (public key of 48 bytes, message of ≤ 1024 bytes) and nothing else -/
theorem aggSig_grammar :
    ∀ op ∈ [Gen.opAggSigParent, Gen.opAggSigPuzzle, Gen.opAggSigAmount, Gen.opAggSigPuzzleAmount,
            Gen.opAggSigParentAmount, Gen.opAggSigParentPuzzle, Gen.opAggSigUnsafe, Gen.opAggSigMe],
      grammar op = some ([.pubkey48, .announceMsg], .exact) := by decide

/-- the opcodes grouped by their grammar (each list is the complete set of one-byte opcodes with that entry) -/
theorem grammar_groups :
    Gen.opcodeWhitelist.filter (fun op => grammar op == some ([.pubkey48, .announceMsg], .exact)) = [43, 44, 45, 46, 47, 48, 49, 50] ∧
    Gen.opcodeWhitelist.filter (fun op => grammar op == some ([.hash32], .exact)) = [61, 63, 64, 65, 70, 71, 72] ∧
    Gen.opcodeWhitelist.filter (fun op => grammar op == some ([.announceMsg], .exact)) = [60, 62] ∧
    Gen.opcodeWhitelist.filter (fun op => grammar op == some ([amountU64], .exact)) = [52, 73, 74] ∧
    Gen.opcodeWhitelist.filter (fun op => grammar op == some ([.int 4 .reject .reject], .exact)) = [75] ∧
    Gen.opcodeWhitelist.filter (fun op => grammar op == some ([afterSecondsU64], .exact)) = [80, 81] ∧
    Gen.opcodeWhitelist.filter (fun op => grammar op == some ([afterHeightU32], .exact)) = [82, 83] ∧
    Gen.opcodeWhitelist.filter (fun op => grammar op == some ([beforeSecondsU64], .exact)) = [84, 85] ∧
    Gen.opcodeWhitelist.filter (fun op => grammar op == some ([beforeHeightU32], .exact)) = [86, 87] ∧
    grammar Gen.opCreateCoin = some ([.hash32, amountU64], .memos) ∧
    grammar Gen.opSendMessage = some ([.messageMode, .announceMsg], .endpoint .low) ∧
    grammar Gen.opReceiveMessage = some ([.messageMode, .announceMsg], .endpoint .high) ∧
    grammar Gen.opAssertEphemeral = some ([], .exact) ∧
    grammar Gen.opRemark = some ([], .ignored) ∧
    grammar Gen.opSoftfork = some ([costU32], .ignored) := by decide

/-- STRICT_ARGS_COUNT constrains every one-byte opcode except REMARK and SOFTFORK; NO_UNKNOWN_CONDS rejects,
of the one-byte opcodes, SOFTFORK only -/
theorem flag_exemptions :
    Gen.opcodeWhitelist.filter (fun op => (grammar op).map (·.2) == some Tail.ignored) = [Gen.opRemark, Gen.opSoftfork] ∧
    Gen.opcodeWhitelist.filter unknownClass = [Gen.opSoftfork] := by decide

/-- the end-point field table is the bit rule of `SpendId::parse`: selector 7 is the coin id; otherwise parent id
if bit 4, puzzle hash if bit 2, amount if bit 1, in that order -/
theorem endpointFields_bits :
    ∀ m, m < 8 → endpointFields.getD m [] =
      if m = 7 then [.hash32]
      else (if m / 4 % 2 = 1 then [.hash32] else []) ++ (if m / 2 % 2 = 1 then [.hash32] else []) ++
           (if m % 2 = 1 then [amountU64] else []) := by decide

/-- every opcode with a grammar entry yields a condition for well-kinded values: for each one-byte opcode the
table of constructors accepts the value shapes its grammar produces (so `build` never rejects an argument list
that the grammar accepted; checked on representative values, the shapes being all that `build` inspects) -/
theorem build_total :
    ∀ op ∈ Gen.opcodeWhitelist, ∀ kt, grammar op = some kt →
      (build op (kt.1.map (fun k => match k with
          | .int _ _ _ => Val.int 0 | .messageMode => Val.int 0 | _ => Val.bytes []) ++
        (match kt.2 with | .memos => [Val.hint none] | .endpoint _ => [Val.key []] | _ => []))).isSome = true := by
  decide

/-! ### the table at its boundaries (concrete argument lists) -/

-- `tableVerdict op flags args terminator` (Lemmas/ArgGrammar.lean): the verdict of `specParseArgs` on the argument
-- list `args` ending in `terminator` (default NIL); `bytesN n x`: the atom of `n` bytes `x` (default 7);
-- `STRICT` = STRICT_ARGS_COUNT

-- hash32: exactly 32 bytes
example : tableVerdict 70 0 [bytesN 32] = some (.assertMyCoinId (List.replicate 32 7)) := by decide
example : tableVerdict 70 0 [bytesN 33] = none := by decide
example : tableVerdict 70 0 [bytesN 31] = none := by decide
example : tableVerdict 70 0 [bytesN 0] = none := by decide
example : tableVerdict 70 0 [.pair (bytesN 32) (.atom [])] = none := by decide      -- a pair is never an argument
example : tableVerdict 70 0 [] = none := by decide                                    -- missing argument
-- pubkey48 (length only) and announceMsg (≤ 1024, empty allowed)
example : (tableVerdict 50 0 [bytesN 48, bytesN 1024]).isSome = true := by decide +kernel
example : tableVerdict 50 0 [bytesN 48, bytesN 1025] = none := by decide +kernel
example : tableVerdict 50 0 [bytesN 48, bytesN 0] = some (.aggSig 50 (List.replicate 48 7) []) := by decide
example : tableVerdict 50 0 [bytesN 47, bytesN 3] = none := by decide
example : tableVerdict 50 0 [bytesN 0, bytesN 3] = none := by decide                 -- zero-length public key
example : tableVerdict 50 0 [bytesN 48] = none := by decide                          -- message missing
-- amounts: canonical u64; 2^64 − 1 needs a leading 00, 2^64 is over, 00 / 00 01 are bad, ff is negative
example : tableVerdict 52 0 [.atom []] = some (.reserveFee 0) := by decide
example : tableVerdict 52 0 [.atom [0, 255, 255, 255, 255, 255, 255, 255, 255]] = some (.reserveFee (2 ^ 64 - 1)) := by decide
example : tableVerdict 52 0 [.atom [1, 0, 0, 0, 0, 0, 0, 0, 0]] = none := by decide
example : tableVerdict 52 0 [.atom [0]] = none := by decide
example : tableVerdict 52 0 [.atom [0, 1]] = none := by decide
example : tableVerdict 52 0 [.atom [255]] = none := by decide
example : tableVerdict 73 0 [.atom [0, 128]] = some (.assertMyAmount 128) := by decide
-- heights are u32: 2^32 − 1 accepted, 2^32 is over
example : tableVerdict 75 0 [.atom [0, 255, 255, 255, 255]] = some (.assertMyBirthHeight (2 ^ 32 - 1)) := by decide
example : tableVerdict 75 0 [.atom [1, 0, 0, 0, 0]] = none := by decide
example : tableVerdict 75 0 [.atom [128]] = none := by decide
-- "after" locks: negative ⇒ vacuous (relative kinds keep the "not ephemeral" marker), too large ⇒ reject
example : tableVerdict 82 0 [.atom [255]] = some .skipRelativeCondition := by decide
example : tableVerdict 83 0 [.atom [255]] = some .skip := by decide
example : tableVerdict 80 0 [.atom [128, 0, 0]] = some .skipRelativeCondition := by decide
example : tableVerdict 81 0 [.atom [255, 255]] = some .skip := by decide             -- no canonicity test on negatives
example : tableVerdict 82 0 [.atom [1, 0, 0, 0, 0]] = none := by decide
example : tableVerdict 82 0 [.atom [0, 5]] = none := by decide                        -- redundant zero: always reject
example : tableVerdict 82 0 [.atom [5]] = some (.assertHeightRelative 5) := by decide
-- "before" locks: negative ⇒ reject, too large ⇒ vacuous
example : tableVerdict 86 0 [.atom [255]] = none := by decide
example : tableVerdict 87 0 [.atom [255]] = none := by decide
example : tableVerdict 86 0 [.atom [1, 0, 0, 0, 0]] = some .skipRelativeCondition := by decide
example : tableVerdict 87 0 [.atom [1, 0, 0, 0, 0]] = some .skip := by decide
example : tableVerdict 84 0 [.atom [1, 0, 0, 0, 0]] = some (.assertBeforeSecondsRelative (2 ^ 32)) := by decide
example : tableVerdict 85 0 [.atom [1, 0, 0, 0, 0, 0, 0, 0, 0]] = some .skip := by decide
-- extra argument / improper terminator: ignored without STRICT_ARGS_COUNT, rejected with it
example : tableVerdict 70 0 [bytesN 32, bytesN 1] = some (.assertMyCoinId (List.replicate 32 7)) := by decide
example : tableVerdict 70 STRICT [bytesN 32, bytesN 1] = none := by decide
example : tableVerdict 70 STRICT [bytesN 32] = some (.assertMyCoinId (List.replicate 32 7)) := by decide
example : tableVerdict 70 0 [bytesN 32] (.atom [1]) = some (.assertMyCoinId (List.replicate 32 7)) := by decide
example : tableVerdict 70 STRICT [bytesN 32] (.atom [1]) = none := by decide
example : (tableVerdict 49 0 [bytesN 48, bytesN 3, bytesN 1]).isSome = true := by decide
example : tableVerdict 49 STRICT [bytesN 48, bytesN 3, bytesN 1] = none := by decide
example : tableVerdict 76 0 [bytesN 1] = some .assertEphemeral := by decide
example : tableVerdict 76 STRICT [bytesN 1] = none := by decide
example : tableVerdict 76 STRICT [] = some .assertEphemeral := by decide
-- REMARK and SOFTFORK are exempt from the terminator rule; SOFTFORK and two-byte opcodes fall to NO_UNKNOWN_CONDS
example : tableVerdict 1 STRICT [bytesN 1, bytesN 2] (.atom [9]) = some .skip := by decide
example : tableVerdict 90 STRICT [.atom [3], bytesN 2] = some (.softfork 30000) := by decide
example : tableVerdict 90 0 [.atom [1, 0, 0, 0, 0]] = none := by decide
example : tableVerdict 90 Gen.flagNoUnknownConds [.atom [3]] = none := by decide
example : tableVerdict 0x0102 STRICT [bytesN 1] (.atom [9]) = some (.softfork 112) := by decide
example : tableVerdict 0x0102 Gen.flagNoUnknownConds [] = none := by decide
example : tableVerdict 2 0 [] = none := by decide                                     -- no entry
example : tableVerdict 65536 0 [] = none := by decide
-- CREATE_COIN: the memo / hint rule
example : tableVerdict 51 STRICT [bytesN 32, .atom [5]] = some (.createCoin (List.replicate 32 7) 5 none) := by decide
example : tableVerdict 51 STRICT [bytesN 32, .atom [5], .pair (bytesN 32 9) (.atom [])]
    = some (.createCoin (List.replicate 32 7) 5 (some (List.replicate 32 9))) := by decide
example : tableVerdict 51 STRICT [bytesN 32, .atom [5], .pair (bytesN 33 9) (.atom [])]
    = some (.createCoin (List.replicate 32 7) 5 none) := by decide                    -- 33 bytes: no hint, not an error
example : tableVerdict 51 STRICT [bytesN 32, .atom [5], .pair (bytesN 0) (.atom [])]
    = some (.createCoin (List.replicate 32 7) 5 none) := by decide                    -- empty first memo: no hint
example : tableVerdict 51 STRICT [bytesN 32, .atom [5], .pair (.pair (bytesN 1) (.atom [])) (.atom [])]
    = some (.createCoin (List.replicate 32 7) 5 none) := by decide                    -- a pair as first memo: no hint
example : tableVerdict 51 STRICT [bytesN 32, .atom [5], bytesN 32 9]
    = some (.createCoin (List.replicate 32 7) 5 none) := by decide                    -- memos not a list: no hint
example : tableVerdict 51 STRICT [bytesN 32, .atom [5], .pair (bytesN 1 9) (bytesN 4)]
    = some (.createCoin (List.replicate 32 7) 5 (some [9])) := by decide              -- only the first memo is looked at
example : tableVerdict 51 0 [bytesN 32, .atom [5], .pair (bytesN 32 9) (.atom []), bytesN 1]
    = some (.createCoin (List.replicate 32 7) 5 (some (List.replicate 32 9))) := by decide
example : tableVerdict 51 STRICT [bytesN 32, .atom [5], .pair (bytesN 32 9) (.atom []), bytesN 1] = none := by decide
example : tableVerdict 51 0 [bytesN 32, .atom [5]] (.atom [1]) = some (.createCoin (List.replicate 32 7) 5 none) := by decide
example : tableVerdict 51 STRICT [bytesN 32, .atom [5]] (.atom [1]) = none := by decide
example : tableVerdict 51 0 [bytesN 32, .atom [1, 0, 0, 0, 0, 0, 0, 0, 0]] = none := by decide
example : tableVerdict 51 0 [bytesN 32, .atom [255]] = none := by decide
example : tableVerdict 51 0 [bytesN 33, .atom [5]] = none := by decide
-- SEND / RECEIVE_MESSAGE: the mode and the end-point fields
example : tableVerdict 66 STRICT [.atom [], bytesN 3] = some (.sendMessage 0 [0] [7, 7, 7]) := by decide
example : tableVerdict 66 0 [.atom [0], bytesN 3] = none := by decide                 -- 00 is not the canonical zero
example : tableVerdict 66 0 [.atom [0x40], bytesN 3] = none := by decide              -- a bit above 0x3f
example : tableVerdict 66 0 [.atom [0x80], bytesN 3] = none := by decide
example : tableVerdict 66 0 [.atom [0, 0x3f], bytesN 3] = none := by decide
example : tableVerdict 66 STRICT [.atom [0x3f], bytesN 3, bytesN 32 1]
    = some (.sendMessage 7 (7 :: List.replicate 32 1) [7, 7, 7]) := by decide         -- 7 = coin id: ONE field
example : tableVerdict 67 STRICT [.atom [0x3f], bytesN 3, bytesN 32 1]
    = some (.receiveMessage (7 :: List.replicate 32 1) 7 [7, 7, 7]) := by decide
example : tableVerdict 66 STRICT [.atom [0x15], bytesN 3, bytesN 32 1, .atom [5]]
    = some (.sendMessage 2 (5 :: (List.replicate 32 1 ++ [0, 0, 0, 0, 0, 0, 0, 5])) [7, 7, 7]) := by decide   -- dst = parent + amount
example : tableVerdict 67 STRICT [.atom [0x15], bytesN 3, bytesN 32 1]
    = some (.receiveMessage (2 :: List.replicate 32 1) 5 [7, 7, 7]) := by decide      -- src = puzzle hash
example : tableVerdict 67 STRICT [.atom [0x15], bytesN 3, bytesN 32 1, .atom [5]] = none := by decide
example : tableVerdict 66 0 [.atom [0x01], bytesN 3, .atom [1, 0, 0, 0, 0, 0, 0, 0, 0]] = none := by decide   -- amount field 2^64
example : tableVerdict 66 0 [.atom [0x04], bytesN 3, bytesN 31] = none := by decide
example : tableVerdict 66 0 [.atom [0x04], bytesN 3] = none := by decide              -- field missing
example : (tableVerdict 66 0 [.atom [0x04], bytesN 1025, bytesN 32]) = none := by decide +kernel
-- and the model's parser agrees (instances of `parseArgs_table`)
example : parseArgs (.pair (bytesN 32) (.pair (.atom [5]) (.pair (.pair (bytesN 33 9) (.atom [])) (.atom [])))) 51 STRICT
    = .ok (.createCoin (List.replicate 32 7) 5 none) := by rw [parseArgs_table]; rfl

end ChiaModel.C01
