import ChiaModel.Model.Generator
import ChiaModel.Props.C07
import ChiaModel.Props.C11
import ChiaModel.Lemmas.FastPaths
/-
C09 — theorems that carry this property are listed in bin/props.py; the statements specific to the
generator-path models that are still open are recorded there under `open`.
-/
namespace ChiaModel.C09
open ChiaModel ChiaModel.Cond ChiaModel.Gn

/-- the native path's size cost (either mode) -/
def nativeBase (p : Params) (g : GenInput) : Nat :=
  (if hasFlag p.flags Gen.flagInternedGenerator then internedVbytes g.prog else g.len) * p.costPerByte

/-- decomposition of an accepting native run (any flags) -/
theorem native_ok_gen {p : Params} {g : GenInput} {genRun : RunRes} {puz : Nat → RunRes} {L : Nat} {bn : Bundle}
    (h : native p g genRun puz L = .ok bn) :
    ¬(simpleGen p.flags ∧ g.nrefs > 0) ∧ nativeBase p g ≤ L ∧
    ∃ gc allSpends args retN st left, genRun = some (gc, .pair allSpends args) ∧ gc ≤ L - nativeBase p g ∧
      allExtract3 allSpends = true ∧
      nativeLoop { flags := p.flags, mempool := false, pkOk := p.pkOk } puz allSpends 0 { executionCost := gc } {}
        (spendLimit p.flags) (L - nativeBase p g - gc) = .ok ((retN, st), left) ∧
      bn.spends = retN.spends := by
  unfold native at h
  split at h
  · cases h
  simp only at h
  cases h1 : subtractCost L ((if hasFlag p.flags Gen.flagInternedGenerator = true then internedVbytes g.prog else g.len) * p.costPerByte) with
  | error e => rw [h1] at h; cases h
  | ok c1 =>
    rw [h1] at h; simp only at h
    split at h
    · cases h
    split at h
    · cases h
    rename_i hr
    cases h2 : runWithLimit genRun c1 with
    | error e => rw [h2] at h; cases h
    | ok r =>
      obtain ⟨gc, gout⟩ := r
      rw [h2] at h; simp only at h
      cases h3 : subtractCost c1 gc with
      | error e => rw [h3] at h; cases h
      | ok c2 =>
        rw [h3] at h; simp only at h
        cases gout with
        | atom b => simp only [first] at h; cases h
        | pair allSpends args =>
          simp only [first] at h
          split at h
          · cases h
          rename_i hex
          cases h4 : nativeLoop { flags := p.flags, mempool := false, pkOk := p.pkOk } puz allSpends 0 { executionCost := gc } {}
              (spendLimit p.flags) c2 with
          | error e => rw [h4] at h; cases h
          | ok q =>
            obtain ⟨⟨retN, st⟩, left⟩ := q
            rw [h4] at h; simp only at h
            cases h5 : finishBundle { flags := p.flags, mempool := false, pkOk := p.pkOk } p.sigOk retN st with
            | error e => rw [h5] at h; cases h
            | ok bn0 =>
              rw [h5] at h; simp only at h
              injection h with h
              obtain ⟨a1, a2⟩ := C07.subtractCost_ok h1
              obtain ⟨a3, a4⟩ := C07.subtractCost_ok h3
              obtain ⟨b1, b2⟩ := runWithLimit_ok h2
              subst a2; subst a4
              have hsp : bn0.spends = retN.spends := by
                unfold finishBundle at h5
                simp only [postProcess_block { flags := p.flags, mempool := false, pkOk := p.pkOk } rfl] at h5
                cases hv : validateConditions retN st with
                | error e => rw [hv] at h5; cases h5
                | ok u =>
                  rw [hv] at h5; simp only at h5
                  split at h5
                  · cases h5
                  · injection h5 with h5; rw [← h5]
              exact ⟨hr, a1, gc, allSpends, args, retN, st, left, b1, b2, by simpa using hex, h4, by rw [← h, ← hsp]⟩

/-- **Removals and additions of the trusted fast path.**  If `run_block_generator2` accepts a generator
under a limit `L ≤ MAX_BLOCK_COST_CLVM` (and the generator's output consists of byte strings), then
`additions_and_removals` succeeds on it, and

* `removals_spec`: its removals are exactly the accepted spends, in order, as
  (coin id, parent id, puzzle hash, amount);
* `additions_spec`: its additions are exactly the created coins of all accepted spends, in spend order and
  within a spend in condition order, each as (parent = the spend's coin id, puzzle hash, amount) with the
  same hint that full validation recorded (present iff the first memo is a non-empty atom of ≤ 32 bytes). -/
theorem additions_removals_spec (p : Params) (g : GenInput) (genRun : RunRes) (puz : Nat → RunRes) (L : Nat) (b : Bundle)
    (hL : L ≤ Gen.maxBlockCostClvm) (hab : ∀ c out, genRun = some (c, out) → out.AllBytes)
    (h : native p g genRun puz L = .ok b) :
    additionsAndRemovals p g genRun puz = some (b.spends.flatMap spendAdds, b.spends.map rem) := by
  obtain ⟨hr, hbase, gc, allSpends, args, retN, st, left, hgen, hgc, hex, hloop, hsp⟩ := native_ok_gen h
  obtain ⟨news, hn, htr⟩ := nativeLoop_trace _ puz allSpends 0 _ _ _ _ _ _ _ hloop
  simp only [List.nil_append] at hn
  have hbytes := hab gc _ hgen
  simp only [Sexp.AllBytes] at hbytes
  unfold additionsAndRemovals
  rw [if_neg hr, hgen]
  simp only
  rw [if_neg (by omega), if_neg (by simp [hex])]
  rw [addRemLoop_of_trace puz news allSpends 0 _ _ htr hbytes.1 (by omega), hsp, hn]

/-- `removals_spec` -/
theorem removals_spec (p : Params) (g : GenInput) (genRun : RunRes) (puz : Nat → RunRes) (L : Nat) (b : Bundle)
    (hL : L ≤ Gen.maxBlockCostClvm) (hab : ∀ c out, genRun = some (c, out) → out.AllBytes)
    (h : native p g genRun puz L = .ok b) :
    ∃ adds rems, additionsAndRemovals p g genRun puz = some (adds, rems) ∧
      rems = b.spends.map (fun sp => (sp.coinId, sp.parentId, sp.puzzleHash, sp.coinAmount)) :=
  ⟨_, _, additions_removals_spec p g genRun puz L b hL hab h, rfl⟩

/-- `additions_spec` -/
theorem additions_spec (p : Params) (g : GenInput) (genRun : RunRes) (puz : Nat → RunRes) (L : Nat) (b : Bundle)
    (hL : L ≤ Gen.maxBlockCostClvm) (hab : ∀ c out, genRun = some (c, out) → out.AllBytes)
    (h : native p g genRun puz L = .ok b) :
    ∃ adds rems, additionsAndRemovals p g genRun puz = some (adds, rems) ∧
      adds = b.spends.flatMap (fun sp => sp.createCoin.map (fun nc => ((sp.coinId, nc.ph, nc.amount), nc.hint))) :=
  ⟨_, _, additions_removals_spec p g genRun puz L b hL hab h, rfl⟩

/-- **Lookup.**  For every spend of an accepted block, `get_puzzle_and_solution_for_coin` on the generator's
output, asked for that coin (parent id, puzzle hash, amount), succeeds and returns a puzzle whose tree hash is
the coin's puzzle hash (the first spend of the list matching parent, amount and puzzle hash). -/
theorem lookup_spec (p : Params) (g : GenInput) (genRun : RunRes) (puz : Nat → RunRes) (L : Nat) (b : Bundle)
    (h : native p g genRun puz L = .ok b) :
    ∃ gc out, genRun = some (gc, out) ∧ ∀ sp ∈ b.spends, ∃ puzzle solution,
      getPuzzleAndSolution out sp.parentId sp.puzzleHash sp.coinAmount = some (puzzle, solution) ∧
      Sexp.treeHash puzzle = sp.puzzleHash := by
  obtain ⟨_, _, gc, allSpends, args, retN, st, left, hgen, _, _, hloop, hsp⟩ := native_ok_gen h
  obtain ⟨news, hn, htr⟩ := nativeLoop_trace _ puz allSpends 0 _ _ _ _ _ _ _ hloop
  simp only [List.nil_append] at hn
  refine ⟨gc, _, hgen, ?_⟩
  intro sp hsp'
  rw [hsp, hn] at hsp'
  exact go_of_trace puz news allSpends 0 _ htr sp hsp'

/-! ## non-vacuity of the hypotheses -/
namespace Witness
open ChiaModel.C07.Witness

/-- the one-spend generator of C07's witness is accepted by the native path under a limit below
MAX_BLOCK_COST_CLVM and its output consists of byte strings -/
example : ∃ b, native p0 g0 genRun0 puz0 1000000 = .ok b := ⟨_, rfl⟩
example : (1000000 : Nat) ≤ Gen.maxBlockCostClvm := by decide
example : ∀ c out, genRun0 = some (c, out) → out.AllBytes := by
  intro c out h
  injection h with h; injection h with _ h
  subst h
  simp [spend0, Sexp.ofList, Sexp.AllBytes, Sexp.nil, isBytes]

end Witness

end ChiaModel.C09
