import ChiaModel.Model.Generator
import ChiaModel.Props.C07
import ChiaModel.Props.C11
import ChiaModel.Lemmas.FastPaths
import ChiaModel.Lemmas.Coinspends
import ChiaModel.Lemmas.WithConds
import ChiaModel.Lemmas.BundleAdditions
import ChiaModel.Lemmas.BundleLoopRev
import ChiaModel.Props.C04
import ChiaModel.Props.C08
/-
C09 — theorems that carry this property are listed in bin/props.py; the statements specific to the
generator-path models that are still open are recorded there under `open`.
-/
namespace ChiaModel.C09
open ChiaModel ChiaModel.Cond ChiaModel.Gn

/-- the native path's size cost (either mode) -/
def nativeBase (p : Params) (g : GenInput) : Nat :=
  (if hasFlag p.flags Gen.flagInternedGenerator then internedVbytes g.prog else g.len) * p.costPerByte

/-- decomposition of an accepting native run (any flags) -/
theorem native_ok_gen {p : Params} {g : GenInput} {genRun : RunRes} {puz : Nat → RunRes} {L : Nat} {bn : Bundle}
    (h : native p g genRun puz L = .ok bn) :
    ¬(simpleGen p.flags ∧ g.nrefs > 0) ∧ nativeBase p g ≤ L ∧
    ∃ gc allSpends args retN st left, genRun = some (gc, .pair allSpends args) ∧ gc ≤ L - nativeBase p g ∧
      allExtract3 allSpends = true ∧
      nativeLoop { flags := p.flags, mempool := false, pkOk := p.pkOk } puz allSpends 0 { executionCost := gc } {}
        (spendLimit p.flags) (L - nativeBase p g - gc) = .ok ((retN, st), left) ∧
      bn.spends = retN.spends := by
  unfold native at h
  split at h
  · cases h
  simp only at h
  cases h1 : subtractCost L ((if hasFlag p.flags Gen.flagInternedGenerator = true then internedVbytes g.prog else g.len) * p.costPerByte) with
  | error e => rw [h1] at h; cases h
  | ok c1 =>
    rw [h1] at h; simp only at h
    split at h
    · cases h
    split at h
    · cases h
    rename_i hr
    cases h2 : runWithLimit genRun c1 with
    | error e => rw [h2] at h; cases h
    | ok r =>
      obtain ⟨gc, gout⟩ := r
      rw [h2] at h; simp only at h
      cases h3 : subtractCost c1 gc with
      | error e => rw [h3] at h; cases h
      | ok c2 =>
        rw [h3] at h; simp only at h
        cases gout with
        | atom b => simp only [first] at h; cases h
        | pair allSpends args =>
          simp only [first] at h
          split at h
          · cases h
          rename_i hex
          cases h4 : nativeLoop { flags := p.flags, mempool := false, pkOk := p.pkOk } puz allSpends 0 { executionCost := gc } {}
              (spendLimit p.flags) c2 with
          | error e => rw [h4] at h; cases h
          | ok q =>
            obtain ⟨⟨retN, st⟩, left⟩ := q
            rw [h4] at h; simp only at h
            cases h5 : finishBundle { flags := p.flags, mempool := false, pkOk := p.pkOk } p.sigOk retN st with
            | error e => rw [h5] at h; cases h
            | ok bn0 =>
              rw [h5] at h; simp only at h
              injection h with h
              obtain ⟨a1, a2⟩ := C07.subtractCost_ok h1
              obtain ⟨a3, a4⟩ := C07.subtractCost_ok h3
              obtain ⟨b1, b2⟩ := runWithLimit_ok h2
              subst a2; subst a4
              have hsp : bn0.spends = retN.spends := by
                unfold finishBundle at h5
                simp only [postProcess_block { flags := p.flags, mempool := false, pkOk := p.pkOk } rfl] at h5
                cases hv : validateConditions retN st with
                | error e => rw [hv] at h5; cases h5
                | ok u =>
                  rw [hv] at h5; simp only at h5
                  split at h5
                  · cases h5
                  · injection h5 with h5; rw [← h5]
              exact ⟨hr, a1, gc, allSpends, args, retN, st, left, b1, b2, by simpa using hex, h4, by rw [← h, ← hsp]⟩

/-- **Removals and additions of the trusted fast path.**  If `run_block_generator2` accepts a generator
under a limit `L ≤ MAX_BLOCK_COST_CLVM` (and the generator's output consists of byte strings), then
`additions_and_removals` succeeds on it, and

* `removals_spec`: its removals are exactly the accepted spends, in order, as
  (coin id, parent id, puzzle hash, amount);
* `additions_spec`: its additions are exactly the created coins of all accepted spends, in spend order and
  within a spend in condition order, each as (parent = the spend's coin id, puzzle hash, amount) with the
  same hint that full validation recorded (present iff the first memo is a non-empty atom of ≤ 32 bytes). -/
theorem additions_removals_spec (p : Params) (g : GenInput) (genRun : RunRes) (puz : Nat → RunRes) (L : Nat) (b : Bundle)
    (hL : L ≤ Gen.maxBlockCostClvm) (hab : ∀ c out, genRun = some (c, out) → out.AllBytes)
    (h : native p g genRun puz L = .ok b) :
    additionsAndRemovals p g genRun puz = some (b.spends.flatMap spendAdds, b.spends.map rem) := by
  obtain ⟨hr, hbase, gc, allSpends, args, retN, st, left, hgen, hgc, hex, hloop, hsp⟩ := native_ok_gen h
  obtain ⟨news, hn, htr⟩ := nativeLoop_trace _ puz allSpends 0 _ _ _ _ _ _ _ hloop
  simp only [List.nil_append] at hn
  have hbytes := hab gc _ hgen
  simp only [Sexp.AllBytes] at hbytes
  unfold additionsAndRemovals
  rw [if_neg hr, hgen]
  simp only
  rw [if_neg (by omega), if_neg (by simp [hex])]
  rw [addRemLoop_of_trace puz news allSpends 0 _ _ htr hbytes.1 (by omega), hsp, hn]

/-- `removals_spec` -/
theorem removals_spec (p : Params) (g : GenInput) (genRun : RunRes) (puz : Nat → RunRes) (L : Nat) (b : Bundle)
    (hL : L ≤ Gen.maxBlockCostClvm) (hab : ∀ c out, genRun = some (c, out) → out.AllBytes)
    (h : native p g genRun puz L = .ok b) :
    ∃ adds rems, additionsAndRemovals p g genRun puz = some (adds, rems) ∧
      rems = b.spends.map (fun sp => (sp.coinId, sp.parentId, sp.puzzleHash, sp.coinAmount)) :=
  ⟨_, _, additions_removals_spec p g genRun puz L b hL hab h, rfl⟩

/-- `additions_spec` -/
theorem additions_spec (p : Params) (g : GenInput) (genRun : RunRes) (puz : Nat → RunRes) (L : Nat) (b : Bundle)
    (hL : L ≤ Gen.maxBlockCostClvm) (hab : ∀ c out, genRun = some (c, out) → out.AllBytes)
    (h : native p g genRun puz L = .ok b) :
    ∃ adds rems, additionsAndRemovals p g genRun puz = some (adds, rems) ∧
      adds = b.spends.flatMap (fun sp => sp.createCoin.map (fun nc => ((sp.coinId, nc.ph, nc.amount), nc.hint))) :=
  ⟨_, _, additions_removals_spec p g genRun puz L b hL hab h, rfl⟩

/-- **Lookup.**  For every spend of an accepted block, `get_puzzle_and_solution_for_coin` on the generator's
output, asked for that coin (parent id, puzzle hash, amount), succeeds and returns a puzzle whose tree hash is
the coin's puzzle hash (the first spend of the list matching parent, amount and puzzle hash). -/
theorem lookup_spec (p : Params) (g : GenInput) (genRun : RunRes) (puz : Nat → RunRes) (L : Nat) (b : Bundle)
    (h : native p g genRun puz L = .ok b) :
    ∃ gc out, genRun = some (gc, out) ∧ ∀ sp ∈ b.spends, ∃ puzzle solution,
      getPuzzleAndSolution out sp.parentId sp.puzzleHash sp.coinAmount = some (puzzle, solution) ∧
      Sexp.treeHash puzzle = sp.puzzleHash := by
  obtain ⟨_, _, gc, allSpends, args, retN, st, left, hgen, _, _, hloop, hsp⟩ := native_ok_gen h
  obtain ⟨news, hn, htr⟩ := nativeLoop_trace _ puz allSpends 0 _ _ _ _ _ _ _ hloop
  simp only [List.nil_append] at hn
  refine ⟨gc, _, hgen, ?_⟩
  intro sp hsp'
  rw [hsp, hn] at hsp'
  exact go_of_trace puz news allSpends 0 _ htr sp hsp'

/-! ## non-vacuity of the hypotheses -/
namespace Witness
open ChiaModel.C07.Witness

/-- the one-spend generator of C07's witness is accepted by the native path under a limit below
MAX_BLOCK_COST_CLVM and its output consists of byte strings -/
example : ∃ b, native p0 g0 genRun0 puz0 1000000 = .ok b := ⟨_, rfl⟩
example : (1000000 : Nat) ≤ Gen.maxBlockCostClvm := by decide
example : ∀ c out, genRun0 = some (c, out) → out.AllBytes := by
  intro c out h
  injection h with h; injection h with _ h
  subst h
  simp [spend0, Sexp.ofList, Sexp.AllBytes, Sexp.nil, isBytes]

end Witness

/-! ## recovered coin spends rebuild the same conditions (`get_coinspends_for_trusted_block`) -/

/-- decomposition of an accepting native run (any flags): the checks before the loop, the loop, the finish -/
theorem native_ok_full {p : Params} {g : GenInput} {genRun : RunRes} {puz : Nat → RunRes} {L : Nat} {bn : Bundle}
    (h : native p g genRun puz L = .ok bn) :
    ¬(simpleGen p.flags ∧ (!g.startsQuote) = true) ∧ generatorNodeOk p.flags g.prog = true ∧
    ¬(simpleGen p.flags ∧ g.nrefs > 0) ∧ nativeBase p g ≤ L ∧
    ∃ gc allSpends args retN st left bn0, genRun = some (gc, .pair allSpends args) ∧ gc ≤ L - nativeBase p g ∧
      allExtract3 allSpends = true ∧
      nativeLoop { flags := p.flags, mempool := false, pkOk := p.pkOk } puz allSpends 0 { executionCost := gc } {}
        (spendLimit p.flags) (L - nativeBase p g - gc) = .ok ((retN, st), left) ∧
      finishBundle { flags := p.flags, mempool := false, pkOk := p.pkOk } p.sigOk retN st = .ok bn0 ∧
      bn = { bn0 with cost := L - left } := by
  unfold native at h
  split at h
  · cases h
  rename_i hq
  simp only at h
  cases h1 : subtractCost L ((if hasFlag p.flags Gen.flagInternedGenerator = true then internedVbytes g.prog else g.len) * p.costPerByte) with
  | error e => rw [h1] at h; cases h
  | ok c1 =>
    rw [h1] at h; simp only at h
    split at h
    · cases h
    rename_i hnode
    split at h
    · cases h
    rename_i hr
    cases h2 : runWithLimit genRun c1 with
    | error e => rw [h2] at h; cases h
    | ok r =>
      obtain ⟨gc, gout⟩ := r
      rw [h2] at h; simp only at h
      cases h3 : subtractCost c1 gc with
      | error e => rw [h3] at h; cases h
      | ok c2 =>
        rw [h3] at h; simp only at h
        cases gout with
        | atom b => simp only [first] at h; cases h
        | pair allSpends args =>
          simp only [first] at h
          split at h
          · cases h
          rename_i hex
          cases h4 : nativeLoop { flags := p.flags, mempool := false, pkOk := p.pkOk } puz allSpends 0 { executionCost := gc } {}
              (spendLimit p.flags) c2 with
          | error e => rw [h4] at h; cases h
          | ok q =>
            obtain ⟨⟨retN, st⟩, left⟩ := q
            rw [h4] at h; simp only at h
            cases h5 : finishBundle { flags := p.flags, mempool := false, pkOk := p.pkOk } p.sigOk retN st with
            | error e => rw [h5] at h; cases h
            | ok bn0 =>
              rw [h5] at h; simp only at h
              injection h with h
              obtain ⟨a1, a2⟩ := C07.subtractCost_ok h1
              obtain ⟨a3, a4⟩ := C07.subtractCost_ok h3
              obtain ⟨b1, b2⟩ := runWithLimit_ok h2
              subst a2; subst a4
              exact ⟨hq, by simpa using hnode, hr, a1, gc, allSpends, args, retN, st, left, bn0, b1, b2, by simpa using hex, h4, h5, h.symm⟩

/-- the converse: the pieces of an accepting native run put together -/
theorem native_intro {p : Params} {g : GenInput} {genRun : RunRes} {puz : Nat → RunRes} {L : Nat}
    {gc : Nat} {allSpends args : Sexp} {retN : Bundle} {st : PState} {left : Nat} {bn0 : Bundle}
    (hq : ¬(simpleGen p.flags ∧ (!g.startsQuote) = true)) (hnode : generatorNodeOk p.flags g.prog = true)
    (hr : ¬(simpleGen p.flags ∧ g.nrefs > 0)) (hbase : nativeBase p g ≤ L)
    (hgen : genRun = some (gc, .pair allSpends args)) (hgc : gc ≤ L - nativeBase p g) (hex : allExtract3 allSpends = true)
    (hloop : nativeLoop { flags := p.flags, mempool := false, pkOk := p.pkOk } puz allSpends 0 { executionCost := gc } {}
        (spendLimit p.flags) (L - nativeBase p g - gc) = .ok ((retN, st), left))
    (hfin : finishBundle { flags := p.flags, mempool := false, pkOk := p.pkOk } p.sigOk retN st = .ok bn0) :
    native p g genRun puz L = .ok { bn0 with cost := L - left } := by
  unfold nativeBase at hbase hgc hloop
  unfold native
  rw [if_neg hq]
  simp only
  rw [subtractCost_of_le hbase]
  simp only
  rw [if_neg (by simp [hnode]), if_neg hr, hgen, runWithLimit_of_le hgc]
  simp only
  rw [subtractCost_of_le hgc]
  simp only [first]
  rw [if_neg (by simp [hex]), hloop]
  simp only
  rw [hfin]

/-- the quoted generator that lists the coin spends `css` IN ORDER (that is `build_generator` of the reversed
list, since `build_generator` reverses); `len` is the byte length charged for it -/
def fwdGen (css : List CoinSpendM) (len : Nat) : GenInput :=
  { len := len, startsQuote := true, prog := buildGenerator css.reverse, nrefs := 0 }

/-- the generator `build_generator` (`solution_generator`) makes of `css`: it lists the spends in REVERSE order -/
def revGen (css : List CoinSpendM) : GenInput :=
  { len := (Sexp.serialize (buildGenerator css)).length, startsQuote := true, prog := buildGenerator css, nrefs := 0 }

/-- **The recovered coin spends rebuild a generator with the same conditions** (order-preserving form).
If `run_block_generator2` accepts a generator under a limit `L ≤ MAX_BLOCK_COST_CLVM`, the generator's
output consists of byte strings and every puzzle reveal and solution in it passes the size test `fits`
(for the code: plain serialisation of at most 2 000 000 bytes — the recorded finding `@reveal-over-2MB` is
exactly the failure of this hypothesis), then `get_coinspends_for_trusted_block` succeeds with coin spends
`css` such that

* `css` describes the generator's spend list element by element, in order (`Recovered`: parent, reveal,
  canonical amount and solution of the i-th coin spend are those of the i-th list element, puzzle hash =
  tree hash of the reveal), and names the coins of the validated spends in order;
* the quoted generator listing `css` in order (`fwdGen css len'`, any charged length `len'`), whose run is
  the value of the quote at cost 20, run with THE SAME puzzle oracle `puz` (its i-th spend has the same
  puzzle and solution as the i-th accepted spend), is accepted under the limit that leaves the spend loop
  the same budget, `L' = (L − base − gc) + base' + 20`; the conditions are identical — the same spend records
  including per-spend costs, fee, locks, signature pairs, amounts, condition cost, signature verdict —
  except for the two cost fields: `execution_cost` differs by `gc` against the quote's 20 and `cost`
  additionally by the two size costs. -/
theorem coinspends_rebuild (fits : Sexp → Bool) (p : Params) (g : GenInput) (genRun : RunRes) (puz : Nat → RunRes)
    (L : Nat) (b : Bundle)
    (hL : L ≤ Gen.maxBlockCostClvm) (hab : ∀ c out, genRun = some (c, out) → out.AllBytes)
    (hfit : ∀ c allSpends args, genRun = some (c, .pair allSpends args) → revealsFit fits allSpends = true)
    (h : native p g genRun puz L = .ok b) :
    ∃ css gc allSpends args, getCoinspends fits p g genRun = some css ∧
      genRun = some (gc, .pair allSpends args) ∧ Recovered allSpends css ∧
      css.map csKey = b.spends.map spKey ∧
      ∀ len', ∃ b', native p (fwdGen css len') (some (20, C08.quoted (fwdGen css len').prog)) puz
              ((L - nativeBase p g - gc) + nativeBase p (fwdGen css len') + 20) = .ok b' ∧
        b'.spends = b.spends ∧ b' = { b with cost := b'.cost, executionCost := b'.executionCost } ∧
        b'.cost + nativeBase p g + gc = b.cost + nativeBase p (fwdGen css len') + 20 ∧
        b'.executionCost + gc = b.executionCost + 20 := by
  obtain ⟨hq, hnode, hr, hbase, gc, allSpends, args, retN, st, left, bn0, hgen, hgc, hex, hloop, hfin, rfl⟩ := native_ok_full h
  obtain ⟨news, hn, htr⟩ := nativeLoop_trace _ puz allSpends 0 _ _ _ _ _ _ _ hloop
  simp only [List.nil_append] at hn
  have hbytes := hab gc _ hgen
  simp only [Sexp.AllBytes] at hbytes
  obtain ⟨css, hcs, hrec, hkeys⟩ := coinspendsLoop_of_trace fits puz news allSpends 0 _ htr hbytes.1 (hfit gc allSpends args hgen)
  have hget : getCoinspends fits p g genRun = some css := by
    unfold getCoinspends
    rw [if_neg hq, if_neg (by simp [hnode]), if_neg hr, hgen]
    simp only
    rw [if_neg (by omega)]
    exact hcs
  obtain ⟨hv, hsig, rfl⟩ := C08.finishBundle_block_ok (env := { flags := p.flags, mempool := false, pkOk := p.pkOk }) rfl hfin
  refine ⟨css, gc, allSpends, args, hget, hgen, hrec, by rw [hkeys, ← hn], ?_⟩
  intro len'
  -- the spend loop on the rebuilt list, first with the original execution-cost start
  have hwf := Recovered.wf css allSpends hrec
  have hloop2 := hloop
  rw [nativeLoop_recovered _ puz css allSpends hrec] at hloop2
  have hlenle : css.length ≤ spendLimit p.flags := by
    by_cases hh : css.length ≤ spendLimit p.flags
    · exact hh
    · exact absurd hloop2 (nativeLoop_too_long _ puz (css.map item) 0 _ _ _ _ _ (by rw [List.length_map]; omega))
  -- then started from the quote's cost 20
  obtain ⟨a', bB, hloop3, hr1, hr2⟩ := nativeLoop_exec_shift { flags := p.flags, mempool := true, pkOk := p.pkOk } puz gc 20 css 0
    { executionCost := gc } { executionCost := 20 } {} {} (spendLimit p.flags) (L - nativeBase p g - gc)
    (fun s hs => (hwf s hs).2) hlenle ⟨rfl, by simp⟩ ⟨rfl, rfl⟩ hloop2
  change nativeLoop { flags := p.flags, mempool := false, pkOk := p.pkOk } puz _ 0 _ _ _ _ = _ at hloop3
  have hv' : validOk a' st = true := by
    rw [validOk_blkRel_two { flags := p.flags, mempool := true, pkOk := p.pkOk } hr1 hr2 st]; exact hv
  obtain ⟨x, rfl, hx⟩ := blkRel_two hr1 hr2
  have hfin' := C08.finishBundle_block_of (env := { flags := p.flags, mempool := false, pkOk := p.pkOk }) rfl
    (sigOk := p.sigOk) hv' hsig
  have hleft : left ≤ L - nativeBase p g - gc := (shift_nativeLoop _ puz allSpends 0 _ _ _ _ _ _ hloop).1
  have hgen' : (some (20, C08.quoted (fwdGen css len').prog) : RunRes)
      = some (20, .pair (Sexp.ofList (css.map item)) Sexp.nil) := by
    show some (20, C08.quoted (buildGenerator css.reverse)) = _
    rw [C08.quoted_buildGenerator_reverse]
  have hnode' : generatorNodeOk p.flags (fwdGen css len').prog = true := by
    show generatorNodeOk p.flags (buildGenerator css.reverse) = true
    rw [buildGenerator_eq]; simp [generatorNodeOk]
  have hnat := native_intro (p := p) (g := fwdGen css len') (puz := puz)
    (L := (L - nativeBase p g - gc) + nativeBase p (fwdGen css len') + 20)
    (by simp [fwdGen]) hnode' (by simp [fwdGen]) (by omega) hgen' (by omega) (allExtract3_items css)
    (by
      have e : (L - nativeBase p g - gc) + nativeBase p (fwdGen css len') + 20 - nativeBase p (fwdGen css len') - 20
          = L - nativeBase p g - gc := by omega
      rw [e]; exact hloop3) hfin'
  refine ⟨_, hnat, rfl, rfl, ?_, ?_⟩
  · simp only; omega
  · simp only; omega

/-- **The generator `build_generator` really builds from the recovered coin spends** (spends in REVERSE
order) has the same conditions — for every flag set.  Hypotheses of `coinspends_rebuild`, plus a signature
verdict that does not depend on the order of the (public key, text) pairs (true of BLS aggregate
verification).  Then `get_coinspends_for_trusted_block` succeeds with `css` as in `coinspends_rebuild`, and
`run_block_generator2` accepts `build_generator css` (`revGen css`, charged its serialised length, its run =
the value of the quote at cost 20) with the puzzle runs re-indexed to the generator's order
(`puz (n − 1 − i)`: the i-th spend of the rebuilt generator is the (n−1−i)-th accepted spend, same puzzle,
same solution), under the limit that leaves the spend loop the same budget; the validated spend records are
those of the original block in reverse order (every field), fee, locks, amounts, condition cost and signature
verdict are equal, the AGG_SIG_UNSAFE pairs agree up to listing order, `execution_cost` differs by `gc`
against the quote's 20 and `cost` additionally by the two size costs.  (Proof: `coinspends_rebuild`, the
`BlkRel` bridge to the bundle loop, `bundleLoop_reverse` — the loop-level form of C08's
`runSpendbundle_reverse`, resting on the C01 refinement and the C06 permutation lemmas — and the bridge back.) -/
theorem coinspends_rebuild_reversed (fits : Sexp → Bool) (p : Params) (g : GenInput) (genRun : RunRes) (puz : Nat → RunRes)
    (L : Nat) (b : Bundle)
    (hL : L ≤ Gen.maxBlockCostClvm) (hab : ∀ c out, genRun = some (c, out) → out.AllBytes)
    (hfit : ∀ c allSpends args, genRun = some (c, .pair allSpends args) → revealsFit fits allSpends = true)
    (hsig : ∀ pairs pairs', List.Perm pairs pairs' → p.sigOk pairs = p.sigOk pairs')
    (h : native p g genRun puz L = .ok b) :
    ∃ css gc allSpends args, getCoinspends fits p g genRun = some css ∧
      genRun = some (gc, .pair allSpends args) ∧ Recovered allSpends css ∧
      css.map csKey = b.spends.map spKey ∧
      ∃ b', native p (revGen css) (some (20, C08.quoted (revGen css).prog)) (fun i => puz (css.length - 1 - i))
              ((L - nativeBase p g - gc) + nativeBase p (revGen css) + 20) = .ok b' ∧
        b'.spends = b.spends.reverse ∧
        b'.reserveFee = b.reserveFee ∧ b'.heightAbsolute = b.heightAbsolute ∧ b'.secondsAbsolute = b.secondsAbsolute ∧
        b'.beforeHeightAbsolute = b.beforeHeightAbsolute ∧ b'.beforeSecondsAbsolute = b.beforeSecondsAbsolute ∧
        List.Perm b'.aggSigUnsafe b.aggSigUnsafe ∧ b'.removalAmount = b.removalAmount ∧ b'.additionAmount = b.additionAmount ∧
        b'.conditionCost = b.conditionCost ∧ b'.validatedSignature = b.validatedSignature ∧
        b'.cost + nativeBase p g + gc = b.cost + nativeBase p (revGen css) + 20 ∧
        b'.executionCost + gc = b.executionCost + 20 := by
  obtain ⟨css, gc, allSpends, args, hget, hgen, hrec, hkeys, hall⟩ :=
    coinspends_rebuild fits p g genRun puz L b hL hab hfit h
  obtain ⟨bF, hF, f1, f2, f3, f4⟩ := hall 0
  refine ⟨css, gc, allSpends, args, hget, hgen, hrec, hkeys, ?_⟩
  have hwf0 := Recovered.wf css allSpends hrec
  have hph : ∀ s ∈ css, s.puzzleHash = Sexp.treeHash s.puzzle := fun s hs => (hwf0 s hs).2
  have hphr : ∀ s ∈ css.reverse, s.puzzleHash = Sexp.treeHash s.puzzle := fun s hs => hph s (List.mem_reverse.mp hs)
  -- the accepting run on the order-preserving generator, taken apart
  obtain ⟨_, _, _, hbF, gc', allSpends', args', retF, stF, leftF, bn0, hg', hgc', _, hloopF, hfinF, hbFeq⟩ := native_ok_full hF
  have hg'' : (some (20, C08.quoted (fwdGen css 0).prog) : RunRes) = some (20, .pair (Sexp.ofList (css.map item)) Sexp.nil) := by
    show some (20, C08.quoted (buildGenerator css.reverse)) = _
    rw [C08.quoted_buildGenerator_reverse]
  rw [hg''] at hg'
  injection hg' with hg'; injection hg' with g1 g2; injection g2 with g2 g3
  subst g1; subst g2; subst g3
  have em : (L - nativeBase p g - gc) + nativeBase p (fwdGen css 0) + 20 - nativeBase p (fwdGen css 0) - 20
      = L - nativeBase p g - gc := by omega
  rw [em] at hloopF
  have hlenle : css.length ≤ spendLimit p.flags := by
    by_cases hh : css.length ≤ spendLimit p.flags
    · exact hh
    · exact absurd hloopF (nativeLoop_too_long _ puz (css.map item) 0 _ _ _ _ _ (by rw [List.length_map]; omega))
  have hleft : leftF ≤ L - nativeBase p g - gc := (shift_nativeLoop _ puz _ 0 _ _ _ _ _ _ hloopF).1
  obtain ⟨hvF, hsigF, hbn0⟩ := C08.finishBundle_block_ok (env := { flags := p.flags, mempool := false, pkOk := p.pkOk }) rfl hfinF
  -- to the bundle loop on the same list
  have r1 := nativeLoop_bundleLoop (mpEnv p) puz 20 css 0 { executionCost := 20 } {} {} (spendLimit p.flags)
    (L - nativeBase p g - gc) hph hlenle ⟨rfl, rfl⟩
  change LoopRel 20 (nativeLoop { flags := p.flags, mempool := false, pkOk := p.pkOk } puz _ 0 _ _ _ _) _ at r1
  rw [hloopF] at r1
  cases hB : bundleLoop (mpEnv p) puz css 0 {} {} (L - nativeBase p g - gc) with
  | error e => rw [hB] at r1; simp only [LoopRel] at r1
  | ok q =>
    obtain ⟨⟨retB, stB⟩, leftB⟩ := q
    rw [hB] at r1
    simp only [LoopRel] at r1
    obtain ⟨e1, e2, hrelF⟩ := r1
    subst e1; subst e2
    have hvB : validateConditions (postProcess (mpEnv p) retB stF) stF = .ok () := by
      unfold validateConditions
      rw [← validOk_blkRel (mpEnv p) hrelF stF, hvF]; rfl
    -- reverse the coin spends, re-indexing the puzzle runs
    obtain ⟨retB', st', hB', hvB', hpk, hsp, s1, s2, s3, s4, s5, s6, s7, s8, s9, s10⟩ :=
      bundleLoop_reverse p css puz (fun i => puz (css.length - 1 - i)) _ retB stF leftF (fun k _ => rfl) hB hvB
    -- and back to the native loop, on the list `build_generator css` holds
    have r2 := nativeLoop_bundleLoop (mpEnv p) (fun i => puz (css.length - 1 - i)) 20 css.reverse 0 { executionCost := 20 } {} {}
      (spendLimit p.flags) (L - nativeBase p g - gc) hphr (by rw [List.length_reverse]; exact hlenle) ⟨rfl, rfl⟩
    change LoopRel 20 (nativeLoop { flags := p.flags, mempool := false, pkOk := p.pkOk } _ _ 0 _ _ _ _) _ at r2
    rw [hB'] at r2
    cases hN : nativeLoop { flags := p.flags, mempool := false, pkOk := p.pkOk } (fun i => puz (css.length - 1 - i))
        (Sexp.ofList (css.reverse.map item)) 0 { executionCost := 20 } {} (spendLimit p.flags) (L - nativeBase p g - gc) with
    | error e => rw [hN] at r2; simp only [LoopRel] at r2
    | ok q' =>
      obtain ⟨⟨retR, stR⟩, leftR⟩ := q'
      rw [hN] at r2
      simp only [LoopRel] at r2
      obtain ⟨e1, e2, hrelR⟩ := r2
      subst e1; subst e2
      have hvR : validOk retR stR = true := by
        rw [validOk_blkRel (mpEnv p) hrelR stR]
        unfold validateConditions at hvB'
        split at hvB'
        · assumption
        · cases hvB'
      have hsigR : hasFlag p.flags Gen.flagDontValidateSignature = true ∨ p.sigOk stR.pkmPairs = true := by
        rcases hsigF with hs | hs
        · exact Or.inl hs
        · right; rw [← hsig _ _ hpk]; exact hs
      have hfinR := C08.finishBundle_block_of (env := { flags := p.flags, mempool := false, pkOk := p.pkOk }) rfl
        (sigOk := p.sigOk) hvR hsigR
      have hgenR : (some (20, C08.quoted (revGen css).prog) : RunRes)
          = some (20, .pair (Sexp.ofList (css.reverse.map item)) Sexp.nil) := by
        show some (20, C08.quoted (buildGenerator css)) = _
        rw [buildGenerator_eq]
        simp only [C08.quoted, List.map_reverse]
      have hnodeR : generatorNodeOk p.flags (revGen css).prog = true := by
        show generatorNodeOk p.flags (buildGenerator css) = true
        rw [buildGenerator_eq]; simp [generatorNodeOk]
      have hnat := native_intro (p := p) (g := revGen css) (puz := fun i => puz (css.length - 1 - i))
        (L := (L - nativeBase p g - gc) + nativeBase p (revGen css) + 20)
        (by simp [revGen]) hnodeR (by simp [revGen]) (by omega) hgenR (by omega) (allExtract3_items css.reverse)
        (by
          have e : (L - nativeBase p g - gc) + nativeBase p (revGen css) + 20 - nativeBase p (revGen css) - 20
              = L - nativeBase p g - gc := by omega
          rw [e]; exact hN) hfinR
      -- the relations between the three block-side bundles
      obtain ⟨hF1, hF2⟩ := hrelF
      obtain ⟨hR1, hR2⟩ := hrelR
      obtain ⟨pp1, _⟩ := postProcess_blk (mpEnv p) retB stF
      obtain ⟨pp1', _⟩ := postProcess_blk (mpEnv p) retB' stR
      have hspends : retR.spends = retF.spends.reverse := by
        rw [hR1, ← pp1', hsp, List.map_reverse, pp1, ← hF1]
      have hbFs : bF.spends = retF.spends := by rw [hbFeq, hbn0]
      have q1 : bF.reserveFee = b.reserveFee := by rw [f2]
      have q2 : bF.heightAbsolute = b.heightAbsolute := by rw [f2]
      have q3 : bF.secondsAbsolute = b.secondsAbsolute := by rw [f2]
      have q4 : bF.beforeHeightAbsolute = b.beforeHeightAbsolute := by rw [f2]
      have q5 : bF.beforeSecondsAbsolute = b.beforeSecondsAbsolute := by rw [f2]
      have q6 : bF.aggSigUnsafe = b.aggSigUnsafe := by rw [f2]
      have q7 : bF.removalAmount = b.removalAmount := by rw [f2]
      have q8 : bF.additionAmount = b.additionAmount := by rw [f2]
      have q9 : bF.conditionCost = b.conditionCost := by rw [f2]
      have q10 : bF.validatedSignature = b.validatedSignature := by rw [f2]
      have hcostF : bF.cost = (L - nativeBase p g - gc) + nativeBase p (fwdGen css 0) + 20 - leftR := by rw [hbFeq]
      have hexF : bF.executionCost = retB.executionCost + 20 := by rw [hbFeq, hbn0, hF2]
      have hexR : retR.executionCost = retB'.executionCost + 20 := by rw [hR2]
      refine ⟨_, hnat, ?_, ?_, ?_, ?_, ?_, ?_, ?_, ?_, ?_, ?_, ?_, ?_, ?_⟩
      · show retR.spends = b.spends.reverse
        rw [hspends, ← hbFs, f1]
      · show retR.reserveFee = _
        rw [← q1, hbFeq, hbn0, hR2, hF2]; exact s1
      · show retR.heightAbsolute = _
        rw [← q2, hbFeq, hbn0, hR2, hF2]; exact s2
      · show retR.secondsAbsolute = _
        rw [← q3, hbFeq, hbn0, hR2, hF2]; exact s3
      · show retR.beforeHeightAbsolute = _
        rw [← q4, hbFeq, hbn0, hR2, hF2]; exact s4
      · show retR.beforeSecondsAbsolute = _
        rw [← q5, hbFeq, hbn0, hR2, hF2]; exact s5
      · show List.Perm retR.aggSigUnsafe _
        rw [← q6, hbFeq, hbn0, hR2, hF2]; exact s10
      · show retR.removalAmount = _
        rw [← q7, hbFeq, hbn0, hR2, hF2]; exact s6
      · show retR.additionAmount = _
        rw [← q8, hbFeq, hbn0, hR2, hF2]; exact s7
      · show retR.conditionCost = _
        rw [← q9, hbFeq, hbn0, hR2, hF2]; exact s8
      · rw [← q10, hbFeq, hbn0]
      · show (L - nativeBase p g - gc) + nativeBase p (revGen css) + 20 - leftR + nativeBase p g + gc = _
        omega
      · show retR.executionCost + gc = _
        omega

/-! ## `SpendBundle::additions` on a valid bundle -/

/-- **The convenience additions query lists the created coins of the validated conditions.**
If `run_spendbundle` accepts the bundle `css` (any flags, any limit) with conditions `b`, the amounts of the
declared coins are u64 values (the field type), no condition produced by a puzzle has a PAIR in the opcode
position — the recorded finding `@pair-opcode` is exactly the failure of this hypothesis: `parse_opcode`
ignores such a condition outside mempool mode, `SpendBundle::additions` returns an error — and the
validated cost is within the query's own budget of 11 000 000 000, then `SpendBundle::additions` succeeds
and returns exactly the created coins of `b`: for every spend in order, for every CREATE_COIN in condition
order, (id of the spent coin, puzzle hash, amount).

The budget needs no separate hypothesis on the puzzle costs: the query charges the puzzle runs and 1 350 000
per created coin, validation charges at least that much for the same items (the size cost, SPEND_COST and
the other conditions come on top), so the query's countdown stays above validation's.  The puzzle oracle is
shared: `puz i` is the run of the i-th reveal on its solution; the code runs it with `ClvmFlags::empty()`
where validation uses the flags' dialect — the theorem is about bundles for which the two runs coincide. -/
theorem bundle_additions (p : Params) (css : List CoinSpendM) (puz : Nat → RunRes) (L : Nat) (b : Bundle)
    (pk : List (Bytes × Bytes))
    (hamt : ∀ s ∈ css, s.amount < 2^64)
    (hnp : ∀ k, k < css.length → ∀ c conds, puz k = some (c, conds) → noPairOpcode conds = true)
    (h : runSpendbundle p css puz L = .ok (b, pk)) (hcost : b.cost ≤ ADDITIONS_BUDGET) :
    bundleAdditions css puz = some (b.spends.flatMap (fun sp => sp.createCoin.map (fun nc => (sp.coinId, nc.ph, nc.amount)))) := by
  obtain ⟨_, h', _⟩ := C04.runSpendbundle_limit_exact p css puz L b pk h
  rw [runSpendbundle_eq] at h'
  cases hl : bundleCountdown p css puz b.cost with
  | error e => rw [hl] at h'; cases h'
  | ok q =>
    obtain ⟨⟨ret, st⟩, left⟩ := q
    rw [hl] at h'; simp only at h'
    cases hb : validateConditions (postProcess (bundleEnv p) ret st) st with
    | error e => rw [hb] at h'; cases h'
    | ok u =>
      rw [hb] at h'; simp only at h'
      injection h' with h'; injection h' with h1 _
      unfold bundleCountdown at hl
      obtain ⟨⟨_, m1⟩, hch, hl⟩ := bind_ok hl
      obtain ⟨m1', hch1, hch2⟩ := bind_ok hch
      injection hch2 with hch2; injection hch2 with _ hch2
      obtain ⟨_, hm1⟩ := charge_ok_iff.mp hch1
      simp only at hl
      split at hl
      · cases hl
      obtain ⟨news, hn, hres⟩ := bundleAddLoop_of_bundleLoop (bundleEnv p) puz css 0 {} {} m1 ret st left ADDITIONS_BUDGET hl
        (by omega) hamt (fun k _ hk => hnp k (by omega))
      have hsp : b.spends = (postProcess (bundleEnv p) ret st).spends := by rw [← h1]
      show bundleAdditions css puz = some (b.spends.flatMap adds3)
      unfold bundleAdditions
      rw [hres, hsp, postProcess_adds3, hn]
      rfl

/-- the same with the limit in place of the validated cost: a bundle accepted under a limit of at most
11 000 000 000 (the block maximum, which is also the query's budget) -/
theorem bundle_additions_of_limit (p : Params) (css : List CoinSpendM) (puz : Nat → RunRes) (L : Nat) (b : Bundle)
    (pk : List (Bytes × Bytes))
    (hamt : ∀ s ∈ css, s.amount < 2^64)
    (hnp : ∀ k, k < css.length → ∀ c conds, puz k = some (c, conds) → noPairOpcode conds = true)
    (h : runSpendbundle p css puz L = .ok (b, pk)) (hL : L ≤ ADDITIONS_BUDGET) :
    bundleAdditions css puz = some (b.spends.flatMap (fun sp => sp.createCoin.map (fun nc => (sp.coinId, nc.ph, nc.amount)))) :=
  bundle_additions p css puz L b pk hamt hnp h
    (Nat.le_trans (C04.runSpendbundle_limit_exact p css puz L b pk h).1 hL)

/-! ## non-vacuity of the hypotheses of the rebuild and additions theorems -/
namespace Witness2
open ChiaModel.C07.Witness

/-- a one-spend generator output: coin (parent 07…07, identity puzzle `1`, amount 2), whose puzzle returns
one CREATE_COIN of amount 1 -/
def ph9 : Bytes := List.replicate 32 9
def spend1 : Sexp := Sexp.ofList [.atom (List.replicate 32 7), .atom [1], .atom [2], Sexp.nil]
def genRun1 : RunRes := some (10, .pair (Sexp.ofList [spend1]) Sexp.nil)
def conds1 : Sexp := Sexp.ofList [Sexp.ofList [.atom [51], .atom ph9, .atom [1]]]
def puz1 : Nat → RunRes := fun _ => some (5, conds1)

/-- the native path accepts it (limit below MAX_BLOCK_COST_CLVM) -/
example : (native p0 g0 genRun1 puz1 10000000).toBool = true := by decide +kernel
example : (10000000 : Nat) ≤ Gen.maxBlockCostClvm := by decide
example : ∀ c out, genRun1 = some (c, out) → out.AllBytes := by
  intro c out h
  injection h with h; injection h with _ h
  subst h
  simp [spend1, Sexp.ofList, Sexp.AllBytes, Sexp.nil, isBytes]
/-- every reveal and solution fits the 2 MB limit -/
example : ∀ c allSpends args, genRun1 = some (c, .pair allSpends args) → revealsFit fits2MB allSpends = true := by
  intro c allSpends args h
  injection h with h; injection h with _ h; injection h with h _
  subst h
  decide +kernel
example : ∀ pairs pairs' : List (Bytes × Bytes), List.Perm pairs pairs' → p0.sigOk pairs = p0.sigOk pairs' := fun _ _ _ => rfl

/-- the recovered coin spend is the generator's: parent, amount, puzzle, solution, lengths; puzzle hash = tree hash -/
example : (getCoinspends fits2MB p0 g0 genRun1).map (fun l => l.map (fun cs => (cs.parent, cs.amount, cs.puzzle, cs.solution)))
    = some [(List.replicate 32 7, 2, .atom [1], Sexp.nil)] := by decide +kernel
example : (getCoinspends fits2MB p0 g0 genRun1).map (fun l => l.map (fun cs =>
    (cs.puzzleLen, cs.solutionLen, cs.puzzleHash == Sexp.treeHash (.atom [1])))) = some [(1, 1, true)] := by decide +kernel

/-- and the generator `build_generator` makes of it is accepted by the native path with the same created coin -/
example : ((getCoinspends fits2MB p0 g0 genRun1).map (fun css =>
    match native p0 (revGen css) (some (20, C08.quoted (revGen css).prog)) (fun i => puz1 (css.length - 1 - i)) 10000000 with
    | .ok b' => b'.spends.map (fun sp => (sp.parentId, sp.coinAmount, sp.createCoin.map (fun nc => (nc.ph, nc.amount))))
    | .error _ => [])) = some [(List.replicate 32 7, 2, [(ph9, 1)])] := by decide +kernel

/-- the exclusion is real for the model: with a size test that fails (as `fits2MB` does above 2 MB) the
recovered reveal is the default program `80`, not the generator's puzzle -/
example : (getCoinspends (fun _ => false) p0 g0 genRun1).map (fun l => l.map (fun cs => cs.puzzle)) = some [Sexp.nil] := by
  decide +kernel

/-- the same coin spend as a one-spend bundle -/
def cs1 : CoinSpendM :=
  { parent := List.replicate 32 7, puzzleHash := Sexp.treeHash (.atom [1]), amount := 2,
    puzzle := .atom [1], solution := conds1, puzzleLen := 1, solutionLen := 41 }

/-- `run_spendbundle` accepts it under the block maximum; the amounts are u64; no pair in an opcode position -/
example : (runSpendbundle p0 [cs1] puz1 11000000000).toBool = true := by decide +kernel
example : (11000000000 : Nat) ≤ ADDITIONS_BUDGET := by decide
example : ∀ s ∈ [cs1], s.amount < 2^64 := by
  intro s hs
  simp only [List.mem_cons, List.mem_nil_iff, or_false] at hs
  subst hs; decide
example : ∀ k, k < [cs1].length → ∀ c conds, puz1 k = some (c, conds) → noPairOpcode conds = true := by
  intro k _ c conds h
  injection h with h; injection h with _ h
  subst h; decide

/-- `SpendBundle::additions` lists the created coin (puzzle hash, amount; the parent is the 32-byte coin id) -/
example : (bundleAdditions [cs1] puz1).map (fun l => l.map (fun x => (x.1.length, x.2.1, x.2.2))) = some [(32, ph9, 1)] := by
  decide +kernel

/-- the exclusion is real for the model: a condition with a PAIR in the opcode position, `((51))`, is
ignored by `run_spendbundle` (consensus mode) but makes `SpendBundle::additions` fail -/
def puzP : Nat → RunRes := fun _ => some (5, Sexp.ofList [.pair (.pair (.atom [51]) Sexp.nil) Sexp.nil])
example : (runSpendbundle p0 [cs1] puzP 11000000000).toBool = true := by decide +kernel
example : bundleAdditions [cs1] puzP = none := by decide +kernel

end Witness2


/-! ## the listing variant `get_coinspends_with_conditions_for_trusted_block` -/

/-- **The listing helper returns the coin spends of the plain helper**, for every generator, flag set and
puzzle-run oracle: whenever it succeeds, `get_coinspends_for_trusted_block` succeeds as well and returns
exactly the first components, in order; the second components are the listings of the puzzle runs of the
spend tuples in order. -/
theorem withconds_coinspends (fits : Sexp → Bool) (p : Params) (g : GenInput) (genRun : RunRes) (puz : Nat → RunRes)
    (l : List (CoinSpendM × CondListing)) (h : getCoinspendsWithConds fits p g genRun puz = some l) :
    getCoinspends fits p g genRun = some (l.map Prod.fst) ∧
    ∃ c allSpends args, genRun = some (c, .pair allSpends args) ∧ l.map Prod.snd = listingsOf puz allSpends 0 := by
  unfold getCoinspendsWithConds at h
  unfold getCoinspends
  split at h
  · cases h
  rename_i h1
  rw [if_neg h1]
  split at h
  · cases h
  rename_i h2
  rw [if_neg h2]
  split at h
  · cases h
  rename_i h3
  rw [if_neg h3]
  cases hg : genRun with
  | none => rw [hg] at h; cases h
  | some co =>
    obtain ⟨c, out⟩ := co
    rw [hg] at h
    simp only at h ⊢
    split at h
    · cases h
    rename_i h4
    rw [if_neg h4]
    cases out with
    | atom b => cases h
    | pair allSpends args =>
      simp only at h ⊢
      split at h
      · cases h
      exact ⟨withCondsLoop_fst fits puz allSpends 0 l h, c, allSpends, args, rfl, withCondsLoop_snd fits puz allSpends 0 l h⟩

/-- **On every accepted block the listing helper succeeds, with the coin spends of the plain helper and one
listing per validated spend.**  Hypotheses of `coinspends_rebuild`.  Conclusion: the helper returns `l` with
`l.map fst` = the coin spends `css` of `get_coinspends_for_trusted_block` (to which `coinspends_rebuild` /
`coinspends_rebuild_reversed` apply), as many entries as validated spends, and the k-th listing is
`listConds` of the output of the k-th validated spend's puzzle run — the same run whose conditions full
validation parsed. -/
theorem withconds_of_accept (fits : Sexp → Bool) (p : Params) (g : GenInput) (genRun : RunRes) (puz : Nat → RunRes)
    (L : Nat) (b : Bundle)
    (hL : L ≤ Gen.maxBlockCostClvm) (hab : ∀ c out, genRun = some (c, out) → out.AllBytes)
    (hfit : ∀ c allSpends args, genRun = some (c, .pair allSpends args) → revealsFit fits allSpends = true)
    (h : native p g genRun puz L = .ok b) :
    ∃ l css, getCoinspendsWithConds fits p g genRun puz = some l ∧ getCoinspends fits p g genRun = some css ∧
      l.map Prod.fst = css ∧ css.map csKey = b.spends.map spKey ∧
      l.map Prod.snd = (List.range b.spends.length).map (fun k => runListing (puz k)) := by
  obtain ⟨hq, hnode, hr, hbase, gc, allSpends, args, retN, st, left, bn0, hgen, hgc, hex, hloop, hfin, rfl⟩ := native_ok_full h
  obtain ⟨news, hn, htr⟩ := nativeLoop_trace _ puz allSpends 0 _ _ _ _ _ _ _ hloop
  simp only [List.nil_append] at hn
  have hbytes := hab gc _ hgen
  simp only [Sexp.AllBytes] at hbytes
  obtain ⟨css, hcs, hrec, hkeys⟩ := coinspendsLoop_of_trace fits puz news allSpends 0 _ htr hbytes.1 (hfit gc allSpends args hgen)
  have hruns := puzzleRunsOk_of_trace puz news allSpends 0 _ htr (by omega)
  have hsome := withCondsLoop_isSome fits puz allSpends 0
  rw [hcs, hruns] at hsome
  cases hw : withCondsLoop fits puz allSpends 0 with
  | none => rw [hw] at hsome; simp at hsome
  | some l =>
    have hget : getCoinspendsWithConds fits p g genRun puz = some l := by
      unfold getCoinspendsWithConds
      rw [if_neg hq, if_neg (by simp [hnode]), if_neg hr, hgen]
      simp only
      rw [if_neg (by omega), if_neg (by simp [hex])]
      exact hw
    have hget2 : getCoinspends fits p g genRun = some css := by
      unfold getCoinspends
      rw [if_neg hq, if_neg (by simp [hnode]), if_neg hr, hgen]
      simp only
      rw [if_neg (by omega)]
      exact hcs
    have hfst := withCondsLoop_fst fits puz allSpends 0 l hw
    rw [hcs] at hfst
    obtain ⟨hv, hsig, rfl⟩ := C08.finishBundle_block_ok (env := { flags := p.flags, mempool := false, pkOk := p.pkOk }) rfl hfin
    refine ⟨l, css, hget, hget2, (Option.some.inj hfst).symm, by rw [hkeys, ← hn], ?_⟩
    rw [withCondsLoop_snd fits puz allSpends 0 l hw, listingsOf_of_trace puz news allSpends 0 _ htr]
    simp only [Nat.zero_add, hn]

/-- **What a listing contains.**  `listConds` walks the conditions in order; each contributes `condEntry`
(opcode = `small_number` of its first item, up to six atom arguments; skipped when there is no such opcode or
an argument atom has 1024 bytes or more), subject to the per-spend limit `pushEntry`.  Consequences: the
listing is a sub-list of the entries in order; AGG_SIG_* and CREATE_COIN entries are never dropped by the
limit; with at most 1024 entries nothing is dropped. -/
theorem listing_spec (t : Sexp) :
    listConds t [] = ((items t).filterMap condEntry).foldl pushEntry [] ∧
    (listConds t []).Sublist ((items t).filterMap condEntry) ∧
    (listConds t []).filter (fun e => isHighPriority e.1) = ((items t).filterMap condEntry).filter (fun e => isHighPriority e.1) ∧
    (((items t).filterMap condEntry).length ≤ 1024 → listConds t [] = (items t).filterMap condEntry) := by
  have h0 := listConds_foldl t []
  refine ⟨h0, ?_, ?_, ?_⟩
  · obtain ⟨l, h1, h2⟩ := foldl_pushEntry_sublist ((items t).filterMap condEntry) []
    rw [h0, h1]; simpa using h2
  · rw [h0, foldl_pushEntry_high]; simp
  · intro hlen
    rw [h0, foldl_pushEntry_short _ [] (by simpa [maxConditionsPerSpend] using hlen)]; simp

/-- **A CREATE_COIN condition in a listing.**  For a condition `(51 ph amount . rest)` whose puzzle hash and
amount are atoms shorter than 1024 bytes (every CREATE_COIN full validation accepts: 32 bytes and at most 8),
the entry — when the condition is not skipped — is opcode 51 with `ph`, `amount` as its first two arguments;
and it is not skipped when every atom among the remaining items is shorter than 1024 bytes.  (A fourth or
later ATOM argument of 1024 bytes or more makes the helper omit the condition: consensus outside mempool mode
accepts such a CREATE_COIN, so the listing may lack a created coin; the property's clauses are about the
recovered coin spends, which are not affected.) -/
theorem listing_create_coin (ph amt : Bytes) (rest : Sexp) (h1 : ph.length < 1024) (h2 : amt.length < 1024) :
    (∀ e, condEntry (.pair (.atom [51]) (.pair (.atom ph) (.pair (.atom amt) rest))) = some e →
      e.1 = 51 ∧ ∃ more, e.2 = ph :: amt :: more) ∧
    (smallAtoms rest = true → ∃ e, condEntry (.pair (.atom [51]) (.pair (.atom ph) (.pair (.atom amt) rest))) = some e) := by
  have hsn : smallNumber (.atom [51]) = some 51 := by decide
  have hca : collectArgs (.pair (.atom ph) (.pair (.atom amt) rest)) [] = collectArgs rest [ph, amt] := by
    rw [collectArgs]
    simp only [List.length_nil, Nat.zero_lt_succ, if_true]
    rw [if_neg (by omega), collectArgs]
    simp only [List.nil_append, List.length_cons, List.length_nil]
    rw [if_pos (by omega), if_neg (by omega)]
    rfl
  constructor
  · intro e he
    simp only [condEntry, hsn, hca] at he
    cases hc : collectArgs rest [ph, amt] with
    | none => rw [hc] at he; cases he
    | some bs =>
      rw [hc] at he
      simp only [Option.map_some, Option.some.injEq] at he
      obtain ⟨more, hm⟩ := collectArgs_prefix rest _ bs hc
      subst he
      exact ⟨rfl, more, by simpa using hm⟩
  · intro hs
    obtain ⟨bs, hb⟩ := collectArgs_some rest [ph, amt] hs
    exact ⟨(51, bs), by simp only [condEntry, hsn, hca, hb, Option.map_some]⟩

/-- non-vacuity and the omission made concrete: a listed CREATE_COIN, and one with a 1024-byte fourth
argument that the helper leaves out -/
example : listConds (Sexp.ofList [Sexp.ofList [.atom [51], .atom (List.replicate 32 9), .atom [1]],
                                  Sexp.ofList [.atom [1], .atom [5]]]) []
    = [(51, [List.replicate 32 9, [1]]), (1, [[5]])] := by decide +kernel
example : listConds (Sexp.ofList [Sexp.ofList [.atom [51], .atom (List.replicate 32 9), .atom [1], Sexp.nil,
                                  .atom (List.replicate 1024 0)]]) [] = [] := by decide +kernel

end ChiaModel.C09
