import ChiaModel.Lemmas.MerkleSound
import ChiaModel.Lemmas.MerkleParse
/-
C12 — Merkle set roots are canonical and proofs are complete and sound.
Property theorems only (helper lemmas live in Lemmas/MerkleSet*.lean).  All statements are about the
executable model `ChiaModel.Merkle.*` that the driver runs against the Rust code, for an arbitrary
hash function `H` (the driver instantiates `H := sha256`).
-/
namespace ChiaModel.C12
open ChiaModel ChiaModel.Merkle

/-- **Canonical root.** For every list `l` of 32-byte leaves (any order, any duplicates) and every
enumeration `S` of the same set, `compute_merkle_set_root` returns the reference collapsed
binary-trie hash `Spec.root` of `S`. -/
theorem root_canonical (H : Bytes → Bytes) (l S : List Bytes) (hl : ∀ x ∈ l, IsLeaf x)
    (hmem : ∀ x, x ∈ S ↔ x ∈ l) : computeMerkleSetRoot H l = Spec.root H S := by
  unfold computeMerkleSetRoot Spec.root
  by_cases h : l = []
  · have hS : S = [] := by
      apply List.eq_nil_iff_forall_not_mem.mpr
      intro a ha; rw [hmem, h] at ha; simp at ha
    rw [if_pos h, hS, trie_nil]
  · rw [if_neg h, radix_eq_trie H 256 l h,
      trie_set_ext H 256 l S hl (agree_zero l) (fun x => (hmem x).symm)]
    generalize Spec.trie H 256 S = v
    obtain ⟨a, t⟩ := v
    cases t <;> rfl

/-- **The root depends only on the set of leaves**: two lists of 32-byte leaves with the same
elements (in any order, with any multiplicities) have the same root. -/
theorem root_perm (H : Bytes → Bytes) (l l' : List Bytes) (hl : ∀ x ∈ l, IsLeaf x)
    (hl' : ∀ x ∈ l', IsLeaf x) (h : ∀ x, x ∈ l ↔ x ∈ l') :
    computeMerkleSetRoot H l = computeMerkleSetRoot H l' := by
  rw [root_canonical H l l' hl (fun x => (h x).symm), root_canonical H l' l' hl' (fun _ => Iff.rfl)]

/-- the root is the reference trie root of the duplicate-free enumeration of the leaves -/
theorem root_dedup (H : Bytes → Bytes) (l : List Bytes) (hl : ∀ x ∈ l, IsLeaf x) :
    computeMerkleSetRoot H l = Spec.root H (Spec.dedup l) ∧ (Spec.dedup l).Nodup :=
  ⟨root_canonical H l _ hl (mem_dedup l), nodup_dedup l⟩

/-- **Both root computations agree.** The root read off the node vector that `MerkleSet::from_leafs`
builds (`get_root`) is the root that `compute_merkle_set_root` returns, for every list of leaves. -/
theorem roots_agree (H : Bytes → Bytes) (l : List Bytes) :
    getRoot H (fromLeafs H l).nodes = computeMerkleSetRoot H l := by
  rw [(fromLeafs_den H l).getRoot H, root_of_shape H (ttree_shape H 256 l), computeRoot_eq]

/-- **Completeness.** For every list `l` of 32-byte leaves and every item `x`, `generate_proof` on
the tree `from_leafs l` succeeds, its flag is exactly `x ∈ l`, and `validate_merkle_proof` accepts the
generated proof against the set's root with verdict `x ∈ l`.  (`hH`: digests are 32 bytes long, as
for SHA-256, see `sha256_length`.) -/
theorem complete (H : Bytes → Bytes) (hH : ∀ u, (H u).length = 32) (l : List Bytes) (x : Bytes)
    (hl : ∀ y ∈ l, IsLeaf y) :
    ∃ p, generateProof (fromLeafs H l) x = some (decide (x ∈ l), p) ∧
      validateMerkleProof H p x (computeMerkleSetRoot H l) = some (decide (x ∈ l)) := by
  obtain ⟨bs, vt, ty, nt, hg, ⟨ext, vi, hparse, _, hne, _, _, hlast⟩, hroot, hwalk⟩ := top_ok H hH x l hl
  refine ⟨bs, ?_, ?_⟩
  · rw [generateProof_eq _ _ (fromLeafs_nodes_ne H l) (fromLeafs_den H l), hg, fromLeafs_fromProof]; rfl
  · have hparse' : parseNode H 258 0 [] bs [] = some ([], ext, vi, ty) := by simpa using hparse
    have hlast' : Den ext (ext.length - 1) nt := by simpa using hlast
    obtain ⟨q, hq⟩ := map_fst_some hwalk
    unfold validateMerkleProof validateOutcome fromProof deserializeProof
    rw [hparse']
    simp only []
    rw [hlast'.getRoot H, hroot, ← computeRoot_eq, if_neg (by simp),
      generateProof_eq ⟨ext, true⟩ nt hne hlast', hq]

/-- **Soundness.** For every list `S` of 32-byte leaves, every item `x` and every byte string `p`:
if `validate_merkle_proof p x (root of S)` returns a verdict `b`, then `b` is exactly `x ∈ S` — or the
proof exhibits two different byte strings with the same digest, or a pre-image of the all-zero
digest (the empty set's root is the raw constant `BLANK`, not a digest).  Injectivity of `H` is
never assumed; the colliding pair is constructed from the first place where the parsed tree and the
reference trie differ. -/
theorem sound (H : Bytes → Bytes) (hH : ∀ u, (H u).length = 32) (S : List Bytes) (hS : ∀ y ∈ S, IsLeaf y)
    (p x : Bytes) (b : Bool) (h : validateMerkleProof H p x (computeMerkleSetRoot H S) = some b) :
    b = decide (x ∈ S) ∨ (∃ u v, u ≠ v ∧ H u = H v) ∨ (∃ u, H u = zeros 32) := by
  unfold validateMerkleProof validateOutcome fromProof deserializeProof at h
  cases hp : parseNode H 258 0 [] p [] with
  | none => rw [hp] at h; simp at h
  | some r =>
    obtain ⟨rest, nv, vi, ty⟩ := r
    rw [hp] at h
    cases rest with
    | cons c t => simp at h
    | nil =>
      simp only [] at h
      obtain ⟨ext, vt, nt, hnv, hne, _, _, _, hval, hts, _, hlast, htop⟩ := parse_inv H _ _ _ _ _ _ _ _ _ hp
      have hnv' : nv ≠ [] := by rw [hnv]; simpa using hne
      by_cases hr : getRoot H nv = computeMerkleSetRoot H S
      · rw [if_neg (by simp [hr]), generateProof_eq ⟨nv, true⟩ nt hnv' hlast] at h
        cases hg : nt.genProof x 0 with
        | none => rw [hg] at h; simp at h
        | some v =>
          obtain ⟨b', q⟩ := v
          rw [hg] at h
          simp at h
          subst h
          rw [hlast.getRoot H, computeRoot_eq] at hr
          exact sound_core H hH S hS x vt nt ty hval hts htop hr b' q hg
      · rw [if_pos (by simpa using hr)] at h; simp at h

/-- **Parsing rejects trailing bytes.** If a byte string is accepted by `MerkleSet::from_proof`, no
proper extension of it is (the parser consumes exactly one proof tree and requires the cursor to be
at the end of the input). -/
theorem parse_rejects_trailing (H : Bytes → Bytes) (p extra : Bytes) (ms : MerkleSet)
    (h : fromProof H p = some ms) (he : extra ≠ []) : fromProof H (p ++ extra) = none := by
  unfold fromProof deserializeProof at h ⊢
  cases hp : parseNode H 258 0 [] p [] with
  | none => rw [hp] at h; simp at h
  | some r =>
    obtain ⟨rest, nv, vi, ty⟩ := r
    rw [hp] at h
    cases rest with
    | cons c t => simp at h
    | nil =>
      rw [parse_append H extra _ _ _ _ _ _ _ _ _ hp]
      cases extra with
      | nil => exact absurd rfl he
      | cons c t => rfl

/-- **Parsing rejects over-deep nesting.** The serialisation of any proof tree (32-byte payloads)
that nests more than 257 `MIDDLE` nodes inside each other, followed by anything, is rejected:
`MIDDLE` is refused once 257 are already open (`depth > 256`), so the walk depth of
`generate_proof_impl` stays within a `u8` plus one wrap. -/
theorem parse_rejects_deep (H : Bytes → Bytes) (t : PT) (ht : t.WF) (hdeep : 257 < t.height) (rest : Bytes) :
    fromProof H (t.ser ++ rest) = none := by
  unfold fromProof deserializeProof
  rw [parse_deep_none H t ht 258 0 [] rest [] (by omega) (by omega)]

/-- **parse_total.** Proof parsing is a total function (structural recursion on a fuel that the
depth guard makes sufficient: `fuel + depth = 258`), and it rejects (a) every proper extension of an
accepted proof (trailing bytes) and (b) every serialised proof tree nested deeper than the guard. -/
theorem parse_total (H : Bytes → Bytes) :
    (∀ (p extra : Bytes) (ms : MerkleSet), fromProof H p = some ms → extra ≠ [] → fromProof H (p ++ extra) = none) ∧
    (∀ (t : PT), t.WF → 257 < t.height → ∀ rest, fromProof H (t.ser ++ rest) = none) :=
  ⟨fun p extra ms h he => parse_rejects_trailing H p extra ms h he,
   fun t ht hd rest => parse_rejects_deep H t ht hd rest⟩

/-! ### Non-vacuity: concrete instances with `H := sha256` (kernel evaluation) -/

set_option maxRecDepth 100000 in
/-- the hypotheses `IsLeaf` of the theorems are satisfiable -/
example : ∀ x ∈ tree5 ++ leftEdge ++ deepPair, IsLeaf x := by decide

set_option maxRecDepth 100000 in
/-- `root_canonical` / `roots_agree` on the 5-leaf tree: radix-sort root = node-vector root = reference
trie root of the sorted list = the value the Rust code returns -/
example : computeMerkleSetRoot sha256 tree5 = root5
    ∧ getRoot sha256 (fromLeafs sha256 tree5).nodes = root5
    ∧ Spec.root sha256 [lf 0x20 0, lf 0x21 0, lf 0x23 0, lf 0x58 0, lf 0xca 0] = root5
    ∧ computeMerkleSetRoot sha256 (tree5.reverse ++ [lf 0x23 0, lf 0x23 0]) = root5 := by decide +kernel

set_option maxRecDepth 100000 in
/-- `complete` / `sound` are not vacuous: a member and a non-member of the 5-leaf tree -/
example : roundTrip tree5 (lf 0x21 0) = (some true, some true)
    ∧ roundTrip tree5 (lf 0x22 0) = (some false, some false)
    ∧ roundTrip [] (lf 0x22 0) = (some false, some false)
    ∧ roundTrip [lf 0x22 0, lf 0x22 0] (lf 0x22 0) = (some true, some true) := by decide +kernel

set_option maxRecDepth 100000 in
/-- the audit matters: for two leaves sharing 255 bits, the honest proof is accepted, and the same
proof with the sides of its top (collapsed, hence root-preserving) level swapped is rejected -/
example : swapDemo = (some true, none) := by decide +kernel

set_option maxRecDepth 100000 in
/-- `parse_total` is tight: 257 nested `MIDDLE`s are accepted, 258 are rejected (any `H`) -/
example : (fromProof (fun _ => zeros 32) (List.replicate 257 2 ++ List.replicate 258 0)).isSome = true
    ∧ (fromProof (fun _ => zeros 32) (List.replicate 258 2 ++ List.replicate 259 0)).isSome = false
    ∧ (fromProof (fun _ => zeros 32) ([0] ++ [0])).isSome = false := by decide +kernel

/-- the digest-length hypothesis `hH` of `complete` and `sound` holds for SHA-256 -/
example : ∀ u, (sha256 u).length = 32 := sha256_length

end ChiaModel.C12
