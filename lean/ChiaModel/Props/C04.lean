import ChiaModel.Lemmas.Cost
import ChiaModel.Lemmas.CostNative
import ChiaModel.Lemmas.CostDecomp
import ChiaModel.Lemmas.CostTable
import ChiaModel.Props.C02
import ChiaModel.Spec.CostTable
/-
C04 — cost charged equals the consensus cost table and the limit is exact.
-/
namespace ChiaModel.C04
open ChiaModel ChiaModel.Cond ChiaModel.Spec

/-- **The limit is exact.**  If `parse_spends` accepts under limit `L` reporting cost `c`, then
`c ≤ L`, it accepts with the identical result under limit `c`, and under every smaller limit it
fails with cost-exceeded (never with another error, never accepting). -/
theorem limit_exact (env : Env) (sigOk : List (Bytes × Bytes) → Bool) (t : Sexp) (L cc : Nat)
    (b : Bundle) (st : PState) (h : parseSpends env sigOk t L cc = .ok (b, st)) :
    b.cost ≤ L ∧ parseSpends env sigOk t b.cost cc = .ok (b, st) ∧
    ∀ L', L' < b.cost → parseSpends env sigOk t L' cc = .error .costExceeded := by
  unfold parseSpends at h ⊢
  cases hf : first t with
  | error e => rw [hf] at h; cases h
  | ok iter =>
    rw [hf] at h; simp only at h ⊢
    cases hl : spendLoop env cc iter {} {} (spendLimit env.flags) L with
    | error e => rw [hl] at h; cases h
    | ok p =>
      obtain ⟨⟨ret, st'⟩, left⟩ := p
      rw [hl] at h; simp only at h
      cases hb : finishBundle env sigOk ret st' with
      | error e => rw [hb] at h; cases h
      | ok ret' =>
        rw [hb] at h; simp only at h
        injection h with h; injection h with h1 h2; subst h2
        obtain ⟨s1, s2, s3⟩ := shift_spendLoop env cc iter {} {} (spendLimit env.flags) L (ret, st') left hl
        have hcost : b.cost = L - left := by rw [← h1]
        refine ⟨by omega, ?_, ?_⟩
        · have e2 := s2 left (Nat.le_refl _)
          simp only at e2
          rw [hcost, e2]
          simp only [hb]
          rw [← h1]; simp
        · intro L' hL'
          have e3 := s3 (L - L') (by omega) (by omega)
          simp only at e3
          have : L' = L - (L - L') := by omega
          rw [this, e3]

/-- no accepted result reports a cost above the limit it was given -/
theorem cost_le_limit (env : Env) (sigOk : List (Bytes × Bytes) → Bool) (t : Sexp) (L cc : Nat)
    (b : Bundle) (st : PState) (h : parseSpends env sigOk t L cc = .ok (b, st)) : b.cost ≤ L :=
  (limit_exact env sigOk t L cc b st h).1

/-- **Cost equals the table sum.**  For an accepted tree, the reported cost is exactly the sum over
the spends of (per-spend charge + per-condition table cost), the condition-cost sub-total equals
it, and the per-spend condition costs are the per-spend terms, in order. -/
theorem cost_is_table_sum (env : Env) (sigOk : List (Bytes × Bytes) → Bool) (t iter : Sexp) (L cc : Nat)
    (b : Bundle) (st : PState) (hf : first t = .ok iter) (h : parseSpends env sigOk t L cc = .ok (b, st)) :
    b.cost = ((listElems iter).map (spendCostOf env.flags)).sum ∧ b.conditionCost = b.cost ∧
    b.spends.map (·.conditionCost) = (listElems iter).map (spendCostOf env.flags) := by
  obtain ⟨iter', ret, left, hf', hl, hv, rfl⟩ := C02.parseSpends_ok h
  rw [hf] at hf'; injection hf' with hf'; subst hf'
  obtain ⟨c1, c2, c3⟩ := spendLoop_cost env cc iter {} {} _ L ret st left hl
  obtain ⟨g, hg, _, _, _, r4⟩ := C02.postProcess_spends env ret st
  simp only [r4]
  refine ⟨by omega, by simp only [c2]; show 0 + _ = _; omega, ?_⟩
  rw [hg, List.map_map]
  simp only [List.map_nil, List.nil_append] at c1
  rw [← c1]
  apply List.map_congr_left
  intro sp _; rfl

/-! ### the table itself, spelled out (values come from the generated `Gen.*` constants) -/

/-- AGG_SIG_* always cost 1 200 000; CREATE_COIN 1 800 000 before and 1 350 000 after the cost fork;
a spend costs 450 000 after it; announcement/message conditions 700 and all other parsed conditions
200 after it, nothing before. -/
theorem table_values :
    Gen.aggSigCost = 1200000 ∧ Gen.createCoinCost = 1800000 ∧ Gen.newCreateCoinCost = 1350000 ∧
    Gen.spendCost = 450000 ∧ Gen.messageConditionCost = 700 ∧ Gen.genericConditionCost = 200 := by decide

theorem preCharge_table (flags op : Nat) :
    preCharge flags op =
      (if op = Gen.opCreateCoin then (if hasFlag flags Gen.flagCostConditions then 1350000 else 1800000)
       else if isAggSig op then 1200000
       else if isAnnounceClass op then (if hasFlag flags Gen.flagCostConditions then 700 else 0)
       else (if hasFlag flags Gen.flagCostConditions then 200 else 0)) := by
  unfold preCharge
  simp only [table_values]

/-- **Two-byte opcode costs.**  The table the code computes with 64-bit integers and periodic
renormalisation equals, on all 256 slots, the documented closed form: `100·17^k/16^k` in exact
arithmetic, truncated to three significant figures. -/
theorem unknown_cost_closed_form :
    ∀ k, k < 256 → Gen.unknownCostTable.getD k 0 = trunc3 (100 * 17 ^ k / 16 ^ k) := by decide +kernel

theorem unknown_cost_fn (op : Nat) : Gen.computeUnknownConditionCost op = unknownConditionCost op := by
  unfold Gen.computeUnknownConditionCost unknownConditionCost
  split
  · rfl
  · exact unknown_cost_closed_form (op % 256) (Nat.mod_lt _ (by decide))

open ChiaModel.Gn

/-- **The block-level limit is exact (native path).**  If `run_block_generator2` accepts under
limit `L` reporting cost `c` (byte cost + CLVM cost of generator and puzzles + condition costs),
then `c ≤ L`, it returns the identical result under limit `c`, and under every smaller limit it
fails with cost-exceeded. -/
theorem native_limit_exact (p : Params) (g : GenInput) (genRun : RunRes) (puz : Nat → RunRes) (L : Nat)
    (b : Bundle) (h : native p g genRun puz L = .ok b) :
    b.cost ≤ L ∧ native p g genRun puz b.cost = .ok b ∧
    ∀ L', L' < b.cost → native p g genRun puz L' = .error .costExceeded := by
  simp only [native_eq] at h ⊢
  by_cases h0 : simpleGen p.flags ∧ !g.startsQuote
  · rw [if_pos h0] at h; cases h
  rw [if_neg h0] at h
  simp only [if_neg h0]
  cases hl : nativeCountdown p g genRun puz L with
  | error e => rw [hl] at h; cases h
  | ok q =>
    obtain ⟨⟨ret, st'⟩, left⟩ := q
    rw [hl] at h; simp only at h
    cases hb : finishBundle (nativeEnv p) p.sigOk ret st' with
    | error e => rw [hb] at h; cases h
    | ok ret' =>
      rw [hb] at h; simp only at h
      injection h with h1
      obtain ⟨s1, s2, s3⟩ := shift_nativeCountdown p g genRun puz L (ret, st') left hl
      have hcost : b.cost = L - left := by rw [← h1]
      refine ⟨by omega, ?_, ?_⟩
      · have e2 := s2 left (Nat.le_refl _)
        simp only at e2
        rw [hcost, e2]
        simp only [hb]
        rw [← h1]; simp
      · intro L' hL'
        have e3 := s3 (L - L') (by omega) (by omega)
        simp only at e3
        have : L' = L - (L - L') := by omega
        rw [this, e3]


/-- **The limit is exact for `run_spendbundle`** (mempool path). -/
theorem runSpendbundle_limit_exact (p : Params) (spends : List CoinSpendM) (puz : Nat → RunRes) (L : Nat)
    (b : Bundle) (pk : List (Bytes × Bytes)) (h : runSpendbundle p spends puz L = .ok (b, pk)) :
    b.cost ≤ L ∧ runSpendbundle p spends puz b.cost = .ok (b, pk) ∧
    ∀ L', L' < b.cost → runSpendbundle p spends puz L' = .error .costExceeded := by
  simp only [runSpendbundle_eq] at h ⊢
  cases hl : bundleCountdown p spends puz L with
  | error e => rw [hl] at h; cases h
  | ok q =>
    obtain ⟨⟨ret, st'⟩, left⟩ := q
    rw [hl] at h; simp only at h
    cases hb : validateConditions (postProcess (bundleEnv p) ret st') st' with
    | error e => rw [hb] at h; cases h
    | ok u =>
      rw [hb] at h; simp only at h
      injection h with h; injection h with h1 h2
      obtain ⟨s1, s2, s3⟩ := shift_bundleCountdown p spends puz L (ret, st') left hl
      have hcost : b.cost = L - left := by rw [← h1]
      refine ⟨by omega, ?_, ?_⟩
      · have e2 := s2 left (Nat.le_refl _)
        simp only at e2
        rw [hcost, e2]
        simp only [hb]
        rw [← h1, ← h2]; simp
      · intro L' hL'
        have e3 := s3 (L - L') (by omega) (by omega)
        simp only at e3
        have : L' = L - (L - L') := by omega
        rw [this, e3]


/-- **The block-level limit is exact (legacy ROM path).**  The cost reported by `run_block_generator`
(byte cost + cost of the ROM run + condition costs) is at most the limit; with the limit set to
exactly that cost the result is identical, and every smaller limit fails with cost-exceeded. -/
theorem legacy_limit_exact (p : Params) (g : GenInput) (romRun : RunRes) (L : Nat)
    (b : Bundle) (h : legacy p g romRun L = .ok b) :
    b.cost ≤ L ∧ legacy p g romRun b.cost = .ok b ∧
    ∀ L', L' < b.cost → legacy p g romRun L' = .error .costExceeded := by
  unfold legacy at h ⊢
  by_cases h0 : simpleGen p.flags ∧ !g.startsQuote
  · rw [if_pos h0] at h; cases h
  rw [if_neg h0] at h; simp only [if_neg h0]
  by_cases h1 : simpleGen p.flags ∧ g.nrefs > 0
  · rw [if_pos h1] at h; cases h
  rw [if_neg h1] at h; simp only [if_neg h1]
  simp only [subtractCost_eq_charge] at h ⊢
  cases hc1 : charge L (g.len * p.costPerByte) with
  | error e => rw [hc1] at h; cases h
  | ok cl1 =>
    rw [hc1] at h; simp only at h
    by_cases h2 : (!generatorNodeOk p.flags g.prog) = true
    · rw [if_pos h2] at h; cases h
    rw [if_neg h2] at h; simp only [if_neg h2]
    cases romRun with
    | none => simp [runWithLimit] at h
    | some q =>
      obtain ⟨c, out⟩ := q
      simp only [runWithLimit] at h ⊢
      by_cases h3 : c > cl1
      · rw [if_pos h3] at h; cases h
      rw [if_neg h3] at h; simp only at h
      cases hc2 : charge cl1 c with
      | error e => rw [hc2] at h; cases h
      | ok cl2 =>
        rw [hc2] at h; simp only at h
        cases hp : parseSpends { flags := p.flags, mempool := false, pkOk := p.pkOk } p.sigOk out cl2 0 with
        | error e => rw [hp] at h; cases h
        | ok r =>
          obtain ⟨ret, st⟩ := r
          rw [hp] at h; simp only at h
          injection h with hb
          obtain ⟨hB, e1⟩ := charge_ok_iff.mp hc1
          obtain ⟨hC, e2⟩ := charge_ok_iff.mp hc2
          obtain ⟨l1, l2, l3⟩ := limit_exact _ _ _ _ _ _ _ hp
          have hcost : b.cost = ret.cost + (L - cl2) := by rw [← hb]
          have hcost' : b.cost = ret.cost + g.len * p.costPerByte + c := by omega
          refine ⟨by omega, ?_, ?_⟩
          · have c1 : charge b.cost (g.len * p.costPerByte) = .ok (ret.cost + c) :=
              charge_ok_iff.mpr ⟨by omega, by omega⟩
            have c2 : charge (ret.cost + c) c = .ok ret.cost := charge_ok_iff.mpr ⟨by omega, by omega⟩
            rw [c1]; simp only
            rw [if_neg (by omega)]; simp only
            rw [c2]; simp only
            rw [l2]; simp only
            rw [← hb]
            have : ret.cost + (ret.cost + (L - cl2) - ret.cost) = ret.cost + (L - cl2) := by omega
            simp only [this]
          · intro L' hL'
            by_cases a1 : L' < g.len * p.costPerByte
            · have : charge L' (g.len * p.costPerByte) = .error .costExceeded := by
                unfold charge; rw [if_pos a1]
              rw [this]
            · have c1 : charge L' (g.len * p.costPerByte) = .ok (L' - g.len * p.costPerByte) :=
                charge_ok_iff.mpr ⟨by omega, rfl⟩
              rw [c1]; simp only
              by_cases a2 : c > L' - g.len * p.costPerByte
              · rw [if_pos a2]
              · rw [if_neg a2]; simp only
                have c2 : charge (L' - g.len * p.costPerByte) c = .ok (L' - g.len * p.costPerByte - c) :=
                  charge_ok_iff.mpr ⟨by omega, rfl⟩
                rw [c2]; simp only
                rw [l3 _ (by omega)]

/-- (auxiliary) post-processing does not touch the cost fields -/
theorem postProcess_costs (env : Env) (ret : Bundle) (st : PState) :
    (postProcess env ret st).executionCost = ret.executionCost ∧ (postProcess env ret st).conditionCost = ret.conditionCost := by
  unfold postProcess; split <;> exact ⟨rfl, rfl⟩

/-- **Cost decomposition, native path.**  The cost `run_block_generator2` reports for an accepted
block is exactly byte cost (serialised length or interned size, times cost-per-byte) + execution
cost (generator run + puzzle runs) + condition cost (the table sum of C04 `cost_is_table_sum`). -/
theorem native_cost_decomposition (p : Params) (g : GenInput) (genRun : RunRes) (puz : Nat → RunRes) (L : Nat) (b : Bundle)
    (h : native p g genRun puz L = .ok b) :
    b.cost = nativeBase p g + b.executionCost + b.conditionCost := by
  rw [native_eq] at h
  by_cases h0 : simpleGen p.flags ∧ !g.startsQuote
  · rw [if_pos h0] at h; cases h
  rw [if_neg h0] at h
  cases hl : nativeCountdown p g genRun puz L with
  | error e => rw [hl] at h; cases h
  | ok q =>
    obtain ⟨⟨ret, st⟩, left⟩ := q
    rw [hl] at h; simp only at h
    cases hb : finishBundle (nativeEnv p) p.sigOk ret st with
    | error e => rw [hb] at h; cases h
    | ok ret' =>
      rw [hb] at h; simp only at h
      injection h with h
      obtain ⟨_, hr⟩ := C02.finishBundle_ok hb
      obtain ⟨pc1, pc2⟩ := postProcess_costs (nativeEnv p) ret st
      unfold nativeCountdown at hl
      obtain ⟨⟨_, m0⟩, hc0, hl⟩ := bind_ok hl
      simp only at hl
      by_cases h1 : (!generatorNodeOk p.flags g.prog) = true
      · rw [if_pos h1] at hl; cases hl
      rw [if_neg h1] at hl
      by_cases h2 : simpleGen p.flags = true ∧ g.nrefs > 0
      · rw [if_pos h2] at hl; cases hl
      rw [if_neg h2] at hl
      obtain ⟨⟨r, m1⟩, hrun, hl⟩ := bind_ok hl
      simp only at hl
      cases hf : first r.2 with
      | error e => rw [hf] at hl; cases hl
      | ok allSpends =>
        rw [hf] at hl; simp only at hl
        by_cases h3 : (!allExtract3 allSpends) = true
        · rw [if_pos h3] at hl; cases hl
        rw [if_neg h3] at hl
        have e0 : nativeBase p g ≤ L ∧ m0 = L - nativeBase p g := by
          obtain ⟨m', hc, hp⟩ := bind_ok hc0
          injection hp with hp; injection hp with _ hp
          obtain ⟨a1, a2⟩ := charge_ok_iff.mp hc
          exact ⟨a1, by omega⟩
        obtain ⟨_, e1⟩ := runCharge_ok hrun
        have e2 := nativeLoop_cost (nativeEnv p) puz allSpends 0 _ _ _ m1 ret st left hl
        simp only at e2
        have hcost : b.cost = L - left := by rw [← h]
        have hex : b.executionCost = ret.executionCost := by rw [← h, hr]; exact pc1
        have hcc : b.conditionCost = ret.conditionCost := by rw [← h, hr]; exact pc2
        have : (({} : Bundle).conditionCost) = 0 := rfl
        omega

/-- **Cost decomposition, mempool path** (`run_spendbundle`). -/
theorem runSpendbundle_cost_decomposition (p : Params) (spends : List CoinSpendM) (puz : Nat → RunRes) (L : Nat)
    (b : Bundle) (pk : List (Bytes × Bytes)) (h : runSpendbundle p spends puz L = .ok (b, pk)) :
    b.cost = bundleBase p spends + b.executionCost + b.conditionCost := by
  rw [runSpendbundle_eq] at h
  cases hl : bundleCountdown p spends puz L with
  | error e => rw [hl] at h; cases h
  | ok q =>
    obtain ⟨⟨ret, st⟩, left⟩ := q
    rw [hl] at h; simp only at h
    cases hv : validateConditions (postProcess (bundleEnv p) ret st) st with
    | error e => rw [hv] at h; cases h
    | ok u =>
      rw [hv] at h; simp only at h
      injection h with h; injection h with h hpk
      obtain ⟨pc1, pc2⟩ := postProcess_costs (bundleEnv p) ret st
      unfold bundleCountdown at hl
      obtain ⟨⟨_, m0⟩, hc0, hl⟩ := bind_ok hl
      simp only at hl
      by_cases h1 : hasFlag p.flags Gen.flagLimitSpends = true ∧ spends.length > MAX_SPENDS_PER_BLOCK
      · rw [if_pos h1] at hl; cases hl
      rw [if_neg h1] at hl
      have e0 : bundleBase p spends ≤ L ∧ m0 = L - bundleBase p spends := by
        obtain ⟨m', hc, hp⟩ := bind_ok hc0
        injection hp with hp; injection hp with _ hp
        obtain ⟨a1, a2⟩ := charge_ok_iff.mp hc
        exact ⟨a1, by omega⟩
      have e2 := bundleLoop_cost (bundleEnv p) puz spends 0 _ _ m0 ret st left hl
      have hcost : b.cost = L - left := by rw [← h]
      have hex : b.executionCost = ret.executionCost := by rw [← h]; exact pc1
      have hcc : b.conditionCost = ret.conditionCost := by rw [← h]; exact pc2
      have z1 : (({} : Bundle).conditionCost) = 0 := rfl
      have z2 : (({} : Bundle).executionCost) = 0 := rfl
      omega

end ChiaModel.C04
