import ChiaModel.Lemmas.BlsCache
import ChiaModel.Lemmas.FSum
/-
C15 — all signature verification paths agree, with or without the pairing cache.
Property theorems only (helper lemmas live in Lemmas/BlsCache.lean).  They are about the executable
model the driver runs (Model/BlsCache.lean): the five verifiers over the ideal BLS, the FIFO cache
with `put` exactly as coded, and the lock-granularity thread model (`step`, `runSchedule`, `runAll`,
`runOp`, `runHistory`) of `BlsCache` as it is since the repair 601e785b: `aggregate_verify` keeps the
local flag `invalid_key` (set for every pair whose key is the point at infinity, before the cache
lookup) and returns `aggregate_verify_gt(sig, pairings) && !invalid_key`.

Reading guide.  A *schedule* is any list of thread indices: entry `i` lets call `i` take the cache
lock for its next atomic step (ignored when that call has returned).  `runAll w sched` executes the
schedule and then lets the remaining calls finish; `runOp c op` is one call alone; a sequential
history is `runHistory`.  Every statement below is for all caches, all capacities, all pair lists,
all signatures, all call lists and all schedules — no bound on any size.
-/
namespace ChiaModel.C15
open ChiaModel ChiaModel.Bls

/-! ## the cache never holds more entries than its capacity -/

/-- `BlsCache::new` needs a non-zero capacity (`NonZeroUsize`): capacity 0 cannot be constructed … -/
theorem new_zero : Cache.new 0 = none := rfl

/-- … and has to be excluded: `put`, as coded, would let a capacity-0 cache grow (it only pops when
`len == capacity`, which is never true again after the first insert). -/
theorem cap_zero_breaks :
    ((({ cap := 0 } : Cache).put [1] []).put [2] []).len = 2 := by decide

/-- **Capacity invariant, every schedule.**  Whatever the calls are and whatever state they are in
(no well-formedness assumed), every atomic step of every schedule keeps `len ≤ capacity`; the
capacity itself never changes.  `put` on a full cache pops the oldest entry first — also when the
key being put is already present (re-insert at capacity, which then shrinks the cache by one). -/
theorem cap_invariant (w : World) (h : CapOk w.cache) (sched : List Nat) :
    (runSchedule w sched).cache.len ≤ w.cache.cap ∧ (runSchedule w sched).cache.cap = w.cache.cap
    ∧ (runAll w sched).cache.len ≤ w.cache.cap := by
  have hcap : ∀ (w : World) (s : List Nat), (runSchedule w s).cache.cap = w.cache.cap := fun w s =>
    runSchedule_cache_inv (fun c => c.cap = w.cache.cap) (fun c t hc => (step_cap c t).trans hc) w s rfl
  have hok : ∀ (w : World) (s : List Nat), CapOk w.cache → CapOk (runSchedule w s).cache := fun w s h =>
    runSchedule_cache_inv CapOk (fun c t hc => step_capOk t hc) w s h
  refine ⟨?_, hcap w sched, ?_⟩
  · have := (hok w sched h).2
    rw [hcap] at this
    exact this
  · rw [runAll_eq]
    have := (hok w (sched ++ finishSchedule (runSchedule w sched)) h).2
    rw [hcap] at this
    exact this

theorem runOp_capOk {c : Cache} (op : Op) (h : CapOk c) : CapOk (runOp c op).1 ∧ (runOp c op).1.cap = c.cap := by
  have h1 := cap_invariant { cache := c, threads := [Thread.start op] } h []
  have h2 : (runOp c op).1 = (runAll { cache := c, threads := [Thread.start op] } []).cache := rfl
  have h3 : (runAll { cache := c, threads := [Thread.start op] } []).cache.cap = c.cap := by
    rw [runAll_eq]
    exact runSchedule_cache_inv (fun c' => c'.cap = c.cap) (fun c' t hc => (step_cap c' t).trans hc) _ _ rfl
  rw [h2]
  exact ⟨⟨by rw [h3]; exact h.1, by rw [h3]; exact h1.2.2⟩, h3⟩

/-- **Capacity invariant, fresh cache, whole histories.**  For a cache made by `BlsCache::new(n)`:
after every call of every sequential history (`len()` is recorded after each call), and after every
schedule of any concurrent calls that follow, the cache holds at most `n` entries. -/
theorem cap_invariant_new (n : Nat) (c0 : Cache) (hnew : Cache.new n = some c0)
    (pre : List Op) (calls : List Op) (sched : List Nat) :
    (∀ r ∈ (runHistory c0 pre).2, r.2 ≤ n) ∧ (runHistory c0 pre).1.len ≤ n ∧
    (runAll { cache := (runHistory c0 pre).1, threads := calls.map Thread.start } sched).cache.len ≤ n := by
  obtain ⟨hcap, _, hok⟩ := new_ok hnew
  have key : ∀ (ops : List Op) (c : Cache), CapOk c → c.cap = n →
      (∀ r ∈ (runHistory c ops).2, r.2 ≤ n) ∧ CapOk (runHistory c ops).1 ∧ (runHistory c ops).1.cap = n := by
    intro ops
    induction ops with
    | nil => intro c h hc; exact ⟨(by intro r hr; cases hr), h, hc⟩
    | cons op rest ih =>
      intro c h hc
      obtain ⟨h1, h2⟩ := runOp_capOk op h
      obtain ⟨i1, i2, i3⟩ := ih (runOp c op).1 h1 (h2.trans hc)
      refine ⟨?_, i2, i3⟩
      intro r hr
      simp only [runHistory, List.mem_cons] at hr
      rcases hr with rfl | hr
      · have := h1.2; rw [h2, hc] at this; exact this
      · exact i1 r hr
  obtain ⟨k1, k2, k3⟩ := key pre c0 hok hcap
  refine ⟨k1, by have := k2.2; rw [k3] at this; exact this, ?_⟩
  have := (cap_invariant { cache := (runHistory c0 pre).1, threads := calls.map Thread.start } k2 sched).2.2
  rw [show ({ cache := (runHistory c0 pre).1, threads := calls.map Thread.start } : World).cache.cap = n from k3] at this
  exact this

/-- the association list never holds a key twice (so `len` is the number of distinct keys, as in the
`LinkedHashMap`) -/
theorem keys_nodup (w : World) (h : KeysNodup w.cache) (sched : List Nat) :
    KeysNodup (runSchedule w sched).cache :=
  runSchedule_cache_inv KeysNodup (fun _ t hc => step_keysNodup t hc) w sched h

/-! ## the cache only ever holds true pairings -/

/-- **CacheSound is an invariant of every schedule.**  If every entry maps `sha256(pk‖m)` to
`e(pk, H(pk‖m))`, the calls use pairs from the finite universe `U`, `update`s are truthful and the
keys of `U` do not collide (`CollisionFree`, an explicit hypothesis — SHA-256 is not assumed
injective), then the same holds after every atomic step of every schedule, and after `runAll`. -/
theorem cache_sound_inv (U : List Pair) (hcf : CollisionFree U) (c : Cache) (hs : CacheSound U c)
    (calls : List Op) (hops : ∀ op ∈ calls, OpOk U op) (sched : List Nat) :
    CacheSound U (runSchedule { cache := c, threads := calls.map Thread.start } sched).cache ∧
    CacheSound U (runAll { cache := c, threads := calls.map Thread.start } sched).cache := by
  have hw : WorldOk U { cache := c, threads := calls.map Thread.start } := by
    refine ⟨hs, ?_⟩
    intro t ht
    obtain ⟨op, hop, rfl⟩ := List.mem_map.mp ht
    exact start_ok (hops op hop)
  refine ⟨(runSchedule_ok hcf _ sched hw).1, ?_⟩
  rw [runAll_eq]
  exact (runSchedule_ok hcf _ _ hw).1

/-- the same with the collision as an explicit disjunct instead of a hypothesis: either the cache
stays sound, or two of the pairs in use collide on their cache key with different pairings. -/
theorem cache_sound_inv_or_collision (U : List Pair) (c : Cache) (hs : CacheSound U c)
    (calls : List Op) (hops : ∀ op ∈ calls, OpOk U op) (sched : List Nat) :
    CacheSound U (runAll { cache := c, threads := calls.map Thread.start } sched).cache ∨
    ∃ p ∈ U, ∃ q ∈ U, p.key = q.key ∧ p.pairing ≠ q.pairing := by
  by_cases hcf : CollisionFree U
  · exact Or.inl (cache_sound_inv U hcf c hs calls hops sched).2
  · refine Or.inr ?_
    unfold CollisionFree at hcf
    simp only [Classical.not_forall] at hcf
    obtain ⟨p, hp, q, hq, hk, hne⟩ := hcf
    exact ⟨p, hp, q, hq, hk, hne⟩

/-! ## transparency: the cache-assisted verdict does not depend on the cache -/

/-- **Every call returns, and a cache-assisted verification returns exactly
`aggregate_verify_gt(sig, true pairings) && !(some key is the point at infinity)`** — for every
sound cache (any capacity, any prior contents), every list of concurrent `aggregate_verify` /
`update` / `evict` / `len` calls and every interleaving of their lock acquisitions.  The right-hand
side mentions neither the cache nor the schedule: the verdict is independent of capacity, contents,
evictions and interleaving.  (That right-hand side is `aggregate_verify(sig, pairs)`:
`gt_flag_eq_plain`, `cache_agrees_with_plain_sched`.) -/
theorem transparent (U : List Pair) (hcf : CollisionFree U) (c : Cache) (hs : CacheSound U c)
    (calls : List Op) (hops : ∀ op ∈ calls, OpOk U op) (sched : List Nat) :
    (runAll { cache := c, threads := calls.map Thread.start } sched).threads.map (·.op) = calls ∧
    ∀ t ∈ (runAll { cache := c, threads := calls.map Thread.start } sched).threads,
      (∃ o, t.st = .done o) ∧
      ∀ ps sig, t.op = .av ps sig →
        t.st = .done (.verdict (aggregateVerifyGt sig (ps.map Pair.pairing) && !(ps.any Pair.isInf))) := by
  have hw : WorldOk U { cache := c, threads := calls.map Thread.start } := by
    refine ⟨hs, ?_⟩
    intro t ht
    obtain ⟨op, hop, rfl⟩ := List.mem_map.mp ht
    exact start_ok (hops op hop)
  refine ⟨?_, ?_⟩
  · rw [runAll_eq, runSchedule_ops]
    show (calls.map Thread.start).map (·.op) = calls
    induction calls with
    | nil => rfl
    | cons a r ih =>
      simp only [List.map_cons]
      rw [ih (fun op hop => hops op (List.mem_cons_of_mem _ hop))
        ⟨hs, fun t ht => hw.2 t (List.mem_cons_of_mem _ ht)⟩]
      rfl
  · intro t ht
    obtain ⟨o, ho⟩ := runAll_done _ sched t ht
    refine ⟨⟨o, ho⟩, ?_⟩
    intro ps sig hop
    have hok : ThreadOk U t := by
      rw [runAll_eq] at ht
      exact (runSchedule_ok hcf _ _ hw).2 t ht
    simp only [ThreadOk, ho] at hok
    rw [ho, hok ps sig hop]

/-- the same for a schedule that is cut off anywhere: a call that *has* returned returned that
verdict (no call ever returns anything else at any point of any interleaving). -/
theorem transparent_prefix (U : List Pair) (hcf : CollisionFree U) (c : Cache) (hs : CacheSound U c)
    (calls : List Op) (hops : ∀ op ∈ calls, OpOk U op) (sched : List Nat) :
    ∀ t ∈ (runSchedule { cache := c, threads := calls.map Thread.start } sched).threads,
      ∀ ps sig o, t.op = .av ps sig → t.st = .done o →
        o = .verdict (aggregateVerifyGt sig (ps.map Pair.pairing) && !(ps.any Pair.isInf)) := by
  have hw : WorldOk U { cache := c, threads := calls.map Thread.start } := by
    refine ⟨hs, ?_⟩
    intro t ht
    obtain ⟨op, hop, rfl⟩ := List.mem_map.mp ht
    exact start_ok (hops op hop)
  intro t ht ps sig o hop ho
  have hok : ThreadOk U t := (runSchedule_ok hcf _ _ hw).2 t ht
  simp only [ThreadOk, ho] at hok
  exact hok ps sig hop

/-- sequential form: `BlsCache::aggregate_verify` called alone on a sound cache returns
`aggregate_verify_gt` over the true pairings, and-ed with "no key is the point at infinity", and
leaves the cache sound (also when it returns `false` because of an infinity key: the identity
pairing it has inserted IS the true pairing of that pair). -/
theorem cacheVerify_transparent (U : List Pair) (hcf : CollisionFree U) (c : Cache)
    (hs : CacheSound U c) (sig : Sig) (ps : List Pair) (hU : ∀ p ∈ ps, p ∈ U) :
    (cacheVerify c sig ps).2 = (aggregateVerifyGt sig (ps.map Pair.pairing) && !(ps.any Pair.isInf)) ∧
    CacheSound U (cacheVerify c sig ps).1 := by
  have hops : ∀ op ∈ [Op.av ps sig], OpOk U op := by
    intro op hop
    simp only [List.mem_singleton] at hop
    subst hop
    exact hU
  obtain ⟨h1, h2⟩ := transparent U hcf c hs [.av ps sig] hops []
  have h3 := (cache_sound_inv U hcf c hs [.av ps sig] hops []).2
  simp only [List.map_cons, List.map_nil] at h1 h2 h3
  obtain ⟨t, ht, htop⟩ := List.map_eq_singleton_iff.mp h1
  have hst := (h2 t (by rw [ht]; exact List.mem_singleton.mpr rfl)).2 ps sig htop
  refine ⟨?_, h3⟩
  simp only [cacheVerify, runOp, ht, List.head?_cons, Option.bind_some, Thread.out, hst]

/-- sequential histories keep the cache sound (truthful updates, pairs from `U`) -/
theorem history_sound (U : List Pair) (hcf : CollisionFree U) (pre : List Op)
    (hops : ∀ op ∈ pre, OpOk U op) (c : Cache) (hs : CacheSound U c) :
    CacheSound U (runHistory c pre).1 := by
  induction pre generalizing c with
  | nil => exact hs
  | cons op rest ih =>
    simp only [runHistory]
    apply ih (fun o ho => hops o (List.mem_cons_of_mem _ ho))
    exact (cache_sound_inv U hcf c hs [op] (by
      intro o ho
      simp only [List.mem_singleton] at ho
      subst ho
      exact hops _ (List.mem_cons_self ..)) []).2

/-! ## the verification paths agree; the ideal verdict -/

/-- `aggregate_verify` returns what the property prescribes, for EVERY pair list (with or without
the infinity key) and every signature: never valid if a key is the point at infinity, otherwise
valid exactly when the signature is the aggregate of signatures by those keys over those messages. -/
theorem aggregateVerify_spec (sig : Sig) (ps : List Pair) : aggregateVerify sig ps = specVerdict sig ps := by
  unfold specVerdict
  cases hinf : ps.any Pair.isInf with
  | true =>
    have h0 := any_isInf.mp hinf
    simp only [Bool.not_true, Bool.false_and]
    unfold aggregateVerify
    split
    · rfl
    · cases ps with
      | nil => obtain ⟨p, hp, _⟩ := h0; cases hp
      | cons p rest => simp only [avLoop_inf _ h0]
  | false =>
    have h0 := any_isInf_false.mp hinf
    simp only [Bool.not_false, Bool.true_and, IsAggregate, aggregate_sign]
    unfold aggregateVerify
    cases sig with
    | mk off terms =>
      cases off with
      | true => simp [Sig.isValid]
      | false =>
        simp only [Sig.isValid, Bool.not_false, Bool.not_true, Bool.false_eq_true, if_false]
        cases ps with
        | nil => rfl
        | cons p rest =>
          simp only [avLoop_noinf _ h0, pairGen_eq, Sig.mk.injEq, true_and]
          exact decide_eq_decide.mpr eq_comm

/-- **Ideal correctness.**  Without an infinity key, `aggregate_verify` accepts exactly when
`sig = Σ sk_i · H(pk_i ‖ m_i)` (the aggregate of the owners' signatures). -/
theorem ideal_correct (sig : Sig) (ps : List Pair) (hn : ∀ p ∈ ps, p.pk ≠ 0) :
    aggregateVerify sig ps = true ↔ IsAggregate sig ps := by
  rw [aggregateVerify_spec, specVerdict, any_isInf_false.mpr hn]
  simp

/-- `verify(sig, pk, msg)` is `aggregate_verify` on the singleton list — for every key, infinity
included — hence also returns the prescribed verdict. -/
theorem verify_spec (sig : Sig) (p : Pair) :
    verify sig p = aggregateVerify sig [p] ∧ verify sig p = specVerdict sig [p] := by
  have h : verify sig p = aggregateVerify sig [p] := by
    unfold verify aggregateVerify
    cases sig with
    | mk off terms =>
      cases off with
      | true => simp [Sig.isValid]
      | false =>
        simp only [Sig.isValid, Bool.not_false, Bool.not_true, Bool.false_eq_true, if_false, avLoop]
        by_cases hp : p.pk = 0
        · simp [hp]
        · simp only [hp, if_false, FSum.nil_add]
  exact ⟨h, h.trans (aggregateVerify_spec sig [p])⟩

/-- without an infinity key, verification from precomputed (true) pairings agrees with
`aggregate_verify` -/
theorem gt_noinf (sig : Sig) (ps : List Pair) (hn : ∀ p ∈ ps, p.pk ≠ 0) :
    aggregateVerifyGt sig (ps.map Pair.pairing) = aggregateVerify sig ps := by
  unfold aggregateVerify aggregateVerifyGt
  split
  · rfl
  · cases ps with
    | nil => rfl
    | cons p rest =>
      simp only [avLoop_noinf _ hn, List.map_cons, List.foldl_cons, FSum.nil_add]

/-- **`aggregate_pairing` under its argument convention** — all `(pk_i, H(pk_i‖m_i))` followed by
`(−g, sig)`, as in the tests of signature.rs — is `aggregate_verify_gt` over the true pairings, for
every pair list and every signature in normal form (`Normal`: what `aggregate`/`sign`/`hash_to_g2`
build, lemma `aggregate_normal`); hence, without an infinity key, it agrees with `aggregate_verify`
and returns the prescribed verdict.  (With an infinity key the ideal `e(∞, ·) = 1` is NOT what
blst's multi-pairing computes; the harness reports that case informationally only.) -/
theorem pairing_convention (sig : Sig) (ps : List Pair) (hsig : Normal sig.terms) :
    aggregatePairing (pairingArgs sig ps) = aggregateVerifyGt sig (ps.map Pair.pairing) ∧
    ((∀ p ∈ ps, p.pk ≠ 0) → aggregatePairing (pairingArgs sig ps) = specVerdict sig ps) := by
  have main : aggregatePairing (pairingArgs sig ps) = aggregateVerifyGt sig (ps.map Pair.pairing) := by
    have hA : Normal ((ps.map Pair.pairing).foldl FSum.add []) :=
      foldl_add_normal _ (by
        intro g hg
        obtain ⟨p, _, rfl⟩ := List.mem_map.mp hg
        exact pairing_normal p) normal_nil
    have hfold : (pairingArgs sig ps).foldl (fun (acc : GT) d => FSum.add acc (pair d.1 d.2)) ([] : GT)
        = FSum.add ((ps.map Pair.pairing).foldl FSum.add []) (FSum.smul (-1) sig.terms) := by
      simp only [pairingArgs, List.foldl_append, List.foldl_map, List.foldl_cons, List.foldl_nil]
      rfl
    have hany : (pairingArgs sig ps).any (fun d => d.2.off) = sig.off := by
      simp [pairingArgs, hashToG2]
    unfold aggregatePairing
    cases hd : pairingArgs sig ps with
    | nil => simp [pairingArgs] at hd
    | cons d rest =>
      simp only
      rw [← hd, hany, hfold]
      unfold aggregateVerifyGt
      cases sig with
      | mk off terms =>
        cases off with
        | true => simp [Sig.isValid]
        | false =>
          simp only [Sig.isValid, Bool.not_false, Bool.not_true, Bool.false_eq_true, if_false]
          have hdec : decide (FSum.add ((ps.map Pair.pairing).foldl FSum.add []) (FSum.smul (-1) terms) = ([] : FSum))
              = decide ((ps.map Pair.pairing).foldl FSum.add [] = terms) :=
            decide_eq_decide.mpr (add_neg_eq_nil_iff hA hsig)
          rw [hdec]
          cases ps with
          | nil =>
            simp only [List.map_nil, List.foldl_nil]
            apply decide_eq_decide.mpr
            constructor
            · intro h; rw [← h]; rfl
            · intro h; injection h with _ h2; exact h2.symm
          | cons p r =>
            simp only [List.map_cons, List.foldl_cons, FSum.nil_add, pairGen_eq]
  refine ⟨main, ?_⟩
  intro hn
  rw [main, gt_noinf sig ps hn, aggregateVerify_spec]

/-! ## the infinity key is rejected on the cache-assisted path, whatever the cache holds -/

/-- **Never valid with an infinity key, every schedule.**  For EVERY cache (no soundness, no
collision-freeness, no capacity bound assumed), every list of concurrent calls and every
interleaving of their lock acquisitions: a `BlsCache::aggregate_verify` call whose pair list
contains the point at infinity returns `false` (and it does return: `transparent`/`runAll_done`).
This is the `invalid_key` flag of the repair 601e785b: it is set for every pair taken from the list,
before the lookup, hit or miss, so no cache content can make the call accept. -/
theorem inf_full_sched (c : Cache) (calls : List Op) (sched : List Nat) :
    ∀ t ∈ (runAll { cache := c, threads := calls.map Thread.start } sched).threads,
      ∀ ps sig, t.op = .av ps sig → ps.any Pair.isInf = true → t.st = .done (.verdict false) := by
  intro t ht ps sig hop hinf
  obtain ⟨o, ho⟩ := runAll_done _ sched t ht
  have hok : FlagOk t := by
    rw [runAll_eq] at ht
    refine runSchedule_flagOk _ _ ?_ t ht
    intro t' ht'
    obtain ⟨op, _, rfl⟩ := List.mem_map.mp ht'
    exact start_flagOk op
  simp only [FlagOk, ho] at hok
  rw [ho, hok ps sig hop hinf]

/-- the same for a schedule that is cut off anywhere: such a call never returns anything but
`false`, at any point of any interleaving, on any cache. -/
theorem inf_full_prefix (c : Cache) (calls : List Op) (sched : List Nat) :
    ∀ t ∈ (runSchedule { cache := c, threads := calls.map Thread.start } sched).threads,
      ∀ ps sig o, t.op = .av ps sig → ps.any Pair.isInf = true → t.st = .done o →
        o = .verdict false := by
  intro t ht ps sig o hop hinf ho
  have hok : FlagOk t := by
    refine runSchedule_flagOk _ _ ?_ t ht
    intro t' ht'
    obtain ⟨op, _, rfl⟩ := List.mem_map.mp ht'
    exact start_flagOk op
  simp only [FlagOk, ho] at hok
  exact hok ps sig hop hinf

/-- **Never valid if any key is the point at infinity** — the cache-assisted path, called alone on
ANY cache, with any signature: no side condition.  (Before the repair 601e785b this sentence was
false for `BlsCache::aggregate_verify`; see `former_witness_rejected`.) -/
theorem inf_full (c : Cache) (sig : Sig) (ps : List Pair) (hinf : ps.any Pair.isInf = true) :
    (cacheVerify c sig ps).2 = false := by
  have h1 : (runAll { cache := c, threads := [Op.av ps sig].map Thread.start } []).threads.map (·.op)
      = [Op.av ps sig] := by
    rw [runAll_eq, runSchedule_ops]; rfl
  have h2 := inf_full_sched c [.av ps sig] []
  simp only [List.map_cons, List.map_nil] at h1 h2
  obtain ⟨t, ht, htop⟩ := List.map_eq_singleton_iff.mp h1
  have hst := h2 t (by rw [ht]; exact List.mem_singleton.mpr rfl) ps sig htop hinf
  simp only [cacheVerify, runOp, ht, List.head?_cons, Option.bind_some, Thread.out, hst]

/-! ## the cache-assisted path agrees with `aggregate_verify` -/

/-- what the cache-assisted path computes on a sound cache — `aggregate_verify_gt` over the true
pairings, and-ed with "no key is the point at infinity" — is `aggregate_verify`, for EVERY pair
list and signature (with an infinity key both sides are `false`; without, `gt_noinf`). -/
theorem gt_flag_eq_plain (sig : Sig) (ps : List Pair) :
    (aggregateVerifyGt sig (ps.map Pair.pairing) && !(ps.any Pair.isInf)) = aggregateVerify sig ps := by
  cases hinf : ps.any Pair.isInf with
  | true =>
    rw [aggregateVerify_spec, specVerdict, hinf]
    simp
  | false =>
    rw [gt_noinf sig ps (any_isInf_false.mp hinf)]
    simp

/-- **The cache-assisted path agrees with `aggregate_verify`** — for every pair list, with or
without the infinity key (no such hypothesis), every signature, every sound cache of any capacity
and prior contents, given that the finitely many keys in use do not collide (`CollisionFree`).
This is the statement of the property for the pair `BlsCache::aggregate_verify` /
`aggregate_verify`; hence the cache-assisted verdict is also the prescribed one (`specVerdict`). -/
theorem cache_agrees_with_plain (U : List Pair) (hcf : CollisionFree U) (c : Cache)
    (hs : CacheSound U c) (sig : Sig) (ps : List Pair) (hU : ∀ p ∈ ps, p ∈ U) :
    (cacheVerify c sig ps).2 = aggregateVerify sig ps := by
  rw [(cacheVerify_transparent U hcf c hs sig ps hU).1, gt_flag_eq_plain]

/-- the same inside any schedule: every concurrent cache-assisted call returns, and returns what
`aggregate_verify` returns on its input (= the prescribed verdict), whatever the other calls
(`aggregate_verify` / `update` / `evict` / `len`) do and however the lock acquisitions interleave. -/
theorem cache_agrees_with_plain_sched (U : List Pair) (hcf : CollisionFree U) (c : Cache)
    (hs : CacheSound U c) (calls : List Op) (hops : ∀ op ∈ calls, OpOk U op) (sched : List Nat) :
    ∀ t ∈ (runAll { cache := c, threads := calls.map Thread.start } sched).threads,
      ∀ ps sig, t.op = .av ps sig →
        t.st = .done (.verdict (aggregateVerify sig ps)) ∧
        t.st = .done (.verdict (specVerdict sig ps)) := by
  intro t ht ps sig hop
  have h := ((transparent U hcf c hs calls hops sched).2 t ht).2 ps sig hop
  rw [gt_flag_eq_plain] at h
  exact ⟨h, by rw [h, aggregateVerify_spec]⟩

/-- **All paths agree when no key is the point at infinity**: the cache-assisted path (alone or in
any schedule, by `transparent`), `aggregate_verify`, `aggregate_verify_gt` over the true pairings and
— for a singleton list — `verify` return the same verdict, which is the prescribed one.  (The first
and the last two conjuncts hold with an infinity key as well: `cache_agrees_with_plain`,
`verify_spec`, `aggregateVerify_spec`; only `aggregate_verify_gt` over precomputed pairings cannot
see the keys and needs the hypothesis.) -/
theorem agree_noinf (U : List Pair) (hcf : CollisionFree U) (c : Cache) (hs : CacheSound U c)
    (sig : Sig) (ps : List Pair) (hU : ∀ p ∈ ps, p ∈ U) (hn : ∀ p ∈ ps, p.pk ≠ 0) :
    (cacheVerify c sig ps).2 = aggregateVerify sig ps ∧
    aggregateVerifyGt sig (ps.map Pair.pairing) = aggregateVerify sig ps ∧
    (∀ p, ps = [p] → verify sig p = aggregateVerify sig ps) ∧
    aggregateVerify sig ps = specVerdict sig ps := by
  refine ⟨cache_agrees_with_plain U hcf c hs sig ps hU, gt_noinf sig ps hn, ?_,
    aggregateVerify_spec sig ps⟩
  intro p hp
  subst hp
  exact (verify_spec sig p).1

/-- the same inside any schedule: with no infinity key every concurrent cache-assisted call returns
the prescribed verdict (without the hypothesis too: `cache_agrees_with_plain_sched`) -/
theorem agree_noinf_sched (U : List Pair) (hcf : CollisionFree U) (c : Cache) (hs : CacheSound U c)
    (calls : List Op) (hops : ∀ op ∈ calls, OpOk U op) (sched : List Nat) :
    ∀ t ∈ (runAll { cache := c, threads := calls.map Thread.start } sched).threads,
      ∀ ps sig, t.op = .av ps sig → (∀ p ∈ ps, p.pk ≠ 0) →
        t.st = .done (.verdict (specVerdict sig ps)) := by
  intro t ht ps sig hop _
  exact (cache_agrees_with_plain_sched U hcf c hs calls hops sched t ht ps sig hop).2

/-! ## the infinity key on every path; the inputs that used to be accepted -/

/-- the real 48-byte encoding of the point at infinity -/
def infBytes : Bytes := 0xc0 :: List.replicate 47 0

/-- `(∞, "")` -/
def infPair : Pair := { pk := 0, pkb := infBytes, msg := [] }

/-- With an infinity key in the list EVERY path that looks at the keys returns `false`, as
prescribed: `aggregate_verify`, `verify` (singleton list) and the cache-assisted path on any cache.
The pairing of the infinity key is the identity (`e(∞, H) = 1`), which is why the key has to be
rejected explicitly: in the product of pairings it simply drops out. -/
theorem inf_all_paths (sig : Sig) (ps : List Pair) (hinf : ps.any Pair.isInf = true) :
    aggregateVerify sig ps = false ∧ (∀ p, ps = [p] → verify sig p = false) ∧
    (∀ c, (cacheVerify c sig ps).2 = false) ∧
    specVerdict sig ps = false ∧
    (∀ p ∈ ps, p.pk = 0 → p.pairing = []) := by
  have hs : specVerdict sig ps = false := by rw [specVerdict, hinf]; rfl
  have h0 : aggregateVerify sig ps = false := by rw [aggregateVerify_spec, hs]
  refine ⟨h0, ?_, fun c => inf_full c sig ps hinf, hs, ?_⟩
  · intro p hp
    subst hp
    rw [(verify_spec sig p).1, h0]
  · intro p _ hp
    simp [Pair.pairing, pair, FSum.smul, hp]

/-- **The former witnesses are rejected.**  Before the repair 601e785b ("fix:
BlsCache::aggregate_verify rejects the infinity (or invalid) public key")
`BlsCache::aggregate_verify` never looked at the keys and accepted these two inputs (they were
replayed on the implementation: corpus/C15.case line 1 and DESIGN §7): (1) an empty cache of
capacity 1, the pair list `[(∞, "")]`, the default signature; (2) `[(pk, "hello"), (∞, "x")]` with
`sign(sk, "hello")`.  The model of the code as it is now returns `false` on both, as
`aggregate_verify` does — instances of `inf_full`, evaluated by the kernel on the executable model.
The pairing of the infinity pair is still looked up / computed / inserted as before the repair, so
the cache of (1) afterwards holds one entry (the identity pairing, which is the true pairing of that
pair: `CacheSound` is kept). -/
theorem former_witness_rejected :
    (cacheVerify { cap := 1 } Sig.zero [infPair]).2 = false ∧
    (cacheVerify { cap := 1 } Sig.zero [infPair]).1.len = 1 ∧
    (let p : Pair := { pk := 5, pkb := 0x85 :: List.replicate 47 7, msg := [0x68, 0x65, 0x6c, 0x6c, 0x6f] }
     let q : Pair := { pk := 0, pkb := infBytes, msg := [0x78] }
     (cacheVerify { cap := 2 } p.sign [p, q]).2 = false ∧ aggregateVerify p.sign [p, q] = false ∧
     (cacheVerify { cap := 2 } p.sign [p]).2 = true) := by
  decide +kernel

/-! ## non-vacuity of the hypotheses -/

/-- `CollisionFree` holds for concrete pairs (two keys, shared message, infinity key) … -/
example : CollisionFree
    [{ pk := 5, pkb := [0x85, 1], msg := [0x61] }, { pk := 7, pkb := [0x87, 2], msg := [0x61] },
     { pk := 5, pkb := [0x85, 1], msg := [] }, infPair] := by decide +kernel

/-- … `CacheSound`/`CapOk` hold for every fresh cache, and the calls of a history satisfy `OpOk` -/
example (U : List Pair) (n : Nat) (c : Cache) (h : Cache.new n = some c) : CacheSound U c ∧ CapOk c := by
  obtain ⟨_, hi, hc⟩ := new_ok h
  exact ⟨(by intro e he; rw [hi] at he; cases he), hc⟩

/-- the hypothesis of `inf_full` is satisfiable -/
example : [infPair].any Pair.isInf = true := by decide

/-- a sound non-empty cache exists (after one verification) -/
example : (cacheVerify { cap := 1 } (Pair.sign { pk := 5, pkb := [0x85, 1], msg := [0x61] })
    [{ pk := 5, pkb := [0x85, 1], msg := [0x61] }]).2 = true := by decide +kernel

end ChiaModel.C15
