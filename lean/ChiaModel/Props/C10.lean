import ChiaModel.Lemmas.Builders
import ChiaModel.Lemmas.BuilderBundles
import ChiaModel.Gen.Builder
import ChiaModel.Props.C04
/-
C10 — block builders emit exactly the accepted bundles within the cost limit.

Theorems about the two builder state machines of Model/Builders.lean (`ISt` = InternedBlockBuilder,
`CSt` = BlockBuilder with clvmr's incremental serializer as an oracle under `SerContract`).
Hypotheses used where sums are involved (`Cfg`, `Add.Small`): the limit is below 2^62 and at least the
cost of the empty generator, every declared cost is at most 2^63 and no single batch's byte cost
overflows; under them no `u64` sum of the code can wrap (the model itself wraps like a release build).

Two sentences of the property do NOT hold for the compressed builder on the unchanged code; they are
stated in full (`…_full`), refuted on a concrete history (`…_full_false`, replayed on the real code by
the harness) and proved with the exact exclusion (`…_partial`):  the running estimate of a builder no
attempt has yet reached the serializer of is 20, below the final cost 20 + 5·cost_per_byte; and the
first attempt rejected after serialization changes that estimate.
-/
namespace ChiaModel.C10
open ChiaModel ChiaModel.Gn ChiaModel.Bld

/-! ## constants regenerated from the source -/

/-- **The constants of both builder files are the specified ones**: 6 skipped items, the 6 000 000
near-full threshold, initial block cost 20 (one quote), initial byte cost 0, and for the interned
builder `WRAPPER_VBYTES` = 11 and `COST_CONS` = 3. -/
theorem builder_consts :
    Gen.cbMaxSkippedItems = maxSkipped ∧ Gen.cbMinCostThreshold = minCostThreshold ∧ Gen.cbInitialBlockCost = quoteCost ∧
    Gen.cbInitialByteCost = 0 ∧ Gen.ibMaxSkippedItems = maxSkipped ∧ Gen.ibMinCostThreshold = minCostThreshold ∧
    Gen.ibInitialBlockCost = quoteCost ∧ Gen.ibInitialByteCost = 0 ∧
    Gen.ibWrapperVbytes = wrapperVbytes ∧ Gen.ibCostCons = costCons := by decide

/-- **`WRAPPER_VBYTES` is the interned weight of the empty generator `(q . (() . ()))`, and `COST_CONS`
the weight of one pair** — the two numbers the estimate's soundness rests on. -/
theorem wrapper_weight : internedVbytes (generator []) = Gen.ibWrapperVbytes ∧ ∀ a b, wt (.pair a b) = Gen.ibCostCons := by
  refine ⟨by decide, fun _ _ => rfl⟩

/-! ## interned builder -/

/-- **Each attempt is all-or-nothing (interned builder; no hypotheses, wrapping arithmetic included).**
A call that does not report `added` (rejected by any of the three guards, or failing on a reveal that
does not deserialize) leaves every field of the builder except `num_skipped` exactly as it was; a call
that reports `added` conses exactly the batch's spends (last spend first) onto the spend list, appends
exactly the batch's signatures, adds the declared cost and the batch's byte weight, and does not touch
`num_skipped`. -/
theorem interned_all_or_nothing (s : ISt) (op : Add) :
    (isAdded (s.step op).2 = false ∧ (s.step op).1 = { s with numSkipped := (s.step op).1.numSkipped }) ∨
    (isAdded (s.step op).2 = true ∧
      (s.step op).1 = { s with byteCost := wadd s.byteCost (newByteCost s.cpb op.items.reverse), spends := op.items ++ s.spends,
                               blockCost := wadd s.blockCost op.cost, sig := s.sig ++ op.tags }) :=
  ISt.step_shape s op

/-- **A rejected attempt leaves the interned builder's later output unchanged.**  After any attempt
that was not added, every later attempt gets the same verdict, the same adds are accepted, `cost()`
is the same and `finalize` returns the same generator, signature and cost (or panics alike) as if
the rejected attempt had never been made; only `num_skipped` (hence the `done` hint) differs. -/
theorem interned_rejected_no_effect (s : ISt) (op : Add) (later : List Add) (h : isAdded (s.step op).2 = false) :
    ((s.step op).1.run later).finalize = (s.run later).finalize ∧ ((s.step op).1.run later).cost = (s.run later).cost ∧
    (s.step op).1.accepted later = s.accepted later := by
  rcases ISt.step_shape s op with ⟨_, h2⟩ | ⟨h1, _⟩
  · have hs : (s.step op).1.Same s := by rw [h2]; exact ⟨rfl, rfl, rfl, rfl, rfl, rfl⟩
    obtain ⟨r1, r2⟩ := ISt.Same.run later hs
    exact ⟨r1.finalize.1, r1.finalize.2, r2⟩
  · rw [h] at h1; cases h1

/-- **Contents (interned builder; every history, no hypotheses).**  Whatever `finalize` returns after
any sequence of attempts on a fresh builder is the tree `(q . (L . nil))` where `L` lists exactly the
spends `(parent puzzle amount solution)` of the accepted attempts, newest attempt first and inside an
attempt last spend first (the builder's order). -/
theorem interned_contents (cpb maxCost : Nat) (ops : List Add) (r : Sexp × List Nat × Nat)
    (h : ((ISt.init cpb maxCost).run ops).finalize = some r) :
    r.1 = generator (((ISt.init cpb maxCost).accepted ops).reverse.flatMap Add.items) := by
  obtain ⟨h1, _, _, _⟩ := ISt.run_obs ops (ISt.init cpb maxCost)
  unfold ISt.finalize at h
  simp only at h
  split at h
  · injection h with h; rw [← h]; simp only; rw [h1]; simp [ISt.init]
  · cases h

/-- **Signature (interned builder; every history, no hypotheses).**  The signature `finalize` returns
is the aggregate of exactly the signatures of the bundles of the accepted attempts (formal signatures:
the list of aggregated tags, in order), so under every interpretation of aggregation as an associative
operation with unit (`Mon`; commutativity is not even needed) it evaluates to the product of the
accepted attempts' own aggregates. -/
theorem interned_signature (cpb maxCost : Nat) (ops : List Add) (r : Sexp × List Nat × Nat)
    (h : ((ISt.init cpb maxCost).run ops).finalize = some r) :
    r.2.1 = ((ISt.init cpb maxCost).accepted ops).flatMap Add.tags ∧
    ∀ {M : Type} (m : Mon M) (f : Nat → M) (a b : List Nat), m.eval f (a ++ b) = m.mul (m.eval f a) (m.eval f b) := by
  obtain ⟨_, h2, _, _⟩ := ISt.run_obs ops (ISt.init cpb maxCost)
  refine ⟨?_, fun m f a b => Mon.eval_append m f a b⟩
  unfold ISt.finalize at h
  simp only at h
  split at h
  · injection h with h; rw [← h]; simp only; rw [h2]; simp [ISt.init]
  · cases h

/-- **Triangle inequality.**  The interned weight of a union of node sets is at most the sum of the
weights (`vb` = weight of the set of members), it is monotone in the set, and in tree form: a pair
weighs at most 3 plus its two sides. -/
theorem triangle (A B : List Sexp) (t u : Sexp) :
    vb (A ++ B) ≤ vb A + vb B ∧ ((∀ x ∈ A, x ∈ B) → vb A ≤ vb B) ∧
    internedVbytes (.pair t u) ≤ 3 + internedVbytes t + internedVbytes u := by
  refine ⟨vb_append_le A B, vb_mono, ?_⟩
  rw [internedVbytes_eq, internedVbytes_eq t, internedVbytes_eq u]
  simp only [subtrees]
  have h1 := vb_cons_le (.pair t u) (subtrees t ++ subtrees u)
  have h2 := vb_append_le (subtrees t) (subtrees u)
  simp only [wt] at h1
  omega

/-- **The estimate is an upper bound at every point of every history (interned builder).**  For
constants `Cfg` and a history of small adds, in the state reached: the exact cost `finalize` would
return now is at most `cost()`, `cost()` is at most the limit, neither sum wraps, and `cost()` is
literally byte estimate + 11·cost_per_byte + block cost. -/
theorem interned_estimate_upper (cpb maxCost : Nat) (hc : Cfg wrapperVbytes cpb maxCost) (ops : List Add)
    (hs : AllSmall cpb ops) :
    let s := (ISt.init cpb maxCost).run ops
    s.finalCost ≤ s.cost ∧ s.cost ≤ maxCost ∧
    s.finalCost = internedVbytes (generator s.spends) * cpb + s.blockCost ∧
    s.cost = s.byteCost + wrapperVbytes * cpb + s.blockCost := by
  have hi := IInv.run ops (IInv.init hc) hs
  obtain ⟨e1, e2, e3, e4⟩ := hi.final_le
  obtain ⟨_, _, o3, o4⟩ := ISt.run_obs ops (ISt.init cpb maxCost)
  have o3' : ((ISt.init cpb maxCost).run ops).cpb = cpb := o3
  have o4' : ((ISt.init cpb maxCost).run ops).maxCost = maxCost := o4
  simp only
  rw [o3'] at e1 e2; rw [o4'] at e4
  exact ⟨e3, e4, e1, e2⟩

/-- **Within the limit, and `finalize` cannot panic (interned builder, unconditional on the
serializer).**  For constants `Cfg` and any history of small adds, `finalize` returns (its `assert!`
does not fire), the returned cost is at most the maximum block cost and at most the last `cost()`. -/
theorem interned_within_limit (cpb maxCost : Nat) (hc : Cfg wrapperVbytes cpb maxCost) (ops : List Add)
    (hs : AllSmall cpb ops) :
    ∃ r, ((ISt.init cpb maxCost).run ops).finalize = some r ∧ r.2.2 ≤ maxCost ∧ r.2.2 ≤ ((ISt.init cpb maxCost).run ops).cost := by
  obtain ⟨h1, h2, _, _⟩ := interned_estimate_upper cpb maxCost hc ops hs
  obtain ⟨_, _, _, o4⟩ := ISt.run_obs ops (ISt.init cpb maxCost)
  have o4' : ((ISt.init cpb maxCost).run ops).maxCost = maxCost := o4
  have hle : ((ISt.init cpb maxCost).run ops).finalCost ≤ ((ISt.init cpb maxCost).run ops).maxCost := by rw [o4']; omega
  refine ⟨(generator ((ISt.init cpb maxCost).run ops).spends, ((ISt.init cpb maxCost).run ops).sig, ((ISt.init cpb maxCost).run ops).finalCost), ?_, by simp only; omega, h1⟩
  have hle' := hle
  unfold ISt.finalCost at hle'
  unfold ISt.finalize ISt.finalCost
  simp only
  rw [if_pos hle']

/-- **The limit is exact (interned builder): `>` not `>=`.**  In every reachable state, a small add
whose reveals decode is accepted if and only if the near-full guard does not fire and the true total
(estimate so far + the batch's own weight + declared cost) is at most the limit — in particular an
add that lands EXACTLY on the limit is accepted, one unit more is rejected. -/
theorem interned_exact_limit (cpb maxCost : Nat) (hc : Cfg wrapperVbytes cpb maxCost) (ops : List Add)
    (hs : AllSmall cpb ops) (op : Add) (ho : op.Small cpb) :
    let s := (ISt.init cpb maxCost).run ops
    isAdded (s.step op).2 = true ↔
      (¬ s.byteCost + wrapperVbytes * cpb + s.blockCost + minCostThreshold > maxCost ∧ op.bad = false ∧
       s.byteCost + byteSum cpb op.items + wrapperVbytes * cpb + s.blockCost + op.cost ≤ maxCost) := by
  have hi := IInv.run ops (IInv.init hc) hs
  obtain ⟨_, _, o3, o4⟩ := ISt.run_obs ops (ISt.init cpb maxCost)
  have o3' : ((ISt.init cpb maxCost).run ops).cpb = cpb := o3
  have o4' : ((ISt.init cpb maxCost).run ops).maxCost = maxCost := o4
  have := (ISt.step_spec hi (op := op) (by rw [o3']; exact ho)).1
  simp only
  rw [o3', o4'] at this
  exact this

/-! ## compressed builder (incremental serializer under `SerContract`) -/

/-- the sentence "each attempt is all-or-nothing" for the compressed builder, in full: a call that is
not added leaves every field but `num_skipped` unchanged -/
def compressed_all_or_nothing_full : Prop :=
  ∀ (s : CSt) (op : Add), SerContract s op → isAdded (s.step op).2 = false →
    (s.step op).1 = { s with numSkipped := (s.step op).1.numSkipped }

/-- **The full sentence fails on the unchanged code**: on a fresh builder (cost_per_byte 12000, limit
10^7) an attempt that serializes to 1000 bytes is rejected after serialization and restored (the
serializer is back at 3 bytes: the contract holds), but `byte_cost` — and with it `cost()` — has moved
from 0 to 5·12000.  Replayed on the real code by the harness (`prop=VIOLATED:rejected-changed-estimate`). -/
theorem compressed_all_or_nothing_full_false : ¬ compressed_all_or_nothing_full := by
  intro h
  have := h (CSt.init 12000 10000000) { bundles := [], cost := 0, sizeAfter := 1000, sizeRestored := 3 }
    ⟨rfl, by decide⟩ (by decide)
  have hb := congrArg CSt.byteCost this
  revert hb
  decide

/-- **All-or-nothing, compressed builder, with the exact exclusion.**  Under the serializer contract
for this add: a call that is not added leaves spends, signature, block cost, serializer size and
constants unchanged, and `byte_cost` becomes (or stays) `(size + 2)·cost_per_byte` — unchanged whenever
it already mirrored the serializer, i.e. always except on a builder no attempt has reached the
serializer of; a call that is added appends exactly the batch's spends (as the last part of the list,
inside the batch last spend first), exactly its signatures and its declared cost. -/
theorem compressed_all_or_nothing_partial (s : CSt) (op : Add) (hc : SerContract s op) :
    (isAdded (s.step op).2 = false ∧
      (s.step op).1 = { s with numSkipped := (s.step op).1.numSkipped, byteCost := (s.step op).1.byteCost } ∧
      ((s.step op).1.byteCost = s.byteCost ∨ (s.step op).1.byteCost = byteCostOf s.size s.cpb)) ∨
    (isAdded (s.step op).2 = true ∧
      (s.step op).1 = { s with size := op.sizeAfter, byteCost := byteCostOf op.sizeAfter s.cpb, spends := s.spends ++ op.items,
                               blockCost := wadd s.blockCost op.cost, sig := s.sig ++ op.tags }) := by
  by_cases c1 : wadd (wadd s.byteCost s.blockCost) minCostThreshold > s.maxCost
  · rw [CSt.step_near c1]; exact Or.inl ⟨rfl, rfl, Or.inl rfl⟩
  · by_cases c2 : wadd (wadd s.byteCost s.blockCost) op.cost > s.maxCost
    · rw [CSt.step_pre c1 c2]; exact Or.inl ⟨rfl, rfl, Or.inl rfl⟩
    · by_cases c3 : op.bad = true
      · rw [CSt.step_bad c1 c2 c3]; exact Or.inl ⟨rfl, rfl, Or.inl rfl⟩
      · by_cases c4 : wadd (wadd (byteCostOf op.sizeAfter s.cpb) s.blockCost) op.cost > s.maxCost
        · rw [CSt.step_post c1 c2 c3 c4]
          refine Or.inl ⟨rfl, ?_, Or.inr ?_⟩
          · simp only [hc.restore_undoes]
          · simp only [hc.restore_undoes]
        · obtain ⟨d, hd⟩ := CSt.step_acc c1 c2 c3 c4
          rw [hd]; exact Or.inr ⟨rfl, rfl⟩

/-- **Contents (compressed builder; every history, no hypotheses on the numbers).**  The tree whose
serialization the builder has fed to the serializer when `finalize` returns is `(q . (L . nil))` with
`L` exactly the spends of the accepted attempts, oldest attempt first, inside an attempt last spend
first.  (That the returned BYTES decode, back-references resolved, to this tree is the decoding clause
of the serializer contract; it is checked on every case by decoding the real bytes.) -/
theorem compressed_contents (cpb maxCost : Nat) (ops : List Add) (f : Nat) (r : Sexp × List Nat × Nat)
    (h : ((CSt.init cpb maxCost).run ops).finalize f = some r) :
    r.1 = generator (((CSt.init cpb maxCost).accepted ops).flatMap Add.items) ∧
    r.2.1 = ((CSt.init cpb maxCost).accepted ops).flatMap Add.tags := by
  obtain ⟨h1, h2, _, _⟩ := CSt.run_obs ops (CSt.init cpb maxCost)
  unfold CSt.finalize at h
  simp only at h
  split at h
  · injection h with h; rw [← h]; simp only; rw [h1, h2]; simp [CSt.init]
  · cases h

/-- **Signature (compressed builder)**: the aggregate of exactly the accepted attempts' signatures. -/
theorem compressed_signature (cpb maxCost : Nat) (ops : List Add) (f : Nat) (r : Sexp × List Nat × Nat)
    (h : ((CSt.init cpb maxCost).run ops).finalize f = some r) :
    r.2.1 = ((CSt.init cpb maxCost).accepted ops).flatMap Add.tags :=
  (compressed_contents cpb maxCost ops f r h).2

/-- **Within the limit, and `finalize` cannot panic (compressed builder, under the serializer
contract).**  For constants `Cfg` (limit at least 20 + 5·cost_per_byte), a history of small adds along
which the serializer contract holds, and final bytes at most two longer than the serializer's size:
`finalize` returns, its cost is block cost + final length·cost_per_byte, at most the maximum block cost. -/
theorem compressed_within_limit (cpb maxCost : Nat) (hc : Cfg 5 cpb maxCost) (ops : List Add) (hs : AllSmall cpb ops)
    (hser : ContractAlong (CSt.init cpb maxCost) ops) (f : Nat) (hf : FinContract ((CSt.init cpb maxCost).run ops) f) :
    ∃ r, ((CSt.init cpb maxCost).run ops).finalize f = some r ∧ r.2.2 ≤ maxCost ∧
      r.2.2 = ((CSt.init cpb maxCost).run ops).blockCost + f * cpb := by
  have hi := CInv.run ops (CInv.init hc) hs hser
  obtain ⟨_, _, o3, o4⟩ := CSt.run_obs ops (CSt.init cpb maxCost)
  have o3' : ((CSt.init cpb maxCost).run ops).cpb = cpb := o3
  have o4' : ((CSt.init cpb maxCost).run ops).maxCost = maxCost := o4
  obtain ⟨r, h1, h2, h3, _⟩ := hi.finalize hf
  rw [o3'] at h2; rw [o4'] at h3
  exact ⟨r, h1, h3, h2⟩

/-- the sentence "the running cost estimate never underestimates the final cost" for the compressed
builder, in full -/
def compressed_estimate_upper_full : Prop :=
  ∀ (cpb maxCost : Nat), Cfg 5 cpb maxCost → ∀ (ops : List Add), AllSmall cpb ops → ContractAlong (CSt.init cpb maxCost) ops →
    ∀ f r, FinContract ((CSt.init cpb maxCost).run ops) f → ((CSt.init cpb maxCost).run ops).finalize f = some r →
      r.2.2 ≤ ((CSt.init cpb maxCost).run ops).cost

/-- **The full sentence fails on the unchanged code**: a fresh compressed builder (cost_per_byte 12000,
limit 11·10^9, empty history) reports `cost()` = 20 while `finalize` returns 20 + 5·12000 = 60020 (the
five bytes `ff 01 ff 80 80`).  Replayed on the real code (`prop=VIOLATED:estimate-below-final`). -/
theorem compressed_estimate_upper_full_false : ¬ compressed_estimate_upper_full := by
  intro h
  have := h 12000 11000000000 ⟨by decide, by decide⟩ [] (fun _ h => by cases h) trivial 5 (generator [], [], 60020)
    (by unfold FinContract; decide) (by decide)
  revert this
  decide

/-- **Estimate ≥ final cost, compressed builder, with the exact exclusion.**  Same hypotheses as
`compressed_within_limit`; whenever `byte_cost` mirrors the serializer in the final state (`Synced`:
true as soon as one attempt has reached the serializer, see `CInv.step`), the cost `finalize` returns is
at most `cost()`. -/
theorem compressed_estimate_upper_partial (cpb maxCost : Nat) (hc : Cfg 5 cpb maxCost) (ops : List Add) (hs : AllSmall cpb ops)
    (hser : ContractAlong (CSt.init cpb maxCost) ops) (f : Nat) (hf : FinContract ((CSt.init cpb maxCost).run ops) f)
    (hsync : ((CSt.init cpb maxCost).run ops).Synced) (r : Sexp × List Nat × Nat)
    (h : ((CSt.init cpb maxCost).run ops).finalize f = some r) :
    r.2.2 ≤ ((CSt.init cpb maxCost).run ops).cost := by
  have hi := CInv.run ops (CInv.init hc) hs hser
  obtain ⟨r', h1, _, _, h4⟩ := hi.finalize hf
  rw [h] at h1; injection h1 with h1; rw [h1]; exact h4 hsync

/-- **The limit is exact (compressed builder): `>` not `>=`.**  In every reachable state, under the
contract, a small add whose reveals decode is accepted iff neither pre-check fires (near-full; the
declared cost on top of the current estimate) and the true total after serialization — (size after the
add + 2)·cost_per_byte + block cost + declared cost — is at most the limit; landing exactly on the
limit is accepted. -/
theorem compressed_exact_limit (cpb maxCost : Nat) (hc : Cfg 5 cpb maxCost) (ops : List Add) (hs : AllSmall cpb ops)
    (hser : ContractAlong (CSt.init cpb maxCost) ops) (op : Add) (ho : op.Small cpb)
    (hop : SerContract ((CSt.init cpb maxCost).run ops) op) :
    let s := (CSt.init cpb maxCost).run ops
    isAdded (s.step op).2 = true ↔
      (¬ s.byteCost + s.blockCost + minCostThreshold > maxCost ∧ ¬ s.byteCost + s.blockCost + op.cost > maxCost ∧ op.bad = false ∧
       (op.sizeAfter + 2) * cpb + s.blockCost + op.cost ≤ maxCost) := by
  have hi := CInv.run ops (CInv.init hc) hs hser
  obtain ⟨_, _, o3, o4⟩ := CSt.run_obs ops (CSt.init cpb maxCost)
  have o3' : ((CSt.init cpb maxCost).run ops).cpb = cpb := o3
  have o4' : ((CSt.init cpb maxCost).run ops).maxCost = maxCost := o4
  simp only
  generalize (CSt.init cpb maxCost).run ops = s at hi o3' o4' hop
  subst o3' o4'
  obtain ⟨g1, g2, g3, g4, g5, g6⟩ := hi.guards ho hop
  by_cases c1 : wadd (wadd s.byteCost s.blockCost) minCostThreshold > s.maxCost
  · rw [CSt.step_near c1]; rw [g1] at c1
    constructor
    · intro h; simp [isAdded] at h
    · rintro ⟨h, _⟩; exact absurd c1 h
  · by_cases c2 : wadd (wadd s.byteCost s.blockCost) op.cost > s.maxCost
    · rw [CSt.step_pre c1 c2]; rw [g2] at c2
      constructor
      · intro h; simp [isAdded] at h
      · rintro ⟨_, h, _⟩; exact absurd c2 h
    · by_cases c3 : op.bad = true
      · rw [CSt.step_bad c1 c2 c3]
        constructor
        · intro h; simp [isAdded] at h
        · rintro ⟨_, _, h, _⟩; rw [c3] at h; cases h
      · by_cases c4 : wadd (wadd (byteCostOf op.sizeAfter s.cpb) s.blockCost) op.cost > s.maxCost
        · rw [CSt.step_post c1 c2 c3 c4]; rw [g4] at c4
          constructor
          · intro h; simp [isAdded] at h
          · rintro ⟨_, _, _, h⟩; omega
        · obtain ⟨d, hd⟩ := CSt.step_acc c1 c2 c3 c4
          rw [hd]; rw [g4] at c4; rw [g1] at c1; rw [g2] at c2
          constructor
          · intro _
            refine ⟨c1, c2, ?_, by omega⟩
            cases hb : op.bad
            · rfl
            · exact absurd hb c3
          · intro _; rfl

/-! ## non-vacuity of the hypotheses -/

/-- the real constants satisfy `Cfg` for both builders -/
example : Cfg wrapperVbytes Gen.costPerByte Gen.maxBlockCostClvm ∧ Cfg 5 Gen.costPerByte Gen.maxBlockCostClvm :=
  ⟨⟨by decide, by decide⟩, ⟨by decide, by decide⟩⟩

/-- an ordinary add is `Small`, and the serializer contract is satisfiable on a fresh builder -/
example : (Add.Small 12000 { bundles := [{ spends := [{ parent := [1], puzzle := .atom [1], amount := 1, solution := Sexp.nil }], sigTag := 1 }],
                              cost := 6000000, sizeAfter := 50, sizeRestored := 3 }) ∧
    SerContract (CSt.init 12000 11000000000) { bundles := [], cost := 0, sizeAfter := 50, sizeRestored := 3 } :=
  ⟨⟨by decide, by decide, by decide, by decide⟩, ⟨rfl, by decide⟩⟩

/-- an add landing exactly on the limit is accepted by the model (interned builder, executable check):
the spend weighs 20 vbytes (17 interned + the linking pair), so estimate 20 + 11·12000 + 20·12000 + declared 6000000 = limit -/
example : isAdded ((ISt.init 12000 (20 + 11 * 12000 + 20 * 12000 + 6000000)).step
    { bundles := [{ spends := [{ parent := [1], puzzle := .atom [1], amount := 1, solution := Sexp.nil }], sigTag := 1 }], cost := 6000000 }).2 = true
  ∧ isAdded ((ISt.init 12000 (20 + 11 * 12000 + 20 * 12000 + 6000000 - 1)).step
    { bundles := [{ spends := [{ parent := [1], puzzle := .atom [1], amount := 1, solution := Sexp.nil }], sigTag := 1 }], cost := 6000000 }).2 = false := by
  decide

/-! ## the cost `finalize` returns is the consensus cost of the emitted generator -/

/-- **Consensus cost of the interned builder's block.**  Take any builder state whose accumulated
block cost is the quote's 20 plus a total `D` of declared costs.  If `run_block_generator2` (model
`Gn.native`, under INTERNED_GENERATOR, same cost-per-byte) accepts the generator the builder emits
— the generator run being the quote returning the spend list at cost 20 — and the declared costs were
truthful in total, i.e. `D` = execution cost of the puzzles + condition cost of that very run, then the
cost `finalize` computes equals the cost consensus validation charges for the block (no wrap-around:
the sum stays below 2^64).  The decomposition of the consensus cost is C04 `native_cost_decomposition`. -/
theorem interned_consensus_cost (s : ISt) (D : Nat) (p : Params) (g : GenInput) (puz : Nat → RunRes) (L : Nat) (b : Cond.Bundle)
    (hflag : Cond.hasFlag p.flags Gen.flagInternedGenerator = true) (hcpb : p.costPerByte = s.cpb)
    (hprog : g.prog = generator s.spends) (hblock : s.blockCost = quoteCost + D)
    (hrun : native p g (some (quoteCost, .pair (Sexp.ofList s.spends) Sexp.nil)) puz L = .ok b)
    (htruth : quoteCost + D = b.executionCost + b.conditionCost)
    (hsmall : internedVbytes (generator s.spends) * s.cpb + s.blockCost < W) :
    s.finalCost = b.cost := by
  have hd := C04.native_cost_decomposition p g _ puz L b hrun
  unfold nativeBase at hd
  rw [if_pos hflag, hprog, hcpb] at hd
  unfold ISt.finalCost wadd wmul
  have h1 : internedVbytes (generator s.spends) * s.cpb < W := by omega
  rw [Nat.mod_eq_of_lt h1, Nat.mod_eq_of_lt hsmall]
  omega

/-- **Consensus cost of the compressed builder's block** (byte-cost mode): the same statement for
`BlockBuilder::finalize` — the cost it returns, `block_cost + len·cost_per_byte` with `len` the length
of the emitted bytes, is the cost `run_block_generator2` (without INTERNED_GENERATOR) charges for a
generator of that serialised length that decodes to the builder's spend list. -/
theorem compressed_consensus_cost (s : CSt) (finalSize D : Nat) (p : Params) (g : GenInput) (puz : Nat → RunRes) (L : Nat)
    (b : Cond.Bundle) (r : Sexp × List Nat × Nat)
    (hflag : Cond.hasFlag p.flags Gen.flagInternedGenerator = false) (hcpb : p.costPerByte = s.cpb)
    (hlen : g.len = finalSize) (hblock : s.blockCost = quoteCost + D)
    (hrun : native p g (some (quoteCost, .pair (Sexp.ofList s.spends) Sexp.nil)) puz L = .ok b)
    (htruth : quoteCost + D = b.executionCost + b.conditionCost)
    (hsmall : finalSize * s.cpb + s.blockCost < W)
    (hfin : s.finalize finalSize = some r) :
    r.2.2 = b.cost := by
  have hd := C04.native_cost_decomposition p g _ puz L b hrun
  unfold nativeBase at hd
  rw [hflag] at hd
  simp only [Bool.false_eq_true, if_false, hlen, hcpb] at hd
  unfold CSt.finalize at hfin
  simp only at hfin
  split at hfin
  · injection hfin with hfin
    rw [← hfin]
    simp only [wadd, wmul]
    have h1 : finalSize * s.cpb < W := by omega
    rw [Nat.mod_eq_of_lt h1, Nat.mod_eq_of_lt (by omega)]
    omega
  · cases hfin

namespace CostWitness
/-- non-vacuity of the two consensus-cost theorems: a one-spend block (identity puzzle creating one
coin; puzzle run 5, CREATE_COIN 1 800 000) whose declared cost is truthful -/
def spend1 : Sexp := Sexp.ofList [.atom (List.replicate 32 7), .atom [1], .atom [2], Sexp.nil]
def conds1 : Sexp := Sexp.ofList [Sexp.ofList [.atom [51], .atom (List.replicate 32 9), .atom [1]]]
def puz1 : Nat → RunRes := fun _ => some (5, conds1)
def pI : Params := { flags := Gen.flagInternedGenerator, pkOk := fun _ => true, sigOk := fun _ => true }
def pC : Params := { flags := 0, pkOk := fun _ => true, sigOk := fun _ => true }
def sI : ISt := { spends := [spend1], blockCost := quoteCost + 1800005, cpb := Gen.costPerByte, maxCost := 11000000000 }
def sC : CSt := { spends := [spend1], blockCost := quoteCost + 1800005, cpb := Gen.costPerByte, maxCost := 11000000000 }
def gI : GenInput := { len := 47, startsQuote := true, prog := generator sI.spends, nrefs := 0 }

example : (match native pI gI (some (quoteCost, .pair (Sexp.ofList sI.spends) Sexp.nil)) puz1 11000000000 with
    | .ok b => decide (quoteCost + 1800005 = b.executionCost + b.conditionCost ∧ sI.finalCost = b.cost)
    | .error _ => false) = true := by decide +kernel

example : (match native pC gI (some (quoteCost, .pair (Sexp.ofList sC.spends) Sexp.nil)) puz1 11000000000, sC.finalize 47 with
    | .ok b, some r => decide (quoteCost + 1800005 = b.executionCost + b.conditionCost ∧ r.2.2 = b.cost)
    | _, _ => false) = true := by decide +kernel
end CostWitness

/-! ## the declared costs are truthful in total: derived from the bundles' mempool validation

`interned_consensus_cost` / `compressed_consensus_cost` take "the declared costs are truthful in total" as a
hypothesis.  Here it is DERIVED from what the mempool did: every bundle handed to the builder was accepted by
`run_spendbundle` (`MpRun.Accepted`) and was declared with the execution + condition cost of that run
(`MpRun.declared` = reported cost − byte cost).  Both cost fields of an accepted run are sums, over the spends, of
a quantity read off the spend's own puzzle run (`Gn.runExec`, `Gn.runCond`: Lemmas/CostAdditive.lean), on the
mempool path and on the block path alike; so the totals agree whatever the order in which the builder lists the
spends.  ACCEPTANCE of the combined block is a hypothesis (it depends on cross-spend conditions); the WF /
puzzle-hash hypotheses of C08 are not needed for the cost equation.  The puzzle runs are tied together by a
function `run` of the listed item `(parent puzzle amount solution)`: the `j`-th run of a bundle is `run` of its
`j`-th item, the `i`-th run of the block is `run` of the `i`-th item of the emitted list (CLVM is deterministic:
the run of a spend is a function of its puzzle reveal and solution). -/

/-- **The block's execution and condition cost are the sums of the bundles' (any order of the spends).**
`rs` are spend bundles each accepted by `run_spendbundle`; `all` lists exactly their items, in any order
(`List.Perm`; the interned builder emits them all reversed, the compressed builder batch by batch, each batch
reversed).  If `run_block_generator2` accepts a generator whose run returns `all` at cost `c` (20 for the quote),
then its execution cost is `c` + the sum of the bundles' execution costs, its condition cost is the sum of the
bundles' condition costs, and so execution + condition cost = `c` + the sum of the declared costs. -/
theorem bundles_truthful_total (p : Params) (run : Sexp → RunRes) (rs : List MpRun) (all : List Sexp)
    (g : GenInput) (c : Nat) (puz : Nat → RunRes) (L : Nat) (b : Cond.Bundle)
    (hacc : ∀ r ∈ rs, r.Accepted p) (hor : ∀ r ∈ rs, r.Oracle run)
    (hall : all.Perm (rs.flatMap MpRun.items))
    (hpuz : ∀ i (h : i < all.length), puz i = run all[i])
    (hrun : native p g (some (c, .pair (Sexp.ofList all) Sexp.nil)) puz L = .ok b) :
    b.executionCost = c + (rs.map (·.conds.executionCost)).sum ∧
    b.conditionCost = (rs.map (·.conds.conditionCost)).sum ∧
    b.executionCost + b.conditionCost = c + (rs.map MpRun.declared).sum := by
  obtain ⟨e1, e2, _⟩ := native_costs_keyed p run all g c puz L b hpuz hrun
  have hx : (all.map (fun x => runExec (run x))).sum = (rs.map (·.conds.executionCost)).sum := by
    rw [(hall.map _).sum_nat, sum_map_flatMap]
    apply sum_map_congr
    intro r hr
    exact (MpRun.costs (hacc r hr) (hor r hr)).1.symm
  have hy : (all.map (fun x => runCond p.flags (run x))).sum = (rs.map (·.conds.conditionCost)).sum := by
    rw [(hall.map _).sum_nat, sum_map_flatMap]
    apply sum_map_congr
    intro r hr
    exact (MpRun.costs (hacc r hr) (hor r hr)).2.symm
  have hd : (rs.map MpRun.declared).sum = (rs.map (·.conds.executionCost)).sum + (rs.map (·.conds.conditionCost)).sum :=
    sum_map_add (·.conds.executionCost) (·.conds.conditionCost) rs
  refine ⟨by rw [e1, hx], by rw [e2, hy], by rw [e1, e2, hx, hy, hd]; omega⟩

/-- **The same with positional puzzle oracles, in the interned builder's order** (the re-indexing of C08
`bundle_path_eq_block_path`: `fun i => puz (n − 1 − i)`).  `q` lists the puzzle runs of all coin spends of the
bundles `rs` in mempool order (bundle after bundle: `SegmentsOf q 0 rs`); the block lists all their items
REVERSED (last spend first, as `InternedBlockBuilder` conses them) and its `i`-th puzzle run is `q (N − 1 − i)`,
`N` the number of spends.  No assumption that equal items have equal runs. -/
theorem bundles_truthful_total_reversed (p : Params) (rs : List MpRun) (q : Nat → RunRes)
    (g : GenInput) (c : Nat) (puz : Nat → RunRes) (L : Nat) (b : Cond.Bundle)
    (hacc : ∀ r ∈ rs, r.Accepted p) (hseg : SegmentsOf q 0 rs)
    (hpuz : ∀ i, i < totalSpends rs → puz i = q (totalSpends rs - 1 - i))
    (hrun : native p g (some (c, .pair (Sexp.ofList (rs.flatMap MpRun.items).reverse) Sexp.nil)) puz L = .ok b) :
    b.executionCost = c + (rs.map (·.conds.executionCost)).sum ∧
    b.conditionCost = (rs.map (·.conds.conditionCost)).sum ∧
    b.executionCost + b.conditionCost = c + (rs.map MpRun.declared).sum := by
  obtain ⟨e1, e2⟩ := native_costs p g c _ (Sexp.ofList (rs.flatMap MpRun.items).reverse) puz L b rfl hrun
  rw [listElems_ofList, List.length_reverse, length_flatMap_items, oracleVals_reverse puz q _ hpuz, List.map_reverse,
    List.sum_reverse_nat] at e1 e2
  obtain ⟨s1, s2⟩ := SegmentsOf.costs (p := p) rs 0 hseg hacc
  have hd : (rs.map MpRun.declared).sum = (rs.map (·.conds.executionCost)).sum + (rs.map (·.conds.conditionCost)).sum :=
    sum_map_add (·.conds.executionCost) (·.conds.conditionCost) rs
  refine ⟨by rw [e1, s1], by rw [e2, s2], by rw [e1, e2, hd, s1, s2]; omega⟩

/-- **Consensus cost of the interned builder's block, positional oracles.**  As
`interned_consensus_cost_of_bundles`, with the puzzle runs tied together by position instead of by a function of
the item: the builder's spend list is the items of all coin spends of all accepted bundles completely reversed
(first conclusion), `q` lists their puzzle runs in the order added, and the block's `i`-th run is `q (N − 1 − i)`. -/
theorem interned_consensus_cost_of_bundles_reindexed (cpb maxCost : Nat) (hc : Cfg wrapperVbytes cpb maxCost) (ops : List Add)
    (hs : AllSmall cpb ops) (p : Params) (q : Nat → RunRes) (mp : Add → List MpRun)
    (hfrom : ∀ op ∈ (ISt.init cpb maxCost).accepted ops, op.From p (mp op))
    (rs : List MpRun) (hrs : rs = ((ISt.init cpb maxCost).accepted ops).flatMap mp) (hseg : SegmentsOf q 0 rs)
    (s : ISt) (hsdef : s = (ISt.init cpb maxCost).run ops)
    (g : GenInput) (puz : Nat → RunRes) (L : Nat) (b : Cond.Bundle)
    (hflag : Cond.hasFlag p.flags Gen.flagInternedGenerator = true) (hcpb : p.costPerByte = cpb)
    (hprog : g.prog = generator s.spends)
    (hpuz : ∀ i, i < totalSpends rs → puz i = q (totalSpends rs - 1 - i))
    (hrun : native p g (some (quoteCost, .pair (Sexp.ofList s.spends) Sexp.nil)) puz L = .ok b) :
    s.spends = (rs.flatMap MpRun.items).reverse ∧
    quoteCost + (rs.map MpRun.declared).sum = b.executionCost + b.conditionCost ∧
    s.blockCost = b.executionCost + b.conditionCost ∧
    s.finalCost = b.cost ∧ ∃ r, s.finalize = some r ∧ r.2.2 = b.cost := by
  have hord : s.spends = (rs.flatMap MpRun.items).reverse := by
    rw [hsdef, hrs]; exact ISt.spends_reversed mp ops (ISt.init cpb maxCost) rfl hfrom
  have hbc := ISt.blockCost_run ops (IInv.init hc) hs
  have hb0 : (ISt.init cpb maxCost).blockCost = quoteCost := rfl
  rw [hb0, ← hsdef] at hbc
  have hacc : ∀ r ∈ rs, r.Accepted p := by
    intro r hr
    rw [hrs, List.mem_flatMap] at hr
    obtain ⟨op, hop, hr⟩ := hr
    exact (hfrom op hop).accepted r hr
  have hdecl : (((ISt.init cpb maxCost).accepted ops).map (·.cost)).sum = (rs.map MpRun.declared).sum := by
    rw [hrs, sum_map_flatMap]
    exact sum_map_congr _ _ _ (fun op hop => (hfrom op hop).cost)
  have hrun' := hrun
  rw [hord] at hrun'
  obtain ⟨_, _, e3⟩ := bundles_truthful_total_reversed p rs q g quoteCost puz L b hacc hseg hpuz hrun'
  have htruth : quoteCost + (((ISt.init cpb maxCost).accepted ops).map (·.cost)).sum = b.executionCost + b.conditionCost := by
    rw [e3, hdecl]
  obtain ⟨u1, u2, u3, _⟩ := interned_estimate_upper cpb maxCost hc ops hs
  rw [← hsdef] at u1 u2 u3
  obtain ⟨_, _, o3, o4⟩ := ISt.run_obs ops (ISt.init cpb maxCost)
  have o3' : s.cpb = cpb := by rw [hsdef]; exact o3
  have o4' : s.maxCost = maxCost := by rw [hsdef]; exact o4
  have hmax := hc.max_lt
  have hsmall : internedVbytes (generator s.spends) * s.cpb + s.blockCost < W := by
    have hW : W = 2 ^ 64 := rfl
    rw [o3']; omega
  have hfc := interned_consensus_cost s _ p g puz L b hflag (by rw [o3']; exact hcpb) hprog hbc hrun htruth hsmall
  refine ⟨hord, by rw [← hdecl]; exact htruth, by rw [hbc]; exact htruth, hfc, (generator s.spends, s.sig, s.finalCost), ?_, hfc⟩
  have hle : s.finalCost ≤ s.maxCost := by rw [o4']; omega
  unfold ISt.finalCost at hle
  unfold ISt.finalize ISt.finalCost
  simp only
  rw [if_pos hle]

/-- **Consensus cost of the interned builder's block, from per-bundle mempool acceptance.**  Any history `ops`
of `add_spend_bundles` calls on a fresh builder (constants `Cfg`, small adds); every ACCEPTED batch `op` was
assembled from bundles `mp op` that `run_spendbundle` accepted, and declares the sum of their declared costs
(`Add.From`); the puzzle runs of the bundles and of the block are those of `run` (`MpRun.Oracle`, `hpuz`).  If `run_block_generator2` (INTERNED_GENERATOR, same cost-per-byte) accepts the generator the
builder emits, then: the hypothesis `htruth` of `interned_consensus_cost` holds (20 + the accepted declared
costs = execution + condition cost of the block's own run), that is the builder's `block_cost`, `finalize`
returns, and the cost it returns equals the cost consensus validation charges for the block. -/
theorem interned_consensus_cost_of_bundles (cpb maxCost : Nat) (hc : Cfg wrapperVbytes cpb maxCost) (ops : List Add)
    (hs : AllSmall cpb ops) (p : Params) (run : Sexp → RunRes) (mp : Add → List MpRun)
    (hfrom : ∀ op ∈ (ISt.init cpb maxCost).accepted ops, op.From p (mp op))
    (hor : ∀ op ∈ (ISt.init cpb maxCost).accepted ops, ∀ r ∈ mp op, r.Oracle run)
    (s : ISt) (hsdef : s = (ISt.init cpb maxCost).run ops)
    (g : GenInput) (puz : Nat → RunRes) (L : Nat) (b : Cond.Bundle)
    (hflag : Cond.hasFlag p.flags Gen.flagInternedGenerator = true) (hcpb : p.costPerByte = cpb)
    (hprog : g.prog = generator s.spends)
    (hpuz : ∀ i (h : i < s.spends.length), puz i = run s.spends[i])
    (hrun : native p g (some (quoteCost, .pair (Sexp.ofList s.spends) Sexp.nil)) puz L = .ok b) :
    quoteCost + (((ISt.init cpb maxCost).accepted ops).map (·.cost)).sum = b.executionCost + b.conditionCost ∧
    s.blockCost = b.executionCost + b.conditionCost ∧
    s.finalCost = b.cost ∧ ∃ r, s.finalize = some r ∧ r.2.2 = b.cost := by
  have hbc := ISt.blockCost_run ops (IInv.init hc) hs
  have hb0 : (ISt.init cpb maxCost).blockCost = quoteCost := rfl
  rw [hb0, ← hsdef] at hbc
  have hsum := ISt.spends_sum (fun x => runCost p.flags (run x)) ops (ISt.init cpb maxCost)
  have hs0 : ((ISt.init cpb maxCost).spends.map (fun x => runCost p.flags (run x))).sum = 0 := rfl
  rw [hs0, ← hsdef, Nat.add_zero] at hsum
  have hdecl : (((ISt.init cpb maxCost).accepted ops).map (·.cost)).sum =
      (((ISt.init cpb maxCost).accepted ops).map (fun op => (op.items.map (fun x => runCost p.flags (run x))).sum)).sum :=
    sum_map_congr _ _ _ (fun op hop => (hfrom op hop).cost_eq (hor op hop))
  obtain ⟨_, _, e3⟩ := native_costs_keyed p run s.spends g quoteCost puz L b hpuz hrun
  have htruth : quoteCost + (((ISt.init cpb maxCost).accepted ops).map (·.cost)).sum = b.executionCost + b.conditionCost := by
    rw [e3, hsum, hdecl]
  obtain ⟨u1, u2, u3, _⟩ := interned_estimate_upper cpb maxCost hc ops hs
  rw [← hsdef] at u1 u2 u3
  obtain ⟨_, _, o3, o4⟩ := ISt.run_obs ops (ISt.init cpb maxCost)
  have o3' : s.cpb = cpb := by rw [hsdef]; exact o3
  have o4' : s.maxCost = maxCost := by rw [hsdef]; exact o4
  have hmax := hc.max_lt
  have hsmall : internedVbytes (generator s.spends) * s.cpb + s.blockCost < W := by
    have hW : W = 2 ^ 64 := rfl
    rw [o3']; omega
  have hfc := interned_consensus_cost s _ p g puz L b hflag (by rw [o3']; exact hcpb) hprog hbc hrun htruth hsmall
  refine ⟨htruth, by rw [hbc]; exact htruth, hfc, (generator s.spends, s.sig, s.finalCost), ?_, hfc⟩
  have hle : s.finalCost ≤ s.maxCost := by rw [o4']; omega
  unfold ISt.finalCost at hle
  unfold ISt.finalize ISt.finalCost
  simp only
  rw [if_pos hle]

/-- **Consensus cost of the compressed builder's block, from per-bundle mempool acceptance** (byte-cost mode).
Same setting for `BlockBuilder` (constants `Cfg`, small adds, serializer contract along the history and for the
closing bytes): if `run_block_generator2` (without INTERNED_GENERATOR) accepts a generator of the emitted
length `finalSize` that decodes to the builder's spend list, then 20 + the accepted declared costs =
execution + condition cost of that run = the builder's `block_cost`, `finalize` returns, and the cost it
returns equals the cost consensus validation charges for the block. -/
theorem compressed_consensus_cost_of_bundles (cpb maxCost : Nat) (hc : Cfg 5 cpb maxCost) (ops : List Add)
    (hs : AllSmall cpb ops) (hser : ContractAlong (CSt.init cpb maxCost) ops) (finalSize : Nat)
    (hf : FinContract ((CSt.init cpb maxCost).run ops) finalSize)
    (p : Params) (run : Sexp → RunRes) (mp : Add → List MpRun)
    (hfrom : ∀ op ∈ (CSt.init cpb maxCost).accepted ops, op.From p (mp op))
    (hor : ∀ op ∈ (CSt.init cpb maxCost).accepted ops, ∀ r ∈ mp op, r.Oracle run)
    (s : CSt) (hsdef : s = (CSt.init cpb maxCost).run ops)
    (g : GenInput) (puz : Nat → RunRes) (L : Nat) (b : Cond.Bundle)
    (hflag : Cond.hasFlag p.flags Gen.flagInternedGenerator = false) (hcpb : p.costPerByte = cpb)
    (hlen : g.len = finalSize)
    (hpuz : ∀ i (h : i < s.spends.length), puz i = run s.spends[i])
    (hrun : native p g (some (quoteCost, .pair (Sexp.ofList s.spends) Sexp.nil)) puz L = .ok b) :
    quoteCost + (((CSt.init cpb maxCost).accepted ops).map (·.cost)).sum = b.executionCost + b.conditionCost ∧
    s.blockCost = b.executionCost + b.conditionCost ∧
    ∃ r, s.finalize finalSize = some r ∧ r.2.2 = b.cost := by
  have hbc := CSt.blockCost_run ops (CInv.init hc) hs hser
  have hb0 : (CSt.init cpb maxCost).blockCost = quoteCost := rfl
  rw [hb0, ← hsdef] at hbc
  have hsum := CSt.spends_sum (fun x => runCost p.flags (run x)) ops (CSt.init cpb maxCost)
  have hs0 : ((CSt.init cpb maxCost).spends.map (fun x => runCost p.flags (run x))).sum = 0 := rfl
  rw [hs0, ← hsdef, Nat.zero_add] at hsum
  have hdecl : (((CSt.init cpb maxCost).accepted ops).map (·.cost)).sum =
      (((CSt.init cpb maxCost).accepted ops).map (fun op => (op.items.map (fun x => runCost p.flags (run x))).sum)).sum :=
    sum_map_congr _ _ _ (fun op hop => (hfrom op hop).cost_eq (hor op hop))
  obtain ⟨_, _, e3⟩ := native_costs_keyed p run s.spends g quoteCost puz L b hpuz hrun
  have htruth : quoteCost + (((CSt.init cpb maxCost).accepted ops).map (·.cost)).sum = b.executionCost + b.conditionCost := by
    rw [e3, hsum, hdecl]
  obtain ⟨r, hr, hle, hval⟩ := compressed_within_limit cpb maxCost hc ops hs hser finalSize hf
  rw [← hsdef] at hr hval
  obtain ⟨_, _, o3, _⟩ := CSt.run_obs ops (CSt.init cpb maxCost)
  have o3' : s.cpb = cpb := by rw [hsdef]; exact o3
  have hmax := hc.max_lt
  have hsmall : finalSize * s.cpb + s.blockCost < W := by
    have hW : W = 2 ^ 64 := rfl
    rw [o3']; omega
  exact ⟨htruth, by rw [hbc]; exact htruth, r, hr,
    compressed_consensus_cost s finalSize _ p g puz L b r hflag (by rw [o3']; exact hcpb) hlen hbc hrun htruth hsmall hr⟩

namespace BundleWitness
open CostWitness
/-! non-vacuity of `interned_consensus_cost_of_bundles` / `compressed_consensus_cost_of_bundles`: two one-spend
bundles (the spend of `CostWitness` and the same spend of another coin), each validated by `run_spendbundle`
and declared with 1 800 005 = puzzle run 5 + CREATE_COIN 1 800 000, added by two calls; both calls are accepted,
and the block of both spends is accepted by `run_block_generator2`. -/
def csA : CoinSpendM :=
  { parent := List.replicate 32 7, puzzleHash := Sexp.treeHash (.atom [1]), amount := 2,
    puzzle := .atom [1], solution := Sexp.nil, puzzleLen := 1, solutionLen := 1 }
def csB : CoinSpendM := { csA with parent := List.replicate 32 8 }
def runW : Sexp → RunRes := fun _ => some (5, conds1)
def limitW : Nat := 11000000000
def opA (sizeAfter sizeRestored : Nat) : Add :=
  { bundles := [{ spends := [toSpend csA], sigTag := 1 }], cost := 1800005, sizeAfter := sizeAfter, sizeRestored := sizeRestored }
def opB (sizeAfter sizeRestored : Nat) : Add :=
  { bundles := [{ spends := [toSpend csB], sigTag := 2 }], cost := 1800005, sizeAfter := sizeAfter, sizeRestored := sizeRestored }
def opsW : List Add := [opA 50 3, opB 90 50]
def mpW (p : Params) : Add → List MpRun :=
  fun op => if op.tags = [1] then [mpRun p [csA] puz1 limitW] else [mpRun p [csB] puz1 limitW]

example : item csA = spend1 := by decide

theorem fromW (p : Params) (hA : (runSpendbundle p [csA] puz1 limitW).toBool = true)
    (hB : (runSpendbundle p [csB] puz1 limitW).toBool = true)
    (hdA : (mpRun p [csA] puz1 limitW).declared = 1800005) (hdB : (mpRun p [csB] puz1 limitW).declared = 1800005) :
    ∀ op ∈ opsW, op.From p (mpW p op) ∧ ∀ r ∈ mpW p op, r.Oracle runW := by
  intro op hop
  simp only [opsW, List.mem_cons, List.not_mem_nil, or_false] at hop
  rcases hop with rfl | rfl
  · have hm : mpW p (opA 50 3) = [mpRun p [csA] puz1 limitW] := rfl
    rw [hm]
    refine ⟨⟨by simp only [List.map_cons, List.map_nil, mpRun_css]; rfl, ?_, ?_⟩, ?_⟩
    · intro r hr; simp only [List.mem_cons, List.not_mem_nil, or_false] at hr; subst hr; exact mpRun_accepted hA
    · simp only [List.map_cons, List.map_nil, List.sum_cons, List.sum_nil, hdA]; rfl
    · intro r hr; simp only [List.mem_cons, List.not_mem_nil, or_false] at hr; subst hr
      intro j _; rw [mpRun_puz]; rfl
  · have hm : mpW p (opB 90 50) = [mpRun p [csB] puz1 limitW] := rfl
    rw [hm]
    refine ⟨⟨by simp only [List.map_cons, List.map_nil, mpRun_css]; rfl, ?_, ?_⟩, ?_⟩
    · intro r hr; simp only [List.mem_cons, List.not_mem_nil, or_false] at hr; subst hr; exact mpRun_accepted hB
    · simp only [List.map_cons, List.map_nil, List.sum_cons, List.sum_nil, hdB]; rfl
    · intro r hr; simp only [List.mem_cons, List.not_mem_nil, or_false] at hr; subst hr
      intro j _; rw [mpRun_puz]; rfl

theorem smallW : AllSmall Gen.costPerByte opsW := by
  intro op hop
  simp only [opsW, List.mem_cons, List.not_mem_nil, or_false] at hop
  rcases hop with rfl | rfl <;> exact ⟨by decide +kernel, by decide +kernel, by decide +kernel, by decide +kernel⟩

def sIW : ISt := (ISt.init Gen.costPerByte limitW).run opsW
def gIW : GenInput := { len := 0, startsQuote := true, prog := generator sIW.spends, nrefs := 0 }

/-- the interned builder accepts both calls, and all hypotheses of `interned_consensus_cost_of_bundles` hold
together: the theorem applies and yields the cost equation for an existing accepted block -/
example : ((ISt.init Gen.costPerByte limitW).accepted opsW).length = 2 ∧
    ∃ b, native pI gIW (some (quoteCost, .pair (Sexp.ofList sIW.spends) Sexp.nil)) puz1 limitW = .ok b ∧
      quoteCost + (1800005 + 1800005) = b.executionCost + b.conditionCost ∧ sIW.finalCost = b.cost := by
  refine ⟨by decide +kernel, ?_⟩
  have hok : (native pI gIW (some (quoteCost, .pair (Sexp.ofList sIW.spends) Sexp.nil)) puz1 limitW).toBool = true := by
    decide +kernel
  cases hn : native pI gIW (some (quoteCost, .pair (Sexp.ofList sIW.spends) Sexp.nil)) puz1 limitW with
  | error e => rw [hn] at hok; cases hok
  | ok b =>
    have hacc2 : (((ISt.init Gen.costPerByte limitW).accepted opsW).map (·.cost)).sum = 1800005 + 1800005 := by decide +kernel
    obtain ⟨t1, _, t3, _⟩ := interned_consensus_cost_of_bundles Gen.costPerByte limitW ⟨by decide, by decide⟩ opsW smallW pI runW (mpW pI)
      (fun op hop => (fromW pI (by decide +kernel) (by decide +kernel) (by decide +kernel) (by decide +kernel) op
        (ISt.mem_accepted _ _ hop)).1)
      (fun op hop => (fromW pI (by decide +kernel) (by decide +kernel) (by decide +kernel) (by decide +kernel) op
        (ISt.mem_accepted _ _ hop)).2)
      sIW rfl gIW puz1 limitW b (by decide) rfl rfl (fun _ _ => rfl) hn
    rw [hacc2] at t1
    exact ⟨b, rfl, t1, t3⟩

theorem acceptedW : (ISt.init Gen.costPerByte limitW).accepted opsW = opsW := by
  have h1 : isAdded ((ISt.init Gen.costPerByte limitW).step (opA 50 3)).2 = true := by decide +kernel
  have h2 : isAdded (((ISt.init Gen.costPerByte limitW).step (opA 50 3)).1.step (opB 90 50)).2 = true := by decide +kernel
  simp only [opsW, ISt.accepted, h1, h2, if_true]
  rfl

/-- … and all hypotheses of the positional form `interned_consensus_cost_of_bundles_reindexed` hold together on the
same history (`q` = the two bundles' runs in the order added, the block reads them backwards) -/
example : ∃ b, native pI gIW (some (quoteCost, .pair (Sexp.ofList sIW.spends) Sexp.nil)) puz1 limitW = .ok b ∧
    sIW.spends = [item csB, item csA] ∧ sIW.finalCost = b.cost := by
  have hok : (native pI gIW (some (quoteCost, .pair (Sexp.ofList sIW.spends) Sexp.nil)) puz1 limitW).toBool = true := by
    decide +kernel
  cases hn : native pI gIW (some (quoteCost, .pair (Sexp.ofList sIW.spends) Sexp.nil)) puz1 limitW with
  | error e => rw [hn] at hok; cases hok
  | ok b =>
    have hrs : [mpRun pI [csA] puz1 limitW, mpRun pI [csB] puz1 limitW] =
        ((ISt.init Gen.costPerByte limitW).accepted opsW).flatMap (mpW pI) := by rw [acceptedW]; rfl
    have hseg : SegmentsOf puz1 0 [mpRun pI [csA] puz1 limitW, mpRun pI [csB] puz1 limitW] :=
      ⟨fun j _ => by rw [mpRun_puz]; rfl, fun j _ => by rw [mpRun_puz]; rfl, trivial⟩
    obtain ⟨t0, _, _, t3, _⟩ := interned_consensus_cost_of_bundles_reindexed Gen.costPerByte limitW ⟨by decide, by decide⟩ opsW smallW
      pI puz1 (mpW pI)
      (fun op hop => (fromW pI (by decide +kernel) (by decide +kernel) (by decide +kernel) (by decide +kernel) op
        (ISt.mem_accepted _ _ hop)).1)
      _ hrs hseg sIW rfl gIW puz1 limitW b (by decide) rfl rfl (fun _ _ => rfl) hn
    refine ⟨b, rfl, ?_, t3⟩
    rw [t0]
    simp only [List.flatMap_cons, List.flatMap_nil, MpRun.items, mpRun_css]
    rfl

/-- the hypotheses of the order-free form `bundles_truthful_total` hold together: the two accepted bundles, the
block listing their items in the other order -/
example : ∃ b, native pI gIW (some (quoteCost, .pair (Sexp.ofList [item csB, item csA]) Sexp.nil)) puz1 limitW = .ok b ∧
    b.executionCost + b.conditionCost =
      quoteCost + ([mpRun pI [csA] puz1 limitW, mpRun pI [csB] puz1 limitW].map MpRun.declared).sum := by
  have hok : (native pI gIW (some (quoteCost, .pair (Sexp.ofList [item csB, item csA]) Sexp.nil)) puz1 limitW).toBool = true := by
    decide +kernel
  cases hn : native pI gIW (some (quoteCost, .pair (Sexp.ofList [item csB, item csA]) Sexp.nil)) puz1 limitW with
  | error e => rw [hn] at hok; cases hok
  | ok b =>
    refine ⟨b, rfl, (bundles_truthful_total pI runW _ [item csB, item csA] gIW quoteCost puz1 limitW b ?_ ?_ ?_
      (fun _ _ => rfl) hn).2.2⟩
    · intro r hr
      simp only [List.mem_cons, List.not_mem_nil, or_false] at hr
      rcases hr with rfl | rfl
      · exact mpRun_accepted (by decide +kernel)
      · exact mpRun_accepted (by decide +kernel)
    · intro r hr
      simp only [List.mem_cons, List.not_mem_nil, or_false] at hr
      rcases hr with rfl | rfl <;> (intro j _; rw [mpRun_puz]; rfl)
    · simp only [List.flatMap_cons, List.flatMap_nil, MpRun.items, mpRun_css, List.map_cons, List.map_nil, List.append_nil,
        List.cons_append, List.nil_append]
      exact List.Perm.swap _ _ _

def sCW : CSt := (CSt.init Gen.costPerByte limitW).run opsW
def gCW : GenInput := { len := 92, startsQuote := true, prog := generator sCW.spends, nrefs := 0 }

theorem contractW : ContractAlong (CSt.init Gen.costPerByte limitW) opsW :=
  ⟨⟨by decide +kernel, by decide +kernel⟩, ⟨by decide +kernel, by decide +kernel⟩, trivial⟩

/-- the same for the compressed builder (serializer sizes 3 → 50 → 90, final length 92) -/
example : ((CSt.init Gen.costPerByte limitW).accepted opsW).length = 2 ∧
    ∃ b r, native pC gCW (some (quoteCost, .pair (Sexp.ofList sCW.spends) Sexp.nil)) puz1 limitW = .ok b ∧
      sCW.finalize 92 = some r ∧ quoteCost + (1800005 + 1800005) = b.executionCost + b.conditionCost ∧ r.2.2 = b.cost := by
  refine ⟨by decide +kernel, ?_⟩
  have hok : (native pC gCW (some (quoteCost, .pair (Sexp.ofList sCW.spends) Sexp.nil)) puz1 limitW).toBool = true := by
    decide +kernel
  cases hn : native pC gCW (some (quoteCost, .pair (Sexp.ofList sCW.spends) Sexp.nil)) puz1 limitW with
  | error e => rw [hn] at hok; cases hok
  | ok b =>
    have hacc2 : (((CSt.init Gen.costPerByte limitW).accepted opsW).map (·.cost)).sum = 1800005 + 1800005 := by decide +kernel
    obtain ⟨t1, _, r, hr, t3⟩ := compressed_consensus_cost_of_bundles Gen.costPerByte limitW ⟨by decide, by decide⟩ opsW smallW
      contractW 92 (by unfold FinContract; decide +kernel) pC runW (mpW pC)
      (fun op hop => (fromW pC (by decide +kernel) (by decide +kernel) (by decide +kernel) (by decide +kernel) op
        (CSt.mem_accepted _ _ hop)).1)
      (fun op hop => (fromW pC (by decide +kernel) (by decide +kernel) (by decide +kernel) (by decide +kernel) op
        (CSt.mem_accepted _ _ hop)).2)
      sCW rfl gCW puz1 limitW b (by decide) rfl rfl (fun _ _ => rfl) hn
    rw [hacc2] at t1
    exact ⟨b, r, rfl, hr, t1, t3⟩
end BundleWitness

end ChiaModel.C10
