import ChiaModel.Lemmas.Blob
import ChiaModel.Lemmas.BlobBytes
import ChiaModel.Lemmas.BlobL2
import ChiaModel.Lemmas.BlobInv
import ChiaModel.Lemmas.BlobBatch2
import ChiaModel.Lemmas.BlobUps
/-
C18 — the DataLayer Merkle blob stays a valid authenticated map under any history.
Property theorems only (helper lemmas: Lemmas/Blob.lean).  All statements are about the executable
definitions of Model/Blob.lean that the driver runs.
-/
namespace ChiaModel.C18
open ChiaModel ChiaModel.Blob List

/-! ## L1: plain trees against the specification map -/

private theorem toMap_perm {t t' : Tree} {l : List KVH} (p : Tree.entries t' ~ l ++ Tree.entries t) :
    Tree.toMap t' ~ l.map (fun e => (e.1, e.2.1)) ++ Tree.toMap t := by
  rw [Tree.toMap_eq, Tree.toMap_eq, ← List.map_append]; exact p.map _

private theorem nodup_toMap_keys {t : Tree} (h : (Tree.keys t).Nodup) : ((Tree.toMap t).map (·.1)).Nodup := by
  rw [Tree.toMap_keys]; exact h

private theorem filter_map_kv (l : List KVH) (k : KeyId) :
    (l.filter (fun e => e.1 ≠ k)).map (fun e => (e.1, e.2.1))
      = (l.map (fun e => (e.1, e.2.1))).filter (fun e => e.1 ≠ k) := by
  induction l with
  | nil => rfl
  | cons x l ih =>
    by_cases h : x.1 = k
    · rw [List.filter_cons_of_neg (by simp [h]), List.map_cons, List.filter_cons_of_neg (by simp [h]), ih]
    · rw [List.filter_cons_of_pos (by simp [h]), List.map_cons, List.map_cons,
        List.filter_cons_of_pos (by simp [h]), ih]

/-- the keys after one operation (keys stay pairwise distinct) -/
theorem keys_unique (op : Op) (t : Tree) (hn : (Tree.keys t).Nodup) :
    (Tree.keys (Tree.step op t).2).Nodup := by
  cases op with
  | ins k v h loc =>
    simp only [Tree.step]
    cases hi : Tree.insert k v h loc t with
    | none => exact hn
    | some t' =>
      obtain ⟨p, hk, _⟩ := Tree.insert_spec hn hi
      have pk := Tree.keys_perm_of_entries (l := [(k, v, h)]) (by simpa using p)
      exact pk.nodup_iff.mpr (by simpa using List.nodup_cons.mpr ⟨hk, hn⟩)
  | ups k v h =>
    simp only [Tree.step]
    cases hu : Tree.upsert k v h t with
    | none => exact hn
    | some t' =>
      rcases Tree.upsert_spec hn hu with ⟨_, _, e⟩ | ⟨hk, p, _⟩
      · simp only [Tree.orKeep]
        rw [Tree.keys_eq, e, List.map_map]
        have : ((fun (x : KVH) => x.1) ∘ fun e => if e.1 = k then (k, v, h) else e) = (·.1) := by
          funext e; simp only [Function.comp]; split <;> simp [*]
        rw [this, ← Tree.keys_eq]; exact hn
      · have pk := Tree.keys_perm_of_entries (l := [(k, v, h)]) (by simpa using p)
        exact pk.nodup_iff.mpr (by simpa using List.nodup_cons.mpr ⟨hk, hn⟩)
  | del k =>
    simp only [Tree.step]
    cases hd : Tree.delete k t with
    | none => exact hn
    | some t' =>
      obtain ⟨e, _⟩ := Tree.delete_spec hn hd
      simp only [Tree.orKeep]
      rw [Tree.keys_eq, e]
      rw [Tree.keys_eq] at hn
      exact hn.sublist ((List.filter_sublist).map _)
  | batch l =>
    simp only [Tree.step]
    rcases Tree.batch_spec l t hn with ⟨hf, _, p⟩ | ⟨_, e⟩
    · obtain ⟨hkn, _, hfr⟩ := Tree.fresh_unpack hf
      refine (Tree.keys_perm_of_entries p).nodup_iff.mpr ?_
      rw [List.nodup_append]
      refine ⟨hkn, hn, ?_⟩
      intro a ha b hb' hab
      obtain ⟨e, he, rfl⟩ := List.mem_map.mp ha
      subst hab
      exact (hfr e he).1 hb'
    · rw [e]; exact hn
  | hashes => exact hn

/-- **Refinement to a map.**  For every operation (insert at any location, upsert, delete, batch
insert, hash recomputation) on a tree with pairwise distinct keys: if the operation succeeds, looking
up any key in the resulting tree gives what the plain map gives after the same operation; if it
fails, the tree is unchanged. -/
theorem map_refinement (op : Op) (t : Tree) (hn : (Tree.keys t).Nodup) :
    ((Tree.step op t).1 = true →
        ∀ k, Map.lookup (Tree.toMap (Tree.step op t).2) k = Map.lookup (Map.step op (Tree.toMap t)) k)
    ∧ ((Tree.step op t).1 = false → (Tree.step op t).2 = t) := by
  have hkn' := keys_unique op t hn
  cases op with
  | ins k v h loc =>
    simp only [Tree.step] at hkn' ⊢
    cases hi : Tree.insert k v h loc t with
    | none => exact ⟨fun e => by simp [Tree.orKeep] at e, fun _ => rfl⟩
    | some t' =>
      refine ⟨fun _ k' => ?_, fun e => by simp [Tree.orKeep] at e⟩
      rw [hi] at hkn'
      obtain ⟨p, _, _⟩ := Tree.insert_spec hn hi
      have pm := toMap_perm (l := [(k, v, h)]) (by simpa using p)
      simp only [Tree.orKeep, Map.step]
      rw [Map.lookup_perm pm (nodup_toMap_keys hkn')]
      exact Map.lookup_cons_set _ _ _ _
  | ups k v h =>
    simp only [Tree.step] at hkn' ⊢
    cases hu : Tree.upsert k v h t with
    | none => exact ⟨fun e => by simp [Tree.orKeep] at e, fun _ => rfl⟩
    | some t' =>
      refine ⟨fun _ k' => ?_, fun e => by simp [Tree.orKeep] at e⟩
      rw [hu] at hkn'
      simp only [Tree.orKeep, Map.step]
      rcases Tree.upsert_spec hn hu with ⟨hk, _, e⟩ | ⟨_, p, _⟩
      · rw [Tree.toMap_eq, e, List.map_map]
        have : ((fun (e : KVH) => (e.1, e.2.1)) ∘ fun e => if e.1 = k then (k, v, h) else e)
            = (fun e => if e.1 = k then (k, v) else e) ∘ (fun (e : KVH) => (e.1, e.2.1)) := by
          funext e; simp only [Function.comp]; split <;> rfl
        rw [this, ← List.map_map, ← Tree.toMap_eq, Map.lookup_map_replace, Map.lookup_set, Tree.toMap_keys,
          if_pos hk]
      · have pm := toMap_perm (l := [(k, v, h)]) (by simpa using p)
        rw [Map.lookup_perm pm (nodup_toMap_keys hkn')]
        exact Map.lookup_cons_set _ _ _ _
  | del k =>
    simp only [Tree.step] at hkn' ⊢
    cases hd : Tree.delete k t with
    | none => exact ⟨fun e => by simp [Tree.orKeep] at e, fun _ => rfl⟩
    | some t' =>
      refine ⟨fun _ k' => ?_, fun e => by simp [Tree.orKeep] at e⟩
      obtain ⟨e, _⟩ := Tree.delete_spec hn hd
      simp only [Tree.orKeep, Map.step]
      rw [Tree.toMap_eq, e, filter_map_kv, ← Tree.toMap_eq]
      rfl
  | batch l =>
    simp only [Tree.step] at hkn' ⊢
    rcases Tree.batch_spec l t hn with ⟨hf, hok, p⟩ | ⟨_, e⟩
    · obtain ⟨hkn, _, _⟩ := Tree.fresh_unpack hf
      refine ⟨fun _ k' => ?_, fun e => by rw [hok] at e; cases e⟩
      rw [Map.lookup_perm (toMap_perm p) (nodup_toMap_keys hkn'), Map.lookup_append]
      simp only [Map.step]
      exact (Map.lookup_foldl_set l _ k' hkn).symm
    · rw [e]; exact ⟨fun h => (by cases h), fun _ => rfl⟩
  | hashes => exact ⟨fun _ _ => rfl, fun e => by simp [Tree.step] at e⟩

/-- the leaf hashes stay pairwise distinct (insert rejects a present hash, upsert a hash of another
key, batch insert a present or repeated hash) -/
theorem hashes_unique (op : Op) (t : Tree) (hkn : (Tree.keys t).Nodup) (hhn : (Tree.hashes t).Nodup) :
    (Tree.hashes (Tree.step op t).2).Nodup := by
  cases op with
  | ins k v h loc =>
    simp only [Tree.step]
    cases hi : Tree.insert k v h loc t with
    | none => exact hhn
    | some t' =>
      obtain ⟨p, _, hh⟩ := Tree.insert_spec hkn hi
      have ph := Tree.hashes_perm_of_entries (l := [(k, v, h)]) (by simpa using p)
      exact ph.nodup_iff.mpr (by simpa using List.nodup_cons.mpr ⟨hh, hhn⟩)
  | ups k v h =>
    simp only [Tree.step]
    cases hu : Tree.upsert k v h t with
    | none => exact hhn
    | some t' =>
      rcases Tree.upsert_spec hkn hu with ⟨hk, hfresh, e⟩ | ⟨_, p, hh⟩
      · simp only [Tree.orKeep]
        rw [Tree.hashes_eq, e]
        cases t with
        | none => simp [Tree.keys] at hk
        | some t0 =>
          simp only [Tree.upsertFresh, decide_eq_true_eq, Tree.otherHashes_eq] at hfresh
          rw [Tree.keys_eq] at hkn
          rw [Tree.hashes_eq] at hhn
          exact nodup_hashes_replace _ k v h hkn hhn hfresh
      · have ph := Tree.hashes_perm_of_entries (l := [(k, v, h)]) (by simpa using p)
        exact ph.nodup_iff.mpr (by simpa using List.nodup_cons.mpr ⟨hh, hhn⟩)
  | del k =>
    simp only [Tree.step]
    cases hd : Tree.delete k t with
    | none => exact hhn
    | some t' =>
      obtain ⟨e, _⟩ := Tree.delete_spec hkn hd
      simp only [Tree.orKeep]
      rw [Tree.hashes_eq, e]
      rw [Tree.hashes_eq] at hhn
      exact hhn.sublist ((List.filter_sublist).map _)
  | batch l =>
    simp only [Tree.step]
    rcases Tree.batch_spec l t hkn with ⟨hf, _, p⟩ | ⟨_, e⟩
    · obtain ⟨_, hhl, hfr⟩ := Tree.fresh_unpack hf
      refine (Tree.hashes_perm_of_entries p).nodup_iff.mpr ?_
      rw [List.nodup_append]
      refine ⟨hhl, hhn, ?_⟩
      intro a ha b hb' hab
      obtain ⟨e, he, rfl⟩ := List.mem_map.mp ha
      subst hab
      exact (hfr e he).2 hb'
    · rw [e]; exact hhn
  | hashes => exact hhn

/-! ### any history -/

/-- run a history on the tree together with the specification map, which is subjected to the same
successful operations -/
def runBoth : List Op → Tree × Map → Tree × Map
  | [], st => st
  | op :: rest, (t, m) =>
    runBoth rest ((Tree.step op t).2, if (Tree.step op t).1 then Map.step op m else m)

private theorem lookup_step_congr (op : Op) (a b : Map) (hb : ∀ l, op = .batch l → (l.map (·.1)).Nodup)
    (h : ∀ k, Map.lookup a k = Map.lookup b k) (k : KeyId) :
    Map.lookup (Map.step op a) k = Map.lookup (Map.step op b) k := by
  cases op with
  | ins k' v _ _ => simp only [Map.step, Map.lookup_set, h]
  | ups k' v _ => simp only [Map.step, Map.lookup_set, h]
  | del k' => simp only [Map.step, Map.lookup_erase, h]
  | batch l =>
    simp only [Map.step]
    rw [Map.lookup_foldl_set l a k (hb l rfl), Map.lookup_foldl_set l b k (hb l rfl), h]
  | hashes => exact h k

/-- **Under any history** (any finite sequence of inserts at any location, upserts, deletes, batch
inserts and hash recomputations, successful or failed, from any tree with distinct keys and leaf
hashes — in particular from the empty one): keys and leaf hashes stay pairwise distinct and the
key → value content equals that of a plain map subjected to the same successful operations. -/
theorem history_refinement (ops : List Op) (t : Tree) (m : Map) (hk : (Tree.keys t).Nodup)
    (hh : (Tree.hashes t).Nodup) (hm : ∀ k, Map.lookup (Tree.toMap t) k = Map.lookup m k) :
    (Tree.keys (runBoth ops (t, m)).1).Nodup ∧ (Tree.hashes (runBoth ops (t, m)).1).Nodup
      ∧ ∀ k, Map.lookup (Tree.toMap (runBoth ops (t, m)).1) k = Map.lookup (runBoth ops (t, m)).2 k := by
  induction ops generalizing t m with
  | nil => exact ⟨hk, hh, hm⟩
  | cons op rest ih =>
    have hk' := keys_unique op t hk
    have hh' := hashes_unique op t hk hh
    obtain ⟨hsucc, hfail⟩ := map_refinement op t hk
    simp only [runBoth]
    apply ih _ _ hk' hh'
    intro k
    cases hres : (Tree.step op t).1 with
    | true =>
      simp only [if_true]
      rw [hsucc hres k]
      refine lookup_step_congr op _ _ ?_ hm k
      intro l e
      subst e
      simp only [Tree.step] at hres
      rcases Tree.batch_spec l t hk with ⟨hf, _, _⟩ | ⟨_, e2⟩
      · exact (Tree.fresh_unpack hf).1
      · rw [e2] at hres; cases hres
    | false =>
      simp only [Bool.false_eq_true, if_false]
      rw [hfail hres]; exact hm k

/-- from the empty blob: the instance the property speaks about -/
theorem history_refinement_empty (ops : List Op) :
    (Tree.keys (runBoth ops (none, [])).1).Nodup ∧ (Tree.hashes (runBoth ops (none, [])).1).Nodup
      ∧ ∀ k, Map.lookup (Tree.toMap (runBoth ops (none, [])).1) k = Map.lookup (runBoth ops (none, [])).2 k :=
  history_refinement ops none [] List.nodup_nil List.nodup_nil (fun _ => rfl)

/-! ## L1: lazy hash recomputation and inclusion proofs -/

/-- the hash invariant on trees with stored hashes: a clean internal node stores the Merkle hash of
its subtree and has only clean descendants (so a dirty node has only dirty ancestors) -/
def Good : HT → Prop
  | .leaf _ _ _ => True
  | .node h d l r =>
    Good l ∧ Good r ∧
      (d = false → h = internalHash l.erase.merkle r.erase.merkle ∧ l.allClean = true ∧ r.allClean = true)

theorem good_clean_hash (t : HT) (hg : Good t) (hc : t.allClean = true) : t.hash = t.erase.merkle := by
  cases t with
  | leaf k v h => rfl
  | node h d l r =>
    simp only [HT.allClean, Bool.and_eq_true, Bool.not_eq_true'] at hc
    exact (hg.2.2 hc.1.1).1

/-- **Root hash.**  On a tree satisfying the hash invariant, `calculate_lazy_hashes` (which only
walks through dirty nodes) leaves the tree's content unchanged, every node clean, the invariant
intact, and the root storing the Merkle hash recomputed independently over the whole tree. -/
theorem root_hash (t : HT) (hg : Good t) :
    (HT.recompute t).hash = t.erase.merkle ∧ (HT.recompute t).erase = t.erase
      ∧ (HT.recompute t).allClean = true ∧ Good (HT.recompute t) := by
  induction t with
  | leaf k v h => exact ⟨rfl, rfl, rfl, trivial⟩
  | node h d l r ihl ihr =>
    obtain ⟨gl, gr, gd⟩ := hg
    obtain ⟨hl, el, cl, gl'⟩ := ihl gl
    obtain ⟨hr, er, cr, gr'⟩ := ihr gr
    cases d with
    | true =>
      have e1 : HT.recompute (.node h true l r)
          = .node (internalHash (HT.recompute l).hash (HT.recompute r).hash) false (HT.recompute l) (HT.recompute r) := by
        simp only [HT.recompute, if_true]
      rw [e1]
      refine ⟨?_, ?_, ?_, gl', gr', fun _ => ⟨?_, cl, cr⟩⟩
      · show internalHash _ _ = internalHash _ _
        rw [hl, hr]
      · show T.node _ _ = T.node _ _
        rw [el, er]
      · show (!false && HT.allClean _ && HT.allClean _) = true
        simp [cl, cr]
      · rw [hl, hr, el, er]
    | false =>
      obtain ⟨e, cl0, cr0⟩ := gd rfl
      have e1 : HT.recompute (.node h false l r) = .node h false l r := by
        simp only [HT.recompute, Bool.false_eq_true, if_false]
      rw [e1]
      refine ⟨e, rfl, ?_, gl, gr, fun _ => ⟨e, cl0, cr0⟩⟩
      show (!false && HT.allClean _ && HT.allClean _) = true
      simp [cl0, cr0]

/-- the executable check used by the driver's well-formedness test implies the invariant -/
theorem check_good (t : HT) (m : Hash) (h : t.check = some m) : Good t ∧ m = t.erase.merkle := by
  induction t generalizing m with
  | leaf k v hh => simp only [HT.check] at h; injection h with h; exact ⟨trivial, h.symm⟩
  | node hh d l r ihl ihr =>
    simp only [HT.check] at h
    split at h
    · rename_i hl hr el er
      obtain ⟨gl, ml⟩ := ihl hl el
      obtain ⟨gr, mr⟩ := ihr hr er
      split at h
      · rename_i hd
        injection h with h
        subst hd
        exact ⟨⟨gl, gr, fun e => by cases e⟩, by rw [← h, ml, mr]; rfl⟩
      · split at h
        · rename_i hc
          injection h with h
          refine ⟨⟨gl, gr, fun _ => ⟨by rw [hc.1, ml, mr], hc.2.1, hc.2.2⟩⟩, by rw [← h, ml, mr]; rfl⟩
        · cases h
    · cases h

private theorem validFrom_append (h : Hash) (a b : List (Side × Hash × Hash)) :
    Proof.validFrom h (a ++ b) = (Proof.validFrom h a).bind (fun h' => Proof.validFrom h' b) := by
  induction a generalizing h with
  | nil => rfl
  | cons x a ih =>
    obtain ⟨s, o, c⟩ := x
    simp only [List.cons_append, Proof.validFrom]
    split
    · exact ih _
    · rfl

private theorem proofOf_spec (k : KeyId) (t : T) (p : Proof) (h : t.proofOf k = some p) :
    Proof.validFrom p.nodeHash p.layers = some t.merkle ∧ p.rootHash = t.merkle := by
  induction t generalizing p with
  | leaf k' v hh =>
    simp only [T.proofOf] at h
    split at h
    · injection h with h; subst h; exact ⟨rfl, rfl⟩
    · cases h
  | node l r ihl ihr =>
    simp only [T.proofOf] at h
    split at h
    · rename_i q hq
      injection h with h; subst h
      obtain ⟨v1, _⟩ := ihl q hq
      refine ⟨?_, ?_⟩
      · simp only [validFrom_append, v1, Option.bind, Proof.validFrom, calcInternalHash, T.merkle, if_true]
      · simp [Proof.rootHash]
    · split at h
      · rename_i q hq
        injection h with h; subst h
        obtain ⟨v1, _⟩ := ihr q hq
        refine ⟨?_, ?_⟩
        · simp only [validFrom_append, v1, Option.bind, Proof.validFrom, calcInternalHash, T.merkle, if_true]
        · simp [Proof.rootHash]
      · cases h

private theorem proofOf_some (k : KeyId) (t : T) (hk : k ∈ t.keys) : ∃ p, t.proofOf k = some p := by
  induction t with
  | leaf k' v h =>
    simp only [T.keys, List.mem_singleton] at hk
    exact ⟨{ nodeHash := h, layers := [] }, by simp only [T.proofOf, if_pos hk.symm]⟩
  | node l r ihl ihr =>
    simp only [T.keys, List.mem_append] at hk
    simp only [T.proofOf]
    cases hl : l.proofOf k with
    | some p => exact ⟨_, rfl⟩
    | none =>
      rcases hk with hk | hk
      · obtain ⟨p, hp⟩ := ihl hk; rw [hl] at hp; cases hp
      · obtain ⟨p, hp⟩ := ihr hk; rw [hp]; exact ⟨_, rfl⟩

/-- **Inclusion proofs.**  Every key of the tree has an inclusion proof; it is valid
(`ProofOfInclusion::valid`) and ends in the Merkle root of the tree. -/
theorem proof_valid (t : T) (k : KeyId) (hk : k ∈ t.keys) :
    ∃ p, t.proofOf k = some p ∧ p.valid = true ∧ p.rootHash = t.merkle := by
  obtain ⟨p, hp⟩ := proofOf_some k t hk
  obtain ⟨v, r⟩ := proofOf_spec k t p hp
  exact ⟨p, hp, by simp [Proof.valid, v, r], r⟩

/-- on a clean tree satisfying the hash invariant, the proof read off the STORED hashes (what
`get_proof_of_inclusion` returns) is the proof recomputed from the tree -/
theorem proofOf_stored (t : HT) (k : KeyId) (hg : Good t) (hc : t.allClean = true) :
    t.proofOf k = t.erase.proofOf k := by
  induction t with
  | leaf k' v h => rfl
  | node h d l r ihl ihr =>
    obtain ⟨gl, gr, gd⟩ := hg
    simp only [HT.allClean, Bool.and_eq_true, Bool.not_eq_true'] at hc
    obtain ⟨⟨hd, cl⟩, cr⟩ := hc
    obtain ⟨e, _, _⟩ := gd hd
    simp only [HT.proofOf, HT.erase, T.proofOf, ihl gl cl, ihr gr cr,
      good_clean_hash l gl cl, good_clean_hash r gr cr, T.merkle, e]

/-- **Root and proofs after recomputation.**  Once the lazy hashes are recomputed, every key has an
inclusion proof (built from the stored hashes) that is valid and ends in the stored root hash, which
is the Merkle hash of the tree. -/
theorem proof_valid_after_recompute (t : HT) (hg : Good t) (k : KeyId) (hk : k ∈ t.erase.keys) :
    ∃ p, (HT.recompute t).proofOf k = some p ∧ p.valid = true
      ∧ p.rootHash = (HT.recompute t).hash ∧ (HT.recompute t).hash = t.erase.merkle := by
  obtain ⟨hh, he, hc, hg'⟩ := root_hash t hg
  obtain ⟨p, hp, hv, hr⟩ := proof_valid t.erase k hk
  refine ⟨p, ?_, hv, by rw [hr, hh], hh⟩
  rw [proofOf_stored _ k hg' hc, he, hp]

/-! ## The histories on which the code used to break the property

Before commits 934ac687 (`batch_insert` validates the whole batch before mutating) and fbd3f8c2
(`upsert` rejects a hash that belongs to another leaf) these three histories were proved negation
witnesses (`full_statement_false`).  The model now mirrors the repaired code; the same histories are
kept as regression theorems: the offending operation fails and leaves the blob as it was. -/

/-- the state after a history (whatever each operation returned) -/
def runHist (ops : List Op) : Blob := ops.foldl (fun s op => (step op s).2) Blob.empty

def hh (b : Nat) : Hash := List.replicate 32 b

/-- three leaves 1, 2, 3 -/
def threeLeaves : List Op :=
  [.ins 1 11 (hh 1) .auto, .ins 2 12 (hh 2) (.at 1 .left), .ins 3 13 (hh 3) (.at 1 .left)]

/-- former C18a: a batch that repeats the present key 1 is rejected, nothing changes -/
theorem former_witness_batch_rejected :
    errOf (step (.batch [(1, 50, hh 5), (7, 51, hh 6)]) (runHist threeLeaves)).1 = some .err
      ∧ (step (.batch [(1, 50, hh 5), (7, 51, hh 6)]) (runHist threeLeaves)).2 = runHist threeLeaves
      ∧ checkIntegrity (runHist threeLeaves) = .ok := by
  decide +kernel

/-- former C18b: an upsert of key 1 to the leaf hash of key 2 is rejected, nothing changes -/
theorem former_witness_upsert_rejected :
    errOf (step (.ups 1 11 (hh 2)) (runHist threeLeaves)).1 = some .err
      ∧ (step (.ups 1 11 (hh 2)) (runHist threeLeaves)).2 = runHist threeLeaves
      ∧ (Blob.ofBytes (runHist threeLeaves).bytes).isSome = true := by
  decide +kernel

/-- former C18c: on the empty blob a batch whose two items share a key is rejected before its
first insert -/
theorem former_witness_failed_batch_unchanged :
    errOf (step (.batch [(1, 11, hh 1), (1, 12, hh 2)]) Blob.empty).1 = some .err
      ∧ (step (.batch [(1, 11, hh 1), (1, 12, hh 2)]) Blob.empty).2 = Blob.empty
      ∧ Tree.step (.batch [(1, 11, hh 1), (1, 12, hh 2)]) none = (false, none) := by
  decide +kernel

/-- an upsert that keeps the leaf's own hash is still accepted -/
example : errOf (step (.ups 1 99 (hh 1)) (runHist threeLeaves)).1 = none := by decide +kernel

/-! ## L2: the index-level model -/

/-- **Reload (bytes).**  When every block fits the byte format (32-byte hashes, u32 indexes, 64-bit
keys and values), serializing the blob and loading the bytes again (`MerkleBlob::new`) decodes exactly
the same blocks: the result is the cache rebuild (`BlockStatusCache::new`) on the same block list, and
whenever it succeeds the reloaded blob has the same blocks and the same bytes.
Partial: that the rebuilt caches equal the live ones up to free-list order, and that the rebuild
succeeds on every reachable state, is the open statement `ReloadCaches` (checked at run time on every
step of every history: observable `reload=same`). -/
theorem reload_partial (s : Blob) (h : ∀ b ∈ s.blocks, BlockOk b) :
    Blob.ofBytes s.bytes = ofBlocks s.blocks
      ∧ ∀ n, Blob.ofBytes s.bytes = some n → n.blocks = s.blocks ∧ n.bytes = s.bytes := by
  have e := ofBytes_bytes s h
  refine ⟨e, fun n hn => ?_⟩
  rw [e] at hn
  have hb : n.blocks = s.blocks := by
    unfold ofBlocks at hn
    split at hn
    split at hn
    · cases hn
    · split at hn
      · cases hn
      · injection hn with hn; rw [← hn]
  exact ⟨hb, by simp [Blob.bytes, hb]⟩

/-- `Block::from_bytes (Block::to_bytes b) = b` for every block the format can hold -/
theorem block_format_roundtrip (b : Block) (hb : BlockOk b) : decBlock (encBlock b) = some b :=
  decBlock_encBlock b hb

/-- non-vacuity: the blocks of the three-leaf blob fit the format -/
example : ∀ b ∈ (runHist threeLeaves).blocks, BlockOk b := by
  decide +kernel

/-- **A failed operation leaves the blob unchanged** (index-level model: `insert` at any location,
`upsert`, `delete`, `batch_insert`).  `LInv` is the local, decidable part of the invariant (free
indexes distinct and in range, parent pointers in range, root at index 0 without parent, every live
node's parent is a live internal node having it as a child, live internal nodes have two distinct live
children that point back to them, both caches hold exactly the live leaves, a parentless leaf is the
only leaf); the driver evaluates it after every step of every history.  Under it, once an operation
is past its checks none of its writes, index allocations, parent/child updates, tree walks or the
dirty-marking walk can fail, so an error can only come from a check that precedes the first
mutation; for `batch_insert` that check is the validation of the whole batch.
Not covered: `calculate_lazy_hashes`. -/
theorem fail_unchanged (op : Op) (s : Blob) (hinv : LInv s) (hh : op ≠ .hashes)
    (he : errOf (step op s).1 ≠ none) : (step op s).2 = s := by
  cases op with
  | ins k v h loc =>
    cases loc with
    | auto =>
      exact ((insert_keepOrOk hinv k v h .auto (fun _ _ e => by cases e)).discard).error_unchanged he
    | «at» ref side =>
      simp only [step] at he ⊢
      cases hr : refIndex s ref with
      | none => rfl
      | some idx =>
        rw [hr] at he
        simp only at he ⊢
        have hlive := (hinv.key_leaf (k := ref) hr).1
        exact ((insert_keepOrOk hinv k v h (.leaf idx side)
          (fun i sd e => by injection e with e1 _; rw [← e1]; exact hlive)).discard).error_unchanged he
  | ups k v h => exact (upsert_keepOrOk hinv k v h).error_unchanged he
  | del k => exact (delete_keepOrOk hinv k).error_unchanged he
  | batch l => exact (batchInsert_keepOrOk hinv l).error_unchanged he
  | hashes => exact absurd rfl hh

/-- non-vacuity: the local invariant holds on the three-leaf blob, and a failing operation exists -/
example : LInv (runHist threeLeaves) ∧ errOf (step (.ins 1 5 (hh 9) .auto) (runHist threeLeaves)).1 ≠ none := by
  decide +kernel

/-- **A batch that does not pass its validation leaves the blob unchanged** (any state): a key or
leaf hash of the batch that is already in the cache or repeated inside the batch makes
`batch_insert` return an error before anything is mutated. -/
theorem fail_unchanged_batch_validation (l : List KVH) (s : Blob) (h : batchValid s l [] [] = false) :
    step (.batch l) s = (.error .err, s) := by
  simp only [step, batchInsert, bind_run, M.get, h]
  rfl

/-- **A batch that passed its validation succeeds** on a locally well-formed blob: the two checked
inserts (with at most one leaf), the allocation of the leaves and of the pairing levels, the
breadth-first search for the minimum-height leaf and the attachment of the subtree cannot fail. -/
theorem batch_commit_succeeds (l : List KVH) (s : Blob) (hinv : LInv s) (hv : batchValid s l [] [] = true) :
    errOf (step (.batch l) s).1 = none := by
  obtain ⟨a, s', e, _⟩ := batchCommit_ok hinv l hv
  simp only [step, batchInsert, bind_run, M.get, hv, if_true, e]
  rfl

/-- **A validated `insert` succeeds** on a locally well-formed blob (the pseudo-random walk reaches a
live leaf because every node has exactly one parent and the root none) -/
theorem insert_succeeds (k : KeyId) (v : ValueId) (h : Hash) (s : Blob) (hinv : LInv s)
    (hk : mapGet s.k2i k = none) (hh : mapGet s.h2i h = none) :
    errOf (step (.ins k v h .auto) s).1 = none := by
  obtain ⟨a, s', e, _, _⟩ := insert_auto_ok hinv k v h hk hh
  simp only [step]
  show errOf ((insert k v h .auto >>= fun _ => pure ()) s).1 = none
  rw [bind_run, e]
  rfl

/-- **`insert` preserves the local invariant** (progress on `InvPreserved`): for an insert at the
automatic location or next to any reference key, successful or failed, the blob after the operation
satisfies `LInv` again — through `insert_first`, `insert_second` (blob rebuilt with three blocks) and
`insert_third_or_later` (two allocated indexes — reused free ones or appended —, the new leaf, the
new internal node, the re-parented old leaf, the patched old parent, the dirty-marked lineage). -/
theorem linv_preserved_insert (k : KeyId) (v : ValueId) (h : Hash) (loc : RefLoc) (s : Blob) (hinv : LInv s) :
    LInv (step (.ins k v h loc) s).2 := by
  cases loc with
  | auto =>
    simp only [step]
    rw [bind_pure_snd]
    exact insert_linv hinv k v h .auto (Or.inl rfl)
  | «at» ref side =>
    simp only [step]
    cases hr : refIndex s ref with
    | none => exact hinv
    | some idx =>
      simp only
      rw [bind_pure_snd]
      exact insert_linv hinv k v h (.leaf idx side) (Or.inr ⟨idx, side, rfl, (hinv.key_leaf (k := ref) hr).1⟩)

/-- **`upsert` preserves the local invariant** (progress on `InvPreserved`), whatever it returns -/
theorem linv_preserved_upsert (k : KeyId) (v : ValueId) (h : Hash) (s : Blob) (hinv : LInv s) :
    LInv (step (.ups k v h) s).2 := upsert_linv hinv k v h

/-- hence along any history of inserts and upserts from the empty blob the local invariant holds
(so that `fail_unchanged` applies at every step of such a history without a run-time check) -/
theorem inserts_upserts_history (ops : List Op)
    (hops : ∀ op ∈ ops, (∃ k v h loc, op = .ins k v h loc) ∨ (∃ k v h, op = .ups k v h)) :
    LInv (ops.foldl (fun s op => (step op s).2) Blob.empty) := by
  have hempty : LInv Blob.empty := by decide
  suffices ∀ (s : Blob), LInv s → LInv (ops.foldl (fun s op => (step op s).2) s) from this _ hempty
  induction ops with
  | nil => intro s hs; exact hs
  | cons op rest ih =>
    intro s hs
    simp only [List.foldl_cons]
    refine ih (fun op hop => hops op (List.mem_cons_of_mem _ hop)) _ ?_
    rcases hops op (by simp) with ⟨k, v, h, loc, e⟩ | ⟨k, v, h, e⟩
    · subst e; exact linv_preserved_insert k v h loc s hs
    · subst e; exact linv_preserved_upsert k v h s hs

/-- OPEN `inv_preserved`: the executable well-formedness `wf` (reachable blocks form a tree with
consistent parent pointers, distinct keys and leaf hashes, caches = leaves, free list = unreachable
indexes, stored hashes right up to dirtiness) and the local invariant are preserved by every
operation.  Proved so far: `LInv` is preserved by `insert` and `upsert` (`linv_preserved_insert`,
`linv_preserved_upsert`).  `LInv` alone is NOT inductive for `delete`: when the deleted leaf's parent
is the root and its sibling a leaf, the sibling becomes a parentless leaf, and "a parentless leaf is
the only leaf" needs the global fact that every live node is reachable from the root (a locally
consistent component detached from the root is not excluded by local clauses) — that is part of `wf`. -/
def InvPreserved : Prop :=
  ∀ (op : Op) (s : Blob), wf s = true → wf (step op s).2 = true ∧ LInv (step op s).2

/-- OPEN `abs_commutes` (refinement L2 → L1): on well-formed states an operation
succeeds exactly when the tree-level operation does, and the abstraction of the new state
is the tree-level result -/
def AbsCommutes : Prop :=
  ∀ (op : Op) (s : Blob) (t : Tree), wf s = true → abs s = some t →
    (errOf (step op s).1 = none ↔ (Tree.step op t).1 = true) ∧ abs (step op s).2 = some (Tree.step op t).2

/-- OPEN: `calculate_lazy_hashes` on blocks is `HT.recompute` on the abstraction (then `root_hash`
and `proof_valid_after_recompute` apply to the blob) -/
def HashesCommute : Prop :=
  ∀ s : Blob, wf s = true → absH (calcLazyHashes s).2 = (absH s).map (Option.map HT.recompute)

/-- OPEN (second half of `reload`): the cache rebuilt by `MerkleBlob::new` equals the live cache, up
to the order of the free list -/
def ReloadCaches : Prop :=
  ∀ s : Blob, wf s = true → ∃ n, ofBlocks s.blocks = some n ∧ (∀ k, mapGet n.k2i k = mapGet s.k2i k)
    ∧ (∀ h, mapGet n.h2i h = mapGet s.h2i h) ∧ n.free.Perm s.free

/-- OPEN: a well-formed state passes `check_integrity`, and `wf` implies the local invariant -/
def IntegrityOfWf : Prop := ∀ s : Blob, wf s = true → checkIntegrity s = .ok ∧ LInv s

end ChiaModel.C18
