import ChiaModel.Lemmas.Blob
import ChiaModel.Lemmas.BlobBytes
import ChiaModel.Lemmas.BlobL2
import ChiaModel.Lemmas.BlobInv
import ChiaModel.Lemmas.BlobBatch2
import ChiaModel.Lemmas.BlobUps
import ChiaModel.Lemmas.BlobProof
/-
C18 — the DataLayer Merkle blob stays a valid authenticated map under any history.
Property theorems only (helper lemmas: Lemmas/Blob.lean).  All statements are about the executable
definitions of Model/Blob.lean that the driver runs.
-/
namespace ChiaModel.C18
open ChiaModel ChiaModel.Blob List

/-! ## L1: plain trees against the specification map -/

private theorem toMap_perm {t t' : Tree} {l : List KVH} (p : Tree.entries t' ~ l ++ Tree.entries t) :
    Tree.toMap t' ~ l.map (fun e => (e.1, e.2.1)) ++ Tree.toMap t := by
  rw [Tree.toMap_eq, Tree.toMap_eq, ← List.map_append]; exact p.map _

private theorem nodup_toMap_keys {t : Tree} (h : (Tree.keys t).Nodup) : ((Tree.toMap t).map (·.1)).Nodup := by
  rw [Tree.toMap_keys]; exact h

private theorem filter_map_kv (l : List KVH) (k : KeyId) :
    (l.filter (fun e => e.1 ≠ k)).map (fun e => (e.1, e.2.1))
      = (l.map (fun e => (e.1, e.2.1))).filter (fun e => e.1 ≠ k) := by
  induction l with
  | nil => rfl
  | cons x l ih =>
    by_cases h : x.1 = k
    · rw [List.filter_cons_of_neg (by simp [h]), List.map_cons, List.filter_cons_of_neg (by simp [h]), ih]
    · rw [List.filter_cons_of_pos (by simp [h]), List.map_cons, List.map_cons,
        List.filter_cons_of_pos (by simp [h]), ih]

/-- the keys after one operation (keys stay pairwise distinct) -/
theorem keys_unique (op : Op) (t : Tree) (hn : (Tree.keys t).Nodup) :
    (Tree.keys (Tree.step op t).2).Nodup := by
  cases op with
  | ins k v h loc =>
    simp only [Tree.step]
    cases hi : Tree.insert k v h loc t with
    | none => exact hn
    | some t' =>
      obtain ⟨p, hk, _⟩ := Tree.insert_spec hn hi
      have pk := Tree.keys_perm_of_entries (l := [(k, v, h)]) (by simpa using p)
      exact pk.nodup_iff.mpr (by simpa using List.nodup_cons.mpr ⟨hk, hn⟩)
  | ups k v h =>
    simp only [Tree.step]
    cases hu : Tree.upsert k v h t with
    | none => exact hn
    | some t' =>
      rcases Tree.upsert_spec hn hu with ⟨_, _, e⟩ | ⟨hk, p, _⟩
      · simp only [Tree.orKeep]
        rw [Tree.keys_eq, e, List.map_map]
        have : ((fun (x : KVH) => x.1) ∘ fun e => if e.1 = k then (k, v, h) else e) = (·.1) := by
          funext e; simp only [Function.comp]; split <;> simp [*]
        rw [this, ← Tree.keys_eq]; exact hn
      · have pk := Tree.keys_perm_of_entries (l := [(k, v, h)]) (by simpa using p)
        exact pk.nodup_iff.mpr (by simpa using List.nodup_cons.mpr ⟨hk, hn⟩)
  | del k =>
    simp only [Tree.step]
    cases hd : Tree.delete k t with
    | none => exact hn
    | some t' =>
      obtain ⟨e, _⟩ := Tree.delete_spec hn hd
      simp only [Tree.orKeep]
      rw [Tree.keys_eq, e]
      rw [Tree.keys_eq] at hn
      exact hn.sublist ((List.filter_sublist).map _)
  | batch l =>
    simp only [Tree.step]
    rcases Tree.batch_spec l t hn with ⟨hf, _, p⟩ | ⟨_, e⟩
    · obtain ⟨hkn, _, hfr⟩ := Tree.fresh_unpack hf
      refine (Tree.keys_perm_of_entries p).nodup_iff.mpr ?_
      rw [List.nodup_append]
      refine ⟨hkn, hn, ?_⟩
      intro a ha b hb' hab
      obtain ⟨e, he, rfl⟩ := List.mem_map.mp ha
      subst hab
      exact (hfr e he).1 hb'
    · rw [e]; exact hn
  | hashes => exact hn

/-- **Refinement to a map.**  For every operation (insert at any location, upsert, delete, batch
insert, hash recomputation) on a tree with pairwise distinct keys: if the operation succeeds, looking
up any key in the resulting tree gives what the plain map gives after the same operation; if it
fails, the tree is unchanged. -/
theorem map_refinement (op : Op) (t : Tree) (hn : (Tree.keys t).Nodup) :
    ((Tree.step op t).1 = true →
        ∀ k, Map.lookup (Tree.toMap (Tree.step op t).2) k = Map.lookup (Map.step op (Tree.toMap t)) k)
    ∧ ((Tree.step op t).1 = false → (Tree.step op t).2 = t) := by
  have hkn' := keys_unique op t hn
  cases op with
  | ins k v h loc =>
    simp only [Tree.step] at hkn' ⊢
    cases hi : Tree.insert k v h loc t with
    | none => exact ⟨fun e => by simp [Tree.orKeep] at e, fun _ => rfl⟩
    | some t' =>
      refine ⟨fun _ k' => ?_, fun e => by simp [Tree.orKeep] at e⟩
      rw [hi] at hkn'
      obtain ⟨p, _, _⟩ := Tree.insert_spec hn hi
      have pm := toMap_perm (l := [(k, v, h)]) (by simpa using p)
      simp only [Tree.orKeep, Map.step]
      rw [Map.lookup_perm pm (nodup_toMap_keys hkn')]
      exact Map.lookup_cons_set _ _ _ _
  | ups k v h =>
    simp only [Tree.step] at hkn' ⊢
    cases hu : Tree.upsert k v h t with
    | none => exact ⟨fun e => by simp [Tree.orKeep] at e, fun _ => rfl⟩
    | some t' =>
      refine ⟨fun _ k' => ?_, fun e => by simp [Tree.orKeep] at e⟩
      rw [hu] at hkn'
      simp only [Tree.orKeep, Map.step]
      rcases Tree.upsert_spec hn hu with ⟨hk, _, e⟩ | ⟨_, p, _⟩
      · rw [Tree.toMap_eq, e, List.map_map]
        have : ((fun (e : KVH) => (e.1, e.2.1)) ∘ fun e => if e.1 = k then (k, v, h) else e)
            = (fun e => if e.1 = k then (k, v) else e) ∘ (fun (e : KVH) => (e.1, e.2.1)) := by
          funext e; simp only [Function.comp]; split <;> rfl
        rw [this, ← List.map_map, ← Tree.toMap_eq, Map.lookup_map_replace, Map.lookup_set, Tree.toMap_keys,
          if_pos hk]
      · have pm := toMap_perm (l := [(k, v, h)]) (by simpa using p)
        rw [Map.lookup_perm pm (nodup_toMap_keys hkn')]
        exact Map.lookup_cons_set _ _ _ _
  | del k =>
    simp only [Tree.step] at hkn' ⊢
    cases hd : Tree.delete k t with
    | none => exact ⟨fun e => by simp [Tree.orKeep] at e, fun _ => rfl⟩
    | some t' =>
      refine ⟨fun _ k' => ?_, fun e => by simp [Tree.orKeep] at e⟩
      obtain ⟨e, _⟩ := Tree.delete_spec hn hd
      simp only [Tree.orKeep, Map.step]
      rw [Tree.toMap_eq, e, filter_map_kv, ← Tree.toMap_eq]
      rfl
  | batch l =>
    simp only [Tree.step] at hkn' ⊢
    rcases Tree.batch_spec l t hn with ⟨hf, hok, p⟩ | ⟨_, e⟩
    · obtain ⟨hkn, _, _⟩ := Tree.fresh_unpack hf
      refine ⟨fun _ k' => ?_, fun e => by rw [hok] at e; cases e⟩
      rw [Map.lookup_perm (toMap_perm p) (nodup_toMap_keys hkn'), Map.lookup_append]
      simp only [Map.step]
      exact (Map.lookup_foldl_set l _ k' hkn).symm
    · rw [e]; exact ⟨fun h => (by cases h), fun _ => rfl⟩
  | hashes => exact ⟨fun _ _ => rfl, fun e => by simp [Tree.step] at e⟩

/-- the leaf hashes stay pairwise distinct (insert rejects a present hash, upsert a hash of another
key, batch insert a present or repeated hash) -/
theorem hashes_unique (op : Op) (t : Tree) (hkn : (Tree.keys t).Nodup) (hhn : (Tree.hashes t).Nodup) :
    (Tree.hashes (Tree.step op t).2).Nodup := by
  cases op with
  | ins k v h loc =>
    simp only [Tree.step]
    cases hi : Tree.insert k v h loc t with
    | none => exact hhn
    | some t' =>
      obtain ⟨p, _, hh⟩ := Tree.insert_spec hkn hi
      have ph := Tree.hashes_perm_of_entries (l := [(k, v, h)]) (by simpa using p)
      exact ph.nodup_iff.mpr (by simpa using List.nodup_cons.mpr ⟨hh, hhn⟩)
  | ups k v h =>
    simp only [Tree.step]
    cases hu : Tree.upsert k v h t with
    | none => exact hhn
    | some t' =>
      rcases Tree.upsert_spec hkn hu with ⟨hk, hfresh, e⟩ | ⟨_, p, hh⟩
      · simp only [Tree.orKeep]
        rw [Tree.hashes_eq, e]
        cases t with
        | none => simp [Tree.keys] at hk
        | some t0 =>
          simp only [Tree.upsertFresh, decide_eq_true_eq, Tree.otherHashes_eq] at hfresh
          rw [Tree.keys_eq] at hkn
          rw [Tree.hashes_eq] at hhn
          exact nodup_hashes_replace _ k v h hkn hhn hfresh
      · have ph := Tree.hashes_perm_of_entries (l := [(k, v, h)]) (by simpa using p)
        exact ph.nodup_iff.mpr (by simpa using List.nodup_cons.mpr ⟨hh, hhn⟩)
  | del k =>
    simp only [Tree.step]
    cases hd : Tree.delete k t with
    | none => exact hhn
    | some t' =>
      obtain ⟨e, _⟩ := Tree.delete_spec hkn hd
      simp only [Tree.orKeep]
      rw [Tree.hashes_eq, e]
      rw [Tree.hashes_eq] at hhn
      exact hhn.sublist ((List.filter_sublist).map _)
  | batch l =>
    simp only [Tree.step]
    rcases Tree.batch_spec l t hkn with ⟨hf, _, p⟩ | ⟨_, e⟩
    · obtain ⟨_, hhl, hfr⟩ := Tree.fresh_unpack hf
      refine (Tree.hashes_perm_of_entries p).nodup_iff.mpr ?_
      rw [List.nodup_append]
      refine ⟨hhl, hhn, ?_⟩
      intro a ha b hb' hab
      obtain ⟨e, he, rfl⟩ := List.mem_map.mp ha
      subst hab
      exact (hfr e he).2 hb'
    · rw [e]; exact hhn
  | hashes => exact hhn

/-! ### any history -/

/-- run a history on the tree together with the specification map, which is subjected to the same
successful operations -/
def runBoth : List Op → Tree × Map → Tree × Map
  | [], st => st
  | op :: rest, (t, m) =>
    runBoth rest ((Tree.step op t).2, if (Tree.step op t).1 then Map.step op m else m)

private theorem lookup_step_congr (op : Op) (a b : Map) (hb : ∀ l, op = .batch l → (l.map (·.1)).Nodup)
    (h : ∀ k, Map.lookup a k = Map.lookup b k) (k : KeyId) :
    Map.lookup (Map.step op a) k = Map.lookup (Map.step op b) k := by
  cases op with
  | ins k' v _ _ => simp only [Map.step, Map.lookup_set, h]
  | ups k' v _ => simp only [Map.step, Map.lookup_set, h]
  | del k' => simp only [Map.step, Map.lookup_erase, h]
  | batch l =>
    simp only [Map.step]
    rw [Map.lookup_foldl_set l a k (hb l rfl), Map.lookup_foldl_set l b k (hb l rfl), h]
  | hashes => exact h k

/-- **Under any history** (any finite sequence of inserts at any location, upserts, deletes, batch
inserts and hash recomputations, successful or failed, from any tree with distinct keys and leaf
hashes — in particular from the empty one): keys and leaf hashes stay pairwise distinct and the
key → value content equals that of a plain map subjected to the same successful operations. -/
theorem history_refinement (ops : List Op) (t : Tree) (m : Map) (hk : (Tree.keys t).Nodup)
    (hh : (Tree.hashes t).Nodup) (hm : ∀ k, Map.lookup (Tree.toMap t) k = Map.lookup m k) :
    (Tree.keys (runBoth ops (t, m)).1).Nodup ∧ (Tree.hashes (runBoth ops (t, m)).1).Nodup
      ∧ ∀ k, Map.lookup (Tree.toMap (runBoth ops (t, m)).1) k = Map.lookup (runBoth ops (t, m)).2 k := by
  induction ops generalizing t m with
  | nil => exact ⟨hk, hh, hm⟩
  | cons op rest ih =>
    have hk' := keys_unique op t hk
    have hh' := hashes_unique op t hk hh
    obtain ⟨hsucc, hfail⟩ := map_refinement op t hk
    simp only [runBoth]
    apply ih _ _ hk' hh'
    intro k
    cases hres : (Tree.step op t).1 with
    | true =>
      simp only [if_true]
      rw [hsucc hres k]
      refine lookup_step_congr op _ _ ?_ hm k
      intro l e
      subst e
      simp only [Tree.step] at hres
      rcases Tree.batch_spec l t hk with ⟨hf, _, _⟩ | ⟨_, e2⟩
      · exact (Tree.fresh_unpack hf).1
      · rw [e2] at hres; cases hres
    | false =>
      simp only [Bool.false_eq_true, if_false]
      rw [hfail hres]; exact hm k

/-- from the empty blob: the instance the property speaks about -/
theorem history_refinement_empty (ops : List Op) :
    (Tree.keys (runBoth ops (none, [])).1).Nodup ∧ (Tree.hashes (runBoth ops (none, [])).1).Nodup
      ∧ ∀ k, Map.lookup (Tree.toMap (runBoth ops (none, [])).1) k = Map.lookup (runBoth ops (none, [])).2 k :=
  history_refinement ops none [] List.nodup_nil List.nodup_nil (fun _ => rfl)

/-! ## L1: lazy hash recomputation and inclusion proofs -/

/-- the hash invariant on trees with stored hashes: a clean internal node stores the Merkle hash of
its subtree and has only clean descendants (so a dirty node has only dirty ancestors) -/
def Good : HT → Prop
  | .leaf _ _ _ => True
  | .node h d l r =>
    Good l ∧ Good r ∧
      (d = false → h = internalHash l.erase.merkle r.erase.merkle ∧ l.allClean = true ∧ r.allClean = true)

theorem good_clean_hash (t : HT) (hg : Good t) (hc : t.allClean = true) : t.hash = t.erase.merkle := by
  cases t with
  | leaf k v h => rfl
  | node h d l r =>
    simp only [HT.allClean, Bool.and_eq_true, Bool.not_eq_true'] at hc
    exact (hg.2.2 hc.1.1).1

/-- **Root hash.**  On a tree satisfying the hash invariant, `calculate_lazy_hashes` (which only
walks through dirty nodes) leaves the tree's content unchanged, every node clean, the invariant
intact, and the root storing the Merkle hash recomputed independently over the whole tree. -/
theorem root_hash (t : HT) (hg : Good t) :
    (HT.recompute t).hash = t.erase.merkle ∧ (HT.recompute t).erase = t.erase
      ∧ (HT.recompute t).allClean = true ∧ Good (HT.recompute t) := by
  induction t with
  | leaf k v h => exact ⟨rfl, rfl, rfl, trivial⟩
  | node h d l r ihl ihr =>
    obtain ⟨gl, gr, gd⟩ := hg
    obtain ⟨hl, el, cl, gl'⟩ := ihl gl
    obtain ⟨hr, er, cr, gr'⟩ := ihr gr
    cases d with
    | true =>
      have e1 : HT.recompute (.node h true l r)
          = .node (internalHash (HT.recompute l).hash (HT.recompute r).hash) false (HT.recompute l) (HT.recompute r) := by
        simp only [HT.recompute, if_true]
      rw [e1]
      refine ⟨?_, ?_, ?_, gl', gr', fun _ => ⟨?_, cl, cr⟩⟩
      · show internalHash _ _ = internalHash _ _
        rw [hl, hr]
      · show T.node _ _ = T.node _ _
        rw [el, er]
      · show (!false && HT.allClean _ && HT.allClean _) = true
        simp [cl, cr]
      · rw [hl, hr, el, er]
    | false =>
      obtain ⟨e, cl0, cr0⟩ := gd rfl
      have e1 : HT.recompute (.node h false l r) = .node h false l r := by
        simp only [HT.recompute, Bool.false_eq_true, if_false]
      rw [e1]
      refine ⟨e, rfl, ?_, gl, gr, fun _ => ⟨e, cl0, cr0⟩⟩
      show (!false && HT.allClean _ && HT.allClean _) = true
      simp [cl0, cr0]

/-- the executable check used by the driver's well-formedness test implies the invariant -/
theorem check_good (t : HT) (m : Hash) (h : t.check = some m) : Good t ∧ m = t.erase.merkle := by
  induction t generalizing m with
  | leaf k v hh => simp only [HT.check] at h; injection h with h; exact ⟨trivial, h.symm⟩
  | node hh d l r ihl ihr =>
    simp only [HT.check] at h
    split at h
    · rename_i hl hr el er
      obtain ⟨gl, ml⟩ := ihl hl el
      obtain ⟨gr, mr⟩ := ihr hr er
      split at h
      · rename_i hd
        injection h with h
        subst hd
        exact ⟨⟨gl, gr, fun e => by cases e⟩, by rw [← h, ml, mr]; rfl⟩
      · split at h
        · rename_i hc
          injection h with h
          refine ⟨⟨gl, gr, fun _ => ⟨by rw [hc.1, ml, mr], hc.2.1, hc.2.2⟩⟩, by rw [← h, ml, mr]; rfl⟩
        · cases h
    · cases h

private theorem validFrom_append (h : Hash) (a b : List (Side × Hash × Hash)) :
    Proof.validFrom h (a ++ b) = (Proof.validFrom h a).bind (fun h' => Proof.validFrom h' b) := by
  induction a generalizing h with
  | nil => rfl
  | cons x a ih =>
    obtain ⟨s, o, c⟩ := x
    simp only [List.cons_append, Proof.validFrom]
    split
    · exact ih _
    · rfl

private theorem proofOf_spec (k : KeyId) (t : T) (p : Proof) (h : t.proofOf k = some p) :
    Proof.validFrom p.nodeHash p.layers = some t.merkle ∧ p.rootHash = t.merkle := by
  induction t generalizing p with
  | leaf k' v hh =>
    simp only [T.proofOf] at h
    split at h
    · injection h with h; subst h; exact ⟨rfl, rfl⟩
    · cases h
  | node l r ihl ihr =>
    simp only [T.proofOf] at h
    split at h
    · rename_i q hq
      injection h with h; subst h
      obtain ⟨v1, _⟩ := ihl q hq
      refine ⟨?_, ?_⟩
      · simp only [validFrom_append, v1, Option.bind, Proof.validFrom, calcInternalHash, T.merkle, if_true]
      · simp [Proof.rootHash]
    · split at h
      · rename_i q hq
        injection h with h; subst h
        obtain ⟨v1, _⟩ := ihr q hq
        refine ⟨?_, ?_⟩
        · simp only [validFrom_append, v1, Option.bind, Proof.validFrom, calcInternalHash, T.merkle, if_true]
        · simp [Proof.rootHash]
      · cases h

private theorem proofOf_some (k : KeyId) (t : T) (hk : k ∈ t.keys) : ∃ p, t.proofOf k = some p := by
  induction t with
  | leaf k' v h =>
    simp only [T.keys, List.mem_singleton] at hk
    exact ⟨{ nodeHash := h, layers := [] }, by simp only [T.proofOf, if_pos hk.symm]⟩
  | node l r ihl ihr =>
    simp only [T.keys, List.mem_append] at hk
    simp only [T.proofOf]
    cases hl : l.proofOf k with
    | some p => exact ⟨_, rfl⟩
    | none =>
      rcases hk with hk | hk
      · obtain ⟨p, hp⟩ := ihl hk; rw [hl] at hp; cases hp
      · obtain ⟨p, hp⟩ := ihr hk; rw [hp]; exact ⟨_, rfl⟩

/-- **Inclusion proofs.**  Every key of the tree has an inclusion proof; it is valid
(`ProofOfInclusion::valid`) and ends in the Merkle root of the tree. -/
theorem proof_valid (t : T) (k : KeyId) (hk : k ∈ t.keys) :
    ∃ p, t.proofOf k = some p ∧ p.valid = true ∧ p.rootHash = t.merkle := by
  obtain ⟨p, hp⟩ := proofOf_some k t hk
  obtain ⟨v, r⟩ := proofOf_spec k t p hp
  exact ⟨p, hp, by simp [Proof.valid, v, r], r⟩

/-- on a clean tree satisfying the hash invariant, the proof read off the STORED hashes (what
`get_proof_of_inclusion` returns) is the proof recomputed from the tree -/
theorem proofOf_stored (t : HT) (k : KeyId) (hg : Good t) (hc : t.allClean = true) :
    t.proofOf k = t.erase.proofOf k := by
  induction t with
  | leaf k' v h => rfl
  | node h d l r ihl ihr =>
    obtain ⟨gl, gr, gd⟩ := hg
    simp only [HT.allClean, Bool.and_eq_true, Bool.not_eq_true'] at hc
    obtain ⟨⟨hd, cl⟩, cr⟩ := hc
    obtain ⟨e, _, _⟩ := gd hd
    simp only [HT.proofOf, HT.erase, T.proofOf, ihl gl cl, ihr gr cr,
      good_clean_hash l gl cl, good_clean_hash r gr cr, T.merkle, e]

/-- **Root and proofs after recomputation.**  Once the lazy hashes are recomputed, every key has an
inclusion proof (built from the stored hashes) that is valid and ends in the stored root hash, which
is the Merkle hash of the tree. -/
theorem proof_valid_after_recompute (t : HT) (hg : Good t) (k : KeyId) (hk : k ∈ t.erase.keys) :
    ∃ p, (HT.recompute t).proofOf k = some p ∧ p.valid = true
      ∧ p.rootHash = (HT.recompute t).hash ∧ (HT.recompute t).hash = t.erase.merkle := by
  obtain ⟨hh, he, hc, hg'⟩ := root_hash t hg
  obtain ⟨p, hp, hv, hr⟩ := proof_valid t.erase k hk
  refine ⟨p, ?_, hv, by rw [hr, hh], hh⟩
  rw [proofOf_stored _ k hg' hc, he, hp]

/-! ## The histories on which the code used to break the property

Before commits 934ac687 (`batch_insert` validates the whole batch before mutating) and fbd3f8c2
(`upsert` rejects a hash that belongs to another leaf) these three histories were proved negation
witnesses (`full_statement_false`).  The model now mirrors the repaired code; the same histories are
kept as regression theorems: the offending operation fails and leaves the blob as it was. -/

/-- the state after a history (whatever each operation returned) -/
def runHist (ops : List Op) : Blob := ops.foldl (fun s op => (step op s).2) Blob.empty

def hh (b : Nat) : Hash := List.replicate 32 b

/-- three leaves 1, 2, 3 -/
def threeLeaves : List Op :=
  [.ins 1 11 (hh 1) .auto, .ins 2 12 (hh 2) (.at 1 .left), .ins 3 13 (hh 3) (.at 1 .left)]

/-- former C18a: a batch that repeats the present key 1 is rejected, nothing changes -/
theorem former_witness_batch_rejected :
    errOf (step (.batch [(1, 50, hh 5), (7, 51, hh 6)]) (runHist threeLeaves)).1 = some .err
      ∧ (step (.batch [(1, 50, hh 5), (7, 51, hh 6)]) (runHist threeLeaves)).2 = runHist threeLeaves
      ∧ checkIntegrity (runHist threeLeaves) = .ok := by
  decide +kernel

/-- former C18b: an upsert of key 1 to the leaf hash of key 2 is rejected, nothing changes -/
theorem former_witness_upsert_rejected :
    errOf (step (.ups 1 11 (hh 2)) (runHist threeLeaves)).1 = some .err
      ∧ (step (.ups 1 11 (hh 2)) (runHist threeLeaves)).2 = runHist threeLeaves
      ∧ (Blob.ofBytes (runHist threeLeaves).bytes).isSome = true := by
  decide +kernel

/-- former C18c: on the empty blob a batch whose two items share a key is rejected before its
first insert -/
theorem former_witness_failed_batch_unchanged :
    errOf (step (.batch [(1, 11, hh 1), (1, 12, hh 2)]) Blob.empty).1 = some .err
      ∧ (step (.batch [(1, 11, hh 1), (1, 12, hh 2)]) Blob.empty).2 = Blob.empty
      ∧ Tree.step (.batch [(1, 11, hh 1), (1, 12, hh 2)]) none = (false, none) := by
  decide +kernel

/-- an upsert that keeps the leaf's own hash is still accepted -/
example : errOf (step (.ups 1 99 (hh 1)) (runHist threeLeaves)).1 = none := by decide +kernel

/-! ## L2: the index-level model -/

/-- **Reload (bytes).**  When every block fits the byte format (32-byte hashes, u32 indexes, 64-bit
keys and values), serializing the blob and loading the bytes again (`MerkleBlob::new`) decodes exactly
the same blocks: the result is the cache rebuild (`BlockStatusCache::new`) on the same block list, and
whenever it succeeds the reloaded blob has the same blocks and the same bytes.
Partial: that the rebuilt caches equal the live ones up to free-list order, and that the rebuild
succeeds on every reachable state, is the open statement `ReloadCaches` (checked at run time on every
step of every history: observable `reload=same`). -/
theorem reload_partial (s : Blob) (h : ∀ b ∈ s.blocks, BlockOk b) :
    Blob.ofBytes s.bytes = ofBlocks s.blocks
      ∧ ∀ n, Blob.ofBytes s.bytes = some n → n.blocks = s.blocks ∧ n.bytes = s.bytes := by
  have e := ofBytes_bytes s h
  refine ⟨e, fun n hn => ?_⟩
  rw [e] at hn
  have hb : n.blocks = s.blocks := by
    unfold ofBlocks at hn
    split at hn
    split at hn
    · cases hn
    · split at hn
      · cases hn
      · injection hn with hn; rw [← hn]
  exact ⟨hb, by simp [Blob.bytes, hb]⟩

/-- `Block::from_bytes (Block::to_bytes b) = b` for every block the format can hold -/
theorem block_format_roundtrip (b : Block) (hb : BlockOk b) : decBlock (encBlock b) = some b :=
  decBlock_encBlock b hb

/-- non-vacuity: the blocks of the three-leaf blob fit the format -/
example : ∀ b ∈ (runHist threeLeaves).blocks, BlockOk b := by
  decide +kernel

/-- **A failed operation leaves the blob unchanged** (index-level model: `insert` at any location,
`upsert`, `delete`, `batch_insert`).  `LInv` is the local, decidable part of the invariant (free
indexes distinct and in range, parent pointers in range, root at index 0 without parent, every live
node's parent is a live internal node having it as a child, live internal nodes have two distinct live
children that point back to them, both caches hold exactly the live leaves, a parentless leaf is the
only leaf); the driver evaluates it after every step of every history.  Under it, once an operation
is past its checks none of its writes, index allocations, parent/child updates, tree walks or the
dirty-marking walk can fail, so an error can only come from a check that precedes the first
mutation; for `batch_insert` that check is the validation of the whole batch.
Not covered: `calculate_lazy_hashes`. -/
theorem fail_unchanged (op : Op) (s : Blob) (hinv : LInv s) (hh : op ≠ .hashes)
    (he : errOf (step op s).1 ≠ none) : (step op s).2 = s := by
  cases op with
  | ins k v h loc =>
    cases loc with
    | auto =>
      exact ((insert_keepOrOk hinv k v h .auto (fun _ _ e => by cases e)).discard).error_unchanged he
    | «at» ref side =>
      simp only [step] at he ⊢
      cases hr : refIndex s ref with
      | none => rfl
      | some idx =>
        rw [hr] at he
        simp only at he ⊢
        have hlive := (hinv.key_leaf (k := ref) hr).1
        exact ((insert_keepOrOk hinv k v h (.leaf idx side)
          (fun i sd e => by injection e with e1 _; rw [← e1]; exact hlive)).discard).error_unchanged he
  | ups k v h => exact (upsert_keepOrOk hinv k v h).error_unchanged he
  | del k => exact (delete_keepOrOk hinv k).error_unchanged he
  | batch l => exact (batchInsert_keepOrOk hinv l).error_unchanged he
  | hashes => exact absurd rfl hh

/-- non-vacuity: the local invariant holds on the three-leaf blob, and a failing operation exists -/
example : LInv (runHist threeLeaves) ∧ errOf (step (.ins 1 5 (hh 9) .auto) (runHist threeLeaves)).1 ≠ none := by
  decide +kernel

/-- **A batch that does not pass its validation leaves the blob unchanged** (any state): a key or
leaf hash of the batch that is already in the cache or repeated inside the batch makes
`batch_insert` return an error before anything is mutated. -/
theorem fail_unchanged_batch_validation (l : List KVH) (s : Blob) (h : batchValid s l [] [] = false) :
    step (.batch l) s = (.error .err, s) := by
  simp only [step, batchInsert, bind_run, M.get, h]
  rfl

/-- **A batch that passed its validation succeeds** on a locally well-formed blob: the two checked
inserts (with at most one leaf), the allocation of the leaves and of the pairing levels, the
breadth-first search for the minimum-height leaf and the attachment of the subtree cannot fail. -/
theorem batch_commit_succeeds (l : List KVH) (s : Blob) (hinv : LInv s) (hv : batchValid s l [] [] = true) :
    errOf (step (.batch l) s).1 = none := by
  obtain ⟨a, s', e, _⟩ := batchCommit_ok hinv l hv
  simp only [step, batchInsert, bind_run, M.get, hv, if_true, e]
  rfl

/-- **A validated `insert` succeeds** on a locally well-formed blob (the pseudo-random walk reaches a
live leaf because every node has exactly one parent and the root none) -/
theorem insert_succeeds (k : KeyId) (v : ValueId) (h : Hash) (s : Blob) (hinv : LInv s)
    (hk : mapGet s.k2i k = none) (hh : mapGet s.h2i h = none) :
    errOf (step (.ins k v h .auto) s).1 = none := by
  obtain ⟨a, s', e, _, _⟩ := insert_auto_ok hinv k v h hk hh
  simp only [step]
  show errOf ((insert k v h .auto >>= fun _ => pure ()) s).1 = none
  rw [bind_run, e]
  rfl

/-- **`insert` preserves the local invariant** (progress on `InvPreserved`): for an insert at the
automatic location or next to any reference key, successful or failed, the blob after the operation
satisfies `LInv` again — through `insert_first`, `insert_second` (blob rebuilt with three blocks) and
`insert_third_or_later` (two allocated indexes — reused free ones or appended —, the new leaf, the
new internal node, the re-parented old leaf, the patched old parent, the dirty-marked lineage). -/
theorem linv_preserved_insert (k : KeyId) (v : ValueId) (h : Hash) (loc : RefLoc) (s : Blob) (hinv : LInv s) :
    LInv (step (.ins k v h loc) s).2 := by
  cases loc with
  | auto =>
    simp only [step]
    rw [bind_pure_snd]
    exact insert_linv hinv k v h .auto (Or.inl rfl)
  | «at» ref side =>
    simp only [step]
    cases hr : refIndex s ref with
    | none => exact hinv
    | some idx =>
      simp only
      rw [bind_pure_snd]
      exact insert_linv hinv k v h (.leaf idx side) (Or.inr ⟨idx, side, rfl, (hinv.key_leaf (k := ref) hr).1⟩)

/-- **`upsert` preserves the local invariant** (progress on `InvPreserved`), whatever it returns -/
theorem linv_preserved_upsert (k : KeyId) (v : ValueId) (h : Hash) (s : Blob) (hinv : LInv s) :
    LInv (step (.ups k v h) s).2 := upsert_linv hinv k v h

/-- hence along any history of inserts and upserts from the empty blob the local invariant holds
(so that `fail_unchanged` applies at every step of such a history without a run-time check) -/
theorem inserts_upserts_history (ops : List Op)
    (hops : ∀ op ∈ ops, (∃ k v h loc, op = .ins k v h loc) ∨ (∃ k v h, op = .ups k v h)) :
    LInv (ops.foldl (fun s op => (step op s).2) Blob.empty) := by
  have hempty : LInv Blob.empty := by decide
  suffices ∀ (s : Blob), LInv s → LInv (ops.foldl (fun s op => (step op s).2) s) from this _ hempty
  induction ops with
  | nil => intro s hs; exact hs
  | cons op rest ih =>
    intro s hs
    simp only [List.foldl_cons]
    refine ih (fun op hop => hops op (List.mem_cons_of_mem _ hop)) _ ?_
    rcases hops op (by simp) with ⟨k, v, h, loc, e⟩ | ⟨k, v, h, e⟩
    · subst e; exact linv_preserved_insert k v h loc s hs
    · subst e; exact linv_preserved_upsert k v h s hs

/-! ## L2 → L1: the strengthened invariant, refinement of every operation, any history

The local invariant `LInv` is not inductive for `delete` (a locally consistent component detached
from the root is not excluded by local clauses).  The strengthened invariant adds the reachability
fact: there is ONE index-annotated tree `t` (`Blob.IT`) such that the blocks store `t` below index 0
(`Rep`: children pointers, parent pointers, clean leaves), every index below the blob's length is
either a node of `t` or on the free list, once, and the two caches hold exactly the leaves of `t`
(`Blob.Good`, `SInv`; `Lemmas/BlobRep.lean`).  It is decidable: `structOk` (Model/Blob.lean) reads
the candidate tree off the blocks and checks the clauses; the driver evaluates it after every step.
Stored hashes and dirty flags of internal nodes are deliberately not part of it (`SameShape`). -/

/-- the strengthened (structural) invariant -/
def SOk (s : Blob) : Prop := ∃ t : Option IT, SInv s t

/-- `structOk` decides it -/
theorem struct_ok_decides (s : Blob) : structOk s = true ↔ SOk s := structOk_iff s

theorem struct_ok_empty : structOk Blob.empty = true := by decide

/-- the strengthened invariant implies the local one -/
theorem struct_ok_linv (s : Blob) (h : structOk s = true) : LInv s := by
  obtain ⟨t, ht⟩ := (structOk_iff s).mp h
  cases t with
  | none => simp only [SInv] at ht; subst ht; decide
  | some t => exact Blob.Good.linv ht

/-- **`inv_preserved`: the strengthened invariant is inductive for EVERY operation** (insert at any
location, upsert, delete, batch insert, hash recomputation; successful or failed), and it implies
the local invariant. -/
theorem inv_preserved (op : Op) (s : Blob) (h : structOk s = true) :
    structOk (step op s).2 = true ∧ LInv (step op s).2 := by
  obtain ⟨t, ht⟩ := (structOk_iff s).mp h
  obtain ⟨t', ht', _, _⟩ := step_refines ht op
  have h' := (structOk_iff _).mpr ⟨t', ht'⟩
  exact ⟨h', struct_ok_linv _ h'⟩

/-- **`abs_commutes` (refinement L2 → L1):** on a state satisfying the invariant an operation
succeeds exactly when the tree-level operation does, and the abstraction of the new state is the
tree-level result — for every operation. -/
theorem abs_commutes (op : Op) (s : Blob) (t : Tree) (h : structOk s = true) (ha : abs s = some t) :
    (errOf (step op s).1 = none ↔ (Tree.step op t).1 = true) ∧ abs (step op s).2 = some (Tree.step op t).2 := by
  obtain ⟨it, ht⟩ := (structOk_iff s).mp h
  have e := ht.abs
  rw [ha] at e
  injection e with e
  subst e
  obtain ⟨t', ht', he, hsucc, _⟩ := step_refines ht op
  exact ⟨hsucc, by rw [ht'.abs, he]⟩

/-- the abstraction is defined on every state satisfying the invariant -/
theorem abs_defined (s : Blob) (h : structOk s = true) : ∃ t, abs s = some t := by
  obtain ⟨it, ht⟩ := (structOk_iff s).mp h
  exact ⟨_, ht.abs⟩

/-- **`integrity_of_inv`:** a state satisfying the invariant passes `check_integrity` (as is, and
again after `calculate_lazy_hashes` on the clone) -/
theorem integrity_of_inv (s : Blob) (h : structOk s = true) : checkIntegrity s = .ok := by
  obtain ⟨it, ht⟩ := (structOk_iff s).mp h
  exact checkIntegrity_good ht

/-- `calculate_lazy_hashes` cannot fail on a state satisfying the invariant, so that a failed
operation never changes the state (`fail_unchanged` covers the other operations) -/
theorem hashes_never_fails (s : Blob) (h : structOk s = true) : errOf (step .hashes s).1 = none := by
  have := (abs_commutes .hashes s _ h (abs_defined s h).choose_spec).1
  exact this.mpr rfl

theorem fail_unchanged_all (op : Op) (s : Blob) (h : structOk s = true) (hf : errOf (step op s).1 ≠ none) :
    (step op s).2 = s := by
  by_cases ho : op = .hashes
  · subst ho; exact absurd (hashes_never_fails s h) hf
  · exact fail_unchanged op s (struct_ok_linv s h) ho hf

/-- the state and the abstract tree / specification map after a history, from given starting points -/
theorem history_from (ops : List Op) :
    ∀ (s : Blob) (t : Tree) (m : Map), structOk s = true → abs s = some t →
    structOk (ops.foldl (fun s op => (step op s).2) s) = true
      ∧ abs (ops.foldl (fun s op => (step op s).2) s) = some (runBoth ops (t, m)).1 := by
  induction ops with
  | nil => intro s t m h ha; exact ⟨h, ha⟩
  | cons op rest ih =>
    intro s t m h ha
    simp only [List.foldl_cons, runBoth]
    exact ih _ _ _ (inv_preserved op s h).1 (abs_commutes op s t h ha).2

/-- **Any finite history on the block-array model, from the empty blob** (inserts at any location,
upserts, deletes, batch inserts, hash recomputations; successful or failed): the reached state
satisfies the strengthened and the local invariant, passes `check_integrity`, its abstraction is the
tree reached by the same history on the tree model, keys and leaf hashes are pairwise distinct, and
the key → value content equals that of a plain map subjected to the same successful operations. -/
theorem history_refinement_l2 (ops : List Op) :
    structOk (runHist ops) = true ∧ LInv (runHist ops) ∧ checkIntegrity (runHist ops) = .ok
      ∧ ∃ t, abs (runHist ops) = some t ∧ t = (runBoth ops (none, [])).1
        ∧ (Tree.keys t).Nodup ∧ (Tree.hashes t).Nodup
        ∧ ∀ k, Map.lookup (Tree.toMap t) k = Map.lookup (runBoth ops (none, [])).2 k := by
  obtain ⟨h1, h2⟩ := history_from ops Blob.empty none [] struct_ok_empty rfl
  obtain ⟨k1, k2, k3⟩ := history_refinement_empty ops
  exact ⟨h1, struct_ok_linv _ h1, integrity_of_inv _ h1, _, h2, rfl, k1, k2, k3⟩

/-- each operation of a history succeeds on the blob exactly when it succeeds on the tree model -/
theorem history_success_agrees (ops : List Op) (op : Op) :
    errOf (step op (runHist ops)).1 = none ↔ (Tree.step op (runBoth ops (none, [])).1).1 = true := by
  obtain ⟨h1, h2⟩ := history_from ops Blob.empty none [] struct_ok_empty rfl
  exact (abs_commutes op _ _ h1 h2).1

/-- **`hashes_commute`:** `calculate_lazy_hashes` on the blocks is `HT.recompute` on the abstraction
with stored hashes and dirty flags (so `root_hash` and `proof_valid_after_recompute` speak about the
blob whenever the stored hashes satisfy the hash invariant `Good`, which the driver evaluates as
`hashesOk` on every state) -/
theorem hashes_commute (s : Blob) (h : structOk s = true) :
    absH (calcLazyHashes s).2 = (absH s).map (Option.map HT.recompute) := by
  obtain ⟨it, ht⟩ := (structOk_iff s).mp h
  exact Blob.hashes_commute ht

/-- **`reload_caches`:** `MerkleBlob::new` on the blocks of a state satisfying the invariant rebuilds
the caches: the same key → index and leaf-hash → index content, the same free indexes up to order;
the reloaded state satisfies the invariant and has the same abstraction -/
theorem reload_caches (s : Blob) (h : structOk s = true) :
    ∃ n, ofBlocks s.blocks = some n ∧ n.blocks = s.blocks
      ∧ (∀ k, mapGet n.k2i k = mapGet s.k2i k) ∧ (∀ hh, mapGet n.h2i hh = mapGet s.h2i hh)
      ∧ n.free.Perm s.free ∧ structOk n = true ∧ abs n = abs s := by
  obtain ⟨it, ht⟩ := (structOk_iff s).mp h
  cases it with
  | none =>
    simp only [SInv] at ht
    subst ht
    exact ⟨Blob.empty, by decide, rfl, fun _ => rfl, fun _ => rfl, List.Perm.refl _, by decide, rfl⟩
  | some t =>
    have g : Blob.Good s t := ht
    obtain ⟨n, e, hb, gn, hf⟩ := ofBlocks_good g
    refine ⟨n, e, hb, ?_, ?_, hf, (structOk_iff n).mpr ⟨some t, gn⟩, by rw [gn.abs, g.abs]⟩
    · intro k
      exact mapGet_perm (gn.k2i.trans g.k2i.symm) gn.k2i_keys_nodup k
    · intro hh
      exact mapGet_perm (gn.h2i.trans g.h2i.symm) gn.h2i_keys_nodup hh

/-- **`reload`:** serializing a state satisfying the invariant and loading the bytes with
`MerkleBlob::new` yields the same blocks and bytes, caches with the same content, the same free
indexes up to order, the same abstraction, and again a state satisfying the invariant.  (`BlockOk`:
every field fits the byte format — indexes below 2^32, 32-byte hashes, 64-bit keys and values.) -/
theorem reload (s : Blob) (h : structOk s = true) (hb : ∀ b ∈ s.blocks, BlockOk b) :
    ∃ n, Blob.ofBytes s.bytes = some n ∧ n.blocks = s.blocks ∧ n.bytes = s.bytes
      ∧ (∀ k, mapGet n.k2i k = mapGet s.k2i k) ∧ (∀ hh, mapGet n.h2i hh = mapGet s.h2i hh)
      ∧ n.free.Perm s.free ∧ structOk n = true ∧ abs n = abs s := by
  obtain ⟨n, e, hbl, hk, hh, hf, hs, ha⟩ := reload_caches s h
  exact ⟨n, by rw [(reload_partial s hb).1, e], hbl, by simp [Blob.bytes, hbl], hk, hh, hf, hs, ha⟩

/-! ## The stored hashes -/

/-- **`hash_inv_preserved`:** the hash invariant (`hashesOk`: every clean internal node stores the
Merkle hash of its subtree and has only clean descendants) is preserved by every operation — marking
the lineage dirty suffices, and `calculate_lazy_hashes` re-establishes cleanliness. -/
theorem hash_inv_preserved (op : Op) (s : Blob) (h : structOk s = true) (hh : hashesOk s = true) :
    hashesOk (step op s).2 = true := by
  obtain ⟨t, ht⟩ := (structOk_iff s).mp h
  obtain ⟨t', ht', _, _, hl⟩ := step_refines ht op
  exact (hashesOk_iff ht').mpr (hl ((hashesOk_iff ht).mp hh))

/-- along any history from the empty blob the stored hashes satisfy the hash invariant -/
theorem history_hashes_ok (ops : List Op) : hashesOk (runHist ops) = true := by
  suffices ∀ (s : Blob), structOk s = true → hashesOk s = true →
      hashesOk (ops.foldl (fun s op => (step op s).2) s) = true from this _ struct_ok_empty (by decide)
  induction ops with
  | nil => intro s _ h; exact h
  | cons op rest ih =>
    intro s hs hh
    simp only [List.foldl_cons]
    exact ih _ (inv_preserved op s hs).1 (hash_inv_preserved op s hs hh)

/-- **Root hash and proofs at the end of any history.**  After any finite history from the empty
blob followed by `calculate_lazy_hashes`: the operation succeeds, the content is unchanged, every
node is clean, `get_root_hash` returns the Merkle root recomputed independently over the content,
and every key has an inclusion proof over the stored hashes that is valid and ends in that root. -/
theorem root_after_hashes (ops : List Op) (ht : HT) (ha : absH (runHist ops) = some (some ht)) :
    errOf (step .hashes (runHist ops)).1 = none
      ∧ absH (runHist (ops ++ [.hashes])) = some (some ht.recompute)
      ∧ abs (runHist (ops ++ [.hashes])) = abs (runHist ops)
      ∧ ht.recompute.allClean = true
      ∧ rootHash (runHist (ops ++ [.hashes])) = .ok (some ht.erase.merkle)
      ∧ ∀ k ∈ ht.erase.keys, ∃ p, ht.recompute.proofOf k = some p ∧ p.valid = true
          ∧ p.rootHash = ht.erase.merkle := by
  obtain ⟨hs, _⟩ := history_refinement_l2 ops
  have hok := history_hashes_ok ops
  have hrun : runHist (ops ++ [.hashes]) = (step .hashes (runHist ops)).2 := by
    simp [runHist, List.foldl_append]
  have hstep : (step .hashes (runHist ops)).2 = (calcLazyHashes (runHist ops)).2 := rfl
  have hcomm := hashes_commute (runHist ops) hs
  rw [ha] at hcomm
  simp only [Option.map_some] at hcomm
  -- the hash invariant on the tree with stored hashes
  have hgood : Good ht := by
    have : (ht.check).isSome = true := by
      have := hok
      unfold hashesOk at this
      rw [ha] at this
      exact this
    cases hc : ht.check with
    | none => rw [hc] at this; cases this
    | some m => exact (check_good ht m hc).1
  obtain ⟨hroot, herase, hclean, hg'⟩ := root_hash ht hgood
  have hs' := (inv_preserved .hashes (runHist ops) hs).1
  obtain ⟨it, hit⟩ := (structOk_iff _).mp hs'
  refine ⟨hashes_never_fails _ hs, by rw [hrun, hstep, hcomm], ?_, hclean, ?_, ?_⟩
  · rw [hrun]
    obtain ⟨t0, ht0⟩ := abs_defined _ hs
    rw [(abs_commutes .hashes _ t0 hs ht0).2, ht0]; rfl
  · rw [hrun, hstep]
    cases it with
    | none =>
      simp only [SInv] at hit
      rw [hstep] at hit
      rw [hit] at hcomm
      have : absH Blob.empty = some none := rfl
      rw [this] at hcomm
      cases hcomm
    | some t =>
      have g : Blob.Good _ t := hit
      rw [hstep] at g
      have e := g.absH
      rw [hcomm] at e
      injection e with e; injection e with e
      have hrc : (t.toHT (calcLazyHashes (runHist ops)).2.blocks).rootClean = true := by
        rw [← e]
        cases hr : ht.recompute with
        | leaf _ _ _ => rfl
        | node h d l r => rw [hr] at hclean; simp [HT.allClean] at hclean; simp [HT.rootClean, hclean.1.1]
      rw [g.rootHash hrc, ← e, hroot]
  · intro k hk
    obtain ⟨p, hp, hv, hr, hm⟩ := proof_valid_after_recompute ht hgood k hk
    exact ⟨p, hp, hv, by rw [hr, hm]⟩

/-- **`proof_commutes`:** when every node is clean, `get_proof_of_inclusion` on the blocks (walking
the parent pointers up from the leaf) returns exactly the proof read off the abstraction -/
theorem proof_commutes (s : Blob) (ht : HT) (k : KeyId) (h : structOk s = true)
    (ha : absH s = some (some ht)) (hc : ht.allClean = true) (hk : k ∈ ht.erase.keys) :
    ∃ p, proofOfInclusion s k = .ok p ∧ ht.proofOf k = some p := by
  obtain ⟨it, hit⟩ := (structOk_iff s).mp h
  cases it with
  | none =>
    simp only [SInv] at hit
    subst hit
    have : absH Blob.empty = some none := rfl
    rw [this] at ha; cases ha
  | some t =>
    have g : Blob.Good s t := hit
    have e := g.absH
    rw [ha] at e
    injection e with e; injection e with e
    subst e
    exact Blob.proof_commutes g hc k (by rw [← IT.toHT_erase s.blocks t]; exact hk)

/-- **The blob as an authenticated map, end to end.**  After any finite history from the empty blob
followed by `calculate_lazy_hashes`, for every key of the content `get_proof_of_inclusion` succeeds
and its proof is valid (`ProofOfInclusion::valid`) and ends in the hash `get_root_hash` returns,
which is the Merkle root recomputed independently over the content. -/
theorem authenticated_map (ops : List Op) (t : T) (ha : abs (runHist ops) = some (some t)) :
    rootHash (runHist (ops ++ [.hashes])) = .ok (some t.merkle)
      ∧ abs (runHist (ops ++ [.hashes])) = some (some t)
      ∧ ∀ k ∈ t.keys, ∃ p, proofOfInclusion (runHist (ops ++ [.hashes])) k = .ok p ∧ p.valid = true
          ∧ p.rootHash = t.merkle := by
  -- the abstraction with hashes before the recomputation
  obtain ⟨ht, hht, hte⟩ : ∃ ht, absH (runHist ops) = some (some ht) ∧ ht.erase = t := by
    unfold abs at ha
    cases hh : absH (runHist ops) with
    | none => rw [hh] at ha; cases ha
    | some o =>
      cases o with
      | none => rw [hh] at ha; cases ha
      | some ht =>
        rw [hh] at ha
        simp only [Option.some.injEq] at ha
        exact ⟨ht, rfl, ha⟩
  obtain ⟨_, h2, h3, h4, h5, h6⟩ := root_after_hashes ops ht hht
  have hs : structOk (runHist (ops ++ [.hashes])) = true := (history_refinement_l2 _).1
  rw [hte] at h5 h6
  refine ⟨h5, by rw [h3, ha], ?_⟩
  intro k hk
  obtain ⟨p, hp, hv, hr⟩ := h6 k hk
  have hre : ∀ x : HT, x.recompute.erase = x.erase := by
    intro x
    induction x with
    | leaf _ _ _ => rfl
    | node h d l r ihl ihr =>
      cases d with
      | true => simp [HT.recompute, HT.erase, ihl, ihr]
      | false => simp [HT.recompute]
  have herase : ht.recompute.erase = t := by rw [hre, hte]
  obtain ⟨q, hq1, hq2⟩ := proof_commutes _ ht.recompute k hs h2 h4 (by rw [herase]; exact hk)
  rw [hp] at hq2
  injection hq2 with hq2
  subst hq2
  exact ⟨p, hq1, hv, hr⟩

end ChiaModel.C18
