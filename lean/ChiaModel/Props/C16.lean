import ChiaModel.Lemmas.Keys
/-
C16 — key and signature encodings round-trip and derivations commute.
Property theorems only (helper lemmas: Lemmas/Keys.lean).  They are about the executable definitions
of Model/Keys.lean, which the driver (Drv/C16.lean) runs against the real code.

Scope.  /repo's part of this property is byte and integer logic around blst: flag-bit rules, the
checked/unchecked split, hash-input layout and endianness of the two `derive_unhardened`
implementations, `mod_by_group_order`, `synthetic_offset`.  These are proved here for all inputs.
The group-level statements (`derive_commutes`, `synthetic_commutes`, `add_hom`) are statements about
the **scalar model**: a G1 element is represented by its discrete logarithm (`pk ≅ sk mod r`), so
"taking the public key" is `pkOf` and the group law is addition mod `r`.  That blst's G1 realises
this group law (its generator has prime order `r`, `blst_p1_mult` multiplies by the integer it is
given) and that its point codec satisfies `G1Codec`/`G2Codec` is the TRUSTED BASE of C16: restated as
explicit hypotheses, exercised against real blst on every run, never proved.
-/
namespace ChiaModel.C16
open ChiaModel ChiaModel.Keys

/-! ## endianness: the two `derive_unhardened` implementations use the same integer -/

/-- **Endianness.**  `PublicKey::derive_unhardened` reads the digest little-endian into a scalar
(`blst_scalar_from_lendian`), writes that scalar big-endian (`blst_bendian_from_scalar`) and hands the
bytes to `blst_p1_mult`, which reads its scalar little-endian again.  The integer the generator is
multiplied by is therefore the BIG-endian value of the digest — the integer
`SecretKey::derive_unhardened` adds (`blst_scalar_from_be_bytes`, before reduction mod `r`).
(DESIGN form: `leToNat (beBytes 32 (leToNat d)) = beToNat d`.) -/
theorem endianness (d : Bytes) (hl : d.length = 32) (hb : isBytes d) :
    leVal (be 32 (leVal d)) = beVal d
    ∧ multScalar (bendianFromScalar (scalarFromLendian d)) = beVal d := by
  have h1 : be 32 (leVal d) = d.reverse := by
    unfold leVal
    exact be_beVal' 32 d.reverse (by simp [hl]) (isBytes_reverse hb)
  have h2 : leVal d.reverse = beVal d := by simp [leVal]
  refine ⟨by rw [h1, h2], ?_⟩
  unfold multScalar bendianFromScalar scalarFromLendian
  rw [h1, List.take_of_length_le (by simp [hl]), h2]

/-- … in particular for every SHA-256 digest, whatever was hashed -/
theorem endianness_digest (m : Bytes) :
    multScalar (bendianFromScalar (scalarFromLendian (sha256 m))) = beVal (sha256 m) :=
  (endianness _ (sha256_length m) (sha256_isBytes m)).2

/-! ## derivations commute with taking the public key (scalar model) -/

/-- **Unhardened derivation commutes with taking the public key** (scalar model, any encoding
function `enc` of public keys, any secret scalar, any index): the public key of the derived secret
key is the key derived from the public key.  Both hash `enc(pk) ‖ idx_be`; the secret-key route adds
`beVal(digest) mod r`, the public-key route adds `g · beVal(digest)` (`endianness`). -/
theorem derive_commutes (enc : Nat → Bytes) (sk idx : Nat) :
    pkOf (deriveSk enc sk idx) = derivePk enc (pkOf sk) idx := by
  unfold deriveSk derivePk
  simp only [endianness_digest]
  unfold pkOf skAdd gAdd gMul scalarFromBeBytes gen
  exact add_mod_mod _ _ _

/-- the derived secret key is again a scalar below `r` -/
theorem deriveSk_lt (enc : Nat → Bytes) (sk idx : Nat) : deriveSk enc sk idx < r :=
  Nat.mod_lt _ (by decide)

/-- **… along every path** (`derive_path_unhardened`, hence `master_to_wallet_unhardened` and
`master_to_wallet_unhardened_intermediate`), by induction on the path -/
theorem derive_path_commutes (enc : Nat → Bytes) (sk : Nat) (path : List Nat) :
    pkOf (derivePathSk enc sk path) = derivePathPk enc (pkOf sk) path := by
  unfold derivePathSk derivePathPk
  induction path generalizing sk with
  | nil => rfl
  | cons i rest ih =>
    simp only [List.foldl_cons]
    rw [ih, derive_commutes]

/-- `master_to_wallet_unhardened(key, idx)` commutes with taking the public key -/
theorem wallet_commutes (enc : Nat → Bytes) (sk idx : Nat) :
    pkOf (derivePathSk enc sk (walletPath idx)) = derivePathPk enc (pkOf sk) (walletPath idx)
    ∧ pkOf (derivePathSk enc sk walletIntermediatePath) = derivePathPk enc (pkOf sk) walletIntermediatePath :=
  ⟨derive_path_commutes _ _ _, derive_path_commutes _ _ _⟩

/-- **Adding secret keys commutes with adding public keys** (scalar model) -/
theorem add_hom (a b : Nat) : pkOf (skAdd a b) = gAdd (pkOf a) (pkOf b) := by
  unfold pkOf skAdd gAdd
  exact mod_add_hom a b r

/-! ## `mod_by_group_order` -/

theorem groupOrderBytes_val : intOfBytes groupOrderBytes = (r : Int) := by decide +kernel

theorem r_lt : r < 256 ^ 32 := by decide

/-- **`mod_by_group_order`, every input length.**  The result is the 32-byte big-endian encoding of
the mathematical (non-negative) remainder of the SIGNED big-endian value of the input modulo `r`; it
is 32 bytes long and its value is below `r`.  (Rust's `%` truncates towards zero; `((v % r) + r) % r`
repairs the sign; `to_bytes_be` yields a minimal string — `00` for zero — which the code left-pads.) -/
theorem modByGroupOrder_spec (b : Bytes) :
    modByGroupOrder b = be 32 ((intOfBytes b) % (r : Int)).toNat
    ∧ (modByGroupOrder b).length = 32
    ∧ beVal (modByGroupOrder b) = ((intOfBytes b) % (r : Int)).toNat
    ∧ beVal (modByGroupOrder b) < r := by
  have hrpos : (0 : Int) < (r : Int) := by decide
  have hm0 : 0 ≤ (intOfBytes b) % (r : Int) := Int.emod_nonneg _ (by decide)
  have hmlt : ((intOfBytes b) % (r : Int)).toNat < r := by
    have := Int.emod_lt_of_pos (intOfBytes b) hrpos
    omega
  have key : modByGroupOrder b = be 32 ((intOfBytes b) % (r : Int)).toNat := by
    unfold modByGroupOrder
    simp only [groupOrderBytes_val, tmod_add_tmod _ _ hrpos]
    generalize ((intOfBytes b) % (r : Int)).toNat = m
    unfold toBytesBe
    have hpad := pad_dropWhile (be 32 m)
    have hle := dropWhile_length_le (be 32 m)
    rw [be_length] at hpad hle
    by_cases he : ((be 32 m).dropWhile (fun x => x == 0)).isEmpty = true
    · have hnil : (be 32 m).dropWhile (fun x => x == 0) = [] := List.isEmpty_iff.mp he
      rw [hnil] at hpad
      simp only [hnil, List.isEmpty_nil, if_true, List.length_cons, List.length_nil]
      rw [← hpad]
      decide
    · simp only [he]
      simp only [Bool.false_eq_true, if_false]
      split
      · exact hpad
      · rename_i hlen
        have : ((be 32 m).dropWhile (fun x => x == 0)).length = 32 := by omega
        rw [this] at hpad
        simpa using hpad
  refine ⟨key, by rw [key, be_length], ?_, ?_⟩
  · rw [key, beVal_be _ _ (Nat.lt_trans hmlt r_lt)]
  · rw [key, beVal_be _ _ (Nat.lt_trans hmlt r_lt)]; exact hmlt

/-! ## synthetic keys -/

/-- `synthetic_offset` never panics: `mod_by_group_order` always yields a string
`SecretKey::from_bytes` accepts, and the offset is the digest's signed value mod `r`. -/
theorem synthetic_offset_total (pkb hph : Bytes) :
    syntheticOffset pkb hph = some ((intOfBytes (sha256 (pkb ++ hph))) % (r : Int)).toNat := by
  unfold syntheticOffset skFromBytes
  obtain ⟨hk, _, hv, hlt⟩ := modByGroupOrder_spec (sha256 (pkb ++ hph))
  by_cases hz : isAllZero (modByGroupOrder (sha256 (pkb ++ hph))) = true
  · rw [if_pos hz, ← hv, beVal_of_isAllZero hz]
  · rw [if_neg hz]
    have hpos : 0 < beVal (modByGroupOrder (sha256 (pkb ++ hph))) := by
      apply Nat.pos_of_ne_zero
      intro h0
      apply hz
      rw [hk, ← hv, h0, be_zero_val]
      exact isAllZero_replicate 32
    have : skCheck (beVal (modByGroupOrder (sha256 (pkb ++ hph)))) = true := by
      simp [skCheck, hpos, hlt]
    rw [if_pos this, hv]

/-- **Deriving a synthetic key commutes with taking the public key** (scalar model): the public key
of the synthetic secret key is the synthetic public key, for every hidden puzzle hash. -/
theorem synthetic_commutes (enc : Nat → Bytes) (sk : Nat) (hph : Bytes) :
    (synthSk enc sk hph).map pkOf = synthPk enc (pkOf sk) hph := by
  unfold synthSk synthPk
  cases syntheticOffset (enc (pkOf sk)) hph with
  | none => rfl
  | some off =>
    simp only [Option.map_some]
    rw [add_hom]

/-- … and neither route can fail -/
theorem synthetic_total (enc : Nat → Bytes) (sk : Nat) (hph : Bytes) :
    (synthSk enc sk hph).isSome = true ∧ (synthPk enc (pkOf sk) hph).isSome = true := by
  unfold synthSk synthPk
  rw [synthetic_offset_total]
  exact ⟨rfl, rfl⟩

/-! ## secret keys: round trip, unique encoding -/

/-- **Secret keys.**  `from_bytes` accepts a 32-byte string exactly when its big-endian value is
below `r` (zero included, as coded); an accepted string re-serialises to itself; every scalar below
`r` survives `to_bytes`/`from_bytes`; hence the encoding is unique. -/
theorem sk_roundtrip :
    (∀ b : Bytes, b.length = 32 → isBytes b →
      ((skFromBytes b).isSome = true ↔ beVal b < r)
      ∧ ∀ s, skFromBytes b = some s → s = beVal b ∧ skToBytes s = b)
    ∧ (∀ s, s < r → skFromBytes (skToBytes s) = some s)
    ∧ (∀ s t, s < r → t < r → skToBytes s = skToBytes t → s = t) := by
  have hacc : ∀ b : Bytes, ∀ s, skFromBytes b = some s → s = beVal b ∧ beVal b < r := by
    intro b s h
    unfold skFromBytes at h
    by_cases hz : isAllZero b = true
    · rw [if_pos hz] at h
      have := beVal_of_isAllZero hz
      cases h
      exact ⟨this.symm, by rw [this]; decide⟩
    · rw [if_neg hz] at h
      by_cases hc : skCheck (beVal b) = true
      · rw [if_pos hc] at h
        cases h
        simp [skCheck] at hc
        exact ⟨rfl, hc.2⟩
      · rw [if_neg hc] at h; cases h
  have hfwd : ∀ s, s < r → skFromBytes (skToBytes s) = some s := by
    intro s hs
    have hv : beVal (skToBytes s) = s := beVal_be _ _ (Nat.lt_trans hs r_lt)
    unfold skFromBytes
    by_cases hz : isAllZero (skToBytes s) = true
    · rw [if_pos hz, ← hv, beVal_of_isAllZero hz]
    · rw [if_neg hz]
      have hpos : 0 < s := by
        apply Nat.pos_of_ne_zero
        intro h0
        apply hz
        rw [h0]; unfold skToBytes; rw [be_zero_val]; exact isAllZero_replicate 32
      have : skCheck (beVal (skToBytes s)) = true := by simp [skCheck, hv, hpos, hs]
      rw [if_pos this, hv]
  refine ⟨?_, hfwd, ?_⟩
  · intro b hl hb
    refine ⟨⟨?_, ?_⟩, ?_⟩
    · intro h
      obtain ⟨s, hs⟩ := Option.isSome_iff_exists.mp h
      exact (hacc b s hs).2
    · intro h
      have := hfwd (beVal b) h
      unfold skToBytes at this
      rw [be_beVal' 32 b hl hb] at this
      rw [this]; rfl
    · intro s hs
      obtain ⟨h1, _⟩ := hacc b s hs
      refine ⟨h1, ?_⟩
      rw [h1]; exact be_beVal' 32 b hl hb
  · intro s t hs ht h
    have h1 := hfwd s hs
    rw [h, hfwd t ht] at h1
    cases h1; rfl

/-! ## flag bits -/

/-- **Flag-bit table of `PublicKey::from_bytes_unchecked`** — all 256 first bytes × tail zero/non-zero
(`decide`).  On the three flag bits and the two zero tests the code implements exactly `g1Table`:
compression bit clear → reject; infinity bit set → only `c0 00 … 00` is accepted (as the point at
infinity, without consulting blst); infinity bit clear → reject when `bytes[1..]` is all zero,
otherwise blst decides. -/
theorem flag_bits_table :
    ∀ b0 < 256, ∀ z : Bool,
      (g1FlagsCore b0 z).cls = g1Table (bitC b0) (bitI b0) (bitS b0) (low5Zero b0) z := by
  decide +kernel

/-- the error kinds of the rejected classes: both flag bits set → `G1NotCanonical`; compression bit
clear → `G1InfinityInvalidBits`; compressed, not infinity, zero tail → `G1InfinityNotZero` -/
theorem flag_bits_errors :
    ∀ b0 < 256, ∀ z : Bool,
      g1FlagsCore b0 z =
        (if bitC b0 && bitI b0 then (if b0 = 0xc0 ∧ z = true then .inf else .err .notCanonical)
         else if !bitC b0 then .err .infinityInvalidBits
         else if z then .err .infinityNotZero else .blst) := by
  decide +kernel

/-- **/repo's G1 table against the format table.**  The code agrees with the ZCash format table on
every class except one, where it only rejects MORE: compression bit set, infinity bit clear, the low
five bits of the first byte non-zero and `bytes[1..]` all zero (x = k·2^376 ≠ 0, which the format
would hand to blst; the code answers `G1InfinityNotZero`).  62 encodings fall in that class; the
harness asks blst about each of them on every run: several are on the curve, none is in the
subgroup, so checked parsing is unaffected (hypothesis `no_short_x` of `G1Codec` below). -/
theorem flag_bits_vs_format :
    ∀ b0 < 256, ∀ z : Bool,
      (g1FlagsCore b0 z).cls = formatSpec (bitC b0) (bitI b0) (bitS b0) (low5Zero b0) z
      ∨ ((g1FlagsCore b0 z).cls = .reject
          ∧ formatSpec (bitC b0) (bitI b0) (bitS b0) (low5Zero b0) z = .blst
          ∧ bitC b0 = true ∧ bitI b0 = false ∧ low5Zero b0 = false ∧ z = true) := by
  decide +kernel

/-- the same on byte strings -/
theorem flag_bits_bytes (b : Bytes) (hb : isBytes b) (hne : b ≠ []) :
    (g1Flags b).cls = formatClass b
    ∨ ((g1Flags b).cls = .reject ∧ formatClass b = .blst ∧ isAllZero (b.drop 1) = true) := by
  cases b with
  | nil => exact absurd rfl hne
  | cons x t =>
    have hx : x < 256 := hb x (by simp)
    rcases flag_bits_vs_format x hx (isAllZero t) with h | ⟨h1, h2, _, _, _, h6⟩
    · exact Or.inl h
    · exact Or.inr ⟨h1, h2, h6⟩

/-- `Signature::from_bytes_unchecked` applies no rule of its own: every 96-byte string goes to
`blst_p2_uncompress` (so the format table is blst's obligation there: `G2Codec.format`) -/
theorem flag_bits_g2 (b : Bytes) : g2Flags b = .blst := rfl

/-! ## checked ⊆ unchecked -/

variable {P : Type}

/-- **Checked parsing = unchecked parsing ∧ validity; unchecked accepts a superset** — for G1 and
G2, for the raw functions and for `Streamable::parse::<TRUSTED>` (trusted = unchecked), with any
behaviour of blst. -/
theorem checked_subset_unchecked (B : Blst P) (b : Bytes) (x : P) :
    (g1FromBytes B b = some x ↔ g1FromBytesUnchecked B b = some x ∧ B.isValid x = true)
    ∧ (g2FromBytes B b = some x ↔ g2FromBytesUnchecked B b = some x ∧ B.isValid x = true)
    ∧ (g1Parse B false b = some x → g1Parse B true b = some x)
    ∧ (g2Parse B false b = some x → g2Parse B true b = some x) := by
  have h1 : g1FromBytes B b = some x ↔ g1FromBytesUnchecked B b = some x ∧ B.isValid x = true := by
    unfold g1FromBytes
    cases g1FromBytesUnchecked B b with
    | none => simp
    | some y =>
      by_cases hv : B.isValid y = true
      · simp only [hv, if_true, Option.some.injEq]
        constructor
        · intro h; subst h; exact ⟨rfl, hv⟩
        · intro h; exact h.1
      · simp only [hv]
        constructor
        · intro h; cases h
        · intro h; cases h.1; exact absurd h.2 hv
  have h2 : g2FromBytes B b = some x ↔ g2FromBytesUnchecked B b = some x ∧ B.isValid x = true := by
    unfold g2FromBytes
    cases g2FromBytesUnchecked B b with
    | none => simp
    | some y =>
      by_cases hv : B.isValid y = true
      · simp only [hv, if_true, Option.some.injEq]
        constructor
        · intro h; subst h; exact ⟨rfl, hv⟩
        · intro h; exact h.1
      · simp only [hv]
        constructor
        · intro h; cases h
        · intro h; cases h.1; exact absurd h.2 hv
  refine ⟨h1, h2, ?_, ?_⟩
  · intro h; exact (h1.mp h).1
  · intro h; exact (h2.mp h).1

/-- checked parsing never yields a point that fails the subgroup test, and rejects whenever the
unchecked parser does -/
theorem checked_rejects (B : Blst P) (b : Bytes) :
    (g1FromBytesUnchecked B b = none → g1FromBytes B b = none)
    ∧ (∀ y, g1FromBytesUnchecked B b = some y → B.isValid y = false → g1FromBytes B b = none)
    ∧ (g2FromBytesUnchecked B b = none → g2FromBytes B b = none)
    ∧ (∀ y, g2FromBytesUnchecked B b = some y → B.isValid y = false → g2FromBytes B b = none) := by
  refine ⟨?_, ?_, ?_, ?_⟩
  · intro h; unfold g1FromBytes; rw [h]
  · intro y h hv; unfold g1FromBytes; rw [h]; simp [hv]
  · intro h; unfold g2FromBytes; rw [h]
  · intro y h hv; unfold g2FromBytes; rw [h]; simp [hv]

/-! ## round trip under blst's codec contract -/

/-- **ASSUMPTION (blst's contract for G1, restated — not proved).**  What `blst_p1_uncompress`,
`blst_p1_compress`, `blst_p1_is_inf`/`blst_p1_in_g1` have to satisfy for /repo's wrappers to
round-trip.  Every clause is monitored on each run against real blst (harness: raw FFI calls). -/
structure G1Codec (B : Blst P) : Prop where
  /-- compress ∘ uncompress = id on accepted inputs (an accepted string is THE encoding of its point) -/
  compress_uncompress : ∀ b x, B.uncompress b = some x → B.compress x = b
  /-- uncompress ∘ compress = id on valid finite points -/
  uncompress_compress : ∀ x, B.isValid x = true → x ≠ B.inf → B.uncompress (B.compress x) = some x
  /-- the point at infinity compresses to `c0 00 … 00` and counts as valid -/
  compress_inf : B.compress B.inf = infBytes 48
  inf_valid : B.isValid B.inf = true
  /-- a finite point compresses with compression bit set and infinity bit clear -/
  compress_flags : ∀ x, x ≠ B.inf → (B.compress x).headD 0 &&& 0xc0 = 0x80
  /-- arithmetic fact about BLS12-381 that /repo's zero test relies on (`flag_bits_vs_format`): no
  valid finite point has an x-coordinate whose low 47 bytes are all zero -/
  no_short_x : ∀ x, B.isValid x = true → x ≠ B.inf → isAllZero ((B.compress x).drop 1) = false

/-- **ASSUMPTION (blst's contract for G2, restated — not proved).**  `Signature` has no logic of its
own, so the whole format table is blst's. -/
structure G2Codec (B : Blst P) : Prop where
  compress_uncompress : ∀ b x, B.uncompress b = some x → B.compress x = b
  uncompress_compress : ∀ x, B.isValid x = true → B.uncompress (B.compress x) = some x
  /-- `blst_p2_uncompress` rejects what the format table rejects -/
  format : ∀ b, formatClass b = .reject → B.uncompress b = none

theorem g1Flags_inf {b : Bytes} (hl : b.length = 48) (h : g1Flags b = .inf) : b = infBytes 48 := by
  cases b with
  | nil => simp at hl
  | cons x t =>
    unfold g1Flags g1FlagsCore at h
    simp only [List.headD_cons, List.drop_succ_cons, List.drop_zero] at h
    split at h
    · split at h
      · cases h
      · rename_i h2
        have hx : x = 0xc0 := by
          rcases Nat.lt_or_ge x 0 with _ | _ <;> simp_all
        have hz : isAllZero t = true := by
          cases hh : isAllZero t <;> simp_all
        have ht : t.length = 47 := by simpa using hl
        rw [hx, isAllZero_eq_replicate hz, ht]; rfl
    · split at h
      · cases h
      · split at h <;> cases h

/-- **Round trip and unique encoding for public keys, under `G1Codec`.**
(1) an encoding accepted by `from_bytes_unchecked` — a fortiori by `from_bytes` — re-serialises to
itself, so two accepted encodings of one point are equal;
(2) every valid point survives `to_bytes` / `from_bytes`. -/
theorem roundtrip_under_codec (B : Blst P) (hc : G1Codec B) :
    (∀ b x, b.length = 48 → g1FromBytesUnchecked B b = some x → toBytes B x = b)
    ∧ (∀ b x, b.length = 48 → g1FromBytes B b = some x → toBytes B x = b)
    ∧ (∀ b b' x, b.length = 48 → b'.length = 48 → g1FromBytes B b = some x → g1FromBytes B b' = some x → b = b')
    ∧ (∀ x, B.isValid x = true → g1FromBytes B (toBytes B x) = some x) := by
  have hun : ∀ b x, b.length = 48 → g1FromBytesUnchecked B b = some x → toBytes B x = b := by
    intro b x hl h
    unfold g1FromBytesUnchecked at h
    unfold toBytes
    cases hf : g1Flags b with
    | inf =>
      rw [hf] at h
      cases h
      rw [hc.compress_inf, g1Flags_inf hl hf]
    | err e => rw [hf] at h; cases h
    | blst => rw [hf] at h; exact hc.compress_uncompress b x h
  have hck : ∀ b x, b.length = 48 → g1FromBytes B b = some x → toBytes B x = b :=
    fun b x hl h => hun b x hl ((checked_subset_unchecked B b x).1.mp h).1
  refine ⟨hun, hck, ?_, ?_⟩
  · intro b b' x hl hl' h h'
    rw [← hck b x hl h, ← hck b' x hl' h']
  · intro x hv
    unfold toBytes
    rw [(checked_subset_unchecked B _ x).1]
    refine ⟨?_, hv⟩
    unfold g1FromBytesUnchecked
    by_cases hx : x = B.inf
    · subst hx
      rw [hc.compress_inf]
      have : g1Flags (infBytes 48) = .inf := by decide
      rw [this]
    · have h1 := hc.compress_flags x hx
      have h2 := hc.no_short_x x hv hx
      have : g1Flags (B.compress x) = .blst := by
        unfold g1Flags g1FlagsCore
        rw [h1, h2]
        simp
      rw [this]
      exact hc.uncompress_compress x hv hx

/-- **Round trip and unique encoding for signatures, under `G2Codec`**; and nothing the format
table rejects is accepted. -/
theorem roundtrip_under_codec_g2 (B : Blst P) (hc : G2Codec B) :
    (∀ b x, g2FromBytesUnchecked B b = some x → toBytes B x = b)
    ∧ (∀ b b' x, g2FromBytes B b = some x → g2FromBytes B b' = some x → b = b')
    ∧ (∀ x, B.isValid x = true → g2FromBytes B (toBytes B x) = some x)
    ∧ (∀ b, formatClass b = .reject → g2FromBytesUnchecked B b = none ∧ g2FromBytes B b = none) := by
  have hun : ∀ b x, g2FromBytesUnchecked B b = some x → toBytes B x = b :=
    fun b x h => hc.compress_uncompress b x h
  refine ⟨hun, ?_, ?_, ?_⟩
  · intro b b' x h h'
    rw [← hun b x ((checked_subset_unchecked B b x).2.1.mp h).1,
      ← hun b' x ((checked_subset_unchecked B b' x).2.1.mp h').1]
  · intro x hv
    rw [(checked_subset_unchecked B _ x).2.1]
    exact ⟨hc.uncompress_compress x hv, hv⟩
  · intro b hb
    have : g2FromBytesUnchecked B b = none := hc.format b hb
    exact ⟨this, (checked_rejects B b).2.2.1 this⟩

/-- non-vacuity of `G1Codec`/`G2Codec`: a two-point toy codec (infinity and one finite point)
satisfies every clause -/
def toyPoint : Bytes := 0x80 :: (List.replicate 46 0 ++ [1])

def toyBlst (n : Nat) (pt : Bytes) : Blst Bool :=
  { uncompress := fun b => if b = pt then some true else if b = infBytes n then some false else none,
    compress := fun x => if x then pt else infBytes n,
    inf := false,
    isValid := fun _ => true }

example : G1Codec (toyBlst 48 toyPoint) := by
  refine ⟨?_, ?_, rfl, rfl, ?_, ?_⟩
  · intro b x h
    simp only [toyBlst] at h ⊢
    split at h
    · cases h; simp_all
    · split at h
      · cases h; simp_all
      · cases h
  · intro x _ hx
    cases x with
    | false => exact absurd rfl hx
    | true => simp [toyBlst]
  · intro x hx
    cases x with
    | false => exact absurd rfl hx
    | true => decide
  · intro x _ hx
    cases x with
    | false => exact absurd rfl hx
    | true => decide

example : G2Codec (toyBlst 96 (0x80 :: (List.replicate 94 0 ++ [1]))) := by
  refine ⟨?_, ?_, ?_⟩
  · intro b x h
    simp only [toyBlst] at h ⊢
    split at h
    · cases h; simp_all
    · split at h
      · cases h; simp_all
      · cases h
  · intro x _
    cases x with
    | false => decide
    | true => decide
  · intro b hb
    simp only [toyBlst]
    split
    · rename_i h; subst h; revert hb; decide
    · split
      · rename_i h; subst h; revert hb; decide
      · rfl

/-- the oracle instance the driver runs (`oracleBlst`: blst's two answers for the encoding on the
case line) satisfies the unique-encoding clause by construction — so what the driver prints for an
accepted encoding (the input itself) is exactly what `roundtrip_under_codec` prescribes, and the
model's checked verdict is `unchecked ∧ v` (`checked_subset_unchecked`). -/
theorem oracle_unique_encoding (n : Nat) (b : Bytes) (u v : Bool) (b' : Bytes) (x : OPoint) :
    (oracleBlst n b u v).uncompress b' = some x → (oracleBlst n b u v).compress x = b' := by
  intro h
  simp only [oracleBlst] at h ⊢
  split at h
  · rename_i hc
    cases h
    exact hc.1.symm
  · cases h

/-- **Pairing elements.**  `GTElement::from_bytes`/`to_bytes` are raw copies: every 576-byte string
is accepted and re-serialises to itself, every element survives the round trip; equality of elements
is equality of these bytes, so the encoding is unique.  (There is no checked parse for GT: membership
in the target group is not tested by /repo.) -/
theorem gt_roundtrip (b : Bytes) : gtToBytes (gtFromBytes b) = b ∧ gtFromBytes (gtToBytes b) = b :=
  ⟨rfl, rfl⟩

/-! ## signing -/

/-- **Signing is deterministic**: in the ideal BLS of C15 the signature is the closed form
`sk · H(pk ‖ msg)` — a function of the key, its encoding and the message, with no other input. -/
theorem sign_deterministic (sk : Nat) (pkb msg : Bytes) :
    signModel sk pkb msg = { off := false, terms := Bls.FSum.smul (sk : Int) [(pkb ++ msg, 1)] } := rfl

/-- a signature is a valid G2 element and verifies under its own key and message, unless the key is
zero (`verify` rejects the infinity public key) -/
theorem sign_verifies (sk : Nat) (pkb msg : Bytes) :
    (signModel sk pkb msg).isValid = true
    ∧ (sk ≠ 0 → verifyModel (signModel sk pkb msg) sk pkb msg = true)
    ∧ verifyModel (signModel 0 pkb msg) 0 pkb msg = false := by
  refine ⟨rfl, ?_, ?_⟩
  · intro h
    unfold verifyModel signModel Bls.verify
    have h0 : ((sk : Nat) : Int) ≠ 0 := by omega
    simp only [Bls.sign_off, Bool.false_eq_true, if_false, h0, Bls.pairGen_eq, Bls.sign_terms]
    simp
  · unfold verifyModel signModel Bls.verify
    simp [Bls.sign_off]

end ChiaModel.C16
