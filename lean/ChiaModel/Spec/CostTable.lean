/-
Specification of the two-byte opcode cost (docs/condition-costs.md, opcodes.rs comment):
`100 * 17^k / 16^k` in exact arithmetic, truncated to three significant decimal figures.
Written independently of the code's 64-bit `const fn` (which renormalises with `>> 5`).
-/
namespace ChiaModel.Spec

/-- smallest power of ten ≥ `v`, starting from `p` (fuel-bounded; 40 steps cover every u64) -/
def pow10Above : Nat → Nat → Nat → Nat
  | 0, _, p => p
  | f+1, v, p => if p < v then pow10Above f v (p * 10) else p

/-- truncation to three significant decimal figures -/
def trunc3 (v : Nat) : Nat :=
  let p := pow10Above 40 v 1000 / 1000
  v / p * p

/-- cost of an unknown condition with opcode `op` -/
def unknownConditionCost (op : Nat) : Nat :=
  if op < 256 then 0 else trunc3 (100 * 17 ^ (op % 256) / 16 ^ (op % 256))

end ChiaModel.Spec
