import ChiaModel.Spec.ConditionRules
import ChiaModel.Lemmas.PermLoop
/-
C01 — the rules for a whole generator output `(spends . ext)` (DESIGN.md §6 "C01", Appendix A.4),
on top of the per-spend rules of `Spec/ConditionRules.lean`.

The argument grammar of the individual conditions is the model's table `parseArgs` / `parseOpcode`,
used here through its list form `parseAll` (Lemmas/PermLoop.lean: every element of the condition list is
either ignored — not an opcode, allowed unless NO_UNKNOWN_CONDS — or parses to a condition; `Item`,
`itemConds`, and the cost table in list form `totalCost`).  Core Lean only.

What is declarative here: the shape of the spend list and of a spend tuple, the coin id, the
acceptance rules (`BundleAccepts`: all order-free — a count, a `Nodup`, two sums, a `∀ p ∈ ps`, and the
deferred cross-spend rules) and the summary as a left fold of the per-spend summaries over the spends in
listing order (`bundleFold`).  What is NOT re-specified but taken from the model inside the fold: the
mempool visitor's eligibility flags (`allBits`, `postSpend`, `newSpendVisit`, `postProcess`, which only
write the `flags` field of spend records) and the cost bookkeeping `wrapF`/`bump`; the closed forms of the
two flags (Appendix A.3, `blocksFF` below) are proved separately in Props/C01.lean
(`dedup_flag_closed_form`, `ff_flag_closed_form`, `flags_empty_visitor`).
-/
namespace ChiaModel.Rules
open ChiaModel ChiaModel.Cond

/-- a spend whose tuple and whose every condition has been parsed -/
structure PSpend where
  attrs : Attrs
  items : List Item

/-- Appendix A.4: a spend is `(parent ph amount conds . ext)`; parent id and puzzle hash are atoms of
exactly 32 bytes, the amount is a canonical u64 atom; the coin id is
SHA-256(parent ‖ puzzle hash ‖ amount atom).  Returns the attributes and the condition list. -/
def spendTuple : Sexp → Option (Attrs × Sexp)
  | .pair (.atom parent) (.pair (.atom ph) (.pair (.atom amt) (.pair conds _))) =>
    if parent.length = 32 ∧ ph.length = 32 then
      match sanitizeUint amt 8 with
      | .ok v => some (⟨parent, ph, coinId parent ph amt, v⟩, conds)
      | _ => none
    else none
  | _ => none

/-- the spend tuple is well-formed, its condition list is NIL-terminated and every element of it is
ignored or parses (per `parseAll`) -/
def parseSpend (flags : Nat) (sp : Sexp) : Option PSpend :=
  match spendTuple sp with
  | none => none
  | some (a, conds) =>
    match sexpList conds with
    | none => none
    | some cs =>
      match parseAll flags cs with
      | .ok items => some ⟨a, items⟩
      | .error _ => none

def parseSpendList (flags : Nat) : List Sexp → Option (List PSpend)
  | [] => some []
  | sp :: l =>
    match parseSpend flags sp, parseSpendList flags l with
    | some p, some ps => some (p :: ps)
    | _, _ => none

/-- generator output `(spends . ext)`: `spends` is NIL-terminated, `ext` is free -/
def parseBundle (flags : Nat) : Sexp → Option (List PSpend)
  | .pair spends _ =>
    match sexpList spends with
    | some l => parseSpendList flags l
    | none => none
  | .atom _ => none

/-- cost table: the per-spend charge plus the charges of the spend's condition list -/
def spendCost (flags : Nat) (p : PSpend) : Nat := spendCharge flags + totalCost flags p.items
def bundleCost (flags : Nat) (ps : List PSpend) : Nat := (ps.map (spendCost flags)).sum
/-- Σ RESERVE_FEE over all spends -/
def bundleFee (ps : List PSpend) : Nat := (ps.map (fun p => feeSum (itemConds p.items))).sum

/-- the state in which the conditions of a spend with attributes `a` are entered, after the spends that
produced `(ret, st)`: removal amount added, coin id / puzzle hash recorded as spent, a fresh spend record
(execution cost `cc`), the per-spend charge booked, the visitor's initial eligibility flags -/
def spendStart (env : Env) (cc : Nat) (ret : Bundle) (st : PState) (a : Attrs) : CSt :=
  newSpendVisit env (bump
    { ret := { ret with removalAmount := ret.removalAmount + a.amount }
      st := { st with spentCoins := st.spentCoins ++ [a.coinId], spentPuzzles := a.puzzleHash :: st.spentPuzzles }
      spend := { parentId := a.parentId, coinAmount := a.amount, puzzleHash := a.puzzleHash, coinId := a.coinId,
                 executionCost := cc } }
    (spendCharge env.flags))

/-- the bundle summary and parse state after one more spend: the spend's summary entered
(`spendResult`), its condition costs booked and the visitor's flags cleared (`wrapF`), the spend record
finished and pushed (`finishSpend`) -/
def enterSpend (env : Env) (cc : Nat) (acc : Bundle × PState) (p : PSpend) : Bundle × PState :=
  finishSpend env
    (wrapF (allBits env.mempool 0 p.items) (spendResult env (spendStart env cc acc.1 acc.2 p.attrs) (itemConds p.items))
      (totalCount p.items) (totalCost env.flags p.items))

/-- the summary and parse state after all spends, in listing order -/
def bundleFold (env : Env) (cc : Nat) (ps : List PSpend) : Bundle × PState :=
  ps.foldl (enterSpend env cc) ({}, {})

/-- the deferred cross-spend rules, read off the summary and the collected parse state
(the right-hand side of `C01.validateConditions_iff`) -/
def Deferred (ret : Bundle) (st : PState) : Prop :=
  ret.additionAmount ≤ ret.removalAmount ∧
  ret.reserveFee ≤ ret.removalAmount - ret.additionAmount ∧
  (∀ bh, ret.beforeHeightAbsolute = some bh → ret.heightAbsolute < bh) ∧
  (∀ bs, ret.beforeSecondsAbsolute = some bs → ret.secondsAbsolute < bs) ∧
  (∀ id ∈ st.assertConcurrentSpend, id ∈ st.spentCoins) ∧
  (∀ ph ∈ st.assertConcurrentPuzzle, ph ∈ st.spentPuzzles) ∧
  (∀ a ∈ st.assertCoin, ∃ p ∈ st.announceCoin, a = sha256 (p.1 ++ p.2)) ∧
  (∀ i ∈ st.assertEphemeral, isEphemeral st ret.spends i = true) ∧
  (∀ i ∈ st.assertNotEphemeral, isEphemeral st ret.spends i = false) ∧
  (∀ a ∈ st.assertPuzzle, ∃ p ∈ st.announcePuzzle, a = sha256 (p.1 ++ p.2)) ∧
  (∀ m ∈ st.messages, ((st.messages.filter (fun x => x.1 == m.1)).map (·.2)).sum = 0)

/-- **The bundle acceptance rules** for the parsed spends `ps` under cost limit `L`. -/
def BundleAccepts (env : Env) (sigOk : List (Bytes × Bytes) → Bool) (L cc : Nat) (ps : List PSpend) : Prop :=
  -- at most 6000 spends under LIMIT_SPENDS (2^64 − 1 otherwise)
  ps.length ≤ spendLimit env.flags ∧
  -- no coin is spent twice
  (ps.map (·.attrs.coinId)).Nodup ∧
  -- the table cost fits the limit
  bundleCost env.flags ps ≤ L ∧
  -- every spend satisfies the per-spend rules (fresh announcement budget of 1024) …
  (∀ p ∈ ps, SpendAccepts env p.attrs 0 1024 (itemConds p.items)) ∧
  -- … and the fees reserved by all spends together stay a u64
  bundleFee ps < 2 ^ 64 ∧
  -- the deferred cross-spend rules hold of the summary
  Deferred (postProcess env (bundleFold env cc ps).1 (bundleFold env cc ps).2) (bundleFold env cc ps).2 ∧
  -- the aggregate signature verifies the collected (public key, signed text) pairs, unless not requested
  (hasFlag env.flags Gen.flagDontValidateSignature = false → sigOk (bundleFold env cc ps).2.pkmPairs = true)

/-- **The reported summary**: the fold of the per-spend summaries, the mempool visitor's post-processing
of the spend flags, the signature marker and the table cost; with it the collected parse state -/
def bundleSummary (env : Env) (cc : Nat) (ps : List PSpend) : Bundle × PState :=
  ({ postProcess env (bundleFold env cc ps).1 (bundleFold env cc ps).2 with
      validatedSignature := !hasFlag env.flags Gen.flagDontValidateSignature
      cost := bundleCost env.flags ps },
   (bundleFold env cc ps).2)

/-! ### mempool eligibility flags, per spend (Appendix A.3) -/

/-- Appendix A.3, per condition: does `c`, seen as the `i`-th recognised condition of its spend (counting
from 0), make the spend ineligible for fast-forward -/
def blocksFF (i : Nat) : Cond → Bool
  | .assertMyCoinId _ | .assertHeightRelative _ | .assertSecondsRelative _ | .assertBeforeHeightRelative _
  | .assertBeforeSecondsRelative _ | .assertMyBirthHeight _ | .assertMyBirthSeconds _ | .assertEphemeral
  | .createCoinAnnouncement _ => true
  | .assertMyParentId _ => i ≠ 1
  | .aggSig op _ _ =>
    op = Gen.opAggSigMe ∨ op = Gen.opAggSigParent ∨ op = Gen.opAggSigParentAmount ∨ op = Gen.opAggSigParentPuzzle
  | .sendMessage srcMode _ _ => srcMode / 4 % 2 = 1
  | .receiveMessage _ dstMode _ => dstMode / 4 % 2 = 1
  | _ => false

end ChiaModel.Rules
