import ChiaModel.Model.Conditions
/-
C01 — declarative rules for the conditions of ONE spend (DESIGN.md §6 "C01", Appendix A).

Input: the list `cs : List Cond` of the *parsed* conditions of a spend (what `parse_args` returns for the
recognised conditions, in the order in which they are listed), the spend's own attributes (parent id,
puzzle hash, coin id, amount) and two numbers that earlier spends / the fork rules fix: the fee that
earlier spends of the bundle reserved, and the announcement budget (1024 for a fresh spend).

Everything here is ORDER-FREE in the following sense: every acceptance clause is a statement about
*membership* in `cs` (a `∀ c ∈ cs`, a `∀ x ∈ … ∀ y ∈ …`, a `Nodup`, a count, a sum), and every field of
the summary is a max / min / sum / count / "the common value" of `cs`, or the list of the conditions of
one kind *in the order in which they are listed*.  Nothing refers to the parser's loop or to its state.
The types `Cond`, `NewCoin`, `Env`, `CSt` and the helpers `unsafeMsgOk`, `spendIdFromSelf` (message
end-point key of the spend itself) are data definitions of the model, not control flow.
-/
namespace ChiaModel.Rules
open ChiaModel ChiaModel.Cond

/-- the attributes of the spend the conditions belong to -/
structure Attrs where
  parentId : Bytes
  puzzleHash : Bytes
  coinId : Bytes
  amount : Nat
  deriving Repr, DecidableEq

/-! ### what a single condition carries (one line per kind; Appendix A, column "effect") -/

def heightRelOf : Cond → Option Nat | .assertHeightRelative v => some v | _ => none
def secondsRelOf : Cond → Option Nat | .assertSecondsRelative v => some v | _ => none
def beforeHeightRelOf : Cond → Option Nat | .assertBeforeHeightRelative v => some v | _ => none
def beforeSecondsRelOf : Cond → Option Nat | .assertBeforeSecondsRelative v => some v | _ => none
def birthHeightOf : Cond → Option Nat | .assertMyBirthHeight v => some v | _ => none
def birthSecondsOf : Cond → Option Nat | .assertMyBirthSeconds v => some v | _ => none
def heightAbsOf : Cond → Option Nat | .assertHeightAbsolute v => some v | _ => none
def secondsAbsOf : Cond → Option Nat | .assertSecondsAbsolute v => some v | _ => none
def beforeHeightAbsOf : Cond → Option Nat | .assertBeforeHeightAbsolute v => some v | _ => none
def beforeSecondsAbsOf : Cond → Option Nat | .assertBeforeSecondsAbsolute v => some v | _ => none
def feeOf : Cond → Option Nat | .reserveFee v => some v | _ => none
def newCoinOf : Cond → Option NewCoin | .createCoin ph amount hint => some ⟨ph, amount, hint⟩ | _ => none
/-- the (public key, message) of an AGG_SIG condition of opcode `kind` -/
def sigOf (kind : Nat) : Cond → Option (Bytes × Bytes)
  | .aggSig op pk msg => if op = kind then some (pk, msg) else none
  | _ => none
def coinAnnouncementOf (a : Attrs) : Cond → Option (Bytes × Bytes)
  | .createCoinAnnouncement msg => some (a.coinId, msg) | _ => none
def puzzleAnnouncementOf (a : Attrs) : Cond → Option (Bytes × Bytes)
  | .createPuzzleAnnouncement msg => some (a.puzzleHash, msg) | _ => none
def assertCoinAnnouncementOf : Cond → Option Bytes | .assertCoinAnnouncement id => some id | _ => none
def assertPuzzleAnnouncementOf : Cond → Option Bytes | .assertPuzzleAnnouncement id => some id | _ => none
def concurrentSpendOf : Cond → Option Bytes | .assertConcurrentSpend id => some id | _ => none
def concurrentPuzzleOf : Cond → Option Bytes | .assertConcurrentPuzzle id => some id | _ => none

/-- the key of the spend's own end of a message under a 3-bit mode -/
def selfKey (mode : Nat) (a : Attrs) : Bytes := spendIdFromSelf mode a.parentId a.puzzleHash a.amount a.coinId

/-- SEND_MESSAGE counts +1, RECEIVE_MESSAGE counts −1 for the key (source ‖ destination ‖ message) -/
def messageOf (a : Attrs) : Cond → Option (Bytes × Int)
  | .sendMessage srcMode dst msg => some (selfKey srcMode a ++ dst ++ msg, 1)
  | .receiveMessage src dstMode msg => some (src ++ selfKey dstMode a ++ msg, -1)
  | _ => none

/-- Appendix A.2: what is appended to the message of an AGG_SIG condition before it is signed -/
def signedSuffix (op : Nat) (a : Attrs) : Bytes :=
  if op = Gen.opAggSigMe then a.coinId ++ Gen.aggSigMeAdditionalData
  else if op = Gen.opAggSigParent then a.parentId ++ Gen.aggSigParentAdditionalData
  else if op = Gen.opAggSigPuzzle then a.puzzleHash ++ Gen.aggSigPuzzleAdditionalData
  else if op = Gen.opAggSigAmount then Gen.u64ToBytes a.amount ++ Gen.aggSigAmountAdditionalData
  else if op = Gen.opAggSigPuzzleAmount then a.puzzleHash ++ Gen.u64ToBytes a.amount ++ Gen.aggSigPuzzleAmountAdditionalData
  else if op = Gen.opAggSigParentAmount then a.parentId ++ Gen.u64ToBytes a.amount ++ Gen.aggSigParentAmountAdditionalData
  else if op = Gen.opAggSigParentPuzzle then a.parentId ++ a.puzzleHash ++ Gen.aggSigParentPuzzleAdditionalData
  else []

/-- the (public key, signed text) pair of an AGG_SIG condition (of any of the eight kinds) -/
def signedPairOf (a : Attrs) : Cond → Option (Bytes × Bytes)
  | .aggSig op pk msg => some (pk, msg ++ signedSuffix op a) | _ => none

/-- the announcement / message class (opcodes 60–67): the conditions the pre-HF2 limit of 1024 counts -/
def isAnnounceCond : Cond → Bool
  | .createCoinAnnouncement _ | .createPuzzleAnnouncement _ | .assertCoinAnnouncement _ | .assertPuzzleAnnouncement _
  | .assertConcurrentSpend _ | .assertConcurrentPuzzle _ | .sendMessage _ _ _ | .receiveMessage _ _ _ => true
  | _ => false

/-- conditions that mark the spend "must not be ephemeral": relative locks (also the ones whose argument
makes them a tautology) and birth assertions -/
def marksNotEphemeral : Cond → Bool
  | .assertHeightRelative _ | .assertSecondsRelative _ | .assertBeforeHeightRelative _ | .assertBeforeSecondsRelative _
  | .assertMyBirthHeight _ | .assertMyBirthSeconds _ | .skipRelativeCondition => true
  | _ => false

def isAssertEphemeral : Cond → Bool | .assertEphemeral => true | _ => false

/-! ### the conditions of one kind, in listing order -/

def heightRels (cs : List Cond) : List Nat := cs.filterMap heightRelOf
def secondsRels (cs : List Cond) : List Nat := cs.filterMap secondsRelOf
def beforeHeightRels (cs : List Cond) : List Nat := cs.filterMap beforeHeightRelOf
def beforeSecondsRels (cs : List Cond) : List Nat := cs.filterMap beforeSecondsRelOf
def birthHeights (cs : List Cond) : List Nat := cs.filterMap birthHeightOf
def birthSeconds (cs : List Cond) : List Nat := cs.filterMap birthSecondsOf
def heightAbss (cs : List Cond) : List Nat := cs.filterMap heightAbsOf
def secondsAbss (cs : List Cond) : List Nat := cs.filterMap secondsAbsOf
def beforeHeightAbss (cs : List Cond) : List Nat := cs.filterMap beforeHeightAbsOf
def beforeSecondsAbss (cs : List Cond) : List Nat := cs.filterMap beforeSecondsAbsOf
def fees (cs : List Cond) : List Nat := cs.filterMap feeOf
def newCoins (cs : List Cond) : List NewCoin := cs.filterMap newCoinOf
def sigsOf (kind : Nat) (cs : List Cond) : List (Bytes × Bytes) := cs.filterMap (sigOf kind)
/-- the (puzzle hash, amount) keys of the created coins -/
def createKeys (cs : List Cond) : List (Bytes × Nat) := (newCoins cs).map (fun nc => (nc.ph, nc.amount))
def feeSum (cs : List Cond) : Nat := (fees cs).sum
def additions (cs : List Cond) : Nat := ((newCoins cs).map (·.amount)).sum
def announceCount (cs : List Cond) : Nat := cs.countP isAnnounceCond
def ephemeralCount (cs : List Cond) : Nat := cs.countP isAssertEphemeral
/-- some condition of the list marks the spend "must not be ephemeral" -/
def anyNotEphemeral (cs : List Cond) : Bool := cs.any marksNotEphemeral

/-! ### order-free aggregates -/

/-- the maximum of a list, absent for the empty list -/
def maxOpt : List Nat → Option Nat
  | [] => none
  | v :: l => some (l.foldl max v)

/-- the minimum of a list, absent for the empty list -/
def minOpt : List Nat → Option Nat
  | [] => none
  | v :: l => some (l.foldl min v)

/-- the maximum of a list with 0 as the neutral "no constraint" value -/
def maxList (l : List Nat) : Nat := l.foldl max 0

/-- the minimum of two optional bounds -/
def minOpt2 : Option Nat → Option Nat → Option Nat
  | none, o => o
  | some a, none => some a
  | some a, some b => some (min a b)

/-- the common value of a list all of whose elements are equal (absent for the empty list) -/
def commonValue (l : List Nat) : Option Nat := l.head?

/-! ### acceptance -/

/-- ASSERT_MY_COIN_ID / PARENT_ID / PUZZLEHASH / AMOUNT state the spend's own attribute -/
def selfAssertOk (a : Attrs) : Cond → Bool
  | .assertMyCoinId id => id = a.coinId
  | .assertMyParentId id => id = a.parentId
  | .assertMyPuzzlehash id => id = a.puzzleHash
  | .assertMyAmount v => v = a.amount
  | _ => true

/-- an AGG_SIG key must be a valid public key; an AGG_SIG_UNSAFE message of 32 bytes or more must not
end in one of the seven domain-separation constants (`unsafeMsgOk`) -/
def aggSigOk (env : Env) : Cond → Bool
  | .aggSig op pk msg => env.pkOk pk && (op ≠ Gen.opAggSigUnsafe || unsafeMsgOk msg)
  | _ => true

/-- **The per-spend acceptance rules**, for the parsed conditions `cs` of a spend with attributes `a`,
when earlier spends of the bundle have reserved `feeBefore` and the spend may still make `countdown`
announcement-class conditions (1024 for a fresh spend; only read when COST_CONDITIONS is off). -/
def SpendAccepts (env : Env) (a : Attrs) (feeBefore countdown : Nat) (cs : List Cond) : Prop :=
  -- every ASSERT_MY_* equals the attribute
  (∀ c ∈ cs, selfAssertOk a c = true) ∧
  -- every AGG_SIG key is valid, every AGG_SIG_UNSAFE message is allowed
  (∀ c ∈ cs, aggSigOk env c = true) ∧
  -- no two CREATE_COIN with the same (puzzle hash, amount)
  (createKeys cs).Nodup ∧
  -- all birth assertions of a kind agree
  (∀ v ∈ birthHeights cs, ∀ w ∈ birthHeights cs, v = w) ∧
  (∀ v ∈ birthSeconds cs, ∀ w ∈ birthSeconds cs, v = w) ∧
  -- no impossible (ASSERT_x_RELATIVE a, ASSERT_BEFORE_x_RELATIVE b) pair, i.e. none with b ≤ a
  (∀ x ∈ heightRels cs, ∀ b ∈ beforeHeightRels cs, x < b) ∧
  (∀ x ∈ secondsRels cs, ∀ b ∈ beforeSecondsRels cs, x < b) ∧
  -- before COST_CONDITIONS: at most `countdown` conditions of the announcement / message class
  (hasFlag env.flags Gen.flagCostConditions = false → announceCount cs ≤ countdown) ∧
  -- the fee reserved so far stays a u64
  feeBefore + feeSum cs < 2 ^ 64

instance (env : Env) (a : Attrs) (feeBefore countdown : Nat) (cs : List Cond) :
    Decidable (SpendAccepts env a feeBefore countdown cs) := by
  unfold SpendAccepts; infer_instance

/-! ### summary -/

/-- what the conditions of one spend contribute, derived from the conditions alone -/
structure SpendSummary where
  /-- ASSERT_HEIGHT_RELATIVE: the maximum (absent if there is none) -/
  heightRelative : Option Nat
  secondsRelative : Option Nat
  /-- ASSERT_BEFORE_HEIGHT_RELATIVE: the minimum (absent if there is none) -/
  beforeHeightRelative : Option Nat
  beforeSecondsRelative : Option Nat
  /-- ASSERT_MY_BIRTH_HEIGHT: the common value (absent if there is none) -/
  birthHeight : Option Nat
  birthSeconds : Option Nat
  /-- CREATE_COIN outputs with their hints, in listing order -/
  createCoin : List NewCoin
  aggSigMe : List (Bytes × Bytes)
  aggSigParent : List (Bytes × Bytes)
  aggSigPuzzle : List (Bytes × Bytes)
  aggSigAmount : List (Bytes × Bytes)
  aggSigPuzzleAmount : List (Bytes × Bytes)
  aggSigParentAmount : List (Bytes × Bytes)
  aggSigParentPuzzle : List (Bytes × Bytes)
  aggSigUnsafe : List (Bytes × Bytes)
  /-- Σ created amounts -/
  additions : Nat
  /-- Σ RESERVE_FEE -/
  fee : Nat
  /-- ASSERT_HEIGHT_ABSOLUTE: the maximum, 0 if there is none -/
  heightAbsolute : Nat
  secondsAbsolute : Nat
  /-- ASSERT_BEFORE_HEIGHT_ABSOLUTE: the minimum (absent if there is none) -/
  beforeHeightAbsolute : Option Nat
  beforeSecondsAbsolute : Option Nat
  /-- (coin id, message) of every CREATE_COIN_ANNOUNCEMENT, in listing order -/
  announceCoin : List (Bytes × Bytes)
  /-- (puzzle hash, message) of every CREATE_PUZZLE_ANNOUNCEMENT -/
  announcePuzzle : List (Bytes × Bytes)
  assertCoin : List Bytes
  assertPuzzle : List Bytes
  assertConcurrentSpend : List Bytes
  assertConcurrentPuzzle : List Bytes
  /-- (message key, ±1) of every SEND_MESSAGE / RECEIVE_MESSAGE -/
  messages : List (Bytes × Int)
  /-- number of ASSERT_EPHEMERAL conditions -/
  ephemeralAsserts : Nat
  /-- some relative lock or birth assertion is present: the coin must not be ephemeral -/
  notEphemeral : Bool
  /-- (public key, signed text) of every AGG_SIG condition, in listing order; empty under
  DONT_VALIDATE_SIGNATURE -/
  pkmPairs : List (Bytes × Bytes)
  /-- number of announcement-class conditions -/
  announceCount : Nat

def spendSummary (env : Env) (a : Attrs) (cs : List Cond) : SpendSummary where
  heightRelative := maxOpt (heightRels cs)
  secondsRelative := maxOpt (secondsRels cs)
  beforeHeightRelative := minOpt (beforeHeightRels cs)
  beforeSecondsRelative := minOpt (beforeSecondsRels cs)
  birthHeight := commonValue (birthHeights cs)
  birthSeconds := commonValue (birthSeconds cs)
  createCoin := newCoins cs
  aggSigMe := sigsOf Gen.opAggSigMe cs
  aggSigParent := sigsOf Gen.opAggSigParent cs
  aggSigPuzzle := sigsOf Gen.opAggSigPuzzle cs
  aggSigAmount := sigsOf Gen.opAggSigAmount cs
  aggSigPuzzleAmount := sigsOf Gen.opAggSigPuzzleAmount cs
  aggSigParentAmount := sigsOf Gen.opAggSigParentAmount cs
  aggSigParentPuzzle := sigsOf Gen.opAggSigParentPuzzle cs
  aggSigUnsafe := sigsOf Gen.opAggSigUnsafe cs
  additions := additions cs
  fee := feeSum cs
  heightAbsolute := maxList (heightAbss cs)
  secondsAbsolute := maxList (secondsAbss cs)
  beforeHeightAbsolute := minOpt (beforeHeightAbss cs)
  beforeSecondsAbsolute := minOpt (beforeSecondsAbss cs)
  announceCoin := cs.filterMap (coinAnnouncementOf a)
  announcePuzzle := cs.filterMap (puzzleAnnouncementOf a)
  assertCoin := cs.filterMap assertCoinAnnouncementOf
  assertPuzzle := cs.filterMap assertPuzzleAnnouncementOf
  assertConcurrentSpend := cs.filterMap concurrentSpendOf
  assertConcurrentPuzzle := cs.filterMap concurrentPuzzleOf
  messages := cs.filterMap (messageOf a)
  ephemeralAsserts := ephemeralCount cs
  notEphemeral := anyNotEphemeral cs
  pkmPairs := if hasFlag env.flags Gen.flagDontValidateSignature then [] else cs.filterMap (signedPairOf a)
  announceCount := announceCount cs

/-! ### the parse state described by a summary -/

def attrsOf (sp : Spend) : Attrs := ⟨sp.parentId, sp.puzzleHash, sp.coinId, sp.coinAmount⟩

/-- a spend record on which no condition has acted yet (what `process_single_spend` starts from; the
mempool visitor may already have set its two eligibility flags) -/
structure FreshSpend (sp : Spend) : Prop where
  heightRelative : sp.heightRelative = none
  secondsRelative : sp.secondsRelative = none
  beforeHeightRelative : sp.beforeHeightRelative = none
  beforeSecondsRelative : sp.beforeSecondsRelative = none
  birthHeight : sp.birthHeight = none
  birthSeconds : sp.birthSeconds = none
  createCoin : sp.createCoin = []
  aggSigMe : sp.aggSigMe = []
  aggSigParent : sp.aggSigParent = []
  aggSigPuzzle : sp.aggSigPuzzle = []
  aggSigAmount : sp.aggSigAmount = []
  aggSigPuzzleAmount : sp.aggSigPuzzleAmount = []
  aggSigParentAmount : sp.aggSigParentAmount = []
  aggSigParentPuzzle : sp.aggSigParentPuzzle = []
  noRelativeFlag : sp.flags &&& HAS_RELATIVE_CONDITION = 0

/-- **The state after the conditions of a spend**: the state `s` before them (bundle summary and parse
state as left by the earlier spends, a fresh spend record, announcement budget) with the summary `sm`
entered.  Spend record: the summary's values.  Bundle: sums added, absolute locks combined by max / min,
AGG_SIG_UNSAFE pairs appended.  Parse state: the spend's announcements, assertions and messages put in
front (latest first), ASSERT_EPHEMERAL / not-ephemeral recorded under the spend's index, signed pairs
appended.  Untouched: everything else (costs, spends, removal amount, spent coins, counter, …). -/
def enterSummary (env : Env) (s : CSt) (sm : SpendSummary) : CSt :=
  { ret := { s.ret with
      reserveFee := s.ret.reserveFee + sm.fee
      additionAmount := s.ret.additionAmount + sm.additions
      heightAbsolute := max s.ret.heightAbsolute sm.heightAbsolute
      secondsAbsolute := max s.ret.secondsAbsolute sm.secondsAbsolute
      beforeHeightAbsolute := minOpt2 s.ret.beforeHeightAbsolute sm.beforeHeightAbsolute
      beforeSecondsAbsolute := minOpt2 s.ret.beforeSecondsAbsolute sm.beforeSecondsAbsolute
      aggSigUnsafe := s.ret.aggSigUnsafe ++ sm.aggSigUnsafe }
    st := { s.st with
      announceCoin := sm.announceCoin.reverse ++ s.st.announceCoin
      announcePuzzle := sm.announcePuzzle.reverse ++ s.st.announcePuzzle
      assertCoin := sm.assertCoin.reverse ++ s.st.assertCoin
      assertPuzzle := sm.assertPuzzle.reverse ++ s.st.assertPuzzle
      messages := sm.messages.reverse ++ s.st.messages
      assertConcurrentSpend := sm.assertConcurrentSpend.reverse ++ s.st.assertConcurrentSpend
      assertConcurrentPuzzle := sm.assertConcurrentPuzzle.reverse ++ s.st.assertConcurrentPuzzle
      assertEphemeral := List.replicate sm.ephemeralAsserts s.ret.spends.length ++ s.st.assertEphemeral
      assertNotEphemeral :=
        bif sm.notEphemeral then s.ret.spends.length :: s.st.assertNotEphemeral else s.st.assertNotEphemeral
      pkmPairs := s.st.pkmPairs ++ sm.pkmPairs }
    spend := { s.spend with
      heightRelative := sm.heightRelative
      secondsRelative := sm.secondsRelative
      beforeHeightRelative := sm.beforeHeightRelative
      beforeSecondsRelative := sm.beforeSecondsRelative
      birthHeight := sm.birthHeight
      birthSeconds := sm.birthSeconds
      createCoin := sm.createCoin
      aggSigMe := sm.aggSigMe
      aggSigParent := sm.aggSigParent
      aggSigPuzzle := sm.aggSigPuzzle
      aggSigAmount := sm.aggSigAmount
      aggSigPuzzleAmount := sm.aggSigPuzzleAmount
      aggSigParentAmount := sm.aggSigParentAmount
      aggSigParentPuzzle := sm.aggSigParentPuzzle
      flags := bif sm.notEphemeral then s.spend.flags + HAS_RELATIVE_CONDITION else s.spend.flags }
    countdown := if hasFlag env.flags Gen.flagCostConditions then s.countdown else s.countdown - sm.announceCount
    counter := s.counter }

/-- the state after the parsed conditions `cs` of the spend that `s` is about to process -/
def spendResult (env : Env) (s : CSt) (cs : List Cond) : CSt :=
  enterSummary env s (spendSummary env (attrsOf s.spend) cs)

end ChiaModel.Rules
