import ChiaModel.Spec.BundleRules
import ChiaModel.Spec.CostTable
/-
C01 — the ARGUMENT GRAMMAR of the individual conditions, as a data table with a small generic
interpreter (DESIGN.md Appendix A.1, written from that table and from `parse_args`,
`condition_sanitizers.rs`, `sanitize_int.rs`, `messages.rs::SpendId::parse` in
/repo/crates/chia-consensus/src — NOT by unfolding the model's `parseArgs`).  Core Lean only.

`grammar op` gives, for every recognised opcode, the kinds of its required arguments in order and its
tail rule; `build op` gives the condition the decoded argument values yield; `specParseArgs` walks
the table.  `Lemmas/ArgGrammar.lean` proves `parseArgs = specParseArgs` for every tree, opcode
number and flag set, and the value-level reading of the integer classes for byte strings.

What the table says (every peculiarity of the real code is explicit here; nothing is hidden in the
interpreter):

 1. Every argument is an ATOM; a pair where an argument is expected rejects.  The argument list is
    walked with `first`/`rest`: when an argument is required the list must be a pair at that point
    (an atom — NIL or not — where a required argument should start rejects).
 2. `hash32` / `pubkey48`: exactly 32 / 48 bytes (so the empty atom, 31, 33, 47, 49 bytes reject).
    Only the LENGTH of a public key is checked here; that it is a valid non-infinity G1 point is a
    rule of the condition's effect (`SpendAccepts`), not of the grammar.  Likewise the
    AGG_SIG_UNSAFE message-suffix rule.
 3. `announceMsg`: at most 1024 bytes, inclusive; the empty atom is a message.
 4. Integers (`int w neg over`) are classified by `intClass w` exactly as `sanitize_uint` does:
      neg   — first byte ≥ 0x80.  NO canonicity test is made on negative atoms (`ff ff` is "neg"),
               and the length is irrelevant;
      bad   — non-negative with a redundant leading zero byte: the atom `00`, or `00` followed by
               a byte < 0x80.  ALWAYS rejects, in every kind (zero is the EMPTY atom only);
      over  — canonical, non-negative, more than `w` significant bytes (one leading `00` that is
               needed for the sign is not counted: `00 ff×8` is a u64, `01 00×8` is "over");
      canon — canonical, non-negative, at most `w` significant bytes: the value is `beVal`.
    For byte strings "at most w significant bytes" ⇔ value < 256^w, and a canon atom IS
    `canonNat` of its value (`Lemmas/ArgGrammar.lean`: `intClass_canon_iff`, `intClass_over_iff`).
    What neg / over DO depends on the kind (columns `neg`, `over` of the kind):
      amounts (CREATE_COIN, RESERVE_FEE, ASSERT_MY_AMOUNT, the amount field of a message
        end-point), SOFTFORK cost, ASSERT_MY_BIRTH_*:           neg ⇒ reject, over ⇒ reject;
      ASSERT_{SECONDS,HEIGHT}_{RELATIVE,ABSOLUTE} ("after"):    neg ⇒ VACUOUS, over ⇒ reject
        (a lock that far in the future can never be met);
      ASSERT_BEFORE_{SECONDS,HEIGHT}_{RELATIVE,ABSOLUTE}:       neg ⇒ reject (can never hold),
        over ⇒ VACUOUS.
    A VACUOUS argument turns the condition into `skip` (absolute kinds: no effect at all) or
    `skipRelativeCondition` (relative kinds: no lock is recorded, but the spend is STILL marked as
    carrying a relative condition, i.e. "not ephemeral"; the mempool visitor does not treat it as a
    relative lock).  Heights are u32 (4 bytes), seconds u64 (8 bytes).
 5. `messageMode`: the canonical encoding of an integer 0 … 63: the empty atom (0) or one byte
    `01 … 3f`.  `00`, `40`, negative atoms, anything longer reject.
 6. STRICT_ARGS_COUNT, stated ONCE (`terminatorOk`): the tail rule names the node at which the
    argument list must end; under the flag that node must be NIL, without it the node is not looked
    at (so extra arguments AND improper terminators are ignored).  Tail rules:
      exact     — the node right after the last required argument (ASSERT_EPHEMERAL has no
                  arguments: the argument list itself);
      ignored   — REMARK, SOFTFORK, two-byte opcodes: nothing is required even under the flag;
                  REMARK and the two-byte opcodes do not look at their arguments at all (an atom
                  as argument list is fine), SOFTFORK reads only its first argument;
      memos     — CREATE_COIN: ONE optional further argument (the memo list), of any shape; the
                  list must end right after the amount or right after the memos.  The hint
                  (`memoHint`) is the first element of the memos when the memos are a pair whose
                  first element is an atom of 1 … 32 bytes; an EMPTY first memo, one of 33+ bytes,
                  a pair as first memo, memos that are an atom (NIL or not): no hint, NOT an error;
      endpoint  — SEND_MESSAGE / RECEIVE_MESSAGE: after (mode, message) come the fields of the
                  OTHER end-point, selected by three bits of the mode (`endpointFields`): SEND
                  transmits the destination = LOW three bits and keeps `mode >> 3` as its own
                  (source) mode; RECEIVE transmits the source = HIGH three bits and keeps
                  `mode & 7`.  7 = one hash32 (the coin id), NOT three fields; otherwise parent
                  hash32 (bit 4), puzzle hash32 (bit 2), amount u64 (bit 1) in that order; 0 = no
                  field.  The key of the end-point is the selector byte followed by the fields,
                  the amount as EIGHT big-endian bytes.  The list must end right after them.
 7. SOFTFORK (90) and the two-byte opcodes 256 … 65535 (`unknownClass`) are rejected as a whole
    under NO_UNKNOWN_CONDS.  Otherwise they yield `softfork cost`: SOFTFORK's u32 argument × 10 000,
    resp. the two-byte cost table (`Spec.unknownConditionCost`).
 8. An opcode number without an entry (a one-byte value outside the whitelist, anything above
    65535) rejects; `parse_opcode` never produces one.
 9. Only the accept / reject verdict and the parsed condition are specified: which error code a
    rejected argument list reports (and hence the order of the checks) is not part of C01.
-/
namespace ChiaModel.Grammar
open ChiaModel ChiaModel.Cond

/-! ## integer classes (`sanitize_uint`) -/

inductive IntClass where
  | canon (v : Nat)
  | neg
  | over
  | bad
  deriving Repr, DecidableEq

/-- number of significant bytes: the length, not counting one leading zero byte (which a canonical
atom has only when the next byte is ≥ 0x80, i.e. when the sign needs it) -/
def sigBytes (b : Bytes) : Nat := if b.head? = some 0 then b.length - 1 else b.length

/-- the class of an integer atom for a width of `w` bytes -/
def intClass (w : Nat) (b : Bytes) : IntClass :=
  if headGe128 b = true then .neg
  else if Minimal b then (if sigBytes b ≤ w then .canon (beVal b) else .over)
  else .bad

/-! ## argument kinds -/

/-- what an integer outside the representable range does to its condition -/
inductive Policy where
  | reject
  | vacuous
  deriving Repr, DecidableEq

inductive ArgKind where
  | hash32
  | pubkey48
  | announceMsg
  | int (width : Nat) (neg over : Policy)
  | messageMode
  deriving Repr, DecidableEq

/-- coin amounts and fees: u64, out of range rejects -/
abbrev amountU64 : ArgKind := .int 8 .reject .reject
/-- the cost argument of SOFTFORK: u32, out of range rejects -/
abbrev costU32 : ArgKind := .int 4 .reject .reject
/-- ASSERT_MY_BIRTH_SECONDS / ASSERT_MY_BIRTH_HEIGHT -/
abbrev birthSecondsU64 : ArgKind := .int 8 .reject .reject
abbrev birthHeightU32 : ArgKind := .int 4 .reject .reject
/-- "not before" locks: negative ⇒ vacuous, too large ⇒ reject -/
abbrev afterSecondsU64 : ArgKind := .int 8 .vacuous .reject
abbrev afterHeightU32 : ArgKind := .int 4 .vacuous .reject
/-- "before" locks: negative ⇒ reject, too large ⇒ vacuous -/
abbrev beforeSecondsU64 : ArgKind := .int 8 .reject .vacuous
abbrev beforeHeightU32 : ArgKind := .int 4 .reject .vacuous

/-- decoded argument values -/
inductive Val where
  | bytes (b : Bytes)
  | int (v : Nat)
  | vacuous                      -- an integer out of range on the side where the condition cannot fail
  | hint (h : Option Bytes)      -- CREATE_COIN: the hint taken from the memos
  | key (k : Bytes)              -- SEND / RECEIVE_MESSAGE: the transmitted end-point, as a message-key part
  deriving Repr, DecidableEq

def outOfRange : Policy → Option Val
  | .reject => none
  | .vacuous => some .vacuous

/-- accepted atoms of a kind and the value they decode to; `none` = reject -/
def argValue (k : ArgKind) : Sexp → Option Val
  | .pair _ _ => none
  | .atom b =>
    match k with
    | .hash32 => if b.length = 32 then some (.bytes b) else none
    | .pubkey48 => if b.length = 48 then some (.bytes b) else none
    | .announceMsg => if b.length ≤ 1024 then some (.bytes b) else none
    | .int w neg over =>
      match intClass w b with
      | .canon v => some (.int v)
      | .neg => outOfRange neg
      | .over => outOfRange over
      | .bad => none
    | .messageMode =>
      match intClass 1 b with
      | .canon v => if v ≤ 63 then some (.int v) else none
      | _ => none

/-! ## tail rules -/

/-- which three bits of the message mode select the transmitted end-point -/
inductive Side where
  | low       -- `mode & 7`        (SEND_MESSAGE: the destination)
  | high      -- `(mode >> 3) & 7` (RECEIVE_MESSAGE: the source)
  deriving Repr, DecidableEq

inductive Tail where
  | exact
  | ignored
  | memos
  | endpoint (s : Side)
  deriving Repr, DecidableEq

/-! ## the table -/

/-- the one-byte opcodes: required arguments in order, tail rule -/
def oneByteTable : List (Nat × List ArgKind × Tail) :=
  [ (1,  [],                              .ignored),         -- REMARK
    (43, [.pubkey48, .announceMsg],       .exact),           -- AGG_SIG_PARENT
    (44, [.pubkey48, .announceMsg],       .exact),           -- AGG_SIG_PUZZLE
    (45, [.pubkey48, .announceMsg],       .exact),           -- AGG_SIG_AMOUNT
    (46, [.pubkey48, .announceMsg],       .exact),           -- AGG_SIG_PUZZLE_AMOUNT
    (47, [.pubkey48, .announceMsg],       .exact),           -- AGG_SIG_PARENT_AMOUNT
    (48, [.pubkey48, .announceMsg],       .exact),           -- AGG_SIG_PARENT_PUZZLE
    (49, [.pubkey48, .announceMsg],       .exact),           -- AGG_SIG_UNSAFE
    (50, [.pubkey48, .announceMsg],       .exact),           -- AGG_SIG_ME
    (51, [.hash32, amountU64],            .memos),           -- CREATE_COIN
    (52, [amountU64],                     .exact),           -- RESERVE_FEE
    (60, [.announceMsg],                  .exact),           -- CREATE_COIN_ANNOUNCEMENT
    (61, [.hash32],                       .exact),           -- ASSERT_COIN_ANNOUNCEMENT
    (62, [.announceMsg],                  .exact),           -- CREATE_PUZZLE_ANNOUNCEMENT
    (63, [.hash32],                       .exact),           -- ASSERT_PUZZLE_ANNOUNCEMENT
    (64, [.hash32],                       .exact),           -- ASSERT_CONCURRENT_SPEND
    (65, [.hash32],                       .exact),           -- ASSERT_CONCURRENT_PUZZLE
    (66, [.messageMode, .announceMsg],    .endpoint .low),   -- SEND_MESSAGE
    (67, [.messageMode, .announceMsg],    .endpoint .high),  -- RECEIVE_MESSAGE
    (70, [.hash32],                       .exact),           -- ASSERT_MY_COIN_ID
    (71, [.hash32],                       .exact),           -- ASSERT_MY_PARENT_ID
    (72, [.hash32],                       .exact),           -- ASSERT_MY_PUZZLEHASH
    (73, [amountU64],                     .exact),           -- ASSERT_MY_AMOUNT
    (74, [birthSecondsU64],               .exact),           -- ASSERT_MY_BIRTH_SECONDS
    (75, [birthHeightU32],                .exact),           -- ASSERT_MY_BIRTH_HEIGHT
    (76, [],                              .exact),           -- ASSERT_EPHEMERAL
    (80, [afterSecondsU64],               .exact),           -- ASSERT_SECONDS_RELATIVE
    (81, [afterSecondsU64],               .exact),           -- ASSERT_SECONDS_ABSOLUTE
    (82, [afterHeightU32],                .exact),           -- ASSERT_HEIGHT_RELATIVE
    (83, [afterHeightU32],                .exact),           -- ASSERT_HEIGHT_ABSOLUTE
    (84, [beforeSecondsU64],              .exact),           -- ASSERT_BEFORE_SECONDS_RELATIVE
    (85, [beforeSecondsU64],              .exact),           -- ASSERT_BEFORE_SECONDS_ABSOLUTE
    (86, [beforeHeightU32],               .exact),           -- ASSERT_BEFORE_HEIGHT_RELATIVE
    (87, [beforeHeightU32],               .exact),           -- ASSERT_BEFORE_HEIGHT_ABSOLUTE
    (90, [costU32],                       .ignored) ]        -- SOFTFORK

/-- the grammar of opcode number `op`: the one-byte table, and "no arguments, everything ignored" for
every two-byte opcode -/
def grammar (op : Nat) : Option (List ArgKind × Tail) :=
  if 256 ≤ op ∧ op ≤ 65535 then some ([], .ignored) else oneByteTable.lookup op

/-- opcodes that stand for conditions of a future soft fork: rejected under NO_UNKNOWN_CONDS -/
def unknownClass (op : Nat) : Bool := op = 90 || (256 ≤ op && op ≤ 65535)

/-- fields transmitted for an end-point selector (three bits), in order -/
def endpointFields : List (List ArgKind) :=
  [ [],                              -- 0: nothing
    [amountU64],                     -- 1: amount
    [.hash32],                       -- 2: puzzle hash
    [.hash32, amountU64],            -- 3: puzzle hash, amount
    [.hash32],                       -- 4: parent id
    [.hash32, amountU64],            -- 5: parent id, amount
    [.hash32, .hash32],              -- 6: parent id, puzzle hash
    [.hash32] ]                      -- 7: coin id

def Side.select (s : Side) (mode : Nat) : Nat :=
  match s with
  | .low => mode % 8
  | .high => mode / 8 % 8

/-- the bytes a transmitted field contributes to the message key: hashes as they are, the amount as
eight big-endian bytes -/
def fieldBytes : Val → Bytes
  | .bytes b => b
  | .int v => be 8 v
  | _ => []

def keyBytes : List Val → Bytes
  | [] => []
  | v :: vs => fieldBytes v ++ keyBytes vs

/-- the CREATE_COIN hint rule -/
def memoHint : Sexp → Option Bytes
  | .pair (.atom h) _ => if 1 ≤ h.length ∧ h.length ≤ 32 then some h else none
  | _ => none

/-! ## the interpreter -/

/-- read the required arguments `kinds` from the argument list; returns the values and what follows -/
def walk : List ArgKind → Sexp → Option (List Val × Sexp)
  | [], t => some ([], t)
  | k :: ks, .pair a r =>
    match argValue k a, walk ks r with
    | some v, some (vs, t) => some (v :: vs, t)
    | _, _ => none
  | _ :: _, .atom _ => none

/-- the tail rule applied to what follows the required arguments: further values, and the node at which
the argument list must end under STRICT_ARGS_COUNT (`none`: no requirement) -/
def tailRule (tail : Tail) (vals : List Val) (t : Sexp) : Option (List Val × Option Sexp) :=
  match tail with
  | .exact => some ([], some t)
  | .ignored => some ([], none)
  | .memos =>
    match t with
    | .pair memos r => some ([.hint (memoHint memos)], some r)
    | .atom _ => some ([.hint none], some t)
  | .endpoint s =>
    match vals with
    | .int mode :: _ =>
      match walk (endpointFields.getD (s.select mode) []) t with
      | some (fs, t') => some ([.key (s.select mode :: keyBytes fs)], some t')
      | none => none
    | _ => none

/-- **the strict-terminator rule**: under STRICT_ARGS_COUNT the argument list ends (NIL) at the node the
tail rule names; without the flag nothing is required -/
def terminatorOk (flags : Nat) : Option Sexp → Bool
  | none => true
  | some t => !hasFlag flags Gen.flagStrictArgsCount || t.isNil

/-! ## the condition each opcode yields -/

def noArgs (c : Cond) : List Val → Option Cond
  | [] => some c
  | _ => none

def oneBytes (mk : Bytes → Cond) : List Val → Option Cond
  | [.bytes b] => some (mk b)
  | _ => none

def twoBytes (mk : Bytes → Bytes → Cond) : List Val → Option Cond
  | [.bytes a, .bytes b] => some (mk a b)
  | _ => none

def oneInt (mk : Nat → Cond) : List Val → Option Cond
  | [.int v] => some (mk v)
  | _ => none

/-- a lock: the recorded condition, or `vac` when the argument is vacuous -/
def lockInt (mk : Nat → Cond) (vac : Cond) : List Val → Option Cond
  | [.int v] => some (mk v)
  | [.vacuous] => some vac
  | _ => none

/-- the parsed condition for the values `vs` of opcode `op` (required arguments, then what the tail rule
added) -/
def build (op : Nat) (vs : List Val) : Option Cond :=
  if 256 ≤ op ∧ op ≤ 65535 then noArgs (.softfork (Spec.unknownConditionCost op)) vs
  else match op with
  | 1 => noArgs .skip vs
  | 43 => twoBytes (.aggSig 43) vs
  | 44 => twoBytes (.aggSig 44) vs
  | 45 => twoBytes (.aggSig 45) vs
  | 46 => twoBytes (.aggSig 46) vs
  | 47 => twoBytes (.aggSig 47) vs
  | 48 => twoBytes (.aggSig 48) vs
  | 49 => twoBytes (.aggSig 49) vs
  | 50 => twoBytes (.aggSig 50) vs
  | 51 => (match vs with
           | [.bytes ph, .int amount, .hint h] => some (.createCoin ph amount h)
           | _ => none)
  | 52 => oneInt .reserveFee vs
  | 60 => oneBytes .createCoinAnnouncement vs
  | 61 => oneBytes .assertCoinAnnouncement vs
  | 62 => oneBytes .createPuzzleAnnouncement vs
  | 63 => oneBytes .assertPuzzleAnnouncement vs
  | 64 => oneBytes .assertConcurrentSpend vs
  | 65 => oneBytes .assertConcurrentPuzzle vs
  | 66 => (match vs with
           | [.int mode, .bytes msg, .key dst] => some (.sendMessage (Side.high.select mode) dst msg)
           | _ => none)
  | 67 => (match vs with
           | [.int mode, .bytes msg, .key src] => some (.receiveMessage src (Side.low.select mode) msg)
           | _ => none)
  | 70 => oneBytes .assertMyCoinId vs
  | 71 => oneBytes .assertMyParentId vs
  | 72 => oneBytes .assertMyPuzzlehash vs
  | 73 => oneInt .assertMyAmount vs
  | 74 => oneInt .assertMyBirthSeconds vs
  | 75 => oneInt .assertMyBirthHeight vs
  | 76 => noArgs .assertEphemeral vs
  | 80 => lockInt .assertSecondsRelative .skipRelativeCondition vs
  | 81 => lockInt .assertSecondsAbsolute .skip vs
  | 82 => lockInt .assertHeightRelative .skipRelativeCondition vs
  | 83 => lockInt .assertHeightAbsolute .skip vs
  | 84 => lockInt .assertBeforeSecondsRelative .skipRelativeCondition vs
  | 85 => lockInt .assertBeforeSecondsAbsolute .skip vs
  | 86 => lockInt .assertBeforeHeightRelative .skipRelativeCondition vs
  | 87 => lockInt .assertBeforeHeightAbsolute .skip vs
  | 90 => oneInt (fun cost => .softfork (cost * 10000)) vs
  | _ => none

/-! ## the specification of `parse_args` -/

/-- walk the required arguments, apply the tail rule and the strict-terminator rule, build the condition -/
def interp (kinds : List ArgKind) (tail : Tail) (bld : List Val → Option Cond) (c : Sexp) (flags : Nat) : R Cond :=
  match walk kinds c with
  | none => .error .reject
  | some (vals, t) =>
    match tailRule tail vals t with
    | none => .error .reject
    | some (extra, endNode) =>
      if terminatorOk flags endNode then
        match bld (vals ++ extra) with
        | some cva => .ok cva
        | none => .error .reject
      else .error .reject

/-- **Table-driven specification of `parse_args`**: the parsed condition for the argument list `c` of
opcode number `op` under `flags`, or rejection -/
def specParseArgs (c : Sexp) (op flags : Nat) : R Cond :=
  match grammar op with
  | none => .error .reject
  | some (kinds, tail) =>
    if unknownClass op && hasFlag flags Gen.flagNoUnknownConds then .error .reject
    else interp kinds tail (build op) c flags

end ChiaModel.Grammar

/-! ## the condition list, the spend and the generator output over the table-driven grammar

The same recursions as `parseItem` / `parseAll` (Lemmas/PermLoop.lean) and `parseSpend` / `parseSpendList` /
`parseBundle` (Spec/BundleRules.lean), with `specParseArgs` in the place of the model's `parseArgs`. -/

namespace ChiaModel.Rules
open ChiaModel ChiaModel.Cond ChiaModel.Grammar

/-- one element of a condition list: `(opcode . args)`; an element whose first is not an opcode is ignored
(rejected under NO_UNKNOWN_CONDS); otherwise its arguments parse per the table -/
def specParseItem (flags : Nat) (c : Sexp) : R Item :=
  match c with
  | .atom _ => .error .reject
  | .pair opn args =>
    match parseOpcode opn with
    | none => if hasFlag flags Gen.flagNoUnknownConds then .error .reject else .ok .unknown
    | some op =>
      match specParseArgs args op flags with
      | .ok cva => .ok (.known op cva)
      | .error e => .error e

def specParseAll (flags : Nat) : List Sexp → R (List Item)
  | [] => .ok []
  | c :: cs =>
    match specParseItem flags c, specParseAll flags cs with
    | .ok it, .ok its => .ok (it :: its)
    | .error e, _ => .error e
    | .ok _, .error e => .error e

def specParseSpend (flags : Nat) (sp : Sexp) : Option PSpend :=
  match spendTuple sp with
  | none => none
  | some (a, conds) =>
    match sexpList conds with
    | none => none
    | some cs =>
      match specParseAll flags cs with
      | .ok items => some ⟨a, items⟩
      | .error _ => none

def specParseSpendList (flags : Nat) : List Sexp → Option (List PSpend)
  | [] => some []
  | sp :: l =>
    match specParseSpend flags sp, specParseSpendList flags l with
    | some p, some ps => some (p :: ps)
    | _, _ => none

/-- generator output `(spends . ext)` parsed with the table-driven argument grammar -/
def specParseBundle (flags : Nat) : Sexp → Option (List PSpend)
  | .pair spends _ =>
    match sexpList spends with
    | some l => specParseSpendList flags l
    | none => none
  | .atom _ => none

end ChiaModel.Rules
