def hello := "world"
