import ChiaModel.Base.Bytes
import ChiaModel.Model.ClvmScan
/-!
# Streamable wire codec (C13, C14): descriptor-indexed model

`Ty` is the universe of Streamable type descriptors (what `translator/extract.py` renders for every
`#[streamable]` / `derive(Streamable)` item into `Gen/Streamable.lean`), `V` the untyped value trees
that are checked against a descriptor by `encode`/`WF`.

The model mirrors `chia-traits/src/streamable.rs` (trait, primitives, `Option`/`Vec`/tuple/array/`String`
impls, `read_bytes`, the 2 MiB pre-allocation cap, the trailing-bytes check of `from_bytes`), the derive
macro (`chia_streamable_macro`: the three methods field by field, enums as `u8` with an explicit
discriminant list) and the hand-written codecs of `chia-protocol` (`Bytes`, `BytesImpl<N>`, `Program`,
`ProofOfSpace`, `FullBlock`/`UnfinishedBlock` generator tail, the two Options packed into one prefix byte
by `utils::{parse, stream, update_digest}`) and `chia-bls` (`PublicKey`, `Signature`, `GTElement`,
`SecretKey`).

Everything is defined by structural recursion on `Ty` (mutually with `List Ty`) out of higher-order
combinators on decoders/encoders, so that the lemmas of `Lemmas/Streamable.lean` are modular.

* `decode` returns a `Res`: an `Outcome` (`ok` / `err` / `panic site`) plus the number of bytes
  *reserved ahead of parsing* (`Vec::with_capacity`), summed over the run.  Every `unwrap`, `[index]`,
  `expect`, `panic!` that the Rust methods contain is an explicit `panic` branch here; theorem
  `C14.decode_total` shows that `decode` never takes one, `C14.post_ops_partial` says which ones
  `digestChunks` (the model of `update_digest`) can take.
* External code is a parameter (`Oracles`): blst point validity, the CLVM serialised-length scan of
  clvmr, the `chia_pos2` quality string.  No axioms: theorems take `OracleContract O` as a hypothesis.

No Mathlib: this file is linked into the compiled driver.
-/
namespace ChiaModel.Streamable

/-- type descriptors -/
inductive Ty where
  /-- `u8 … u128`: `n` bytes big-endian -/
  | uint (n : Nat)
  /-- `i8 … i128`: `n` bytes big-endian two's complement -/
  | sint (n : Nat)
  | bool
  | unit
  /-- `Bytes`: u32 length prefix + raw bytes -/
  | bytes
  /-- `BytesImpl<N>` -/
  | bytesN (n : Nat)
  /-- `String`: u32 length prefix + UTF-8 (validated by `parse`) -/
  | str
  | option (t : Ty)
  | vec (t : Ty)
  | tuple (ts : List Ty)
  | array (n : Nat) (t : Ty)
  /-- derived struct (named, tuple or unit): the fields in declaration order -/
  | struct (name : String) (fields : List String) (ts : List Ty)
  /-- fieldless enum streamed as `u8`, with its literal discriminants -/
  | enum8 (name : String) (vals : List Nat)
  /-- `Program`: one self-delimiting CLVM serialisation -/
  | program
  | g1
  | g2
  | gt
  | secretKey
  /-- two `Option`s sharing one prefix byte 0–3 (`chia-protocol/src/utils.rs`) -/
  | optpair (t u : Ty)
  /-- tail of `FullBlock`/`UnfinishedBlock`: `transactions_generator`, `…_ref_list`, `…_buffer`, `version`
  behind one prefix byte (`version << 1 | present`); `panics` = `update_digest` panics on version ≥ 2 -/
  | genTail (panics : Bool)
  /-- `ProofOfSpace` (prefix byte of `pool_contract_puzzle_hash` = `version << 1 | present`) -/
  | proofOfSpace

/-- untyped value trees -/
inductive V where
  | n (x : Nat)
  | i (x : Int)
  | b (x : Bool)
  | unit
  /-- `Bytes`, `BytesImpl<N>`, `String` (its UTF-8), `Program`, BLS elements (their canonical bytes) -/
  | bytes (b : Bytes)
  | none
  | some (v : V)
  /-- `Vec`, arrays -/
  | list (l : List V)
  /-- tuples, structs, and the field lists of the hand-written records -/
  | tup (l : List V)
  deriving BEq, Repr

/-- external code, as parameters of the model -/
structure Oracles where
  /-- blst on 48 bytes: 0 = rejected, 1 = accepted by `from_bytes_unchecked` only (on the curve, not in
  the subgroup), 2 = accepted by `from_bytes` -/
  g1 : Bytes → Nat
  /-- same for 96-byte signatures -/
  g2 : Bytes → Nat
  /-- `SecretKey::from_bytes` accepts these 32 bytes -/
  sk : Bytes → Bool
  /-- clvmr `serialized_length_from_bytes_trusted` (`true`) / `serialized_length_from_bytes` (`false`) -/
  serLen : Bool → Bytes → Option Nat
  /-- `ProofOfSpace::quality_string` of a version-2 proof, keyed by the wire encoding of the proof of space -/
  quality : Bytes → Option Bytes

/-- what the theorems assume about the external code (monitored on every run by the correspondence) -/
structure OracleContract (O : Oracles) : Prop where
  /-- the scan reads only the bytes it reports: the serialisation it found is itself accepted, with any suffix -/
  serLen_prefix : ∀ tr b n, O.serLen tr b = some n → n ≤ b.length → ∀ r, O.serLen tr (b.take n ++ r) = some n
  /-- the trusted scan accepts what the validating scan accepts, with the same length -/
  serLen_trusted : ∀ b n, O.serLen false b = some n → O.serLen true b = some n
  /-- a serialisation has at least one byte -/
  serLen_pos : ∀ tr b n, O.serLen tr b = some n → 0 < n

inductive Outcome (α : Type) where
  | ok (a : α)
  | err
  | panic (site : String)
  deriving Repr

/-- outcome of a decoding run + bytes reserved ahead of parsing (`Vec::with_capacity`), summed -/
structure Res (α : Type) where
  out : Outcome α
  alloc : Nat

namespace Res
@[inline] def pure {α : Type} (a : α) : Res α := ⟨.ok a, 0⟩
@[inline] def fail {α : Type} : Res α := ⟨.err, 0⟩
@[inline] def site {α : Type} (s : String) : Res α := ⟨.panic s, 0⟩
@[inline] def reserve (a : Nat) : Res Unit := ⟨.ok (), a⟩
@[inline] def bind {α β : Type} (x : Res α) (f : α → Res β) : Res β :=
  match x.out with
  | .ok a => ⟨(f a).out, x.alloc + (f a).alloc⟩
  | .err => ⟨.err, x.alloc⟩
  | .panic s => ⟨.panic s, x.alloc⟩
end Res

abbrev Dec := Bytes → Res (V × Bytes)
abbrev Enc := V → Option Bytes
abbrev Wf := V → Bool
abbrev Dig := V → Outcome (List Bytes)

/-! ## sizes -/

/-- `2 * 1024 * 1024`: cap on the bytes reserved by one `Vec::with_capacity` in `Vec<T>::parse` -/
def allocCap : Nat := 2097152

mutual
/-- approximation of `mem::size_of::<T>()` (padding ignored).  Only two facts matter: the reservation is
`min (cap / size) len * size ≤ cap`, and zero-sized elements reserve nothing. -/
def memSize : Ty → Nat
  | .uint n => n
  | .sint n => n
  | .bool => 1
  | .unit => 0
  | .bytes => 24
  | .bytesN n => n
  | .str => 24
  | .option t => memSize t + 1
  | .vec _ => 24
  | .tuple ts => memSizeL ts
  | .array n t => n * memSize t
  | .struct _ _ ts => memSizeL ts
  | .enum8 _ _ => 1
  | .program => 24
  | .g1 => 144
  | .g2 => 288
  | .gt => 576
  | .secretKey => 32
  | .optpair t u => memSize t + memSize u + 2
  | .genTail _ => 80
  | .proofOfSpace => 400
def memSizeL : List Ty → Nat
  | [] => 0
  | t :: ts => memSize t + memSizeL ts
end

mutual
/-- least number of bytes an accepted encoding of the type has -/
def minWire : Ty → Nat
  | .uint n => n
  | .sint n => n
  | .bool => 1
  | .unit => 0
  | .bytes => 4
  | .bytesN n => n
  | .str => 4
  | .option _ => 1
  | .vec _ => 4
  | .tuple ts => minWireL ts
  | .array n t => n * minWire t
  | .struct _ _ ts => minWireL ts
  | .enum8 _ _ => 1
  | .program => 1
  | .g1 => 48
  | .g2 => 96
  | .gt => 576
  | .secretKey => 32
  | .optpair _ _ => 1
  | .genTail _ => 1
  | .proofOfSpace => 87
def minWireL : List Ty → Nat
  | [] => 0
  | t :: ts => minWire t + minWireL ts
end

/-! ## UTF-8 (what `std::str::from_utf8` accepts: Unicode table 3-7) -/

@[inline] def cont (y : Nat) : Bool := 0x80 ≤ y && y ≤ 0xBF

def validUtf8 : Bytes → Bool
  | [] => true
  | x :: rest =>
    if x < 0x80 then validUtf8 rest
    else match rest with
      | [] => false
      | y :: r2 =>
        if 0xC2 ≤ x && x ≤ 0xDF then cont y && validUtf8 r2
        else match r2 with
          | [] => false
          | z :: r3 =>
            if x == 0xE0 then (0xA0 ≤ y && y ≤ 0xBF) && cont z && validUtf8 r3
            else if (0xE1 ≤ x && x ≤ 0xEC) || x == 0xEE || x == 0xEF then cont y && cont z && validUtf8 r3
            else if x == 0xED then (0x80 ≤ y && y ≤ 0x9F) && cont z && validUtf8 r3
            else match r3 with
              | [] => false
              | w :: r4 =>
                if x == 0xF0 then (0x90 ≤ y && y ≤ 0xBF) && cont z && cont w && validUtf8 r4
                else if 0xF1 ≤ x && x ≤ 0xF3 then cont y && cont z && cont w && validUtf8 r4
                else if x == 0xF4 then (0x80 ≤ y && y ≤ 0x8F) && cont z && cont w && validUtf8 r4
                else false

/-! ## decoders -/

/-- `read_bytes`: error when fewer than `n` bytes remain, else the next `n` bytes -/
def readBytes (n : Nat) (b : Bytes) : Outcome (Bytes × Bytes) :=
  if ClvmScan.lenGe b n then .ok (b.take n, b.drop n) else .err

/-- `read_bytes(input, n)?.try_into().unwrap()`: panics unless the slice has exactly `n` bytes -/
def readFixed (site : String) (n : Nat) (b : Bytes) : Res (Bytes × Bytes) :=
  match readBytes n b with
  | .ok (c, r) => if c.length = n then .pure (c, r) else .site site
  | .err => .fail
  | .panic s => .site s

/-- `read_bytes(input, 1)?[0]` -/
def readByte (site : String) (b : Bytes) : Res (Nat × Bytes) :=
  match readBytes 1 b with
  | .ok (c, r) => match c with
    | x :: _ => .pure (x, r)
    | [] => .site site
  | .err => .fail
  | .panic s => .site s

def sitePrim : String := "chia-traits/src/streamable.rs streamable_primitive parse: try_into().unwrap()"
def siteBool : String := "chia-traits/src/streamable.rs bool parse: read_bytes(input, 1)?[0]"
def siteOption : String := "chia-traits/src/streamable.rs Option parse: read_bytes(input, 1)?[0]"
def siteBytesN : String := "chia-protocol/src/bytes.rs BytesImpl parse: try_into().unwrap()"
def siteG1 : String := "chia-bls/src/public_key.rs parse: try_into().unwrap()"
def siteG2 : String := "chia-bls/src/signature.rs parse: try_into().unwrap()"
def siteGt : String := "chia-bls/src/gtelement.rs parse: try_into().unwrap()"
def siteSk : String := "chia-bls/src/secret_key.rs parse: try_into().unwrap()"
def siteProgram : String := "chia-protocol/src/program.rs parse: buf[..len as usize]"
def sitePosVersion : String := "chia-protocol/src/proof_of_space.rs update_digest: panic!(version field must be 0 or 1)"
def sitePosQuality : String := "chia-protocol/src/proof_of_space.rs update_digest: quality_string().expect(..)"
def sitePosPlotId : String := "chia-protocol/src/proof_of_space.rs compute_plot_id_v2: panic!(neither pool key nor contract hash)"
def siteFullBlockVersion : String := "chia-protocol/src/fullblock.rs update_digest: panic!(version field must be 0 or 1)"

/-- unsigned integer of `n` bytes as a number -/
def readUint (n : Nat) (b : Bytes) : Res (Nat × Bytes) :=
  (readFixed sitePrim n b).bind fun cr => .pure (beVal cr.1, cr.2)

def decUint (n : Nat) : Dec := fun b =>
  (readUint n b).bind fun xr => .pure (.n xr.1, xr.2)

/-- two's complement value of the `n`-byte pattern `u` -/
def toSigned (n : Nat) (u : Nat) : Int :=
  if 2 * u < 256 ^ n then (u : Int) else (u : Int) - (256 ^ n : Nat)

def decSint (n : Nat) : Dec := fun b =>
  (readUint n b).bind fun xr => .pure (.i (toSigned n xr.1), xr.2)

def decBool : Dec := fun b =>
  (readByte siteBool b).bind fun xr =>
    if xr.1 = 0 then .pure (.b false, xr.2) else if xr.1 = 1 then .pure (.b true, xr.2) else .fail

def decUnit : Dec := fun b => .pure (.unit, b)

/-- shared shape of `Bytes::parse` (`ok = fun _ => true`) and `String::parse` (`ok = validUtf8`):
u32 length, `read_bytes`, validation -/
def decLenPrefixed (ok : Bytes → Bool) : Dec := fun b =>
  (readUint 4 b).bind fun lr =>
    match readBytes lr.1 lr.2 with
    | .ok (c, r) => if ok c then .pure (.bytes c, r) else .fail
    | .err => .fail
    | .panic s => .site s

def decBytes : Dec := decLenPrefixed fun _ => true

def decBytesN (n : Nat) : Dec := fun b =>
  (readFixed siteBytesN n b).bind fun cr => .pure (.bytes cr.1, cr.2)

def decStr : Dec := decLenPrefixed validUtf8

def decOption (f : Dec) : Dec := fun b =>
  (readByte siteOption b).bind fun xr =>
    if xr.1 = 0 then .pure (.none, xr.2)
    else if xr.1 = 1 then (f xr.2).bind fun vr => .pure (.some vr.1, vr.2)
    else .fail

/-- `for _ in 0..n { ret.push(T::parse(input)?) }` -/
def repeatN (f : Dec) : Nat → Bytes → Res (List V × Bytes)
  | 0, b => .pure ([], b)
  | n + 1, b => (f b).bind fun vr => (repeatN f n vr.2).bind fun lr => .pure (vr.1 :: lr.1, lr.2)

/-- bytes reserved by `Vec::<T>::with_capacity(min(2 MiB / size_of::<T>(), len))` (nothing for zero-sized `T`) -/
def reservation (sz len : Nat) : Nat :=
  if sz = 0 then 0 else min (allocCap / sz) len * sz

def decVec (sz : Nat) (f : Dec) : Dec := fun b =>
  (readUint 4 b).bind fun lr =>
    (Res.reserve (reservation sz lr.1)).bind fun _ =>
      (repeatN f lr.1 lr.2).bind fun vr => .pure (.list vr.1, vr.2)

def decArray (n : Nat) (f : Dec) : Dec := fun b =>
  (repeatN f n b).bind fun vr => .pure (.list vr.1, vr.2)

def decEnum (vals : List Nat) : Dec := fun b =>
  (readUint 1 b).bind fun xr => if vals.contains xr.1 then .pure (.n xr.1, xr.2) else .fail

/-- `Program::parse`: the scan yields the length; shorter input is `EndOfBuffer` -/
def decProgram (O : Oracles) (tr : Bool) : Dec := fun b =>
  match O.serLen tr b with
  | none => .fail
  | some len => if !ClvmScan.lenGe b len then .fail else
      if (b.take len).length = len then .pure (.bytes (b.take len), b.drop len) else .site siteProgram

/-- fixed-width opaque element with a validity test -/
def decOpaque (site : String) (n : Nat) (valid : Bytes → Bool) : Dec := fun b =>
  (readFixed site n b).bind fun cr => if valid cr.1 then .pure (.bytes cr.1, cr.2) else .fail

def pointOk (tr : Bool) (status : Nat) : Bool := if tr then 1 ≤ status else status == 2

def decG1 (O : Oracles) (tr : Bool) : Dec := decOpaque siteG1 48 fun c => pointOk tr (O.g1 c)
def decG2 (O : Oracles) (tr : Bool) : Dec := decOpaque siteG2 96 fun c => pointOk tr (O.g2 c)
def decGt : Dec := decOpaque siteGt 576 fun _ => true
def decSk (O : Oracles) : Dec := decOpaque siteSk 32 O.sk

/-- `utils::parse::<TRUSTED, T, U>` -/
def decOptPair (f g : Dec) : Dec := fun b =>
  (readUint 1 b).bind fun xr =>
    if xr.1 = 0 then .pure (.tup [.none, .none], xr.2)
    else if xr.1 = 1 then (f xr.2).bind fun vr => .pure (.tup [.some vr.1, .none], vr.2)
    else if xr.1 = 2 then (g xr.2).bind fun wr => .pure (.tup [.none, .some wr.1], wr.2)
    else if xr.1 = 3 then (f xr.2).bind fun vr => (g vr.2).bind fun wr => .pure (.tup [.some vr.1, .some wr.1], wr.2)
    else .fail

/-- `if present { Some(T::parse(input)?) } else { None }` (the prefix byte was read by the caller) -/
def decPresent (present : Bool) (f : Dec) : Dec := fun b =>
  if present then (f b).bind fun vr => .pure (.some vr.1, vr.2) else .pure (.none, b)

/-- tail of `FullBlock::parse` / `UnfinishedBlock::parse`; value = `[transactions_generator,
transactions_generator_ref_list, transactions_generator_buffer, version]` -/
def decGenTail (O : Oracles) (tr : Bool) : Dec := fun b =>
  (readUint 1 b).bind fun xr =>
    let version := xr.1 / 2
    let has := xr.1 % 2 != 0
    if version = 0 then
      (decPresent has (decProgram O tr) xr.2).bind fun gr =>
        (decVec 4 (decUint 4) gr.2).bind fun lr => .pure (.tup [gr.1, lr.1, .none, .n 0], lr.2)
    else if version = 1 then
      (decPresent has decBytes xr.2).bind fun br =>
        .pure (.tup [.none, .list [], br.1, .n 1], br.2)
    else .fail

def isSomeV : V → Bool
  | .some _ => true
  | _ => false

/-- `ProofOfSpace::parse`; value = the ten fields of the struct in declaration order -/
def decPos (O : Oracles) (tr : Bool) : Dec := fun b =>
  (decBytesN 32 b).bind fun ch =>
  (decOption (decG1 O tr) ch.2).bind fun pp =>
  (readUint 1 pp.2).bind fun px =>
  let version := px.1 / 2
  (decPresent (px.1 % 2 != 0) (decBytesN 32) px.2).bind fun ct =>
  (decG1 O tr ct.2).bind fun pk =>
  if version = 0 then
    (decUint 1 pk.2).bind fun sz =>
    (decBytes sz.2).bind fun pf =>
      .pure (.tup [ch.1, pp.1, ct.1, pk.1, .n 0, .n 0, .n 0, .n 0, sz.1, pf.1], pf.2)
  else if version = 1 then
    (decUint 2 pk.2).bind fun pi =>
    (decUint 1 pi.2).bind fun mg =>
    (decUint 1 mg.2).bind fun st =>
    (decBytes st.2).bind fun pf =>
      if isSomeV pp.1 == isSomeV ct.1 then .fail
      else .pure (.tup [ch.1, pp.1, ct.1, pk.1, .n 1, pi.1, mg.1, st.1, .n 0, pf.1], pf.2)
  else .fail

/-- the fields of a tuple / struct, wrapped -/
def decTup (d : Bytes → Res (List V × Bytes)) : Dec := fun b =>
  (d b).bind fun vr => .pure (.tup vr.1, vr.2)

mutual
/-- `T::parse::<TRUSTED>` -/
def decode (O : Oracles) (tr : Bool) : Ty → Dec
  | .uint n => decUint n
  | .sint n => decSint n
  | .bool => decBool
  | .unit => decUnit
  | .bytes => decBytes
  | .bytesN n => decBytesN n
  | .str => decStr
  | .option t => decOption (decode O tr t)
  | .vec t => decVec (memSize t) (decode O tr t)
  | .tuple ts => decTup (decodeL O tr ts)
  | .array n t => decArray n (decode O tr t)
  | .struct _ _ ts => decTup (decodeL O tr ts)
  | .enum8 _ vals => decEnum vals
  | .program => decProgram O tr
  | .g1 => decG1 O tr
  | .g2 => decG2 O tr
  | .gt => decGt
  | .secretKey => decSk O
  | .optpair t u => decOptPair (decode O tr t) (decode O tr u)
  | .genTail _ => decGenTail O tr
  | .proofOfSpace => decPos O tr
/-- the fields of a tuple / struct, in order -/
def decodeL (O : Oracles) (tr : Bool) : List Ty → Bytes → Res (List V × Bytes)
  | [], b => .pure ([], b)
  | t :: ts, b => (decode O tr t b).bind fun vr => (decodeL O tr ts vr.2).bind fun lr => .pure (vr.1 :: lr.1, lr.2)
end

/-- `from_bytes` (`tr = false`) / `from_bytes_unchecked` (`tr = true`): parse, then require that the whole
input was consumed (`InputTooLarge` otherwise) -/
def fromBytes (O : Oracles) (tr : Bool) (t : Ty) (b : Bytes) : Res V :=
  (decode O tr t b).bind fun vr => if vr.2.isEmpty then .pure vr.1 else .fail

/-! ## encoders (`stream`); `none` = `Err(..)` or a value that is not of the type -/

def encUint (n : Nat) : Enc
  | .n x => if x < 256 ^ n then some (be n x) else none
  | _ => none

/-- the `n`-byte two's complement pattern of `x` -/
def ofSigned (n : Nat) (x : Int) : Nat :=
  if 0 ≤ x then x.toNat else (x + (256 ^ n : Nat)).toNat

def sintOk (n : Nat) (x : Int) : Bool :=
  decide (-((256 ^ n : Nat) : Int) ≤ 2 * x) && decide (2 * x < ((256 ^ n : Nat) : Int))

def encSint (n : Nat) : Enc
  | .i x => if sintOk n x then some (be n (ofSigned n x)) else none
  | _ => none

def encBool : Enc
  | .b true => some [1]
  | .b false => some [0]
  | _ => none

def encUnit : Enc
  | .unit => some []
  | _ => none

def u32Max : Nat := 4294967296

def encBytes : Enc
  | .bytes c => if c.length < u32Max then some (be 4 c.length ++ c) else none
  | _ => none

def encBytesN (n : Nat) : Enc
  | .bytes c => if c.length = n then some c else none
  | _ => none

def encStr : Enc
  | .bytes c => if c.length < u32Max && validUtf8 c then some (be 4 c.length ++ c) else none
  | _ => none

def encOption (e : Enc) : Enc
  | .none => some [0]
  | .some v => (e v).map (1 :: ·)
  | _ => none

/-- both encodings, concatenated, or nothing -/
def optAppend : Option Bytes → Option Bytes → Option Bytes
  | some a, some b => some (a ++ b)
  | _, _ => none

@[simp] theorem optAppend_some (a b : Bytes) : optAppend (some a) (some b) = some (a ++ b) := rfl
@[simp] theorem optAppend_none_left (b : Option Bytes) : optAppend none b = none := rfl
@[simp] theorem optAppend_none_right (a : Option Bytes) : optAppend a none = none := by cases a <;> rfl

def encAll (e : Enc) : List V → Option Bytes
  | [] => some []
  | v :: vs => optAppend (e v) (encAll e vs)

def encVec (e : Enc) : Enc
  | .list l => if l.length < u32Max then (encAll e l).map (be 4 l.length ++ ·) else none
  | _ => none

def encArray (n : Nat) (e : Enc) : Enc
  | .list l => if l.length = n then encAll e l else none
  | _ => none

def encEnum (vals : List Nat) : Enc
  | .n x => if vals.contains x then some [x] else none
  | _ => none

/-- `Program::stream`: the stored bytes -/
def encProgram : Enc
  | .bytes c => some c
  | _ => none

def encOptPair (e g : Enc) : Enc
  | .tup [.none, .none] => some [0]
  | .tup [.some x, .none] => (e x).map (1 :: ·)
  | .tup [.none, .some y] => (g y).map (2 :: ·)
  | .tup [.some x, .some y] => (optAppend (e x) (g y)).map (3 :: ·)
  | _ => none

/-- tail of `FullBlock::stream`: the buffer length is written as `buf.len() as u32` (truncating, unchecked) -/
def encGenTail : Enc
  | .tup [gen, refs, buf, .n version] =>
    if version = 0 then optAppend (encOption encProgram gen) (encVec (encUint 4) refs)
    else if version = 1 then
      match buf with
      | .none => some [2]
      | .some (.bytes c) => some (3 :: (be 4 c.length ++ c))
      | _ => none
    else none
  | _ => none

/-- version-2 form of `pool_contract_puzzle_hash`: prefix `0b10` (absent) / `0b11` + the 32 bytes -/
def encContract2 : Enc
  | .none => some [2]
  | .some c => (encBytesN 32 c).map (3 :: ·)
  | _ => none

/-- `ProofOfSpace::stream` (`forHash = false`) and what `update_digest` hashes (`forHash = true`: for version 1
the proof is replaced by the 32-byte quality-string commitment; `none` when there is none) -/
def encPos (O : Oracles) (forHash : Bool) : Enc
  | .tup [ch, pp, ct, pk, .n version, .n pi, .n mg, .n st, .n sz, pf] =>
    match encBytesN 32 ch, encOption (encBytesN 48) pp, encBytesN 48 pk, encBytes pf with
    | some chb, some ppb, some pkb, some pfb =>
      if version = 0 then
        match encOption (encBytesN 32) ct, encUint 1 (.n sz) with
        | some ctb, some szb => some (chb ++ ppb ++ ctb ++ pkb ++ szb ++ pfb)
        | _, _ => none
      else if version = 1 then
        match encContract2 ct, encUint 2 (.n pi), encUint 1 (.n mg), encUint 1 (.n st) with
        | some ctb, some pib, some mgb, some stb =>
          let head := chb ++ ppb ++ ctb ++ pkb ++ pib ++ mgb ++ stb
          if forHash then (O.quality (head ++ pfb)).map (head ++ ·) else some (head ++ pfb)
        | _, _, _, _ => none
      else none
    | _, _, _, _ => none
  | _ => none

def encTup (e : List V → Option Bytes) : Enc
  | .tup l => e l
  | _ => none

mutual
/-- `stream` (`forHash = false`); with `forHash = true`: the byte string the property prescribes as the hash
pre-image (differs from the encoding only inside version-2 proofs of space) -/
def encodeH (O : Oracles) (forHash : Bool) : Ty → Enc
  | .uint n => encUint n
  | .sint n => encSint n
  | .bool => encBool
  | .unit => encUnit
  | .bytes => encBytes
  | .bytesN n => encBytesN n
  | .str => encStr
  | .option t => encOption (encodeH O forHash t)
  | .vec t => encVec (encodeH O forHash t)
  | .tuple ts => encTup (encodeLH O forHash ts)
  | .array n t => encArray n (encodeH O forHash t)
  | .struct _ _ ts => encTup (encodeLH O forHash ts)
  | .enum8 _ vals => encEnum vals
  | .program => encProgram
  | .g1 => encBytesN 48
  | .g2 => encBytesN 96
  | .gt => encBytesN 576
  | .secretKey => encBytesN 32
  | .optpair t u => encOptPair (encodeH O forHash t) (encodeH O forHash u)
  | .genTail _ => encGenTail
  | .proofOfSpace => encPos O forHash
def encodeLH (O : Oracles) (forHash : Bool) : List Ty → List V → Option Bytes
  | [], [] => some []
  | t :: ts, v :: vs => optAppend (encodeH O forHash t v) (encodeLH O forHash ts vs)
  | _, _ => none
end

/-- `to_bytes` -/
def encode (O : Oracles) (t : Ty) (v : V) : Option Bytes := encodeH O false t v
/-- the prescribed hash pre-image -/
def encodeForHash (O : Oracles) (t : Ty) (v : V) : Option Bytes := encodeH O true t v

/-! ## well-formed values (what an untrusted decoder can return; explicit and decidable) -/

def wfUint (n : Nat) : Wf
  | .n x => decide (x < 256 ^ n)
  | _ => false
def wfSint (n : Nat) : Wf
  | .i x => sintOk n x
  | _ => false
def wfBool : Wf
  | .b _ => true
  | _ => false
def wfUnit : Wf
  | .unit => true
  | _ => false
def wfBytes : Wf
  | .bytes c => decide (c.length < u32Max)
  | _ => false
def wfBytesN (n : Nat) : Wf
  | .bytes c => decide (c.length = n)
  | _ => false
def wfStr : Wf
  | .bytes c => decide (c.length < u32Max) && validUtf8 c
  | _ => false
def wfOption (w : Wf) : Wf
  | .none => true
  | .some v => w v
  | _ => false
def wfVec (w : Wf) : Wf
  | .list l => decide (l.length < u32Max) && l.all w
  | _ => false
def wfArray (n : Nat) (w : Wf) : Wf
  | .list l => decide (l.length = n) && l.all w
  | _ => false
def wfEnum (vals : List Nat) : Wf
  | .n x => vals.contains x
  | _ => false
def wfProgram (O : Oracles) (tr : Bool) : Wf
  | .bytes c => O.serLen tr c == some c.length
  | _ => false
def wfOpaque (n : Nat) (valid : Bytes → Bool) : Wf
  | .bytes c => decide (c.length = n) && valid c
  | _ => false
def wfG1 (O : Oracles) (tr : Bool) : Wf := wfOpaque 48 fun c => pointOk tr (O.g1 c)
def wfG2 (O : Oracles) (tr : Bool) : Wf := wfOpaque 96 fun c => pointOk tr (O.g2 c)
def wfOptPair (w x : Wf) : Wf
  | .tup [a, b] => wfOption w a && wfOption x b
  | _ => false
def wfGenTail (O : Oracles) (tr : Bool) : Wf
  | .tup [gen, refs, buf, .n version] =>
    if version = 0 then wfOption (wfProgram O tr) gen && wfVec (wfUint 4) refs && (buf matches .none)
    else if version = 1 then (gen matches .none) && (refs matches .list []) && wfOption wfBytes buf
    else false
  | _ => false
def wfPos (O : Oracles) (tr : Bool) : Wf
  | .tup [ch, pp, ct, pk, .n version, .n pi, .n mg, .n st, .n sz, pf] =>
    wfBytesN 32 ch && wfOption (wfG1 O tr) pp && wfOption (wfBytesN 32) ct && wfG1 O tr pk && wfBytes pf &&
    (if version = 0 then pi == 0 && mg == 0 && st == 0 && decide (sz < 256)
     else if version = 1 then decide (pi < 65536) && decide (mg < 256) && decide (st < 256) && sz == 0 &&
       (isSomeV pp != isSomeV ct)
     else false)
  | _ => false

def wfTup (w : List V → Bool) : Wf
  | .tup l => w l
  | _ => false

mutual
/-- the values `parse::<tr>` can return: `tr = false` is the property's notion of a well-formed value; with
`tr = true` points need only pass `from_bytes_unchecked` and programs the trusted scan -/
def WF (O : Oracles) (tr : Bool) : Ty → Wf
  | .uint n => wfUint n
  | .sint n => wfSint n
  | .bool => wfBool
  | .unit => wfUnit
  | .bytes => wfBytes
  | .bytesN n => wfBytesN n
  | .str => wfStr
  | .option t => wfOption (WF O tr t)
  | .vec t => wfVec (WF O tr t)
  | .tuple ts => wfTup (WFL O tr ts)
  | .array n t => wfArray n (WF O tr t)
  | .struct _ _ ts => wfTup (WFL O tr ts)
  | .enum8 _ vals => wfEnum vals
  | .program => wfProgram O tr
  | .g1 => wfG1 O tr
  | .g2 => wfG2 O tr
  | .gt => wfOpaque 576 fun _ => true
  | .secretKey => wfOpaque 32 O.sk
  | .optpair t u => wfOptPair (WF O tr t) (WF O tr u)
  | .genTail _ => wfGenTail O tr
  | .proofOfSpace => wfPos O tr
def WFL (O : Oracles) (tr : Bool) : List Ty → List V → Bool
  | [], [] => true
  | t :: ts, v :: vs => WF O tr t v && WFL O tr ts vs
  | _, _ => false
end

/-! ## `update_digest`: the chunks fed to the hasher, in order -/

namespace Outcome
@[inline] def bind {α β : Type} (x : Outcome α) (f : α → Outcome β) : Outcome β :=
  match x with
  | .ok a => f a
  | .err => .err
  | .panic s => .panic s
end Outcome

/-- digest of a leaf whose `update_digest` feeds exactly its encoding; `err` for ill-typed values -/
def digOfEnc (e : Enc) : Dig := fun v =>
  match e v with
  | some b => .ok [b]
  | none => .err

/-- `(len as u32).update_digest` + the raw bytes: no length check, the cast truncates -/
def digBytes : Dig
  | .bytes c => .ok [be 4 c.length, c]
  | _ => .err

def digOption (d : Dig) : Dig
  | .none => .ok [[0]]
  | .some v => (d v).bind fun cs => .ok ([1] :: cs)
  | _ => .err

def digAll (d : Dig) : List V → Outcome (List Bytes)
  | [] => .ok []
  | v :: vs => (d v).bind fun a => (digAll d vs).bind fun b => .ok (a ++ b)

def digVec (d : Dig) : Dig
  | .list l => (digAll d l).bind fun cs => .ok (be 4 l.length :: cs)
  | _ => .err

def digArray (d : Dig) : Dig
  | .list l => digAll d l
  | _ => .err

def digOptPair (d g : Dig) : Dig
  | .tup [.none, .none] => .ok [[0]]
  | .tup [.some x, .none] => (d x).bind fun cs => .ok ([1] :: cs)
  | .tup [.none, .some y] => (g y).bind fun cs => .ok ([2] :: cs)
  | .tup [.some x, .some y] => (d x).bind fun a => (g y).bind fun b => .ok ([3] :: (a ++ b))
  | _ => .err

def digGenTail (panics : Bool) : Dig
  | .tup [gen, refs, buf, .n version] =>
    if version = 0 then
      (digOption (digOfEnc encProgram) gen).bind fun a => (digVec (digOfEnc (encUint 4)) refs).bind fun b => .ok (a ++ b)
    else if version = 1 then
      match buf with
      | .none => .ok [[2]]
      | .some (.bytes c) => .ok [[3], be 4 c.length, c]
      | _ => .err
    else if panics then .panic siteFullBlockVersion
    else .ok ["invalid-unfinished-block-version".toUTF8.toList.map (·.toNat)]
  | _ => .err

def digContract2 : Dig
  | .none => .ok [[2]]
  | .some c => (digOfEnc (encBytesN 32) c).bind fun cs => .ok ([3] :: cs)
  | _ => .err

def digPos (O : Oracles) : Dig
  | .tup [ch, pp, ct, pk, .n version, .n pi, .n mg, .n st, .n sz, pf] =>
    (digOfEnc (encBytesN 32) ch).bind fun a =>
    (digOption (digOfEnc (encBytesN 48)) pp).bind fun b =>
    if version = 0 then
      (digOption (digOfEnc (encBytesN 32)) ct).bind fun c =>
      (digOfEnc (encBytesN 48) pk).bind fun d =>
      (digBytes pf).bind fun e => .ok (a ++ b ++ c ++ d ++ [be 1 sz] ++ e)
    else if version = 1 then
      (digContract2 ct).bind fun c =>
      (digOfEnc (encBytesN 48) pk).bind fun d =>
      let head := a ++ b ++ c ++ d ++ [be 2 pi, be 1 mg, be 1 st]
      -- quality_string(): compute_plot_id_v2 panics when neither key nor contract hash is set
      if !isSomeV pp && !isSomeV ct then .panic sitePosPlotId
      else match encBytes pf with
        | none => .err
        | some pfb =>
          match O.quality (head.flatten ++ pfb) with
          | some q => .ok (head ++ [q])
          | none => .panic sitePosQuality
    else .panic sitePosVersion
  | _ => .err

def digTup (d : List V → Outcome (List Bytes)) : Dig
  | .tup l => d l
  | _ => .err

def digUnit : Dig
  | .unit => .ok []
  | _ => .err

def digStr : Dig
  | .bytes c => if validUtf8 c then .ok [be 4 c.length, c] else .err
  | _ => .err

mutual
/-- `update_digest` -/
def digestChunks (O : Oracles) : Ty → Dig
  | .uint n => digOfEnc (encUint n)
  | .sint n => digOfEnc (encSint n)
  | .bool => digOfEnc encBool
  | .unit => digUnit
  | .bytes => digBytes
  | .bytesN n => digOfEnc (encBytesN n)
  | .str => digStr
  | .option t => digOption (digestChunks O t)
  | .vec t => digVec (digestChunks O t)
  | .tuple ts => digTup (digestL O ts)
  | .array _ t => digArray (digestChunks O t)
  | .struct _ _ ts => digTup (digestL O ts)
  | .enum8 _ vals => digOfEnc (encEnum vals)
  | .program => digOfEnc encProgram
  | .g1 => digOfEnc (encBytesN 48)
  | .g2 => digOfEnc (encBytesN 96)
  | .gt => digOfEnc (encBytesN 576)
  | .secretKey => digOfEnc (encBytesN 32)
  | .optpair t u => digOptPair (digestChunks O t) (digestChunks O u)
  | .genTail p => digGenTail p
  | .proofOfSpace => digPos O
def digestL (O : Oracles) : List Ty → List V → Outcome (List Bytes)
  | [], [] => .ok []
  | t :: ts, v :: vs => (digestChunks O t v).bind fun a => (digestL O ts vs).bind fun b => .ok (a ++ b)
  | _, _ => .err
end

/-! ## static facts used by C14 -/

mutual
/-- no `Vec` whose element type can have a zero-width encoding (`Vec<()>`, `Vec<EmptyStruct>`): such a vector
would make `parse` loop `len` times without consuming input -/
def noZeroWidthVec : Ty → Bool
  | .option t => noZeroWidthVec t
  | .vec t => decide (0 < minWire t) && noZeroWidthVec t
  | .tuple ts => noZeroWidthVecL ts
  | .array _ t => noZeroWidthVec t
  | .struct _ _ ts => noZeroWidthVecL ts
  | .optpair t u => noZeroWidthVec t && noZeroWidthVec u
  | _ => true
def noZeroWidthVecL : List Ty → Bool
  | [] => true
  | t :: ts => noZeroWidthVec t && noZeroWidthVecL ts
end

mutual
/-- names of the structs and enums occurring in a descriptor -/
def namesOf : Ty → List String
  | .option t => namesOf t
  | .vec t => namesOf t
  | .tuple ts => namesOfL ts
  | .array _ t => namesOf t
  | .struct n _ ts => n :: namesOfL ts
  | .enum8 n _ => [n]
  | .optpair t u => namesOf t ++ namesOf u
  | _ => []
def namesOfL : List Ty → List String
  | [] => []
  | t :: ts => namesOf t ++ namesOfL ts
end

mutual
/-- Σ over the `Vec` nodes of the descriptor of the element size: bytes reserved per input byte, at most -/
def allocFactor : Ty → Nat
  | .option t => allocFactor t
  | .vec t => memSize t + allocFactor t
  | .tuple ts => allocFactorL ts
  | .array _ t => allocFactor t
  | .struct _ _ ts => allocFactorL ts
  | .optpair t u => allocFactor t + allocFactor u
  | .genTail _ => 4
  | _ => 0
def allocFactorL : List Ty → Nat
  | [] => 0
  | t :: ts => allocFactor t + allocFactorL ts
end

mutual
/-- greatest number of `Vec` headers that can be open at once -/
def vecDepth : Ty → Nat
  | .option t => vecDepth t
  | .vec t => vecDepth t + 1
  | .tuple ts => vecDepthL ts
  | .array _ t => vecDepth t
  | .struct _ _ ts => vecDepthL ts
  | .optpair t u => max (vecDepth t) (vecDepth u)
  | .genTail _ => 1
  | _ => 0
def vecDepthL : List Ty → Nat
  | [] => 0
  | t :: ts => max (vecDepth t) (vecDepthL ts)
end

end ChiaModel.Streamable
