import ChiaModel.Model.Conditions
/-
C05: what the rules prescribe as the signed text of each AGG_SIG condition, and the model of
`make_aggsig_final_message` (chia-consensus/src/make_aggsig_final_message.rs).
-/
namespace ChiaModel.Sig
open ChiaModel ChiaModel.Cond

/-- **Specification** (Appendix A.2): the bytes appended to an AGG_SIG message — the coin attributes
selected by the opcode, amounts in canonical CLVM form, then the network's domain-separation constant
for that opcode.  AGG_SIG_UNSAFE appends nothing. -/
def specSuffix (op : Nat) (parent ph coinId : Bytes) (amount : Nat) : Bytes :=
  if op = Gen.opAggSigMe then coinId ++ Gen.aggSigMeAdditionalData
  else if op = Gen.opAggSigParent then parent ++ Gen.aggSigParentAdditionalData
  else if op = Gen.opAggSigPuzzle then ph ++ Gen.aggSigPuzzleAdditionalData
  else if op = Gen.opAggSigAmount then canonNat amount ++ Gen.aggSigAmountAdditionalData
  else if op = Gen.opAggSigPuzzleAmount then ph ++ canonNat amount ++ Gen.aggSigPuzzleAmountAdditionalData
  else if op = Gen.opAggSigParentAmount then parent ++ canonNat amount ++ Gen.aggSigParentAmountAdditionalData
  else if op = Gen.opAggSigParentPuzzle then parent ++ ph ++ Gen.aggSigParentPuzzleAdditionalData
  else []

/-- the domain-separation constant of a coin-bound AGG_SIG opcode -/
def constOf (op : Nat) : Bytes :=
  if op = Gen.opAggSigMe then Gen.aggSigMeAdditionalData
  else if op = Gen.opAggSigParent then Gen.aggSigParentAdditionalData
  else if op = Gen.opAggSigPuzzle then Gen.aggSigPuzzleAdditionalData
  else if op = Gen.opAggSigAmount then Gen.aggSigAmountAdditionalData
  else if op = Gen.opAggSigPuzzleAmount then Gen.aggSigPuzzleAmountAdditionalData
  else if op = Gen.opAggSigParentAmount then Gen.aggSigParentAmountAdditionalData
  else if op = Gen.opAggSigParentPuzzle then Gen.aggSigParentPuzzleAdditionalData
  else []

def coinBound (op : Nat) : Bool :=
  op = Gen.opAggSigMe || op = Gen.opAggSigParent || op = Gen.opAggSigPuzzle || op = Gen.opAggSigAmount
  || op = Gen.opAggSigPuzzleAmount || op = Gen.opAggSigParentAmount || op = Gen.opAggSigParentPuzzle

/-- model of `make_aggsig_final_message`: AGG_SIG_ME recomputes the coin id with `Coin::coin_id`
(generated amount ladder), the amount-bearing opcodes use `u64_to_bytes` (generated ladder) -/
def makeAggsigFinalMessage (op : Nat) (msg parent ph : Bytes) (amount : Nat) : Bytes :=
  if op = Gen.opAggSigParent then msg ++ parent ++ Gen.aggSigParentAdditionalData
  else if op = Gen.opAggSigPuzzle then msg ++ ph ++ Gen.aggSigPuzzleAdditionalData
  else if op = Gen.opAggSigAmount then msg ++ Gen.u64ToBytes amount ++ Gen.aggSigAmountAdditionalData
  else if op = Gen.opAggSigPuzzleAmount then msg ++ ph ++ Gen.u64ToBytes amount ++ Gen.aggSigPuzzleAmountAdditionalData
  else if op = Gen.opAggSigParentAmount then msg ++ parent ++ Gen.u64ToBytes amount ++ Gen.aggSigParentAmountAdditionalData
  else if op = Gen.opAggSigParentPuzzle then msg ++ parent ++ ph ++ Gen.aggSigParentPuzzleAdditionalData
  else if op = Gen.opAggSigMe then msg ++ sha256 (parent ++ ph ++ Gen.coinIdAmount amount) ++ Gen.aggSigMeAdditionalData
  else msg

/-- the (public key, signed text) pair a parsed AGG_SIG condition contributes, per the rules -/
def pairOf (sp : Spend) : Cond → Option (Bytes × Bytes)
  | .aggSig op pk msg => some (pk, msg ++ specSuffix op sp.parentId sp.puzzleHash sp.coinId sp.coinAmount)
  | _ => none

end ChiaModel.Sig
