import ChiaModel.Model.TimeLocks
import ChiaModel.Model.TreeHash
/-
Models of the two mempool rewrites of chia-consensus:

* `fast_forward_singleton` (fast_forward.rs), on trees as values: decoding of the curried puzzle
  `(a (q . mod) (c (q . singleton_struct) (c (q . inner) 1)))` and of the solution
  `(lineage_proof amount inner_solution)` exactly as the derived `FromClvm` impls of
  `CurriedProgram<NodePtr, SingletonArgs<NodePtr>>` (`curry` representation, terminator `1`,
  nil-terminated `(c (q . A) B)` cells) and `SingletonSolution<NodePtr>` / `Proof` / `LineageProof` /
  `EveProof` (`list` representation = *no* check of the list terminator) accept them, every guard in
  the order of the code, and the re-encoded solution;
* `compute_puzzle_fingerprint` / `hash_atom_list` (puzzle_fingerprint.rs): the exact byte stream fed
  to SHA-256;
* the closed form of `ELIGIBLE_FOR_DEDUP` (DESIGN App. A.3) over the parsed conditions.

No Mathlib.
-/
namespace ChiaModel.Mp
open ChiaModel ChiaModel.Cond ChiaModel.TreeHash

/-! ## fast forward -/

/-- `chia_protocol::Coin` -/
structure CoinM where
  parent : Bytes
  puzzleHash : Bytes
  amount : Nat
  deriving Repr, DecidableEq

/-- `Coin::coin_id`: sha256 (parent ‖ puzzle hash ‖ canonical amount) -/
def coinIdOf (parent ph : Bytes) (amount : Nat) : Bytes := sha256 (parent ++ ph ++ canonNat amount)

def CoinM.coinId (c : CoinM) : Bytes := coinIdOf c.parent c.puzzleHash c.amount

/-- the error kinds of `fast_forward_singleton` (only ok / refused is a property observable) -/
inductive FFErr where
  | coinAmountEven
  | puzzleHashMismatch
  | fromClvm
  | expectedLineageProof
  | notSingletonModHash
  | coinAmountMismatch
  | parentCoinMismatch
  | innerPuzzleHashMismatch
  | coinMismatch
  deriving Repr, DecidableEq

def FFErr.name : FFErr → String
  | .coinAmountEven => "CoinAmountEven"
  | .puzzleHashMismatch => "PuzzleHashMismatch"
  | .fromClvm => "FromClvm"
  | .expectedLineageProof => "ExpectedLineageProof"
  | .notSingletonModHash => "NotSingletonModHash"
  | .coinAmountMismatch => "CoinAmountMismatch"
  | .parentCoinMismatch => "ParentCoinMismatch"
  | .innerPuzzleHashMismatch => "InnerPuzzleHashMismatch"
  | .coinMismatch => "CoinMismatch"

/-- `SINGLETON_TOP_LAYER_V1_1_HASH` (chia-puzzles crate; compared with the crate's constant and with the
tree hash of the crate's puzzle bytes on every run, case kind `mh`) -/
def singletonModHash : Bytes :=
  [0x7f, 0xaa, 0x32, 0x53, 0xbf, 0xdd, 0xd1, 0xe0, 0xde, 0xcb, 0x09, 0x06, 0xb2, 0xdc, 0x62, 0x47,
   0xbb, 0xc4, 0xcf, 0x60, 0x8f, 0x58, 0x34, 0x5d, 0x17, 0x3a, 0xdb, 0x63, 0xe8, 0xb4, 0x7c, 0x9f]

/-- `u64::from_clvm`: an atom that `decode_number::<8>(_, false)` accepts -/
def decodeU64 (b : Bytes) : Option Nat := (decodeNumber 8 false b).map beVal

/-- `SingletonStruct::to_clvm` / the shape `from_clvm` accepts: `(mod_hash . (launcher_id . launcher_puzzle_hash))` -/
def structOf (modHash launcherId launcherPh : Bytes) : Sexp :=
  .pair (.atom modHash) (.pair (.atom launcherId) (.atom launcherPh))

/-- what `CurriedProgram::<NodePtr, SingletonArgs<NodePtr>>::from_clvm` returns -/
structure Singleton where
  mod : Sexp
  modHash : Bytes
  launcherId : Bytes
  launcherPh : Bytes
  inner : Sexp
  deriving Repr, DecidableEq

/-- the curried puzzle `(a (q . mod) (c (q . struct) (c (q . inner) 1)))` -/
def Singleton.puzzle (s : Singleton) : Sexp :=
  curry s.mod [structOf s.modHash s.launcherId s.launcherPh, s.inner]

/-- `CurriedProgram<NodePtr, SingletonArgs<NodePtr>>::from_clvm`.  The derived decoders accept exactly
the trees `(2 (1 . mod) (4 (1 . (mh . (lid . lph))) (4 (1 . inner) 1 . ()) . ()) . ())` with `mh`,
`lid`, `lph` atoms of 32 bytes: `MatchByte<2>`, `match_quote!`, two `decode_curried_arg` cells
`(MatchByte<4>, ((MatchByte<1>, Node), (Node, ())))`, the terminator check `[1]`, and
`SingletonStruct` (`list` with `rest` on the last field).  The variable parts are read off by position
and the whole tree is compared with the re-encoding, which is the same acceptance condition. -/
def decodeSingleton (p : Sexp) : Option Singleton :=
  match p with
  | .pair _ (.pair (.pair _ mod) (.pair (.pair _ (.pair (.pair _ (.pair (.atom mh) (.pair (.atom lid) (.atom lph))))
      (.pair (.pair _ (.pair (.pair _ inner) _)) _))) _)) =>
    let s : Singleton := ⟨mod, mh, lid, lph, inner⟩
    if p = s.puzzle ∧ mh.length = 32 ∧ lid.length = 32 ∧ lph.length = 32 then some s else none
  | _ => none

/-- `Proof` (`#[clvm(transparent)]`, hence untagged: `Lineage` is tried first, then `Eve`) -/
inductive ProofM where
  | lineage (parentParent parentInnerPh : Bytes) (parentAmountAtom : Bytes) (tail : Sexp)
  | eve
  deriving Repr, DecidableEq

/-- `Proof::from_clvm`: `LineageProof` = `(pp . (pih . (pa . _)))` (`list`: the tail is not looked at) with
32-byte `pp`, `pih` and a `u64` `pa`; otherwise `EveProof` = `(pp . (pa . _))`; otherwise an error -/
def decodeProof (n : Sexp) : Option ProofM :=
  let lin : Option ProofM :=
    match n with
    | .pair (.atom pp) (.pair (.atom pih) (.pair (.atom pa) t)) =>
      if pp.length = 32 ∧ pih.length = 32 ∧ (decodeU64 pa).isSome then some (.lineage pp pih pa t) else none
    | _ => none
  match lin with
  | some p => some p
  | none =>
    match n with
    | .pair (.atom pp) (.pair (.atom pa) _) =>
      if pp.length = 32 ∧ (decodeU64 pa).isSome then some .eve else none
    | _ => none

/-- what `SingletonSolution::<NodePtr>::from_clvm` returns (`list` representation: whatever follows the
third element is ignored) -/
structure Solution where
  proof : ProofM
  amountAtom : Bytes
  innerSolution : Sexp
  tail : Sexp
  deriving Repr, DecidableEq

def decodeSolution (n : Sexp) : Option Solution :=
  match n with
  | .pair lp (.pair (.atom amt) (.pair isol t)) =>
    match decodeProof lp with
    | some p => if (decodeU64 amt).isSome then some ⟨p, amt, isol, t⟩ else none
    | none => none
  | _ => none

/-- the solution tree `((lp lih la . t1) amt isol . t2)` -/
def mkSolution (lp lih la : Bytes) (t1 : Sexp) (amt : Bytes) (isol t2 : Sexp) : Sexp :=
  .pair (.pair (.atom lp) (.pair (.atom lih) (.pair (.atom la) t1))) (.pair (.atom amt) (.pair isol t2))

/-- `fast_forward_singleton`: the guards in the order of the code; the result is
`new_solution.to_clvm()`: proper lists, canonical integers (`encode_number`) -/
def fastForward (puzzle solution : Sexp) (coin newCoin newParent : CoinM) : Except FFErr Sexp :=
  if coin.amount % 2 = 0 ∨ newParent.amount % 2 = 0 ∨ newCoin.amount % 2 = 0 then .error .coinAmountEven
  else if coin.puzzleHash ≠ newParent.puzzleHash ∨ coin.puzzleHash ≠ newCoin.puzzleHash then .error .puzzleHashMismatch
  else
    match decodeSingleton puzzle with
    | none => .error .fromClvm
    | some sg =>
      match decodeSolution solution with
      | none => .error .fromClvm
      | some sol =>
        match sol.proof with
        | .eve => .error .expectedLineageProof
        | .lineage pp pih pa _ =>
          if sg.modHash ≠ singletonModHash then .error .notSingletonModHash
          else if Sexp.treeHash sg.mod ≠ singletonModHash then .error .notSingletonModHash
          else if some coin.amount ≠ decodeU64 sol.amountAtom then .error .coinAmountMismatch
          else if coinIdOf pp (curryAndTreehash pih sg.modHash sg.launcherId sg.launcherPh) ((decodeU64 pa).getD 0) ≠ coin.parent then
            .error .parentCoinMismatch
          else if Sexp.treeHash sg.inner ≠ pih then .error .innerPuzzleHashMismatch
          else if Sexp.treeHash puzzle ≠ newParent.puzzleHash ∨ Sexp.treeHash puzzle ≠ coin.puzzleHash then .error .puzzleHashMismatch
          else if newCoin.parent ≠ newParent.coinId then .error .coinMismatch
          else .ok (mkSolution newParent.parent pih (canonNat newParent.amount) Sexp.nil (canonNat newCoin.amount)
                      sol.innerSolution Sexp.nil)

/-! ## puzzle fingerprint -/

/-- one atom as `hash_atom_list` feeds it: `(len as u32).to_be_bytes()` then the bytes -/
def lp32 (b : Bytes) : Bytes := be 4 (b.length % 4294967296) ++ b

/-- what `hash_atom_list(args, count)` feeds to the hasher *as a list of atoms* (each is written as
`lp32`), and the remainder of the list; `none` = `InvalidCondition` (list too short, or a pair) -/
def takeAtoms : Sexp → Nat → Option (List Bytes × Sexp)
  | args, 0 => some ([], args)
  | .pair (.atom b) next, n+1 =>
    match takeAtoms next n with
    | some (l, r) => some (b :: l, r)
    | none => none
  | _, _+1 => none

/-- the bytes written for a list of atoms -/
def encAtoms : List Bytes → Bytes
  | [] => []
  | a :: r => lp32 a ++ encAtoms r

/-- the conditions with exactly one hashed argument -/
def oneArgOps : List Nat :=
  [Gen.opReserveFee, Gen.opCreateCoinAnnouncement, Gen.opAssertCoinAnnouncement, Gen.opCreatePuzzleAnnouncement,
   Gen.opAssertPuzzleAnnouncement, Gen.opAssertConcurrentSpend, Gen.opAssertConcurrentPuzzle, Gen.opAssertMyCoinId,
   Gen.opAssertMyParentId, Gen.opAssertMyPuzzlehash, Gen.opAssertMyAmount, Gen.opAssertMyBirthSeconds,
   Gen.opAssertMyBirthHeight, Gen.opAssertSecondsRelative, Gen.opAssertSecondsAbsolute, Gen.opAssertHeightRelative,
   Gen.opAssertHeightAbsolute, Gen.opAssertBeforeSecondsRelative, Gen.opAssertBeforeSecondsAbsolute,
   Gen.opAssertBeforeHeightRelative, Gen.opAssertBeforeHeightAbsolute]

/-- the hint atom a CREATE_COIN contributes, given what follows the amount: the first memo when it is an
atom of at most 32 bytes, otherwise the empty atom (the `0_u32` marker *is* the encoding of the empty atom) -/
def hintAtom : Sexp → Bytes
  | .pair (.pair (.atom h) _) _ => if h.length ≤ 32 then h else []
  | _ => []

/-- one condition: `none` = the function returns an error; `some none` = the condition is skipped
(unknown opcode); `some (some atoms)` = these atoms are hashed, in this order -/
def condItem (c : Sexp) : Option (Option (List Bytes)) :=
  match first c with
  | .error _ => none
  | .ok opn =>
    match parseOpcode opn with
    | none => some none
    | some op =>
      if op = Gen.opCreateCoin then
        match takeAtoms c 3 with
        | some (l, r) => some (some (l ++ [hintAtom r]))
        | none => none
      else if oneArgOps.contains op then
        match takeAtoms c 2 with
        | some (l, _) => some (some l)
        | none => none
      else if op = Gen.opAssertEphemeral ∨ op = Gen.opRemark then
        match takeAtoms c 1 with
        | some (l, _) => some (some l)
        | none => none
      else none

def itemBytes : Option (List Bytes) → Bytes
  | none => []
  | some l => encAtoms l

/-- **the exact byte stream `compute_puzzle_fingerprint` feeds SHA-256**; `none` = it returns an error.
The `while let Some(..) = a.next(iter)` loop ends at the first atom, whatever it is. -/
def fpStream : Sexp → Option Bytes
  | .pair c nxt =>
    match condItem c with
    | none => none
    | some it =>
      match fpStream nxt with
      | none => none
      | some s => some (itemBytes it ++ s)
  | .atom _ => some []

/-- `compute_puzzle_fingerprint` -/
def fingerprint (conds : Sexp) : Option Bytes := (fpStream conds).map sha256

/-! ## ELIGIBLE_FOR_DEDUP in closed form (DESIGN App. A.3) -/

/-- conditions that make a spend ineligible for de-duplication -/
def blocksDedup : Cond → Bool
  | .aggSig _ _ _ => true
  | .sendMessage _ _ _ => true
  | .receiveMessage _ _ _ => true
  | _ => false

def createdAmount : Cond → Nat
  | .createCoin _ a _ => a
  | _ => 0

/-- no AGG_SIG_*, no SEND/RECEIVE_MESSAGE, and the created value is at least the coin's amount -/
def dedupClosedForm (cs : List Cond) (coinAmount : Nat) : Bool :=
  !cs.any blocksDedup && decide (coinAmount ≤ (cs.map createdAmount).sum)

/-- the closed form for one spend tuple `(parent ph amount conds . _)` of a generator output -/
def dedupOfSpendTree (flags : Nat) (spend : Sexp) : Bool :=
  match parseSingleSpend spend with
  | .ok (_, _, .atom amt, conds) =>
    (match sanitizeUint amt 8 with
     | .ok v => dedupClosedForm (TL.parsedConds flags conds) v
     | _ => false)
  | _ => false

/-- the elements of a (possibly improper) list -/
def elems : Sexp → List Sexp
  | .pair a r => a :: elems r
  | .atom _ => []

/-- the closed form for every spend of a generator output `(spends . _)` -/
def dedupOfOutput (flags : Nat) (out : Sexp) : List Bool :=
  match out with
  | .pair spends _ => (elems spends).map (dedupOfSpendTree flags)
  | .atom _ => []

end ChiaModel.Mp
