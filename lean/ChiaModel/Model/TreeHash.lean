import ChiaModel.Base.Sexp
import ChiaModel.Gen.Precomputed
/-
C17: executable models of the tree-hash routines of clvm-utils (tree_hash.rs, curry_tree_hash.rs),
of `curry_and_treehash` (chia-consensus/src/fast_forward.rs) and of clvmr's back-reference
deserialiser (serde/de_br.rs, serde/parse_atom.rs), over a heap-with-sharing view of the clvmr
`Allocator`.

Pointers are plain heap indices.  A node is a pair of two earlier indices, a `Bytes` atom
(`ObjectType::Bytes`, what `NodeVisitor::Buffer` shows) or a small atom (`ObjectType::SmallAtom`,
what `NodeVisitor::U32` shows).  The Rust `TreeCache` is keyed by the pair index of a `NodePtr`; the
model keys it by the heap index (an injective renaming).  Not modelled: the allocator's global limits
(`MAX_NUM_PAIRS`, `MAX_NUM_ATOMS`, heap limit, ghost counters) – the correspondence stays far below.
-/
namespace ChiaModel.TreeHash
open ChiaModel

/-! ## heap with sharing -/

inductive Node where
  | atom (b : Bytes)          -- bytes on the allocator heap
  | small (v : Nat)           -- 26-bit small atom, no storage
  | pair (l r : Nat)
  deriving Repr, DecidableEq, Inhabited

abbrev Heap := Array Node

/-- `len_for_value` -/
def lenForValue (v : Nat) : Nat :=
  if v = 0 then 0 else if v < 0x80 then 1 else if v < 0x8000 then 2 else if v < 0x800000 then 3
  else if v < 0x80000000 then 4 else 5

/-- the bytes `Allocator::atom` shows for a small atom -/
def smallBytes (v : Nat) : Bytes := be (lenForValue v) v

/-- `fits_in_small_atom`: the value if the buffer is the canonical form of a number below 2^26 -/
def fitsInSmallAtom (v : Bytes) : Option Nat :=
  match v with
  | [] => some 0
  | b0 :: tl =>
    if v.length > 4 ∨ (v.length = 1 ∧ b0 = 0) ∨ b0 ≥ 0x80 ∨ (b0 = 0 ∧ tl.headD 0 < 0x80)
        ∨ (v.length = 4 ∧ b0 > 3) then none
    else some (beVal v)

/-- `Allocator::new_atom`: which representation the allocator picks -/
def newAtom (b : Bytes) : Node :=
  match fitsInSmallAtom b with
  | some v => .small v
  | none => .atom b

/-- the tree a pointer stands for (fuel = index + 1 suffices when children have smaller indices) -/
def denoteF (h : Heap) : Nat → Nat → Sexp
  | 0, _ => .atom []
  | f+1, n =>
    match h[n]? with
    | some (.atom b) => .atom b
    | some (.small v) => .atom (smallBytes v)
    | some (.pair l r) => Sexp.pair (denoteF h f l) (denoteF h f r)
    | none => .atom []

def denote (h : Heap) (n : Nat) : Sexp := denoteF h (n + 1) n

/-- children are allocated before their parent (the allocator is append-only) -/
def WF (h : Heap) : Prop := ∀ n l r, h[n]? = some (Node.pair l r) → l < n ∧ r < n

/-! ### per-index tables (linear in the heap, whatever the sharing) -/

/-- catamorphism on trees -/
def foldSexp {α : Type} (fa : Bytes → α) (fp : α → α → α) : Sexp → α
  | .atom b => fa b
  | .pair l r => fp (foldSexp fa fp l) (foldSexp fa fp r)

def nodeVal {α : Type} (fa : Bytes → α) (fp : α → α → α) (d : α) (tbl : Array α) : Node → α
  | .atom b => fa b
  | .small v => fa (smallBytes v)
  | .pair l r => fp (tbl.getD l d) (tbl.getD r d)

def tableL {α : Type} (fa : Bytes → α) (fp : α → α → α) (d : α) : List Node → Array α → Array α
  | [], tbl => tbl
  | nd :: rest, tbl => tableL fa fp d rest (tbl.push (nodeVal fa fp d tbl nd))

/-- entry `n` = the fold of `denote h n` (proved in Lemmas/TreeHash: `table_spec`) -/
def table {α : Type} (fa : Bytes → α) (fp : α → α → α) (d : α) (h : Heap) : Array α :=
  tableL fa fp d h.toList #[]

/-! ## `tree_hash_atom`, `tree_hash_pair`, the small-atom table -/

def atomHash (b : Bytes) : Bytes := sha256 (Gen.thAtomPrefix :: b)
def pairHash (first rest : Bytes) : Bytes := sha256 (Gen.thPairPrefix :: (first ++ rest))

/-- what both routines push for an atom node: `NodeVisitor::Buffer` hashes the bytes,
`NodeVisitor::U32` looks the value up in `PRECOMPUTED_HASHES` when it is below the table's length -/
def leafHash : Node → Bytes
  | .atom b => atomHash b
  | .small v =>
    if v < Gen.precomputed.length then Gen.precomputed.getD v [] else atomHash (smallBytes v)
  | .pair _ _ => []   -- not an atom; never used

/-- spec-side tables: tree hash and tree size of every heap index -/
def hashTable (h : Heap) : Array Bytes :=
  table (fun b => sha256 (1 :: b)) (fun x y => sha256 (2 :: (x ++ y))) [] h
def sizeTable (h : Heap) : Array Nat :=
  table (fun _ => 1) (fun x y => 1 + x + y) 0 h

/-! ## `tree_hash`: the explicit two-stack machine -/

inductive Op where
  | sexp (n : Nat)
  | cons
  | consAdd (n : Nat)        -- `ConsAddCache(node)`
  deriving Repr, DecidableEq

/-- the `while let Some(op) = ops.pop()` loop of `tree_hash`; list head = top of the `Vec` stack.
`none`: a panic of the Rust code (bad pointer, `unwrap` on an empty stack, `unreachable!`) or fuel. -/
def runIter (h : Heap) : Nat → List Op → List Bytes → Option (List Bytes)
  | 0, _, _ => none
  | _+1, [], hs => some hs
  | f+1, .sexp n :: ops, hs =>
    match h[n]? with
    | none => none
    | some (.pair l r) =>
      -- ops.push(Cons); ops.push(SExp(left)); ops.push(SExp(right))  ⇒  right is popped first
      runIter h f (.sexp r :: .sexp l :: .cons :: ops) hs
    | some nd => runIter h f ops (leafHash nd :: hs)
  | f+1, .cons :: ops, first :: rest :: hs => runIter h f ops (pairHash first rest :: hs)
  | _+1, .cons :: _, _ => none
  | _+1, .consAdd _ :: _, _ => none      -- unreachable!()

/-- steps needed for a tree with `s` nodes: one per node, one per pair (`Cons`), one to see the empty stack -/
def iterFuel (h : Heap) (n : Nat) : Nat := 2 * (sizeTable h).getD n 0 + 1

/-- `tree_hash(a, node)` (`assert_eq!(hashes.len(), 1); hashes[0]`) -/
def treeHashIter (h : Heap) (n : Nat) : Option Bytes :=
  match runIter h (iterFuel h n) [.sexp n] [] with
  | some [x] => some x
  | _ => none

/-! ## `TreeCache` -/

def NOT_VISITED : Nat := 4294967295
def SEEN_ONCE : Nat := 4294967294
def SEEN_MULTIPLE : Nat := 4294967293

structure Cache where
  hashes : Array Bytes
  pairs : Array Nat       -- slot number, or one of the three special values
  deriving Repr, Inhabited

def Cache.empty : Cache := { hashes := #[], pairs := #[] }

/-- `matches!(n.object_type(), ObjectType::Pair)` -/
def isPair (h : Heap) (n : Nat) : Bool :=
  match h[n]? with
  | some (.pair _ _) => true
  | _ => false

/-- `self.pairs.resize(idx + 1, NOT_VISITED)` when `idx >= self.pairs.len()` -/
def growPairs (p : Array Nat) (idx : Nat) : Array Nat :=
  if idx ≥ p.size then p ++ Array.replicate (idx + 1 - p.size) NOT_VISITED else p

/-- `TreeCache::get` -/
def Cache.get (h : Heap) (c : Cache) (n : Nat) : Option Bytes :=
  if !isPair h n then none
  else
    match c.pairs[n]? with
    | none => none
    | some slot => if slot ≥ SEEN_MULTIPLE then none else c.hashes[slot]?

/-- `TreeCache::insert` -/
def Cache.insert (h : Heap) (c : Cache) (n : Nat) (hash : Bytes) : Cache :=
  if c.hashes.size = SEEN_MULTIPLE then c
  else if !isPair h n then c
  else
    let pairs := growPairs c.pairs n
    { hashes := c.hashes.push hash, pairs := pairs.setIfInBounds n c.hashes.size }

/-- `TreeCache::visit`: returns true iff the node is a pair seen for the first time -/
def Cache.visit (h : Heap) (c : Cache) (n : Nat) : Cache × Bool :=
  if !isPair h n then (c, false)
  else
    let pairs := growPairs c.pairs n
    let s := pairs.getD n NOT_VISITED
    let s' := if s > SEEN_MULTIPLE then s - 1 else s
    ({ c with pairs := pairs.setIfInBounds n s' }, s' == SEEN_ONCE)

/-- `TreeCache::should_memoize` -/
def Cache.shouldMemoize (h : Heap) (c : Cache) (n : Nat) : Bool :=
  if !isPair h n then false
  else
    match c.pairs[n]? with
    | none => false
    | some s => s ≤ SEEN_MULTIPLE

/-- the `while let Some(n) = nodes.pop()` loop of `visit_tree` -/
def visitLoop (h : Heap) : Nat → List Nat → Cache → Option Cache
  | 0, _, _ => none
  | _+1, [], c => some c
  | f+1, n :: nodes, c =>
    match h[n]? with
    | some (.pair l r) =>
      let (c1, vl) := c.visit h l
      let nodes1 := if vl then l :: nodes else nodes
      let (c2, vr) := c1.visit h r
      let nodes2 := if vr then r :: nodes1 else nodes1
      visitLoop h f nodes2 c2
    | _ => visitLoop h f nodes c

/-- every pair is pushed at most once in a cache's life time, so `2·|heap| + 2` iterations suffice -/
def visitFuel (h : Heap) : Nat := 2 * h.size + 2

/-- `TreeCache::visit_tree` -/
def visitTree (h : Heap) (c : Cache) (n : Nat) : Option Cache :=
  let (c1, v) := c.visit h n
  if !v then some c1 else visitLoop h (visitFuel h) [n] c1

/-- the main loop of `tree_hash_cached` -/
def runCached (h : Heap) : Nat → List Op → List Bytes → Cache → Option (List Bytes × Cache)
  | 0, _, _, _ => none
  | _+1, [], hs, c => some (hs, c)
  | f+1, .sexp n :: ops, hs, c =>
    match h[n]? with
    | none => none
    | some (.pair l r) =>
      match c.get h n with
      | some x => runCached h f ops (x :: hs) c
      | none =>
        let op := if c.shouldMemoize h n then Op.consAdd n else Op.cons
        runCached h f (.sexp r :: .sexp l :: op :: ops) hs c
    | some nd => runCached h f ops (leafHash nd :: hs) c
  | f+1, .cons :: ops, first :: rest :: hs, c => runCached h f ops (pairHash first rest :: hs) c
  | f+1, .consAdd n :: ops, first :: rest :: hs, c =>
    let x := pairHash first rest
    runCached h f ops (x :: hs) (c.insert h n x)
  | _+1, .cons :: _, _, _ => none
  | _+1, .consAdd _ :: _, _, _ => none

/-- `tree_hash_cached(a, node, cache)`: the hash and the cache afterwards -/
def treeHashCached (h : Heap) (n : Nat) (c : Cache) : Option (Bytes × Cache) :=
  match visitTree h c n with
  | none => none
  | some c1 =>
    match runCached h (iterFuel h n) [.sexp n] [] c1 with
    | some ([x], c2) => some (x, c2)
    | _ => none

/-! ## clvmr `node_from_bytes_backrefs` -/

inductive ParseOp where
  | sexp
  | cons
  deriving Repr, DecidableEq

/-- `parse_atom`: `0x01` and `0x80` are the allocator's constants, anything else goes through `new_atom` -/
def parseAtomNode (b0 : Nat) (rest : Bytes) : Option (Node × Bytes) :=
  if b0 = 0x01 then some (.small 1, rest)
  else if b0 = 0x80 then some (.small 0, rest)
  else
    match Sexp.parseAtomBody b0 rest with
    | none => none
    | some (blob, rest1) => some (newAtom blob, rest1)

/-- `parse_path`: one byte, then `parse_atom_ptr` -/
def parsePath : Bytes → Option (Bytes × Bytes)
  | [] => none
  | b :: rest => Sexp.parseAtomBody b rest

def bitsOfByte (b n : Nat) : List Bool := (List.range n).map (fun k => b.testBit k)

/-- the bits the traversal loop looks at, in order (last byte first, least significant bit first; the
most significant set bit of the first non-zero byte is the sentinel).  `none`: all bytes zero. -/
def pathBits (path : Bytes) : Option (List Bool) :=
  match path.dropWhile (· == 0) with
  | [] => none
  | b0 :: rest => some ((rest.reverse.flatMap (fun b => bitsOfByte b 8)) ++ bitsOfByte b0 (Nat.log2 b0))

/-- entry of the parse stack: the value and the lazily built list "this value and everything below it" -/
abbrev Val := Nat × Option Nat

/-- traversal state: still walking down the `Vec` (`arg_index`), or inside a tree
(`sexp_to_parse`; `none` = `NodePtr::NIL`) -/
inductive TState where
  | vec (argIndex : Nat)
  | sx (node : Option Nat)

/-- one iteration of the `while` loop of `traverse_path_with_vec`; `none` = `SerializationBackreferenceError` -/
def travStep (heap : Heap) (args : Array Val) (st : TState) (bit : Bool) : Option TState :=
  match st with
  | .sx none => none                         -- NIL is an atom
  | .sx (some p) =>
    match heap[p]? with
    | some (.pair l r) => some (.sx (some (if bit then r else l)))
    | _ => none
  | .vec i =>
    if bit then (if i = 0 then some (.sx none) else some (.vec (i - 1)))
    else some (.sx (some (args.getD i (0, none)).1))

def travBits (heap : Heap) (args : Array Val) : TState → List Bool → Option TState
  | st, [] => some st
  | st, b :: bs =>
    match travStep heap args st b with
    | none => none
    | some st1 => travBits heap args st1 bs

/-- `for x in args.iter_mut().take(arg_index + 1)`: cons every entry onto the list of those below it,
remembering the result in the entry.  `k` = next index, `acc` = list so far (`none` = NIL). -/
def buildList : Nat → Nat → Heap → Array Val → Option Nat → Heap × Array Val × Option Nat
  | 0, _, heap, args, acc => (heap, args, acc)
  | cnt+1, k, heap, args, acc =>
    match args[k]? with
    | none => (heap, args, acc)
    | some (_, some cached) => buildList cnt (k + 1) heap args (some cached)
    | some (v, none) =>
      -- `NodePtr::NIL` has no storage in clvmr; the model materialises it as a heap entry
      let (heap1, tail) := match acc with
        | some t => (heap, t)
        | none => (heap.push (.small 0), heap.size)
      let p := heap1.size
      buildList cnt (k + 1) (heap1.push (.pair v tail)) (args.setIfInBounds k (v, some p)) (some p)

/-- materialise a possibly-NIL pointer -/
def realise (heap : Heap) : Option Nat → Heap × Nat
  | some p => (heap, p)
  | none => (heap.push (.small 0), heap.size)

/-- `parsing_sexp = args.is_empty()`, `arg_index = args.len() - 1`, `sexp_to_parse = NIL` -/
def travInit (args : Array Val) : TState :=
  if args.isEmpty then .sx none else .vec (args.size - 1)

/-- `traverse_path_with_vec` -/
def traversePathWithVec (heap : Heap) (path : Bytes) (args : Array Val) : Option (Heap × Array Val × Nat) :=
  match pathBits path with
  | none => let (h1, p) := realise heap none; some (h1, args, p)
  | some bits =>
    match travBits heap args (travInit args) bits with
    | none => none
    | some (.sx p) => let (h1, q) := realise heap p; some (h1, args, q)
    | some (.vec i) =>
      let (h1, args1, r) := buildList (i + 1) 0 heap args none
      let (h2, q) := realise h1 r
      some (h2, args1, q)

/-- the loop of `node_from_stream_backrefs` -/
def deserLoop : Nat → List ParseOp → Array Val → Heap → Bytes → Option (Heap × Nat)
  | 0, _, _, _, _ => none
  | _+1, [], vals, heap, _ =>
    match vals.back? with
    | some v => some (heap, v.1)
    | none => none
  | _+1, .sexp :: _, _, _, [] => none                    -- read_exact fails
  | f+1, .sexp :: ops, vals, heap, b :: rest =>
    if b = 0xff then deserLoop f (.sexp :: .sexp :: .cons :: ops) vals heap rest
    else if b = 0xfe then
      match parsePath rest with
      | none => none
      | some (path, rest1) =>
        match traversePathWithVec heap path vals with
        | none => none
        | some (heap1, vals1, node) => deserLoop f ops (vals1.push (node, none)) heap1 rest1
    else
      match parseAtomNode b rest with
      | none => none
      | some (nd, rest1) => deserLoop f ops (vals.push (heap.size, none)) (heap.push nd) rest1
  | f+1, .cons :: ops, vals, heap, bs =>
    match vals.back?, vals.pop.back? with
    | some right, some left =>
      deserLoop f ops (vals.pop.pop.push (heap.size, none)) (heap.push (.pair left.1 right.1)) bs
    | _, _ => none

/-- `node_from_bytes_backrefs` into a fresh allocator: the heap it builds and the root -/
def deserializeBackrefs (b : Bytes) : Option (Heap × Nat) :=
  deserLoop (2 * b.length + 2) [.sexp] #[] #[] b

/-- `tree_hash_from_bytes` -/
def treeHashFromBytes (b : Bytes) : Option Bytes :=
  match deserializeBackrefs b with
  | none => none
  | some (heap, root) =>
    match treeHashCached heap root Cache.empty with
    | some (x, _) => some x
    | none => none

/-! ## currying -/

/-- the argument list of a curried program: `(c (q . a1) (c (q . a2) 1))` -/
def curryArgs : List Sexp → Sexp
  | [] => .atom [1]
  | a :: r => .pair (.atom [4]) (.pair (.pair (.atom [1]) a) (.pair (curryArgs r) (.atom [])))

/-- the curried program `(a (q . p) args)` (what `CurriedProgram::to_clvm` builds) -/
def curry (p : Sexp) (args : List Sexp) : Sexp :=
  .pair (.atom [2]) (.pair (.pair (.atom [1]) p) (.pair (curryArgs args) (.atom [])))

/-- `curry_tree_hash` (the `for … in arg_hashes.iter().rev()` loop is a right fold) -/
def curryTreeHash (programHash : Bytes) (argHashes : List Bytes) : Bytes :=
  let nilH := atomHash []
  let opQ := atomHash [1]
  let opA := atomHash [2]
  let opC := atomHash [4]
  let quotedProgram := pairHash opQ programHash
  let quotedArgs := argHashes.foldr (fun argHash quotedArgs =>
      let quotedArg := pairHash opQ argHash
      let terminatedArgs := pairHash quotedArgs nilH
      let terminatedArgs := pairHash quotedArg terminatedArgs
      pairHash opC terminatedArgs) (atomHash [1])
  let terminatedArgs := pairHash quotedArgs nilH
  let programAndArgs := pairHash quotedProgram terminatedArgs
  pairHash opA programAndArgs

/-- `curry_single_arg` of fast_forward.rs -/
def currySingleArg (argHash rest : Bytes) : Bytes :=
  pairHash (atomHash [4]) (pairHash (pairHash (atomHash [1]) argHash) (pairHash rest (atomHash [])))

/-- `curry_and_treehash` of fast_forward.rs: singleton struct `(mod_hash . (launcher_id . launcher_puzzle_hash))` -/
def curryAndTreehash (innerPuzzleHash modHash launcherId launcherPuzzleHash : Bytes) : Bytes :=
  let singletonStructHash := pairHash (atomHash modHash) (pairHash (atomHash launcherId) (atomHash launcherPuzzleHash))
  let argsHash := atomHash [1]
  let argsHash := currySingleArg innerPuzzleHash argsHash
  let argsHash := currySingleArg singletonStructHash argsHash
  pairHash (atomHash [2]) (pairHash (pairHash (atomHash [1]) modHash) (pairHash argsHash (atomHash [])))

end ChiaModel.TreeHash
