import ChiaModel.Base.Sha256
/-
C12: executable model of the Merkle set code.

* `radixSort` / `computeMerkleSetRoot`  — chia-consensus/src/merkle_set.rs
  (`radix_sort`, `compute_merkle_set_root`; the in-place two-pointer partition is modelled by a
  functional partition by the bit at `depth`; tied by correspondence)
* `generateMerkleTreeRecurse` / `fromLeafs` / `getRoot` / `generateProofImpl` / `otherIncluded` /
  `padMiddlesForProofGen` / `generateProof` / `parseNode` / `deserializeProof` / `fromProof` /
  `validateMerkleProof` — chia-consensus/src/merkle_tree.rs, on the same node vector
  (`nodes_vec: Vec<(ArrayTypes, [u8; 32])>`, indices into the vector) as the Rust code.
  The explicit `ops`/`bits_stack`/`values` stacks of `deserialize_proof_impl` are the call stack of
  a recursive descent here (same visiting order, same pushes to the node vector, same `depth`
  counter and same bit path).
* `Spec.trie` / `Spec.root` — the reference definition of the collapsed binary-trie hash.

The hash is a parameter `H : Bytes → Bytes`; the driver instantiates it with `sha256`.
No Mathlib imports: this file is linked into the compiled driver.
-/
namespace ChiaModel.Merkle

/-! ## merkle_set.rs -/

inductive NodeType where
  | empty
  | term
  | mid
  | midDbl
  deriving DecidableEq, Repr, Inhabited

def encodeType : NodeType → Nat
  | .empty => 0
  | .term => 1
  | .mid => 2
  | .midDbl => 2

/-- `BLANK`: 32 zero bytes -/
def BLANK : Bytes := zeros 32

/-- `get_bit(val, bit)`: bit `bit` of a 32-byte string, most significant bit of byte 0 first -/
def getBit (v : Bytes) (bit : Nat) : Bool := (v.getD (bit / 8) 0).testBit (7 - bit % 8)

/-- `hash(ltype, rtype, left, right)`: 30 zero bytes, the two type bytes, the two child hashes -/
def hashNode (H : Bytes → Bytes) (lt rt : NodeType) (l r : Bytes) : Bytes :=
  H (zeros 30 ++ [encodeType lt, encodeType rt] ++ l ++ r)

/-- `hash_leaf` / the single-item case of `compute_merkle_set_root` -/
def hashLeaf (H : Bytes → Bytes) (x : Bytes) : Bytes := H (1 :: x)

/-- `radix_sort(range, depth)` with `n = 256 - depth` levels left. `range` is never empty in the
Rust code (`assert!`); `n = 0` is never reached (the Rust code special-cases `depth == 255`). -/
def radixSort (H : Bytes → Bytes) : Nat → List Bytes → Bytes × NodeType
  | 0, range => (range.headD BLANK, .term)
  | n+1, range =>
    if range.length = 1 then (range.headD BLANK, .term)
    else
      let depth := 255 - n
      let lo := range.filter (fun v => !getBit v depth)
      let hi := range.filter (fun v => getBit v depth)
      if lo = [] ∨ hi = [] then
        if depth = 255 then (range.headD BLANK, .term)
        else
          let c := radixSort H n range
          if c.2 = .mid then
            if lo = [] then (hashNode H .empty c.2 BLANK c.1, .mid)
            else (hashNode H c.2 .empty c.1 BLANK, .mid)
          else c
      else if depth = 255 then
        (hashNode H .term .term (lo.headD BLANK) (hi.headD BLANK), .midDbl)
      else
        let l := radixSort H n lo
        let r := radixSort H n hi
        (hashNode H l.2 r.2 l.1 r.1, if l.2 = .term ∧ r.2 = .term then .midDbl else .mid)

/-- `compute_merkle_set_root` -/
def computeMerkleSetRoot (H : Bytes → Bytes) (leafs : List Bytes) : Bytes :=
  if leafs = [] then BLANK
  else
    match radixSort H 256 leafs with
    | (h, .term) => hashLeaf H h
    | (h, .mid) => h
    | (h, .midDbl) => h
    | (_, .empty) => BLANK     -- `panic!("unexpected")` in the Rust code; unreachable

/-! ## merkle_tree.rs: the node vector -/

inductive ArrayType where
  | leaf
  | middle (l r : Nat)
  | empty
  | truncated
  deriving DecidableEq, Repr, Inhabited

abbrev NodeVec := List (ArrayType × Bytes)

structure MerkleSet where
  nodes : NodeVec
  fromProof : Bool
  deriving Repr

def EMPTY : Nat := 0
def TERMINAL : Nat := 1
def MIDDLE : Nat := 2
def TRUNCATED : Nat := 3

/-- `sha256(bytes([0] * 32))`; stored in the `Empty` nodes that `from_leafs` inserts, never read -/
def EMPTY_NODE_HASH : Bytes :=
  [0x66, 0x68, 0x7a, 0xad, 0xf8, 0x62, 0xbd, 0x77, 0x6c, 0x8f, 0xc1, 0x8b, 0x8e, 0x9f, 0x8e, 0x20,
   0x08, 0x97, 0x14, 0x85, 0x6e, 0xe2, 0x33, 0xb3, 0x90, 0x2a, 0x59, 0x1d, 0x0d, 0x5f, 0x29, 0x25]

/-- `impl From<ArrayTypes> for NodeType` -/
def toNodeType : ArrayType → NodeType
  | .empty => .empty
  | .leaf => .term
  | .middle _ _ => .mid
  | .truncated => .mid

/-- `generate_merkle_tree_recurse(range, depth)` with `n = 256 - depth`; appends to `nv` -/
def generateMerkleTreeRecurse (H : Bytes → Bytes) : Nat → List Bytes → NodeVec → NodeVec × Bytes × NodeType
  | 0, range, nv => (nv ++ [(.leaf, range.headD BLANK)], range.headD BLANK, .term)
  | n+1, range, nv =>
    if range.length = 1 then (nv ++ [(.leaf, range.headD BLANK)], range.headD BLANK, .term)
    else
      let depth := 255 - n
      let lo := range.filter (fun v => !getBit v depth)
      let hi := range.filter (fun v => getBit v depth)
      if lo = [] ∨ hi = [] then
        if depth = 255 then (nv ++ [(.leaf, range.headD BLANK)], range.headD BLANK, .term)
        else
          let c := generateMerkleTreeRecurse H n range nv
          if c.2.2 = .mid then
            let nv2 := c.1 ++ [(.empty, EMPTY_NODE_HASH)]
            let len := nv2.length
            if lo = [] then
              let h := hashNode H .empty c.2.2 BLANK c.2.1
              (nv2 ++ [(.middle (len - 1) (len - 2), h)], h, .mid)
            else
              let h := hashNode H c.2.2 .empty c.2.1 BLANK
              (nv2 ++ [(.middle (len - 2) (len - 1), h)], h, .mid)
          else c
      else if depth = 255 then
        let nv2 := nv ++ [(.leaf, lo.headD BLANK), (.leaf, hi.headD BLANK)]
        let len := nv2.length
        let h := hashNode H .term .term (lo.headD BLANK) (hi.headD BLANK)
        (nv2 ++ [(.middle (len - 2) (len - 1), h)], h, .midDbl)
      else
        let l := generateMerkleTreeRecurse H n lo nv
        let leftIdx := l.1.length - 1
        let r := generateMerkleTreeRecurse H n hi l.1
        let h := hashNode H l.2.2 r.2.2 l.2.1 r.2.1
        (r.1 ++ [(.middle leftIdx (r.1.length - 1), h)], h,
          if l.2.2 = .term ∧ r.2.2 = .term then .midDbl else .mid)

/-- `MerkleSet::from_leafs` -/
def fromLeafs (H : Bytes → Bytes) (leafs : List Bytes) : MerkleSet :=
  if leafs = [] then { nodes := [(.empty, BLANK)], fromProof := false }
  else { nodes := (generateMerkleTreeRecurse H 256 leafs []).1, fromProof := false }

/-- `MerkleSet::get_root` (the vector is never empty in the Rust code) -/
def getRoot (H : Bytes → Bytes) (nv : NodeVec) : Bytes :=
  match nv.getLast? with
  | some (.leaf, h) => hashLeaf H h
  | some (.middle _ _, h) => h
  | some (.truncated, h) => h
  | some (.empty, _) => BLANK
  | none => BLANK

/-- `pad_middles_for_proof_gen(proof, left, right, depth)`; `depth` is a `u8` in the Rust code.
Fuel 0 is not reached for distinct 32-byte leaves (the Rust code would not terminate on equal ones). -/
def padMiddlesForProofGen : Nat → Bytes → Bytes → Nat → Bytes
  | 0, _, _, _ => []
  | f+1, left, right, depth =>
    let leftBit := getBit left depth
    let rightBit := getBit right depth
    if leftBit ≠ rightBit then [MIDDLE, TERMINAL] ++ left ++ [TERMINAL] ++ right
    else if leftBit then [MIDDLE, EMPTY] ++ padMiddlesForProofGen f left right ((depth + 1) % 256)
    else [MIDDLE] ++ padMiddlesForProofGen f left right ((depth + 1) % 256) ++ [EMPTY]

/-- `other_included`: the bytes appended for the sub-tree that is not traversed -/
def otherIncluded (nv : NodeVec) (idx : Nat) : Bytes :=
  match nv[idx]? with
  | some (.empty, _) => [EMPTY]
  | some (.middle _ _, h) => TRUNCATED :: h
  | some (.truncated, h) => TRUNCATED :: h
  | some (.leaf, h) => TERMINAL :: h
  | none => []                 -- index out of range: the Rust code would panic; unreachable

/-- the leaf stored at index `i`, if that node is a `Leaf` (for the `matches!((..), (Leaf, Leaf))` test) -/
def leafAt (nv : NodeVec) (i : Nat) : Option Bytes :=
  match nv[i]? with
  | some (.leaf, h) => some h
  | _ => none

/-- `generate_proof_impl(current_node_index, leaf, proof, depth)`: `none` = `Err(SetError)`,
otherwise the inclusion flag and the bytes appended to the proof. `depth` is a `u8` in the Rust code
(`depth + 1` wraps in a release build). Fuel: child indices are smaller than the node's index. -/
def generateProofImpl (nv : NodeVec) : Nat → Nat → Bytes → Nat → Option (Bool × Bytes)
  | 0, _, _, _ => none
  | f+1, idx, leaf, depth =>
    match nv[idx]? with
    | none => none
    | some (.empty, _) => some (false, [EMPTY])
    | some (.leaf, h) => some (decide (h = leaf), TERMINAL :: h)
    | some (.truncated, _) => none
    | some (.middle l r, _) =>
      match leafAt nv l, leafAt nv r with
      | some lh, some rh =>
        some (decide (lh = leaf) || decide (rh = leaf), padMiddlesForProofGen 257 lh rh depth)
      | _, _ =>
        if getBit leaf depth then
          match generateProofImpl nv f r leaf ((depth + 1) % 256) with
          | none => none
          | some (b, p) => some (b, [MIDDLE] ++ otherIncluded nv l ++ p)
        else
          match generateProofImpl nv f l leaf ((depth + 1) % 256) with
          | none => none
          | some (b, p) => some (b, [MIDDLE] ++ p ++ otherIncluded nv r)

/-- `MerkleSet::generate_proof` -/
def generateProof (ms : MerkleSet) (leaf : Bytes) : Option (Bool × Bytes) :=
  match generateProofImpl ms.nodes ms.nodes.length (ms.nodes.length - 1) leaf 0 with
  | none => none
  | some (b, p) => some (b, if ms.fromProof then [] else p)

/-- the leaf-position audit: `get_bit(&hash, pos as u8) == bits[pos]` for every traced position -/
def auditFrom (h : Bytes) : Nat → List Bool → Bool
  | _, [] => true
  | pos, v :: rest => (getBit h (pos % 256) == v) && auditFrom h (pos + 1) rest

def auditOk (h : Bytes) (bits : List Bool) : Bool := auditFrom h 0 bits

def hashAt (nv : NodeVec) (i : Nat) : Bytes :=
  match nv[i]? with
  | some (_, h) => h
  | none => []

def typeAt (nv : NodeVec) (i : Nat) : NodeType :=
  match nv[i]? with
  | some (t, _) => toNodeType t
  | none => .empty

/-- `ParseOp::Middle`: combine the two child values `(index, type)` on top of the value stack -/
def parseMiddle (H : Bytes → Bytes) (nv : NodeVec) (li : Nat) (lt : NodeType) (ri : Nat) (rt : NodeType) :
    NodeVec × Nat × NodeType :=
  if lt = .empty ∧ rt = .midDbl then (nv ++ [(.middle li ri, hashAt nv ri)], ri, .midDbl)
  else if lt = .midDbl ∧ rt = .empty then (nv ++ [(.middle li ri, hashAt nv li)], li, .midDbl)
  else
    (nv ++ [(.middle li ri, hashNode H (typeAt nv li) (typeAt nv ri) (hashAt nv li) (hashAt nv ri))],
      nv.length, if lt = .term ∧ rt = .term then .midDbl else .mid)

/-- One `ParseOp::Node` together with everything it pushes (recursive descent over
`deserialize_proof_impl`'s stack machine). `depth` is the number of open `MIDDLE`s, `bits` the traced
route. Result: remaining input, node vector, and the value `(index, type)` left on the value stack.
Fuel: called with `fuel + depth = 258`; a `MIDDLE` at `depth > 256` is rejected before recursing. -/
def parseNode (H : Bytes → Bytes) : Nat → Nat → List Bool → Bytes → NodeVec →
    Option (Bytes × NodeVec × Nat × NodeType)
  | 0, _, _, _, _ => none
  | f+1, depth, bits, inp, nv =>
    match inp with
    | [] => none
    | b :: rest =>
      if b = EMPTY then some (rest, nv ++ [(.empty, BLANK)], nv.length, .empty)
      else if b = TERMINAL then
        if rest.length < 32 then none
        else if auditOk (rest.take 32) bits then
          some (rest.drop 32, nv ++ [(.leaf, rest.take 32)], nv.length, .term)
        else none
      else if b = TRUNCATED then
        if rest.length < 32 then none
        else some (rest.drop 32, nv ++ [(.truncated, rest.take 32)], nv.length, .mid)
      else if b = MIDDLE then
        if depth > 256 then none
        else
          match parseNode H f (depth + 1) (bits ++ [false]) rest nv with
          | none => none
          | some (rest1, nv1, li, lt) =>
            match parseNode H f (depth + 1) (bits ++ [true]) rest1 nv1 with
            | none => none
            | some (rest2, nv2, ri, rt) =>
              let m := parseMiddle H nv2 li lt ri rt
              some (rest2, m.1, m.2.1, m.2.2)
      else none

/-- `deserialize_proof_impl` on an empty `MerkleSet`: the whole input must be consumed -/
def deserializeProof (H : Bytes → Bytes) (proof : Bytes) : Option NodeVec :=
  match parseNode H 258 0 [] proof [] with
  | some ([], nv, _, _) => some nv
  | _ => none

/-- `MerkleSet::from_proof` -/
def fromProof (H : Bytes → Bytes) (proof : Bytes) : Option MerkleSet :=
  match deserializeProof H proof with
  | none => none
  | some nv => some { nodes := nv, fromProof := true }

/-- the four ways `validate_merkle_proof` can end (the three errors are the same `SetError`) -/
inductive ValidateOutcome where
  | parseErr          -- `MerkleSet::from_proof(proof)?`
  | rootMismatch      -- `tree.get_root() != *root`
  | truncatedOnPath   -- `tree.generate_proof(item)?` ran into a truncated node
  | verdict (b : Bool)
  deriving DecidableEq, Repr

def validateOutcome (H : Bytes → Bytes) (proof item root : Bytes) : ValidateOutcome :=
  match fromProof H proof with
  | none => .parseErr
  | some tree =>
    if getRoot H tree.nodes ≠ root then .rootMismatch
    else
      match generateProof tree item with
      | none => .truncatedOnPath
      | some (b, _) => .verdict b

/-- `validate_merkle_proof(proof, item, root)`: `none` = `Err(SetError)` -/
def validateMerkleProof (H : Bytes → Bytes) (proof item root : Bytes) : Option Bool :=
  match validateOutcome H proof item root with
  | .verdict b => some b
  | _ => none

/-! ## Reference specification: the collapsed binary-trie hash of a finite set -/

namespace Spec

/-- Combine the values of the two half-sets below a trie position: a position with only one
non-empty side forwards that side's value, unless that side is a `mid` node (then the empty side is
hashed in as `(empty, BLANK)`); a position with two non-empty sides hashes both values with their
types, and is `midDbl` exactly when both are single leaves. -/
def combine (H : Bytes → Bytes) (l r : Bytes × NodeType) : Bytes × NodeType :=
  if l.2 = .empty ∧ r.2 ≠ .mid then r
  else if r.2 = .empty ∧ l.2 ≠ .mid then l
  else (hashNode H l.2 r.2 l.1 r.1, if l.2 = .term ∧ r.2 = .term then .midDbl else .mid)

/-- value (hash, type) of the set `S` (a list of 32-byte strings that agree on their first
`256 - n` bits) at trie depth `256 - n` -/
def trie (H : Bytes → Bytes) : Nat → List Bytes → Bytes × NodeType
  | 0, S =>
    match S with
    | [] => (BLANK, .empty)
    | x :: _ => (x, .term)
  | n+1, S =>
    match S with
    | [] => (BLANK, .empty)
    | [x] => (x, .term)
    | _ =>
      combine H (trie H n (S.filter (fun v => !getBit v (255 - n))))
                (trie H n (S.filter (fun v => getBit v (255 - n))))

/-- the Merkle set root of the set enumerated by `S` -/
def root (H : Bytes → Bytes) (S : List Bytes) : Bytes :=
  match trie H 256 S with
  | (_, .empty) => BLANK
  | (x, .term) => hashLeaf H x
  | (h, .mid) => h
  | (h, .midDbl) => h

/-- remove duplicates (keeps the last occurrence of each element) -/
def dedup : List Bytes → List Bytes
  | [] => []
  | x :: xs => if x ∈ dedup xs then dedup xs else x :: dedup xs

end Spec

/-- a 32-byte string -/
def IsLeaf (x : Bytes) : Prop := x.length = 32 ∧ ∀ b ∈ x, b < 256

instance : DecidablePred IsLeaf := fun x => by unfold IsLeaf; infer_instance

end ChiaModel.Merkle
