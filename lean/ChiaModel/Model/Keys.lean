import ChiaModel.Model.Ints
import ChiaModel.Model.BlsCache
/-
C16: key and signature encodings, key derivation.

What lives in /repo (and is modelled concretely here):
  * `chia-bls/src/public_key.rs`  `PublicKey::from_bytes_unchecked` (flag-bit canonicality rules before
    blst is called), `from_bytes` (= unchecked + `is_valid`), `DerivableKey::derive_unhardened`
    (hash-input layout, lendian → scalar → bendian → `blst_p1_mult`);
  * `chia-bls/src/secret_key.rs`  `SecretKey::from_bytes` (zero allowed, otherwise `blst_sk_check`),
    `to_bytes`, `derive_unhardened` (`blst_scalar_from_be_bytes(sha256(pk ‖ idx))` + sk mod r), `Add`;
  * `chia-bls/src/signature.rs`   `Signature::from_bytes_unchecked` (no rule of its own: everything is
    delegated to `blst_p2_uncompress`), `from_bytes`;
  * `chia-bls/src/gtelement.rs`   `GTElement::from_bytes`/`to_bytes` (a raw memory copy of 576 bytes);
  * `chia-bls/src/derive_keys.rs` `derive_path_unhardened`, `master_to_wallet_unhardened(_intermediate)`;
  * `chia-puzzle-types/src/derive_synthetic.rs` `mod_by_group_order`, `synthetic_offset`,
    `DeriveSynthetic for SecretKey / PublicKey`.

What is blst's (external; modelled, never verified):
  * the curve group.  **Scalar model**: a secret key is a scalar `sk < r`, a G1 element is represented
    by its discrete logarithm to the generator (`pk = sk·g` ≅ `sk mod r`, `0` = the point at infinity),
    `blst_p1_add` is addition mod `r`, `blst_p1_mult(g, k)` is `k mod r`.  "blst realises this group
    law" (g has prime order `r`) is part of the trusted base.
  * point compression (`compress`/`uncompress`), the subgroup test: a record `Blst P` of functions, with
    the contract `G1Codec`/`G2Codec` stated as explicit hypotheses in Props/C16.lean.  In the driver the
    record is instantiated by oracle answers the harness obtains from blst through calls that do not
    pass through /repo's wrappers.
  * `pk.to_bytes()` of a scalar-represented key: the function `enc : Nat → Bytes` (in the driver: the
    `sk=pk` table on the case line, computed by the harness with `SecretKey::public_key().to_bytes()`).

No Mathlib imports: this file is linked into the compiled driver.
-/
namespace ChiaModel.Keys
open ChiaModel

/-! ## constants -/

/-- the order of the BLS12-381 prime-order groups (scalar field modulus) -/
def r : Nat := 0x73eda753299d7d483339d80809a1d80553bda402fffe5bfeffffffff00000001

/-- the BLS12-381 base field modulus (coordinates of a compressed point must be below it) -/
def p : Nat := 0x1a0111ea397fe69a4b1ba7b6434bacd764774b84f38512bf6730d2a0f6b0f6241eabfffeb153ffffb9feffffffffaaab

/-- `GROUP_ORDER_BYTES` of derive_synthetic.rs -/
def groupOrderBytes : Bytes :=
  [0x73, 0xed, 0xa7, 0x53, 0x29, 0x9d, 0x7d, 0x48, 0x33, 0x39, 0xd8, 0x08, 0x09, 0xa1, 0xd8, 0x05,
   0x53, 0xbd, 0xa4, 0x02, 0xff, 0xfe, 0x5b, 0xfe, 0xff, 0xff, 0xff, 0xff, 0x00, 0x00, 0x00, 0x01]

/-- `is_all_zero` (secret_key.rs) -/
def isAllZero (b : Bytes) : Bool := b.all (fun x => x == 0)

/-- value of a little-endian byte string -/
def leVal (b : Bytes) : Nat := beVal b.reverse

/-! ## `mod_by_group_order`, exactly as coded -/

/-- `BigUint::to_bytes_be` (num-bigint): minimal big-endian, the single byte `00` for zero.
(Only used on values below `r < 2^256`, so 32 bytes hold every digit.) -/
def toBytesBe (n : Nat) : Bytes :=
  let s := (be 32 n).dropWhile (fun x => x == 0)
  if s.isEmpty then [0] else s

/-- `mod_by_group_order`: signed big-endian interpretation (`BigInt::from_signed_bytes_be`),
`((value % r) + r) % r` with Rust's truncating `%`, magnitude as minimal big-endian bytes, left-padded
with zeros to 32 bytes.  (The Rust signature fixes the input to 32 bytes; the model and the theorem
take any length.) -/
def modByGroupOrder (bytes : Bytes) : Bytes :=
  let value : Int := intOfBytes bytes
  let groupOrder : Int := intOfBytes groupOrderBytes
  let modulo : Int := ((value.tmod groupOrder) + groupOrder).tmod groupOrder
  let byteVec := toBytesBe modulo.toNat
  if byteVec.length < 32 then List.replicate (32 - byteVec.length) 0 ++ byteVec else byteVec

/-! ## secret keys -/

/-- `blst_sk_check`: `1 ≤ a < r` -/
def skCheck (v : Nat) : Bool := decide (0 < v ∧ v < r)

/-- `SecretKey::from_bytes` (32 bytes): the all-zero key is accepted before any check, otherwise
`blst_sk_check` decides.  The result is the scalar. -/
def skFromBytes (b : Bytes) : Option Nat :=
  if isAllZero b then some 0
  else if skCheck (beVal b) then some (beVal b) else none

/-- `SecretKey::to_bytes` = `blst_bendian_from_scalar` -/
def skToBytes (s : Nat) : Bytes := be 32 s

/-- `blst_sk_add_n_check` (its zero-result flag is ignored by `Add`, asserted by `derive_unhardened`) -/
def skAdd (a b : Nat) : Nat := (a + b) % r

/-! ## the scalar model of G1 -/

/-- `SecretKey::public_key` = `blst_sk_to_pk_in_g1`: `sk·g`, represented by `sk mod r` -/
def pkOf (sk : Nat) : Nat := sk % r

/-- `blst_p1_add` / `blst_p1_add_or_double` on scalar-represented points -/
def gAdd (a b : Nat) : Nat := (a + b) % r

/-- `blst_p1_mult(point, k, 256)`: multiplication by the 256-bit integer `k` (blst does not reduce the
integer; the group does) -/
def gMul (k point : Nat) : Nat := (k * point) % r

/-- `blst_p1_generator` -/
def gen : Nat := 1

/-! ## `derive_unhardened`, both implementations -/

/-- the hashed string: `pk.to_bytes() ‖ idx.to_be_bytes()` (48 + 4 bytes) -/
def deriveHashInput (pkb : Bytes) (idx : Nat) : Bytes := pkb ++ be 4 idx

/-- `blst_scalar_from_be_bytes(digest, 32)`: the big-endian integer reduced mod `r` -/
def scalarFromBeBytes (d : Bytes) : Nat := beVal d % r

/-- `SecretKey::derive_unhardened`.  `enc` is `PublicKey::to_bytes` on scalar-represented keys. -/
def deriveSk (enc : Nat → Bytes) (sk idx : Nat) : Nat :=
  let digest := sha256 (deriveHashInput (enc (pkOf sk)) idx)
  skAdd (scalarFromBeBytes digest) sk

/-- `blst_scalar_from_lendian(nonce, digest)`: the digest read as a LITTLE-endian 256-bit number -/
def scalarFromLendian (d : Bytes) : Nat := leVal d

/-- `blst_bendian_from_scalar(bte, nonce)`: 32 big-endian bytes of the scalar (written to the front
of the 48-byte buffer `bte`) -/
def bendianFromScalar (s : Nat) : Bytes := be 32 s

/-- the integer `blst_p1_mult(…, bte, 256)` multiplies by: it reads its scalar argument
little-endian, 256 bits = the first 32 bytes of `bte` -/
def multScalar (bte : Bytes) : Nat := leVal (bte.take 32)

/-- `PublicKey::derive_unhardened`: `g · multScalar(bendian(lendian(digest))) + pk` -/
def derivePk (enc : Nat → Bytes) (pk idx : Nat) : Nat :=
  let digest := sha256 (deriveHashInput (enc pk) idx)
  let nonce := scalarFromLendian digest
  let bte := bendianFromScalar nonce
  gAdd (gMul (multScalar bte) gen) pk

/-- `derive_path_unhardened` for `SecretKey` (the Rust code indexes `path[0]`: paths are non-empty) -/
def derivePathSk (enc : Nat → Bytes) (sk : Nat) (path : List Nat) : Nat := path.foldl (deriveSk enc) sk

/-- `derive_path_unhardened` for `PublicKey` -/
def derivePathPk (enc : Nat → Bytes) (pk : Nat) (path : List Nat) : Nat := path.foldl (derivePk enc) pk

/-- `master_to_wallet_unhardened_intermediate` -/
def walletIntermediatePath : List Nat := [12381, 8444, 2]

/-- `master_to_wallet_unhardened(key, idx)` -/
def walletPath (idx : Nat) : List Nat := [12381, 8444, 2, idx]

/-! ## synthetic keys -/

/-- `synthetic_offset`: `SecretKey::from_bytes(mod_by_group_order(sha256(pk ‖ hidden_puzzle_hash)))`;
`none` = the `.unwrap()` would panic (`synthetic_offset_total`: never) -/
def syntheticOffset (pkb hph : Bytes) : Option Nat := skFromBytes (modByGroupOrder (sha256 (pkb ++ hph)))

/-- `DeriveSynthetic for SecretKey`: `self + &synthetic_offset(&self.public_key(), hph)` -/
def synthSk (enc : Nat → Bytes) (sk : Nat) (hph : Bytes) : Option Nat :=
  (syntheticOffset (enc (pkOf sk)) hph).map (fun off => skAdd sk off)

/-- `DeriveSynthetic for PublicKey`: `self + &synthetic_offset(self, hph).public_key()` -/
def synthPk (enc : Nat → Bytes) (pk : Nat) (hph : Bytes) : Option Nat :=
  (syntheticOffset (enc pk) hph).map (fun off => gAdd pk (pkOf off))

/-! ## flag bits of the compressed encodings -/

/-- the three error kinds `PublicKey::from_bytes_unchecked` produces by itself -/
inductive G1Err where
  | notCanonical          -- `Error::G1NotCanonical`
  | infinityInvalidBits   -- `Error::G1InfinityInvalidBits`
  | infinityNotZero       -- `Error::G1InfinityNotZero`
  deriving DecidableEq, Repr

/-- outcome of the checks /repo makes before (instead of) calling blst -/
inductive FlagVerdict where
  /-- accepted as the point at infinity, blst is not consulted -/
  | inf
  /-- rejected, blst is not consulted -/
  | err (e : G1Err)
  /-- `blst_p1_uncompress` / `blst_p2_uncompress` decides -/
  | blst
  deriving DecidableEq, Repr

/-- the verdict without the error kind -/
inductive FlagClass where
  | inf | reject | blst
  deriving DecidableEq, Repr

def FlagVerdict.cls : FlagVerdict → FlagClass
  | .inf => .inf
  | .err _ => .reject
  | .blst => .blst

/-- `PublicKey::from_bytes_unchecked`, the part before `blst_p1_uncompress`, as coded:
`b0 = bytes[0]`, `zerosOnly = is_all_zero(&bytes[1..])` -/
def g1FlagsCore (b0 : Nat) (zerosOnly : Bool) : FlagVerdict :=
  if b0 &&& 0xc0 = 0xc0 then
    (if b0 ≠ 0xc0 ∨ zerosOnly = false then .err .notCanonical else .inf)
  else if b0 &&& 0xc0 ≠ 0x80 then .err .infinityInvalidBits
  else if zerosOnly then .err .infinityNotZero
  else .blst

def g1Flags (b : Bytes) : FlagVerdict := g1FlagsCore (b.headD 0) (isAllZero (b.drop 1))

/-- `Signature::from_bytes_unchecked` has no rule of its own -/
def g2Flags (_ : Bytes) : FlagVerdict := .blst

/-- **The format table** (ZCash compressed encoding, what "unique encoding" requires of a parser),
on the flag bits `c` (compressed, 0x80), `i` (infinity, 0x40), `s` (sign, 0x20) and on whether the
remaining 5 bits of the first byte / the remaining bytes are zero:
compression bit clear → reject; infinity bit set → the encoding must be exactly `c0 00 … 00`;
infinity bit clear → x = 0 is rejected (`(0, ±2)` is on E1 but not in the group), otherwise the
coordinate decides (blst). -/
def formatSpec (c i s low5Zero restZero : Bool) : FlagClass :=
  if !c then .reject
  else if i then (if !s && low5Zero && restZero then .inf else .reject)
  else if low5Zero && restZero then .reject
  else .blst

/-- the table /repo's G1 code implements: the format table, except that with infinity bit clear the
test for x = 0 looks at `bytes[1..]` only -/
def g1Table (c i s low5Zero restZero : Bool) : FlagClass :=
  if !c then .reject
  else if i then (if !s && low5Zero && restZero then .inf else .reject)
  else if restZero then .reject
  else .blst

def bitC (b0 : Nat) : Bool := decide (b0 / 128 % 2 = 1)
def bitI (b0 : Nat) : Bool := decide (b0 / 64 % 2 = 1)
def bitS (b0 : Nat) : Bool := decide (b0 / 32 % 2 = 1)
def low5Zero (b0 : Nat) : Bool := decide (b0 % 32 = 0)

/-- the format table applied to an encoding -/
def formatClass (b : Bytes) : FlagClass :=
  let b0 := b.headD 0
  formatSpec (bitC b0) (bitI b0) (bitS b0) (low5Zero b0) (isAllZero (b.drop 1))

/-- the canonical encoding of the point at infinity: `c0 00 … 00` (`n` bytes) -/
def infBytes (n : Nat) : Bytes := 0xc0 :: List.replicate (n - 1) 0

/-- first byte with the three flag bits cleared -/
def clearFlags : Bytes → Bytes
  | [] => []
  | x :: t => (x % 32) :: t

/-- the x-coordinate field of a 48-byte G1 encoding -/
def g1X (b : Bytes) : Nat := beVal (clearFlags b)

/-- both Fp components of the x-coordinate of a 96-byte G2 encoding are in range -/
def g2CoordsInRange (b : Bytes) : Bool :=
  decide (beVal (clearFlags (b.take 48)) < p) && decide (beVal (b.drop 48) < p)

/-! ## parsing, parametrised by what blst provides -/

/-- blst's side of one curve group, as used by the wrappers -/
structure Blst (P : Type) where
  /-- `blst_pN_uncompress(bytes) == BLST_SUCCESS` and the point it returns -/
  uncompress : Bytes → Option P
  /-- `blst_pN_compress` -/
  compress : P → Bytes
  /-- `Default::default()`: the point at infinity -/
  inf : P
  /-- `is_valid()`: `blst_pN_is_inf || blst_pN_in_gN` -/
  isValid : P → Bool

variable {P : Type}

/-- `PublicKey::from_bytes_unchecked` -/
def g1FromBytesUnchecked (B : Blst P) (b : Bytes) : Option P :=
  match g1Flags b with
  | .inf => some B.inf
  | .err _ => none
  | .blst => B.uncompress b

/-- `PublicKey::from_bytes` -/
def g1FromBytes (B : Blst P) (b : Bytes) : Option P :=
  match g1FromBytesUnchecked B b with
  | some x => if B.isValid x then some x else none
  | none => none

/-- `Signature::from_bytes_unchecked` -/
def g2FromBytesUnchecked (B : Blst P) (b : Bytes) : Option P :=
  match g2Flags b with
  | .inf => some B.inf
  | .err _ => none
  | .blst => B.uncompress b

/-- `Signature::from_bytes` -/
def g2FromBytes (B : Blst P) (b : Bytes) : Option P :=
  match g2FromBytesUnchecked B b with
  | some x => if B.isValid x then some x else none
  | none => none

/-- `PublicKey::to_bytes` / `Signature::to_bytes` -/
def toBytes (B : Blst P) (x : P) : Bytes := B.compress x

/-- `Streamable::parse::<TRUSTED>` for `PublicKey` -/
def g1Parse (B : Blst P) (trusted : Bool) (b : Bytes) : Option P :=
  if trusted then g1FromBytesUnchecked B b else g1FromBytes B b

/-- `Streamable::parse::<TRUSTED>` for `Signature` -/
def g2Parse (B : Blst P) (trusted : Bool) (b : Bytes) : Option P :=
  if trusted then g2FromBytesUnchecked B b else g2FromBytes B b

/-- `GTElement::from_bytes`: a raw copy of the 576 bytes into the `blst_fp12`; an element is
represented by those bytes (`PartialEq` = `blst_fp12_is_equal` compares the same limbs) -/
def gtFromBytes (b : Bytes) : Bytes := b

/-- `GTElement::to_bytes`: the raw copy back -/
def gtToBytes (g : Bytes) : Bytes := g

/-! ## the oracle instance the driver uses

For one encoding `b` the harness ships two answers it obtained from blst by calls that do not go
through /repo's wrappers: `u` — `blst_pN_uncompress(b)` succeeded, `v` — the resulting point is the
point at infinity or in the prime-order subgroup.  A point is represented by its (unique) encoding. -/

/-- the point type of the oracle instance: the encoding together with blst's subgroup answer -/
structure OPoint where
  bytes : Bytes
  valid : Bool
  deriving DecidableEq, Repr

def oracleBlst (n : Nat) (b : Bytes) (u v : Bool) : Blst OPoint :=
  { uncompress := fun b' => if b' = b ∧ u then some { bytes := b, valid := v } else none,
    compress := fun x => x.bytes,
    inf := { bytes := infBytes n, valid := true },
    isValid := fun x => x.valid }

/-! ## signing, in the ideal BLS of C15 -/

/-- `sign(sk, msg)` = `sign_raw(sk, pk.to_bytes() ‖ msg)`: `sk · H(pk ‖ msg)` -/
def signModel (sk : Nat) (pkb msg : Bytes) : Bls.Sig := Bls.Pair.sign { pk := (sk : Int), pkb := pkb, msg := msg }

/-- `verify(sig, pk, msg)` for the key with scalar `vsk` -/
def verifyModel (sig : Bls.Sig) (vsk : Nat) (vpkb vmsg : Bytes) : Bool :=
  Bls.verify sig { pk := (vsk : Int), pkb := vpkb, msg := vmsg }

end ChiaModel.Keys
