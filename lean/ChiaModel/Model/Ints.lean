import ChiaModel.Base.Sexp
import ChiaModel.Gen.Ladders
/-
C11: canonical CLVM integers (specification) and hand models of the loop-based codecs
`encode_number`, `decode_number` (clvm-traits/src/int_encoding.rs) and `sanitize_uint`
(chia-consensus/src/sanitize_int.rs).
-/
namespace ChiaModel

/-! ## Specification: the minimal big-endian two's-complement form -/

def byteLenAux : Nat → Nat → Nat
  | 0, _ => 1
  | f+1, v => if v < 128 then 1 else 1 + byteLenAux f (v / 256)

/-- number of bytes of the minimal two's-complement form of a non-negative `v` (valid below 2^135) -/
def byteLen (v : Nat) : Nat := if v = 0 then 0 else byteLenAux 17 v

/-- canonical CLVM encoding of a natural number -/
def canonNat (v : Nat) : Bytes := be (byteLen v) v

/-- bytes needed for a negative number `-(m+1)`: smallest `n ≥ 1` with `m < 2^(8n-1)` -/
def negLenAux : Nat → Nat → Nat
  | 0, _ => 1
  | f+1, m => if m < 128 then 1 else 1 + negLenAux f (m / 256)

/-- canonical CLVM encoding of an integer (valid for |x| < 2^135) -/
def canonInt : Int → Bytes
  | .ofNat v => canonNat v
  | .negSucc m => let n := negLenAux 17 m; be n (256 ^ n - (m + 1))

/-- signed value of a big-endian two's-complement byte string (empty = 0) -/
def intOfBytes (b : Bytes) : Int :=
  match b with
  | [] => 0
  | x :: _ => if x ≥ 128 then (beVal b : Int) - (256 ^ b.length : Nat) else (beVal b : Int)

/-- no redundant leading byte: the defining property of the canonical form -/
def Minimal (b : Bytes) : Prop :=
  match b with
  | [] => True
  | [x] => x ≠ 0
  | x :: y :: _ => ¬ (x = 0 ∧ y < 128) ∧ ¬ (x = 255 ∧ y ≥ 128)

instance : DecidablePred Minimal := fun b => by unfold Minimal; split <;> infer_instance

/-! ## Model of `sanitize_uint` -/

/-- first byte exists and has its top bit clear -/
def headLt128 : Bytes → Bool
  | [] => false
  | x :: _ => x < 128

/-- first byte exists and has its top bit set -/
def headGe128 : Bytes → Bool
  | [] => false
  | x :: _ => x ≥ 128

inductive Sanitized where
  | ok (v : Nat)
  | posOverflow
  | negOverflow
  | err            -- `Err(code)`: redundant leading zero (or a pair; pairs are handled by callers)
  deriving Repr, DecidableEq

def sanitizeUint (buf : Bytes) (maxSize : Nat) : Sanitized :=
  match buf with
  | [] => .ok 0
  | b0 :: tl =>
    if b0 ≥ 128 then .negOverflow
    else if buf = [0] ∨ (b0 = 0 ∧ headLt128 tl) then .err
    else
      if buf.length > (if b0 = 0 then maxSize + 1 else maxSize) then .posOverflow
      else .ok (beVal buf)

/-! ## Model of `encode_number` / `decode_number` -/

def skipPad (pad : Nat) : Bytes → Bytes
  | [] => []
  | x :: tl => if x = pad then skipPad pad tl else x :: tl

def encodeNumber (slice : Bytes) (negative : Bool) : Bytes :=
  let pad := if negative then 0xff else 0
  let r := skipPad pad slice
  let needsPadding :=
    if negative then (match r with | [] => true | x :: _ => x < 128)
    else (match r with | [] => false | x :: _ => x ≥ 128)
  if needsPadding then pad :: r else r

/-- the `while slice.len() > LEN && slice[0] == pad` loop, with the 64-byte padding budget -/
def stripPadding (len pad : Nat) : Nat → Bytes → Option Bytes
  | budget, x :: tl =>
    if (x :: tl).length > len ∧ x = pad then
      match budget with
      | 0 => none
      | b+1 => stripPadding len pad b tl
    else some (x :: tl)
  | _, [] => some []

def decodeNumber (len : Nat) (signed : Bool) (slice : Bytes) : Option Bytes :=
  match slice with
  | [] => some (zeros len)
  | x0 :: _ =>
    if !signed ∧ x0 ≥ 128 then none
    else
      let wasNeg : Bool := signed && decide (x0 ≥ 128)
      let pad := if wasNeg then 0xff else 0
      match stripPadding len pad 64 slice with
      | none => none
      | some s =>
        let isNeg : Bool := signed && headGe128 s
        if s.length > len ∨ (isNeg ≠ wasNeg) then none
        else some (List.replicate (len - s.length) pad ++ s)

end ChiaModel
