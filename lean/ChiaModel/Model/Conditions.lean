import ChiaModel.Model.Ints
import ChiaModel.Gen.Opcodes
import ChiaModel.Gen.Flags
import ChiaModel.Gen.Constants
/-
Hand model of chia-consensus/src/conditions.rs (parse_spends and everything below it),
condition_sanitizers.rs, messages.rs, opcodes.rs::parse_opcode and the list helpers of
validation_error.rs.  The input is an already evaluated CLVM tree (a value), so this is a pure
function of (tree, flags, max_cost, clvm_cost, constants, key validity, signature verdict).

Mirrors the control flow of the Rust code (same order of checks), with sets as duplicate-free
lists.  `HashSet<NodePtr>` de-duplication by pointer is unobservable: those sets are only ever
tested for membership / iterated for an all-quantified check.
-/
namespace ChiaModel.Cond
open ChiaModel

inductive Err where
  | reject         -- any ValidationErr other than cost exceeded
  | costExceeded
  deriving Repr, DecidableEq

abbrev R := Except Err

def hasFlag (flags f : Nat) : Bool := flags &&& f ≠ 0

/-! ## list helpers (validation_error.rs) -/

def first : Sexp → R Sexp
  | .pair l _ => .ok l
  | .atom _ => .error .reject

def rest : Sexp → R Sexp
  | .pair _ r => .ok r
  | .atom _ => .error .reject

def checkNil : Sexp → R Unit
  | .atom [] => .ok ()
  | _ => .error .reject

def atomOf : Sexp → R Bytes
  | .atom b => .ok b
  | .pair _ _ => .error .reject

/-! ## sanitizers -/

def sanitizeHash (n : Sexp) (size : Nat) : R Bytes := do
  let b ← atomOf n
  if b.length = size then .ok b else .error .reject

def sanitizeAnnounceMsg (n : Sexp) : R Bytes := do
  let b ← atomOf n
  if b.length > 1024 then .error .reject else .ok b

/-- `parse_amount`: canonical u64, anything else rejected -/
def parseAmount (n : Sexp) : R Nat := do
  let b ← atomOf n
  match sanitizeUint b 8 with
  | .ok v => .ok v
  | _ => .error .reject

/-- clvmr `fits_in_small_atom` -/
def fitsInSmallAtom (v : Bytes) : Option Nat :=
  match v with
  | [] => some 0
  | b0 :: tl =>
    if v.length > 4 ∨ (v.length = 1 ∧ b0 = 0) ∨ b0 ≥ 128 ∨ (b0 = 0 ∧ headLt128 tl) ∨ (v.length = 4 ∧ b0 > 3)
    then none else some (beVal v)

def sanitizeMessageMode (n : Sexp) : R Nat :=
  match n with
  | .pair _ _ => .error .reject
  | .atom b =>
    match fitsInSmallAtom b with
    | none => .error .reject
    | some mode => if mode / 64 ≠ 0 then .error .reject else .ok mode

/-! ## opcodes -/

def parseOpcode (op : Sexp) : Option Nat :=
  match op with
  | .pair _ _ => none
  | .atom [b0, b1] => if b0 = 0 then none else some (b0 * 256 + b1)
  | .atom [b0] => if Gen.opcodeWhitelist.contains b0 then some b0 else none
  | .atom _ => none

/-! ## parsed conditions -/

/-- message endpoints (messages.rs `SpendId`), already in `make_key` form: tag byte ++ fields -/
abbrev SpendIdKey := Bytes

inductive Cond where
  | aggSig (op : Nat) (pk msg : Bytes)
  | createCoin (ph : Bytes) (amount : Nat) (hint : Option Bytes)
  | reserveFee (v : Nat)
  | createCoinAnnouncement (msg : Bytes)
  | createPuzzleAnnouncement (msg : Bytes)
  | assertCoinAnnouncement (id : Bytes)
  | assertPuzzleAnnouncement (id : Bytes)
  | assertConcurrentSpend (id : Bytes)
  | assertConcurrentPuzzle (id : Bytes)
  | assertMyCoinId (id : Bytes)
  | assertMyParentId (id : Bytes)
  | assertMyPuzzlehash (id : Bytes)
  | assertMyAmount (v : Nat)
  | assertMyBirthSeconds (v : Nat)
  | assertMyBirthHeight (v : Nat)
  | assertSecondsRelative (v : Nat)
  | assertSecondsAbsolute (v : Nat)
  | assertHeightRelative (v : Nat)
  | assertHeightAbsolute (v : Nat)
  | assertBeforeSecondsRelative (v : Nat)
  | assertBeforeSecondsAbsolute (v : Nat)
  | assertBeforeHeightRelative (v : Nat)
  | assertBeforeHeightAbsolute (v : Nat)
  | assertEphemeral
  | softfork (cost : Nat)
  | sendMessage (srcMode : Nat) (dst : SpendIdKey) (msg : Bytes)
  | receiveMessage (src : SpendIdKey) (dstMode : Nat) (msg : Bytes)
  | skip
  | skipRelativeCondition
  deriving Repr, DecidableEq

def strict (flags : Nat) : Bool := hasFlag flags Gen.flagStrictArgsCount

/-- `maybe_check_args_terminator` -/
def maybeCheckArgsTerminator (c : Sexp) (flags : Nat) : R Unit :=
  if strict flags then do let r ← rest c; checkNil r else .ok ()

/-- `SpendId::parse`: returns the key bytes and the remaining argument list -/
def spendIdParse (args : Sexp) (mode : Nat) : R (SpendIdKey × Sexp) := do
  if mode = 7 then
    let id ← sanitizeHash (← first args) 32
    let args ← rest args
    return (7 :: id, args)
  let (parent, args) ← if mode / 4 % 2 = 1 then do
      let p ← sanitizeHash (← first args) 32
      let a ← rest args
      pure (p, a)
    else pure ([], args)
  let (puzzle, args) ← if mode / 2 % 2 = 1 then do
      let p ← sanitizeHash (← first args) 32
      let a ← rest args
      pure (p, a)
    else pure ([], args)
  let (amount, args) ← if mode % 2 = 1 then do
      let b ← atomOf (← first args)
      match sanitizeUint b 8 with
      | .ok v => do let a ← rest args; pure (be 8 v, a)
      | _ => .error .reject
    else pure ([], args)
  -- every 3-bit mode other than 7 is one of the seven named combinations
  return (mode :: (parent ++ puzzle ++ amount), args)

/-- `SpendId::from_self` followed by `make_key` -/
def spendIdFromSelf (mode : Nat) (parent puzzle : Bytes) (amount : Nat) (coinId : Bytes) : SpendIdKey :=
  if mode = 7 then 7 :: coinId
  else mode :: ((if mode / 4 % 2 = 1 then parent else []) ++ (if mode / 2 % 2 = 1 then puzzle else [])
    ++ (if mode % 2 = 1 then be 8 amount else []))

/-- integer argument classes of the ten lock/birth opcodes -/
def lockArg (c : Sexp) (flags : Nat) (width : Nat) : R Sanitized := do
  maybeCheckArgsTerminator c flags
  let node ← first c
  let b ← atomOf node
  match sanitizeUint b width with
  | .err => .error .reject
  | s => .ok s

def isAggSig (op : Nat) : Bool :=
  op = Gen.opAggSigUnsafe || op = Gen.opAggSigMe || op = Gen.opAggSigPuzzle || op = Gen.opAggSigPuzzleAmount
  || op = Gen.opAggSigParent || op = Gen.opAggSigAmount || op = Gen.opAggSigParentPuzzle || op = Gen.opAggSigParentAmount

/-- `parse_args` -/
def parseArgs (c : Sexp) (op : Nat) (flags : Nat) : R Cond :=
  if isAggSig op then do
    let pk ← sanitizeHash (← first c) 48
    let c ← rest c
    let msg ← sanitizeAnnounceMsg (← first c)
    if strict flags then checkNil (← rest c)
    return .aggSig op pk msg
  else if op = Gen.opCreateCoin then do
    let ph ← sanitizeHash (← first c) 32
    let c ← rest c
    let node ← first c
    let b ← atomOf node
    let amount ← match sanitizeUint b 8 with
      | .ok v => pure v
      | _ => Except.error Err.reject
    let c ← rest c
    match c with
    | .pair params _ =>
      maybeCheckArgsTerminator c flags
      match params with
      | .pair (.atom h) _ =>
        if h.length ≤ 32 then return .createCoin ph amount (if h.isEmpty then none else some h)
        else return .createCoin ph amount none
      | _ => return .createCoin ph amount none
    | .atom _ =>
      if strict flags then checkNil c
      return .createCoin ph amount none
  else if op = Gen.opSoftfork then
    if hasFlag flags Gen.flagNoUnknownConds then .error .reject
    else do
      let b ← atomOf (← first c)
      match sanitizeUint b 4 with
      | .ok cost => return .softfork (cost * 10000)
      | _ => .error .reject
  else if 256 ≤ op ∧ op ≤ 65535 then
    if hasFlag flags Gen.flagNoUnknownConds then .error .reject
    else return .softfork (Gen.computeUnknownConditionCost op)
  else if op = Gen.opReserveFee then do
    maybeCheckArgsTerminator c flags
    return .reserveFee (← parseAmount (← first c))
  else if op = Gen.opCreateCoinAnnouncement then do
    maybeCheckArgsTerminator c flags
    return .createCoinAnnouncement (← sanitizeAnnounceMsg (← first c))
  else if op = Gen.opAssertCoinAnnouncement then do
    maybeCheckArgsTerminator c flags
    return .assertCoinAnnouncement (← sanitizeHash (← first c) 32)
  else if op = Gen.opCreatePuzzleAnnouncement then do
    maybeCheckArgsTerminator c flags
    return .createPuzzleAnnouncement (← sanitizeAnnounceMsg (← first c))
  else if op = Gen.opAssertPuzzleAnnouncement then do
    maybeCheckArgsTerminator c flags
    return .assertPuzzleAnnouncement (← sanitizeHash (← first c) 32)
  else if op = Gen.opAssertConcurrentSpend then do
    maybeCheckArgsTerminator c flags
    return .assertConcurrentSpend (← sanitizeHash (← first c) 32)
  else if op = Gen.opAssertConcurrentPuzzle then do
    maybeCheckArgsTerminator c flags
    return .assertConcurrentPuzzle (← sanitizeHash (← first c) 32)
  else if op = Gen.opAssertMyCoinId then do
    maybeCheckArgsTerminator c flags
    return .assertMyCoinId (← sanitizeHash (← first c) 32)
  else if op = Gen.opAssertMyParentId then do
    maybeCheckArgsTerminator c flags
    return .assertMyParentId (← sanitizeHash (← first c) 32)
  else if op = Gen.opAssertMyPuzzlehash then do
    maybeCheckArgsTerminator c flags
    return .assertMyPuzzlehash (← sanitizeHash (← first c) 32)
  else if op = Gen.opAssertMyAmount then do
    maybeCheckArgsTerminator c flags
    return .assertMyAmount (← parseAmount (← first c))
  else if op = Gen.opAssertMyBirthSeconds then do
    match ← lockArg c flags 8 with
    | .ok r => return .assertMyBirthSeconds r
    | _ => .error .reject
  else if op = Gen.opAssertMyBirthHeight then do
    match ← lockArg c flags 4 with
    | .ok r => return .assertMyBirthHeight r
    | _ => .error .reject
  else if op = Gen.opAssertEphemeral then do
    if strict flags then checkNil c
    return .assertEphemeral
  else if op = Gen.opAssertSecondsRelative then do
    match ← lockArg c flags 8 with
    | .ok r => return .assertSecondsRelative r
    | .negOverflow => return .skipRelativeCondition
    | _ => .error .reject
  else if op = Gen.opAssertSecondsAbsolute then do
    match ← lockArg c flags 8 with
    | .ok r => return .assertSecondsAbsolute r
    | .negOverflow => return .skip
    | _ => .error .reject
  else if op = Gen.opAssertHeightRelative then do
    match ← lockArg c flags 4 with
    | .ok r => return .assertHeightRelative r
    | .negOverflow => return .skipRelativeCondition
    | _ => .error .reject
  else if op = Gen.opAssertHeightAbsolute then do
    match ← lockArg c flags 4 with
    | .ok r => return .assertHeightAbsolute r
    | .negOverflow => return .skip
    | _ => .error .reject
  else if op = Gen.opAssertBeforeSecondsRelative then do
    match ← lockArg c flags 8 with
    | .ok r => return .assertBeforeSecondsRelative r
    | .posOverflow => return .skipRelativeCondition
    | _ => .error .reject
  else if op = Gen.opAssertBeforeSecondsAbsolute then do
    match ← lockArg c flags 8 with
    | .ok r => return .assertBeforeSecondsAbsolute r
    | .posOverflow => return .skip
    | _ => .error .reject
  else if op = Gen.opAssertBeforeHeightRelative then do
    match ← lockArg c flags 4 with
    | .ok r => return .assertBeforeHeightRelative r
    | .posOverflow => return .skipRelativeCondition
    | _ => .error .reject
  else if op = Gen.opAssertBeforeHeightAbsolute then do
    match ← lockArg c flags 4 with
    | .ok r => return .assertBeforeHeightAbsolute r
    | .posOverflow => return .skip
    | _ => .error .reject
  else if op = Gen.opSendMessage then do
    let mode ← sanitizeMessageMode (← first c)
    let c ← rest c
    let msg ← sanitizeAnnounceMsg (← first c)
    let c ← rest c
    let (dst, c) ← spendIdParse c (mode % 8)
    if strict flags then checkNil c
    return .sendMessage (mode / 8 % 8) dst msg
  else if op = Gen.opReceiveMessage then do
    let mode ← sanitizeMessageMode (← first c)
    let c ← rest c
    let msg ← sanitizeAnnounceMsg (← first c)
    let c ← rest c
    let (src, c) ← spendIdParse c (mode / 8 % 8)
    if strict flags then checkNil c
    return .receiveMessage src (mode % 8) msg
  else if op = Gen.opRemark then return .skip
  else .error .reject

/-! ## state -/

structure NewCoin where
  ph : Bytes
  amount : Nat
  hint : Option Bytes
  deriving Repr, DecidableEq

structure Spend where
  parentId : Bytes
  coinAmount : Nat
  puzzleHash : Bytes
  coinId : Bytes
  heightRelative : Option Nat := none
  secondsRelative : Option Nat := none
  beforeHeightRelative : Option Nat := none
  beforeSecondsRelative : Option Nat := none
  birthHeight : Option Nat := none
  birthSeconds : Option Nat := none
  createCoin : List NewCoin := []          -- in condition order
  aggSigMe : List (Bytes × Bytes) := []
  aggSigParent : List (Bytes × Bytes) := []
  aggSigPuzzle : List (Bytes × Bytes) := []
  aggSigAmount : List (Bytes × Bytes) := []
  aggSigPuzzleAmount : List (Bytes × Bytes) := []
  aggSigParentAmount : List (Bytes × Bytes) := []
  aggSigParentPuzzle : List (Bytes × Bytes) := []
  flags : Nat := 0
  executionCost : Nat := 0
  conditionCost : Nat := 0
  deriving Repr

structure Bundle where
  spends : List Spend := []                 -- in spend order
  reserveFee : Nat := 0
  heightAbsolute : Nat := 0
  secondsAbsolute : Nat := 0
  aggSigUnsafe : List (Bytes × Bytes) := []
  beforeHeightAbsolute : Option Nat := none
  beforeSecondsAbsolute : Option Nat := none
  cost : Nat := 0
  executionCost : Nat := 0
  conditionCost : Nat := 0
  removalAmount : Nat := 0
  additionAmount : Nat := 0
  validatedSignature : Bool := false
  deriving Repr

structure PState where
  announceCoin : List (Bytes × Bytes) := []
  announcePuzzle : List (Bytes × Bytes) := []
  assertCoin : List Bytes := []
  assertPuzzle : List Bytes := []
  messages : List (Bytes × Int) := []
  assertConcurrentSpend : List Bytes := []
  assertConcurrentPuzzle : List Bytes := []
  spentCoins : List Bytes := []            -- coin ids in spend order (index = position)
  spentPuzzles : List Bytes := []
  assertEphemeral : List Nat := []
  assertNotEphemeral : List Nat := []
  pkmPairs : List (Bytes × Bytes) := []
  deriving Repr

def ELIGIBLE_FOR_DEDUP : Nat := 1
def HAS_RELATIVE_CONDITION : Nat := 2
def ELIGIBLE_FOR_FF : Nat := 4
def MAX_SPENDS_PER_BLOCK : Nat := 6000

def clearFlag (flags f : Nat) : Nat := if flags &&& f ≠ 0 then flags - f else flags

/-- parameters that stay fixed during one `parse_spends` call -/
structure Env where
  flags : Nat
  mempool : Bool                         -- MempoolVisitor (true) or EmptyVisitor
  pkOk : Bytes → Bool                    -- blst: decodes to a valid, non-infinity G1 point

/-- `MempoolVisitor::condition` (no-op for the empty visitor); returns new flags -/
def visitCondition (env : Env) (counter : Nat) (sflags : Nat) (c : Cond) : Nat :=
  if !env.mempool then sflags else
  match c with
  | .assertMyCoinId _ | .assertHeightRelative _ | .assertSecondsRelative _ | .assertBeforeHeightRelative _
  | .assertBeforeSecondsRelative _ | .assertMyBirthHeight _ | .assertMyBirthSeconds _ | .assertEphemeral =>
    clearFlag sflags ELIGIBLE_FOR_FF
  | .assertMyParentId _ => if counter ≠ 1 then clearFlag sflags ELIGIBLE_FOR_FF else sflags
  | .aggSig op _ _ =>
    if op = Gen.opAggSigMe ∨ op = Gen.opAggSigParent ∨ op = Gen.opAggSigParentAmount ∨ op = Gen.opAggSigParentPuzzle then
      clearFlag (clearFlag sflags ELIGIBLE_FOR_DEDUP) ELIGIBLE_FOR_FF
    else clearFlag sflags ELIGIBLE_FOR_DEDUP
  | .sendMessage srcMode _ _ =>
    clearFlag (if srcMode / 4 % 2 = 1 then clearFlag sflags ELIGIBLE_FOR_FF else sflags) ELIGIBLE_FOR_DEDUP
  | .receiveMessage _ dstMode _ =>
    clearFlag (if dstMode / 4 % 2 = 1 then clearFlag sflags ELIGIBLE_FOR_FF else sflags) ELIGIBLE_FOR_DEDUP
  | .createCoinAnnouncement _ => clearFlag sflags ELIGIBLE_FOR_FF
  | _ => sflags

/-- one guarded subtraction from the cost countdown -/
def charge (maxCost cost : Nat) : R Nat :=
  if maxCost < cost then .error .costExceeded else .ok (maxCost - cost)

def optMax (o : Option Nat) (v : Nat) : Option Nat :=
  match o with | some e => some (max e v) | none => some v

def optMin (o : Option Nat) (v : Nat) : Option Nat :=
  match o with | some e => some (min e v) | none => some v

/-- `Some(x)` with `x ≤ v` -/
def optLe (o : Option Nat) (v : Nat) : Bool :=
  match o with | some x => x ≤ v | none => false

/-- `Some(x)` with `v ≤ x` -/
def optGe (o : Option Nat) (v : Nat) : Bool :=
  match o with | some x => v ≤ x | none => false

def isSomeNe (o : Option Nat) (v : Nat) : Bool :=
  match o with | some x => x ≠ v | none => false

/-- loop state of `parse_conditions`.  The cost countdown (`max_cost`) is threaded separately
(`charge`), so that everything in `CSt` is by construction independent of the cost limit. -/
structure CSt where
  ret : Bundle
  st : PState
  spend : Spend
  countdown : Nat := 1024
  counter : Nat := 0          -- MempoolVisitor.condition_counter

def assertNotEphemeral (s : CSt) : CSt :=
  if s.spend.flags &&& HAS_RELATIVE_CONDITION ≠ 0 then s
  else { s with st := { s.st with assertNotEphemeral := s.ret.spends.length :: s.st.assertNotEphemeral },
                spend := { s.spend with flags := s.spend.flags + HAS_RELATIVE_CONDITION } }

def decrement (env : Env) (s : CSt) : R CSt :=
  if hasFlag env.flags Gen.flagCostConditions then .ok s
  else if s.countdown = 0 then .error .reject else .ok { s with countdown := s.countdown - 1 }

/-- bookkeeping of a charged cost (`ret.condition_cost`, `spend.condition_cost`) -/
def bump (s : CSt) (cost : Nat) : CSt :=
  { s with ret := { s.ret with conditionCost := s.ret.conditionCost + cost },
           spend := { s.spend with conditionCost := s.spend.conditionCost + cost } }

/-- guarded subtraction from the countdown `m`, then bookkeeping -/
def addCost (s : CSt) (m : Nat) (cost : Nat) : R (CSt × Nat) := do
  let m ← charge m cost
  return (bump s cost, m)

def toKey (env : Env) (pk : Bytes) : R Bytes := if env.pkOk pk then .ok pk else .error .reject

def sevenSuffixes : List Bytes :=
  [Gen.aggSigMeAdditionalData, Gen.aggSigParentAdditionalData, Gen.aggSigPuzzleAdditionalData,
   Gen.aggSigAmountAdditionalData, Gen.aggSigPuzzleAmountAdditionalData, Gen.aggSigParentAmountAdditionalData,
   Gen.aggSigParentPuzzleAdditionalData]

def endsWith (b suffix : Bytes) : Bool := suffix.length ≤ b.length && b.drop (b.length - suffix.length) == suffix

/-- `check_agg_sig_unsafe_message` -/
def unsafeMsgOk (msg : Bytes) : Bool := msg.length < 32 || !(sevenSuffixes.any (endsWith msg))

/-- the text appended to an AGG_SIG message, per opcode (uses the generated `u64_to_bytes`) -/
def aggSigSuffix (op : Nat) (sp : Spend) : Bytes :=
  if op = Gen.opAggSigMe then sp.coinId ++ Gen.aggSigMeAdditionalData
  else if op = Gen.opAggSigParent then sp.parentId ++ Gen.aggSigParentAdditionalData
  else if op = Gen.opAggSigPuzzle then sp.puzzleHash ++ Gen.aggSigPuzzleAdditionalData
  else if op = Gen.opAggSigAmount then Gen.u64ToBytes sp.coinAmount ++ Gen.aggSigAmountAdditionalData
  else if op = Gen.opAggSigPuzzleAmount then sp.puzzleHash ++ Gen.u64ToBytes sp.coinAmount ++ Gen.aggSigPuzzleAmountAdditionalData
  else if op = Gen.opAggSigParentAmount then sp.parentId ++ Gen.u64ToBytes sp.coinAmount ++ Gen.aggSigParentAmountAdditionalData
  else if op = Gen.opAggSigParentPuzzle then sp.parentId ++ sp.puzzleHash ++ Gen.aggSigParentPuzzleAdditionalData
  else []

def pushAggSig (op : Nat) (sp : Spend) (e : Bytes × Bytes) : Spend :=
  if op = Gen.opAggSigMe then { sp with aggSigMe := sp.aggSigMe ++ [e] }
  else if op = Gen.opAggSigParent then { sp with aggSigParent := sp.aggSigParent ++ [e] }
  else if op = Gen.opAggSigPuzzle then { sp with aggSigPuzzle := sp.aggSigPuzzle ++ [e] }
  else if op = Gen.opAggSigAmount then { sp with aggSigAmount := sp.aggSigAmount ++ [e] }
  else if op = Gen.opAggSigPuzzleAmount then { sp with aggSigPuzzleAmount := sp.aggSigPuzzleAmount ++ [e] }
  else if op = Gen.opAggSigParentAmount then { sp with aggSigParentAmount := sp.aggSigParentAmount ++ [e] }
  else if op = Gen.opAggSigParentPuzzle then { sp with aggSigParentPuzzle := sp.aggSigParentPuzzle ++ [e] }
  else sp

/-- the effect of one parsed condition (the big `match cva` of `parse_conditions`), except for the
`Softfork(cost)` charge, which `condExtraCost` reports and `stepCond` applies afterwards -/
def applyCond (env : Env) (s : CSt) (c : Cond) : R CSt :=
  let sp := s.spend
  match c with
  | .reserveFee limit =>
    let f := s.ret.reserveFee + limit
    if f ≥ 2^64 then .error .reject else .ok { s with ret := { s.ret with reserveFee := f } }
  | .createCoin ph amount hint =>
    if sp.createCoin.any (fun nc => nc.ph == ph && nc.amount == amount) then .error .reject
    else .ok { s with spend := { sp with createCoin := sp.createCoin ++ [⟨ph, amount, hint⟩] },
                      ret := { s.ret with additionAmount := s.ret.additionAmount + amount } }
  | .assertSecondsRelative v =>
    if optLe sp.beforeSecondsRelative v then .error .reject
    else .ok (assertNotEphemeral { s with spend := { sp with secondsRelative := optMax sp.secondsRelative v } })
  | .assertSecondsAbsolute v => .ok { s with ret := { s.ret with secondsAbsolute := max s.ret.secondsAbsolute v } }
  | .assertHeightRelative v =>
    if optLe sp.beforeHeightRelative v then .error .reject
    else .ok (assertNotEphemeral { s with spend := { sp with heightRelative := optMax sp.heightRelative v } })
  | .assertHeightAbsolute v => .ok { s with ret := { s.ret with heightAbsolute := max s.ret.heightAbsolute v } }
  | .assertBeforeSecondsRelative v =>
    if optGe sp.secondsRelative v then .error .reject
    else .ok (assertNotEphemeral { s with spend := { sp with beforeSecondsRelative := optMin sp.beforeSecondsRelative v } })
  | .assertBeforeSecondsAbsolute v =>
    .ok { s with ret := { s.ret with beforeSecondsAbsolute := optMin s.ret.beforeSecondsAbsolute v } }
  | .assertBeforeHeightRelative v =>
    if optGe sp.heightRelative v then .error .reject
    else .ok (assertNotEphemeral { s with spend := { sp with beforeHeightRelative := optMin sp.beforeHeightRelative v } })
  | .assertBeforeHeightAbsolute v =>
    .ok { s with ret := { s.ret with beforeHeightAbsolute := optMin s.ret.beforeHeightAbsolute v } }
  | .assertMyCoinId id => if id ≠ sp.coinId then .error .reject else .ok s
  | .assertMyAmount v => if v ≠ sp.coinAmount then .error .reject else .ok s
  | .assertMyBirthSeconds v =>
    if isSomeNe sp.birthSeconds v then .error .reject
    else .ok (assertNotEphemeral { s with spend := { sp with birthSeconds := some v } })
  | .assertMyBirthHeight v =>
    if isSomeNe sp.birthHeight v then .error .reject
    else .ok (assertNotEphemeral { s with spend := { sp with birthHeight := some v } })
  | .assertEphemeral => .ok { s with st := { s.st with assertEphemeral := s.ret.spends.length :: s.st.assertEphemeral } }
  | .assertMyParentId id => if id ≠ sp.parentId then .error .reject else .ok s
  | .assertMyPuzzlehash id => if id ≠ sp.puzzleHash then .error .reject else .ok s
  | .createCoinAnnouncement msg => do
    let s ← decrement env s
    return { s with st := { s.st with announceCoin := (sp.coinId, msg) :: s.st.announceCoin } }
  | .createPuzzleAnnouncement msg => do
    let s ← decrement env s
    return { s with st := { s.st with announcePuzzle := (sp.puzzleHash, msg) :: s.st.announcePuzzle } }
  | .assertCoinAnnouncement id => do
    let s ← decrement env s
    return { s with st := { s.st with assertCoin := id :: s.st.assertCoin } }
  | .assertPuzzleAnnouncement id => do
    let s ← decrement env s
    return { s with st := { s.st with assertPuzzle := id :: s.st.assertPuzzle } }
  | .assertConcurrentSpend id => do
    let s ← decrement env s
    return { s with st := { s.st with assertConcurrentSpend := id :: s.st.assertConcurrentSpend } }
  | .assertConcurrentPuzzle id => do
    let s ← decrement env s
    return { s with st := { s.st with assertConcurrentPuzzle := id :: s.st.assertConcurrentPuzzle } }
  | .aggSig op pk msg =>
    if op = Gen.opAggSigUnsafe then
      if !unsafeMsgOk msg then .error .reject else do
      let k ← toKey env pk
      let ret := { s.ret with aggSigUnsafe := s.ret.aggSigUnsafe ++ [(k, msg)] }
      let st := if hasFlag env.flags Gen.flagDontValidateSignature then s.st
                else { s.st with pkmPairs := s.st.pkmPairs ++ [(k, msg)] }
      return { s with ret := ret, st := st }
    else do
      let k ← toKey env pk
      let sp' := pushAggSig op sp (k, msg)
      let st := if hasFlag env.flags Gen.flagDontValidateSignature then s.st
                else { s.st with pkmPairs := s.st.pkmPairs ++ [(k, msg ++ aggSigSuffix op sp)] }
      return { s with spend := sp', st := st }
  | .softfork _ => .ok s
  | .sendMessage srcMode dst msg => do
    let s ← decrement env s
    let src := spendIdFromSelf srcMode sp.parentId sp.puzzleHash sp.coinAmount sp.coinId
    return { s with st := { s.st with messages := (src ++ dst ++ msg, 1) :: s.st.messages } }
  | .receiveMessage src dstMode msg => do
    let s ← decrement env s
    let dst := spendIdFromSelf dstMode sp.parentId sp.puzzleHash sp.coinAmount sp.coinId
    return { s with st := { s.st with messages := (src ++ dst ++ msg, -1) :: s.st.messages } }
  | .skipRelativeCondition => .ok (assertNotEphemeral s)
  | .skip => .ok s

/-- cost charged after a condition's arguments were parsed (only `Softfork`) -/
def condExtraCost : Cond → Nat
  | .softfork cost => cost
  | _ => 0

def isAnnounceClass (op : Nat) : Bool :=
  op = Gen.opCreateCoinAnnouncement || op = Gen.opAssertCoinAnnouncement || op = Gen.opCreatePuzzleAnnouncement
  || op = Gen.opAssertPuzzleAnnouncement || op = Gen.opAssertConcurrentSpend || op = Gen.opAssertConcurrentPuzzle
  || op = Gen.opSendMessage || op = Gen.opReceiveMessage

/-- the pre-charge made for opcode `op` before its arguments are parsed -/
def preCharge (flags op : Nat) : Nat :=
  let cc := hasFlag flags Gen.flagCostConditions
  if op = Gen.opCreateCoin then (if cc then Gen.newCreateCoinCost else Gen.createCoinCost)
  else if isAggSig op then Gen.aggSigCost
  else if isAnnounceClass op then (if cc then Gen.messageConditionCost else 0)
  else (if cc then Gen.genericConditionCost else 0)

/-- the limit-independent part of one condition after its pre-charge: parse the arguments, show
the condition to the visitor, apply its effect; returns the extra cost still to be charged -/
def pureCond (env : Env) (s : CSt) (c : Sexp) (op : Nat) : R (CSt × Nat) := do
  let args ← rest c
  let cva ← parseArgs args op env.flags
  let s := { s with spend := { s.spend with flags := visitCondition env s.counter s.spend.flags cva },
                    counter := s.counter + 1 }
  let s ← applyCond env s cva
  return (s, condExtraCost cva)

/-- one iteration of the `while let` loop of `parse_conditions`, for condition `c`;
`m` is the cost countdown -/
def stepCond (env : Env) (s : CSt) (m : Nat) (c : Sexp) : R (CSt × Nat) := do
  match parseOpcode (← first c) with
  | none =>
    if hasFlag env.flags Gen.flagNoUnknownConds then .error .reject
    else if hasFlag env.flags Gen.flagCostConditions then addCost s m Gen.genericConditionCost
    else .ok (s, m)
  | some op =>
    let (s, m) ← addCost s m (preCharge env.flags op)
    let (s, extra) ← pureCond env s c op
    addCost s m extra

/-- the condition loop: `next()` accepts a pair, or NIL as terminator; any other atom rejects -/
def condLoop (env : Env) : Sexp → CSt → Nat → R (CSt × Nat)
  | .pair c nxt, s, m => do let (s, m) ← stepCond env s m c; condLoop env nxt s m
  | .atom [], s, m => .ok (s, m)
  | .atom _, _, _ => .error .reject

/-- `MempoolVisitor::post_spend` -/
def postSpend (env : Env) (sp : Spend) : Spend :=
  if !env.mempool then sp else
  let f := sp.flags
  let f := if f &&& ELIGIBLE_FOR_FF ≠ 0 ∧ !(sp.createCoin.any (fun c => c.ph == sp.puzzleHash && c.amount == sp.coinAmount))
           then clearFlag f ELIGIBLE_FOR_FF else f
  let f := if f &&& ELIGIBLE_FOR_DEDUP ≠ 0 ∧ sp.coinAmount > (sp.createCoin.map (·.amount)).sum
           then clearFlag f ELIGIBLE_FOR_DEDUP else f
  { sp with flags := f }

def coinId (parent ph : Bytes) (amountAtom : Bytes) : Bytes := sha256 (parent ++ ph ++ amountAtom)

/-- `process_single_spend` up to (not including) the SPEND_COST charge: sanitise the coin, compute its
id, reject a double spend, start the spend record.  Independent of the cost limit. -/
def spendHeader (ret : Bundle) (st : PState) (parent ph amount : Sexp) (clvmCost : Nat) : R CSt := do
  let parentId ← sanitizeHash parent 32
  let puzzleHash ← sanitizeHash ph 32
  let myAmount ← parseAmount amount
  let amountBuf ← atomOf amount
  let id := coinId parentId puzzleHash amountBuf
  if st.spentCoins.contains id then .error .reject else
  let st := { st with spentCoins := st.spentCoins ++ [id], spentPuzzles := puzzleHash :: st.spentPuzzles }
  let ret := { ret with removalAmount := ret.removalAmount + myAmount }
  let spend : Spend := { parentId := parentId, coinAmount := myAmount, puzzleHash := puzzleHash, coinId := id,
                         executionCost := clvmCost }
  return { ret := ret, st := st, spend := spend }

/-- `MempoolVisitor::new_spend` -/
def newSpendVisit (env : Env) (s0 : CSt) : CSt :=
  if env.mempool then
    { s0 with spend := { s0.spend with flags := s0.spend.flags + ELIGIBLE_FOR_DEDUP + (if s0.spend.coinAmount % 2 = 1 then ELIGIBLE_FOR_FF else 0) } }
  else s0

/-- end of `parse_conditions`: `post_spend`, push the spend -/
def finishSpend (env : Env) (s : CSt) : Bundle × PState :=
  ({ s.ret with spends := s.ret.spends ++ [postSpend env s.spend] }, s.st)

def spendCharge (flags : Nat) : Nat := if hasFlag flags Gen.flagCostConditions then Gen.spendCost else 0

/-- `process_single_spend` + `parse_conditions` -/
def processSingleSpend (env : Env) (ret : Bundle) (st : PState) (parent ph amount conds : Sexp)
    (clvmCost maxCost : Nat) : R ((Bundle × PState) × Nat) :=
  match spendHeader ret st parent ph amount clvmCost with
  | .error e => .error e
  | .ok s0 => do
    let (s0, m) ← addCost s0 maxCost (spendCharge env.flags)
    let (s, m) ← condLoop env conds (newSpendVisit env s0) m
    return (finishSpend env s, m)

/-- `parse_single_spend` -/
def parseSingleSpend (spend : Sexp) : R (Sexp × Sexp × Sexp × Sexp) := do
  let parent ← first spend
  let spend ← rest spend
  let ph ← first spend
  let spend ← rest spend
  let amount ← first spend
  let spend ← rest spend
  let cond ← first spend
  return (parent, ph, amount, cond)

/-- created-coin id as computed by `Coin::coin_id` (generated amount ladder) -/
def newCoinId (parentCoinId ph : Bytes) (amount : Nat) : Bytes := sha256 (parentCoinId ++ ph ++ Gen.coinIdAmount amount)

def isEphemeral (st : PState) (spends : List Spend) (idx : Nat) : Bool :=
  match spends[idx]? with
  | none => false
  | some sp =>
    match st.spentCoins.idxOf? sp.parentId with
    | none => false
    | some pidx =>
      match spends[pidx]? with
      | none => false
      | some parent => parent.createCoin.any (fun c => c.ph == sp.puzzleHash && c.amount == sp.coinAmount)

/-- sum of counters per message key; every sum must be zero -/
def messagesBalanced (ms : List (Bytes × Int)) : Bool :=
  ms.all (fun m => ((ms.filter (fun x => x.1 == m.1)).map (·.2)).sum == 0)

/-- the checks of `validate_conditions`, in its order; every failure is a plain rejection -/
def validOk (ret : Bundle) (st : PState) : Bool :=
  !(ret.removalAmount < ret.additionAmount)
  && !(ret.removalAmount - ret.additionAmount < ret.reserveFee)
  && !(optLe ret.beforeHeightAbsolute ret.heightAbsolute)
  && !(optLe ret.beforeSecondsAbsolute ret.secondsAbsolute)
  && st.assertConcurrentSpend.all (fun id => st.spentCoins.contains id)
  && st.assertConcurrentPuzzle.all (fun ph => st.spentPuzzles.contains ph)
  && st.assertCoin.all (fun a => (st.announceCoin.map (fun (id, msg) => sha256 (id ++ msg))).contains a)
  && st.assertEphemeral.all (fun i => isEphemeral st ret.spends i)
  && !(st.assertNotEphemeral.any (fun i => isEphemeral st ret.spends i))
  && st.assertPuzzle.all (fun a => (st.announcePuzzle.map (fun (ph, msg) => sha256 (ph ++ msg))).contains a)
  && messagesBalanced st.messages

/-- `validate_conditions` -/
def validateConditions (ret : Bundle) (st : PState) : R Unit :=
  if validOk ret st then .ok () else .error .reject

/-- `MempoolVisitor::post_process` -/
def postProcess (env : Env) (ret : Bundle) (st : PState) : Bundle :=
  if !env.mempool then ret else
  let spends := ret.spends.map (fun s =>
    if st.assertConcurrentSpend.contains s.coinId then { s with flags := clearFlag s.flags ELIGIBLE_FOR_FF } else s)
  let spends := spends.map (fun s =>
    if s.flags &&& ELIGIBLE_FOR_FF = 0 then s
    else if s.createCoin.any (fun cc => st.spentCoins.contains (newCoinId s.coinId cc.ph cc.amount))
      then { s with flags := clearFlag s.flags ELIGIBLE_FOR_FF } else s)
  { ret with spends := spends }

/-- the spend loop of `parse_spends` -/
def spendLoop (env : Env) (clvmCost : Nat) : Sexp → Bundle → PState → Nat → Nat → R ((Bundle × PState) × Nat)
  | .pair spend nxt, ret, st, spendsLeft, costLeft =>
    if spendsLeft = 0 then .error .reject else
    match parseSingleSpend spend with
    | .error e => .error e
    | .ok (parent, ph, amount, conds) => do
      let ((ret, st), costLeft) ← processSingleSpend env ret st parent ph amount conds clvmCost costLeft
      spendLoop env clvmCost nxt ret st (spendsLeft - 1) costLeft
  | .atom [], ret, st, _, costLeft => .ok ((ret, st), costLeft)
  | .atom _, _, _, _, _ => .error .reject

/-- everything `parse_spends` does after the spend loop except reporting the cost: visitor
post-processing, deferred validation, signature check -/
def finishBundle (env : Env) (sigOk : List (Bytes × Bytes) → Bool) (ret : Bundle) (st : PState) : R Bundle :=
  let ret := postProcess env ret st
  match validateConditions ret st with
  | .error e => .error e
  | .ok _ =>
    if !hasFlag env.flags Gen.flagDontValidateSignature ∧ !sigOk st.pkmPairs then .error .reject
    else .ok { ret with validatedSignature := !hasFlag env.flags Gen.flagDontValidateSignature }

def spendLimit (flags : Nat) : Nat := if hasFlag flags Gen.flagLimitSpends then MAX_SPENDS_PER_BLOCK else 2^64 - 1

/-- `parse_spends`.  `sigOk pairs` is the verdict of BLS aggregate verification on the collected
(pk, text) pairs for the supplied signature (a model parameter: blst is external). -/
def parseSpends (env : Env) (sigOk : List (Bytes × Bytes) → Bool) (spends : Sexp) (maxCost clvmCost : Nat) :
    R (Bundle × PState) :=
  match first spends with
  | .error e => .error e
  | .ok iter =>
    match spendLoop env clvmCost iter {} {} (spendLimit env.flags) maxCost with
    | .error e => .error e
    | .ok ((ret, st), costLeft) =>
      match finishBundle env sigOk ret st with
      | .error e => .error e
      | .ok ret => .ok ({ ret with cost := maxCost - costLeft }, st)

end ChiaModel.Cond
