import ChiaModel.Base.Sha256
/-
C18: the DataLayer Merkle blob (`chia-datalayer/src/merkle/{blob,format,iterators,proof_of_inclusion}.rs`).

Two levels.

* L1 (`T`, `Tree`): plain binary tree `leaf k v h | node l r` with the operations of the blob
  (insert at a reference leaf / at the pseudo-random location derived from the key, batch insert,
  delete with sibling promotion, upsert), the Merkle hash, inclusion proofs, and the specification
  map `Map := List (KeyId × ValueId)`.
* L2 (`Blob`): the index-level state of `MerkleBlob`, operation by operation as coded: the block
  list (observable: the exact blob bytes, `Blob.bytes`), the ordered free-index list (`IndexSet`
  semantics), the `key → index` and `leaf hash → index` caches, root at index 0, allocation order,
  sibling promotion, dirty marking and lazy hash recomputation, the three iterators, `check_integrity`,
  `MerkleBlob::new` (`Blob.ofBytes`), `get_keys_values`, `get_proof_of_inclusion`.
  A failed Rust operation may leave the blob modified; the L2 operations therefore live in a
  state monad that keeps the state on error (`M`).

`KeyId`/`ValueId` (i64 in Rust) are modelled by their 64-bit two's-complement pattern (a `Nat`
below 2^64); the driver converts.  No Mathlib.
-/
namespace ChiaModel.Blob

abbrev KeyId := Nat
abbrev ValueId := Nat
abbrev Hash := Bytes

inductive Side where
  | left
  | right
  deriving DecidableEq, Repr, Inhabited

/-- `internal_hash`: SHA-256 of `02 ‖ left ‖ right` -/
def internalHash (l r : Hash) : Hash := sha256 (2 :: (l ++ r))

/-- `calculate_internal_hash` -/
def calcInternalHash (h : Hash) (otherSide : Side) (other : Hash) : Hash :=
  match otherSide with
  | .left => internalHash other h
  | .right => internalHash h other

/-! ## The pseudo-random walk of `get_random_insert_location_by_seed`

The seed is `sha256(key.to_be_bytes())`; the walk consumes the bits of the *reversed* seed, least
significant bit first, and re-hashes the current byte vector when it runs out. -/

def byteBits (b : Nat) : List Bool := (List.range 8).map (fun i => b.testBit i)

def seedBits (bytes : Bytes) : List Bool := bytes.flatMap byteBits

/-- bit source: remaining bits of the current vector, and the current vector (to re-hash) -/
structure BitSrc where
  bits : List Bool
  cur : Bytes

def BitSrc.next (s : BitSrc) : Bool × BitSrc :=
  match s.bits with
  | b :: rest => (b, { s with bits := rest })
  | [] =>
    let cur' := sha256 s.cur
    match seedBits cur' with
    | b :: rest => (b, { bits := rest, cur := cur' })
    | [] => (false, { bits := [], cur := cur' })

def keySeed (key : KeyId) : Bytes := sha256 (be 8 key)

def BitSrc.ofKey (key : KeyId) : BitSrc :=
  let r := (keySeed key).reverse
  { bits := seedBits r, cur := r }

/-- `final_side`: top bit of the first seed byte; zero means left -/
def keySide (key : KeyId) : Side :=
  match keySeed key with
  | b :: _ => if b &&& 128 = 0 then .left else .right
  | [] => .left

/-! ## L1: plain trees -/

inductive T where
  | leaf (k : KeyId) (v : ValueId) (h : Hash)
  | node (l r : T)
  deriving DecidableEq, Repr, Inhabited

/-- `none` is the empty tree -/
abbrev Tree := Option T

abbrev Map := List (KeyId × ValueId)

abbrev KVH := KeyId × ValueId × Hash

namespace T

def toList : T → List (KeyId × ValueId)
  | leaf k v _ => [(k, v)]
  | node l r => l.toList ++ r.toList

def keys : T → List KeyId
  | leaf k _ _ => [k]
  | node l r => l.keys ++ r.keys

def hashes : T → List Hash
  | leaf _ _ h => [h]
  | node l r => l.hashes ++ r.hashes

def size : T → Nat
  | leaf _ _ _ => 1
  | node l r => l.size + r.size + 1

/-- the Merkle hash: a leaf's hash is given, an internal node's is `internalHash` of its children -/
def merkle : T → Hash
  | leaf _ _ h => h
  | node l r => internalHash l.merkle r.merkle

/-- replace every leaf with key `ref` by `f` of it -/
def mapLeaf (ref : KeyId) (f : T → T) : T → T
  | leaf k v h => if k = ref then f (leaf k v h) else leaf k v h
  | node l r => node (l.mapLeaf ref f) (r.mapLeaf ref f)

def join (side : Side) (new old : T) : T :=
  match side with
  | .left => node new old
  | .right => node old new

/-- walk to a leaf following the bit source; put `new` next to it on `side` -/
def insertWalk (new : T) (side : Side) : T → BitSrc → T
  | leaf k v h, _ => join side new (leaf k v h)
  | node l r, bs =>
    let (bit, bs') := bs.next
    if bit then node l (insertWalk new side r bs') else node (insertWalk new side l bs') r

/-- delete: `none` = this subtree was the leaf `k` and vanishes (its sibling is promoted) -/
def del (k : KeyId) : T → Option T
  | leaf k' v h => if k' = k then none else some (leaf k' v h)
  | node l r =>
    match l.del k with
    | none => some r
    | some l' =>
      match r.del k with
      | none => some l'
      | some r' => some (node l' r')

/-- first leaf in breadth-first order (`get_min_height_leaf`); fuel ≥ size -/
def bfsLeaf : Nat → List T → Option KVH
  | 0, _ => none
  | _, [] => none
  | _, leaf k v h :: _ => some (k, v, h)
  | f+1, node l r :: rest => bfsLeaf f (rest ++ [l, r])

def minLeaf (t : T) : Option KVH := bfsLeaf t.size [t]

/-- one level of `batch_insert`'s bottom-up pairing -/
def pairLevel : List T → List T
  | a :: b :: rest => node a b :: pairLevel rest
  | l => l

def buildUp : Nat → List T → List T
  | 0, l => l
  | f+1, l => if l.length > 1 then buildUp f (pairLevel l) else l

/-- the subtree `batch_insert` builds from its (unchecked) items -/
def ofBatch (l : List KVH) : Option T :=
  match buildUp l.length (l.map fun (k, v, h) => leaf k v h) with
  | [t] => some t
  | _ => none

end T

/-- inclusion proof: `layers` from the leaf upwards, each `(other_hash_side, other_hash, combined_hash)` -/
structure Proof where
  nodeHash : Hash
  layers : List (Side × Hash × Hash)
  deriving DecidableEq, Repr

namespace Proof

/-- `ProofOfInclusion::root_hash` -/
def rootHash (p : Proof) : Hash :=
  match p.layers.getLast? with
  | some (_, _, c) => c
  | none => p.nodeHash

def validFrom : Hash → List (Side × Hash × Hash) → Option Hash
  | h, [] => some h
  | h, (s, o, c) :: rest =>
    let h' := calcInternalHash h s o
    if h' = c then validFrom h' rest else none

/-- `ProofOfInclusion::valid` -/
def valid (p : Proof) : Bool :=
  match validFrom p.nodeHash p.layers with
  | some h => h = p.rootHash
  | none => false

end Proof

/-- the inclusion proof of key `k` read off the tree (hashes recomputed) -/
def T.proofOf (k : KeyId) : T → Option Proof
  | .leaf k' _ h => if k' = k then some { nodeHash := h, layers := [] } else none
  | .node l r =>
    match l.proofOf k with
    | some p => some { p with layers := p.layers ++ [(.right, r.merkle, (T.node l r).merkle)] }
    | none =>
      match r.proofOf k with
      | some p => some { p with layers := p.layers ++ [(.left, l.merkle, (T.node l r).merkle)] }
      | none => none

/-! ### Trees with stored hashes and dirty flags (what `calculate_lazy_hashes` works on) -/

inductive HT where
  | leaf (k : KeyId) (v : ValueId) (h : Hash)
  | node (hash : Hash) (dirty : Bool) (l r : HT)
  deriving DecidableEq, Repr, Inhabited

namespace HT

def hash : HT → Hash
  | leaf _ _ h => h
  | node h _ _ _ => h

/-- forget stored hashes and dirty flags -/
def erase : HT → T
  | leaf k v h => .leaf k v h
  | node _ _ l r => .node l.erase r.erase

/-- `calculate_lazy_hashes` on trees: children before parents, only through dirty nodes (a clean
node and everything below it is skipped); a dirty node gets the hash of its children's stored
hashes and becomes clean -/
def recompute : HT → HT
  | leaf k v h => leaf k v h
  | node h d l r =>
    if d then
      let l' := recompute l
      let r' := recompute r
      node (internalHash l'.hash r'.hash) false l' r'
    else node h d l r

def allClean : HT → Bool
  | leaf _ _ _ => true
  | node _ d l r => !d && allClean l && allClean r

/-- executable check of the hash invariant: `some m` iff every clean node stores the Merkle hash of
its subtree and has only clean descendants; then `m` is the Merkle hash of the whole tree -/
def check : HT → Option Hash
  | leaf _ _ h => some h
  | node h d l r =>
    match check l, check r with
    | some hl, some hr =>
      let m := internalHash hl hr
      if d then some m
      else if h = m ∧ allClean l ∧ allClean r then some m else none
    | _, _ => none

/-- the inclusion proof of `k` read off the STORED hashes (what `get_proof_of_inclusion` does) -/
def proofOf (k : KeyId) : HT → Option Proof
  | leaf k' _ h => if k' = k then some { nodeHash := h, layers := [] } else none
  | node h _ l r =>
    match l.proofOf k with
    | some p => some { p with layers := p.layers ++ [(.right, r.hash, h)] }
    | none =>
      match r.proofOf k with
      | some p => some { p with layers := p.layers ++ [(.left, l.hash, h)] }
      | none => none

end HT

/-! ### L1 operations (`insert`/`delete`/`upsert`: `none` = the operation fails without effect;
`batch` and `step` return the success flag and the tree afterwards, because a failing `batch_insert`
may already have inserted an item) -/

inductive RefLoc where
  | auto
  | at (ref : KeyId) (side : Side)
  deriving DecidableEq, Repr

inductive Op where
  | ins (k : KeyId) (v : ValueId) (h : Hash) (loc : RefLoc)
  | ups (k : KeyId) (v : ValueId) (h : Hash)
  | del (k : KeyId)
  | batch (l : List KVH)
  | hashes
  deriving Repr

namespace Tree

def toMap : Tree → Map
  | none => []
  | some t => t.toList

def keys : Tree → List KeyId
  | none => []
  | some t => t.keys

def hashes : Tree → List Hash
  | none => []
  | some t => t.hashes

def insert (k : KeyId) (v : ValueId) (h : Hash) (loc : RefLoc) (t : Tree) : Option Tree :=
  if k ∈ keys t then none
  else if h ∈ hashes t then none
  else
    match t, loc with
    | none, .auto => some (some (.leaf k v h))
    | none, .at _ _ => none
    | some t, .auto => some (some (T.insertWalk (.leaf k v h) (keySide k) t (BitSrc.ofKey k)))
    | some t, .at ref side =>
      if ref ∈ t.keys then some (some (t.mapLeaf ref (T.join side (.leaf k v h)))) else none

def delete (k : KeyId) (t : Tree) : Option Tree :=
  match t with
  | none => none
  | some t => if k ∈ t.keys then some (t.del k) else none

/-- the keys and hashes of a batch are pairwise distinct and not yet in the tree: the validation
`batch_insert` performs before mutating anything -/
def batchFresh (l : List KVH) (t : Tree) : Bool :=
  decide ((l.map (·.1)).Nodup) && decide ((l.map (·.2.2)).Nodup)
    && l.all (fun (k, _, h) => decide (k ∉ keys t) && decide (h ∉ hashes t))

/-- the leaf hashes of the keys other than `k` -/
def otherHashes (k : KeyId) : T → List Hash
  | .leaf k' _ h => if k' = k then [] else [h]
  | .node l r => otherHashes k l ++ otherHashes k r

/-- the new hash of an upsert does not belong to another key -/
def upsertFresh (k : KeyId) (h : Hash) (t : Tree) : Bool :=
  match t with
  | none => true
  | some t => decide (h ∉ otherHashes k t)

/-- `upsert`: an existing key is rewritten in place unless the new hash belongs to another leaf;
an absent key is inserted -/
def upsert (k : KeyId) (v : ValueId) (h : Hash) (t : Tree) : Option Tree :=
  match t with
  | none => insert k v h .auto none
  | some t =>
    if k ∈ t.keys then
      if h ∈ otherHashes k t then none
      else some (some (t.mapLeaf k (fun _ => .leaf k v h)))
    else insert k v h .auto (some t)

/-- attach the subtree built from `rest` to the left of the minimum-height leaf -/
def attach (rest : List KVH) (t : Tree) : Option Tree :=
  match T.ofBatch rest with
  | none => some t                      -- no remaining items
  | some sub =>
    match t with
    | none => none
    | some t =>
      match t.minLeaf with
      | none => none
      | some (mk, _, _) =>
        match t with
        | .leaf _ _ _ => none             -- `LeafCannotBeRootWhenInsertingSubtree`
        | .node _ _ => some (some (t.mapLeaf mk (T.join .left sub)))

/-- `batch_insert` after its validation: with at most one leaf the LAST two items go through
`insert`, the others are attached as one subtree.  Result: success flag and the tree afterwards. -/
def batchUnchecked (l : List KVH) (t : Tree) : Bool × Tree :=
  if (keys t).length ≤ 1 then
    match l.reverse with
    | [] => (true, t)
    | (k1, v1, h1) :: r1 =>
      match insert k1 v1 h1 .auto t with
      | none => (false, t)
      | some t1 =>
        match r1 with
        | [] => (true, t1)
        | (k2, v2, h2) :: r2 =>
          match insert k2 v2 h2 .auto t1 with
          | none => (false, t1)
          | some t2 =>
            match attach r2.reverse t2 with
            | some t3 => (true, t3)
            | none => (false, t2)
  else
    match attach l t with
    | some t' => (true, t')
    | none => (false, t)

/-- `batch_insert`: the whole batch is validated (keys and leaf hashes not present and pairwise
distinct) before anything is mutated -/
def batch (l : List KVH) (t : Tree) : Bool × Tree :=
  if batchFresh l t then batchUnchecked l t else (false, t)

/-- lift an operation that fails without effect -/
def orKeep (t : Tree) : Option Tree → Bool × Tree
  | some t' => (true, t')
  | none => (false, t)

/-- one operation: success flag and the tree afterwards -/
def step (op : Op) (t : Tree) : Bool × Tree :=
  match op with
  | .ins k v h loc => orKeep t (insert k v h loc t)
  | .ups k v h => orKeep t (upsert k v h t)
  | .del k => orKeep t (delete k t)
  | .batch l => batch l t
  | .hashes => (true, t)

end Tree

/-! ### The specification map -/

namespace Map

def lookup : Map → KeyId → Option ValueId
  | [], _ => none
  | (k', v) :: rest, k => if k' = k then some v else lookup rest k

def erase (m : Map) (k : KeyId) : Map := m.filter (fun e => e.1 ≠ k)

def set (m : Map) (k : KeyId) (v : ValueId) : Map := (k, v) :: erase m k

/-- what a successful operation does to a plain map -/
def step (op : Op) (m : Map) : Map :=
  match op with
  | .ins k v _ _ => set m k v
  | .ups k v _ => set m k v
  | .del k => erase m k
  | .batch l => l.foldl (fun m (k, v, _) => set m k v) m
  | .hashes => m

end Map

/-! ## L2: blocks and their byte format -/

inductive Node where
  | internal (hash : Hash) (parent : Option Nat) (left right : Nat)
  | leaf (hash : Hash) (parent : Option Nat) (key : KeyId) (value : ValueId)
  deriving DecidableEq, Repr, Inhabited

namespace Node

def parent : Node → Option Nat
  | internal _ p _ _ => p
  | leaf _ p _ _ => p

def hash : Node → Hash
  | internal h _ _ _ => h
  | leaf h _ _ _ => h

def setParent (p : Option Nat) : Node → Node
  | internal h _ l r => internal h p l r
  | leaf h _ k v => leaf h p k v

def isLeaf : Node → Bool
  | leaf _ _ _ _ => true
  | _ => false

end Node

/-- `Block`: metadata (`node_type` always agrees with the node, `dirty`) and the node -/
structure Block where
  dirty : Bool
  node : Node
  deriving DecidableEq, Repr, Inhabited

def blockSize : Nat := 55
def dataSize : Nat := 53

/-- the all-zero block that `get_new_index` appends: an internal node, not dirty, hash 0, no parent,
children 0 and 0 -/
def Block.zero : Block := { dirty := false, node := .internal (zeros 32) none 0 0 }

def encParent : Option Nat → Bytes
  | none => [0]
  | some p => 1 :: be 4 p

def encNode : Node → Bytes
  | .internal h p l r => h ++ encParent p ++ be 4 l ++ be 4 r
  | .leaf h p k v => h ++ encParent p ++ be 8 k ++ be 8 v

def padTo (n : Nat) (b : Bytes) : Bytes := b ++ zeros (n - b.length)

/-- `Block::to_bytes` (55 bytes when the hash has 32) -/
def encBlock (b : Block) : Bytes :=
  [if b.node.isLeaf then 1 else 0, if b.dirty then 1 else 0] ++ padTo dataSize (encNode b.node)

def decParent (d : Bytes) : Option (Option Nat × Bytes) :=
  match d with
  | 0 :: rest => some (none, rest)
  | 1 :: rest => if rest.length < 4 then none else some (some (beVal (rest.take 4)), rest.drop 4)
  | _ => none

/-- `Block::from_bytes`; extra (padding) bytes are ignored as `parse::<false>` on a cursor does -/
def decBlock (b : Bytes) : Option Block :=
  match b with
  | ty :: d :: data =>
    if data.length ≠ dataSize then none else
    let dirty? : Option Bool := if d = 0 then some false else if d = 1 then some true else none
    match dirty? with
    | none => none
    | some dirty =>
      let h := data.take 32
      match decParent (data.drop 32) with
      | none => none
      | some (p, rest) =>
        if ty = 0 then
          if rest.length < 8 then none
          else some { dirty, node := .internal h p (beVal (rest.take 4)) (beVal ((rest.drop 4).take 4)) }
        else if ty = 1 then
          if rest.length < 16 then none
          else some { dirty, node := .leaf h p (beVal (rest.take 8)) (beVal ((rest.drop 8).take 8)) }
        else none
  | _ => none

/-! ## L2 state -/

structure Blob where
  blocks : List Block
  /-- `free_indexes: IndexSet` in insertion order -/
  free : List Nat
  /-- `key_to_index` (association list with distinct keys) -/
  k2i : List (KeyId × Nat)
  /-- `leaf_hash_to_index` -/
  h2i : List (Hash × Nat)
  deriving DecidableEq, Repr, Inhabited

namespace Blob

def empty : Blob := { blocks := [], free := [], k2i := [], h2i := [] }

/-- the exact blob bytes -/
def bytes (s : Blob) : Bytes := s.blocks.flatMap encBlock

end Blob

/-- `IndexSet::insert`: append unless present -/
def freeInsert (fr : List Nat) (i : Nat) : List Nat := if i ∈ fr then fr else fr ++ [i]

/-- `HashMap::insert` on an association list -/
def mapInsert {κ : Type} [DecidableEq κ] (m : List (κ × Nat)) (k : κ) (i : Nat) : List (κ × Nat) :=
  (k, i) :: m.filter (fun e => e.1 ≠ k)

def mapErase {κ : Type} [DecidableEq κ] (m : List (κ × Nat)) (k : κ) : List (κ × Nat) :=
  m.filter (fun e => e.1 ≠ k)

def mapGet {κ : Type} [DecidableEq κ] (m : List (κ × Nat)) (k : κ) : Option Nat :=
  match m with
  | [] => none
  | (k', i) :: rest => if k' = k then some i else mapGet rest k

/-! ### The state monad that keeps the state on error -/

inductive Err where
  | err      -- `Err(_)`
  | panic    -- `panic!` / `expect` / `assert!`
  | hang     -- the Rust loop would not terminate (parent pointers of a corrupted blob form a cycle)
  deriving DecidableEq, Repr, Inhabited

def M (α : Type) : Type := Blob → Except Err α × Blob

namespace M

@[inline] def ret {α : Type} (a : α) : M α := fun s => (.ok a, s)

@[inline] def bnd {α β : Type} (x : M α) (f : α → M β) : M β := fun s =>
  match x s with
  | (.ok a, s') => f a s'
  | (.error e, s') => (.error e, s')

instance : Monad M where
  pure := M.ret
  bind := M.bnd

@[inline] def get : M Blob := fun s => (.ok s, s)
@[inline] def set (s : Blob) : M Unit := fun _ => (.ok (), s)
@[inline] def modify (f : Blob → Blob) : M Unit := fun s => (.ok (), f s)
@[inline] def throw {α : Type} (e : Err) : M α := fun s => (.error e, s)

end M

open M

/-! ### `BlockStatusCache` -/

def addInternal (i : Nat) : M Unit := modify fun s => { s with free := s.free.erase i }

def addLeaf (i : Nat) (h : Hash) (k : KeyId) : M Unit :=
  modify fun s => { s with free := s.free.erase i, k2i := mapInsert s.k2i k i, h2i := mapInsert s.h2i h i }

def removeInternal (i : Nat) : M Unit := modify fun s => { s with free := freeInsert s.free i }

def removeLeaf (k : KeyId) (h : Hash) : M Unit := do
  let s ← get
  match mapGet s.k2i k with
  | none => throw .err
  | some i => set { s with k2i := mapErase s.k2i k, h2i := mapErase s.h2i h, free := freeInsert s.free i }

def moveIndex (src dst : Nat) : M Unit := do
  let s ← get
  if src ∈ s.free then throw .err
  else if dst ∈ s.free then throw .err
  else set { s with free := freeInsert s.free src }

/-! ### `MerkleBlob` primitives -/

def clear : M Unit := set Blob.empty

def getBlock (i : Nat) : M Block := do
  let s ← get
  match s.blocks[i]? with
  | some b => pure b
  | none => throw .err

def getNode (i : Nat) : M Node := do
  let b ← getBlock i
  pure b.node

def getHash (i : Nat) : M Hash := do
  let b ← getBlock i
  pure b.node.hash

/-- `insert_entry_to_blob` -/
def writeBlock (i : Nat) (b : Block) : M Unit := do
  let s ← get
  let n := s.blocks.length
  if i > n then throw .err
  else do
    set { s with blocks := if i = n then s.blocks ++ [b] else s.blocks.set i b }
    match b.node with
    | .leaf h _ k _ => addLeaf i h k
    | .internal _ _ _ _ => addInternal i

/-- `get_new_index`: first free index, else extend the blob by a zero block -/
def getNewIndex : M Nat := do
  let s ← get
  match s.free with
  | i :: rest => do set { s with free := rest }; pure i
  | [] => do set { s with blocks := s.blocks ++ [Block.zero] }; pure s.blocks.length

def updateParent (i : Nat) (p : Option Nat) : M Block := do
  let b ← getBlock i
  let b' : Block := { b with node := b.node.setParent p }
  writeBlock i b'
  pure b'

/-- `mark_lineage_as_dirty`; the loop stops at the first dirty block, so `#blocks + 1` steps suffice -/
def markDirtyAux : Nat → Nat → M Unit
  | 0, _ => throw .panic
  | f+1, i => do
    let b ← getBlock i
    if b.dirty then pure ()
    else do
      writeBlock i { b with dirty := true }
      match b.node.parent with
      | none => pure ()
      | some p => markDirtyAux f p

def markLineageDirty (i : Nat) : M Unit := do
  let s ← get
  markDirtyAux (s.blocks.length + 1) i

/-- `get_leaf_by_key` -/
def getLeafByKey (k : KeyId) : M (Nat × Node) := do
  let s ← get
  match mapGet s.k2i k with
  | none => throw .err
  | some i => do
    let b ← getBlock i
    match b.node with
    | .leaf _ _ _ _ => pure (i, b.node)
    | .internal _ _ _ _ => throw .panic

/-! ### Iterators -/

/-- `LeftChildFirstIterator` from index 0 with an optional block predicate: the items yielded
before the first error, and whether the iteration ended without error.  The stack's top is the
head of the list. -/
def lcfAux (blocks : List Block) (pred : Block → Bool) :
    Nat → List (Bool × Nat) → List Nat → List (Nat × Block) → List (Nat × Block) × Bool
  | 0, _, _, acc => (acc.reverse, false)
  | _, [], _, acc => (acc.reverse, true)
  | f+1, (visited, idx) :: st, q, acc =>
    match blocks[idx]? with
    | none => (acc.reverse, false)
    | some b =>
      if !pred b then lcfAux blocks pred f st q acc
      else
        let parentOk : Bool :=
          match b.node.parent with
          | some p => if idx = 0 then false else q.contains p
          | none => idx = 0
        if !parentOk then (acc.reverse, false)
        else
          match b.node with
          | .leaf _ _ _ _ =>
            if b.dirty then (acc.reverse, false) else lcfAux blocks pred f st q ((idx, b) :: acc)
          | .internal _ _ l r =>
            if visited then lcfAux blocks pred f st q ((idx, b) :: acc)
            else if l = r || q.contains l || q.contains r then (acc.reverse, false)
            else if q.contains idx then (acc.reverse, false)
            else lcfAux blocks pred f ((false, l) :: (false, r) :: (true, idx) :: st) (idx :: q) acc

def lcf (blocks : List Block) (pred : Block → Bool) : List (Nat × Block) × Bool :=
  if blocks.isEmpty then ([], true)
  else lcfAux blocks pred (4 * blocks.length + 4) [(false, 0)] [] []

/-- `ParentFirstIterator` from index 0 -/
def pfAux (blocks : List Block) :
    Nat → List Nat → List Nat → List (Nat × Block) → List (Nat × Block) × Bool
  | 0, _, _, acc => (acc.reverse, false)
  | _, [], _, acc => (acc.reverse, true)
  | f+1, idx :: dq, q, acc =>
    match blocks[idx]? with
    | none => (acc.reverse, false)
    | some b =>
      match b.node with
      | .internal _ _ l r =>
        if q.contains idx then (acc.reverse, false)
        else pfAux blocks f (dq ++ [l, r]) (idx :: q) ((idx, b) :: acc)
      | .leaf _ _ _ _ => pfAux blocks f dq q ((idx, b) :: acc)

def parentFirst (blocks : List Block) : List (Nat × Block) × Bool :=
  if blocks.isEmpty then ([], true)
  else pfAux blocks (2 * blocks.length + 2) [0] [] []

/-- `BreadthFirstIterator::next`: the first leaf in breadth-first order -/
def bfAux (blocks : List Block) : Nat → List Nat → List Nat → Option (Nat × Block)
  | 0, _, _ => none
  | _, [], _ => none
  | f+1, idx :: dq, q =>
    match blocks[idx]? with
    | none => none
    | some b =>
      match b.node with
      | .leaf _ _ _ _ => some (idx, b)
      | .internal _ _ l r =>
        if q.contains idx then none else bfAux blocks f (dq ++ [l, r]) (idx :: q)

/-- `get_min_height_leaf` -/
def minHeightLeaf : M Node := do
  let s ← get
  if s.blocks.isEmpty then throw .err
  else
    match bfAux s.blocks (2 * s.blocks.length + 2) [0] [] with
    | some (_, b) => pure b.node
    | none => throw .err

/-! ### Insert -/

inductive Loc where
  | auto
  | asRoot
  | leaf (index : Nat) (side : Side)
  deriving DecidableEq, Repr

/-- the walk of `get_random_insert_location_by_seed` -/
def walkAux (blocks : List Block) : Nat → Nat → BitSrc → Option Nat
  | 0, _, _ => none
  | f+1, idx, bs =>
    match blocks[idx]? with
    | none => none
    | some b =>
      match b.node with
      | .leaf _ _ _ _ => some idx
      | .internal _ _ l r =>
        let (bit, bs') := bs.next
        walkAux blocks f (if bit then r else l) bs'

/-- `get_random_insert_location_by_key_id` -/
def randomLoc (key : KeyId) : M Loc := do
  let s ← get
  if s.blocks.isEmpty then pure .asRoot
  else
    match walkAux s.blocks (s.blocks.length + 1) 0 (BitSrc.ofKey key) with
    | some idx => pure (.leaf idx (keySide key))
    | none => throw .err

def insertFirst (k : KeyId) (v : ValueId) (h : Hash) : M Nat := do
  let s ← get
  let index := s.blocks.length
  writeBlock index { dirty := false, node := .leaf h none k v }
  pure index

def insertSecond (k : KeyId) (v : ValueId) (h : Hash) (oh : Hash) (ok : KeyId) (ov : ValueId)
    (ih : Hash) (side : Side) : M Nat := do
  clear
  let root ← getNewIndex
  let li ← getNewIndex
  let ri ← getNewIndex
  writeBlock root { dirty := false, node := .internal ih none li ri }
  let oldAt := match side with | .left => ri | .right => li
  let newAt := match side with | .left => li | .right => ri
  writeBlock oldAt { dirty := false, node := .leaf oh (some 0) ok ov }
  writeBlock newAt { dirty := false, node := .leaf h (some 0) k v }
  pure newAt

/-- replace child `old` of the internal block at `pi` by `new` (left is tested first) -/
def replaceChild (pi old new : Nat) : M Unit := do
  let pb ← getBlock pi
  match pb.node with
  | .internal h p l r =>
    if old = l then writeBlock pi { pb with node := .internal h p new r }
    else if old = r then writeBlock pi { pb with node := .internal h p l new }
    else throw .panic
  | .leaf _ _ _ _ => throw .panic

def insertThird (k : KeyId) (v : ValueId) (h : Hash) (oldParent : Option Nat) (oldIdx : Nat)
    (ih : Hash) (side : Side) : M Nat := do
  let nl ← getNewIndex
  let ni ← getNewIndex
  writeBlock nl { dirty := false, node := .leaf h (some ni) k v }
  let (l, r) := match side with | .left => (nl, oldIdx) | .right => (oldIdx, nl)
  writeBlock ni { dirty := false, node := .internal ih oldParent l r }
  match oldParent with
  | none => throw .panic
  | some opi => do
    let _ ← updateParent oldIdx (some ni)
    replaceChild opi oldIdx ni
    markLineageDirty opi
    pure nl

/-- `insert` at a leaf: `insert_second` when it is the only leaf, else `insert_third_or_later` -/
def insertAtLeaf (k : KeyId) (v : ValueId) (h : Hash) (index : Nat) (side : Side) : M Nat := do
  let s ← get
  let n ← getNode index
  match n with
  | .internal _ _ _ _ => throw .err
  | .leaf oh op ok ov =>
    let ih := match side with
      | .left => internalHash h oh
      | .right => internalHash oh h
    if s.k2i.length = 1 then insertSecond k v h oh ok ov ih side
    else insertThird k v h op index ih side

def insert (k : KeyId) (v : ValueId) (h : Hash) (loc : Loc) : M Nat := do
  let s ← get
  if (mapGet s.k2i k).isSome then throw .err
  else if (mapGet s.h2i h).isSome then throw .err
  else do
    let loc ← (match loc with
      | .auto => randomLoc k
      | l => pure l)
    match loc with
    | .auto => throw .panic
    | .asRoot => if !s.k2i.isEmpty then throw .err else insertFirst k v h
    | .leaf index side => insertAtLeaf k v h index side

/-! ### Batch insert -/

def batchLeaves : List KVH → M (List Nat)
  | [] => pure []
  | (k, v, h) :: rest => do
    let i ← getNewIndex
    writeBlock i { dirty := false, node := .leaf h none k v }
    let is ← batchLeaves rest
    pure (i :: is)

def pairLevel : List Nat → M (List Nat)
  | a :: b :: rest => do
    let ni ← getNewIndex
    let b1 ← updateParent a (some ni)
    let b2 ← updateParent b (some ni)
    writeBlock ni { dirty := false, node := .internal (internalHash b1.node.hash b2.node.hash) none a b }
    let is ← pairLevel rest
    pure (ni :: is)
  | l => pure l

def buildUp : Nat → List Nat → M (List Nat)
  | 0, l => pure l
  | f+1, l => if l.length > 1 then do let l' ← pairLevel l; buildUp f l' else pure l

/-- `insert_subtree_at_key` -/
def insertSubtreeAtKey (oldKey : KeyId) (newIdx : Nat) (side : Side) : M Unit := do
  let ni ← getNewIndex
  let (oldIdx, oldLeaf) ← getLeafByKey oldKey
  let newNode ← getNode newIdx
  let (l, r) := match side with
    | .left => ((newIdx, newNode.hash), (oldIdx, oldLeaf.hash))
    | .right => ((oldIdx, oldLeaf.hash), (newIdx, newNode.hash))
  writeBlock ni { dirty := false, node := .internal (internalHash l.2 r.2) oldLeaf.parent l.1 r.1 }
  let _ ← updateParent newIdx (some ni)
  match oldLeaf.parent with
  | none => throw .err
  | some opi => do
    replaceChild opi oldIdx ni
    markLineageDirty opi
    let _ ← updateParent oldIdx (some ni)
    pure ()

def batchRest (l : List KVH) : M Unit := do
  let idxs ← batchLeaves l
  let top ← buildUp idxs.length idxs
  match top with
  | [i] => do
    let leaf ← minHeightLeaf
    match leaf with
    | .leaf _ _ k _ => insertSubtreeAtKey k i .left
    | .internal _ _ _ _ => throw .panic
  | _ => pure ()

/-- the validation loop of `batch_insert`: every key / leaf hash must be absent from the cache and
from the items seen so far (`KeyAlreadyPresent` / `HashAlreadyPresent` otherwise) -/
def batchValid (s : Blob) : List KVH → List KeyId → List Hash → Bool
  | [], _, _ => true
  | (k, _, h) :: rest, ks, hs =>
    if (mapGet s.k2i k).isSome || ks.contains k then false
    else if (mapGet s.h2i h).isSome || hs.contains h then false
    else batchValid s rest (k :: ks) (h :: hs)

/-- `batch_insert` after the validation -/
def batchCommit (l : List KVH) : M Unit := do
  let s ← get
  if s.k2i.length ≤ 1 then
    match l.reverse with
    | [] => pure ()
    | (k1, v1, h1) :: r1 => do
      let _ ← insert k1 v1 h1 .auto
      match r1 with
      | [] => pure ()
      | (k2, v2, h2) :: r2 => do
        let _ ← insert k2 v2 h2 .auto
        batchRest r2.reverse
  else batchRest l

/-- `batch_insert` -/
def batchInsert (l : List KVH) : M Unit := do
  let s ← get
  if batchValid s l [] [] then batchCommit l else throw .err

/-! ### Delete, upsert -/

/-- `delete`, parent is the root: the sibling is promoted to index 0 -/
def deletePromoteRoot (sibIdx : Nat) (sib : Block) : M Unit := do
  let sib' : Block := { sib with node := sib.node.setParent none }
  (match sib'.node with
    | .internal _ _ l r => do
      let _ ← updateParent l (some 0)
      let _ ← updateParent r (some 0)
      pure ()
    | .leaf _ _ _ _ => pure ())
  writeBlock 0 sib'
  moveIndex sibIdx 0

/-- `delete`, parent has a parent `gi`: the sibling takes the parent's place below `gi` -/
def deleteSplice (pi gi sibIdx : Nat) (sib : Block) : M Unit := do
  removeInternal pi
  let gb ← getBlock gi
  writeBlock sibIdx { sib with node := sib.node.setParent (some gi) }
  match gb.node with
  | .internal gh gp gl gr =>
    if pi = gl then do
      writeBlock gi { gb with node := .internal gh gp sibIdx gr }
      markLineageDirty gi
    else if pi = gr then do
      writeBlock gi { gb with node := .internal gh gp gl sibIdx }
      markLineageDirty gi
    else throw .panic
  | .leaf _ _ _ _ => throw .panic

/-- `delete` after the leaf has been found and removed from the cache -/
def deleteAt (leafIdx : Nat) (parent : Option Nat) : M Unit :=
  match parent with
  | none => clear
  | some pi => do
    let pn ← getNode pi
    match pn with
    | .leaf _ _ _ _ => throw .panic
    | .internal _ pp pl pr =>
      if leafIdx ≠ pr ∧ leafIdx ≠ pl then throw .err
      else do
        let sibIdx := if leafIdx = pr then pl else pr
        let sib ← getBlock sibIdx
        match pp with
        | none => deletePromoteRoot sibIdx sib
        | some gi => deleteSplice pi gi sibIdx sib

def delete (key : KeyId) : M Unit := do
  let (leafIdx, leaf) ← getLeafByKey key
  removeLeaf key leaf.hash
  deleteAt leafIdx leaf.parent

def upsert (key : KeyId) (value : ValueId) (newHash : Hash) : M Unit := do
  let s ← get
  match mapGet s.k2i key with
  | none => do let _ ← insert key value newHash .auto; pure ()
  | some idx =>
    match s.blocks[idx]? with
    | none => do let _ ← insert key value newHash .auto; pure ()
    | some b =>
      match b.node with
      | .internal _ _ _ _ => throw .panic
      | .leaf oh p _ _ =>
        if (match mapGet s.h2i newHash with
            | some other => decide (other ≠ idx)
            | none => false) then throw .err
        else do
        removeLeaf key oh
        writeBlock idx { b with node := .leaf newHash p key value }
        match p with
        | some pi => markLineageDirty pi
        | none => pure ()

/-! ### Lazy hashes -/

def recomputeOne (item : Nat × Block) : M Unit :=
  match item.2.node with
  | .leaf _ _ _ _ => throw .panic
  | .internal _ p l r => do
    let lh ← getHash l
    let rh ← getHash r
    writeBlock item.1 { dirty := false, node := .internal (internalHash lh rh) p l r }

def recomputeAll : List (Nat × Block) → M Unit
  | [] => pure ()
  | it :: rest => do recomputeOne it; recomputeAll rest

/-- `calculate_lazy_hashes` -/
def calcLazyHashes : M Unit := do
  let s ← get
  let (items, ok) := lcf s.blocks (fun b => b.dirty)
  recomputeAll items
  if ok then pure () else throw .err

/-! ### Integrity -/

inductive Verdict where
  | ok
  | fail
  | panic
  deriving DecidableEq, Repr

def c2pInsert (m : List (Nat × Nat)) (c p : Nat) : List (Nat × Nat) := mapInsert m c p

/-- the loop body of `check_just_integrity`; state: (leaf count, internal count, child→parent) -/
def integrityLoop (s : Blob) : List (Nat × Block) → Nat → Nat → List (Nat × Nat) →
    Except Err (Nat × Nat × List (Nat × Nat))
  | [], lc, ic, c2p => .ok (lc, ic, c2p)
  | (idx, b) :: rest, lc, ic, c2p =>
    let step1 : Option (List (Nat × Nat)) :=
      match b.node.parent with
      | some p => if mapGet c2p idx = some p then some (mapErase c2p idx) else none
      | none => some c2p
    match step1 with
    | none => .error .err
    | some c2p =>
      match b.node with
      | .internal _ _ l r => integrityLoop s rest lc (ic + 1) (c2pInsert (c2pInsert c2p l idx) r idx)
      | .leaf _ _ k _ =>
        match mapGet s.k2i k with
        | none => .error .err
        | some ci =>
          if ci ≠ idx then .error .err
          else if idx ∈ s.free then .error .panic
          else integrityLoop s rest (lc + 1) ic c2p

/-- `check_just_integrity` -/
def checkJust (s : Blob) : Verdict :=
  let (items, ok) := parentFirst s.blocks
  match integrityLoop s items 0 0 [] with
  | .error .panic => .panic
  | .error _ => .fail
  | .ok (lc, ic, c2p) =>
    if !ok then .fail
    else if lc ≠ s.k2i.length then .fail
    else if lc ≠ s.h2i.length then .fail
    else if lc + ic + s.free.length ≠ s.blocks.length then .fail
    else if !c2p.isEmpty then .fail
    else .ok

/-- `check_integrity`: as is, and again on a clone after `calculate_lazy_hashes` -/
def checkIntegrity (s : Blob) : Verdict :=
  match checkJust s with
  | .ok =>
    match calcLazyHashes s with
    | (.ok _, s') => checkJust s'
    | (.error .panic, _) => .panic
    | (.error _, _) => .fail
  | v => v

/-! ### `MerkleBlob::new` -/

def chunks (n : Nat) : Nat → Bytes → List Bytes
  | 0, _ => []
  | f+1, b => if b.isEmpty then [] else b.take n :: chunks n f (b.drop n)

def decodeAll : List Bytes → Option (List Block)
  | [] => some []
  | c :: rest =>
    match decBlock c, decodeAll rest with
    | some b, some bs => some (b :: bs)
    | _, _ => none

def cacheLoop : List (Nat × Block) → List (KeyId × Nat) → List (Hash × Nat) → Option (List (KeyId × Nat) × List (Hash × Nat))
  | [], k2i, h2i => some (k2i, h2i)
  | (idx, b) :: rest, k2i, h2i =>
    match b.node with
    | .leaf h _ k _ =>
      if (mapGet k2i k).isSome then none
      else if (mapGet h2i h).isSome then none
      else cacheLoop rest (mapInsert k2i k idx) (mapInsert h2i h idx)
    | .internal _ _ _ _ => cacheLoop rest k2i h2i

/-- `BlockStatusCache::new` + `MerkleBlob::new` on already decoded blocks -/
def ofBlocks (blocks : List Block) : Option Blob :=
  let (items, ok) := lcf blocks (fun _ => true)
  match cacheLoop items [] [] with
  | none => none
  | some (k2i, h2i) =>
    if !ok then none
    else
      let seen := items.map (·.1)
      some { blocks, k2i, h2i, free := (List.range blocks.length).filter (fun i => !seen.contains i) }

/-- `MerkleBlob::new(bytes)`.  (The Rust code decodes blocks lazily, only those it visits; the model
decodes all of them.  Every block the operations write decodes, `decBlock_encBlock`.) -/
def Blob.ofBytes (b : Bytes) : Option Blob :=
  if b.length % blockSize ≠ 0 then none
  else
    match decodeAll (chunks blockSize (b.length / blockSize) b) with
    | none => none
    | some blocks => ofBlocks blocks

/-! ### Queries -/

/-- `get_keys_values` (in cache order; callers sort) -/
def keysValues (s : Blob) : Except Err (List (KeyId × ValueId)) :=
  s.k2i.foldr (fun (k, i) acc =>
    match acc with
    | .error e => .error e
    | .ok l =>
      match s.blocks[i]? with
      | none => .error .err
      | some b =>
        match b.node with
        | .leaf _ _ _ v => .ok ((k, v) :: l)
        | .internal _ _ _ _ => .error .panic) (.ok [])

/-- `get_hash_at_index(0)` as used for the root hash: `none` when there are no keys -/
def rootHash (s : Blob) : Except Err (Option Hash) :=
  if s.k2i.isEmpty then .ok none
  else
    match s.blocks[0]? with
    | none => .error .err
    | some b => if b.dirty then .error .err else .ok (some b.node.hash)

/-- `get_lineage_blocks_with_indexes` without the first element: the ancestors' indices and blocks -/
def lineage (blocks : List Block) : Nat → Option Nat → Except Err (List (Nat × Block))
  | _, none => .ok []
  | 0, some _ => .error .hang
  | f+1, some pi =>
    match blocks[pi]? with
    | none => .error .err
    | some pb =>
      match lineage blocks f pb.node.parent with
      | .error e => .error e
      | .ok rest => .ok ((pi, pb) :: rest)

/-- the layers of `get_proof_of_inclusion` along the lineage -/
def proofLayers (blocks : List Block) : Nat → List (Nat × Block) → Except Err (List (Side × Hash × Hash))
  | _, [] => .ok []
  | idx, (pi, pb) :: rest =>
    if pb.dirty then .error .err
    else
      match pb.node with
      | .leaf _ _ _ _ => .error .panic
      | .internal ph _ l r =>
        if idx ≠ r ∧ idx ≠ l then .error .err
        else
          let sibIdx := if idx = r then l else r
          match blocks[sibIdx]? with
          | none => .error .err
          | some sb =>
            let side : Side := if l = idx then .right else .left
            match proofLayers blocks pi rest with
            | .error e => .error e
            | .ok ls => .ok ((side, sb.node.hash, ph) :: ls)

/-- `get_proof_of_inclusion` -/
def proofOfInclusion (s : Blob) (key : KeyId) : Except Err Proof :=
  match mapGet s.k2i key with
  | none => .error .err
  | some idx =>
    match s.blocks[idx]? with
    | none => .error .err
    | some b =>
      match b.node with
      | .internal _ _ _ _ => .error .panic
      | .leaf h p _ _ =>
        match lineage s.blocks (s.blocks.length + 1) p with
        | .error e => .error e
        | .ok lin =>
          match proofLayers s.blocks idx lin with
          | .error e => .error e
          | .ok layers => .ok { nodeHash := h, layers }

/-- the error of a result, `none` for `Ok` -/
def errOf {α : Type} : Except Err α → Option Err
  | .ok _ => none
  | .error e => some e

/-! ### One step of a history -/

def refIndex (s : Blob) (ref : KeyId) : Option Nat := mapGet s.k2i ref

/-- run one operation: the result and the state afterwards (possibly modified even on error) -/
def step (op : Op) (s : Blob) : Except Err Unit × Blob :=
  match op with
  | .ins k v h .auto => (do let _ ← insert k v h .auto; pure ()) s
  | .ins k v h (.at ref side) =>
    match refIndex s ref with
    | none => (.error .err, s)
    | some idx => (do let _ ← insert k v h (.leaf idx side); pure ()) s
  | .ups k v h => upsert k v h s
  | .del k => delete k s
  | .batch l => batchInsert l s
  | .hashes => calcLazyHashes s

/-! ### Abstraction L2 → L1 -/

/-- the tree (with stored hashes and dirty flags) below index `idx`, whose parent pointer must be
`parent`; fuel bounds the depth -/
def absHAux (blocks : List Block) : Nat → Nat → Option Nat → Option HT
  | 0, _, _ => none
  | f+1, idx, parent =>
    match blocks[idx]? with
    | none => none
    | some b =>
      if b.node.parent ≠ parent then none
      else
        match b.node with
        | .leaf h _ k v => if b.dirty then none else some (.leaf k v h)
        | .internal h _ l r =>
          match absHAux blocks f l (some idx), absHAux blocks f r (some idx) with
          | some tl, some tr => some (.node h b.dirty tl tr)
          | _, _ => none

/-- `absH`: `none` when the blocks reachable from index 0 do not form a tree (outer `Option`);
`some none` is the empty tree -/
def absH (s : Blob) : Option (Option HT) :=
  if s.blocks.isEmpty then some none
  else
    match absHAux s.blocks (s.blocks.length + 1) 0 none with
    | some t => some (some t)
    | none => none

/-- `abs : L2 → Option L1` -/
def abs (s : Blob) : Option Tree :=
  match absH s with
  | some (some t) => some (some t.erase)
  | some none => some none
  | none => none

/-- stored hashes are right up to dirtiness, and no clean node has a dirty descendant -/
def hashesOk (s : Blob) : Bool :=
  match absH s with
  | some (some t) => t.check.isSome
  | some none => true
  | none => false

/-! ### The local invariant used by `fail_unchanged`

Every clause speaks about one index and its direct neighbours, so the whole predicate is decidable;
the driver evaluates it after every step of every history (it must hold whenever `wf` does). -/

/-- the parent pointer stored at index `j` -/
def parentOf (s : Blob) (j : Nat) : Option Nat :=
  match s.blocks[j]? with
  | some b => b.node.parent
  | none => none

/-- a live internal node has two distinct live children whose parent pointers point back to it -/
def okChildren (s : Blob) (i : Nat) : Prop :=
  match s.blocks[i]? with
  | some { node := .internal _ _ l r, .. } =>
    l < s.blocks.length ∧ r < s.blocks.length ∧ l ∉ s.free ∧ r ∉ s.free ∧ l ≠ r
      ∧ parentOf s l = some i ∧ parentOf s r = some i
  | _ => True

/-- a live node's parent is a live internal node that has it as a child; a parentless leaf is the
only leaf -/
def okParent (s : Blob) (i : Nat) : Prop :=
  match s.blocks[i]? with
  | some b =>
    match b.node.parent with
    | some p =>
      p ∉ s.free ∧
        (match s.blocks[p]? with
         | some { node := .internal _ _ l r, .. } => i = l ∨ i = r
         | _ => False)
    | none => b.node.isLeaf = true → s.k2i.length = 1
  | none => True

/-- a live leaf is what both caches hold for its key and its hash -/
def okLeaf (s : Blob) (i : Nat) : Prop :=
  match s.blocks[i]? with
  | some { node := .leaf h _ k _, .. } => mapGet s.k2i k = some i ∧ mapGet s.h2i h = some i
  | _ => True

/-- a key cache entry points to a live leaf with that key -/
def okKey (s : Blob) (e : KeyId × Nat) : Prop :=
  e.2 ∉ s.free ∧
    (match s.blocks[e.2]? with
     | some { node := .leaf _ _ k _, .. } => k = e.1
     | _ => False)

/-- a hash cache entry points to a live leaf with that hash -/
def okHash (s : Blob) (e : Hash × Nat) : Prop :=
  e.2 ∉ s.free ∧
    (match s.blocks[e.2]? with
     | some { node := .leaf h _ _ _, .. } => h = e.1
     | _ => False)

def parentInRange (s : Blob) (i : Nat) : Prop :=
  match s.blocks[i]? with
  | some b =>
    match b.node.parent with
    | some p => p < s.blocks.length
    | none => True
  | none => True

def rootOk (s : Blob) : Prop :=
  match s.blocks[0]? with
  | some b => 0 ∉ s.free ∧ b.node.parent = none
  | none => True

instance (s : Blob) (i : Nat) : Decidable (okChildren s i) := by
  unfold okChildren; split <;> infer_instance
instance (s : Blob) (i : Nat) : Decidable (okParent s i) := by
  unfold okParent
  split
  · split
    · refine @instDecidableAnd _ _ inferInstance ?_
      split <;> infer_instance
    · infer_instance
  · infer_instance
instance (s : Blob) (i : Nat) : Decidable (okLeaf s i) := by
  unfold okLeaf; split <;> infer_instance
instance (s : Blob) (e : KeyId × Nat) : Decidable (okKey s e) := by
  unfold okKey
  refine @instDecidableAnd _ _ inferInstance ?_
  split <;> infer_instance
instance (s : Blob) (e : Hash × Nat) : Decidable (okHash s e) := by
  unfold okHash
  refine @instDecidableAnd _ _ inferInstance ?_
  split <;> infer_instance
instance (s : Blob) (i : Nat) : Decidable (parentInRange s i) := by
  unfold parentInRange
  split
  · split <;> infer_instance
  · infer_instance
instance (s : Blob) : Decidable (rootOk s) := by
  unfold rootOk; split <;> infer_instance

/-- the local invariant -/
structure LInv (s : Blob) : Prop where
  freeLt : ∀ i ∈ s.free, i < s.blocks.length
  freeNodup : s.free.Nodup
  parentRange : ∀ i, i < s.blocks.length → parentInRange s i
  root : rootOk s
  node : ∀ i, i < s.blocks.length → i ∉ s.free → okChildren s i ∧ okParent s i ∧ okLeaf s i
  keys : ∀ e ∈ s.k2i, okKey s e
  hashes : ∀ e ∈ s.h2i, okHash s e
  keysNodup : (s.k2i.map (·.1)).Nodup

instance (s : Blob) : Decidable (LInv s) :=
  decidable_of_iff
    ((∀ i ∈ s.free, i < s.blocks.length) ∧ s.free.Nodup ∧ (∀ i, i < s.blocks.length → parentInRange s i)
      ∧ rootOk s ∧ (∀ i, i < s.blocks.length → i ∉ s.free → okChildren s i ∧ okParent s i ∧ okLeaf s i)
      ∧ (∀ e ∈ s.k2i, okKey s e) ∧ (∀ e ∈ s.h2i, okHash s e) ∧ (s.k2i.map (·.1)).Nodup)
    ⟨fun ⟨a, b, c, d, e, f, g, h⟩ => ⟨a, b, c, d, e, f, g, h⟩, fun ⟨a, b, c, d, e, f, g, h⟩ => ⟨a, b, c, d, e, f, g, h⟩⟩

/-- the indices reachable from `idx` -/
def reachAux (blocks : List Block) : Nat → Nat → List Nat
  | 0, _ => []
  | f+1, idx =>
    match blocks[idx]? with
    | none => []
    | some b =>
      match b.node with
      | .leaf _ _ _ _ => [idx]
      | .internal _ _ l r => idx :: (reachAux blocks f l ++ reachAux blocks f r)

def leafEntries (blocks : List Block) : List Nat → List (KeyId × Hash × Nat)
  | [] => []
  | i :: rest =>
    match blocks[i]? with
    | some { node := .leaf h _ k _, .. } => (k, h, i) :: leafEntries blocks rest
    | _ => leafEntries blocks rest

/-- executable well-formedness (the invariant `Inv` of DESIGN §6 C18): the blocks reachable from
index 0 form a tree with consistent parent pointers; keys and leaf hashes are pairwise distinct; the
two caches hold exactly the leaves; the free list holds exactly the unreachable indices, once each;
stored hashes are right up to dirtiness. -/
def wf (s : Blob) : Bool :=
  match abs s with
  | none => false
  | some t =>
    let reach := if s.blocks.isEmpty then [] else reachAux s.blocks (s.blocks.length + 1) 0
    let leaves := leafEntries s.blocks reach
    decide (t.keys.Nodup) && decide (t.hashes.Nodup)
    && decide (reach.Nodup) && decide (s.free.Nodup)
    && decide (∀ i ∈ s.free, i < s.blocks.length ∧ i ∉ reach)
    && decide (reach.length + s.free.length = s.blocks.length)
    && decide (s.k2i.length = leaves.length) && decide (s.h2i.length = leaves.length)
    && leaves.all (fun (k, h, i) => mapGet s.k2i k = some i && mapGet s.h2i h = some i)
    && hashesOk s

/-! ### The structural invariant, executable

`wf` above reads the reachable part off the blocks with several independent traversals.  The
invariant that is proved inductive for every operation (`Lemmas/BlobRep.lean`: `SInv`) is phrased
with ONE index-annotated tree: the blocks store that tree (parent pointers, children, clean leaves),
its root is index 0, every index below the blob's length is either a node of the tree or on the free
list (so every live node is reachable from the root), and the two caches hold exactly the leaves.
`structOk` is the executable form the driver evaluates after every step. -/

/-- a tree whose nodes carry their block index -/
inductive IT where
  | leaf (i : Nat) (k : KeyId) (v : ValueId) (h : Hash)
  | node (i : Nat) (l r : IT)
  deriving Repr

namespace IT

def idx : IT → Nat
  | leaf i _ _ _ => i
  | node i _ _ => i

def indices : IT → List Nat
  | leaf i _ _ _ => [i]
  | node i l r => i :: (l.indices ++ r.indices)

def erase : IT → T
  | leaf _ k v h => .leaf k v h
  | node _ l r => .node l.erase r.erase

/-- the leaves, left to right, with their indexes -/
def leaves : IT → List (Nat × KVH)
  | leaf i k v h => [(i, k, v, h)]
  | node _ l r => l.leaves ++ r.leaves

def depth : IT → Nat
  | leaf _ _ _ _ => 0
  | node _ l r => max l.depth r.depth + 1

end IT

/-- the tree below index `i`, read off the blocks (children pointers only) -/
def itOfAux (bl : List Block) : Nat → Nat → Option IT
  | 0, _ => none
  | f+1, i =>
    match bl[i]? with
    | none => none
    | some b =>
      match b.node with
      | .leaf h _ k v => some (.leaf i k v h)
      | .internal _ _ l r =>
        match itOfAux bl f l, itOfAux bl f r with
        | some a, some c => some (.node i a c)
        | _, _ => none

def itOf (s : Blob) : Option IT := itOfAux s.blocks (s.blocks.length + 1) 0

/-- the blocks store the tree `t` below a node whose parent pointer is `p` -/
def repB (bl : List Block) : Option Nat → IT → Bool
  | p, .leaf i k v h => decide (bl[i]? = some { dirty := false, node := .leaf h p k v })
  | p, .node i l r =>
    (match bl[i]? with
     | some b =>
       (match b.node with
        | .internal _ p' l' r' => decide (p' = p) && decide (l' = l.idx) && decide (r' = r.idx)
        | .leaf _ _ _ _ => false)
     | none => false) && repB bl (some i) l && repB bl (some i) r

/-- parent pointers are below the blob's length -/
def rangeB (s : Blob) : Bool :=
  s.blocks.all fun b =>
    match b.node.parent with
    | some p => decide (p < s.blocks.length)
    | none => true

/-- the blob stores the tree `t` and nothing else -/
def goodB (s : Blob) (t : IT) : Bool :=
  repB s.blocks none t && decide (t.idx = 0) && decide t.indices.Nodup && decide s.free.Nodup
    && s.free.all (fun i => decide (i < s.blocks.length) && !t.indices.contains i)
    && (List.range s.blocks.length).all (fun i => t.indices.contains i || s.free.contains i)
    && decide (s.k2i.Perm (t.leaves.map fun e => (e.2.1, e.1)))
    && decide (s.h2i.Perm (t.leaves.map fun e => (e.2.2.2, e.1)))
    && decide (t.leaves.map (·.2.1)).Nodup && decide (t.leaves.map (·.2.2.2)).Nodup
    && rangeB s

/-- the executable structural invariant -/
def structOk (s : Blob) : Bool :=
  if s.blocks.isEmpty then decide (s = Blob.empty)
  else
    match itOf s with
    | some t => goodB s t
    | none => false

end ChiaModel.Blob
