import ChiaModel.Model.Conditions
/-
C03: model of `check_time_locks` (chia-consensus/src/check_time_locks.rs) and the per-assertion
semantics of the ten height/seconds lock and birth conditions.
-/
namespace ChiaModel.TL
open ChiaModel ChiaModel.Cond

def u32Max : Nat := 2^32 - 1
def u64Max : Nat := 2^64 - 1
/-- `u32::saturating_add` -/
def sat32 (x : Nat) : Nat := min x u32Max
/-- `u64::saturating_add` -/
def sat64 (x : Nat) : Nat := min x u64Max

/-- the part of a coin record that time locks read -/
structure CoinRec where
  confirmedIndex : Nat     -- u32
  timestamp : Nat          -- u64
  deriving Repr

/-- per-spend lock checks; `hadd`/`sadd` are the height / seconds addition (saturating or wrapping) -/
def checkSpend (hadd sadd : Nat → Nat → Nat) (sp : Spend) (rec : CoinRec) (prevHeight timestamp : Nat) : Bool :=
  (match sp.birthHeight with | some h => h == rec.confirmedIndex | none => true)
  && (match sp.birthSeconds with | some s => s == rec.timestamp | none => true)
  && (match sp.heightRelative with | some h => !(prevHeight < hadd rec.confirmedIndex h) | none => true)
  && (match sp.secondsRelative with | some s => !(timestamp < sadd rec.timestamp s) | none => true)
  && (match sp.beforeHeightRelative with | some h => !(prevHeight ≥ hadd rec.confirmedIndex h) | none => true)
  && (match sp.beforeSecondsRelative with | some s => !(timestamp ≥ sadd rec.timestamp s) | none => true)

def checkAbsolute (b : Bundle) (prevHeight timestamp : Nat) : Bool :=
  !(prevHeight < b.heightAbsolute) && !(timestamp < b.secondsAbsolute)
  && (match b.beforeHeightAbsolute with | some h => !(prevHeight ≥ h) | none => true)
  && (match b.beforeSecondsAbsolute with | some s => !(timestamp ≥ s) | none => true)

/-- `check_time_locks`: true = `Ok(())`.  `lookup` is the removal coin-record map. -/
def checkTimeLocks (nowrap : Bool) (b : Bundle) (lookup : Bytes → Option CoinRec) (prevHeight timestamp : Nat) : Bool :=
  let hadd := if nowrap then (fun a c => sat32 (a + c)) else (fun a c => (a + c) % 2^32)
  let sadd := if nowrap then (fun a c => sat64 (a + c)) else (fun a c => (a + c) % 2^64)
  checkAbsolute b prevHeight timestamp
  && b.spends.all (fun sp => match lookup sp.coinId with
      | none => false
      | some rec => checkSpend hadd sadd sp rec prevHeight timestamp)

/-! ## Specification: what each individual assertion means (non-legacy, saturating sums) -/

/-- a time-lock or birth assertion with its (already classified, in-range) argument -/
inductive Lock where
  | heightRel (v : Nat) | secondsRel (v : Nat) | beforeHeightRel (v : Nat) | beforeSecondsRel (v : Nat)
  | birthHeight (v : Nat) | birthSeconds (v : Nat)
  | heightAbs (v : Nat) | secondsAbs (v : Nat) | beforeHeightAbs (v : Nat) | beforeSecondsAbs (v : Nat)
  deriving Repr, DecidableEq

/-- the arithmetic definition of each assertion in a chain state (previous transaction-block height,
its timestamp) for a coin confirmed at `rec` -/
def Lock.holds (l : Lock) (prevHeight timestamp : Nat) (rec : CoinRec) : Bool :=
  match l with
  | .heightRel v => sat32 (rec.confirmedIndex + v) ≤ prevHeight
  | .secondsRel v => sat64 (rec.timestamp + v) ≤ timestamp
  | .beforeHeightRel v => prevHeight < sat32 (rec.confirmedIndex + v)
  | .beforeSecondsRel v => timestamp < sat64 (rec.timestamp + v)
  | .birthHeight v => rec.confirmedIndex = v
  | .birthSeconds v => rec.timestamp = v
  | .heightAbs v => v ≤ prevHeight
  | .secondsAbs v => v ≤ timestamp
  | .beforeHeightAbs v => prevHeight < v
  | .beforeSecondsAbs v => timestamp < v

/-- the lock carried by a parsed condition (`skip`/`skipRelativeCondition` are tautologies by rule) -/
def lockOf : Cond → Option Lock
  | .assertHeightRelative v => some (.heightRel v)
  | .assertSecondsRelative v => some (.secondsRel v)
  | .assertBeforeHeightRelative v => some (.beforeHeightRel v)
  | .assertBeforeSecondsRelative v => some (.beforeSecondsRel v)
  | .assertMyBirthHeight v => some (.birthHeight v)
  | .assertMyBirthSeconds v => some (.birthSeconds v)
  | .assertHeightAbsolute v => some (.heightAbs v)
  | .assertSecondsAbsolute v => some (.secondsAbs v)
  | .assertBeforeHeightAbsolute v => some (.beforeHeightAbs v)
  | .assertBeforeSecondsAbsolute v => some (.beforeSecondsAbs v)
  | _ => none

/-- the parsed conditions of a condition list, as `stepCond` sees them (unknown opcodes are skipped;
a condition that fails to parse makes the whole bundle invalid, so it never reaches lock checking) -/
def parsedConds (flags : Nat) : Sexp → List Cond
  | .pair c nxt =>
    (match first c with
     | .ok opn => match parseOpcode opn with
       | some op => (match rest c with
         | .ok args => match parseArgs args op flags with
           | .ok cva => [cva]
           | .error _ => []
         | .error _ => [])
       | none => []
     | .error _ => []) ++ parsedConds flags nxt
  | .atom _ => []

/-- all locks of a generator output: per spend (with the spend's own condition list) -/
def spendLocks (flags : Nat) (spend : Sexp) : List Lock :=
  match parseSingleSpend spend with
  | .ok (_, _, _, conds) => (parsedConds flags conds).filterMap lockOf
  | .error _ => []

end ChiaModel.TL
