import ChiaModel.Base.Sha256
/-
C15: ideal BLS, the five signature verifiers of `chia-bls` as the Rust wrappers compose the
primitives, the pairing cache (`BlsCacheData::put`, `BlsCache::{new,len,is_empty,aggregate_verify,
update,evict}`) and a lock-granularity thread model of `BlsCache`.

Ideal BLS (DESIGN §5.5).  Every key the harness uses is created from a seed it tells the driver, so
a secret key is a known integer scalar `sk`, the public key is the same scalar (`pk = sk • g`,
`0` = the point at infinity).  `hash_to_g2 x` is a formal generator `[x]` indexed by the hashed byte
string; G2 elements (signatures) and GT elements are finitely supported formal sums of generators
with integer coefficients, kept normalised (sorted by generator, no zero coefficient), so equality
of group elements is equality of lists.  `e(pk, Σ c_j [x_j]) = Σ (pk·c_j) [x_j]`.
Working over ℤ instead of ℤ/r only removes accidental relations.

No Mathlib imports: this file is linked into the compiled driver.
-/
namespace ChiaModel.Bls

/-! ## formal sums -/

/-- lexicographic order on byte strings -/
def bytesLt : Bytes → Bytes → Bool
  | [], [] => false
  | [], _ :: _ => true
  | _ :: _, [] => false
  | a :: as, b :: bs => if a < b then true else if b < a then false else bytesLt as bs

/-- finitely supported formal sum `Σ c_j [x_j]`; normal form: sorted by `bytesLt`, no zero `c_j` -/
abbrev FSum := List (Bytes × Int)

/-- add `c • [x]` to a normalised sum -/
def addTerm (x : Bytes) (c : Int) : FSum → FSum
  | [] => if c = 0 then [] else [(x, c)]
  | (y, d) :: rest =>
    if x = y then (if d + c = 0 then rest else (y, d + c) :: rest)
    else if bytesLt x y then (if c = 0 then (y, d) :: rest else (x, c) :: (y, d) :: rest)
    else (y, d) :: addTerm x c rest

/-- group operation (written multiplicatively in GT, additively in G2) -/
def FSum.add (a b : FSum) : FSum := a.foldr (fun t acc => addTerm t.1 t.2 acc) b

/-- scalar multiple -/
def FSum.smul (k : Int) (a : FSum) : FSum := if k = 0 then [] else a.map (fun t => (t.1, k * t.2))

/-- an element of GT -/
abbrev GT := FSum

/-- a G2 element (`Signature`): `off` = on the curve but outside the prime-order subgroup
(`Signature::from_bytes_unchecked` can produce such a point; `is_valid()` is false for it) -/
structure Sig where
  off : Bool := false
  terms : FSum := []
  deriving DecidableEq, Repr

instance : Inhabited Sig := ⟨{}⟩

/-- `Signature::default()`: the point at infinity -/
def Sig.zero : Sig := {}

/-- `Signature::is_valid`: infinity or in G2 -/
def Sig.isValid (s : Sig) : Bool := !s.off

/-- `Signature::aggregate` / `+=` -/
def Sig.add (a b : Sig) : Sig := { off := a.off || b.off, terms := FSum.add a.terms b.terms }

/-- `hash_to_g2(x)`: the formal generator `[x]` -/
def hashToG2 (x : Bytes) : Sig := { terms := [(x, 1)] }

/-- `Signature::pair(pk)`: `e(pk, s)` for a public key given by its scalar -/
def pair (pk : Int) (s : Sig) : GT := FSum.smul pk s.terms

/-- `sig.pair(&PublicKey::generator())` -/
def pairGen (s : Sig) : GT := pair 1 s

/-- `aggregate(sigs)`: fold from `Signature::default()` -/
def aggregate (sigs : List Sig) : Sig := sigs.foldl Sig.add Sig.zero

/-! ## public-key/message pairs -/

/-- a public key with a message, as handed to the verifiers. `pk` is the key's scalar
(0 = infinity), `pkb` is `pk.to_bytes()` (48 bytes in the real code; told to the driver by the
harness) -/
structure Pair where
  pk : Int
  pkb : Bytes
  msg : Bytes
  deriving DecidableEq, Repr

/-- the augmented message `pk.to_bytes() ‖ msg` -/
def Pair.aug (p : Pair) : Bytes := p.pkb ++ p.msg

/-- the cache key `sha256(pk.to_bytes() ‖ msg)` -/
def Pair.key (p : Pair) : Bytes := sha256 p.aug

/-- the true pairing `e(pk, H(pk ‖ msg))` = `hash_to_g2(aug).pair(pk)` -/
def Pair.pairing (p : Pair) : GT := pair p.pk (hashToG2 p.aug)

/-- `sign(sk, msg)` by the owner of the pair's key (`sk = pk` as scalars):
`sign_raw(sk, pk ‖ msg) = sk • H(pk ‖ msg)` -/
def Pair.sign (p : Pair) : Sig := { terms := FSum.smul p.pk (hashToG2 p.aug).terms }

def Pair.isInf (p : Pair) : Bool := decide (p.pk = 0)

/-! ## the verifiers, as `signature.rs` composes the primitives -/

/-- `aggregate_verify_gt(sig, gts)`: validity check on the signature only; empty list ⇒
`sig == Signature::default()`; otherwise product of the given GT elements against `e(g, sig)`. -/
def aggregateVerifyGt (sig : Sig) (gts : List GT) : Bool :=
  if !sig.isValid then false
  else match gts with
    | [] => decide (sig = Sig.zero)
    | g :: rest => decide (rest.foldl FSum.add g = pairGen sig)

/-- the pair loop of `aggregate_verify`: `blst_pairing_aggregate_pk_in_g1` fails with
`BLST_PK_IS_INFINITY` on the infinity key (`PublicKey::is_valid()` itself accepts infinity; keys off
the subgroup are not modelled) -/
def avLoop (acc : GT) : List Pair → Option GT
  | [] => some acc
  | p :: rest => if p.pk = 0 then none else avLoop (FSum.add acc p.pairing) rest

/-- `aggregate_verify(sig, pairs)` -/
def aggregateVerify (sig : Sig) (ps : List Pair) : Bool :=
  if !sig.isValid then false
  else match ps with
    | [] => decide (sig = Sig.zero)
    | _ :: _ =>
      match avLoop [] ps with
      | none => false
      | some acc => decide (acc = pairGen sig)

/-- `verify(sig, pk, msg)` = `blst_core_verify_pk_in_g1`: signature group check (infinity passes),
infinity key rejected, then `e(pk, H(pk‖msg)) = e(g, sig)` -/
def verify (sig : Sig) (p : Pair) : Bool :=
  if sig.off then false
  else if p.pk = 0 then false
  else decide (p.pairing = pairGen sig)

/-- `aggregate_pairing(data)`: empty ⇒ true; every G2 element must be valid; the product of all
`e(g1_i, g2_i)` must be the identity.  (Infinity is a *valid* `PublicKey`, and contributes the
identity.) -/
def aggregatePairing (data : List (Int × Sig)) : Bool :=
  match data with
  | [] => true
  | _ :: _ =>
    if data.any (fun d => d.2.off) then false
    else decide (data.foldl (fun (acc : GT) d => FSum.add acc (pair d.1 d.2)) ([] : GT) = ([] : GT))

/-- the argument convention of `aggregate_pairing` for checking an aggregate signature (tests of
signature.rs): all `(pk_i, H(pk_i‖m_i))` followed by `(−g, sig)` -/
def pairingArgs (sig : Sig) (ps : List Pair) : List (Int × Sig) :=
  ps.map (fun p => (p.pk, hashToG2 p.aug)) ++ [(-1, sig)]

/-! ## what the property prescribes -/

/-- "the signature is the aggregate of signatures by those keys over those messages" -/
def IsAggregate (sig : Sig) (ps : List Pair) : Prop := sig = aggregate (ps.map Pair.sign)

instance (sig : Sig) (ps : List Pair) : Decidable (IsAggregate sig ps) := by
  unfold IsAggregate; infer_instance

/-- the verdict C15 prescribes for every path: never valid if any key is the point at infinity,
otherwise valid exactly when the signature is the aggregate -/
def specVerdict (sig : Sig) (ps : List Pair) : Bool :=
  !(ps.any Pair.isInf) && decide (IsAggregate sig ps)

/-! ## the cache: `BlsCacheData` (a `LinkedHashMap` in insertion order + capacity) -/

structure Cache where
  cap : Nat
  /-- oldest first; keys are pairwise distinct (invariant `keys_nodup`) -/
  items : List (Bytes × GT) := []
  deriving DecidableEq, Repr

/-- `BlsCache::new(NonZeroUsize)`: a zero capacity cannot be expressed (`NonZeroUsize::new(0)` is
`None`; the Python constructor raises) -/
def Cache.new (cap : Nat) : Option Cache := if cap = 0 then none else some { cap := cap }

def Cache.len (c : Cache) : Nat := c.items.length
def Cache.isEmpty (c : Cache) : Bool := c.items.isEmpty

/-- `items.get(&hash).cloned()` -/
def Cache.get (c : Cache) (k : Bytes) : Option GT :=
  (c.items.find? (fun e => decide (e.1 = k))).map (·.2)

/-- `LinkedHashMap::insert`: a new key is appended; an existing key gets the new value and moves
to the back -/
def lhmInsert (items : List (Bytes × GT)) (k : Bytes) (v : GT) : List (Bytes × GT) :=
  items.filter (fun e => !decide (e.1 = k)) ++ [(k, v)]

/-- `BlsCacheData::put`, exactly as coded: when `len == capacity` the oldest entry is popped —
also when the key being put is already present — then `insert` -/
def Cache.put (c : Cache) (k : Bytes) (v : GT) : Cache :=
  let items := if c.items.length = c.cap then c.items.drop 1 else c.items
  { c with items := lhmInsert items k v }

/-- `items.remove(&hash)` -/
def Cache.remove (c : Cache) (k : Bytes) : Cache :=
  { c with items := c.items.filter (fun e => !decide (e.1 = k)) }

/-- `BlsCache::update(aug_msg, gt)`: hashes the given bytes, stores the given element -/
def Cache.update (c : Cache) (aug : Bytes) (gt : GT) : Cache := c.put (sha256 aug) gt

/-- `BlsCache::evict(pairs)` (one lock for the whole list) -/
def Cache.evict (c : Cache) (ps : List Pair) : Cache := ps.foldl (fun c p => c.remove p.key) c

/-! ## thread model at lock granularity

Every acquisition of `self.cache.lock()` is one atomic step.  `BlsCache::aggregate_verify` builds a
lazy iterator and hands it to `aggregate_verify_gt`, which first checks the signature (invalid ⇒
`false`, nothing is consumed) and then pulls the elements one by one; per pair the closure takes the
lock to look the key up and — on a miss only — computes the pairing *outside* the lock and takes the
lock a second time to `put` it.

Since the repair 601e785b the closure also looks at the KEY of every pair it is handed — before the
cache lookup, hit or miss alike — and sets the local flag `invalid_key` when the key `is_inf()` or is
not `is_valid()`; the pairing is looked up / computed / inserted exactly as before (so the identity
pairing of an infinity key still enters the cache), and the function returns
`aggregate_verify_gt(sig, iter) && !invalid_key`.  In the scalar model a public key IS its scalar, so
a key outside the prime-order subgroup (`!is_valid()`) is not representable: the flag is set exactly
when the pair taken from the list has `pk = 0` (`Pair.isInf`); off-subgroup keys are covered by the
correspondence runs only. -/

inductive Op where
  /-- `BlsCache::aggregate_verify(pairs, sig)` -/
  | av (ps : List Pair) (sig : Sig)
  /-- a sequence of `BlsCache::update(aug_msg, gt)` calls -/
  | upd (es : List (Bytes × GT))
  /-- `BlsCache::evict(pairs)` -/
  | evict (ps : List Pair)
  /-- `BlsCache::len()` -/
  | len
  deriving Repr

inductive Out where
  | verdict (b : Bool)
  | unit
  | len (n : Nat)
  deriving DecidableEq, Repr

inductive TState where
  /-- inside `aggregate_verify`: pairs not yet looked up, a computed pairing waiting for its `put`
  lock, the GT elements the iterator has yielded so far, and the local flag `invalid_key` (some pair
  already taken from the list had the infinity key) -/
  | av (sig : Sig) (todo : List Pair) (pending : Option (Bytes × GT)) (got : List GT) (invalidKey : Bool)
  | upd (todo : List (Bytes × GT))
  | evict (ps : List Pair)
  | len
  | done (out : Out)
  deriving Repr

structure Thread where
  op : Op
  st : TState
  deriving Repr

/-- state of `aggregate_verify` after a step: finished when nothing is left to look up or put; the
verdict is `ret && !invalid_key` with `ret = aggregate_verify_gt(sig, yielded elements)` -/
def avNext (sig : Sig) (todo : List Pair) (pending : Option (Bytes × GT)) (got : List GT)
    (invalidKey : Bool) : TState :=
  match todo, pending with
  | [], none => .done (.verdict (aggregateVerifyGt sig got && !invalidKey))
  | _, _ => .av sig todo pending got invalidKey

/-- a call up to its first lock acquisition -/
def Thread.start (op : Op) : Thread :=
  { op := op,
    st := match op with
      | .av ps sig =>
        -- invalid signature: `ret = false` before the iterator is touched (no pair is looked at,
        -- `false && !invalid_key = false`); empty list: `sig == default`; `invalid_key` starts `false`
        if !sig.isValid then .done (.verdict false) else avNext sig ps none [] false
      | .upd [] => .done .unit
      | .upd es => .upd es
      | .evict ps => .evict ps
      | .len => .len }

/-- one atomic step (one lock scope) of a thread, followed by its lock-free work up to the next
acquisition -/
def step (c : Cache) (t : Thread) : Cache × Thread :=
  match t.st with
  | .av sig todo (some (k, v)) got inv =>      -- `self.cache.lock().put(hash, pairing)`
    (c.put k v, { t with st := avNext sig todo none got inv })
  | .av sig (p :: rest) none got inv =>        -- `self.cache.lock().items.get(&hash).cloned()`
    -- the key check precedes the lookup and happens for every pair, hit or miss
    -- (`if pk.is_inf() || !pk.is_valid() { invalid_key = true; }`)
    match c.get p.key with
    | some v => (c, { t with st := avNext sig rest none (got ++ [v]) (inv || p.isInf) })
    | none => (c, { t with st := avNext sig rest (some (p.key, p.pairing)) (got ++ [p.pairing])
                                          (inv || p.isInf) })
  | .av sig [] none got inv => (c, { t with st := avNext sig [] none got inv })
  | .upd [] => (c, { t with st := .done .unit })
  | .upd ((aug, gt) :: rest) =>
    (c.update aug gt, { t with st := if rest.isEmpty then .done .unit else .upd rest })
  | .evict ps => (c.evict ps, { t with st := .done .unit })
  | .len => (c, { t with st := .done (.len c.len) })
  | .done _ => (c, t)

/-- the shared cache and the concurrent calls -/
structure World where
  cache : Cache
  threads : List Thread
  deriving Repr

/-- thread `i` takes the lock for its next step (no-op when it has finished or does not exist) -/
def World.stepThread (w : World) (i : Nat) : World :=
  match w.threads[i]? with
  | none => w
  | some t =>
    let r := step w.cache t
    { cache := r.1, threads := w.threads.set i r.2 }

/-- a schedule: the order in which threads win the lock -/
def runSchedule (w : World) (sched : List Nat) : World := sched.foldl World.stepThread w

/-- upper bound on the lock acquisitions a thread still needs -/
def stepsLeft (t : Thread) : Nat :=
  match t.st with
  | .av _ todo pending _ _ => 2 * todo.length + (if pending.isSome then 1 else 0) + 1
  | .upd todo => todo.length + 1
  | .evict _ => 1
  | .len => 1
  | .done _ => 0

/-- thread `i`, `i+1`, … each granted as many steps as it can still need -/
def finishFrom : List Thread → Nat → List Nat
  | [], _ => []
  | t :: rest, i => List.replicate (stepsLeft t) i ++ finishFrom rest (i + 1)

/-- after the given schedule the remaining threads run to completion one after the other -/
def finishSchedule (w : World) : List Nat := finishFrom w.threads 0

/-- execute a schedule and let every call finish -/
def runAll (w : World) (sched : List Nat) : World :=
  let w1 := runSchedule w sched
  runSchedule w1 (finishSchedule w1)

def Thread.out (t : Thread) : Option Out :=
  match t.st with
  | .done o => some o
  | _ => none

/-- one call alone on the cache (a sequential history is a sequence of these) -/
def runOp (c : Cache) (op : Op) : Cache × Option Out :=
  let w := runAll { cache := c, threads := [Thread.start op] } []
  (w.cache, (w.threads.head?).bind Thread.out)

/-- `BlsCache::aggregate_verify` called alone: new cache state and verdict -/
def cacheVerify (c : Cache) (sig : Sig) (ps : List Pair) : Cache × Bool :=
  let r := runOp c (.av ps sig)
  (r.1, match r.2 with | some (.verdict b) => b | _ => false)

/-- a sequential history: per call its result and `len()` afterwards -/
def runHistory (c : Cache) : List Op → Cache × List (Option Out × Nat)
  | [] => (c, [])
  | op :: rest =>
    let r := runOp c op
    let r2 := runHistory r.1 rest
    (r2.1, (r.2, r.1.len) :: r2.2)

end ChiaModel.Bls
