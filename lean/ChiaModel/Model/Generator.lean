import ChiaModel.Model.Conditions
/-
Models of the block-generator execution paths (chia-consensus/src/run_block_generator.rs,
spendbundle_conditions.rs, solution_generator.rs, generator_cost.rs, additions_and_removals.rs,
get_puzzle_and_solution.rs).  The CLVM interpreter (clvmr) is external: every `run_program` call is
a model parameter (an *oracle* value supplied per case by the harness, which runs the real
interpreter), under the contract `EvalContract` (DESIGN §5.4): a run that costs `c` succeeds under
every limit ≥ c with the same result and fails with cost-exceeded under every smaller limit.
-/
namespace ChiaModel.Gn
open ChiaModel ChiaModel.Cond

/-- result of one interpreter run at an unbounded limit: `none` = the program raised -/
abbrev RunRes := Option (Nat × Sexp)

/-- applying the cost limit to an unbounded-run result (EvalContract) -/
def runWithLimit (r : RunRes) (limit : Nat) : R (Nat × Sexp) :=
  match r with
  | none => .error .reject
  | some (c, out) => if c > limit then .error .costExceeded else .ok (c, out)

/-- `subtract_cost` -/
def subtractCost (left sub : Nat) : R Nat := if sub > left then .error .costExceeded else .ok (left - sub)

/-- Allocator::next -/
def anext : Sexp → Option (Sexp × Sexp)
  | .pair a b => some (a, b)
  | .atom _ => none

/-- `extract_n::<5>`: four items and the rest -/
def extract5 (n : Sexp) : Option (Sexp × Sexp × Sexp × Sexp × Sexp) :=
  match n with
  | .pair a (.pair b (.pair c (.pair d rest))) => some (a, b, c, d, rest)
  | _ => none

/-- `extract_n::<3>` succeeds iff there are two items (and a rest) -/
def extract3ok : Sexp → Bool
  | .pair _ (.pair _ _) => true
  | _ => false

/-! ## interned size -/

def subtrees : Sexp → List Sexp
  | .atom b => [.atom b]
  | .pair l r => .pair l r :: (subtrees l ++ subtrees r)

def dedup (l : List Sexp) : List Sexp := l.foldl (fun acc x => if acc.contains x then acc else acc ++ [x]) []

/-- `interned_vbytes`: over the *set* of distinct subtrees: atom bytes + 2 per atom + 3 per pair -/
def internedVbytes (t : Sexp) : Nat :=
  ((dedup (subtrees t)).map (fun n => match n with | .atom b => b.length + 2 | .pair _ _ => 3)).sum

/-! ## generator checks -/

def simpleGen (flags : Nat) : Bool := hasFlag flags Gen.flagSimpleGenerator

/-- `check_generator_node` under SIMPLE_GENERATOR: the program is `(1 . x)` with the atom `01` -/
def generatorNodeOk (flags : Nat) (prog : Sexp) : Bool :=
  !simpleGen flags || (match prog with | .pair (.atom [1]) _ => true | _ => false)

/-- the per-generator inputs the harness reports about the serialized program -/
structure GenInput where
  len : Nat              -- byte length of the serialized program
  startsQuote : Bool     -- serialization starts with ff 01
  prog : Sexp            -- the decoded program (back-references resolved)
  nrefs : Nat            -- number of block references passed

structure Params where
  flags : Nat
  pkOk : Bytes → Bool
  sigOk : List (Bytes × Bytes) → Bool
  costPerByte : Nat := Gen.costPerByte

/-! ## native path: `run_block_generator2` -/

/-- the spend loop of the native path; `puz i` is the unbounded run of the i-th spend's puzzle -/
def nativeLoop (env : Env) (puz : Nat → RunRes) : Sexp → Nat → Bundle → PState → Nat → Nat → R ((Bundle × PState) × Nat)
  | .pair spend nxt, i, ret, st, spendsLeft, costLeft =>
    if spendsLeft = 0 then .error .reject else
    match extract5 spend with
    | none => .error .reject
    | some (parent, puzzle, amount, _solution, _) =>
      match runWithLimit (puz i) costLeft with
      | .error e => .error e
      | .ok (clvmCost, conditions) =>
        match subtractCost costLeft clvmCost with
        | .error e => .error e
        | .ok costLeft =>
          let ret := { ret with executionCost := ret.executionCost + clvmCost }
          match processSingleSpend env ret st parent (.atom (Sexp.treeHash puzzle)) amount conditions clvmCost costLeft with
          | .error e => .error e
          | .ok ((ret, st), costLeft) => nativeLoop env puz nxt (i + 1) ret st (spendsLeft - 1) costLeft
  | .atom [], _, ret, st, _, costLeft => .ok ((ret, st), costLeft)
  | .atom _, _, _, _, _, _ => .error .reject

def allExtract3 : Sexp → Bool
  | .pair spend nxt => extract3ok spend && allExtract3 nxt
  | .atom _ => true

/-- `run_block_generator2` -/
def native (p : Params) (g : GenInput) (genRun : RunRes) (puz : Nat → RunRes) (maxCost : Nat) : R Bundle :=
  if simpleGen p.flags ∧ !g.startsQuote then .error .reject else
  let baseCost := (if hasFlag p.flags Gen.flagInternedGenerator then internedVbytes g.prog else g.len) * p.costPerByte
  match subtractCost maxCost baseCost with
  | .error e => .error e
  | .ok costLeft =>
    if !generatorNodeOk p.flags g.prog then .error .reject else
    if simpleGen p.flags ∧ g.nrefs > 0 then .error .reject else
    match runWithLimit genRun costLeft with
    | .error e => .error e
    | .ok (genCost, out) =>
      match subtractCost costLeft genCost with
      | .error e => .error e
      | .ok costLeft =>
        match first out with
        | .error e => .error e
        | .ok allSpends =>
          if !allExtract3 allSpends then .error .reject else
          let env : Env := { flags := p.flags, mempool := false, pkOk := p.pkOk }
          let ret0 : Bundle := { executionCost := genCost }
          match nativeLoop env puz allSpends 0 ret0 {} (spendLimit p.flags) costLeft with
          | .error e => .error e
          | .ok ((ret, st), costLeft) =>
            match finishBundle env p.sigOk ret st with
            | .error e => .error e
            | .ok ret => .ok { ret with cost := maxCost - costLeft }

/-! ## legacy path: `run_block_generator` (generator ROM run inside CLVM) -/

/-- `rom_bootstrap_generator.clsp`, as a function of the generator's output and the puzzle runs:
`(process-decompressor (a generator …))` = `((recurse coin_spends) . args)`; `recurse` raises on a
non-nil atom terminator; each spend `(parent puzzle amount solution . args)` (raises when shorter)
becomes `(parent (sha256tree puzzle) amount (a puzzle solution) . args)` -/
def romRecurse (puz : Nat → RunRes) : Sexp → Nat → Option Sexp
  | .pair spend nxt, i =>
    match extract5 spend with
    | none => none
    | some (parent, puzzle, amount, _solution, args) =>
      match puz i with
      | none => none
      | some (_, conds) =>
        match romRecurse puz nxt (i + 1) with
        | none => none
        | some tail => some (.pair (.pair parent (.pair (.atom (Sexp.treeHash puzzle)) (.pair amount (.pair conds args)))) tail)
  | .atom [], _ => some Sexp.nil
  | .atom _, _ => none

def romModel (genRun : RunRes) (puz : Nat → RunRes) : Option Sexp :=
  match genRun with
  | none => none
  | some (_, out) =>
    match out with
    | .pair coinSpends args => (romRecurse puz coinSpends 0).map (fun l => .pair l args)
    | .atom _ => none

/-- `run_block_generator`; `romRun` is the unbounded run of the ROM on (program, refs) -/
def legacy (p : Params) (g : GenInput) (romRun : RunRes) (maxCost : Nat) : R Bundle :=
  if simpleGen p.flags ∧ !g.startsQuote then .error .reject else
  -- simple generators take no block references (same rule as the native path)
  if simpleGen p.flags ∧ g.nrefs > 0 then .error .reject else
  match subtractCost maxCost (g.len * p.costPerByte) with
  | .error e => .error e
  | .ok costLeft =>
    if !generatorNodeOk p.flags g.prog then .error .reject else
    match runWithLimit romRun costLeft with
    | .error e => .error e
    | .ok (clvmCost, out) =>
      match subtractCost costLeft clvmCost with
      | .error e => .error e
      | .ok costLeft =>
        let env : Env := { flags := p.flags, mempool := false, pkOk := p.pkOk }
        match parseSpends env p.sigOk out costLeft 0 with
        | .error e => .error e
        | .ok (ret, _) => .ok { ret with cost := ret.cost + (maxCost - costLeft), executionCost := clvmCost }

/-! ## solution generator -/

structure CoinSpendM where
  parent : Bytes
  puzzleHash : Bytes       -- the *declared* puzzle hash of the coin
  amount : Nat
  puzzle : Sexp
  solution : Sexp
  puzzleLen : Nat          -- byte lengths of the reveals as serialized in the CoinSpend
  solutionLen : Nat

/-- `build_generator`: `(q . ((spend … ) . nil))` with the spends in REVERSE order of the input
(the list is built by consing onto the front) -/
def buildGenerator (spends : List CoinSpendM) : Sexp :=
  let items := spends.map (fun s => Sexp.ofList [.atom s.parent, s.puzzle, .atom (canonNat s.amount), s.solution])
  .pair (.atom [1]) (.pair (Sexp.ofList items.reverse) Sexp.nil)

/-- `calculate_generator_length` with the generated constants and `clvm_bytes_len` ladder -/
def calculateGeneratorLength (spends : List CoinSpendM) : Nat :=
  Gen.genLenBase + (spends.map (fun s => Gen.genLenPerSpend + s.puzzleLen + Gen.clvmBytesLen s.amount + s.solutionLen)).sum

/-! ## mempool path: `run_spendbundle` -/

def QUOTE_BYTES : Nat := 2

def bundleLoop (env : Env) (puz : Nat → RunRes) : List CoinSpendM → Nat → Bundle → PState → Nat → R ((Bundle × PState) × Nat)
  | [], _, ret, st, costLeft => .ok ((ret, st), costLeft)
  | cs :: rest, i, ret, st, costLeft =>
    match runWithLimit (puz i) costLeft with
    | .error e => .error e
    | .ok (clvmCost, conditions) =>
      let ret := { ret with executionCost := ret.executionCost + clvmCost }
      match subtractCost costLeft clvmCost with
      | .error e => .error e
      | .ok costLeft =>
        if cs.puzzleHash ≠ Sexp.treeHash cs.puzzle then .error .reject else
        match processSingleSpend env ret st (.atom cs.parent) (.atom (Sexp.treeHash cs.puzzle)) (.atom (canonNat cs.amount)) conditions clvmCost costLeft with
        | .error e => .error e
        | .ok ((ret, st), costLeft) => bundleLoop env puz rest (i + 1) ret st costLeft

/-- `run_spendbundle` (without fingerprints); returns the conditions and the (pk, text) pairs -/
def runSpendbundle (p : Params) (spends : List CoinSpendM) (puz : Nat → RunRes) (maxCost : Nat) : R (Bundle × List (Bytes × Bytes)) :=
  let baseCost := (if hasFlag p.flags Gen.flagInternedGenerator then internedVbytes (buildGenerator spends)
                   else calculateGeneratorLength spends - QUOTE_BYTES) * p.costPerByte
  match subtractCost maxCost baseCost with
  | .error e => .error e
  | .ok costLeft =>
    if hasFlag p.flags Gen.flagLimitSpends ∧ spends.length > MAX_SPENDS_PER_BLOCK then .error .reject else
    let env : Env := { flags := p.flags, mempool := true, pkOk := p.pkOk }
    match bundleLoop env puz spends 0 {} {} costLeft with
    | .error e => .error e
    | .ok ((ret, st), costLeft) =>
      let ret := postProcess env ret st
      match validateConditions ret st with
      | .error e => .error e
      | .ok _ => .ok ({ ret with cost := maxCost - costLeft }, st.pkmPairs)

/-! ## trusted fast paths -/

/-- the CREATE_COIN scan of `additions_and_removals` over one spend's condition list; `none` = error -/
def scanCreateCoins (spendId : Bytes) : Sexp → Option (List ((Bytes × Bytes × Nat) × Option Bytes))
  | .pair c nxt =>
    match c with
    | .atom _ => none                                   -- `first(c)` fails
    | .pair op args =>
      if op ≠ .atom [51] then scanCreateCoins spendId nxt
      else
        match args with
        | .pair (.atom ph) (.pair amount hint) =>
          if ph.length ≠ 32 then none else
          match amount with
          | .pair _ _ => none
          | .atom ab =>
            match sanitizeUint ab 8 with
            | .ok v =>
              let h : Option Bytes := match hint with
                | .pair (.pair (.atom hb) _) _ => if hb.length ≤ 32 ∧ hb.length > 0 then some hb else none
                | _ => none
              (scanCreateCoins spendId nxt).map (fun l => ((spendId, ph, v), h) :: l)
            | _ => none
        | _ => none
  | .atom [] => some []
  | .atom _ => none

/-- `additions_and_removals`: (additions with hints, removals as (coin id, parent, puzzle hash, amount)) -/
def addRemLoop (puz : Nat → RunRes) : Sexp → Nat → Nat →
    Option (List ((Bytes × Bytes × Nat) × Option Bytes) × List (Bytes × Bytes × Bytes × Nat))
  | .pair spend nxt, i, costLeft =>
    match extract5 spend with
    | none => none
    | some (parent, puzzle, amount, _solution, _) =>
      match parent, amount with
      | .atom pb, .atom ab =>
        if pb.length ≠ 32 then none else
        match sanitizeUint ab 8 with
        | .ok v =>
          match puz i with
          | none => none
          | some (c, conds) =>
            if c > costLeft then none else
            let ph := Sexp.treeHash puzzle
            let id := sha256 (pb ++ ph ++ Gen.coinIdAmount v)
            match scanCreateCoins id conds, addRemLoop puz nxt (i + 1) (costLeft - c) with
            | some adds, some (adds2, rems2) => some (adds ++ adds2, (id, pb, ph, v) :: rems2)
            | _, _ => none
        | _ => none
      | _, _ => none
  | .atom _, _, _ => some ([], [])

def additionsAndRemovals (p : Params) (g : GenInput) (genRun : RunRes) (puz : Nat → RunRes) :
    Option (List ((Bytes × Bytes × Nat) × Option Bytes) × List (Bytes × Bytes × Bytes × Nat)) :=
  if simpleGen p.flags ∧ g.nrefs > 0 then none else
  match genRun with
  | none => none
  | some (c, out) =>
    if c > Gen.maxBlockCostClvm then none else
    match out with
    | .atom _ => none
    | .pair allSpends _ =>
      if !allExtract3 allSpends then none else addRemLoop puz allSpends 0 (Gen.maxBlockCostClvm - c)

/-- `get_puzzle_and_solution_for_coin`: first spend `(parent puzzle amount solution)` (nil after the
solution) matching parent, amount and puzzle hash; `none` = error -/
def getPuzzleAndSolution (genOut : Sexp) (parent ph : Bytes) (amount : Nat) : Option (Sexp × Sexp) :=
  let rec go : Sexp → Option (Sexp × Sexp)
    | .pair cs nxt =>
      match cs with
      | .pair (.atom pb) (.pair puzzle (.pair (.atom ab) (.pair solution _))) =>
        match sanitizeUint ab 8 with
        | .ok v =>
          if pb = parent ∧ v = amount ∧ Sexp.treeHash puzzle = ph then some (puzzle, solution) else go nxt
        | _ => none
      | _ => none
    | .atom [] => none
    | .atom _ => none
  match genOut with
  | .pair l _ => go l
  | .atom _ => none

/-! ## `get_coinspends_for_trusted_block` (run_block_generator.rs) -/

/-- length of the plain serialisation, computed without building it (`serLen x = (Sexp.serialize x).length`,
Lemmas/Coinspends.lean `serLen_eq`) -/
def serLen : Sexp → Nat
  | .atom b => (Sexp.serAtom b).length
  | .pair l r => 1 + (serLen l + serLen r)

/-- `Program::from_clvm` succeeds iff the plain serialisation has at most 2 000 000 bytes
(`node_to_bytes` writes through a `LimitedWriter` with that limit) -/
def fits2MB (x : Sexp) : Bool := serLen x ≤ 2000000

/-- `Program::from_clvm(..).unwrap_or_default()`: the tree itself when it can be serialised within the
limit, otherwise the default program `80` (nil).  `fits` is the size test (`fits2MB` in the code). -/
def programOrDefault (fits : Sexp → Bool) (x : Sexp) : Sexp := if fits x then x else Sexp.nil

/-- the second loop of `get_coinspends_for_trusted_block` over the generator's spend list: a spend tuple
that `extract_n::<5>` cannot take apart is SKIPPED (`continue`); a parent that is not a 32-byte atom or an
amount `parse_amount` rejects is an error (`none`); the puzzle hash is the tree hash of the reveal; reveal
and solution go through `programOrDefault`; the loop stops at the first atom (no terminator check) -/
def coinspendsLoop (fits : Sexp → Bool) : Sexp → Option (List CoinSpendM)
  | .pair spend nxt =>
    match extract5 spend with
    | none => coinspendsLoop fits nxt
    | some (parent, puzzle, amount, solution, _) =>
      match parent with
      | .pair _ _ => none
      | .atom pb =>
        if pb.length ≠ 32 then none else
        match parseAmount amount with
        | .error _ => none
        | .ok v =>
          let pz := programOrDefault fits puzzle
          let sl := programOrDefault fits solution
          let cs : CoinSpendM := { parent := pb, puzzleHash := Sexp.treeHash puzzle, amount := v, puzzle := pz, solution := sl,
                                   puzzleLen := serLen pz, solutionLen := serLen sl }
          match coinspendsLoop fits nxt with
          | none => none
          | some l => some (cs :: l)
  | .atom _ => some []

/-- `get_coinspends_for_trusted_block`: generator checks, the generator run under MAX_BLOCK_COST_CLVM,
`next` of its result, then the spend loop; `none` = `Err` -/
def getCoinspends (fits : Sexp → Bool) (p : Params) (g : GenInput) (genRun : RunRes) : Option (List CoinSpendM) :=
  if simpleGen p.flags ∧ !g.startsQuote then none else
  if !generatorNodeOk p.flags g.prog then none else
  if simpleGen p.flags ∧ g.nrefs > 0 then none else
  match genRun with
  | none => none
  | some (c, out) =>
    if c > Gen.maxBlockCostClvm then none else
    match out with
    | .atom _ => none
    | .pair allSpends _ => coinspendsLoop fits allSpends

/-- every puzzle reveal and solution of the spend list passes the size test (the harness marker
`@reveal-over-2MB` is the negation, with `fits2MB`) -/
def revealsFit (fits : Sexp → Bool) : Sexp → Bool
  | .pair spend nxt =>
    (match extract5 spend with
     | some (_, puzzle, _, solution, _) => fits puzzle && fits solution
     | none => true) && revealsFit fits nxt
  | .atom _ => true

/-! ## `SpendBundle::additions` (chia-protocol/src/spend_bundle.rs) -/

/-- clvm-traits `u64::from_clvm` on an atom: `decode_number::<8>(unsigned)`, then `from_be_bytes` -/
def u64FromClvm (b : Bytes) : Option Nat := (decodeNumber 8 false b).map beVal

/-- the cost budget of `SpendBundle::additions` and what it charges per created coin -/
def ADDITIONS_BUDGET : Nat := 11000000000
def ADDITIONS_CREATE_COIN_COST : Nat := 1350000

/-- the condition scan of `SpendBundle::additions` for one spend, threading `cost_left`: the loop ends at
the first atom; `first(c)` / `rest(c)` fail on an atom; a PAIR in the opcode position is an error; opcode
atoms of length ≠ 1 and one-byte opcodes other than 51 are skipped; for 51 the arguments are destructured
as `(Bytes32, (u64, NodePtr))` (any failure is an error), the coin is pushed, then `CREATE_COIN_COST` is
charged (error when it exceeds what is left).  `none` = `Err` -/
def bundleScan (parentId : Bytes) : Sexp → Nat → Option (List (Bytes × Bytes × Nat) × Nat)
  | .pair c nxt, costLeft =>
    match c with
    | .atom _ => none
    | .pair op args =>
      match op with
      | .pair _ _ => none
      | .atom buf =>
        match buf with
        | [x] =>
          if x = 51 then
            match args with
            | .pair (.atom ph) (.pair (.atom ab) _) =>
              if ph.length ≠ 32 then none else
              match u64FromClvm ab with
              | none => none
              | some v =>
                if ADDITIONS_CREATE_COIN_COST > costLeft then none else
                match bundleScan parentId nxt (costLeft - ADDITIONS_CREATE_COIN_COST) with
                | none => none
                | some (l, left) => some ((parentId, ph, v) :: l, left)
            | _ => none
          else bundleScan parentId nxt costLeft
        | _ => bundleScan parentId nxt costLeft
  | .atom _, costLeft => some ([], costLeft)

/-- the spend loop of `SpendBundle::additions`; `puz i` is the unbounded run of the i-th puzzle reveal on its
solution; the parent of the created coins is `coin.coin_id()` of the DECLARED coin -/
def bundleAddLoop (puz : Nat → RunRes) : List CoinSpendM → Nat → Nat → Option (List (Bytes × Bytes × Nat))
  | [], _, _ => some []
  | cs :: rest, i, costLeft =>
    match puz i with
    | none => none
    | some (c, conds) =>
      if c > costLeft then none else
      let id := sha256 (cs.parent ++ cs.puzzleHash ++ Gen.coinIdAmount cs.amount)
      match bundleScan id conds (costLeft - c) with
      | none => none
      | some (adds, left) =>
        match bundleAddLoop puz rest (i + 1) left with
        | none => none
        | some l => some (adds ++ l)

/-- `SpendBundle::additions`: created coins as (parent coin id, puzzle hash, amount), in spend order and
within a spend in condition order -/
def bundleAdditions (spends : List CoinSpendM) (puz : Nat → RunRes) : Option (List (Bytes × Bytes × Nat)) :=
  bundleAddLoop puz spends 0 ADDITIONS_BUDGET

/-- no condition of the list has a pair in the opcode position (the harness marker `@pair-opcode` is the
negation, over all puzzle outputs of the bundle) -/
def noPairOpcode : Sexp → Bool
  | .pair c nxt => (match c with | .pair (.pair _ _) _ => false | _ => true) && noPairOpcode nxt
  | .atom _ => true


end ChiaModel.Gn
