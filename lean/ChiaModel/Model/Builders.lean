import ChiaModel.Model.Generator
import ChiaModel.Model.Ints
/-
Models of the two block builders
  chia-consensus/src/build_compressed_block.rs  (`BlockBuilder`, clvmr's incremental `Serializer`)
  chia-consensus/src/build_interned_block.rs    (`InternedBlockBuilder`, `spend_vbytes`, checkpoints)
as state machines `step : St → Add → St × Res` and `finalize`.

* Trees are values (`Sexp`); the allocator and its checkpoints disappear (restoring a checkpoint
  only frees nodes nobody refers to any more).
* Signatures are formal: a signature is the list of the tags of the single signatures aggregated
  into it (the free monoid; `Signature::default()` is `[]`, `aggregate` is `++`).  Any interpretation
  in a commutative monoid factors through it (`Mon.eval`).
* All arithmetic on the running totals is `u64` arithmetic as a release build performs it (wrapping;
  `wadd`, `wmul`) - the guards add a caller-supplied declared cost.
* The interned builder is modelled completely.  For the compressed builder the incremental serializer
  is external: each `Add` carries, as oracle values measured by the harness on clvmr's real
  `Serializer`, its size after the add and after the restore; `finalize` gets the final size.  The
  assumed contract is `SerContract` below.
-/
namespace ChiaModel.Bld
open ChiaModel ChiaModel.Gn

/-! ## constants (the specification's values; `Props/C10.lean` proves the values regenerated from
the source, `Gen/Builder.lean`, equal to them) -/

/-- `MAX_SKIPPED_ITEMS` -/
def maxSkipped : Nat := 6
/-- `MIN_COST_THRESHOLD`: typical cost of a standard spend -/
def minCostThreshold : Nat := 6000000
/-- cost of executing the quote around the spend list: the initial `block_cost` -/
def quoteCost : Nat := 20
/-- `COST_CONS`: interned weight of the pair linking a spend into the spend list -/
def costCons : Nat := 3
/-- `WRAPPER_VBYTES`: interned weight of `(q . (spend_list . nil))` around the spend list:
atom `1` (3) + nil (2) + two pairs (6) -/
def wrapperVbytes : Nat := 11

def W : Nat := 2 ^ 64
/-- `u64` addition / multiplication of a release build -/
def wadd (a b : Nat) : Nat := (a + b) % W
def wmul (a b : Nat) : Nat := (a * b) % W

/-! ## inputs -/

/-- a coin spend as the builders see it: parent id, puzzle reveal, amount, solution (decoded) -/
structure Spend where
  parent : Bytes
  puzzle : Sexp
  amount : Nat
  solution : Sexp
  deriving Repr, DecidableEq

/-- `(parent puzzle amount solution)`: the item both builders cons onto the spend list
(`new_number(amount)` is the canonical integer atom) -/
def Spend.item (s : Spend) : Sexp :=
  .pair (.atom s.parent) (.pair s.puzzle (.pair (.atom (canonNat s.amount)) (.pair s.solution Sexp.nil)))

structure SBundle where
  spends : List Spend
  sigTag : Nat            -- the bundle's aggregated signature (formal generator)
  deriving Repr, DecidableEq

/-- one `add_spend_bundles` call -/
structure Add where
  bundles : List SBundle
  cost : Nat                     -- declared cost (a u64)
  bad : Bool := false            -- some puzzle / solution does not deserialize (`?` propagates an Err)
  sizeAfter : Nat := 0           -- compressed builder: `ser.size()` after `ser.add` (oracle)
  sizeRestored : Nat := 0        -- compressed builder: `ser.size()` after `ser.restore` (oracle)
  deriving Repr

/-- the items of a batch in the order the loop conses them: the LAST spend ends up first -/
def Add.items (op : Add) : List Sexp :=
  ((op.bundles.flatMap (·.spends)).map Spend.item).reverse

def Add.tags (op : Add) : List Nat := op.bundles.map (·.sigTag)

inductive Res where
  | ok (added done : Bool)
  | err
  deriving Repr, DecidableEq

/-- `result(num_skipped)` -/
def skipResult (numSkipped : Nat) : Bool := numSkipped > maxSkipped

/-- the generator both builders emit: `(q . (spend_list . nil))` -/
def generator (items : List Sexp) : Sexp :=
  .pair (.atom [1]) (.pair (Sexp.ofList items) Sexp.nil)

/-! ## the interned builder -/

structure ISt where
  spends : List Sexp := []      -- the spend list, newest first
  sig : List Nat := []
  blockCost : Nat := quoteCost
  byteCost : Nat := 0
  numSkipped : Nat := 0
  cpb : Nat
  maxCost : Nat
  deriving Repr

def ISt.init (cpb maxCost : Nat) : ISt := { cpb := cpb, maxCost := maxCost }

/-- `spend_vbytes`: the spend interned on its own plus the linking cons cell -/
def spendVbytes (item : Sexp) : Nat := internedVbytes item + costCons

/-- the `new_byte_cost` accumulation of the loop -/
def newByteCost (cpb : Nat) (items : List Sexp) : Nat :=
  items.foldl (fun acc it => wadd acc (wmul (spendVbytes it) cpb)) 0

def ISt.wrapperCost (s : ISt) : Nat := wmul wrapperVbytes s.cpb

/-- `cost()` -/
def ISt.cost (s : ISt) : Nat := wadd (wadd s.byteCost (wmul wrapperVbytes s.cpb)) s.blockCost

/-- `InternedBlockBuilder::add_spend_bundles` -/
def ISt.step (s : ISt) (op : Add) : ISt × Res :=
  let wrapper := s.wrapperCost
  -- (the first guard does NOT count a skipped item in this builder)
  if wadd (wadd (wadd s.byteCost wrapper) s.blockCost) minCostThreshold > s.maxCost then (s, .ok false true)
  else if wadd (wadd (wadd s.byteCost wrapper) s.blockCost) op.cost > s.maxCost then
    ({ s with numSkipped := s.numSkipped + 1 }, .ok false (skipResult (s.numSkipped + 1)))
  else if op.bad then (s, .err)
  else
    -- the loop conses in order, so the batch's items arrive reversed; `new_byte_cost` sums in loop order
    let newTotal := wadd s.byteCost (newByteCost s.cpb op.items.reverse)
    if wadd (wadd (wadd newTotal wrapper) s.blockCost) op.cost > s.maxCost then
      ({ s with numSkipped := s.numSkipped + 1 }, .ok false (skipResult (s.numSkipped + 1)))
    else
      let s' := { s with byteCost := newTotal, spends := op.items ++ s.spends,
                         blockCost := wadd s.blockCost op.cost, sig := s.sig ++ op.tags }
      (s', .ok true (decide (wadd (wadd (wadd s'.byteCost wrapper) s'.blockCost) minCostThreshold > s.maxCost)))

/-- what `finalize` returns (generator tree, signature, cost); `none` = the `assert!` fires (panic) -/
def ISt.finalize (s : ISt) : Option (Sexp × List Nat × Nat) :=
  let root := generator s.spends
  let total := wadd (wmul (internedVbytes root) s.cpb) s.blockCost
  if total ≤ s.maxCost then some (root, s.sig, total) else none

/-- the exact cost `finalize` computes -/
def ISt.finalCost (s : ISt) : Nat := wadd (wmul (internedVbytes (generator s.spends)) s.cpb) s.blockCost

/-! ## the compressed builder -/

structure CSt where
  spends : List Sexp := []      -- the spend list in generator order: oldest batch first
  sig : List Nat := []
  blockCost : Nat := quoteCost
  byteCost : Nat := 0           -- NB: starts at 0 although the serializer already holds `ff 01 ff`
  numSkipped : Nat := 0
  size : Nat := 3               -- `ser.size()`: after `new()` the serializer has written `ff 01 ff`
  cpb : Nat
  maxCost : Nat
  deriving Repr

def CSt.init (cpb maxCost : Nat) : CSt := { cpb := cpb, maxCost := maxCost }

/-- `cost()` -/
def CSt.cost (s : CSt) : Nat := wadd s.byteCost s.blockCost

/-- `(ser.size() + 2) * cost_per_byte` -/
def byteCostOf (size cpb : Nat) : Nat := wmul (wadd size 2) cpb

/-- `BlockBuilder::add_spend_bundles`; the serializer's `done` is false for every tree that ends in
the sentinel (every tree this function feeds it) -/
def CSt.step (s : CSt) (op : Add) : CSt × Res :=
  if wadd (wadd s.byteCost s.blockCost) minCostThreshold > s.maxCost then
    ({ s with numSkipped := s.numSkipped + 1 }, .ok false true)
  else if wadd (wadd s.byteCost s.blockCost) op.cost > s.maxCost then
    ({ s with numSkipped := s.numSkipped + 1 }, .ok false (skipResult (s.numSkipped + 1)))
  else if op.bad then (s, .err)
  else
    let byte' := byteCostOf op.sizeAfter s.cpb
    if wadd (wadd byte' s.blockCost) op.cost > s.maxCost then
      ({ s with size := op.sizeRestored, byteCost := byteCostOf op.sizeRestored s.cpb, numSkipped := s.numSkipped + 1 },
       .ok false (skipResult (s.numSkipped + 1)))
    else
      -- the batch's tree replaces the sentinel, which sits at the END of what was serialized so far:
      -- batches appear oldest first (each batch internally reversed, as in the interned builder)
      let s' := { s with size := op.sizeAfter, byteCost := byte', spends := s.spends ++ op.items,
                         blockCost := wadd s.blockCost op.cost, sig := s.sig ++ op.tags }
      (s', .ok true (decide (wadd (wadd s'.byteCost s'.blockCost) minCostThreshold > s.maxCost)))

/-- `finalize`; `finalSize` is the length of the bytes `into_inner` returns (oracle) -/
def CSt.finalize (s : CSt) (finalSize : Nat) : Option (Sexp × List Nat × Nat) :=
  let total := wadd s.blockCost (wmul finalSize s.cpb)
  if total ≤ s.maxCost then some (generator s.spends, s.sig, total) else none

/-- the assumed contract of clvmr's incremental `Serializer`, per add and for finalize:
`restore` undoes `add` (the size returns to what it was), `add` never shrinks the output, and closing
the two open lists costs at most two more bytes.  (That the final bytes decode, back-references
resolved, to the tree fed in is the fourth clause; it is monitored per case by decoding the bytes.) -/
structure SerContract (s : CSt) (op : Add) : Prop where
  restore_undoes : op.sizeRestored = s.size
  size_monotone : s.size ≤ op.sizeAfter

def FinContract (s : CSt) (finalSize : Nat) : Prop := finalSize ≤ s.size + 2

/-! ## histories -/

def ISt.run (s : ISt) (ops : List Add) : ISt := ops.foldl (fun s op => (s.step op).1) s

def CSt.run (s : CSt) (ops : List Add) : CSt := ops.foldl (fun s op => (s.step op).1) s

/-- interpretation of a formal signature in any structure with a binary operation and a unit -/
structure Mon (M : Type) where
  one : M
  mul : M → M → M
  mul_assoc : ∀ a b c, mul (mul a b) c = mul a (mul b c)
  one_mul : ∀ a, mul one a = a
  mul_one : ∀ a, mul a one = a

def Mon.eval {M : Type} (m : Mon M) (f : Nat → M) (l : List Nat) : M := l.foldr (fun t acc => m.mul (f t) acc) m.one

end ChiaModel.Bld
