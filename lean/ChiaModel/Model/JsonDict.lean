import ChiaModel.Model.Streamable
/-!
# JSON-dict representation of the Python-exported streamable classes (C20): descriptor-indexed model

Mirrors `chia-traits/src/to_json_dict.rs`, `from_json_dict.rs` (primitives, `Option`, `Vec`, 2- and 3-tuples,
arrays), the `PyJsonDict` derive of `chia_py_streamable_macro` (named struct = dict by field name, upper-cased
under `#[py_uppercase]`; single-field tuple struct = transparent; fieldless enum = its `u8` discriminant and the
streamable one-byte parser), the hand-written hex conversions of `chia-protocol/src/bytes.rs` (`Bytes`,
`BytesImpl<N>`), `program.rs` (`Program`) and `chia-bls/src/parse_hex.rs` (`PublicKey`, `Signature`, `GTElement`,
`SecretKey`).

`J` is what `json.loads` can return / `json.dumps` can print.  A Python `str` is carried as its UTF-8 bytes
(`Bytes`): this is what Rust sees after `extract::<String>()`, and `starts_with("0x")`, `&s[2..]` and the `hex`
crate all work on those bytes.

The values are the untyped trees `V` of `Model/Streamable.lean`, checked against the same descriptors `Ty`; the
descriptors of the exported classes are the JSON views the translator renders into `Gen/JsonDict.lean` (same wire
shape as `Gen/Streamable.lean`; the name list of a struct holds its JSON dict keys, see "by descriptor" below).

Three descriptor forms are not JSON shapes of their own but groups of fields of the enclosing struct
(the JSON derive works on the *declared* fields, the wire codec of those structs is hand written):
* `.optpair t u`: the two declared fields `a : Option<T>`, `b : Option<U>` (two keys);
* `.genTail _`: the four fields `transactions_generator : Option<Program>`, `transactions_generator_ref_list : Vec<u32>`,
  `transactions_generator_buffer : Option<Vec<u8>>` (a JSON list of integers, not hex), `version : u8`;
* `.proofOfSpace` is a dict of its ten declared fields.

**Assumption `PyExtract`** (pyo3, outside /repo; compared on boundary values by the correspondence):
`extract::<uN/iN>()` accepts exactly Python `int`s inside the range of the width and `bool`s (`bool` is a subclass
of `int`: `True` = 1), and raises otherwise (float, str, None, out of range); `extract::<bool>()` accepts exactly
`bool`; `extract::<String>()` exactly `str`; `extract::<Vec<u8>>()` exactly a `list` of such `u8`s (never a `str`).
In the model this is `pyIndex` + the explicit range checks.

No Mathlib: this file is linked into the compiled driver.
-/
namespace ChiaModel.JsonDict
open ChiaModel ChiaModel.Streamable

/-- JSON values as Python sees them after `json.loads` -/
inductive J where
  | null
  | bool (b : Bool)
  | int (i : Int)
  /-- any number `json.loads` turns into a `float` (kept as its source text); no conversion accepts it -/
  | float (text : String)
  /-- a `str`, as its UTF-8 bytes -/
  | str (utf8 : Bytes)
  | list (l : List J)
  /-- a `dict` in insertion order (keys are `str`; the derive only ever uses ASCII field names) -/
  | dict (kvs : List (String × J))
  deriving Repr

abbrev ToJ := V → Option J
abbrev FromJ := J → Except String V

/-! ## strings, hex -/

def strBytes (s : String) : Bytes := s.toUTF8.toList.map (·.toNat)

/-- ASCII code of the lower-case hex digit -/
def hexDigitB (n : Nat) : Nat := if n < 10 then 48 + n else 87 + n

/-- `hex::encode` / `Display for Bytes`: two lower-case digits per byte -/
def hexB : Bytes → Bytes
  | [] => []
  | x :: r => hexDigitB (x / 16 % 16) :: hexDigitB (x % 16) :: hexB r

/-- value of a hex digit given by its byte (either case), as the `hex` crate's `val` -/
def hexValB (c : Nat) : Option Nat :=
  if 48 ≤ c ∧ c ≤ 57 then some (c - 48)
  else if 97 ≤ c ∧ c ≤ 102 then some (c - 87)
  else if 65 ≤ c ∧ c ≤ 70 then some (c - 55)
  else none

/-- `hex::decode` / `Vec::from_hex` on the UTF-8 bytes of the string: `none` for an odd number of bytes
(`OddLength`) or a byte that is not a hex digit (`InvalidHexCharacter`) -/
def unhexB : Bytes → Option Bytes
  | [] => some []
  | [_] => none
  | a :: b :: rest =>
    match hexValB a, hexValB b, unhexB rest with
    | some x, some y, some r => some ((x * 16 + y) :: r)
    | _, _, _ => none

/-- `"0x"` -/
def pfx0x : Bytes := [48, 120]

/-- `s.strip_prefix("0x")` -/
def strip0x : Bytes → Option Bytes
  | 48 :: 120 :: rest => some rest
  | _ => none

/-- what `__index__` yields (assumption `PyExtract`): `int`, and `bool` as 0 / 1 -/
def pyIndex : J → Option Int
  | .int i => some i
  | .bool b => some (if b then 1 else 0)
  | _ => none

/-! ## leaves: to JSON -/

def toUint : ToJ
  | .n x => some (.int x)
  | _ => none
def toSint : ToJ
  | .i x => some (.int x)
  | _ => none
def toBool : ToJ
  | .b x => some (.bool x)
  | _ => none
/-- `String` -/
def toStr : ToJ
  | .bytes c => some (.str c)
  | _ => none
/-- `Bytes` (and `Program`, which delegates to it): `""` for the empty string, else `0x` + lower-case hex -/
def toBytesJ : ToJ
  | .bytes c => some (.str (if c.isEmpty then [] else pfx0x ++ hexB c))
  | _ => none
/-- `BytesImpl<N>` and the BLS elements: always `0x` + lower-case hex -/
def toHexJ : ToJ
  | .bytes c => some (.str (pfx0x ++ hexB c))
  | _ => none

/-! ## leaves: from JSON -/

def fromUint (n : Nat) : FromJ := fun j =>
  match pyIndex j with
  | some i => if 0 ≤ i ∧ i < ((256 ^ n : Nat) : Int) then .ok (.n i.toNat) else .error "OverflowError"
  | none => .error "TypeError: int expected"

def fromSint (n : Nat) : FromJ := fun j =>
  match pyIndex j with
  | some i => if sintOk n i then .ok (.i i) else .error "OverflowError"
  | none => .error "TypeError: int expected"

def fromBool : FromJ
  | .bool b => .ok (.b b)
  | _ => .error "TypeError: bool expected"

def fromStr : FromJ
  | .str s => .ok (.bytes s)
  | _ => .error "TypeError: str expected"

/-- `Bytes::from_json_dict`: `""` is the empty byte string; otherwise the `0x` prefix is mandatory; any hex case -/
def hexOfBytesJ : J → Except String Bytes
  | .str s =>
    if s.isEmpty then .ok []
    else match strip0x s with
      | none => .error "bytes object is expected to start with 0x"
      | some h => match unhexB h with
        | some c => .ok c
        | none => .error "invalid hex"
  | _ => .error "TypeError: str expected"

def fromBytesJ : FromJ := fun j =>
  match hexOfBytesJ j with
  | .ok c => .ok (.bytes c)
  | .error e => .error e

/-- `BytesImpl<N>::from_json_dict`: mandatory `0x`, hex, exactly `n` bytes -/
def fromBytesN (n : Nat) : FromJ
  | .str s =>
    match strip0x s with
    | none => .error "bytes object is expected to start with 0x"
    | some h => match unhexB h with
      | some c => if c.length = n then .ok (.bytes c) else .error "invalid length"
      | none => .error "invalid hex"
  | _ => .error "TypeError: str expected"

/-- `Program::from_json_dict`: the `Bytes` conversion, then the validating scan must cover exactly the whole string -/
def fromProgram (O : Oracles) : FromJ := fun j =>
  match hexOfBytesJ j with
  | .ok c => if O.serLen false c == some c.length then .ok (.bytes c) else .error "invalid CLVM serialization"
  | .error e => .error e

/-- `extract::<Vec<u8>>()` of a list -/
def u8List : List J → Option Bytes
  | [] => some []
  | j :: r =>
    match pyIndex j, u8List r with
    | some i, some c => if 0 ≤ i ∧ i < 256 then some (i.toNat :: c) else none
    | _, _ => none

/-- `chia_bls::parse_hex::parse_hex_string(o, n, _)`: a `str` with an OPTIONAL `0x` prefix holding hex of exactly
`n` bytes, or a list of `n` integers 0..255 -/
def parseHexString (n : Nat) : J → Except String Bytes
  | .str s =>
    let h := match strip0x s with
      | some r => r
      | none => s
    match unhexB h with
    | some c => if c.length = n then .ok c else .error "invalid length"
    | none => .error "invalid hex"
  | .list l =>
    match u8List l with
    | some c => if c.length = n then .ok c else .error "invalid length"
    | none => .error "invalid input type"
  | _ => .error "invalid input type"

/-- a BLS element: `parse_hex_string`, then the element's own `from_bytes` validation -/
def fromBls (n : Nat) (valid : Bytes → Bool) : FromJ := fun j =>
  match parseHexString n j with
  | .ok c => if valid c then .ok (.bytes c) else .error "invalid element"
  | .error e => .error e

/-! ## combinators -/

def toOption (f : ToJ) : ToJ
  | .none => some .null
  | .some v => f v
  | _ => none

def fromOption (f : FromJ) : FromJ
  | .null => .ok .none
  | j => match f j with
    | .ok v => .ok (.some v)
    | .error e => .error e

def allToJ (f : ToJ) : List V → Option (List J)
  | [] => some []
  | v :: vs => match f v, allToJ f vs with
    | some j, some js => some (j :: js)
    | _, _ => none

def allFromJ (f : FromJ) : List J → Except String (List V)
  | [] => .ok []
  | j :: js => match f j with
    | .error e => .error e
    | .ok v => match allFromJ f js with
      | .error e => .error e
      | .ok vs => .ok (v :: vs)

/-- number of continuation bytes announced by a lead byte -/
def utf8Need (x : Nat) : Nat := if x < 0xC0 then 0 else if x < 0xE0 then 1 else if x < 0xF0 then 2 else 3

def utf8Go : Bytes → Bytes → Nat → List Bytes
  | [], cur, _ => if cur.isEmpty then [] else [cur.reverse]
  | x :: r, cur, need =>
    if need = 0 then (if cur.isEmpty then [] else [cur.reverse]) ++ utf8Go r [x] (utf8Need x)
    else utf8Go r (x :: cur) (need - 1)

/-- the code points of a `str`, each as its own UTF-8 sequence (iteration / integer indexing of a Python `str`);
malformed UTF-8 cannot occur in a `str` -/
def utf8Split (b : Bytes) : List Bytes := utf8Go b [] 0

/-- `o.try_iter()`: lists, and also `str` (its characters) and `dict` (its keys); nothing else is iterable -/
def iterJ : J → Option (List J)
  | .list l => some l
  | .str s => some ((utf8Split s).map .str)
  | .dict kvs => some (kvs.map fun kv => .str (strBytes kv.1))
  | _ => none

/-- `o.len()? == n` followed by `o.get_item(0..n)`: a list or a `str` of exactly `n` items (an `n`-key dict passes
the length test but has no integer keys) -/
def fixedSeq (n : Nat) : J → Except String (List J)
  | .list l => if l.length = n then .ok l else .error "expected n elements"
  | .str s => if (utf8Split s).length = n then .ok ((utf8Split s).map .str) else .error "expected n elements"
  | .dict kvs => if kvs.length = n then (if n = 0 then .ok [] else .error "KeyError") else .error "expected n elements"
  | _ => .error "TypeError: object has no len()"

def toVec (f : ToJ) : ToJ
  | .list l => (allToJ f l).map .list
  | _ => none

/-- `Vec<T>::from_json_dict`: any iterable -/
def fromVec (f : FromJ) : FromJ := fun j =>
  match iterJ j with
  | none => .error "TypeError: object is not iterable"
  | some l => match allFromJ f l with
    | .ok vs => .ok (.list vs)
    | .error e => .error e

def fromArray (n : Nat) (f : FromJ) : FromJ := fun j =>
  match fixedSeq n j with
  | .error e => .error e
  | .ok l => match allFromJ f l with
    | .ok vs => .ok (.list vs)
    | .error e => .error e

def toEnum : ToJ
  | .n x => some (.int x)
  | _ => none

/-- derived enum: `u8`, then `Streamable::parse` of that one byte -/
def fromEnum (vals : List Nat) : FromJ := fun j =>
  match fromUint 1 j with
  | .ok (.n x) => if vals.contains x then .ok (.n x) else .error "invalid enum value"
  | .ok _ => .error "unreachable"
  | .error e => .error e

/-- `o.get_item("key")`: only a dict can be indexed by a `str`; a missing key is `KeyError` -/
def getItem (o : J) (key : String) : Except String J :=
  match o with
  | .dict kvs => match kvs.lookup key with
    | some j => .ok j
    | none => .error "KeyError"
  | _ => .error "TypeError: not subscriptable by str"

/-- `Option<Vec<u8>>` of the generator tail (`transactions_generator_buffer`): a list of integers -/
def toU8Vec : ToJ
  | .bytes c => some (.list (c.map fun x => J.int (Int.ofNat x)))
  | _ => none

def nOf : V → Nat
  | .n x => x
  | _ => 0

def fromU8Vec : FromJ := fun j =>
  match iterJ j with
  | none => .error "TypeError: object is not iterable"
  | some l => match allFromJ (fromUint 1) l with
    | .error e => .error e
    | .ok vs => .ok (.bytes (vs.map nOf))

def posKeys : List String :=
  ["challenge", "pool_public_key", "pool_contract_puzzle_hash", "plot_public_key", "version", "plot_index",
   "meta_group", "strength", "size", "proof"]

def g1Valid (O : Oracles) (c : Bytes) : Bool := O.g1 c == 2
def g2Valid (O : Oracles) (c : Bytes) : Bool := O.g2 c == 2

/-- fields given as (key, conversion) pairs: one `set_item` each, in order -/
def fieldsToJ : List (String × ToJ) → List V → Option (List (String × J))
  | [], [] => some []
  | (k, f) :: fs, v :: vs => match f v, fieldsToJ fs vs with
    | some j, some r => some ((k, j) :: r)
    | _, _ => none
  | _, _ => none

/-- one `get_item` + conversion per field, in order, on the same object -/
def fieldsFromJ : List (String × FromJ) → J → Except String (List V)
  | [], _ => .ok []
  | (k, f) :: fs, o => match getItem o k with
    | .error e => .error e
    | .ok j => match f j with
      | .error e => .error e
      | .ok v => match fieldsFromJ fs o with
        | .error e => .error e
        | .ok vs => .ok (v :: vs)

def posToFields : List (String × ToJ) :=
  posKeys.zip [toHexJ, toOption toHexJ, toOption toHexJ, toHexJ, toUint, toUint, toUint, toUint, toUint, toBytesJ]

def posFromFields (O : Oracles) : List (String × FromJ) :=
  posKeys.zip [fromBytesN 32, fromOption (fromBls 48 (g1Valid O)), fromOption (fromBytesN 32), fromBls 48 (g1Valid O),
    fromUint 1, fromUint 2, fromUint 1, fromUint 1, fromUint 1, fromBytesJ]

/-- `ProofOfSpace` (derived on the ten declared fields; no cross-field validation) -/
def toPos : ToJ
  | .tup vs => (fieldsToJ posToFields vs).map .dict
  | _ => none

def fromPos (O : Oracles) : FromJ := fun j =>
  match fieldsFromJ (posFromFields O) j with
  | .ok vs => .ok (.tup vs)
  | .error e => .error e

/-- the four declared fields behind the generator tail, under the keys `k1 … k4` -/
def genTailToFields (k1 k2 k3 k4 : String) : List (String × ToJ) :=
  [(k1, toOption toBytesJ), (k2, toVec toUint), (k3, toOption toU8Vec), (k4, toUint)]

def genTailFromFields (O : Oracles) (k1 k2 k3 k4 : String) : List (String × FromJ) :=
  [(k1, fromOption (fromProgram O)), (k2, fromVec (fromUint 4)), (k3, fromOption fromU8Vec), (k4, fromUint 1)]

/-! ## by descriptor

The descriptors used here are the **JSON views** of `Gen/JsonDict.lean`: the same descriptors as `Gen/Streamable.lean`
(identical wire shape — names play no role in the wire codec), where the name list of a struct holds its JSON dict
keys, one per declared field, in declaration order and with the renaming of `#[py_uppercase]` applied:
one key per ordinary field, two for a `.optpair`, four for a `.genTail`.  A struct with fields but an EMPTY key list
is a single-field tuple struct, which the derive makes transparent. -/

mutual
/-- `to_json_dict`; `none` = the value is not of the type, or the type has no JSON conversion (`()`, tuples of
other than 2 or 3 elements, the field groups outside a struct) -/
def toJson : Ty → ToJ
  | .uint _ => toUint
  | .sint _ => toSint
  | .bool => toBool
  | .unit => fun _ => none
  | .bytes => toBytesJ
  | .bytesN _ => toHexJ
  | .str => toStr
  | .option t => toOption (toJson t)
  | .vec t => toVec (toJson t)
  | .tuple ts => fun v => match v with
    | .tup vs => if ts.length = 2 ∨ ts.length = 3 then (toJsonL ts vs).map .list else none
    | _ => none
  | .array _ t => toVec (toJson t)
  | .struct _ keys ts => fun v => match v with
    | .tup vs =>
      if keys.isEmpty && !ts.isEmpty then toJsonNT ts vs
      else (toJsonF keys ts vs).map .dict
    | _ => none
  | .enum8 _ _ => toEnum
  | .program => toBytesJ
  | .g1 => toHexJ
  | .g2 => toHexJ
  | .gt => toHexJ
  | .secretKey => toHexJ
  | .optpair _ _ => fun _ => none
  | .genTail _ => fun _ => none
  | .proofOfSpace => toPos
/-- the elements of a tuple -/
def toJsonL : List Ty → List V → Option (List J)
  | [], [] => some []
  | t :: ts, v :: vs => match toJson t v, toJsonL ts vs with
    | some j, some js => some (j :: js)
    | _, _ => none
  | _, _ => none
/-- the single field of a transparent tuple struct -/
def toJsonNT : List Ty → List V → Option J
  | [t], [v] => toJson t v
  | _, _ => none
/-- the fields of a named struct, in declaration order, under their keys -/
def toJsonF : List String → List Ty → List V → Option (List (String × J))
  | [], [], [] => some []
  | k1 :: k2 :: keys, .optpair a b :: ts, v :: vs =>
    match toJsonF keys ts vs with
    | none => none
    | some rest =>
      match v with
      | .tup [x, y] =>
        match toOption (toJson a) x, toOption (toJson b) y with
        | some jx, some jy => some ((k1, jx) :: (k2, jy) :: rest)
        | _, _ => none
      | _ => none
  | k1 :: k2 :: k3 :: k4 :: keys, .genTail _ :: ts, v :: vs =>
    match toJsonF keys ts vs with
    | none => none
    | some rest =>
      match v with
      | .tup gs => match fieldsToJ (genTailToFields k1 k2 k3 k4) gs with
        | some kvs => some (kvs ++ rest)
        | none => none
      | _ => none
  | k :: keys, t :: ts, v :: vs =>
    match toJsonF keys ts vs with
    | none => none
    | some rest =>
      match toJson t v with
      | some j => some ((k, j) :: rest)
      | none => none
  | _, _, _ => none
end

mutual
/-- `from_json_dict` -/
def fromJson (O : Oracles) : Ty → FromJ
  | .uint n => fromUint n
  | .sint n => fromSint n
  | .bool => fromBool
  | .unit => fun _ => .error "no conversion"
  | .bytes => fromBytesJ
  | .bytesN n => fromBytesN n
  | .str => fromStr
  | .option t => fromOption (fromJson O t)
  | .vec t => fromVec (fromJson O t)
  | .tuple ts => fun j =>
    if ts.length = 2 ∨ ts.length = 3 then
      match fixedSeq ts.length j with
      | .error e => .error e
      | .ok l => match fromJsonL O ts l with
        | .ok vs => .ok (.tup vs)
        | .error e => .error e
    else .error "no conversion"
  | .array n t => fromArray n (fromJson O t)
  | .struct _ keys ts => fun j =>
    if keys.isEmpty && !ts.isEmpty then
      match fromJsonNT O ts j with
      | .ok v => .ok (.tup [v])
      | .error e => .error e
    else match fromJsonF O keys ts j with
      | .ok vs => .ok (.tup vs)
      | .error e => .error e
  | .enum8 _ vals => fromEnum vals
  | .program => fromProgram O
  | .g1 => fromBls 48 (g1Valid O)
  | .g2 => fromBls 96 (g2Valid O)
  | .gt => fromBls 576 fun _ => true
  | .secretKey => fromBls 32 O.sk
  | .optpair _ _ => fun _ => .error "no conversion"
  | .genTail _ => fun _ => .error "no conversion"
  | .proofOfSpace => fromPos O
/-- the elements of a tuple, position by position -/
def fromJsonL (O : Oracles) : List Ty → List J → Except String (List V)
  | [], [] => .ok []
  | t :: ts, j :: js => match fromJson O t j with
    | .error e => .error e
    | .ok v => match fromJsonL O ts js with
      | .error e => .error e
      | .ok vs => .ok (v :: vs)
  | _, _ => .error "arity"
def fromJsonNT (O : Oracles) : List Ty → FromJ
  | [t] => fromJson O t
  | _ => fun _ => .error "no conversion"
/-- the fields of a named struct: one `get_item` per declared field on the same object, in declaration order;
keys that are not fields are never looked at -/
def fromJsonF (O : Oracles) : List String → List Ty → J → Except String (List V)
  | [], [], _ => .ok []
  | k1 :: k2 :: keys, .optpair a b :: ts, o =>
    match getItem o k1 with
    | .error e => .error e
    | .ok jx => match fromOption (fromJson O a) jx with
      | .error e => .error e
      | .ok x => match getItem o k2 with
        | .error e => .error e
        | .ok jy => match fromOption (fromJson O b) jy with
          | .error e => .error e
          | .ok y => match fromJsonF O keys ts o with
            | .error e => .error e
            | .ok vs => .ok (.tup [x, y] :: vs)
  | k1 :: k2 :: k3 :: k4 :: keys, .genTail _ :: ts, o =>
    match fieldsFromJ (genTailFromFields O k1 k2 k3 k4) o with
    | .error e => .error e
    | .ok gs => match fromJsonF O keys ts o with
      | .error e => .error e
      | .ok vs => .ok (.tup gs :: vs)
  | k :: keys, t :: ts, o =>
    match getItem o k with
    | .error e => .error e
    | .ok j => match fromJson O t j with
      | .error e => .error e
      | .ok v => match fromJsonF O keys ts o with
        | .error e => .error e
        | .ok vs => .ok (v :: vs)
  | _, _, _ => .error "descriptor"
end

/-! ## static conditions on descriptors -/

mutual
/-- the JSON of a value of this type can be `null` -/
def nullable : Ty → Bool
  | .option _ => true
  | .struct _ keys ts => keys.isEmpty && nullableNT ts
  | _ => false
def nullableNT : List Ty → Bool
  | [t] => nullable t
  | _ => false
end

mutual
/-- the descriptors for which the JSON round trip holds: exactly what the proof of `C20.roundtrip` needs.
* an `Option` never wraps a type whose own JSON can be `null` (`Option<Option<T>>`, `Option` of a transparent
  struct around an `Option`): `Some(None)` and `None` would both be `null`;
* tuples have 2 or 3 elements, `()` and the field groups do not occur on their own;
* a named struct has exactly the keys its fields consume, pairwise distinct;
* enum discriminants are `u8`. -/
def WFjson : Ty → Bool
  | .unit => false
  | .option t => !nullable t && WFjson t
  | .vec t => WFjson t
  | .tuple ts => (ts.length == 2 || ts.length == 3) && WFjsonL ts
  | .array _ t => WFjson t
  | .struct _ keys ts =>
    if keys.isEmpty && !ts.isEmpty then WFjsonNT ts
    else decide keys.Nodup && WFjsonF keys ts
  | .enum8 _ vals => vals.all (· < 256)
  | .optpair _ _ => false
  | .genTail _ => false
  | _ => true
def WFjsonL : List Ty → Bool
  | [] => true
  | t :: ts => WFjson t && WFjsonL ts
def WFjsonNT : List Ty → Bool
  | [t] => WFjson t
  | _ => false
/-- fields of a named struct against its keys: the field groups are allowed here -/
def WFjsonF : List String → List Ty → Bool
  | [], [] => true
  | _ :: _ :: keys, .optpair a b :: ts => !nullable a && WFjson a && !nullable b && WFjson b && WFjsonF keys ts
  | _ :: _ :: _ :: _ :: keys, .genTail _ :: ts => WFjsonF keys ts
  | _ :: keys, t :: ts => WFjson t && WFjsonF keys ts
  | _, _ => false
end

mutual
/-- every byte string inside the value consists of bytes (`< 256`) -/
def bytesOK : V → Bool
  | .bytes c => c.all (· < 256)
  | .some v => bytesOK v
  | .list l => bytesOKL l
  | .tup l => bytesOKL l
  | _ => true
def bytesOKL : List V → Bool
  | [] => true
  | v :: vs => bytesOK v && bytesOKL vs
end

mutual
/-- the two descriptors have the same wire shape (they differ at most in the struct / enum names and name lists, which
play no role in `encode` / `decode` / `WF`): ties a JSON view to the descriptor of `Gen/Streamable.lean` -/
def sameWire : Ty → Ty → Bool
  | .uint a, .uint b => a == b
  | .sint a, .sint b => a == b
  | .bool, .bool => true
  | .unit, .unit => true
  | .bytes, .bytes => true
  | .bytesN a, .bytesN b => a == b
  | .str, .str => true
  | .option t, .option u => sameWire t u
  | .vec t, .vec u => sameWire t u
  | .tuple ts, .tuple us => sameWireL ts us
  | .array n t, .array m u => n == m && sameWire t u
  | .struct _ _ ts, .struct _ _ us => sameWireL ts us
  | .enum8 _ a, .enum8 _ b => a == b
  | .program, .program => true
  | .g1, .g1 => true
  | .g2, .g2 => true
  | .gt, .gt => true
  | .secretKey, .secretKey => true
  | .optpair t u, .optpair t' u' => sameWire t t' && sameWire u u'
  | .genTail a, .genTail b => a == b
  | .proofOfSpace, .proofOfSpace => true
  | _, _ => false
def sameWireL : List Ty → List Ty → Bool
  | [], [] => true
  | t :: ts, u :: us => sameWire t u && sameWireL ts us
  | _, _ => false
end

/-! ## canonical text (`json.dumps(obj, sort_keys=True)`) -/

def digit4 (n : Nat) : List Char :=
  [hexDigit (n / 4096 % 16), hexDigit (n / 256 % 16), hexDigit (n / 16 % 16), hexDigit (n % 16)]

/-- `\uXXXX`, as a surrogate pair above the BMP (`ensure_ascii=True`) -/
def escapeCode (cp : Nat) : List Char :=
  if cp < 0x10000 then '\\' :: 'u' :: digit4 cp
  else
    let v := cp - 0x10000
    ('\\' :: 'u' :: digit4 (0xD800 + v / 1024)) ++ ('\\' :: 'u' :: digit4 (0xDC00 + v % 1024))

/-- code point of one UTF-8 sequence (as split by `utf8Split`) -/
def codePoint : Bytes → Nat
  | [a] => a
  | [a, b] => (a % 32) * 64 + b % 64
  | [a, b, c] => (a % 16) * 4096 + (b % 64) * 64 + c % 64
  | [a, b, c, d] => (a % 8) * 262144 + (b % 64) * 4096 + (c % 64) * 64 + d % 64
  | _ => 0xFFFD

/-- one character inside a JSON string literal as `json.dumps` prints it; `sp`: also escape the space (line protocol) -/
def escapeChar (sp : Bool) (cp : Nat) : List Char :=
  if cp = 34 then ['\\', '"']
  else if cp = 92 then ['\\', '\\']
  else if cp = 10 then ['\\', 'n']
  else if cp = 13 then ['\\', 'r']
  else if cp = 9 then ['\\', 't']
  else if cp = 8 then ['\\', 'b']
  else if cp = 12 then ['\\', 'f']
  else if cp < 32 ∨ cp ≥ 127 ∨ (sp ∧ cp = 32) then escapeCode cp
  else [Char.ofNat cp]

def renderStr (sp : Bool) (s : Bytes) : List Char :=
  '"' :: ((utf8Split s).flatMap fun c => escapeChar sp (codePoint c)) ++ ['"']

def insertKV (kv : String × List Char) : List (String × List Char) → List (String × List Char)
  | [] => [kv]
  | x :: xs => if kv.1 < x.1 then kv :: x :: xs else x :: insertKV kv xs

def sortKVs (l : List (String × List Char)) : List (String × List Char) :=
  l.foldr insertKV []

def joinWith (sep : List Char) : List (List Char) → List Char
  | [] => []
  | [x] => x
  | x :: xs => x ++ sep ++ joinWith sep xs

mutual
/-- `compact = false`: exactly `json.dumps(obj, sort_keys=True)`; `compact = true`: the space-free form used on the
case lines (`separators=(',', ':')` and every space inside a string written ` `) -/
def renderChars (compact : Bool) : J → List Char
  | .null => "null".toList
  | .bool b => (if b then "true" else "false").toList
  | .int i => (toString i).toList
  | .float t => t.toList
  | .str s => renderStr compact s
  | .list l => '[' :: joinWith (if compact then [','] else [',', ' ']) (renderList compact l) ++ [']']
  | .dict kvs =>
    '{' :: joinWith (if compact then [','] else [',', ' '])
      ((sortKVs (renderKVs compact kvs)).map fun kv =>
        renderStr compact (strBytes kv.1) ++ (if compact then [':'] else [':', ' ']) ++ kv.2) ++ ['}']
def renderList (compact : Bool) : List J → List (List Char)
  | [] => []
  | j :: js => renderChars compact j :: renderList compact js
def renderKVs (compact : Bool) : List (String × J) → List (String × List Char)
  | [] => []
  | (k, j) :: r => (k, renderChars compact j) :: renderKVs compact r
end

/-- `json.dumps(obj, sort_keys=True)` -/
def render (j : J) : String := String.ofList (renderChars false j)
/-- the space-free line form -/
def renderLine (j : J) : String := String.ofList (renderChars true j)

end ChiaModel.JsonDict
