import ChiaModel.Model.Generator
/-
Model of `get_coinspends_with_conditions_for_trusted_block` (chia-consensus/src/run_block_generator.rs):
the coin spends of `get_coinspends_for_trusted_block`, each with a listing `(opcode, atom arguments)` of the
conditions its puzzle returns.  Differences from the other helper that the model keeps:
  * a list element `extract_n::<3>` cannot take apart is an ERROR here (first loop uses `?`);
  * every puzzle is run (separately, each under MAX_BLOCK_COST_CLVM), and a failing run is an error;
  * the listing: opcode = `small_number` of the first item (conditions without one are skipped), up to six
    ATOM arguments (pairs are passed over), a condition with an atom of 1024 bytes or more among them is
    skipped, and past 1024 listed conditions only AGG_SIG_* and CREATE_COIN are still listed.
-/
namespace ChiaModel.Gn
open ChiaModel ChiaModel.Cond

/-- `Allocator::small_number` on a tree value -/
def smallNumber : Sexp → Option Nat
  | .pair _ _ => none
  | .atom b => fitsInSmallAtom b

/-- the `'inner` loop: collects atom arguments while fewer than six have been collected; `none` = the
condition is skipped (`continue 'outer`: an atom of 1024 bytes or more) -/
def collectArgs : Sexp → List Bytes → Option (List Bytes)
  | .pair v rest, acc =>
    if acc.length < 6 then
      match v with
      | .atom b => if b.length ≥ 1024 then none else collectArgs rest (acc ++ [b])
      | .pair _ _ => collectArgs rest acc
    else some acc
  | .atom _, acc => some acc

/-- `is_high_priority_condition` -/
def isHighPriority (op : Nat) : Bool :=
  op == Gen.opAggSigParent || op == Gen.opAggSigPuzzle || op == Gen.opAggSigAmount || op == Gen.opAggSigPuzzleAmount ||
  op == Gen.opAggSigParentAmount || op == Gen.opAggSigParentPuzzle || op == Gen.opAggSigUnsafe || op == Gen.opAggSigMe ||
  op == Gen.opCreateCoin

def maxConditionsPerSpend : Nat := 1024

/-- what one condition contributes, before the per-spend limit: `none` = skipped -/
def condEntry : Sexp → Option (Nat × List Bytes)
  | .pair opn args =>
    match smallNumber opn with
    | none => none
    | some op => (collectArgs args []).map (fun bs => (op, bs))
  | .atom _ => none

/-- the per-spend limit -/
def pushEntry (out : List (Nat × List Bytes)) (e : Nat × List Bytes) : List (Nat × List Bytes) :=
  if out.length ≥ maxConditionsPerSpend ∧ !isHighPriority e.1 then out else out ++ [e]

/-- the `'outer` loop over the puzzle's output -/
def listConds : Sexp → List (Nat × List Bytes) → List (Nat × List Bytes)
  | .pair cond rest, out =>
    match condEntry cond with
    | none => listConds rest out
    | some e => listConds rest (pushEntry out e)
  | .atom _, out => out

abbrev CondListing := List (Nat × List Bytes)

/-- the second loop; `puz i` is the unbounded run of the puzzle of the i-th list element -/
def withCondsLoop (fits : Sexp → Bool) (puz : Nat → RunRes) : Sexp → Nat → Option (List (CoinSpendM × CondListing))
  | .pair spend nxt, i =>
    match extract5 spend with
    | none => withCondsLoop fits puz nxt (i + 1)
    | some (parent, puzzle, amount, solution, _) =>
      match parent with
      | .pair _ _ => none
      | .atom pb =>
        if pb.length ≠ 32 then none else
        match parseAmount amount with
        | .error _ => none
        | .ok v =>
          let pz := programOrDefault fits puzzle
          let sl := programOrDefault fits solution
          let cs : CoinSpendM := { parent := pb, puzzleHash := Sexp.treeHash puzzle, amount := v, puzzle := pz, solution := sl,
                                   puzzleLen := serLen pz, solutionLen := serLen sl }
          match puz i with
          | none => none
          | some (c, out) =>
            if c > Gen.maxBlockCostClvm then none else
            match withCondsLoop fits puz nxt (i + 1) with
            | none => none
            | some l => some ((cs, listConds out []) :: l)
  | .atom _, _ => some []

/-- `get_coinspends_with_conditions_for_trusted_block`; `none` = `Err` -/
def getCoinspendsWithConds (fits : Sexp → Bool) (p : Params) (g : GenInput) (genRun : RunRes) (puz : Nat → RunRes) :
    Option (List (CoinSpendM × CondListing)) :=
  if simpleGen p.flags ∧ !g.startsQuote then none else
  if !generatorNodeOk p.flags g.prog then none else
  if simpleGen p.flags ∧ g.nrefs > 0 then none else
  match genRun with
  | none => none
  | some (c, out) =>
    if c > Gen.maxBlockCostClvm then none else
    match out with
    | .atom _ => none
    | .pair allSpends _ => if !allExtract3 allSpends then none else withCondsLoop fits puz allSpends 0

/-- every element of the list that is a spend tuple has a puzzle run that ends within MAX_BLOCK_COST_CLVM -/
def puzzleRunsOk (puz : Nat → RunRes) : Sexp → Nat → Bool
  | .pair spend nxt, i =>
    (match extract5 spend with
     | none => true
     | some _ => (match puz i with
        | none => false
        | some (c, _) => decide (c ≤ Gen.maxBlockCostClvm))) && puzzleRunsOk puz nxt (i + 1)
  | .atom _, _ => true

end ChiaModel.Gn
