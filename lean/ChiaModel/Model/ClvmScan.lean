import ChiaModel.Base.Bytes
/-!
# CLVM serialised-length scan (clvmr 0.17.7 `serde/tools.rs`)

Executable model of `serialized_length_from_bytes_trusted` (a counter of pending items; back-references
`0xfe` are skipped without being resolved) and `serialized_length_from_bytes` (an explicit operation stack
plus the *shape* of the value stack, so that every back-reference path is resolved with `traverse_path`
and a path that runs into an atom is rejected).  `Program::parse` uses the first when `TRUSTED`, the second
otherwise.  The driver instantiates `Oracles.serLen` with `clvmSerLen`; the harness compares it with the
real clvmr functions on every `Program` it generates or mutates (correspondence), and
`Props/C13.lean` proves `OracleContract` clauses for it where stated.

Not modelled: the allocator's pair-count limit (62.5 M pairs; needs an input of more than 62 MB).
No Mathlib: linked into the driver.
-/
namespace ChiaModel.ClvmScan

/-- `n ≤ b.length`, looking at no more than `n` elements -/
def lenGe : Bytes → Nat → Bool
  | _, 0 => true
  | [], _ + 1 => false
  | _ :: t, n + 1 => lenGe t n

/-- number of leading one bits of a byte -/
def leadingOnes (b : Nat) : Nat :=
  if b < 0x80 then 0 else if b < 0xC0 then 1 else if b < 0xE0 then 2 else if b < 0xF0 then 3
  else if b < 0xF8 then 4 else if b < 0xFC then 5 else if b < 0xFE then 6 else if b < 0xFF then 7 else 8

/-- `decode_size`: first byte `b0` (≥ 0x80) was read already; returns the atom size and the rest -/
def decodeSize (b0 : Nat) (rest : Bytes) : Option (Nat × Bytes) :=
  let k := leadingOnes b0
  if k ≥ 8 ∨ k = 0 then none
  else if !lenGe rest (k - 1) then none           -- read_exact
  else if k > 6 then none
  else
    let sz := beVal ((b0 % 2 ^ (8 - k)) :: rest.take (k - 1))
    if sz ≥ 0x400000000 then none else some (sz, rest.drop (k - 1))

/-- `f.seek(Current(size))` followed by the end-of-buffer check -/
def skip (sz : Nat) (b : Bytes) : Option Bytes :=
  if lenGe b sz then some (b.drop sz) else none

/-- `parse_path` = `parse_atom_ptr`: the bytes of the path atom and the rest -/
def parsePath (b : Bytes) : Option (Bytes × Bytes) :=
  match b with
  | [] => none
  | y :: r =>
    if y ≤ 0x7f then some ([y], r)
    else match decodeSize y r with
      | none => none
      | some (sz, r3) => if lenGe r3 sz then some (r3.take sz, r3.drop sz) else none

/-- what one loop iteration reads: a pair marker, an atom (header and body), or a back-reference with its path -/
inductive Item where
  | cons
  | atom
  | backref (path : Bytes)

/-- one item of the stream.  Both scans consume exactly these bytes: the trusted scan skips a back-reference path
with `decode_size` + `seek` + end-of-buffer check, which consumes what `parse_path` consumes. -/
def item (b : Bytes) : Option (Item × Bytes) :=
  match b with
  | [] => none
  | x :: r =>
    if x = 0xff then some (.cons, r)
    else if x = 0xfe then
      match parsePath r with
      | none => none
      | some (path, r3) => some (.backref path, r3)
    else if x = 0x80 ∨ x ≤ 0x7f then some (.atom, r)
    else
      match decodeSize x r with
      | none => none
      | some (sz, r3) => match skip sz r3 with
        | none => none
        | some r4 => some (.atom, r4)

/-- `serialized_length_from_bytes_trusted`: `ops` = number of items still expected; returns the unread rest -/
def scanT : Nat → Nat → Bytes → Option Bytes
  | _, 0, b => some b
  | 0, _ + 1, _ => none
  | fuel + 1, ops + 1, b =>
    match item b with
    | none => none
    | some (.cons, r) => scanT fuel (ops + 2) r
    | some (_, r) => scanT fuel ops r

/-- shape of the value stack kept by the validating scan (atoms carry no content there) -/
inductive Sh where
  | a
  | p (l r : Sh)

inductive POp where
  | sexp
  | cons

/-- `traverse_path` on the shape: `n` = the path as a number; 0 → nil; the top set bit is the terminator -/
def traverse : Nat → Nat → Sh → Option Sh
  | 0, _, _ => none
  | fuel + 1, n, s =>
    if n = 0 then some .a
    else if n = 1 then some s
    else match s with
      | .a => none
      | .p l r => traverse fuel (n / 2) (if n % 2 = 1 then r else l)

/-- `serialized_length_from_bytes` -/
def scanU : Nat → List POp → Sh → Bytes → Option (Sh × Bytes)
  | _, [], vals, b => some (vals, b)
  | 0, _ :: _, _, _ => none
  | fuel + 1, .sexp :: ops, vals, b =>
    match item b with
    | none => none
    | some (.cons, r) => scanU fuel (.sexp :: .sexp :: .cons :: ops) vals r
    | some (.atom, r) => scanU fuel ops (.p .a vals) r
    | some (.backref path, r) =>
      match traverse (8 * path.length + 2) (beVal path) vals with
      | none => none
      | some node => scanU fuel ops (.p node vals) r
  | fuel + 1, .cons :: ops, vals, b =>
    match vals with
    | .p v1 (.p v3 v4) => scanU fuel ops (.p (.p v3 v1) v4) b
    | _ => none

/-- `serialized_length_from_bytes_trusted` (`true`) / `serialized_length_from_bytes` (`false`) -/
def clvmSerLen (trusted : Bool) (b : Bytes) : Option Nat :=
  if trusted then
    (scanT (b.length + 1) 1 b).map fun r => b.length - r.length
  else
    match scanU (3 * b.length + 3) [.sexp] .a b with
    | some (.p _ _, r) => some (b.length - r.length)
    | _ => none

end ChiaModel.ClvmScan
