import ChiaModel.Lemmas.PermBundle
import ChiaModel.Lemmas.BundlePath
/-
C08 / C06: the order of the coin spends of a spend bundle does not matter to `run_spendbundle`.

`bundleLoop` (the spend loop of `run_spendbundle`) is `parse_spends`' spend loop with a puzzle run in front of
every spend: the run's cost is charged, added to the bundle's execution cost and recorded in the spend
record.  So the refinement of C01 carries over with a per-spend execution cost:
 * `XSpend`, `stepX`        a parsed spend with the cost of its puzzle run; one step of the summary fold
 * `bundleLoop_rules`       the loop accepts iff every puzzle run succeeds, every spend parses, the total
                            cost fits and the spends are accepted in order (`AcceptFromX`), result = the fold
 * `acceptFromX_iff`        … which is the order-free form (coin ids distinct, per-spend rules, total fee)
 * `runSpendbundle_rules`   the whole of `run_spendbundle` (byte-cost mode)
 * `runSpendbundle_reverse` reversing the bundle (puzzle runs re-indexed) changes neither the verdict nor
                            cost nor any aggregate; the spend records come out in reverse order
-/
set_option linter.unusedSimpArgs false
namespace ChiaModel.Gn
open ChiaModel ChiaModel.Cond ChiaModel.Rules

/-- a parsed spend together with the cost of its puzzle run -/
abbrev XSpend := Nat × PSpend

/-- add `e` to the bundle's execution cost -/
def addExec (e : Nat) (acc : Bundle × PState) : Bundle × PState :=
  ({ acc.1 with executionCost := acc.1.executionCost + e }, acc.2)

/-- one step of the summary fold of the bundle path: the puzzle run's cost is added to the execution cost and
recorded in the spend record -/
def stepX (env : Env) (acc : Bundle × PState) (x : XSpend) : Bundle × PState :=
  enterSpend env x.1 (addExec x.1 acc) x.2

theorem addExec_accEquiv {a a' : Bundle × PState} (h : AccEquiv a a') (e : Nat) : AccEquiv (addExec e a) (addExec e a') := by
  obtain ⟨h1, h2, h3, h4, h5, h6, h7, h8, h9, h10, h11, h12, h13, h14, h15, h16, h17, h18, h19, h20, h21, h22, h23⟩ := h
  exact ⟨h1, h2, h3, h4, h5, h6, h7, h8, congrArg (· + e) h9, h10, h11, h12, h13, h14, h15, h16, h17, h18, h19, h20, h21,
    h22, h23⟩

theorem stepX_accEquiv (env : Env) (a a' : Bundle × PState) (x : XSpend) (h : AccEquiv a a') :
    AccEquiv (stepX env a x) (stepX env a' x) :=
  enterSpend_accEquiv env x.1 _ _ x.2 x.2 (addExec_accEquiv h x.1) (PEquiv.refl x.2)

theorem stepX_comm (env : Env) (a : Bundle × PState) (x y : XSpend) :
    AccEquiv (stepX env (stepX env a x) y) (stepX env (stepX env a y) x) := by
  unfold stepX addExec
  rw [enterSpend_eq, enterSpend_eq, enterSpend_eq, enterSpend_eq]
  constructor <;> dsimp only <;> first
    | omega
    | exact minOpt2_right_comm _ _ _
    | exact List.perm_append_comm_assoc _ _ _
    | exact List.Perm.swap _ _ _
    | (simp only [List.append_assoc]; exact List.Perm.append_left _ List.perm_append_comm)
    | simp

/-- a left fold respects `List.Perm` up to a reflexive transitive relation that the step respects and up to
which two steps commute -/
theorem foldl_perm_rel {α β : Type} (R : β → β → Prop) (hrefl : ∀ a, R a a) (htrans : ∀ {a b c}, R a b → R b c → R a c)
    (f : β → α → β) (hstep : ∀ a a' x, R a a' → R (f a x) (f a' x))
    (hcomm : ∀ a x y, R (f (f a x) y) (f (f a y) x))
    {l l' : List α} (h : List.Perm l l') : ∀ a a', R a a' → R (l.foldl f a) (l'.foldl f a') := by
  have hsame : ∀ (l : List α) (a a' : β), R a a' → R (l.foldl f a) (l.foldl f a') := by
    intro l
    induction l with
    | nil => intro a a' h; exact h
    | cons x l ih => intro a a' h; exact ih _ _ (hstep _ _ _ h)
  induction h with
  | nil => intro a a' h; exact h
  | cons x _ ih => intro a a' h; exact ih _ _ (hstep _ _ _ h)
  | swap x y l =>
    intro a a' h
    simp only [List.foldl_cons]
    exact hsame l _ _ (htrans (hcomm a y x) (hstep _ _ _ (hstep _ _ _ h)))
  | trans _ _ ih1 ih2 => intro a a' h; exact htrans (ih1 a a' h) (ih2 a' a' (hrefl a'))

theorem foldX_perm (env : Env) {xs xs' : List XSpend} (h : List.Perm xs xs') (a : Bundle × PState) :
    AccEquiv (xs.foldl (stepX env) a) (xs'.foldl (stepX env) a) :=
  foldl_perm_rel AccEquiv AccEquiv.refl AccEquiv.trans (stepX env) (stepX_accEquiv env) (stepX_comm env) h a a
    (AccEquiv.refl a)

/-! ## the index-based fields of the fold, in closed form -/

theorem foldInvX (env : Env) (ccf : PSpend → Nat) : ∀ (xs : List XSpend) (acc : Bundle × PState) (ps0 : List PSpend),
    (∀ x ∈ xs, ccf x.2 = x.1) → FoldInv (fun p => spendRec env (ccf p) p) acc ps0 →
    FoldInv (fun p => spendRec env (ccf p) p) (xs.foldl (stepX env) acc) (ps0 ++ xs.map (·.2))
  | [], acc, ps0, _, h => by simpa using h
  | x :: xs, acc, ps0, hc, h => by
    have h' : FoldInv (fun p => spendRec env (ccf p) p) (addExec x.1 acc) ps0 := ⟨h.spends, h.spentCoins, h.eph, h.notEph⟩
    have hs := foldInv_step env x.1 h' x.2 (by show spendRec env (ccf x.2) x.2 = _; rw [hc x (List.mem_cons_self ..)])
    have := foldInvX env ccf xs _ _ (fun y hy => hc y (List.mem_cons_of_mem _ hy)) hs
    simpa [List.append_assoc, stepX] using this

/-- the cost recorded for the spend with `p`'s coin id -/
def costOf (xs : List XSpend) (p : PSpend) : Nat :=
  match xs.find? (fun x => x.2.attrs.coinId == p.attrs.coinId) with
  | some x => x.1
  | none => 0

theorem costOf_mem {xs : List XSpend} (hnd : (xs.map (·.2.attrs.coinId)).Nodup) {x : XSpend} (hx : x ∈ xs) :
    costOf xs x.2 = x.1 := by
  unfold costOf
  cases hf : xs.find? (fun y => y.2.attrs.coinId == x.2.attrs.coinId) with
  | none =>
    have := List.find?_eq_none.mp hf x hx
    simp at this
  | some y =>
    have hy := List.mem_of_find?_eq_some hf
    have hp := List.find?_some hf
    simp only [beq_iff_eq] at hp
    obtain ⟨i, hi⟩ := List.mem_iff_getElem?.mp hx
    obtain ⟨j, hj⟩ := List.mem_iff_getElem?.mp hy
    have : j = i := nodup_map_inj (fun z : XSpend => z.2.attrs.coinId) hnd hj hi hp
    subst this
    rw [hi] at hj; injection hj with hj
    rw [hj]

/-! ## the bundle loop, by the rules -/

/-- the spend tuple `(parent puzzle_hash amount conditions)` the bundle loop hands to `process_single_spend` -/
def tupleOf (cs : CoinSpendM) (conds : Sexp) : Sexp :=
  .pair (.atom cs.parent) (.pair (.atom (Sexp.treeHash cs.puzzle)) (.pair (.atom (canonNat cs.amount)) (.pair conds Sexp.nil)))

/-- the puzzle run `puz (i + k)` of the `k`-th coin spend succeeds with (cost, conditions), its declared
puzzle hash is the hash of the reveal, and the tuple with the run's conditions parses: `xs` lists the costs
and the parsed spends -/
def ParsedAt (flags : Nat) (puz : Nat → RunRes) : List CoinSpendM → Nat → List XSpend → Prop
  | [], _, xs => xs = []
  | cs :: rest, i, xs => ∃ c conds p xs', puz i = some (c, conds) ∧ cs.puzzleHash = Sexp.treeHash cs.puzzle ∧
      parseSpend flags (tupleOf cs conds) = some p ∧ xs = (c, p) :: xs' ∧ ParsedAt flags puz rest (i + 1) xs'

/-- the cost of the puzzle runs plus the table cost of the spends -/
def costX (flags : Nat) (xs : List XSpend) : Nat := (xs.map (fun x => x.1 + spendCost flags x.2)).sum

/-- acceptance of the spends in listing order, each against the summary of the spends before it -/
def AcceptFromX (env : Env) : List XSpend → Bundle × PState → Prop
  | [], _ => True
  | x :: xs, acc =>
    x.2.attrs.coinId ∉ acc.2.spentCoins ∧ SpendAccepts env x.2.attrs acc.1.reserveFee 1024 (itemConds x.2.items) ∧
      AcceptFromX env xs (stepX env acc x)

theorem bundleLoop_cons_iff (env : Env) (puz : Nat → RunRes) (cs : CoinSpendM) (rest : List CoinSpendM) (i : Nat) (ret : Bundle)
    (st : PState) (m : Nat) (r : (Bundle × PState) × Nat) :
    bundleLoop env puz (cs :: rest) i ret st m = .ok r ↔
      ∃ c conds ret1 st1 m1, puz i = some (c, conds) ∧ c ≤ m ∧ cs.puzzleHash = Sexp.treeHash cs.puzzle ∧
        processSingleSpend env { ret with executionCost := ret.executionCost + c } st (.atom cs.parent)
          (.atom (Sexp.treeHash cs.puzzle)) (.atom (canonNat cs.amount)) conds c (m - c) = .ok ((ret1, st1), m1) ∧
        bundleLoop env puz rest (i + 1) ret1 st1 m1 = .ok r := by
  simp only [bundleLoop]
  constructor
  · intro h
    cases hrun : runWithLimit (puz i) m with
    | error e => rw [hrun] at h; cases h
    | ok q =>
      obtain ⟨c, conds⟩ := q
      rw [hrun] at h; simp only at h
      obtain ⟨hp, hcm⟩ := runWithLimit_ok hrun
      rw [subtractCost_of_le hcm] at h; simp only at h
      split at h
      · cases h
      · rename_i hph
        cases hps : processSingleSpend env { ret with executionCost := ret.executionCost + c } st (.atom cs.parent)
            (.atom (Sexp.treeHash cs.puzzle)) (.atom (canonNat cs.amount)) conds c (m - c) with
        | error e => rw [hps] at h; cases h
        | ok q2 =>
          obtain ⟨⟨ret1, st1⟩, m1⟩ := q2
          rw [hps] at h; simp only at h
          exact ⟨c, conds, ret1, st1, m1, hp, hcm, by simpa using hph, hps, h⟩
  · rintro ⟨c, conds, ret1, st1, m1, hp, hcm, hph, hps, h⟩
    rw [hp, runWithLimit_of_le hcm]; simp only
    rw [subtractCost_of_le hcm]; simp only
    rw [if_neg (by simpa using hph), hps]
    exact h

theorem parseSingleSpend_tupleOf (cs : CoinSpendM) (conds : Sexp) :
    parseSingleSpend (tupleOf cs conds) =
      .ok (.atom cs.parent, .atom (Sexp.treeHash cs.puzzle), .atom (canonNat cs.amount), conds) := rfl

/-- **the bundle loop refines the rules** -/
theorem bundleLoop_rules (env : Env) (puz : Nat → RunRes) : ∀ (css : List CoinSpendM) (i : Nat) (ret : Bundle) (st : PState)
    (m : Nat) (ret' : Bundle) (st' : PState) (m' : Nat), ret.reserveFee < 2 ^ 64 →
    (bundleLoop env puz css i ret st m = .ok ((ret', st'), m') ↔
      ∃ xs, ParsedAt env.flags puz css i xs ∧ costX env.flags xs ≤ m ∧ m' = m - costX env.flags xs ∧
        AcceptFromX env xs (ret, st) ∧ (ret', st') = xs.foldl (stepX env) (ret, st)) := by
  intro css
  induction css with
  | nil =>
    intro i ret st m ret' st' m' _
    simp only [bundleLoop, ParsedAt]
    constructor
    · intro h
      injection h with h; injection h with h1 h2; injection h1 with h1 h3
      exact ⟨[], rfl, by simp [costX], by simp [costX, h2], trivial, by simp [h1, h3]⟩
    · rintro ⟨xs, rfl, _, hm, _, hr⟩
      simp only [costX, List.map_nil, List.sum_nil, Nat.sub_zero, List.foldl_nil] at hm hr
      rw [hm, hr]
  | cons cs rest ih =>
    intro i ret st m ret' st' m' hfee
    rw [bundleLoop_cons_iff]
    constructor
    · rintro ⟨c, conds, ret1, st1, m1, hp, hcm, hph, hps, h⟩
      obtain ⟨p, hpp, hnot, hk, hm1, hacc, hr1⟩ :=
        (spend_rules env c { ret with executionCost := ret.executionCost + c } st hfee (tupleOf cs conds) (m - c) ret1 st1 m1).mp
          ⟨_, _, _, _, parseSingleSpend_tupleOf cs conds, hps⟩
      have hr1' : (ret1, st1) = stepX env (ret, st) (c, p) := hr1
      have hfee1 : ret1.reserveFee < 2 ^ 64 := by
        have := enterSpend_fee env c ({ ret with executionCost := ret.executionCost + c }, st) p
        rw [← hr1] at this
        rw [this]; exact hacc.2.2.2.2.2.2.2.2
      obtain ⟨xs, hpa, hK, hm', haccs, hr⟩ := (ih (i + 1) ret1 st1 m1 ret' st' m' hfee1).mp h
      refine ⟨(c, p) :: xs, ⟨c, conds, p, xs, hp, hph, hpp, rfl, hpa⟩, ?_, ?_, ⟨hnot, hacc, by rw [← hr1']; exact haccs⟩, ?_⟩
      · simp only [costX, List.map_cons, List.sum_cons] at hK ⊢; omega
      · simp only [costX, List.map_cons, List.sum_cons] at hK hm' ⊢; omega
      · rw [List.foldl_cons, ← hr1']; exact hr
    · rintro ⟨xs0, ⟨c, conds, p, xs, hp, hph, hpp, rfl, hpa⟩, hK, hm', ⟨hnot, hacc, haccs⟩, hr⟩
      simp only [costX, List.map_cons, List.sum_cons, List.foldl_cons] at hK hm' hr
      obtain ⟨parent, ph, amount, conds0, hps0, hps⟩ :=
        (spend_rules env c { ret with executionCost := ret.executionCost + c } st hfee (tupleOf cs conds) (m - c)
          (stepX env (ret, st) (c, p)).1 (stepX env (ret, st) (c, p)).2 (m - c - spendCost env.flags p)).mpr
          ⟨p, hpp, hnot, by omega, rfl, hacc, rfl⟩
      rw [parseSingleSpend_tupleOf] at hps0
      injection hps0 with hps0
      injection hps0 with e1 hps0; injection hps0 with e2 hps0; injection hps0 with e3 e4
      subst e1 e2 e3 e4
      have hfee1 : (stepX env (ret, st) (c, p)).1.reserveFee < 2 ^ 64 := by
        show (enterSpend env c ({ ret with executionCost := ret.executionCost + c }, st) p).1.reserveFee < _
        rw [enterSpend_fee]; exact hacc.2.2.2.2.2.2.2.2
      refine ⟨c, conds, _, _, _, hp, by omega, hph, hps, ?_⟩
      exact (ih (i + 1) _ _ _ ret' st' m' hfee1).mpr
        ⟨xs, hpa, by simp only [costX]; omega, by simp only [costX]; omega, haccs, hr⟩

theorem stepX_spentCoins (env : Env) (acc : Bundle × PState) (x : XSpend) :
    (stepX env acc x).2.spentCoins = acc.2.spentCoins ++ [x.2.attrs.coinId] :=
  enterSpend_spentCoins env x.1 (addExec x.1 acc) x.2

theorem stepX_fee (env : Env) (acc : Bundle × PState) (x : XSpend) :
    (stepX env acc x).1.reserveFee = acc.1.reserveFee + feeSum (itemConds x.2.items) :=
  enterSpend_fee env x.1 (addExec x.1 acc) x.2

/-- … which is the order-free form: coin ids pairwise distinct, per-spend rules, total fee a u64 -/
theorem acceptFromX_iff (env : Env) : ∀ (xs : List XSpend) (acc : Bundle × PState),
    acc.2.spentCoins.Nodup → acc.1.reserveFee < 2 ^ 64 →
    (AcceptFromX env xs acc ↔
      (acc.2.spentCoins ++ xs.map (·.2.attrs.coinId)).Nodup ∧
      (∀ x ∈ xs, SpendAccepts env x.2.attrs 0 1024 (itemConds x.2.items)) ∧
      acc.1.reserveFee + bundleFee (xs.map (·.2)) < 2 ^ 64) := by
  intro xs
  induction xs with
  | nil => intro acc h1 h2; simp [AcceptFromX, bundleFee, h1, h2]
  | cons x xs ih =>
    intro acc h1 h2
    have hc1 := stepX_spentCoins env acc x
    have hf1 := stepX_fee env acc x
    have hassoc : acc.2.spentCoins ++ (x :: xs).map (·.2.attrs.coinId) =
        (acc.2.spentCoins ++ [x.2.attrs.coinId]) ++ xs.map (·.2.attrs.coinId) := by simp
    have hbf : bundleFee ((x :: xs).map (·.2)) = feeSum (itemConds x.2.items) + bundleFee (xs.map (·.2)) := by
      simp [bundleFee]
    simp only [AcceptFromX]
    rw [hassoc, hbf, accepts_fee_split]
    constructor
    · rintro ⟨hnot, ⟨hsa, hfee⟩, hrest⟩
      have hn1 : (stepX env acc x).2.spentCoins.Nodup := by
        rw [hc1, List.nodup_append]
        refine ⟨h1, by simp, ?_⟩
        intro a ha b hb
        simp at hb; subst hb
        intro e; subst e; exact hnot ha
      obtain ⟨r1, r2, r3⟩ := (ih _ hn1 (by rw [hf1]; exact hfee)).mp hrest
      rw [hc1] at r1; rw [hf1] at r3
      refine ⟨r1, ?_, by omega⟩
      intro q hq
      simp only [List.mem_cons] at hq
      rcases hq with rfl | hq
      · exact hsa
      · exact r2 q hq
    · rintro ⟨r1, r2, r3⟩
      have hsub : (acc.2.spentCoins ++ [x.2.attrs.coinId]).Nodup := (List.nodup_append.mp r1).1
      have hnot : x.2.attrs.coinId ∉ acc.2.spentCoins := by
        intro hmem; exact (List.nodup_append.mp hsub).2.2 _ hmem _ (by simp) rfl
      refine ⟨hnot, ⟨r2 x (by simp), by omega⟩, ?_⟩
      exact (ih _ (by rw [hc1]; exact hsub) (by rw [hf1]; omega)).mpr
        ⟨by rw [hc1]; exact r1, fun q hq => r2 q (by simp [hq]), by rw [hf1]; omega⟩

/-! ## the whole of `run_spendbundle` -/

/-- the environment `run_spendbundle` runs the spend loop in: the mempool visitor -/
abbrev mpEnv (p : Params) : Env := { flags := p.flags, mempool := true, pkOk := p.pkOk }

/-- the summary fold of the bundle path -/
def foldX (env : Env) (xs : List XSpend) : Bundle × PState := xs.foldl (stepX env) ({}, {})

/-- **`run_spendbundle` refines the rules** (byte-cost mode): it accepts iff the size cost fits, the spend
limit is respected, every puzzle run succeeds and every spend parses (`ParsedAt`), the total cost fits, the
coin ids are pairwise distinct, every spend satisfies the per-spend rules, the total fee is a u64 and the
deferred rules hold of the fold; the result is the post-processed fold with the total cost, and the
(public key, signed text) pairs collected by the fold -/
theorem runSpendbundle_rules (p : Params) (css : List CoinSpendM) (puz : Nat → RunRes) (L : Nat) (bb : Bundle)
    (pairs : List (Bytes × Bytes)) (hint : hasFlag p.flags Gen.flagInternedGenerator = false) :
    runSpendbundle p css puz L = .ok (bb, pairs) ↔
      (calculateGeneratorLength css - QUOTE_BYTES) * p.costPerByte ≤ L ∧
      ¬(hasFlag p.flags Gen.flagLimitSpends ∧ css.length > MAX_SPENDS_PER_BLOCK) ∧
      ∃ xs, ParsedAt p.flags puz css 0 xs ∧
        (calculateGeneratorLength css - QUOTE_BYTES) * p.costPerByte + costX p.flags xs ≤ L ∧
        (xs.map (·.2.attrs.coinId)).Nodup ∧
        (∀ x ∈ xs, SpendAccepts (mpEnv p) x.2.attrs 0 1024 (itemConds x.2.items)) ∧
        bundleFee (xs.map (·.2)) < 2 ^ 64 ∧
        Deferred (postProcess (mpEnv p) (foldX (mpEnv p) xs).1 (foldX (mpEnv p) xs).2) (foldX (mpEnv p) xs).2 ∧
        bb = { postProcess (mpEnv p) (foldX (mpEnv p) xs).1 (foldX (mpEnv p) xs).2 with
                cost := (calculateGeneratorLength css - QUOTE_BYTES) * p.costPerByte + costX p.flags xs } ∧
        pairs = (foldX (mpEnv p) xs).2.pkmPairs := by
  have h0 : ((({} : Bundle), ({} : PState)).2.spentCoins).Nodup := List.nodup_nil
  have hz : (({} : Bundle), ({} : PState)).1.reserveFee < 2 ^ 64 := by decide
  constructor
  · intro h
    unfold runSpendbundle at h
    simp only [hint, Bool.false_eq_true, if_false] at h
    cases h1 : subtractCost L ((calculateGeneratorLength css - QUOTE_BYTES) * p.costPerByte) with
    | error e => rw [h1] at h; cases h
    | ok c1 =>
      rw [h1] at h; simp only at h
      obtain ⟨hb, rfl⟩ := subtractCost_ok' h1
      split at h
      · cases h
      rename_i hlim
      cases h2 : bundleLoop (mpEnv p) puz css 0 {} {} (L - (calculateGeneratorLength css - QUOTE_BYTES) * p.costPerByte) with
      | error e => rw [h2] at h; cases h
      | ok q =>
        obtain ⟨⟨ret, st⟩, left⟩ := q
        rw [h2] at h; simp only at h
        cases hv : validateConditions (postProcess (mpEnv p) ret st) st with
        | error e => rw [hv] at h; cases h
        | ok u =>
          rw [hv] at h; simp only at h
          injection h with h; injection h with h3 h4
          obtain ⟨xs, hpa, hK, hleft, hacc, hr⟩ := (bundleLoop_rules (mpEnv p) puz css 0 {} {} _ ret st left (by decide)).mp h2
          simp only [show (mpEnv p).flags = p.flags from rfl] at hpa hK hleft
          obtain ⟨a1, a2, a3⟩ := (acceptFromX_iff (mpEnv p) xs ({}, {}) h0 hz).mp hacc
          have hfold : foldX (mpEnv p) xs = (ret, st) := hr.symm
          refine ⟨hb, hlim, xs, hpa, by omega, by simpa using a1, a2, by simpa using a3, ?_, ?_, ?_⟩
          · rw [hfold]; exact (C01.validateConditions_iff _ _).mp hv
          · rw [hfold, ← h3]
            have : L - left = (calculateGeneratorLength css - QUOTE_BYTES) * p.costPerByte + costX p.flags xs := by omega
            rw [this]
          · rw [hfold, ← h4]
  · rintro ⟨hb, hlim, xs, hpa, hK, hnd, hsa, hfee, hdef, rfl, rfl⟩
    have hl : bundleLoop (mpEnv p) puz css 0 {} {} (L - (calculateGeneratorLength css - QUOTE_BYTES) * p.costPerByte) =
        .ok (((foldX (mpEnv p) xs).1, (foldX (mpEnv p) xs).2),
          L - (calculateGeneratorLength css - QUOTE_BYTES) * p.costPerByte - costX p.flags xs) := by
      refine (bundleLoop_rules (mpEnv p) puz css 0 {} {} _ _ _ _ (by decide)).mpr
        ⟨xs, hpa, by show costX p.flags xs ≤ _; omega, rfl, ?_, rfl⟩
      exact (acceptFromX_iff (mpEnv p) xs ({}, {}) h0 hz).mpr ⟨by simpa using hnd, hsa, by simpa using hfee⟩
    have hv : validateConditions (postProcess (mpEnv p) (foldX (mpEnv p) xs).1 (foldX (mpEnv p) xs).2) (foldX (mpEnv p) xs).2 = .ok () :=
      (C01.validateConditions_iff _ _).mpr hdef
    unfold runSpendbundle
    simp only [hint, Bool.false_eq_true, if_false]
    rw [subtractCost_of_le hb]; simp only
    rw [if_neg hlim, hl]; simp only
    rw [hv]; simp only
    have : L - (L - (calculateGeneratorLength css - QUOTE_BYTES) * p.costPerByte - costX p.flags xs) =
        (calculateGeneratorLength css - QUOTE_BYTES) * p.costPerByte + costX p.flags xs := by omega
    rw [this]

/-! ## reversing the bundle -/

theorem parsedAt_iff (flags : Nat) (puz : Nat → RunRes) : ∀ (css : List CoinSpendM) (i : Nat) (xs : List XSpend),
    ParsedAt flags puz css i xs ↔
      xs.length = css.length ∧ ∀ k cs, css[k]? = some cs → ∃ c conds p, puz (i + k) = some (c, conds) ∧
        cs.puzzleHash = Sexp.treeHash cs.puzzle ∧ parseSpend flags (tupleOf cs conds) = some p ∧ xs[k]? = some (c, p) := by
  intro css
  induction css with
  | nil =>
    intro i xs
    simp only [ParsedAt, List.length_nil, List.length_eq_zero_iff]
    constructor
    · intro h; exact ⟨h, fun k cs hk => by simp at hk⟩
    · intro h; exact h.1
  | cons cs rest ih =>
    intro i xs
    simp only [ParsedAt]
    constructor
    · rintro ⟨c, conds, p, xs', hp, hph, hpp, rfl, hpa⟩
      obtain ⟨hl, hk⟩ := (ih (i + 1) xs').mp hpa
      refine ⟨by simp [hl], ?_⟩
      intro k cs' hcs
      cases k with
      | zero =>
        simp only [List.getElem?_cons_zero, Option.some.injEq] at hcs
        subst hcs
        exact ⟨c, conds, p, hp, hph, hpp, rfl⟩
      | succ k =>
        simp only [List.getElem?_cons_succ] at hcs
        obtain ⟨c', conds', p', h1, h2, h3, h4⟩ := hk k cs' hcs
        refine ⟨c', conds', p', ?_, h2, h3, by simpa using h4⟩
        rw [show i + (k + 1) = i + 1 + k by omega]; exact h1
    · rintro ⟨hl, hk⟩
      obtain ⟨c, conds, p, hp, hph, hpp, hx⟩ := hk 0 cs rfl
      cases xs with
      | nil => simp at hx
      | cons x xs' =>
        simp only [List.getElem?_cons_zero, Option.some.injEq] at hx
        subst hx
        refine ⟨c, conds, p, xs', hp, hph, hpp, rfl, (ih (i + 1) xs').mpr ⟨by simpa using hl, ?_⟩⟩
        intro k cs' hcs
        obtain ⟨c', conds', p', h1, h2, h3, h4⟩ := hk (k + 1) cs' (by simpa using hcs)
        refine ⟨c', conds', p', ?_, h2, h3, by simpa using h4⟩
        rw [show i + 1 + k = i + (k + 1) by omega]; exact h1

theorem parsedAt_reverse (flags : Nat) (puz puz' : Nat → RunRes) (css : List CoinSpendM) (xs : List XSpend)
    (hpuz : ∀ k, k < css.length → puz' k = puz (css.length - 1 - k)) (h : ParsedAt flags puz css 0 xs) :
    ParsedAt flags puz' css.reverse 0 xs.reverse := by
  obtain ⟨hl, hk⟩ := (parsedAt_iff flags puz css 0 xs).mp h
  refine (parsedAt_iff flags puz' css.reverse 0 xs.reverse).mpr ⟨by simp [hl], ?_⟩
  intro k cs hcs
  have hklt : k < css.length := by
    have := (List.getElem?_eq_some_iff.mp hcs).1
    simpa using this
  rw [List.getElem?_reverse hklt] at hcs
  obtain ⟨c, conds, p, h1, h2, h3, h4⟩ := hk _ cs hcs
  refine ⟨c, conds, p, ?_, h2, h3, ?_⟩
  · rw [Nat.zero_add, hpuz k hklt]; rw [Nat.zero_add] at h1; exact h1
  · rw [List.getElem?_reverse (by omega), hl]; exact h4

theorem calculateGeneratorLength_rev (css : List CoinSpendM) :
    calculateGeneratorLength css.reverse = calculateGeneratorLength css := by
  simp only [calculateGeneratorLength, List.map_reverse, List.sum_reverse]

theorem postProcess_validatedSignature (env : Env) (ret : Bundle) (st : PState) :
    (postProcess env ret st).validatedSignature = ret.validatedSignature := by
  rw [postProcess_eq]

/-- **Reversing a spend bundle** (puzzle runs re-indexed accordingly) changes neither the verdict of
`run_spendbundle` (byte-cost mode) nor the cost nor any aggregate of the conditions; the spend records come
out in reverse order (every field, both mempool eligibility flags), the AGG_SIG_UNSAFE pairs and the
(public key, signed text) pairs up to listing order. -/
theorem runSpendbundle_reverse (p : Params) (css : List CoinSpendM) (puz puz' : Nat → RunRes) (L : Nat) (bb : Bundle)
    (pairs : List (Bytes × Bytes)) (hint : hasFlag p.flags Gen.flagInternedGenerator = false)
    (hpuz : ∀ k, k < css.length → puz' k = puz (css.length - 1 - k))
    (h : runSpendbundle p css puz L = .ok (bb, pairs)) :
    ∃ bb' pairs', runSpendbundle p css.reverse puz' L = .ok (bb', pairs') ∧ List.Perm pairs pairs' ∧
      bb'.spends = bb.spends.reverse ∧ bb'.cost = bb.cost ∧ bb'.reserveFee = bb.reserveFee ∧
      bb'.heightAbsolute = bb.heightAbsolute ∧ bb'.secondsAbsolute = bb.secondsAbsolute ∧
      bb'.beforeHeightAbsolute = bb.beforeHeightAbsolute ∧ bb'.beforeSecondsAbsolute = bb.beforeSecondsAbsolute ∧
      bb'.removalAmount = bb.removalAmount ∧ bb'.additionAmount = bb.additionAmount ∧
      bb'.conditionCost = bb.conditionCost ∧ bb'.executionCost = bb.executionCost ∧
      bb'.validatedSignature = bb.validatedSignature ∧ List.Perm bb'.aggSigUnsafe bb.aggSigUnsafe := by
  obtain ⟨hb, hlim, xs, hpa, hK, hnd, hsa, hfee, hdef, rfl, rfl⟩ := (runSpendbundle_rules p css puz L bb pairs hint).mp h
  have hperm : List.Perm xs xs.reverse := (List.reverse_perm xs).symm
  have e : AccEquiv (foldX (mpEnv p) xs) (foldX (mpEnv p) xs.reverse) := foldX_perm (mpEnv p) hperm _
  have hcc : ∀ x ∈ xs, costOf xs x.2 = x.1 := fun x hx => costOf_mem hnd hx
  have hcc' : ∀ x ∈ xs.reverse, costOf xs x.2 = x.1 := fun x hx => costOf_mem hnd (List.mem_reverse.mp hx)
  have inv : FoldInv (fun q => spendRec (mpEnv p) (costOf xs q) q) (foldX (mpEnv p) xs) (xs.map (·.2)) := by
    have := foldInvX (mpEnv p) (costOf xs) xs _ [] hcc (foldInv_init _)
    simpa [foldX] using this
  have inv' : FoldInv (fun q => spendRec (mpEnv p) (costOf xs q) q) (foldX (mpEnv p) xs.reverse) (xs.reverse.map (·.2)) := by
    have := foldInvX (mpEnv p) (costOf xs) xs.reverse _ [] hcc' (foldInv_init _)
    simpa [foldX] using this
  have hbp : BPerm (xs.map (·.2)) (xs.reverse.map (·.2)) := BPerm.of_perm (hperm.map _)
  have hndps : ((xs.map (·.2)).map (·.attrs.coinId)).Nodup := by rw [List.map_map]; exact hnd
  have hdef' := deferred_of_inv (mpEnv p) (recOk_spendRec (mpEnv p) (costOf xs)) (recOk_spendRec (mpEnv p) (costOf xs))
    hbp inv inv' e hndps hdef
  have hcost : costX p.flags xs.reverse = costX p.flags xs := ((hperm.map _).sum_nat).symm
  have hfee' : bundleFee (xs.reverse.map (·.2)) = bundleFee (xs.map (·.2)) := (bundleFee_bperm hbp).symm
  obtain ⟨s1, s2, s3, s4, s5, s6, s7, s8, s9, s10, _⟩ :=
    postProcess_scalars (mpEnv p) (foldX (mpEnv p) xs).1 (foldX (mpEnv p) xs).2
  obtain ⟨t1, t2, t3, t4, t5, t6, t7, t8, t9, t10, _⟩ :=
    postProcess_scalars (mpEnv p) (foldX (mpEnv p) xs.reverse).1 (foldX (mpEnv p) xs.reverse).2
  refine ⟨_, _, (runSpendbundle_rules p css.reverse puz' L _ _ hint).mpr
    ⟨by rw [calculateGeneratorLength_rev]; exact hb, by rw [List.length_reverse]; exact hlim, xs.reverse,
      parsedAt_reverse p.flags puz puz' css xs hpuz hpa, by rw [calculateGeneratorLength_rev, hcost]; exact hK,
      by rw [List.map_reverse]; exact (List.reverse_perm _).nodup_iff.mpr hnd, fun x hx => hsa x (List.mem_reverse.mp hx),
      by rw [hfee']; exact hfee, hdef', rfl, rfl⟩,
    e.pkmPairs, ?_, ?_, ?_, ?_, ?_, ?_, ?_, ?_, ?_, ?_, ?_, ?_, ?_⟩
  · show (postProcess (mpEnv p) _ _).spends = (postProcess (mpEnv p) _ _).spends.reverse
    rw [postProcess_spends (mpEnv p) inv', postProcess_spends (mpEnv p) inv, List.map_reverse, List.map_reverse]
    congr 1
    apply List.map_congr_left
    intro q _
    exact (ppSpend_congr (mpEnv p) e.assertConcurrentSpend e.spentCoins _).symm
  · show _ + costX p.flags xs.reverse = _ + costX p.flags xs
    rw [calculateGeneratorLength_rev, hcost]
  · exact t3.trans (e.reserveFee.symm.trans s3.symm)
  · exact t4.trans (e.heightAbsolute.symm.trans s4.symm)
  · exact t5.trans (e.secondsAbsolute.symm.trans s5.symm)
  · exact t6.trans (e.beforeHeightAbsolute.symm.trans s6.symm)
  · exact t7.trans (e.beforeSecondsAbsolute.symm.trans s7.symm)
  · exact t2.trans (e.removalAmount.symm.trans s2.symm)
  · exact t1.trans (e.additionAmount.symm.trans s1.symm)
  · exact t8.trans (e.conditionCost.symm.trans s8.symm)
  · exact t9.trans (e.executionCost.symm.trans s9.symm)
  · show (postProcess (mpEnv p) (foldX (mpEnv p) xs.reverse).1 (foldX (mpEnv p) xs.reverse).2).validatedSignature =
      (postProcess (mpEnv p) (foldX (mpEnv p) xs).1 (foldX (mpEnv p) xs).2).validatedSignature
    rw [postProcess_validatedSignature, postProcess_validatedSignature]; exact e.validatedSignature.symm
  · show List.Perm (postProcess (mpEnv p) (foldX (mpEnv p) xs.reverse).1 (foldX (mpEnv p) xs.reverse).2).aggSigUnsafe
      (postProcess (mpEnv p) (foldX (mpEnv p) xs).1 (foldX (mpEnv p) xs).2).aggSigUnsafe
    rw [t10, s10]; exact e.aggSigUnsafe.symm

end ChiaModel.Gn
