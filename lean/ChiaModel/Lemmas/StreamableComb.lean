import ChiaModel.Lemmas.StreamableLeaf
/-!
Combinator lemmas: Option, repetition (Vec, arrays), packed option pairs.
-/
namespace ChiaModel.Streamable
open ChiaModel

theorem isBytes_of_append_right {p r b : Bytes} (h : p ++ r = b) (hb : isBytes b) : isBytes r := by
  subst h; exact (isBytes_append.mp hb).2

/-! ### Option -/

theorem decOption_ok {f : Dec} {b r : Bytes} {v : V} :
    (decOption f b).out = .ok (v, r) ↔
      (b = 0 :: r ∧ v = .none) ∨ (∃ b' x, b = 1 :: b' ∧ (f b').out = .ok (x, r) ∧ v = .some x) := by
  unfold decOption
  rw [Res.bind_ok]
  constructor
  · rintro ⟨⟨k, r'⟩, h1, h2⟩
    have hb := readByte_ok.mp h1
    subst hb
    simp only at h2
    by_cases h0 : k = 0
    · subst h0
      simp only [if_true, Res.pure_out] at h2
      injection h2 with h2; injection h2 with e1 e2; subst e1; subst e2
      exact Or.inl ⟨rfl, rfl⟩
    · by_cases h1' : k = 1
      · subst h1'
        simp only [if_neg h0, if_true] at h2
        obtain ⟨⟨x, r2⟩, hf, h3⟩ := Res.bind_ok.mp h2
        simp only [Res.pure_out] at h3
        injection h3 with h3; injection h3 with e1 e2; subst e1; subst e2
        exact Or.inr ⟨r', x, rfl, hf, rfl⟩
      · simp [if_neg h0, if_neg h1'] at h2
  · rintro (⟨rfl, rfl⟩ | ⟨b', x, rfl, hf, rfl⟩)
    · exact ⟨(0, r), readByte_ok.mpr rfl, by simp⟩
    · refine ⟨(1, b'), readByte_ok.mpr rfl, ?_⟩
      simp only [if_neg (by decide : ¬ (1 : Nat) = 0), if_true]
      exact Res.bind_ok.mpr ⟨(x, r), hf, rfl⟩

theorem decOption_panic {f : Dec} {b : Bytes} {s : String} :
    (decOption f b).out = .panic s → ∃ b', b = 1 :: b' ∧ (f b').out = .panic s := by
  unfold decOption
  rw [Res.bind_panic]
  rintro (h | ⟨⟨k, r'⟩, h1, h2⟩)
  · exact absurd h (readByte_no_panic _ _ _)
  · have hb := readByte_ok.mp h1
    subst hb
    simp only at h2
    by_cases h0 : k = 0
    · subst h0; simp at h2
    · by_cases h1' : k = 1
      · subst h1'
        simp only [if_neg h0, if_true] at h2
        rcases Res.bind_panic.mp h2 with h3 | ⟨a, _, h3⟩
        · exact ⟨r', rfl, h3⟩
        · simp at h3
      · simp [if_neg h0, if_neg h1'] at h2

theorem wfOption_iff {w : Wf} {v : V} : wfOption w v = true ↔ v = .none ∨ ∃ x, v = .some x ∧ w x = true := by
  cases v <;> simp [wfOption]

theorem codec_option {f : Dec} {e : Enc} {w : Wf} (h : Codec f e w) :
    Codec (decOption f) (encOption e) (wfOption w) where
  rt := by
    intro v hv
    rcases wfOption_iff.mp hv with rfl | ⟨x, rfl, hx⟩
    · exact ⟨[0], rfl, fun r => decOption_ok.mpr (Or.inl ⟨rfl, rfl⟩)⟩
    · obtain ⟨bs, he, hd⟩ := h.rt x hx
      exact ⟨1 :: bs, by simp [encOption, he], fun r => decOption_ok.mpr (Or.inr ⟨bs ++ r, x, rfl, hd r, rfl⟩)⟩
  cn := by
    intro b v r hb hd
    rcases decOption_ok.mp hd with ⟨rfl, rfl⟩ | ⟨b', x, rfl, hf, rfl⟩
    · exact ⟨[0], rfl, rfl, rfl⟩
    · obtain ⟨p, he, hp, hw⟩ := h.cn b' x r (isBytes_cons.mp hb).2 hf
      exact ⟨1 :: p, by simp [encOption, he], by simp [hp], by simp [wfOption, hw]⟩

theorem total_option {f : Dec} (h : Total f) : Total (decOption f) where
  np := by
    intro b s hp
    obtain ⟨b', _, hf⟩ := decOption_panic hp
    exact h.np b' s hf
  pre := by
    intro b v r hd
    rcases decOption_ok.mp hd with ⟨rfl, _⟩ | ⟨b', x, rfl, hf, _⟩
    · exact ⟨[0], rfl⟩
    · obtain ⟨p, rfl⟩ := h.pre b' x r hf
      exact ⟨1 :: p, rfl⟩

theorem agree_option {f g : Dec} (h : Agree f g) : Agree (decOption f) (decOption g) := by
  intro b x hx
  obtain ⟨v, r⟩ := x
  rcases decOption_ok.mp hx with ⟨rfl, rfl⟩ | ⟨b', y, rfl, hf, rfl⟩
  · exact decOption_ok.mpr (Or.inl ⟨rfl, rfl⟩)
  · exact decOption_ok.mpr (Or.inr ⟨b', y, rfl, h b' (y, r) hf, rfl⟩)

/-! ### repetition -/

theorem repeatN_zero (f : Dec) (b : Bytes) : (repeatN f 0 b).out = .ok ([], b) := rfl

theorem repeatN_succ_ok {f : Dec} {n : Nat} {b r : Bytes} {l : List V} :
    (repeatN f (n + 1) b).out = .ok (l, r) ↔
      ∃ v r1 l', (f b).out = .ok (v, r1) ∧ (repeatN f n r1).out = .ok (l', r) ∧ l = v :: l' := by
  rw [repeatN, Res.bind_ok]
  constructor
  · rintro ⟨⟨v, r1⟩, h1, h2⟩
    obtain ⟨⟨l', r2⟩, h3, h4⟩ := Res.bind_ok.mp h2
    simp only [Res.pure_out] at h4
    injection h4 with h4; injection h4 with e1 e2; subst e1; subst e2
    exact ⟨v, r1, l', h1, h3, rfl⟩
  · rintro ⟨v, r1, l', h1, h3, rfl⟩
    exact ⟨(v, r1), h1, Res.bind_ok.mpr ⟨(l', r), h3, rfl⟩⟩

theorem repeatN_panic {f : Dec} (hf : ∀ b s, (f b).out ≠ .panic s) :
    ∀ n b s, (repeatN f n b).out ≠ .panic s := by
  intro n
  induction n with
  | zero => intro b s; simp [repeatN]
  | succ n ih =>
    intro b s
    rw [repeatN, Ne, Res.bind_panic]
    rintro (h | ⟨a, _, h⟩)
    · exact hf _ _ h
    · rcases Res.bind_panic.mp h with h2 | ⟨a2, _, h2⟩
      · exact ih _ _ h2
      · simp at h2

theorem repeatN_rt {f : Dec} {e : Enc} {w : Wf} (h : Codec f e w) :
    ∀ vs : List V, vs.all w = true →
      ∃ bs, encAll e vs = some bs ∧ ∀ r, (repeatN f vs.length (bs ++ r)).out = .ok (vs, r) := by
  intro vs
  induction vs with
  | nil => intro _; exact ⟨[], rfl, fun r => rfl⟩
  | cons v vs ih =>
    intro hall
    simp only [List.all_cons, Bool.and_eq_true] at hall
    obtain ⟨b1, he1, hd1⟩ := h.rt v hall.1
    obtain ⟨b2, he2, hd2⟩ := ih hall.2
    refine ⟨b1 ++ b2, by simp [encAll, he1, he2], fun r => ?_⟩
    rw [List.length_cons]
    refine repeatN_succ_ok.mpr ⟨v, b2 ++ r, vs, ?_, hd2 r, rfl⟩
    rw [List.append_assoc]; exact hd1 _

theorem repeatN_cn {f : Dec} {e : Enc} {w : Wf} (h : Codec f e w) :
    ∀ n b vs r, isBytes b → (repeatN f n b).out = .ok (vs, r) →
      ∃ p, encAll e vs = some p ∧ p ++ r = b ∧ vs.all w = true ∧ vs.length = n := by
  intro n
  induction n with
  | zero =>
    intro b vs r _ hd
    rw [repeatN_zero] at hd
    injection hd with hd; injection hd with e1 e2; subst e1; subst e2
    exact ⟨[], rfl, rfl, rfl, rfl⟩
  | succ n ih =>
    intro b vs r hb hd
    obtain ⟨v, r1, l', h1, h2, rfl⟩ := repeatN_succ_ok.mp hd
    obtain ⟨p1, he1, hp1, hw1⟩ := h.cn b v r1 hb h1
    obtain ⟨p2, he2, hp2, hw2, hl⟩ := ih r1 l' r (isBytes_of_append_right hp1 hb) h2
    refine ⟨p1 ++ p2, by simp [encAll, he1, he2], ?_, by simp [hw1, hw2], by simp [hl]⟩
    rw [List.append_assoc, hp2, hp1]

theorem repeatN_pre {f : Dec} (h : Total f) :
    ∀ n b vs r, (repeatN f n b).out = .ok (vs, r) → ∃ p, b = p ++ r := by
  intro n
  induction n with
  | zero =>
    intro b vs r hd
    rw [repeatN_zero] at hd
    injection hd with hd; injection hd with e1 e2; subst e2
    exact ⟨[], rfl⟩
  | succ n ih =>
    intro b vs r hd
    obtain ⟨v, r1, l', h1, h2, rfl⟩ := repeatN_succ_ok.mp hd
    obtain ⟨p1, rfl⟩ := h.pre b v r1 h1
    obtain ⟨p2, rfl⟩ := ih r1 l' r h2
    exact ⟨p1 ++ p2, by simp⟩

theorem repeatN_agree {f g : Dec} (h : Agree f g) :
    ∀ n b x, (repeatN f n b).out = .ok x → (repeatN g n b).out = .ok x := by
  intro n
  induction n with
  | zero => intro b x hx; exact hx
  | succ n ih =>
    intro b x hx
    obtain ⟨vs, r⟩ := x
    obtain ⟨v, r1, l', h1, h2, rfl⟩ := repeatN_succ_ok.mp hx
    exact repeatN_succ_ok.mpr ⟨v, r1, l', h b (v, r1) h1, ih r1 (l', r) h2, rfl⟩

/-! ### Vec -/

theorem decVec_ok {sz : Nat} {f : Dec} {b r : Bytes} {v : V} :
    (decVec sz f b).out = .ok (v, r) ↔
      ∃ l rest vs, b = l ++ rest ∧ l.length = 4 ∧ (repeatN f (beVal l) rest).out = .ok (vs, r) ∧ v = .list vs := by
  unfold decVec
  rw [Res.bind_ok]
  constructor
  · rintro ⟨⟨len, r1⟩, h1, h2⟩
    obtain ⟨l, rfl, hl, rfl⟩ := readUint_ok.mp h1
    obtain ⟨u, _, h3⟩ := Res.bind_ok.mp h2
    obtain ⟨⟨vs, r2⟩, h4, h5⟩ := Res.bind_ok.mp h3
    simp only [Res.pure_out] at h5
    injection h5 with h5; injection h5 with e1 e2; subst e1; subst e2
    exact ⟨l, r1, vs, rfl, hl, h4, rfl⟩
  · rintro ⟨l, rest, vs, rfl, hl, hrep, rfl⟩
    refine ⟨(beVal l, rest), readUint_ok.mpr ⟨l, rfl, hl, rfl⟩, ?_⟩
    refine Res.bind_ok.mpr ⟨(), rfl, ?_⟩
    exact Res.bind_ok.mpr ⟨(vs, r), hrep, rfl⟩

theorem decVec_np {sz : Nat} {f : Dec} (hf : ∀ b s, (f b).out ≠ .panic s) (b : Bytes) (s : String) :
    (decVec sz f b).out ≠ .panic s := by
  unfold decVec
  rw [Ne, Res.bind_panic]
  rintro (h | ⟨a, _, h⟩)
  · exact readUint_no_panic _ _ _ h
  · rcases Res.bind_panic.mp h with h2 | ⟨a2, _, h2⟩
    · simp at h2
    · rcases Res.bind_panic.mp h2 with h3 | ⟨a3, _, h3⟩
      · exact repeatN_panic hf _ _ _ h3
      · simp at h3

theorem wfVec_iff {w : Wf} {v : V} :
    wfVec w v = true ↔ ∃ l, v = .list l ∧ l.length < u32Max ∧ l.all w = true := by
  cases v <;> simp [wfVec]

theorem codec_vec (sz : Nat) {f : Dec} {e : Enc} {w : Wf} (h : Codec f e w) :
    Codec (decVec sz f) (encVec e) (wfVec w) where
  rt := by
    intro v hv
    obtain ⟨l, rfl, hlen, hall⟩ := wfVec_iff.mp hv
    obtain ⟨bs, he, hd⟩ := repeatN_rt h l hall
    refine ⟨be 4 l.length ++ bs, by simp [encVec, hlen, he], fun r => ?_⟩
    refine decVec_ok.mpr ⟨be 4 l.length, bs ++ r, l, by simp, be_length _ _, ?_, rfl⟩
    rw [beVal_be 4 _ (by rw [← u32Max_eq]; exact hlen)]
    exact hd r
  cn := by
    intro b v r hb hd
    obtain ⟨l, rest, vs, rfl, hl, hrep, rfl⟩ := decVec_ok.mp hd
    have hlb : isBytes l := (isBytes_append.mp hb).1
    obtain ⟨p, he, hp, hw, hlen⟩ := repeatN_cn h _ rest vs r (isBytes_append.mp hb).2 hrep
    have hlt : vs.length < u32Max := by
      rw [hlen, u32Max_eq, ← hl]; exact beVal_lt l hlb
    refine ⟨l ++ p, ?_, by rw [List.append_assoc, hp], wfVec_iff.mpr ⟨vs, rfl, hlt, hw⟩⟩
    simp only [encVec, hlt, if_true, he, Option.map_some]
    rw [hlen, ← hl, be_beVal l hlb]

theorem total_vec (sz : Nat) {f : Dec} (h : Total f) : Total (decVec sz f) where
  np := decVec_np h.np
  pre := by
    intro b v r hd
    obtain ⟨l, rest, vs, rfl, _, hrep, _⟩ := decVec_ok.mp hd
    obtain ⟨p, rfl⟩ := repeatN_pre h _ rest vs r hrep
    exact ⟨l ++ p, by simp⟩

theorem agree_vec (sz : Nat) {f g : Dec} (h : Agree f g) : Agree (decVec sz f) (decVec sz g) := by
  intro b x hx
  obtain ⟨v, r⟩ := x
  obtain ⟨l, rest, vs, rfl, hl, hrep, rfl⟩ := decVec_ok.mp hx
  exact decVec_ok.mpr ⟨l, rest, vs, rfl, hl, repeatN_agree h _ _ (vs, r) hrep, rfl⟩

/-! ### arrays -/

theorem decArray_ok {n : Nat} {f : Dec} {b r : Bytes} {v : V} :
    (decArray n f b).out = .ok (v, r) ↔ ∃ vs, (repeatN f n b).out = .ok (vs, r) ∧ v = .list vs := by
  unfold decArray
  rw [Res.bind_ok]
  constructor
  · rintro ⟨⟨vs, r2⟩, h4, h5⟩
    simp only [Res.pure_out] at h5
    injection h5 with h5; injection h5 with e1 e2; subst e1; subst e2
    exact ⟨vs, h4, rfl⟩
  · rintro ⟨vs, hrep, rfl⟩
    exact ⟨(vs, r), hrep, rfl⟩

theorem wfArray_iff {n : Nat} {w : Wf} {v : V} :
    wfArray n w v = true ↔ ∃ l, v = .list l ∧ l.length = n ∧ l.all w = true := by
  cases v <;> simp [wfArray]

theorem codec_array (n : Nat) {f : Dec} {e : Enc} {w : Wf} (h : Codec f e w) :
    Codec (decArray n f) (encArray n e) (wfArray n w) where
  rt := by
    intro v hv
    obtain ⟨l, rfl, hlen, hall⟩ := wfArray_iff.mp hv
    obtain ⟨bs, he, hd⟩ := repeatN_rt h l hall
    exact ⟨bs, by simp [encArray, hlen, he], fun r => decArray_ok.mpr ⟨l, hlen ▸ hd r, rfl⟩⟩
  cn := by
    intro b v r hb hd
    obtain ⟨vs, hrep, rfl⟩ := decArray_ok.mp hd
    obtain ⟨p, he, hp, hw, hlen⟩ := repeatN_cn h _ b vs r hb hrep
    exact ⟨p, by simp [encArray, hlen, he], hp, wfArray_iff.mpr ⟨vs, rfl, hlen, hw⟩⟩

theorem total_array (n : Nat) {f : Dec} (h : Total f) : Total (decArray n f) where
  np := by
    intro b s hp
    unfold decArray at hp
    rcases Res.bind_panic.mp hp with h3 | ⟨a3, _, h3⟩
    · exact repeatN_panic h.np _ _ _ h3
    · simp at h3
  pre := by
    intro b v r hd
    obtain ⟨vs, hrep, _⟩ := decArray_ok.mp hd
    exact repeatN_pre h _ b vs r hrep

theorem agree_array (n : Nat) {f g : Dec} (h : Agree f g) : Agree (decArray n f) (decArray n g) := by
  intro b x hx
  obtain ⟨v, r⟩ := x
  obtain ⟨vs, hrep, rfl⟩ := decArray_ok.mp hx
  exact decArray_ok.mpr ⟨vs, repeatN_agree h _ _ (vs, r) hrep, rfl⟩

end ChiaModel.Streamable
