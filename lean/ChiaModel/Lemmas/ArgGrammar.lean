import ChiaModel.Spec.ArgGrammar
import ChiaModel.Props.C11
import ChiaModel.Props.C04
/-
C01 — the model's `parseArgs` (Model/Conditions.lean, mirroring `parse_args`) equals the table-driven
specification `specParseArgs` (Spec/ArgGrammar.lean) on every tree, every opcode number and every flag set
(`parseArgs_eq_spec`); hence `parseAll` / `parseBundle` equal their table-driven counterparts.  Also: the
value-level reading of the integer classes for byte strings (`intClass_*`), and which opcodes yield which
condition constructor (`build_*`).  Core Lean only.
-/
set_option linter.unusedSimpArgs false
set_option linter.unusedVariables false
namespace ChiaModel.Grammar
open ChiaModel ChiaModel.Cond

/-! ## integer classes = `sanitize_uint` -/

def classToSan : IntClass → Sanitized
  | .canon v => .ok v
  | .neg => .negOverflow
  | .over => .posOverflow
  | .bad => .err

theorem minimal_iff (b0 : Nat) (tl : Bytes) (h0 : b0 < 128) :
    Minimal (b0 :: tl) ↔ ¬ (b0 :: tl = [0] ∨ b0 = 0 ∧ headLt128 tl = true) := by
  cases tl with
  | nil => simp [Minimal, headLt128]
  | cons y t => simp [Minimal, headLt128]; omega

theorem sigBytes_cons (b0 : Nat) (tl : Bytes) : sigBytes (b0 :: tl) = if b0 = 0 then tl.length else tl.length + 1 := by
  by_cases hz : b0 = 0 <;> simp [sigBytes, hz]

theorem sanitizeUint_eq_class (b : Bytes) (w : Nat) : sanitizeUint b w = classToSan (intClass w b) := by
  cases b with
  | nil => simp [sanitizeUint, intClass, headGe128, Minimal, sigBytes, beVal, classToSan]
  | cons b0 tl =>
    by_cases h0 : b0 ≥ 128
    · have hh : headGe128 (b0 :: tl) = true := by simp [headGe128]; omega
      simp [sanitizeUint, intClass, hh, h0, classToSan]
    · have hh : headGe128 (b0 :: tl) = false := by simp [headGe128]; omega
      simp only [sanitizeUint, intClass, hh, if_neg h0, Bool.false_eq_true, if_false]
      by_cases hm : Minimal (b0 :: tl)
      · rw [if_neg ((minimal_iff b0 tl (by omega)).mp hm), if_pos hm, sigBytes_cons]
        by_cases hz : b0 = 0
        · simp only [hz, if_true, List.length_cons]
          by_cases hl : tl.length ≤ w
          · rw [if_neg (by omega), if_pos hl]; rfl
          · rw [if_pos (by omega), if_neg hl]; rfl
        · simp only [hz, if_false, List.length_cons]
          by_cases hl : tl.length + 1 ≤ w
          · rw [if_neg (by omega), if_pos hl]; rfl
          · rw [if_pos (by omega), if_neg hl]; rfl
      · rw [if_neg hm, if_pos]
        · rfl
        · exact Classical.not_not.mp (fun h => hm ((minimal_iff b0 tl (by omega)).mpr h))

theorem checkNil_eq (t : Sexp) : checkNil t = if t.isNil = true then .ok () else .error .reject := by
  cases t with
  | pair a b => rfl
  | atom x => cases x <;> rfl

/-! ## normal forms of the model's helpers -/

macro "select_branch" : tactic =>
  `(tactic| (unfold parseArgs; (repeat rw [if_neg (by decide)]); rw [if_pos (by decide)]))

theorem sanMsg_atom (b : Bytes) : sanitizeAnnounceMsg (.atom b) = if b.length ≤ 1024 then .ok b else .error .reject := by
  by_cases h : b.length ≤ 1024
  · simp [sanitizeAnnounceMsg, atomOf, bind, Except.bind, h]
  · simp [sanitizeAnnounceMsg, atomOf, bind, Except.bind, h]
theorem sanMsg_pair (a b : Sexp) : sanitizeAnnounceMsg (.pair a b) = .error .reject := rfl
theorem sanHash_atom (b : Bytes) (n : Nat) : sanitizeHash (.atom b) n = if b.length = n then .ok b else .error .reject := rfl
theorem sanHash_pair (a b : Sexp) (n : Nat) : sanitizeHash (.pair a b) n = .error .reject := rfl

macro "gs" : tactic =>
  `(tactic| simp [*, interp, walk, argValue, tailRule, terminatorOk, outOfRange, maybeCheckArgsTerminator, strict, Cond.first, rest,
      bind, Except.bind, pure, Except.pure, checkNil_eq, sanHash_atom, sanHash_pair, sanMsg_atom, sanMsg_pair, parseAmount, lockArg, atomOf,
      sanitizeUint_eq_class, classToSan, noArgs, oneBytes, twoBytes, oneInt, lockInt])

/-! ## one lemma per argument-list shape -/

theorem shape_hash1 (c : Sexp) (flags : Nat) (mk : Bytes → Cond) (bld : List Val → Option Cond)
    (hb : ∀ vs, bld vs = oneBytes mk vs) :
    (do maybeCheckArgsTerminator c flags
        return mk (← sanitizeHash (← first c) 32)) = interp [.hash32] .exact bld c flags := by
  cases hs : hasFlag flags Gen.flagStrictArgsCount <;>
  rcases c with x | ⟨b | ⟨_, _⟩, r⟩ <;> (try cases hn : r.isNil) <;> (try by_cases hl : b.length = 32) <;> gs

theorem shape_msg1 (c : Sexp) (flags : Nat) (mk : Bytes → Cond) (bld : List Val → Option Cond)
    (hb : ∀ vs, bld vs = oneBytes mk vs) :
    (do maybeCheckArgsTerminator c flags
        return mk (← sanitizeAnnounceMsg (← first c))) = interp [.announceMsg] .exact bld c flags := by
  cases hs : hasFlag flags Gen.flagStrictArgsCount <;>
  rcases c with x | ⟨b | ⟨_, _⟩, r⟩ <;> (try cases hn : r.isNil) <;> (try by_cases hl : b.length ≤ 1024) <;> gs

theorem shape_amount1 (c : Sexp) (flags : Nat) (mk : Nat → Cond) (bld : List Val → Option Cond)
    (hb : ∀ vs, bld vs = oneInt mk vs) :
    (do maybeCheckArgsTerminator c flags
        return mk (← parseAmount (← first c))) = interp [amountU64] .exact bld c flags := by
  cases hs : hasFlag flags Gen.flagStrictArgsCount <;>
  rcases c with x | ⟨b | ⟨_, _⟩, r⟩ <;> (try cases hn : r.isNil) <;> (try cases hc : intClass 8 b) <;> gs


theorem shape_aggSig (c : Sexp) (flags : Nat) (mk : Bytes → Bytes → Cond) (bld : List Val → Option Cond)
    (hb : ∀ vs, bld vs = twoBytes mk vs) :
    (do let pk ← sanitizeHash (← first c) 48
        let c ← rest c
        let msg ← sanitizeAnnounceMsg (← first c)
        if strict flags then checkNil (← rest c)
        return mk pk msg) = interp [.pubkey48, .announceMsg] .exact bld c flags := by
  cases hs : hasFlag flags Gen.flagStrictArgsCount <;>
  rcases c with x | ⟨b | ⟨_, _⟩, x | ⟨b2 | ⟨_, _⟩, r⟩⟩ <;> (try cases hn : r.isNil) <;> (try by_cases hl : b.length = 48) <;>
  (try by_cases hl2 : b2.length ≤ 1024) <;> gs

theorem shape_birth (c : Sexp) (flags w : Nat) (mk : Nat → Cond) (bld : List Val → Option Cond)
    (hb : ∀ vs, bld vs = oneInt mk vs) :
    (do match ← lockArg c flags w with
        | .ok r => return mk r
        | _ => .error .reject) = interp [.int w .reject .reject] .exact bld c flags := by
  cases hs : hasFlag flags Gen.flagStrictArgsCount <;>
  rcases c with x | ⟨b | ⟨_, _⟩, r⟩ <;> (try cases hn : r.isNil) <;> (try cases hc : intClass w b) <;> gs

theorem shape_after (c : Sexp) (flags w : Nat) (mk : Nat → Cond) (vac : Cond) (bld : List Val → Option Cond)
    (hb : ∀ vs, bld vs = lockInt mk vac vs) :
    (do match ← lockArg c flags w with
        | .ok r => return mk r
        | .negOverflow => return vac
        | _ => .error .reject) = interp [.int w .vacuous .reject] .exact bld c flags := by
  cases hs : hasFlag flags Gen.flagStrictArgsCount <;>
  rcases c with x | ⟨b | ⟨_, _⟩, r⟩ <;> (try cases hn : r.isNil) <;> (try cases hc : intClass w b) <;> gs

theorem shape_before (c : Sexp) (flags w : Nat) (mk : Nat → Cond) (vac : Cond) (bld : List Val → Option Cond)
    (hb : ∀ vs, bld vs = lockInt mk vac vs) :
    (do match ← lockArg c flags w with
        | .ok r => return mk r
        | .posOverflow => return vac
        | _ => .error .reject) = interp [.int w .reject .vacuous] .exact bld c flags := by
  cases hs : hasFlag flags Gen.flagStrictArgsCount <;>
  rcases c with x | ⟨b | ⟨_, _⟩, r⟩ <;> (try cases hn : r.isNil) <;> (try cases hc : intClass w b) <;> gs

theorem shape_ephemeral (c : Sexp) (flags : Nat) (bld : List Val → Option Cond)
    (hb : ∀ vs, bld vs = noArgs .assertEphemeral vs) :
    (do if strict flags then checkNil c
        return Cond.assertEphemeral) = interp [] .exact bld c flags := by
  cases hs : hasFlag flags Gen.flagStrictArgsCount <;> cases hn : c.isNil <;> gs

theorem shape_remark (c : Sexp) (flags : Nat) (bld : List Val → Option Cond)
    (hb : ∀ vs, bld vs = noArgs .skip vs) :
    (return Cond.skip : R Cond) = interp [] .ignored bld c flags := by
  gs


theorem memoHint_eq (params : Sexp) :
    (match params with
      | .pair (.atom h) _ =>
        if h.length ≤ 32 then (pure (Cond.createCoin ph amount (if h.isEmpty then none else some h)) : R Cond)
        else pure (Cond.createCoin ph amount none)
      | _ => pure (Cond.createCoin ph amount none)) = .ok (Cond.createCoin ph amount (memoHint params)) := by
  rcases params with x | ⟨h | ⟨_, _⟩, r⟩ <;> try rfl
  cases h with
  | nil => simp [memoHint, pure, Except.pure]
  | cons y t =>
    simp [memoHint, pure, Except.pure]
    split <;> rfl

theorem shape_createCoin (c : Sexp) (flags : Nat) (bld : List Val → Option Cond)
    (hb : ∀ ph v h, bld [.bytes ph, .int v, .hint h] = some (.createCoin ph v h)) :
    (do let ph ← sanitizeHash (← first c) 32
        let c ← rest c
        let node ← first c
        let b ← atomOf node
        let amount ← match sanitizeUint b 8 with
          | .ok v => pure v
          | _ => Except.error Err.reject
        let c ← rest c
        match c with
        | .pair params _ =>
          maybeCheckArgsTerminator c flags
          match params with
          | .pair (.atom h) _ =>
            if h.length ≤ 32 then return Cond.createCoin ph amount (if h.isEmpty then none else some h)
            else return Cond.createCoin ph amount none
          | _ => return Cond.createCoin ph amount none
        | .atom _ =>
          if strict flags then checkNil c
          return Cond.createCoin ph amount none) = interp [.hash32, amountU64] .memos bld c flags := by
  cases hs : hasFlag flags Gen.flagStrictArgsCount <;>
  rcases c with x | ⟨b | ⟨_, _⟩, x | ⟨b2 | ⟨_, _⟩, r⟩⟩ <;> (try by_cases hl : b.length = 32) <;> (try cases hc : intClass 8 b2) <;>
  (try rcases r with x | ⟨params, r2⟩) <;> (try cases hn : Sexp.isNil (.atom x)) <;> (try cases hn : r2.isNil) <;> (try simp only [memoHint_eq]) <;> gs
theorem shape_softfork (c : Sexp) (flags : Nat) (bld : List Val → Option Cond)
    (hb : ∀ vs, bld vs = oneInt (fun cost => .softfork (cost * 10000)) vs) :
    (do let b ← atomOf (← first c)
        match sanitizeUint b 4 with
        | .ok cost => return Cond.softfork (cost * 10000)
        | _ => .error .reject) = interp [costU32] .ignored bld c flags := by
  rcases c with x | ⟨b | ⟨_, _⟩, r⟩ <;> (try cases hc : intClass 4 b) <;> gs

theorem spendId_eq (t : Sexp) (m : Nat) (hm : m < 8) :
    spendIdParse t m = match walk (endpointFields.getD m []) t with
      | some (fs, t') => .ok (m :: keyBytes fs, t')
      | none => .error .reject := by
  have : m = 0 ∨ m = 1 ∨ m = 2 ∨ m = 3 ∨ m = 4 ∨ m = 5 ∨ m = 6 ∨ m = 7 := by omega
  rcases this with h | h | h | h | h | h | h | h <;> subst h <;> simp only [spendIdParse, endpointFields, List.getD_cons_zero, List.getD_cons_succ] <;>
  rcases t with x | ⟨b | ⟨_, _⟩, x | ⟨b2 | ⟨_, _⟩, r⟩⟩ <;> (try by_cases hl : b.length = 32) <;> (try cases hc : intClass 8 b) <;>
   (try by_cases hl2 : b2.length = 32) <;> (try cases hc2 : intClass 8 b2) <;> gs <;> simp [keyBytes, fieldBytes]
/-- the message mode: `sanitize_message_mode` accepts exactly the canonical integers 0 … 63 -/
theorem mode_eq (n : Sexp) :
    sanitizeMessageMode n = match argValue .messageMode n with
      | some (.int v) => .ok v
      | _ => .error .reject := by
  rcases n with b | ⟨_, _⟩
  case pair => rfl
  cases b with
  | nil => simp [sanitizeMessageMode, fitsInSmallAtom, argValue, intClass, headGe128, Minimal, sigBytes, beVal]
  | cons b0 tl =>
    by_cases h0 : b0 ≥ 128
    · have hh : headGe128 (b0 :: tl) = true := by simp [headGe128]; omega
      simp [sanitizeMessageMode, fitsInSmallAtom, argValue, intClass, hh, h0]
    have hh : headGe128 (b0 :: tl) = false := by simp [headGe128]; omega
    by_cases hm : Minimal (b0 :: tl)
    · have hm' := (minimal_iff b0 tl (by omega)).mp hm
      cases tl with
      | nil =>
        have hz : b0 ≠ 0 := by simpa [Minimal] using hm
        have hv : beVal [b0] = b0 := by simp [beVal]
        by_cases h63 : b0 ≤ 63
        · have : b0 / 64 = 0 := by omega
          simp [sanitizeMessageMode, fitsInSmallAtom, argValue, intClass, hh, hm, sigBytes_cons, hz, hv, h63, h0, headLt128, this]
        · have : ¬ b0 / 64 = 0 := by omega
          simp [sanitizeMessageMode, fitsInSmallAtom, argValue, intClass, hh, hm, sigBytes_cons, hz, hv, h63, h0, headLt128, this]
      | cons y t =>
        -- two or more bytes: the value is at least 128
        have hge : 128 ≤ beVal (b0 :: y :: t) := by
          by_cases hz : b0 = 0
          · subst hz
            have hy : ¬ y < 128 := fun hy => hm' (Or.inr ⟨rfl, by simp [headLt128]; exact hy⟩)
            have h1 := beVal_ge_head y t
            have h2 : beVal (0 :: y :: t) = beVal (y :: t) := by rw [beVal_cons]; simp
            have h3 : 1 * 256 ^ t.length ≤ y * 256 ^ t.length := Nat.mul_le_mul_right _ (by omega)
            have h4 : 0 < 256 ^ t.length := Nat.pow_pos (by decide)
            have h5 : 128 * 1 ≤ y * 256 ^ t.length := Nat.mul_le_mul (by omega) h4
            omega
          · have h1 := beVal_ge_head b0 (y :: t)
            have h4 : 256 ^ 1 ≤ 256 ^ (y :: t).length := Nat.pow_le_pow_right (by decide) (by simp)
            have h5 : 1 * 256 ^ (y :: t).length ≤ b0 * 256 ^ (y :: t).length := Nat.mul_le_mul_right _ (by omega)
            omega
        have hrej : sanitizeMessageMode (.atom (b0 :: y :: t)) = .error .reject := by
          simp only [sanitizeMessageMode]
          cases hf : fitsInSmallAtom (b0 :: y :: t) with
          | none => rfl
          | some mode =>
            have : mode = beVal (b0 :: y :: t) := by
              simp only [fitsInSmallAtom] at hf
              split at hf
              · cases hf
              · injection hf with hf; exact hf.symm
            subst this
            have : ¬ beVal (b0 :: y :: t) / 64 = 0 := by omega
            simp [this]
        rw [hrej]
        simp only [argValue, intClass, hh, hm, if_true, Bool.false_eq_true, if_false, sigBytes_cons]
        by_cases hl : (if b0 = 0 then (y :: t).length else (y :: t).length + 1) ≤ 1
        · rw [if_pos hl]
          have : ¬ beVal (b0 :: y :: t) ≤ 63 := by omega
          simp [this]
        · rw [if_neg hl]
    · have hm' : (b0 :: tl = [0] ∨ b0 = 0 ∧ headLt128 tl = true) :=
        Classical.not_not.mp (fun h => hm ((minimal_iff b0 tl (by omega)).mpr h))
      have hf : fitsInSmallAtom (b0 :: tl) = none := by
        simp only [fitsInSmallAtom]
        rw [if_pos]
        rcases hm' with h | h
        · injection h with h1 h2; subst h1; subst h2; simp
        · exact Or.inr (Or.inr (Or.inr (Or.inl h)))
      simp [sanitizeMessageMode, hf, argValue, intClass, hh, hm]

theorem shape_send (c : Sexp) (flags : Nat) (bld : List Val → Option Cond)
    (hb : ∀ m msg k, bld [.int m, .bytes msg, .key k] = some (.sendMessage (m / 8 % 8) k msg)) :
    (do let mode ← sanitizeMessageMode (← first c)
        let c ← rest c
        let msg ← sanitizeAnnounceMsg (← first c)
        let c ← rest c
        let (dst, c) ← spendIdParse c (mode % 8)
        if strict flags then checkNil c
        return Cond.sendMessage (mode / 8 % 8) dst msg) = interp [.messageMode, .announceMsg] (.endpoint .low) bld c flags := by
  rcases c with x | ⟨a, r⟩
  · gs
  simp only [Cond.first, rest, bind, Except.bind, mode_eq, interp, walk]
  generalize hv : argValue .messageMode a = mv
  rcases mv with _ | (_ | v | _ | _ | _) <;> rcases r with x | ⟨b2 | ⟨_, _⟩, t⟩ <;>
    (try by_cases hl2 : b2.length ≤ 1024) <;> (try gs)
  have hsp := spendId_eq t (v % 8) (Nat.mod_lt _ (by decide))
  simp only [List.getD_eq_getElem?_getD] at hsp
  rw [hsp]
  simp only [Side.select]
  cases hw : walk (endpointFields[v % 8]?.getD []) t with
  | none => simp
  | some p =>
    obtain ⟨fs, t'⟩ := p
    by_cases hs : hasFlag flags Gen.flagStrictArgsCount = true <;> cases hn : t'.isNil <;> simp [hs, hn, hb]
theorem shape_receive (c : Sexp) (flags : Nat) (bld : List Val → Option Cond)
    (hb : ∀ m msg k, bld [.int m, .bytes msg, .key k] = some (.receiveMessage k (m % 8) msg)) :
    (do let mode ← sanitizeMessageMode (← first c)
        let c ← rest c
        let msg ← sanitizeAnnounceMsg (← first c)
        let c ← rest c
        let (src, c) ← spendIdParse c (mode / 8 % 8)
        if strict flags then checkNil c
        return Cond.receiveMessage src (mode % 8) msg) = interp [.messageMode, .announceMsg] (.endpoint .high) bld c flags := by
  rcases c with x | ⟨a, r⟩
  · gs
  simp only [Cond.first, rest, bind, Except.bind, mode_eq, interp, walk]
  generalize hv : argValue .messageMode a = mv
  rcases mv with _ | (_ | v | _ | _ | _) <;> rcases r with x | ⟨b2 | ⟨_, _⟩, t⟩ <;>
    (try by_cases hl2 : b2.length ≤ 1024) <;> (try gs)
  have hsp := spendId_eq t (v / 8 % 8) (Nat.mod_lt _ (by decide))
  simp only [List.getD_eq_getElem?_getD] at hsp
  rw [hsp]
  simp only [Side.select]
  cases hw : walk (endpointFields[v / 8 % 8]?.getD []) t with
  | none => simp
  | some p =>
    obtain ⟨fs, t'⟩ := p
    by_cases hs : hasFlag flags Gen.flagStrictArgsCount = true <;> cases hn : t'.isNil <;> simp [hs, hn, hb]


/-! ## opcode by opcode -/

theorem isAggSig_iff (op : Nat) : isAggSig op = true ↔ 43 ≤ op ∧ op ≤ 50 := by
  simp only [isAggSig, Bool.or_eq_true, decide_eq_true_eq]
  simp only [Gen.opAggSigUnsafe, Gen.opAggSigMe, Gen.opAggSigPuzzle, Gen.opAggSigPuzzleAmount, Gen.opAggSigParent,
    Gen.opAggSigAmount, Gen.opAggSigParentPuzzle, Gen.opAggSigParentAmount]
  omega

theorem pa_1 (c : Sexp) (flags : Nat) : parseArgs c 1 flags = specParseArgs c 1 flags := by
  select_branch
  exact shape_remark c flags _ (fun _ => rfl)
theorem pa_43 (c : Sexp) (flags : Nat) : parseArgs c 43 flags = specParseArgs c 43 flags := by
  select_branch
  exact shape_aggSig c flags _ _ (fun _ => rfl)
theorem pa_44 (c : Sexp) (flags : Nat) : parseArgs c 44 flags = specParseArgs c 44 flags := by
  select_branch
  exact shape_aggSig c flags _ _ (fun _ => rfl)
theorem pa_45 (c : Sexp) (flags : Nat) : parseArgs c 45 flags = specParseArgs c 45 flags := by
  select_branch
  exact shape_aggSig c flags _ _ (fun _ => rfl)
theorem pa_46 (c : Sexp) (flags : Nat) : parseArgs c 46 flags = specParseArgs c 46 flags := by
  select_branch
  exact shape_aggSig c flags _ _ (fun _ => rfl)
theorem pa_47 (c : Sexp) (flags : Nat) : parseArgs c 47 flags = specParseArgs c 47 flags := by
  select_branch
  exact shape_aggSig c flags _ _ (fun _ => rfl)
theorem pa_48 (c : Sexp) (flags : Nat) : parseArgs c 48 flags = specParseArgs c 48 flags := by
  select_branch
  exact shape_aggSig c flags _ _ (fun _ => rfl)
theorem pa_49 (c : Sexp) (flags : Nat) : parseArgs c 49 flags = specParseArgs c 49 flags := by
  select_branch
  exact shape_aggSig c flags _ _ (fun _ => rfl)
theorem pa_50 (c : Sexp) (flags : Nat) : parseArgs c 50 flags = specParseArgs c 50 flags := by
  select_branch
  exact shape_aggSig c flags _ _ (fun _ => rfl)
theorem pa_51 (c : Sexp) (flags : Nat) : parseArgs c 51 flags = specParseArgs c 51 flags := by
  select_branch
  exact shape_createCoin c flags _ (fun _ _ _ => rfl)
theorem pa_52 (c : Sexp) (flags : Nat) : parseArgs c 52 flags = specParseArgs c 52 flags := by
  select_branch
  exact shape_amount1 c flags _ _ (fun _ => rfl)
theorem pa_60 (c : Sexp) (flags : Nat) : parseArgs c 60 flags = specParseArgs c 60 flags := by
  select_branch
  exact shape_msg1 c flags _ _ (fun _ => rfl)
theorem pa_61 (c : Sexp) (flags : Nat) : parseArgs c 61 flags = specParseArgs c 61 flags := by
  select_branch
  exact shape_hash1 c flags _ _ (fun _ => rfl)
theorem pa_62 (c : Sexp) (flags : Nat) : parseArgs c 62 flags = specParseArgs c 62 flags := by
  select_branch
  exact shape_msg1 c flags _ _ (fun _ => rfl)
theorem pa_63 (c : Sexp) (flags : Nat) : parseArgs c 63 flags = specParseArgs c 63 flags := by
  select_branch
  exact shape_hash1 c flags _ _ (fun _ => rfl)
theorem pa_64 (c : Sexp) (flags : Nat) : parseArgs c 64 flags = specParseArgs c 64 flags := by
  select_branch
  exact shape_hash1 c flags _ _ (fun _ => rfl)
theorem pa_65 (c : Sexp) (flags : Nat) : parseArgs c 65 flags = specParseArgs c 65 flags := by
  select_branch
  exact shape_hash1 c flags _ _ (fun _ => rfl)
theorem pa_66 (c : Sexp) (flags : Nat) : parseArgs c 66 flags = specParseArgs c 66 flags := by
  select_branch
  exact shape_send c flags _ (fun _ _ _ => rfl)
theorem pa_67 (c : Sexp) (flags : Nat) : parseArgs c 67 flags = specParseArgs c 67 flags := by
  select_branch
  exact shape_receive c flags _ (fun _ _ _ => rfl)
theorem pa_70 (c : Sexp) (flags : Nat) : parseArgs c 70 flags = specParseArgs c 70 flags := by
  select_branch
  exact shape_hash1 c flags _ _ (fun _ => rfl)
theorem pa_71 (c : Sexp) (flags : Nat) : parseArgs c 71 flags = specParseArgs c 71 flags := by
  select_branch
  exact shape_hash1 c flags _ _ (fun _ => rfl)
theorem pa_72 (c : Sexp) (flags : Nat) : parseArgs c 72 flags = specParseArgs c 72 flags := by
  select_branch
  exact shape_hash1 c flags _ _ (fun _ => rfl)
theorem pa_73 (c : Sexp) (flags : Nat) : parseArgs c 73 flags = specParseArgs c 73 flags := by
  select_branch
  exact shape_amount1 c flags _ _ (fun _ => rfl)
theorem pa_74 (c : Sexp) (flags : Nat) : parseArgs c 74 flags = specParseArgs c 74 flags := by
  select_branch
  exact shape_birth c flags _ _ _ (fun _ => rfl)
theorem pa_75 (c : Sexp) (flags : Nat) : parseArgs c 75 flags = specParseArgs c 75 flags := by
  select_branch
  exact shape_birth c flags _ _ _ (fun _ => rfl)
theorem pa_76 (c : Sexp) (flags : Nat) : parseArgs c 76 flags = specParseArgs c 76 flags := by
  select_branch
  exact shape_ephemeral c flags _ (fun _ => rfl)
theorem pa_80 (c : Sexp) (flags : Nat) : parseArgs c 80 flags = specParseArgs c 80 flags := by
  select_branch
  exact shape_after c flags _ _ _ _ (fun _ => rfl)
theorem pa_81 (c : Sexp) (flags : Nat) : parseArgs c 81 flags = specParseArgs c 81 flags := by
  select_branch
  exact shape_after c flags _ _ _ _ (fun _ => rfl)
theorem pa_82 (c : Sexp) (flags : Nat) : parseArgs c 82 flags = specParseArgs c 82 flags := by
  select_branch
  exact shape_after c flags _ _ _ _ (fun _ => rfl)
theorem pa_83 (c : Sexp) (flags : Nat) : parseArgs c 83 flags = specParseArgs c 83 flags := by
  select_branch
  exact shape_after c flags _ _ _ _ (fun _ => rfl)
theorem pa_84 (c : Sexp) (flags : Nat) : parseArgs c 84 flags = specParseArgs c 84 flags := by
  select_branch
  exact shape_before c flags _ _ _ _ (fun _ => rfl)
theorem pa_85 (c : Sexp) (flags : Nat) : parseArgs c 85 flags = specParseArgs c 85 flags := by
  select_branch
  exact shape_before c flags _ _ _ _ (fun _ => rfl)
theorem pa_86 (c : Sexp) (flags : Nat) : parseArgs c 86 flags = specParseArgs c 86 flags := by
  select_branch
  exact shape_before c flags _ _ _ _ (fun _ => rfl)
theorem pa_87 (c : Sexp) (flags : Nat) : parseArgs c 87 flags = specParseArgs c 87 flags := by
  select_branch
  exact shape_before c flags _ _ _ _ (fun _ => rfl)

theorem pa_90 (c : Sexp) (flags : Nat) : parseArgs c 90 flags = specParseArgs c 90 flags := by
  select_branch
  cases hu : hasFlag flags Gen.flagNoUnknownConds
  · rw [if_neg (by simp)]
    simp only [specParseArgs, hu]
    exact shape_softfork c flags _ (fun _ => rfl)
  · simp [specParseArgs, hu]; rfl

/-- two-byte opcodes -/
theorem pa_twoByte (c : Sexp) (op flags : Nat) (h : 256 ≤ op ∧ op ≤ 65535) : parseArgs c op flags = specParseArgs c op flags := by
  have hg : grammar op = some ([], .ignored) := by simp [grammar, h]
  have hk : unknownClass op = true := by simp [unknownClass, h]
  have hbld : build op [] = some (.softfork (Spec.unknownConditionCost op)) := by simp [build, h, noArgs]
  have hna : ¬ isAggSig op = true := by rw [isAggSig_iff]; omega
  unfold parseArgs
  rw [if_neg hna, if_neg (by simp [Gen.opCreateCoin]; omega), if_neg (by simp [Gen.opSoftfork]; omega), if_pos h]
  simp only [specParseArgs, hg, hk, Bool.true_and]
  cases hu : hasFlag flags Gen.flagNoUnknownConds
  · simp [interp, walk, tailRule, terminatorOk, hbld, pure, Except.pure]
    exact C04.unknown_cost_fn op
  · simp

theorem lookup_none {β : Type} (k : Nat) : ∀ (l : List (Nat × β)), k ∉ l.map Prod.fst → l.lookup k = none
  | [], _ => rfl
  | (a, b) :: l, h => by
    simp only [List.map_cons, List.mem_cons, not_or] at h
    have : (k == a) = false := by simpa using h.1
    simp only [List.lookup, this]
    exact lookup_none k l h.2

/-- the opcodes of the one-byte table are exactly the whitelist of `parse_opcode` -/
theorem table_keys : oneByteTable.map Prod.fst = Gen.opcodeWhitelist := by decide

/-- opcode numbers without a table entry -/
theorem pa_unknown (c : Sexp) (op flags : Nat) (hr : ¬ (256 ≤ op ∧ op ≤ 65535)) (hw : op ∉ Gen.opcodeWhitelist) :
    parseArgs c op flags = specParseArgs c op flags := by
  have hg : grammar op = none := by
    simp only [grammar, if_neg hr]
    exact lookup_none op _ (by rw [table_keys]; exact hw)
  simp only [Gen.opcodeWhitelist, List.mem_cons, List.not_mem_nil, or_false, not_or] at hw
  have hna : ¬ isAggSig op = true := by rw [isAggSig_iff]; omega
  rw [specParseArgs, hg]
  simp [parseArgs, hna, hr, hw, Gen.opCreateCoin, Gen.opReserveFee,
      Gen.opCreateCoinAnnouncement, Gen.opAssertCoinAnnouncement, Gen.opCreatePuzzleAnnouncement, Gen.opAssertPuzzleAnnouncement,
      Gen.opAssertConcurrentSpend, Gen.opAssertConcurrentPuzzle, Gen.opSendMessage, Gen.opReceiveMessage, Gen.opAssertMyCoinId,
      Gen.opAssertMyParentId, Gen.opAssertMyPuzzlehash, Gen.opAssertMyAmount, Gen.opAssertMyBirthSeconds, Gen.opAssertMyBirthHeight,
      Gen.opAssertEphemeral, Gen.opAssertSecondsRelative, Gen.opAssertSecondsAbsolute, Gen.opAssertHeightRelative,
      Gen.opAssertHeightAbsolute, Gen.opAssertBeforeSecondsRelative, Gen.opAssertBeforeSecondsAbsolute,
      Gen.opAssertBeforeHeightRelative, Gen.opAssertBeforeHeightAbsolute, Gen.opRemark, Gen.opSoftfork]

/-- **The model's argument parser IS the table-driven grammar**: for every tree, every opcode number
(recognised or not) and every flag set -/
theorem parseArgs_eq_spec (c : Sexp) (op flags : Nat) : parseArgs c op flags = specParseArgs c op flags := by
  by_cases hr : 256 ≤ op ∧ op ≤ 65535
  · exact pa_twoByte c op flags hr
  by_cases hw : op ∈ Gen.opcodeWhitelist
  · simp only [Gen.opcodeWhitelist, List.mem_cons, List.not_mem_nil, or_false] at hw
    rcases hw with h|h|h|h|h|h|h|h|h|h|h|h|h|h|h|h|h|h|h|h|h|h|h|h|h|h|h|h|h|h|h|h|h|h|h <;> subst h
    · exact pa_1 c flags
    · exact pa_43 c flags
    · exact pa_44 c flags
    · exact pa_45 c flags
    · exact pa_46 c flags
    · exact pa_47 c flags
    · exact pa_48 c flags
    · exact pa_49 c flags
    · exact pa_50 c flags
    · exact pa_51 c flags
    · exact pa_52 c flags
    · exact pa_60 c flags
    · exact pa_61 c flags
    · exact pa_62 c flags
    · exact pa_63 c flags
    · exact pa_64 c flags
    · exact pa_65 c flags
    · exact pa_66 c flags
    · exact pa_67 c flags
    · exact pa_70 c flags
    · exact pa_71 c flags
    · exact pa_72 c flags
    · exact pa_73 c flags
    · exact pa_74 c flags
    · exact pa_75 c flags
    · exact pa_76 c flags
    · exact pa_80 c flags
    · exact pa_81 c flags
    · exact pa_82 c flags
    · exact pa_83 c flags
    · exact pa_84 c flags
    · exact pa_85 c flags
    · exact pa_86 c flags
    · exact pa_87 c flags
    · exact pa_90 c flags
  · exact pa_unknown c op flags hr hw


/-! ## which opcode yields which condition (a finite check over the table of constructors) -/

theorem noArgs_some {c c' : Cond} {vs : List Val} (h : noArgs c vs = some c') : c' = c := by
  unfold noArgs at h; split at h
  · injection h with h; exact h.symm
  · cases h

theorem oneBytes_some {mk : Bytes → Cond} {c' : Cond} {vs : List Val} (h : oneBytes mk vs = some c') : ∃ b, c' = mk b := by
  unfold oneBytes at h; split at h
  · injection h with h; exact ⟨_, h.symm⟩
  · cases h

theorem twoBytes_some {mk : Bytes → Bytes → Cond} {c' : Cond} {vs : List Val} (h : twoBytes mk vs = some c') :
    ∃ a b, c' = mk a b := by
  unfold twoBytes at h; split at h
  · injection h with h; exact ⟨_, _, h.symm⟩
  · cases h

theorem oneInt_some {mk : Nat → Cond} {c' : Cond} {vs : List Val} (h : oneInt mk vs = some c') : ∃ v, c' = mk v := by
  unfold oneInt at h; split at h
  · injection h with h; exact ⟨_, h.symm⟩
  · cases h

theorem lockInt_some {mk : Nat → Cond} {vac c' : Cond} {vs : List Val} (h : lockInt mk vac vs = some c') :
    (∃ v, c' = mk v) ∨ c' = vac := by
  unfold lockInt at h; split at h
  · injection h with h; exact Or.inl ⟨_, h.symm⟩
  · injection h with h; exact Or.inr h.symm
  · cases h

/-- discharge `h : build-entry vs = some cva` when the entry cannot yield the constructor of `cva` -/
macro "wrong_ctor" h:ident : tactic =>
  `(tactic| first
    | (unfold noArgs at $h:ident; split at $h:ident <;> cases $h:ident)
    | (unfold oneBytes at $h:ident; split at $h:ident <;> cases $h:ident)
    | (unfold twoBytes at $h:ident; split at $h:ident <;> cases $h:ident)
    | (unfold oneInt at $h:ident; split at $h:ident <;> cases $h:ident)
    | (unfold lockInt at $h:ident; split at $h:ident <;> cases $h:ident)
    | (split at $h:ident <;> cases $h:ident))

/-- only the entry of opcode 66 builds a SEND_MESSAGE condition -/
theorem build_send {op : Nat} {vs : List Val} {m : Nat} {d g : Bytes} (h : build op vs = some (.sendMessage m d g)) :
    op = 66 := by
  unfold build at h
  split at h
  · wrong_ctor h
  · split at h
    all_goals first
      | rfl
      | cases h
      | wrong_ctor h

/-- only the entry of opcode 67 builds a RECEIVE_MESSAGE condition -/
theorem build_receive {op : Nat} {vs : List Val} {src : Bytes} {m : Nat} {g : Bytes}
    (h : build op vs = some (.receiveMessage src m g)) : op = 67 := by
  unfold build at h
  split at h
  · wrong_ctor h
  · split at h
    all_goals first
      | rfl
      | cases h
      | wrong_ctor h

/-- only the entry of opcode 51 builds a CREATE_COIN condition -/
theorem build_createCoin {op : Nat} {vs : List Val} {ph : Bytes} {a : Nat} {hint : Option Bytes}
    (h : build op vs = some (.createCoin ph a hint)) : op = 51 := by
  unfold build at h
  split at h
  · wrong_ctor h
  · split at h
    all_goals first
      | rfl
      | cases h
      | wrong_ctor h

/-- an accepted argument list yields what the table of constructors builds from some values -/
theorem interp_ok {kinds : List ArgKind} {tail : Tail} {bld : List Val → Option Cond} {c : Sexp} {flags : Nat} {cva : Cond}
    (h : interp kinds tail bld c flags = .ok cva) : ∃ vs, bld vs = some cva := by
  unfold interp at h
  split at h
  · cases h
  · split at h
    · cases h
    · split at h
      · split at h
        · rename_i hb; injection h with h; subst h; exact ⟨_, hb⟩
        · cases h
      · cases h

theorem specParseArgs_ok {c : Sexp} {op flags : Nat} {cva : Cond} (h : specParseArgs c op flags = .ok cva) :
    ∃ kinds tail vs, grammar op = some (kinds, tail) ∧ build op vs = some cva := by
  unfold specParseArgs at h
  split at h
  · cases h
  · rename_i kinds tail hg
    split at h
    · cases h
    · obtain ⟨vs, hv⟩ := interp_ok h
      exact ⟨kinds, tail, vs, hg, hv⟩

/-! ## the condition list, the spend, the generator output -/

end ChiaModel.Grammar

namespace ChiaModel.Rules
open ChiaModel ChiaModel.Cond ChiaModel.Grammar

theorem parseItem_eq_spec (flags : Nat) (c : Sexp) : parseItem flags c = specParseItem flags c := by
  rcases c with x | ⟨opn, args⟩
  · rfl
  · simp only [parseItem, specParseItem, Cond.first, rest, bind, Except.bind, parseArgs_eq_spec]
    cases parseOpcode opn with
    | none => rfl
    | some op => simp only; cases specParseArgs args op flags <;> rfl

theorem parseAll_eq_spec (flags : Nat) : ∀ cs : List Sexp, parseAll flags cs = specParseAll flags cs
  | [] => rfl
  | c :: cs => by
    simp only [parseAll, specParseAll, bind, Except.bind, parseItem_eq_spec, parseAll_eq_spec flags cs]
    cases specParseItem flags c <;> cases specParseAll flags cs <;> rfl

theorem parseSpend_eq_spec (flags : Nat) (sp : Sexp) : parseSpend flags sp = specParseSpend flags sp := by
  simp only [parseSpend, specParseSpend, parseAll_eq_spec]
  rfl

theorem parseSpendList_eq_spec (flags : Nat) : ∀ l : List Sexp, parseSpendList flags l = specParseSpendList flags l
  | [] => rfl
  | sp :: l => by
    simp only [parseSpendList, specParseSpendList, parseSpend_eq_spec, parseSpendList_eq_spec flags l]
    rfl

theorem parseBundle_eq_spec (flags : Nat) (t : Sexp) : parseBundle flags t = specParseBundle flags t := by
  cases t with
  | atom x => rfl
  | pair spends ext =>
    simp only [parseBundle, specParseBundle, parseSpendList_eq_spec]
    rfl

end ChiaModel.Rules

/-! ## value-level reading of the integer classes (byte strings) -/

namespace ChiaModel.Grammar
open ChiaModel ChiaModel.Cond

theorem classToSan_inj {a b : IntClass} (h : classToSan a = classToSan b) : a = b := by
  cases a <;> cases b <;> simp [classToSan] at h <;> first | rfl | (subst h; rfl)

/-- neg ⇔ the first byte has its top bit set ⇔ (for byte strings) the two's-complement value is negative -/
theorem intClass_neg_iff (w : Nat) (b : Bytes) : intClass w b = .neg ↔ headGe128 b = true := by
  constructor
  · intro h
    have := sanitizeUint_eq_class b w
    rw [h] at this
    exact (C11.sanitizeUint_neg b w).mp this
  · intro h
    exact classToSan_inj (by rw [← sanitizeUint_eq_class]; exact (C11.sanitizeUint_neg b w).mpr h)

theorem headGe128_iff_negative (b : Bytes) (hb : isBytes b) : headGe128 b = true ↔ intOfBytes b < 0 := by
  constructor
  · intro h
    rw [C11.intOfBytes_neg_head b h]
    have := beVal_lt b hb
    omega
  · intro h
    cases hh : headGe128 b with
    | true => rfl
    | false => rw [intOfBytes_of_head b hh] at h; omega

/-- bad ⇔ non-negative with a redundant leading zero byte -/
theorem intClass_bad_iff (w : Nat) (b : Bytes) : intClass w b = .bad ↔ headGe128 b = false ∧ ¬ Minimal b := by
  unfold intClass
  cases hh : headGe128 b
  · by_cases hm : Minimal b
    · simp [hm]; split <;> simp
    · simp [hm]
  · simp

/-- canon v ⇔ non-negative, no redundant byte, value `v`, and `v` fits `w` bytes — nothing is truncated -/
theorem intClass_canon_iff (w : Nat) (b : Bytes) (hb : isBytes b) (v : Nat) :
    intClass w b = .canon v ↔ headGe128 b = false ∧ Minimal b ∧ beVal b = v ∧ v < 256 ^ w := by
  constructor
  · intro h
    have hs : sanitizeUint b w = .ok v := by rw [sanitizeUint_eq_class, h]; rfl
    obtain ⟨h1, h2, h3, h4⟩ := C11.sanitizeUint_ok b w v hb hs
    exact ⟨h2, h3, h1, h4⟩
  · rintro ⟨h1, h2, h3, h4⟩
    subst h3
    exact classToSan_inj (by rw [← sanitizeUint_eq_class]; exact C11.sanitizeUint_complete b w hb h1 h2 h4)

/-- over ⇔ non-negative, no redundant byte, and the value does not fit `w` bytes -/
theorem intClass_over_iff (w : Nat) (b : Bytes) (hb : isBytes b) :
    intClass w b = .over ↔ headGe128 b = false ∧ Minimal b ∧ 256 ^ w ≤ beVal b := by
  constructor
  · intro h
    have hs : sanitizeUint b w = .posOverflow := by rw [sanitizeUint_eq_class, h]; rfl
    exact C11.sanitizeUint_pos b w hs
  · rintro ⟨h1, h2, h3⟩
    cases hc : intClass w b with
    | over => rfl
    | canon v => have := ((intClass_canon_iff w b hb v).mp hc); omega
    | neg => rw [(intClass_neg_iff w b).mp hc] at h1; cases h1
    | bad => exact absurd h2 ((intClass_bad_iff w b).mp hc).2

/-- for widths up to 8 bytes an accepted integer atom IS the canonical encoding `canonNat` of its value … -/
theorem intClass_canon_canonNat (w : Nat) (hw : w ≤ 8) (b : Bytes) (hb : isBytes b) (v : Nat)
    (h : intClass w b = .canon v) : b = canonNat v ∧ v < 256 ^ w := by
  obtain ⟨h1, h2, h3, h4⟩ := (intClass_canon_iff w b hb v).mp h
  have : (256 : Nat) ^ w ≤ 256 ^ 8 := Nat.pow_le_pow_right (by decide) hw
  exact ⟨C11.canon_unique b v hb h1 h2 h3 (by have : (256 : Nat) ^ 8 = 2 ^ 64 := by decide
                                              omega), h4⟩

/-- … and conversely the canonical encoding of every value that fits is accepted with that value -/
theorem intClass_canonNat (w : Nat) (hw : w ≤ 8) (v : Nat) (hv : v < 256 ^ w) : intClass w (canonNat v) = .canon v := by
  have h64 : v < 2 ^ 64 := by
    have : (256 : Nat) ^ w ≤ 256 ^ 8 := Nat.pow_le_pow_right (by decide) hw
    have : (256 : Nat) ^ 8 = 2 ^ 64 := by decide
    omega
  obtain ⟨h1, h2, h3, h4⟩ := C11.canonNat_spec v h64
  have hh : headGe128 (canonNat v) = false := by
    cases hx : headGe128 (canonNat v) with
    | false => rfl
    | true =>
      have := (headGe128_iff_negative _ h4).mp hx
      rw [h2] at this; omega
  exact (intClass_canon_iff w _ h4 v).mpr ⟨hh, h3, h1, hv⟩

/-! ## small concrete inputs for the boundary examples of Props/C01.lean -/

/-- the verdict of the table-driven grammar on the argument list `args` ending in `terminator` -/
def tableVerdict (op flags : Nat) (args : List Sexp) (terminator : Sexp := .atom []) : Option Cond :=
  match specParseArgs (args.foldr .pair terminator) op flags with
  | .ok c => some c
  | .error _ => none

def STRICT : Nat := Gen.flagStrictArgsCount
/-- the atom of `n` bytes `x` -/
def bytesN (n : Nat) (x : Nat := 7) : Sexp := .atom (List.replicate n x)

end ChiaModel.Grammar
