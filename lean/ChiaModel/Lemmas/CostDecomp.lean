import ChiaModel.Lemmas.CostTable
import ChiaModel.Lemmas.ExecCost
import ChiaModel.Lemmas.CostNative
/-
C04 on the execution paths: the reported cost decomposes as byte cost + execution cost + condition
cost, and the per-spend bookkeeping adds up.
-/
namespace ChiaModel.Gn
open ChiaModel ChiaModel.Cond

/-- `process_single_spend` leaves the bundle-level execution cost alone -/
theorem processSingleSpend_exec {env : Env} {ret : Bundle} {st : PState} {parent ph amount conds : Sexp} {cc m : Nat}
    {ret' : Bundle} {st' : PState} {m' : Nat}
    (h : processSingleSpend env ret st parent ph amount conds cc m = .ok ((ret', st'), m')) :
    ret'.executionCost = ret.executionCost := by
  obtain ⟨s0, m1, s, hh, _, _, hl, hf⟩ := processSingleSpend_ok h
  obtain ⟨parentId, puzzleHash, amountBuf, myAmount, _, _, _, _, _, _, _, rfl⟩ := spendHeader_ok hh
  have he := condLoop_exec hl
  have hnv : ∀ x : CSt, (newSpendVisit env x).ret = x.ret := by
    intro x; unfold newSpendVisit; split <;> rfl
  rw [hnv] at he
  simp only [finishSpend] at hf
  injection hf with hf1 hf2
  rw [hf1]; simpa [bump] using he

theorem runCharge_ok {r : RunRes} {m : Nat} {p : Nat × Sexp} {m' : Nat} (h : runCharge r m = .ok (p, m')) :
    r = some p ∧ m = m' + p.1 := by
  unfold runCharge runWithLimit subtractCost at h
  cases r with
  | none => simp at h
  | some q =>
    obtain ⟨c, out⟩ := q
    simp only at h
    by_cases hc : c > m
    · simp [hc] at h
    · simp only [hc, if_false] at h
      injection h with h; injection h with h1 h2
      subst h1; subst h2
      exact ⟨rfl, by simp only; omega⟩

/-- the native spend loop: what is subtracted from the countdown is exactly what is added to the
execution cost and the condition cost -/
theorem nativeLoop_cost (env : Env) (puz : Nat → RunRes) :
    ∀ (t : Sexp) i ret st n m ret' st' m', nativeLoop env puz t i ret st n m = .ok ((ret', st'), m') →
      m + ret.executionCost + ret.conditionCost = m' + ret'.executionCost + ret'.conditionCost := by
  intro t
  induction t with
  | atom b =>
    intro i ret st n m ret' st' m' h
    cases b with
    | nil => simp only [nativeLoop] at h; injection h with h; injection h with h1 h2; injection h1 with h1 h3; subst h1; subst h2; rfl
    | cons x xs => simp [nativeLoop] at h
  | pair spend nxt _ ih =>
    intro i ret st n m ret' st' m' h
    rw [nativeLoop_pair] at h
    by_cases hn : n = 0
    · rw [if_pos hn] at h; cases h
    rw [if_neg hn] at h
    cases he : extract5 spend with
    | none => rw [he] at h; cases h
    | some q =>
      obtain ⟨parent, puzzle, amount, sol, ext⟩ := q
      rw [he] at h; simp only [nativeStep] at h
      obtain ⟨⟨p, m1⟩, hr, h⟩ := bind_ok h
      obtain ⟨⟨⟨r1, s1⟩, m2⟩, h1, h⟩ := bind_ok h
      simp only at h1 h
      obtain ⟨_, e1⟩ := runCharge_ok hr
      obtain ⟨_, c2, c3⟩ := processSingleSpend_cost h1
      have x1 := processSingleSpend_exec h1
      have i1 := ih (i + 1) r1 s1 (n - 1) m2 ret' st' m' h
      simp only at c2 x1
      omega

theorem bundleLoop_cost (env : Env) (puz : Nat → RunRes) :
    ∀ (l : List CoinSpendM) i ret st m ret' st' m', bundleLoop env puz l i ret st m = .ok ((ret', st'), m') →
      m + ret.executionCost + ret.conditionCost = m' + ret'.executionCost + ret'.conditionCost := by
  intro l
  induction l with
  | nil =>
    intro i ret st m ret' st' m' h
    simp only [bundleLoop] at h; injection h with h; injection h with h1 h2; injection h1 with h1 h3; subst h1; subst h2; rfl
  | cons cs rest ih =>
    intro i ret st m ret' st' m' h
    rw [bundleLoop_cons] at h
    simp only [bundleStep] at h
    obtain ⟨⟨p, m1⟩, hr, h⟩ := bind_ok h
    simp only at h
    by_cases hp : cs.puzzleHash ≠ Sexp.treeHash cs.puzzle
    · rw [if_pos hp] at h; cases h
    rw [if_neg hp] at h
    obtain ⟨⟨⟨r1, s1⟩, m2⟩, h1, h⟩ := bind_ok h
    simp only at h1 h
    obtain ⟨_, e1⟩ := runCharge_ok hr
    obtain ⟨_, c2, c3⟩ := processSingleSpend_cost h1
    have x1 := processSingleSpend_exec h1
    have i1 := ih (i + 1) r1 s1 m2 ret' st' m' h
    simp only at c2 x1
    omega

end ChiaModel.Gn
