import ChiaModel.Lemmas.StreamableComb
/-!
Packed option pair (`utils::parse`), and sequencing helpers.
-/
namespace ChiaModel.Streamable
open ChiaModel

theorem readUint1_ok {b r : Bytes} {x : Nat} : (readUint 1 b).out = .ok (x, r) ↔ b = x :: r := by
  rw [readUint_ok]
  constructor
  · rintro ⟨c, rfl, hl, rfl⟩
    match c, hl with
    | [y], _ => simp [beVal]
  · rintro rfl
    exact ⟨[x], rfl, rfl, by simp [beVal]⟩

theorem decOptPair_ok {f g : Dec} {b r : Bytes} {v : V} :
    (decOptPair f g b).out = .ok (v, r) ↔
      ∃ k b', b = k :: b' ∧
        ((k = 0 ∧ r = b' ∧ v = .tup [.none, .none]) ∨
         (k = 1 ∧ ∃ x, (f b').out = .ok (x, r) ∧ v = .tup [.some x, .none]) ∨
         (k = 2 ∧ ∃ y, (g b').out = .ok (y, r) ∧ v = .tup [.none, .some y]) ∨
         (k = 3 ∧ ∃ x r1 y, (f b').out = .ok (x, r1) ∧ (g r1).out = .ok (y, r) ∧ v = .tup [.some x, .some y])) := by
  unfold decOptPair
  rw [Res.bind_ok]
  constructor
  · rintro ⟨⟨k, b'⟩, h1, h2⟩
    have hb := readUint1_ok.mp h1
    subst hb
    refine ⟨k, b', rfl, ?_⟩
    simp only at h2
    by_cases h0 : k = 0
    · subst h0
      simp only [if_true, Res.pure_out] at h2
      injection h2 with h2; injection h2 with e1 e2; subst e1; subst e2
      exact Or.inl ⟨rfl, rfl, rfl⟩
    · by_cases h1' : k = 1
      · subst h1'
        simp only [if_neg h0, if_true] at h2
        obtain ⟨⟨x, r2⟩, hf, h3⟩ := Res.bind_ok.mp h2
        simp only [Res.pure_out] at h3
        injection h3 with h3; injection h3 with e1 e2; subst e1; subst e2
        exact Or.inr (Or.inl ⟨rfl, x, hf, rfl⟩)
      · by_cases h2' : k = 2
        · subst h2'
          simp only [if_neg h0, if_neg h1', if_true] at h2
          obtain ⟨⟨y, r2⟩, hg, h3⟩ := Res.bind_ok.mp h2
          simp only [Res.pure_out] at h3
          injection h3 with h3; injection h3 with e1 e2; subst e1; subst e2
          exact Or.inr (Or.inr (Or.inl ⟨rfl, y, hg, rfl⟩))
        · by_cases h3' : k = 3
          · subst h3'
            simp only [if_neg h0, if_neg h1', if_neg h2', if_true] at h2
            obtain ⟨⟨x, r1⟩, hf, h3⟩ := Res.bind_ok.mp h2
            obtain ⟨⟨y, r2⟩, hg, h4⟩ := Res.bind_ok.mp h3
            simp only [Res.pure_out] at h4
            injection h4 with h4; injection h4 with e1 e2; subst e1; subst e2
            exact Or.inr (Or.inr (Or.inr ⟨rfl, x, r1, y, hf, hg, rfl⟩))
          · simp [if_neg h0, if_neg h1', if_neg h2', if_neg h3'] at h2
  · rintro ⟨k, b', rfl, hk⟩
    refine ⟨(k, b'), readUint1_ok.mpr rfl, ?_⟩
    simp only
    rcases hk with ⟨rfl, rfl, rfl⟩ | ⟨rfl, x, hf, rfl⟩ | ⟨rfl, y, hg, rfl⟩ | ⟨rfl, x, r1, y, hf, hg, rfl⟩
    · simp
    · simp only [if_neg (by decide : ¬ (1 : Nat) = 0), if_true]
      exact Res.bind_ok.mpr ⟨(x, r), hf, rfl⟩
    · simp only [if_neg (by decide : ¬ (2 : Nat) = 0), if_neg (by decide : ¬ (2 : Nat) = 1), if_true]
      exact Res.bind_ok.mpr ⟨(y, r), hg, rfl⟩
    · simp only [if_neg (by decide : ¬ (3 : Nat) = 0), if_neg (by decide : ¬ (3 : Nat) = 1),
        if_neg (by decide : ¬ (3 : Nat) = 2), if_true]
      exact Res.bind_ok.mpr ⟨(x, r1), hf, Res.bind_ok.mpr ⟨(y, r), hg, rfl⟩⟩

theorem decOptPair_np {f g : Dec} (hf : ∀ b s, (f b).out ≠ .panic s) (hg : ∀ b s, (g b).out ≠ .panic s)
    (b : Bytes) (s : String) : (decOptPair f g b).out ≠ .panic s := by
  unfold decOptPair
  rw [Ne, Res.bind_panic]
  rintro (h | ⟨⟨k, b'⟩, _, h⟩)
  · exact readUint_no_panic _ _ _ h
  · simp only at h
    split at h
    · simp at h
    · split at h
      · rcases Res.bind_panic.mp h with h2 | ⟨a2, _, h2⟩
        · exact hf _ _ h2
        · simp at h2
      · split at h
        · rcases Res.bind_panic.mp h with h2 | ⟨a2, _, h2⟩
          · exact hg _ _ h2
          · simp at h2
        · split at h
          · rcases Res.bind_panic.mp h with h2 | ⟨a2, _, h2⟩
            · exact hf _ _ h2
            · rcases Res.bind_panic.mp h2 with h3 | ⟨a3, _, h3⟩
              · exact hg _ _ h3
              · simp at h3
          · simp at h

theorem wfOptPair_iff {w x : Wf} {v : V} :
    wfOptPair w x v = true ↔ ∃ a b, v = .tup [a, b] ∧ wfOption w a = true ∧ wfOption x b = true := by
  constructor
  · intro h
    match v, h with
    | .tup [a, b], h =>
      simp only [wfOptPair, Bool.and_eq_true] at h
      exact ⟨a, b, rfl, h.1, h.2⟩
  · rintro ⟨a, b, rfl, h1, h2⟩
    simp [wfOptPair, h1, h2]

theorem codec_optpair {f g : Dec} {e1 e2 : Enc} {w1 w2 : Wf} (h1 : Codec f e1 w1) (h2 : Codec g e2 w2) :
    Codec (decOptPair f g) (encOptPair e1 e2) (wfOptPair w1 w2) where
  rt := by
    intro v hv
    obtain ⟨a, b, rfl, ha, hb⟩ := wfOptPair_iff.mp hv
    rcases wfOption_iff.mp ha with rfl | ⟨x, rfl, hx⟩ <;> rcases wfOption_iff.mp hb with rfl | ⟨y, rfl, hy⟩
    · exact ⟨[0], rfl, fun r => decOptPair_ok.mpr ⟨0, r, rfl, Or.inl ⟨rfl, rfl, rfl⟩⟩⟩
    · obtain ⟨bs, he, hd⟩ := h2.rt y hy
      exact ⟨2 :: bs, by simp [encOptPair, he],
        fun r => decOptPair_ok.mpr ⟨2, bs ++ r, rfl, Or.inr (Or.inr (Or.inl ⟨rfl, y, hd r, rfl⟩))⟩⟩
    · obtain ⟨bs, he, hd⟩ := h1.rt x hx
      exact ⟨1 :: bs, by simp [encOptPair, he],
        fun r => decOptPair_ok.mpr ⟨1, bs ++ r, rfl, Or.inr (Or.inl ⟨rfl, x, hd r, rfl⟩)⟩⟩
    · obtain ⟨bs1, he1, hd1⟩ := h1.rt x hx
      obtain ⟨bs2, he2, hd2⟩ := h2.rt y hy
      refine ⟨3 :: (bs1 ++ bs2), by simp [encOptPair, he1, he2], fun r => ?_⟩
      refine decOptPair_ok.mpr ⟨3, bs1 ++ bs2 ++ r, rfl, Or.inr (Or.inr (Or.inr ⟨rfl, x, bs2 ++ r, y, ?_, hd2 r, rfl⟩))⟩
      rw [List.append_assoc]; exact hd1 _
  cn := by
    intro b v r hb hd
    obtain ⟨k, b', rfl, hk⟩ := decOptPair_ok.mp hd
    have hb' : isBytes b' := (isBytes_cons.mp hb).2
    rcases hk with ⟨rfl, rfl, rfl⟩ | ⟨rfl, x, hf, rfl⟩ | ⟨rfl, y, hg, rfl⟩ | ⟨rfl, x, r1, y, hf, hg, rfl⟩
    · exact ⟨[0], rfl, rfl, rfl⟩
    · obtain ⟨p, he, hp, hw⟩ := h1.cn b' x r hb' hf
      exact ⟨1 :: p, by simp [encOptPair, he], by simp [hp], by simp [wfOptPair, wfOption, hw]⟩
    · obtain ⟨p, he, hp, hw⟩ := h2.cn b' y r hb' hg
      exact ⟨2 :: p, by simp [encOptPair, he], by simp [hp], by simp [wfOptPair, wfOption, hw]⟩
    · obtain ⟨p1, he1, hp1, hw1⟩ := h1.cn b' x r1 hb' hf
      obtain ⟨p2, he2, hp2, hw2⟩ := h2.cn r1 y r (isBytes_of_append_right hp1 hb') hg
      refine ⟨3 :: (p1 ++ p2), by simp [encOptPair, he1, he2], ?_, by simp [wfOptPair, wfOption, hw1, hw2]⟩
      simp only [List.cons_append, List.append_assoc, hp2, hp1]

theorem total_optpair {f g : Dec} (h1 : Total f) (h2 : Total g) : Total (decOptPair f g) where
  np := decOptPair_np h1.np h2.np
  pre := by
    intro b v r hd
    obtain ⟨k, b', rfl, hk⟩ := decOptPair_ok.mp hd
    rcases hk with ⟨_, rfl, _⟩ | ⟨_, x, hf, _⟩ | ⟨_, y, hg, _⟩ | ⟨_, x, r1, y, hf, hg, _⟩
    · exact ⟨[k], rfl⟩
    · obtain ⟨p, rfl⟩ := h1.pre b' x r hf; exact ⟨k :: p, rfl⟩
    · obtain ⟨p, rfl⟩ := h2.pre b' y r hg; exact ⟨k :: p, rfl⟩
    · obtain ⟨p1, rfl⟩ := h1.pre b' x r1 hf
      obtain ⟨p2, rfl⟩ := h2.pre r1 y r hg
      exact ⟨k :: (p1 ++ p2), by simp⟩

theorem agree_optpair {f g f' g' : Dec} (h1 : Agree f f') (h2 : Agree g g') :
    Agree (decOptPair f g) (decOptPair f' g') := by
  intro b x hx
  obtain ⟨v, r⟩ := x
  obtain ⟨k, b', rfl, hk⟩ := decOptPair_ok.mp hx
  refine decOptPair_ok.mpr ⟨k, b', rfl, ?_⟩
  rcases hk with h | ⟨hk, x, hf, hv⟩ | ⟨hk, y, hg, hv⟩ | ⟨hk, x, r1, y, hf, hg, hv⟩
  · exact Or.inl h
  · exact Or.inr (Or.inl ⟨hk, x, h1 _ (x, r) hf, hv⟩)
  · exact Or.inr (Or.inr (Or.inl ⟨hk, y, h2 _ (y, r) hg, hv⟩))
  · exact Or.inr (Or.inr (Or.inr ⟨hk, x, r1, y, h1 _ (x, r1) hf, h2 _ (y, r) hg, hv⟩))

end ChiaModel.Streamable
