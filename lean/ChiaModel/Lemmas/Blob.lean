import ChiaModel.Model.Blob
/-
Helper lemmas for C18, level L1 (plain trees).
-/
namespace ChiaModel.Blob
open List

/-- all leaves, left to right -/
def T.entries : T → List KVH
  | .leaf k v h => [(k, v, h)]
  | .node l r => l.entries ++ r.entries

namespace T

theorem keys_eq (t : T) : t.keys = t.entries.map (·.1) := by
  induction t with
  | leaf k v h => rfl
  | node l r ihl ihr => simp [keys, entries, ihl, ihr]

theorem toList_eq (t : T) : t.toList = t.entries.map (fun e => (e.1, e.2.1)) := by
  induction t with
  | leaf k v h => rfl
  | node l r ihl ihr => simp [toList, entries, ihl, ihr]

theorem hashes_eq (t : T) : t.hashes = t.entries.map (·.2.2) := by
  induction t with
  | leaf k v h => rfl
  | node l r ihl ihr => simp [hashes, entries, ihl, ihr]

theorem perm_mid {α : Type} (a n b : List α) : a ++ (n ++ b) ~ n ++ (a ++ b) := by
  rw [← List.append_assoc, ← List.append_assoc]
  exact List.Perm.append_right b List.perm_append_comm

theorem join_entries (side : Side) (new old : T) : (join side new old).entries ~ new.entries ++ old.entries := by
  cases side
  · exact List.Perm.refl _
  · exact List.perm_append_comm

theorem insertWalk_entries (new : T) (side : Side) (t : T) (bs : BitSrc) :
    (insertWalk new side t bs).entries ~ new.entries ++ t.entries := by
  induction t generalizing bs with
  | leaf k v h => exact join_entries side new _
  | node l r ihl ihr =>
    simp only [insertWalk]
    split
    · simp only [entries]
      exact (List.Perm.append_left _ (ihr _)).trans (perm_mid _ _ _)
    · simp only [entries]
      rw [← List.append_assoc]
      exact List.Perm.append_right _ (ihl _)

theorem mapLeaf_not_mem (ref : KeyId) (f : T → T) (t : T) (h : ref ∉ t.keys) : t.mapLeaf ref f = t := by
  induction t with
  | leaf k v hh =>
    simp only [keys, List.mem_singleton] at h
    simp only [mapLeaf]
    rw [if_neg (fun e => h e.symm)]
  | node l r ihl ihr =>
    simp only [keys, List.mem_append, not_or] at h
    simp [mapLeaf, ihl h.1, ihr h.2]

theorem nodup_append' {α : Type} {a b : List α} (h : (a ++ b).Nodup) :
    a.Nodup ∧ b.Nodup ∧ ∀ x, x ∈ a → x ∉ b := by
  rw [List.nodup_append] at h
  exact ⟨h.1, h.2.1, fun x hx hb => h.2.2 x hx x hb rfl⟩

/-- replacing the unique leaf `ref` by `join side new leaf` adds exactly the leaves of `new` -/
theorem mapLeaf_join_entries (ref : KeyId) (side : Side) (new : T) (t : T)
    (hn : t.keys.Nodup) (hm : ref ∈ t.keys) :
    (t.mapLeaf ref (join side new)).entries ~ new.entries ++ t.entries := by
  induction t with
  | leaf k v h =>
    simp only [keys, List.mem_singleton] at hm
    simp only [mapLeaf, if_pos hm.symm]
    exact join_entries side new _
  | node l r ihl ihr =>
    simp only [keys] at hn hm
    obtain ⟨hl, hr, hd⟩ := nodup_append' hn
    simp only [mapLeaf, entries]
    rcases List.mem_append.mp hm with h | h
    · rw [mapLeaf_not_mem ref _ r (hd ref h), ← List.append_assoc]
      exact List.Perm.append_right _ (ihl hl h)
    · have : ref ∉ l.keys := fun hl' => hd ref hl' h
      rw [mapLeaf_not_mem ref _ l this]
      exact (List.Perm.append_left _ (ihr hr h)).trans (perm_mid _ _ _)

/-- upsert of an existing key rewrites its entry in place -/
theorem mapLeaf_replace_entries (k : KeyId) (v : ValueId) (h : Hash) (t : T) :
    (t.mapLeaf k (fun _ => .leaf k v h)).entries = t.entries.map (fun e => if e.1 = k then (k, v, h) else e) := by
  induction t with
  | leaf k' v' h' =>
    simp only [mapLeaf, entries, List.map_cons, List.map_nil]
    split <;> rfl
  | node l r ihl ihr => simp [mapLeaf, entries, ihl, ihr]

def optEntries : Option T → List KVH
  | none => []
  | some t => t.entries

theorem del_none_mem (k : KeyId) (t : T) (h : t.del k = none) : k ∈ t.keys := by
  cases t with
  | leaf k' v hh =>
    simp only [del] at h
    split at h
    · simp [keys, *]
    · cases h
  | node l r =>
    simp only [del] at h
    split at h
    · cases h
    · split at h <;> cases h

/-- delete keeps every other leaf, in order (DESIGN App. C.9) -/
theorem del_entries (k : KeyId) (t : T) (hn : t.keys.Nodup) :
    optEntries (t.del k) = t.entries.filter (fun e => e.1 ≠ k) := by
  induction t with
  | leaf k' v h =>
    simp only [del, entries]
    by_cases hk : k' = k
    · simp [hk, optEntries]
    · simp [hk, optEntries, entries]
  | node l r ihl ihr =>
    simp only [keys] at hn
    obtain ⟨hl, hr, hd⟩ := nodup_append' hn
    have ihl := ihl hl
    have ihr := ihr hr
    simp only [del, entries, List.filter_append]
    cases hdl : l.del k with
    | none =>
      rw [hdl] at ihl
      have hkr : k ∉ r.keys := hd k (del_none_mem k l hdl)
      simp only [optEntries] at ihl ⊢
      rw [← ihl, List.nil_append]
      symm
      rw [List.filter_eq_self]
      intro e he
      have : e.1 ∈ r.keys := by rw [keys_eq]; exact List.mem_map_of_mem he
      simp only [ne_eq, decide_eq_true_eq]
      intro hek; rw [hek] at this; exact hkr this
    | some l' =>
      rw [hdl] at ihl
      cases hdr : r.del k with
      | none => rw [hdr] at ihr; simp only [optEntries] at ihl ihr ⊢; rw [← ihl, ← ihr, List.append_nil]
      | some r' => rw [hdr] at ihr; simp only [optEntries, entries] at ihl ihr ⊢; rw [ihl, ihr]

end T

/-! ### association lists -/

namespace Map

theorem lookup_append (a b : Map) (k : KeyId) :
    lookup (a ++ b) k = (lookup a k).or (lookup b k) := by
  induction a with
  | nil => simp [lookup]
  | cons x a ih =>
    obtain ⟨k', v⟩ := x
    simp only [List.cons_append, lookup]
    split <;> simp [ih]

theorem lookup_none_of_not_mem (m : Map) (k : KeyId) (h : k ∉ m.map (·.1)) : lookup m k = none := by
  induction m with
  | nil => rfl
  | cons x m ih =>
    obtain ⟨k', v⟩ := x
    simp only [List.map_cons, List.mem_cons, not_or] at h
    simp only [lookup]
    rw [if_neg (fun e => h.1 e.symm)]
    exact ih h.2

/-- lookups do not depend on the order when keys are distinct -/
theorem lookup_perm {a b : Map} (p : a ~ b) (hn : (a.map (·.1)).Nodup) (k : KeyId) :
    lookup a k = lookup b k := by
  induction p with
  | nil => rfl
  | cons x p ih =>
    obtain ⟨k', v⟩ := x
    simp only [List.map_cons, List.nodup_cons] at hn
    simp only [lookup, ih hn.2]
  | swap x y l =>
    obtain ⟨kx, vx⟩ := x
    obtain ⟨ky, vy⟩ := y
    simp only [List.map_cons, List.nodup_cons, List.mem_cons, not_or] at hn
    simp only [lookup]
    by_cases h1 : kx = k <;> by_cases h2 : ky = k <;> simp [h1, h2]
    exact absurd (h2.trans h1.symm) hn.1.1
  | trans p q ih1 ih2 =>
    rw [ih1 hn, ih2 ((p.map _).nodup_iff.mp hn)]

theorem lookup_filter_ne (m : Map) (k k' : KeyId) :
    lookup (m.filter (fun e => e.1 ≠ k)) k' = if k' = k then none else lookup m k' := by
  induction m with
  | nil => simp [lookup]
  | cons x m ih =>
    obtain ⟨kx, vx⟩ := x
    by_cases h : kx = k
    · rw [List.filter_cons_of_neg (by simp [h]), ih]
      by_cases h2 : k' = k
      · rw [if_pos h2, if_pos h2]
      · rw [if_neg h2, if_neg h2]
        simp only [lookup]
        rw [if_neg (fun e : kx = k' => h2 (e.symm.trans h))]
    · rw [List.filter_cons_of_pos (by simp [h])]
      simp only [lookup]
      rw [ih]
      by_cases h3 : kx = k'
      · rw [if_pos h3, if_neg (fun e : k' = k => h (h3.trans e)), if_pos h3]
      · rw [if_neg h3, if_neg h3]

theorem lookup_erase (m : Map) (k k' : KeyId) :
    lookup (erase m k) k' = if k' = k then none else lookup m k' := lookup_filter_ne m k k'

theorem lookup_set (m : Map) (k : KeyId) (v : ValueId) (k' : KeyId) :
    lookup (set m k v) k' = if k' = k then some v else lookup m k' := by
  simp only [set, lookup, lookup_erase]
  by_cases h : k = k'
  · rw [if_pos h, if_pos h.symm]
  · rw [if_neg h, if_neg (fun e : k' = k => h e.symm), if_neg (fun e : k' = k => h e.symm)]

end Map

end ChiaModel.Blob

namespace ChiaModel.Blob
open List

/-! ### L1 operations in terms of leaf entries -/

def Tree.entries : Tree → List KVH
  | none => []
  | some t => t.entries

namespace Tree

theorem keys_eq (t : Tree) : keys t = (entries t).map (·.1) := by
  cases t with
  | none => rfl
  | some t => exact T.keys_eq t

theorem hashes_eq (t : Tree) : hashes t = (entries t).map (·.2.2) := by
  cases t with
  | none => rfl
  | some t => exact T.hashes_eq t

theorem toMap_eq (t : Tree) : toMap t = (entries t).map (fun e => (e.1, e.2.1)) := by
  cases t with
  | none => rfl
  | some t => exact T.toList_eq t

theorem toMap_keys (t : Tree) : (toMap t).map (·.1) = keys t := by
  rw [toMap_eq, keys_eq, List.map_map]; rfl

/-- a successful insert adds exactly the new leaf; it needs a fresh key and a fresh hash -/
theorem insert_spec {k : KeyId} {v : ValueId} {h : Hash} {loc : RefLoc} {t t' : Tree}
    (hn : (keys t).Nodup) (hi : insert k v h loc t = some t') :
    entries t' ~ (k, v, h) :: entries t ∧ k ∉ keys t ∧ h ∉ hashes t := by
  unfold insert at hi
  split at hi
  · cases hi
  · rename_i hk
    split at hi
    · cases hi
    · rename_i hh
      refine ⟨?_, hk, hh⟩
      split at hi
      · injection hi with hi; subst hi; exact List.Perm.refl _
      · cases hi
      · injection hi with hi; subst hi
        exact T.insertWalk_entries _ _ _ _
      · split at hi
        · rename_i t0 ref side hm
          injection hi with hi; subst hi
          exact T.mapLeaf_join_entries ref side _ t0 hn hm
        · cases hi

theorem delete_spec {k : KeyId} {t t' : Tree} (hn : (keys t).Nodup) (hd : delete k t = some t') :
    entries t' = (entries t).filter (fun e => e.1 ≠ k) ∧ k ∈ keys t := by
  unfold delete at hd
  split at hd
  · cases hd
  · rename_i t0
    split at hd
    · rename_i hm
      injection hd with hd; subst hd
      refine ⟨?_, hm⟩
      have := T.del_entries k t0 hn
      cases hdel : t0.del k with
      | none => rw [hdel] at this; exact this
      | some x => rw [hdel] at this; exact this
    · cases hd

/-- upsert: rewrite in place when the key exists (the new hash then belongs to no other leaf),
otherwise insert -/
theorem upsert_spec {k : KeyId} {v : ValueId} {h : Hash} {t t' : Tree}
    (hn : (keys t).Nodup) (hu : upsert k v h t = some t') :
    (k ∈ keys t ∧ upsertFresh k h t = true
        ∧ entries t' = (entries t).map (fun e => if e.1 = k then (k, v, h) else e)) ∨
    (k ∉ keys t ∧ entries t' ~ (k, v, h) :: entries t ∧ h ∉ hashes t) := by
  unfold upsert at hu
  split at hu
  · right
    obtain ⟨a, b, c⟩ := insert_spec hn hu
    exact ⟨b, a, c⟩
  · rename_i t0
    split at hu
    · rename_i hm
      split at hu
      · cases hu
      · rename_i hfresh
        injection hu with hu; subst hu
        left
        exact ⟨hm, by simp [upsertFresh, hfresh], T.mapLeaf_replace_entries k v h t0⟩
    · right
      obtain ⟨a, b, c⟩ := insert_spec hn hu
      exact ⟨b, a, c⟩

end Tree
end ChiaModel.Blob

namespace ChiaModel.Blob
open List

/-! ### batch insert at L1 -/

namespace T

theorem size_pos (t : T) : 0 < t.size := by cases t <;> simp [size]

theorem entries_ne_nil (t : T) : t.entries ≠ [] := by
  induction t with
  | leaf k v h => simp [entries]
  | node l r ihl _ => simp [entries, ihl]

def sizes : List T → Nat
  | [] => 0
  | t :: q => t.size + sizes q

theorem sizes_append (a b : List T) : sizes (a ++ b) = sizes a + sizes b := by
  induction a with
  | nil => simp [sizes]
  | cons x a ih => simp [sizes, ih, Nat.add_assoc]

/-- the breadth-first search finds a leaf of the queue when the fuel covers the queue -/
theorem bfsLeaf_some (f : Nat) (q : List T) (hq : q ≠ []) (hf : sizes q ≤ f) :
    ∃ e, bfsLeaf f q = some e ∧ e ∈ q.flatMap entries := by
  induction f generalizing q with
  | zero =>
    cases q with
    | nil => exact absurd rfl hq
    | cons x q => have := size_pos x; simp only [sizes] at hf; omega
  | succ f ih =>
    cases q with
    | nil => exact absurd rfl hq
    | cons x q =>
      cases x with
      | leaf k v h => exact ⟨(k, v, h), rfl, by simp [entries]⟩
      | node l r =>
        have hne : q ++ [l, r] ≠ [] := by simp
        have hsz : sizes (q ++ [l, r]) ≤ f := by
          simp only [sizes_append, sizes, size] at hf ⊢; omega
        obtain ⟨e, he, hm⟩ := ih (q ++ [l, r]) hne hsz
        refine ⟨e, he, ?_⟩
        simp only [List.flatMap_append, List.flatMap_cons, List.flatMap_nil, List.mem_append, entries,
          List.append_nil] at hm ⊢
        rcases hm with h | h | h
        · exact Or.inr h
        · exact Or.inl (Or.inl h)
        · exact Or.inl (Or.inr h)

theorem minLeaf_some (t : T) : ∃ e, t.minLeaf = some e ∧ e ∈ t.entries := by
  obtain ⟨e, he, hm⟩ := bfsLeaf_some t.size [t] (by simp) (by simp [sizes])
  exact ⟨e, he, by simpa using hm⟩

theorem pairLevel_flat (l : List T) : (pairLevel l).flatMap entries = l.flatMap entries := by
  induction l using pairLevel.induct with
  | case1 a b rest ih => simp [pairLevel, entries, ih]
  | case2 l h => rw [pairLevel]; intro a b rest e; exact h a b rest e

theorem pairLevel_length (l : List T) : (pairLevel l).length = (l.length + 1) / 2 := by
  induction l using pairLevel.induct with
  | case1 a b rest ih => simp only [pairLevel, List.length_cons, ih]; omega
  | case2 l h =>
    rw [pairLevel]
    · match l, h with
      | [], _ => rfl
      | [a], _ => simp
      | a :: b :: rest, h => exact absurd rfl (h a b rest)
    · intro a b rest e; exact h a b rest e

theorem buildUp_single (f : Nat) (l : List T) (hl : l ≠ []) (hf : l.length ≤ f + 1) :
    ∃ t, buildUp f l = [t] ∧ t.entries = l.flatMap entries := by
  induction f generalizing l with
  | zero =>
    match l, hl, hf with
    | [a], _, _ => exact ⟨a, rfl, by simp⟩
  | succ f ih =>
    simp only [buildUp]
    split
    · rename_i hgt
      have hlen := pairLevel_length l
      have hne : pairLevel l ≠ [] := by
        intro e; rw [e] at hlen; simp at hlen; omega
      obtain ⟨t, ht, he⟩ := ih (pairLevel l) hne (by omega)
      exact ⟨t, ht, by rw [he, pairLevel_flat]⟩
    · rename_i hle
      match l, hl, hle with
      | [a], _, _ => exact ⟨a, rfl, by simp⟩
      | a :: b :: rest, _, hle => simp at hle

theorem ofBatch_nil : ofBatch [] = none := rfl

theorem ofBatch_some (l : List KVH) (hl : l ≠ []) : ∃ t, ofBatch l = some t ∧ t.entries = l := by
  have hne : (l.map fun (x : KVH) => T.leaf x.1 x.2.1 x.2.2) ≠ [] := by simpa using hl
  obtain ⟨t, ht, he⟩ := buildUp_single l.length _ hne (by simp)
  refine ⟨t, ?_, ?_⟩
  · simp only [ofBatch]
    have : (l.map fun (x : KVH) => match x with | (k, v, h) => T.leaf k v h)
        = (l.map fun (x : KVH) => T.leaf x.1 x.2.1 x.2.2) := by
      apply List.map_congr_left; intro x _; rfl
    rw [this, ht]
  · rw [he]
    induction l with
    | nil => rfl
    | cons x l _ => simp [List.flatMap_map, entries, List.flatMap_cons]

theorem keys_length_pos (t : T) : 0 < t.keys.length := by
  cases t <;> simp [keys]
  rename_i l r
  have := keys_length_pos l
  omega

end T

namespace Tree

/-- attaching a non-empty batch to a tree with at least two leaves adds exactly the batch -/
theorem attach_spec (rest : List KVH) (a b : T) (hr : rest ≠ []) (hn : (keys (some (.node a b))).Nodup) :
    ∃ t', attach rest (some (.node a b)) = some t' ∧ entries t' ~ rest ++ entries (some (.node a b)) := by
  obtain ⟨sub, hs, he⟩ := T.ofBatch_some rest hr
  obtain ⟨⟨mk, mv, mh⟩, hm, hmem⟩ := T.minLeaf_some (.node a b)
  refine ⟨some ((T.node a b).mapLeaf mk (T.join .left sub)), ?_, ?_⟩
  · simp only [attach, hs, hm]
  · have hk : mk ∈ (T.node a b).keys := by
      rw [T.keys_eq]; exact List.mem_map_of_mem (f := (·.1)) hmem
    have := T.mapLeaf_join_entries mk .left sub (.node a b) hn hk
    rw [he] at this
    exact this

theorem attach_nil (t : Tree) : attach [] t = some t := rfl

end Tree

namespace Map

theorem lookup_foldl_set (l : List KVH) (m : Map) (k' : KeyId) (hn : (l.map (·.1)).Nodup) :
    lookup (l.foldl (fun m (x : KVH) => set m x.1 x.2.1) m) k'
      = (lookup (l.map fun e => (e.1, e.2.1)) k').or (lookup m k') := by
  induction l generalizing m with
  | nil => simp [lookup]
  | cons x l ih =>
    obtain ⟨k, v, h⟩ := x
    simp only [List.map_cons, List.nodup_cons] at hn
    simp only [List.foldl_cons, List.map_cons, lookup]
    rw [ih _ hn.2, lookup_set]
    by_cases hk : k = k'
    · subst hk
      rw [if_pos rfl, if_pos rfl]
      rw [lookup_none_of_not_mem]
      · rfl
      · simpa [List.map_map] using hn.1
    · rw [if_neg hk, if_neg (fun e : k' = k => hk e.symm)]

end Map
end ChiaModel.Blob

namespace ChiaModel.Blob
open List

namespace T
theorem insertWalk_isNode (new : T) (side : Side) (t : T) (bs : BitSrc) :
    ∃ a b, insertWalk new side t bs = .node a b := by
  cases t with
  | leaf k v h => cases side <;> exact ⟨_, _, rfl⟩
  | node l r =>
    simp only [insertWalk]
    split <;> exact ⟨_, _, rfl⟩
end T

namespace Tree

theorem attach_spec' (rest : List KVH) (a b : T) (hn : (keys (some (.node a b))).Nodup) :
    ∃ t', attach rest (some (.node a b)) = some t' ∧ entries t' ~ rest ++ entries (some (.node a b)) := by
  cases rest with
  | nil => exact ⟨_, rfl, List.Perm.refl _⟩
  | cons x rest => exact attach_spec (x :: rest) a b (by simp) hn

/-- an automatic insert of a fresh key and hash succeeds; the result is not empty, and is an
internal node when the tree was not empty -/
theorem insert_auto_some (k : KeyId) (v : ValueId) (h : Hash) (t : Tree)
    (hk : k ∉ keys t) (hh : h ∉ hashes t) :
    ∃ t1, insert k v h .auto t = some (some t1) ∧ (t ≠ none → ∃ a b, t1 = .node a b) := by
  unfold insert
  rw [if_neg hk, if_neg hh]
  cases t with
  | none => exact ⟨_, rfl, fun e => absurd rfl e⟩
  | some t0 =>
    obtain ⟨a, b, e⟩ := T.insertWalk_isNode (.leaf k v h) (keySide k) t0 (BitSrc.ofKey k)
    exact ⟨_, rfl, fun _ => ⟨a, b, e⟩⟩

theorem keys_perm_of_entries {t t' : Tree} {l : List KVH} (p : entries t' ~ l ++ entries t) :
    keys t' ~ l.map (·.1) ++ keys t := by
  rw [keys_eq, keys_eq, ← List.map_append]; exact p.map _

theorem hashes_perm_of_entries {t t' : Tree} {l : List KVH} (p : entries t' ~ l ++ entries t) :
    hashes t' ~ l.map (·.2.2) ++ hashes t := by
  rw [hashes_eq, hashes_eq, ← List.map_append]; exact p.map _

theorem fresh_unpack {l : List KVH} {t : Tree} (hf : batchFresh l t = true) :
    (l.map (·.1)).Nodup ∧ (l.map (·.2.2)).Nodup ∧ ∀ e ∈ l, e.1 ∉ keys t ∧ e.2.2 ∉ hashes t := by
  simp only [batchFresh, Bool.and_eq_true, decide_eq_true_eq, List.all_eq_true] at hf
  refine ⟨hf.1.1, hf.1.2, fun e he => ?_⟩
  have := hf.2 e he
  obtain ⟨k, v, h⟩ := e
  simpa using this

/-- after its validation, `batch_insert` succeeds and adds exactly the batch -/
theorem batchUnchecked_spec (l : List KVH) (t : Tree) (hn : (keys t).Nodup) (hf : batchFresh l t = true) :
    (batchUnchecked l t).1 = true ∧ entries (batchUnchecked l t).2 ~ l ++ entries t := by
  obtain ⟨hkn, hhn, hfr⟩ := fresh_unpack hf
  unfold batchUnchecked
  split
  · -- at most one leaf: the last two items go through `insert`
    cases hrev : l.reverse with
    | nil =>
      have : l = [] := by simpa using hrev
      subst this; exact ⟨rfl, List.Perm.refl _⟩
    | cons x1 r1 =>
      have hl : l = r1.reverse ++ [x1] := by
        have := congrArg List.reverse hrev; simpa using this
      obtain ⟨k1, v1, h1⟩ := x1
      have hx1 := hfr (k1, v1, h1) (by rw [hl]; simp)
      obtain ⟨t1, hi1, hshape1⟩ := insert_auto_some k1 v1 h1 t hx1.1 hx1.2
      obtain ⟨p1, _, _⟩ := insert_spec hn hi1
      simp only [hi1]
      cases r1 with
      | nil =>
        refine ⟨rfl, ?_⟩
        rw [hl]; simpa using p1
      | cons x2 r2 =>
        obtain ⟨k2, v2, h2⟩ := x2
        have hl2 : l = r2.reverse ++ [(k2, v2, h2), (k1, v1, h1)] := by rw [hl]; simp
        have hx2 := hfr (k2, v2, h2) (by rw [hl2]; simp)
        have hk12 : k2 ≠ k1 := by
          rw [hl2] at hkn
          simp only [List.map_append, List.map_cons, List.map_nil] at hkn
          have := (T.nodup_append' hkn).2.1
          simp only [List.nodup_cons, List.mem_singleton] at this
          exact this.1
        have hh12 : h2 ≠ h1 := by
          rw [hl2] at hhn
          simp only [List.map_append, List.map_cons, List.map_nil] at hhn
          have := (T.nodup_append' hhn).2.1
          simp only [List.nodup_cons, List.mem_singleton] at this
          exact this.1
        have pk1 : keys (some t1) ~ k1 :: keys t := by
          have := keys_perm_of_entries (l := [(k1, v1, h1)]) (t := t) (t' := some t1) (by simpa using p1)
          simpa using this
        have ph1 : hashes (some t1) ~ h1 :: hashes t := by
          have := hashes_perm_of_entries (l := [(k1, v1, h1)]) (t := t) (t' := some t1) (by simpa using p1)
          simpa using this
        have hn1 : (keys (some t1)).Nodup := pk1.nodup_iff.mpr (List.nodup_cons.mpr ⟨hx1.1, hn⟩)
        have hk2 : k2 ∉ keys (some t1) := by
          intro hm; rcases List.mem_cons.mp (pk1.mem_iff.mp hm) with e | e
          · exact hk12 e
          · exact hx2.1 e
        have hh2 : h2 ∉ hashes (some t1) := by
          intro hm; rcases List.mem_cons.mp (ph1.mem_iff.mp hm) with e | e
          · exact hh12 e
          · exact hx2.2 e
        obtain ⟨t2, hi2, hshape2⟩ := insert_auto_some k2 v2 h2 (some t1) hk2 hh2
        obtain ⟨a, b, hab⟩ := hshape2 (by simp)
        subst hab
        obtain ⟨p2, _, _⟩ := insert_spec hn1 hi2
        have pk2 : keys (some (T.node a b)) ~ k2 :: keys (some t1) := by
          have := keys_perm_of_entries (l := [(k2, v2, h2)]) (t := some t1) (t' := some (T.node a b)) (by simpa using p2)
          simpa using this
        have hn2 : (keys (some (T.node a b))).Nodup := pk2.nodup_iff.mpr (List.nodup_cons.mpr ⟨hk2, hn1⟩)
        obtain ⟨t3, ha, p3⟩ := attach_spec' r2.reverse a b hn2
        simp only [hi2, ha]
        refine ⟨trivial, ?_⟩
        refine p3.trans ?_
        rw [hl2, List.append_assoc]
        refine List.Perm.append_left _ ?_
        refine p2.trans ?_
        exact List.Perm.cons _ p1
  · -- at least two leaves: everything is attached unchecked
    rename_i hlen
    cases t with
    | none => simp [keys] at hlen
    | some t0 =>
      cases t0 with
      | leaf k v h => simp [keys, T.keys] at hlen
      | node a b =>
        obtain ⟨t', ha, p⟩ := attach_spec' l a b hn
        simp only [ha]
        exact ⟨trivial, p⟩

/-- `batch_insert`: a validated batch succeeds and adds exactly the batch; a batch that does not
pass the validation fails and changes nothing -/
theorem batch_spec (l : List KVH) (t : Tree) (hn : (keys t).Nodup) :
    (batchFresh l t = true ∧ (batch l t).1 = true ∧ entries (batch l t).2 ~ l ++ entries t)
    ∨ (batchFresh l t = false ∧ batch l t = (false, t)) := by
  unfold batch
  cases hf : batchFresh l t with
  | true =>
    left
    simp only [if_true]
    exact ⟨trivial, batchUnchecked_spec l t hn hf⟩
  | false => right; exact ⟨rfl, by simp⟩

end Tree
end ChiaModel.Blob

namespace ChiaModel.Blob
open List

/-! ### more association-list facts -/
namespace Map

theorem lookup_cons_set (m : Map) (k : KeyId) (v : ValueId) (k' : KeyId) :
    lookup ((k, v) :: m) k' = lookup (set m k v) k' := by
  rw [lookup_set]
  simp only [lookup]
  by_cases h : k = k'
  · rw [if_pos h, if_pos h.symm]
  · rw [if_neg h, if_neg (fun e : k' = k => h e.symm)]

theorem lookup_map_replace (m : Map) (k : KeyId) (v : ValueId) (k' : KeyId) :
    lookup (m.map fun e => if e.1 = k then (k, v) else e) k'
      = if k' = k then (if k ∈ m.map (·.1) then some v else none) else lookup m k' := by
  induction m with
  | nil => simp [lookup]
  | cons x m ih =>
    obtain ⟨kx, vx⟩ := x
    simp only [List.map_cons, List.mem_cons]
    by_cases hx : kx = k
    · subst hx
      simp only [if_true, lookup, true_or]
      by_cases h : kx = k'
      · rw [if_pos h, if_pos h.symm]
      · rw [if_neg h, if_neg (fun e : k' = kx => h e.symm), ih, if_neg (fun e : k' = kx => h e.symm), if_neg h]
    · rw [if_neg hx]
      simp only [lookup]
      by_cases h : kx = k'
      · rw [if_pos h, if_neg (fun e : k' = k => hx (h.trans e)), if_pos h]
      · rw [if_neg h, ih]
        by_cases h2 : k' = k
        · rw [if_pos h2, if_pos h2]
          have : (k = kx ∨ k ∈ m.map (·.1)) ↔ k ∈ m.map (·.1) :=
            ⟨fun o => o.elim (fun e => absurd e.symm hx) id, Or.inr⟩
          simp only [this]
        · rw [if_neg h2, if_neg h2, if_neg h]

end Map
end ChiaModel.Blob

namespace ChiaModel.Blob
open List

/-! ### leaf hashes stay distinct -/

theorem Tree.otherHashes_eq (k : KeyId) (t : T) :
    Tree.otherHashes k t = (t.entries.filter (fun e => e.1 ≠ k)).map (·.2.2) := by
  induction t with
  | leaf k' v h =>
    simp only [Tree.otherHashes, T.entries]
    by_cases hk : k' = k
    · rw [if_pos hk, List.filter_cons_of_neg (by simp [hk])]; rfl
    · rw [if_neg hk, List.filter_cons_of_pos (by simp [hk])]; rfl
  | node l r ihl ihr => simp [Tree.otherHashes, T.entries, ihl, ihr]

theorem map_replace_of_not_mem (l : List KVH) (k : KeyId) (v : ValueId) (h : Hash)
    (hk : k ∉ l.map (·.1)) : l.map (fun e => if e.1 = k then (k, v, h) else e) = l := by
  induction l with
  | nil => rfl
  | cons x l ih =>
    simp only [List.map_cons, List.mem_cons, not_or] at hk
    simp only [List.map_cons]
    rw [if_neg (fun e => hk.1 e.symm), ih hk.2]

theorem filter_ne_of_not_mem (l : List KVH) (k : KeyId) (hk : k ∉ l.map (·.1)) :
    l.filter (fun e => e.1 ≠ k) = l := by
  rw [List.filter_eq_self]
  intro e he
  simp only [ne_eq, decide_eq_true_eq]
  intro hek
  exact hk (by rw [← hek]; exact List.mem_map_of_mem (f := (·.1)) he)

/-- rewriting the entry of key `k` to a hash that no other entry has keeps the hashes distinct -/
theorem nodup_hashes_replace (l : List KVH) (k : KeyId) (v : ValueId) (h : Hash)
    (hkn : (l.map (·.1)).Nodup) (hhn : (l.map (·.2.2)).Nodup)
    (hf : h ∉ (l.filter (fun e => e.1 ≠ k)).map (·.2.2)) :
    ((l.map (fun e => if e.1 = k then (k, v, h) else e)).map (·.2.2)).Nodup := by
  induction l with
  | nil => exact List.nodup_nil
  | cons x l ih =>
    simp only [List.map_cons, List.nodup_cons] at hkn hhn
    by_cases hx : x.1 = k
    · have hkl : k ∉ l.map (·.1) := by rw [← hx]; exact hkn.1
      rw [List.filter_cons_of_neg (by simp [hx]), filter_ne_of_not_mem l k hkl] at hf
      simp only [List.map_cons, if_pos hx]
      rw [map_replace_of_not_mem l k v h hkl]
      exact List.nodup_cons.mpr ⟨hf, hhn.2⟩
    · rw [List.filter_cons_of_pos (by simp [hx])] at hf
      simp only [List.map_cons, List.mem_cons, not_or] at hf
      simp only [List.map_cons, if_neg hx]
      refine List.nodup_cons.mpr ⟨?_, ih hkn.2 hhn.2 hf.2⟩
      intro hm
      obtain ⟨y', hy', hye⟩ := List.mem_map.mp hm
      obtain ⟨y, hy, rfl⟩ := List.mem_map.mp hy'
      by_cases hyk : y.1 = k
      · rw [if_pos hyk] at hye; exact hf.1 hye
      · rw [if_neg hyk] at hye
        exact hhn.1 (by rw [← hye]; exact List.mem_map_of_mem (f := (·.2.2)) hy)

end ChiaModel.Blob
