import ChiaModel.Props.C01
/-
C06, order of the spends of a bundle and of the conditions inside a spend, at the level of the whole of
`parse_spends`.  Built on the refinement `C01.C01_refines`: `parse_spends` accepts iff the parsed spends
`ps` satisfy the order-free rules `BundleAccepts`, and the result is `bundleSummary`.

 * `PEquiv p p'`   same attributes, the parsed items of `p'` are a permutation of those of `p`
 * `BPerm ps ps'`  `ps'` arises from `ps` by permuting the spends and, inside every spend, its items
 * `foldl_bperm`   a left fold over the spends respects `BPerm` up to a relation that the step respects
                   and up to which two steps commute
 * `AccEquiv`      the summary fold's accumulators agree on every scalar and, up to listing order, on every
                   collection whose entries do not name a spend by its index
 * `FoldInv`, `eph_clauses_iff`  the two index-based clauses of `Deferred` (ASSERT_EPHEMERAL / "must not be ephemeral")
                   in index-free form (`EphP`: the parent coin is spent in the bundle and creates the coin)
 * `bundleAccepts_bperm`, `bundleSummary_bperm`  acceptance and the aggregates of the summary respect `BPerm`
 * `parseSpendList_perm`, `parseSpendList_split`, `parseSpend_conds_perm`  parsing is per spend / per condition
 * `SpendEquiv`, `spendRec_sim`, `summary_spends_replace`  the reported spend records when the conditions of one
                   spend are permuted: equal up to listing order and the positional ELIGIBLE_FOR_FF bit
-/
set_option linter.unusedSimpArgs false
namespace ChiaModel.Rules
open ChiaModel ChiaModel.Cond

/-! ## the relation "same bundle up to the order of spends and of conditions inside a spend" -/

/-- same attributes, items permuted -/
def PEquiv (p p' : PSpend) : Prop := p.attrs = p'.attrs ∧ List.Perm p.items p'.items

theorem PEquiv.refl (p : PSpend) : PEquiv p p := ⟨rfl, List.Perm.refl _⟩
theorem PEquiv.symm {p p' : PSpend} (h : PEquiv p p') : PEquiv p' p := ⟨h.1.symm, h.2.symm⟩
theorem PEquiv.trans {p p' p'' : PSpend} (h : PEquiv p p') (h' : PEquiv p' p'') : PEquiv p p'' :=
  ⟨h.1.trans h'.1, h.2.trans h'.2⟩
theorem PEquiv.conds {p p' : PSpend} (h : PEquiv p p') : List.Perm (itemConds p.items) (itemConds p'.items) :=
  itemConds_perm h.2

/-- `ps'` is `ps` with the spends permuted and the items of every spend permuted -/
inductive BPerm : List PSpend → List PSpend → Prop
  | nil : BPerm [] []
  | cons {p p' : PSpend} {l l' : List PSpend} : PEquiv p p' → BPerm l l' → BPerm (p :: l) (p' :: l')
  | swap (a b : PSpend) (l : List PSpend) : BPerm (a :: b :: l) (b :: a :: l)
  | trans {l1 l2 l3 : List PSpend} : BPerm l1 l2 → BPerm l2 l3 → BPerm l1 l3

theorem BPerm.refl : ∀ l : List PSpend, BPerm l l
  | [] => .nil
  | p :: l => .cons (PEquiv.refl p) (BPerm.refl l)

theorem BPerm.symm {l l' : List PSpend} (h : BPerm l l') : BPerm l' l := by
  induction h with
  | nil => exact .nil
  | cons hp _ ih => exact .cons hp.symm ih
  | swap a b l => exact .swap b a l
  | trans _ _ ih1 ih2 => exact .trans ih2 ih1

theorem BPerm.of_perm {l l' : List PSpend} (h : List.Perm l l') : BPerm l l' := by
  induction h with
  | nil => exact .nil
  | cons p _ ih => exact .cons (PEquiv.refl p) ih
  | swap a b l => exact .swap b a l
  | trans _ _ ih1 ih2 => exact .trans ih1 ih2

/-- one spend replaced by an equivalent one -/
theorem BPerm.replace {p p' : PSpend} (h : PEquiv p p') : ∀ (pre post : List PSpend),
    BPerm (pre ++ p :: post) (pre ++ p' :: post)
  | [], post => .cons h (BPerm.refl post)
  | q :: pre, post => .cons (PEquiv.refl q) (BPerm.replace h pre post)

theorem BPerm.length_eq {l l' : List PSpend} (h : BPerm l l') : l.length = l'.length := by
  induction h with
  | nil => rfl
  | cons _ _ ih => simp [ih]
  | swap a b l => simp
  | trans _ _ ih1 ih2 => exact ih1.trans ih2

theorem BPerm.mem {l l' : List PSpend} (h : BPerm l l') : ∀ p' ∈ l', ∃ p ∈ l, PEquiv p p' := by
  induction h with
  | nil => intro p' hp; cases hp
  | cons hq _ ih =>
    intro p' hp
    rcases List.mem_cons.mp hp with rfl | hp
    · exact ⟨_, List.mem_cons_self, hq⟩
    · obtain ⟨p, hp1, hp2⟩ := ih p' hp
      exact ⟨p, List.mem_cons_of_mem _ hp1, hp2⟩
  | swap a b l =>
    intro p' hp
    refine ⟨p', ?_, PEquiv.refl p'⟩
    simp only [List.mem_cons] at hp ⊢
    rcases hp with h | h | h
    · exact Or.inr (Or.inl h)
    · exact Or.inl h
    · exact Or.inr (Or.inr h)
  | trans _ _ ih1 ih2 =>
    intro p'' hp
    obtain ⟨p', hp1, e1⟩ := ih2 p'' hp
    obtain ⟨p, hp2, e2⟩ := ih1 p' hp1
    exact ⟨p, hp2, e2.trans e1⟩

/-- a per-spend quantity that does not depend on the order of the items: its list is permuted -/
theorem BPerm.map_perm {β : Type} (f : PSpend → β) (hf : ∀ p p', PEquiv p p' → f p = f p') {l l' : List PSpend}
    (h : BPerm l l') : List.Perm (l.map f) (l'.map f) := by
  induction h with
  | nil => exact List.Perm.refl _
  | cons hq _ ih => simp only [List.map_cons]; rw [hf _ _ hq]; exact List.Perm.cons _ ih
  | swap a b l => simp only [List.map_cons]; exact List.Perm.swap _ _ _
  | trans _ _ ih1 ih2 => exact ih1.trans ih2

/-- a per-spend collection that depends on the order of the items only up to order: the collected list
is permuted -/
theorem BPerm.flatMap_perm {β : Type} (g : PSpend → List β) (hg : ∀ p p', PEquiv p p' → List.Perm (g p) (g p'))
    {l l' : List PSpend} (h : BPerm l l') : List.Perm (l.flatMap g) (l'.flatMap g) := by
  induction h with
  | nil => exact List.Perm.refl _
  | cons hq _ ih => simp only [List.flatMap_cons]; exact List.Perm.append (hg _ _ hq) ih
  | swap a b l =>
    simp only [List.flatMap_cons]
    exact List.perm_append_comm_assoc _ _ _
  | trans _ _ ih1 ih2 => exact ih1.trans ih2

theorem foldl_same {β : Type} (R : β → β → Prop) (f : β → PSpend → β)
    (hstep : ∀ a a' p p', R a a' → PEquiv p p' → R (f a p) (f a' p')) :
    ∀ (l : List PSpend) (a a' : β), R a a' → R (l.foldl f a) (l.foldl f a')
  | [], _, _, h => h
  | p :: l, a, a', h => foldl_same R f hstep l _ _ (hstep a a' p p h (PEquiv.refl p))

/-- **a left fold over the spends respects `BPerm`**, up to any reflexive transitive relation `R` on the
accumulator that the step respects and up to which two steps commute -/
theorem foldl_bperm {β : Type} (R : β → β → Prop) (hrefl : ∀ a, R a a) (htrans : ∀ {a b c}, R a b → R b c → R a c)
    (f : β → PSpend → β)
    (hstep : ∀ a a' p p', R a a' → PEquiv p p' → R (f a p) (f a' p'))
    (hcomm : ∀ a p q, R (f (f a p) q) (f (f a q) p))
    {ps ps' : List PSpend} (h : BPerm ps ps') : ∀ a a', R a a' → R (ps.foldl f a) (ps'.foldl f a') := by
  induction h with
  | nil => intro a a' h; exact h
  | cons hq _ ih => intro a a' h; exact ih _ _ (hstep _ _ _ _ h hq)
  | swap x y l =>
    intro a a' h
    simp only [List.foldl_cons]
    refine foldl_same R f hstep l _ _ (htrans (hcomm a x y) ?_)
    exact hstep _ _ _ _ (hstep _ _ _ _ h (PEquiv.refl y)) (PEquiv.refl x)
  | trans _ _ ih1 ih2 => intro a a' h; exact htrans (ih1 a a' h) (ih2 a' a' (hrefl a'))

/-! ## per-spend aggregates do not depend on the order of the conditions -/

theorem maxList_perm {l l' : List Nat} (h : List.Perm l l') : maxList l = maxList l' := by
  unfold maxList
  exact h.foldl_eq' (fun x _ y _ z => by omega) 0

theorem minSpec_unique {o o' : Option Nat} {l l' : List Nat} (h : TL.MinSpec o l) (h' : TL.MinSpec o' l')
    (hm : ∀ x, x ∈ l ↔ x ∈ l') : o = o' := by
  cases o with
  | none =>
    cases o' with
    | none => rfl
    | some m' =>
      simp only [TL.MinSpec] at h h'
      subst h
      exact absurd ((hm m').mpr h'.1) (by simp)
  | some m =>
    cases o' with
    | none =>
      simp only [TL.MinSpec] at h h'
      subst h'
      exact absurd ((hm m).mp h.1) (by simp)
    | some m' =>
      simp only [TL.MinSpec] at h h'
      have h1 := h.2 m' ((hm m').mpr h'.1)
      have h2 := h'.2 m ((hm m).mp h.1)
      have : m = m' := by omega
      rw [this]

theorem minOpt_perm {l l' : List Nat} (h : List.Perm l l') : minOpt l = minOpt l' :=
  minSpec_unique (minOpt_spec l) (minOpt_spec l') (fun _ => h.mem_iff)

theorem minOpt2_right_comm (a x y : Option Nat) : minOpt2 (minOpt2 a x) y = minOpt2 (minOpt2 a y) x := by
  cases a <;> cases x <;> cases y <;> simp [minOpt2] <;> omega

theorem rev_app_perm {α : Type} {a a' o o' : List α} (h : List.Perm a a') (ho : List.Perm o o') :
    List.Perm (a.reverse ++ o) (a'.reverse ++ o') :=
  List.Perm.append ((List.reverse_perm _).trans (h.trans (List.reverse_perm _).symm)) ho

theorem ite_nil_perm {α : Type} (c : Prop) [Decidable c] {a a' : List α} (h : List.Perm a a') :
    List.Perm (if c then [] else a) (if c then [] else a') := by
  by_cases hc : c
  · rw [if_pos hc, if_pos hc]
  · rw [if_neg hc, if_neg hc]; exact h

/-! ## one step of the summary fold, field by field -/

/-- the spend record the summary fold pushes for `p` (it does not depend on the spends before it) -/
def spendRec (env : Env) (cc : Nat) (p : PSpend) : Spend :=
  postSpend env (wrapF (allBits env.mempool 0 p.items) (spendResult env (spendStart env cc {} {} p.attrs) (itemConds p.items))
      (totalCount p.items) (totalCost env.flags p.items)).spend

theorem enterSpend_eq (env : Env) (cc : Nat) (acc : Bundle × PState) (p : PSpend) :
    enterSpend env cc acc p =
      ({ acc.1 with
          spends := acc.1.spends ++ [spendRec env cc p]
          reserveFee := acc.1.reserveFee + feeSum (itemConds p.items)
          heightAbsolute := max acc.1.heightAbsolute (maxList (heightAbss (itemConds p.items)))
          secondsAbsolute := max acc.1.secondsAbsolute (maxList (secondsAbss (itemConds p.items)))
          aggSigUnsafe := acc.1.aggSigUnsafe ++ sigsOf Gen.opAggSigUnsafe (itemConds p.items)
          beforeHeightAbsolute := minOpt2 acc.1.beforeHeightAbsolute (minOpt (beforeHeightAbss (itemConds p.items)))
          beforeSecondsAbsolute := minOpt2 acc.1.beforeSecondsAbsolute (minOpt (beforeSecondsAbss (itemConds p.items)))
          conditionCost := acc.1.conditionCost + spendCharge env.flags + totalCost env.flags p.items
          removalAmount := acc.1.removalAmount + p.attrs.amount
          additionAmount := acc.1.additionAmount + additions (itemConds p.items) },
       { acc.2 with
          announceCoin := ((itemConds p.items).filterMap (coinAnnouncementOf p.attrs)).reverse ++ acc.2.announceCoin
          announcePuzzle := ((itemConds p.items).filterMap (puzzleAnnouncementOf p.attrs)).reverse ++ acc.2.announcePuzzle
          assertCoin := ((itemConds p.items).filterMap assertCoinAnnouncementOf).reverse ++ acc.2.assertCoin
          assertPuzzle := ((itemConds p.items).filterMap assertPuzzleAnnouncementOf).reverse ++ acc.2.assertPuzzle
          messages := ((itemConds p.items).filterMap (messageOf p.attrs)).reverse ++ acc.2.messages
          assertConcurrentSpend := ((itemConds p.items).filterMap concurrentSpendOf).reverse ++ acc.2.assertConcurrentSpend
          assertConcurrentPuzzle := ((itemConds p.items).filterMap concurrentPuzzleOf).reverse ++ acc.2.assertConcurrentPuzzle
          spentCoins := acc.2.spentCoins ++ [p.attrs.coinId]
          spentPuzzles := p.attrs.puzzleHash :: acc.2.spentPuzzles
          assertEphemeral := List.replicate (ephemeralCount (itemConds p.items)) acc.1.spends.length ++ acc.2.assertEphemeral
          assertNotEphemeral :=
            bif anyNotEphemeral (itemConds p.items) then acc.1.spends.length :: acc.2.assertNotEphemeral
            else acc.2.assertNotEphemeral
          pkmPairs := acc.2.pkmPairs ++
            (if hasFlag env.flags Gen.flagDontValidateSignature then [] else (itemConds p.items).filterMap (signedPairOf p.attrs)) }) := by
  obtain ⟨flags, mempool, pkOk⟩ := env
  cases mempool <;> rfl

/-- what the pushed spend record takes from the spend's attributes and conditions -/
theorem spendRec_fields (env : Env) (cc : Nat) (p : PSpend) :
    (spendRec env cc p).parentId = p.attrs.parentId ∧ (spendRec env cc p).puzzleHash = p.attrs.puzzleHash ∧
    (spendRec env cc p).coinAmount = p.attrs.amount ∧ (spendRec env cc p).coinId = p.attrs.coinId ∧
    (spendRec env cc p).createCoin = newCoins (itemConds p.items) := by
  obtain ⟨flags, mempool, pkOk⟩ := env
  cases mempool <;> exact ⟨rfl, rfl, rfl, rfl, rfl⟩

/-! ## the accumulators of the summary fold, up to listing order -/

/-- two accumulators of the summary fold agree on every scalar of the summary and, up to listing order, on
every collection whose entries do not refer to a spend by its index (not compared: the spend records
themselves and the two index lists ASSERT_EPHEMERAL / "must not be ephemeral") -/
structure AccEquiv (a b : Bundle × PState) : Prop where
  spendsLen : a.1.spends.length = b.1.spends.length
  reserveFee : a.1.reserveFee = b.1.reserveFee
  heightAbsolute : a.1.heightAbsolute = b.1.heightAbsolute
  secondsAbsolute : a.1.secondsAbsolute = b.1.secondsAbsolute
  aggSigUnsafe : List.Perm a.1.aggSigUnsafe b.1.aggSigUnsafe
  beforeHeightAbsolute : a.1.beforeHeightAbsolute = b.1.beforeHeightAbsolute
  beforeSecondsAbsolute : a.1.beforeSecondsAbsolute = b.1.beforeSecondsAbsolute
  cost : a.1.cost = b.1.cost
  executionCost : a.1.executionCost = b.1.executionCost
  conditionCost : a.1.conditionCost = b.1.conditionCost
  removalAmount : a.1.removalAmount = b.1.removalAmount
  additionAmount : a.1.additionAmount = b.1.additionAmount
  validatedSignature : a.1.validatedSignature = b.1.validatedSignature
  announceCoin : List.Perm a.2.announceCoin b.2.announceCoin
  announcePuzzle : List.Perm a.2.announcePuzzle b.2.announcePuzzle
  assertCoin : List.Perm a.2.assertCoin b.2.assertCoin
  assertPuzzle : List.Perm a.2.assertPuzzle b.2.assertPuzzle
  messages : List.Perm a.2.messages b.2.messages
  assertConcurrentSpend : List.Perm a.2.assertConcurrentSpend b.2.assertConcurrentSpend
  assertConcurrentPuzzle : List.Perm a.2.assertConcurrentPuzzle b.2.assertConcurrentPuzzle
  spentCoins : List.Perm a.2.spentCoins b.2.spentCoins
  spentPuzzles : List.Perm a.2.spentPuzzles b.2.spentPuzzles
  pkmPairs : List.Perm a.2.pkmPairs b.2.pkmPairs

theorem AccEquiv.refl (a : Bundle × PState) : AccEquiv a a := by
  constructor <;> first | rfl | exact List.Perm.refl _

theorem AccEquiv.trans {a b c : Bundle × PState} (h1 : AccEquiv a b) (h2 : AccEquiv b c) : AccEquiv a c :=
  ⟨h1.spendsLen.trans h2.spendsLen, h1.reserveFee.trans h2.reserveFee, h1.heightAbsolute.trans h2.heightAbsolute,
   h1.secondsAbsolute.trans h2.secondsAbsolute, h1.aggSigUnsafe.trans h2.aggSigUnsafe,
   h1.beforeHeightAbsolute.trans h2.beforeHeightAbsolute, h1.beforeSecondsAbsolute.trans h2.beforeSecondsAbsolute,
   h1.cost.trans h2.cost, h1.executionCost.trans h2.executionCost, h1.conditionCost.trans h2.conditionCost,
   h1.removalAmount.trans h2.removalAmount, h1.additionAmount.trans h2.additionAmount,
   h1.validatedSignature.trans h2.validatedSignature, h1.announceCoin.trans h2.announceCoin,
   h1.announcePuzzle.trans h2.announcePuzzle, h1.assertCoin.trans h2.assertCoin, h1.assertPuzzle.trans h2.assertPuzzle,
   h1.messages.trans h2.messages, h1.assertConcurrentSpend.trans h2.assertConcurrentSpend,
   h1.assertConcurrentPuzzle.trans h2.assertConcurrentPuzzle, h1.spentCoins.trans h2.spentCoins,
   h1.spentPuzzles.trans h2.spentPuzzles, h1.pkmPairs.trans h2.pkmPairs⟩

theorem enterSpend_accEquiv (env : Env) (cc : Nat) (a a' : Bundle × PState) (p p' : PSpend) (h : AccEquiv a a')
    (hp : PEquiv p p') : AccEquiv (enterSpend env cc a p) (enterSpend env cc a' p') := by
  have hc := hp.conds
  have ha := hp.1
  rw [enterSpend_eq, enterSpend_eq, ← ha]
  constructor <;> dsimp only
  · simp [h.spendsLen]
  · rw [h.reserveFee]; exact congrArg _ (hc.filterMap _).sum_nat
  · rw [h.heightAbsolute]; exact congrArg _ (maxList_perm (hc.filterMap heightAbsOf))
  · rw [h.secondsAbsolute]; exact congrArg _ (maxList_perm (hc.filterMap secondsAbsOf))
  · exact List.Perm.append h.aggSigUnsafe (hc.filterMap _)
  · rw [h.beforeHeightAbsolute]; exact congrArg _ (minOpt_perm (hc.filterMap beforeHeightAbsOf))
  · rw [h.beforeSecondsAbsolute]; exact congrArg _ (minOpt_perm (hc.filterMap beforeSecondsAbsOf))
  · exact h.cost
  · exact h.executionCost
  · rw [h.conditionCost, totalCost_perm env.flags hp.2]
  · rw [h.removalAmount]
  · rw [h.additionAmount]; exact congrArg _ ((hc.filterMap _).map _).sum_nat
  · exact h.validatedSignature
  · exact rev_app_perm (hc.filterMap _) h.announceCoin
  · exact rev_app_perm (hc.filterMap _) h.announcePuzzle
  · exact rev_app_perm (hc.filterMap _) h.assertCoin
  · exact rev_app_perm (hc.filterMap _) h.assertPuzzle
  · exact rev_app_perm (hc.filterMap _) h.messages
  · exact rev_app_perm (hc.filterMap _) h.assertConcurrentSpend
  · exact rev_app_perm (hc.filterMap _) h.assertConcurrentPuzzle
  · exact List.Perm.append h.spentCoins (List.Perm.refl _)
  · exact List.Perm.cons _ h.spentPuzzles
  · exact List.Perm.append h.pkmPairs (ite_nil_perm _ (hc.filterMap _))

theorem enterSpend_comm (env : Env) (cc : Nat) (a : Bundle × PState) (p q : PSpend) :
    AccEquiv (enterSpend env cc (enterSpend env cc a p) q) (enterSpend env cc (enterSpend env cc a q) p) := by
  rw [enterSpend_eq, enterSpend_eq, enterSpend_eq, enterSpend_eq]
  constructor <;> dsimp only <;> first
    | omega
    | exact minOpt2_right_comm _ _ _
    | exact List.perm_append_comm_assoc _ _ _
    | exact List.Perm.swap _ _ _
    | (simp only [List.append_assoc]; exact List.Perm.append_left _ List.perm_append_comm)
    | simp

/-- **the summary fold respects `BPerm`** up to `AccEquiv` -/
theorem bundleFold_bperm (env : Env) (cc : Nat) {ps ps' : List PSpend} (h : BPerm ps ps') :
    AccEquiv (bundleFold env cc ps) (bundleFold env cc ps') :=
  foldl_bperm AccEquiv AccEquiv.refl AccEquiv.trans (enterSpend env cc) (enterSpend_accEquiv env cc)
    (enterSpend_comm env cc) h _ _ (AccEquiv.refl _)

/-! ## the fields of the accumulator that refer to spends by index, in closed form -/

/-- closed form of the index-based fields of an accumulator after the spends `ps0`, `r p` being the spend
record pushed for `p` -/
structure FoldInv (r : PSpend → Spend) (acc : Bundle × PState) (ps0 : List PSpend) : Prop where
  spends : acc.1.spends = ps0.map r
  spentCoins : acc.2.spentCoins = ps0.map (·.attrs.coinId)
  eph : ∀ i, i ∈ acc.2.assertEphemeral ↔ ∃ p, ps0[i]? = some p ∧ 0 < ephemeralCount (itemConds p.items)
  notEph : ∀ i, i ∈ acc.2.assertNotEphemeral ↔ ∃ p, ps0[i]? = some p ∧ anyNotEphemeral (itemConds p.items) = true

theorem foldInv_init (r : PSpend → Spend) : FoldInv r ({}, {}) [] :=
  ⟨rfl, rfl, fun i => by simp, fun i => by simp⟩

theorem getElem?_snoc_iff {α : Type} (l : List α) (q : α) (i : Nat) (P : α → Prop) :
    (∃ p, (l ++ [q])[i]? = some p ∧ P p) ↔ (i = l.length ∧ P q) ∨ ∃ p, l[i]? = some p ∧ P p := by
  by_cases hi : i < l.length
  · rw [List.getElem?_append_left hi]
    constructor
    · intro h; exact Or.inr h
    · rintro (⟨e, _⟩ | h)
      · omega
      · exact h
  · rw [List.getElem?_append_right (by omega), List.getElem?_singleton]
    have hnone : l[i]? = none := List.getElem?_eq_none (by omega)
    constructor
    · rintro ⟨p, hp, hP⟩
      by_cases h0 : i - l.length = 0
      · rw [if_pos h0] at hp
        injection hp with hp; subst hp
        exact Or.inl ⟨by omega, hP⟩
      · rw [if_neg h0] at hp; cases hp
    · rintro (⟨e, hP⟩ | ⟨p, hp, _⟩)
      · exact ⟨q, by rw [if_pos (by omega)], hP⟩
      · rw [hnone] at hp; cases hp

theorem foldInv_step (env : Env) (cc : Nat) {r : PSpend → Spend} {acc : Bundle × PState} {ps0 : List PSpend}
    (h : FoldInv r acc ps0) (q : PSpend) (hq : r q = spendRec env cc q) :
    FoldInv r (enterSpend env cc acc q) (ps0 ++ [q]) := by
  have hlen : acc.1.spends.length = ps0.length := by rw [h.spends, List.length_map]
  rw [enterSpend_eq]
  constructor
  · show acc.1.spends ++ [spendRec env cc q] = _
    rw [h.spends, ← hq]; simp
  · show acc.2.spentCoins ++ [q.attrs.coinId] = _
    rw [h.spentCoins]; simp
  · intro i
    show i ∈ List.replicate (ephemeralCount (itemConds q.items)) acc.1.spends.length ++ acc.2.assertEphemeral ↔ _
    rw [getElem?_snoc_iff, List.mem_append, List.mem_replicate, h.eph i, hlen]
    constructor
    · rintro (⟨h1, h2⟩ | h3)
      · exact Or.inl ⟨h2, by omega⟩
      · exact Or.inr h3
    · rintro (⟨h1, h2⟩ | h3)
      · exact Or.inl ⟨by omega, h1⟩
      · exact Or.inr h3
  · intro i
    show i ∈ (bif anyNotEphemeral (itemConds q.items) then acc.1.spends.length :: acc.2.assertNotEphemeral
        else acc.2.assertNotEphemeral) ↔ _
    rw [getElem?_snoc_iff, ← h.notEph i, hlen]
    cases anyNotEphemeral (itemConds q.items) <;> simp

theorem foldInv_fold (env : Env) (cc : Nat) : ∀ (ps : List PSpend) (acc : Bundle × PState) (ps0 : List PSpend),
    FoldInv (spendRec env cc) acc ps0 → FoldInv (spendRec env cc) (ps.foldl (enterSpend env cc) acc) (ps0 ++ ps)
  | [], acc, ps0, h => by simpa using h
  | q :: ps, acc, ps0, h => by
    have := foldInv_fold env cc ps _ _ (foldInv_step env cc h q rfl)
    simpa [List.append_assoc] using this

theorem bundleFold_inv (env : Env) (cc : Nat) (ps : List PSpend) :
    FoldInv (spendRec env cc) (bundleFold env cc ps) ps := by
  have := foldInv_fold env cc ps _ _ (foldInv_init (spendRec env cc))
  simpa [bundleFold] using this

/-! ## `postProcess` only rewrites the flags of the spend records -/

/-- what `MempoolVisitor::post_process` does to one spend record (it reads two collections of the parse
state, by membership only) -/
def ppSpend (env : Env) (st : PState) (s : Spend) : Spend :=
  if !env.mempool then s else
  let s1 := if st.assertConcurrentSpend.contains s.coinId then { s with flags := clearFlag s.flags ELIGIBLE_FOR_FF } else s
  if s1.flags &&& ELIGIBLE_FOR_FF = 0 then s1
  else if s1.createCoin.any (fun cc => st.spentCoins.contains (newCoinId s1.coinId cc.ph cc.amount))
    then { s1 with flags := clearFlag s1.flags ELIGIBLE_FOR_FF } else s1

theorem postProcess_eq (env : Env) (ret : Bundle) (st : PState) :
    postProcess env ret st = { ret with spends := ret.spends.map (ppSpend env st) } := by
  unfold postProcess
  cases hm : env.mempool with
  | false =>
    have : ppSpend env st = id := by funext s; simp [ppSpend, hm]
    simp [this]
  | true =>
    simp only [Bool.not_true, Bool.false_eq_true, if_false, List.map_map]
    congr 1
    apply List.map_congr_left
    intro s _
    simp [ppSpend, hm]

theorem ppSpend_fields (env : Env) (st : PState) (s : Spend) :
    (ppSpend env st s).parentId = s.parentId ∧ (ppSpend env st s).puzzleHash = s.puzzleHash ∧
    (ppSpend env st s).coinAmount = s.coinAmount ∧ (ppSpend env st s).coinId = s.coinId ∧
    (ppSpend env st s).createCoin = s.createCoin := by
  unfold ppSpend
  dsimp only
  repeat' split
  all_goals exact ⟨rfl, rfl, rfl, rfl, rfl⟩

theorem ppSpend_congr (env : Env) {st st' : PState}
    (h1 : List.Perm st.assertConcurrentSpend st'.assertConcurrentSpend) (h2 : List.Perm st.spentCoins st'.spentCoins)
    (s : Spend) : ppSpend env st s = ppSpend env st' s := by
  unfold ppSpend
  simp only [h1.contains_eq, h2.contains_eq]

/-! ## the two index-based clauses of `Deferred`, index-free -/

/-- the coin spent by `p` is created in the bundle: its parent coin is spent by some `q` of the bundle
which creates a coin with `p`'s puzzle hash and amount -/
def EphP (ps : List PSpend) (p : PSpend) : Prop :=
  ∃ q ∈ ps, q.attrs.coinId = p.attrs.parentId ∧ (p.attrs.puzzleHash, p.attrs.amount) ∈ createKeys (itemConds q.items)

theorem nodup_map_inj {α β : Type} (f : α → β) : ∀ {l : List α}, (l.map f).Nodup → ∀ {i j : Nat} {a b : α},
    l[i]? = some a → l[j]? = some b → f a = f b → i = j := by
  intro l hnd i j a b hi hj e
  have hi' : (l.map f)[i]? = some (f a) := by rw [List.getElem?_map, hi]; rfl
  have hj' : (l.map f)[j]? = some (f b) := by rw [List.getElem?_map, hj]; rfl
  rw [← e] at hj'
  obtain ⟨h1, e1⟩ := List.getElem?_eq_some_iff.mp hi'
  obtain ⟨h2, e2⟩ := List.getElem?_eq_some_iff.mp hj'
  exact (List.getElem_inj hnd).mp (e1.trans e2.symm)

/-- `is_ephemeral`, index-free: for spend records that carry the attributes and created coins of the parsed
spends, and coin ids that are pairwise distinct, the spend at index `i` is ephemeral iff its parent coin
is spent in the bundle by a spend that creates it -/
theorem isEphemeral_iff (ps : List PSpend) (r : PSpend → Spend)
    (hr : ∀ p, (r p).parentId = p.attrs.parentId ∧ (r p).puzzleHash = p.attrs.puzzleHash ∧
      (r p).coinAmount = p.attrs.amount ∧ (r p).createCoin = newCoins (itemConds p.items))
    (st : PState) (hst : st.spentCoins = ps.map (·.attrs.coinId)) (hnd : (ps.map (·.attrs.coinId)).Nodup) (i : Nat) :
    isEphemeral st (ps.map r) i = true ↔ ∃ p, ps[i]? = some p ∧ EphP ps p := by
  unfold isEphemeral
  rw [List.getElem?_map]
  cases hi : ps[i]? with
  | none => simp
  | some p =>
    simp only [Option.map_some]
    rw [(hr p).1, (hr p).2.1, (hr p).2.2.1, hst]
    cases hj : (ps.map (·.attrs.coinId)).idxOf? p.attrs.parentId with
    | none =>
      have hnot := List.idxOf?_eq_none_iff.mp hj
      simp only [Bool.false_eq_true, false_iff]
      rintro ⟨p', e, q, hq, hqc, _⟩
      injection e with e; subst e
      exact hnot (List.mem_map.mpr ⟨q, hq, hqc⟩)
    | some j =>
      obtain ⟨hjl, hje, _⟩ := List.idxOf?_eq_some_iff.mp hj
      have hjl' : j < ps.length := by simpa using hjl
      have hq : ps[j]? = some ps[j] := List.getElem?_eq_getElem hjl'
      have hqc : ps[j].attrs.coinId = p.attrs.parentId := by simpa using hje
      simp only
      rw [List.getElem?_map, hq]
      simp only [Option.map_some]
      rw [(hr ps[j]).2.2.2]
      have hany : ((newCoins (itemConds ps[j].items)).any (fun c => c.ph == p.attrs.puzzleHash && c.amount == p.attrs.amount)) = true ↔
          (p.attrs.puzzleHash, p.attrs.amount) ∈ createKeys (itemConds ps[j].items) := by
        simp only [createKeys, List.any_eq_true, Bool.and_eq_true, beq_iff_eq, List.mem_map, Prod.mk.injEq]
      rw [hany]
      constructor
      · intro h
        exact ⟨p, rfl, ps[j], List.getElem_mem hjl', hqc, h⟩
      · rintro ⟨p', e, q, hqm, hqc', hk⟩
        injection e with e; subst e
        obtain ⟨k, hk'⟩ := List.mem_iff_getElem?.mp hqm
        have : k = j := nodup_map_inj (·.attrs.coinId) hnd hk' hq (hqc'.trans hqc.symm)
        subst this
        rw [hq] at hk'; injection hk' with hk'
        rw [hk']; exact hk

/-- the ASSERT_EPHEMERAL and "must not be ephemeral" rules, index-free -/
def EphRules (ps : List PSpend) : Prop :=
  (∀ p ∈ ps, 0 < ephemeralCount (itemConds p.items) → EphP ps p) ∧
  (∀ p ∈ ps, anyNotEphemeral (itemConds p.items) = true → ¬ EphP ps p)

/-- what `isEphemeral` reads of a spend record -/
def RecOk (r : PSpend → Spend) : Prop :=
  ∀ p, (r p).parentId = p.attrs.parentId ∧ (r p).puzzleHash = p.attrs.puzzleHash ∧
    (r p).coinAmount = p.attrs.amount ∧ (r p).createCoin = newCoins (itemConds p.items)

theorem recOk_spendRec (env : Env) (ccf : PSpend → Nat) : RecOk (fun p => spendRec env (ccf p) p) := by
  intro p
  obtain ⟨b1, b2, b3, _, b5⟩ := spendRec_fields env (ccf p) p
  exact ⟨b1, b2, b3, b5⟩

/-- the spend records after `postProcess`, for an accumulator in closed form -/
theorem postProcess_spends (env : Env) {r : PSpend → Spend} {ps : List PSpend} {F : Bundle × PState}
    (inv : FoldInv r F ps) : (postProcess env F.1 F.2).spends = ps.map (fun p => ppSpend env F.2 (r p)) := by
  rw [postProcess_eq]
  show List.map _ F.1.spends = _
  rw [inv.spends, List.map_map]; rfl

theorem eph_clauses_iff (env : Env) {r : PSpend → Spend} (hr0 : RecOk r) {ps : List PSpend} {F : Bundle × PState}
    (inv : FoldInv r F ps) (hnd : (ps.map (·.attrs.coinId)).Nodup) :
    ((∀ i ∈ F.2.assertEphemeral, isEphemeral F.2 (postProcess env F.1 F.2).spends i = true) ∧
     (∀ i ∈ F.2.assertNotEphemeral, isEphemeral F.2 (postProcess env F.1 F.2).spends i = false)) ↔
      EphRules ps := by
  have hsp := postProcess_spends env inv
  have hr : ∀ p, (ppSpend env F.2 (r p)).parentId = p.attrs.parentId ∧
      (ppSpend env F.2 (r p)).puzzleHash = p.attrs.puzzleHash ∧
      (ppSpend env F.2 (r p)).coinAmount = p.attrs.amount ∧
      (ppSpend env F.2 (r p)).createCoin = newCoins (itemConds p.items) := by
    intro p
    obtain ⟨a1, a2, a3, _, a5⟩ := ppSpend_fields env F.2 (r p)
    obtain ⟨b1, b2, b3, b5⟩ := hr0 p
    exact ⟨a1.trans b1, a2.trans b2, a3.trans b3, a5.trans b5⟩
  have key := isEphemeral_iff ps _ hr F.2 inv.spentCoins hnd
  rw [hsp]
  unfold EphRules
  constructor
  · rintro ⟨h1, h2⟩
    constructor
    · intro p hp hpos
      obtain ⟨i, hi⟩ := List.mem_iff_getElem?.mp hp
      obtain ⟨p', e, he⟩ := (key i).mp (h1 i ((inv.eph i).mpr ⟨p, hi, hpos⟩))
      rw [hi] at e; injection e with e; subst e; exact he
    · intro p hp hany he
      obtain ⟨i, hi⟩ := List.mem_iff_getElem?.mp hp
      have := h2 i ((inv.notEph i).mpr ⟨p, hi, hany⟩)
      rw [(key i).mpr ⟨p, hi, he⟩] at this
      cases this
  · rintro ⟨h1, h2⟩
    constructor
    · intro i hi
      obtain ⟨p, hp, hpos⟩ := (inv.eph i).mp hi
      exact (key i).mpr ⟨p, hp, h1 p (List.mem_of_getElem? hp) hpos⟩
    · intro i hi
      obtain ⟨p, hp, hany⟩ := (inv.notEph i).mp hi
      cases hb : isEphemeral F.2 (ps.map (fun p => ppSpend env F.2 (r p))) i with
      | false => rfl
      | true =>
        obtain ⟨p', e, he⟩ := (key i).mp hb
        rw [hp] at e; injection e with e; subst e
        exact absurd he (h2 p (List.mem_of_getElem? hp) hany)

theorem ephP_bperm {ps ps' : List PSpend} (h : BPerm ps ps') {p p' : PSpend} (hp : PEquiv p p') :
    EphP ps p → EphP ps' p' := by
  rintro ⟨q, hq, hqc, hk⟩
  obtain ⟨q', hq', he⟩ := h.symm.mem q hq
  refine ⟨q', hq', ?_, ?_⟩
  · rw [he.1, ← hp.1]; exact hqc
  · rw [← hp.1]
    exact (((he.conds.filterMap newCoinOf).map _).mem_iff).mpr hk

theorem ephRules_bperm {ps ps' : List PSpend} (h : BPerm ps ps') : EphRules ps → EphRules ps' := by
  rintro ⟨h1, h2⟩
  constructor
  · intro p' hp' hpos
    obtain ⟨p, hp, he⟩ := h.mem p' hp'
    refine ephP_bperm h he (h1 p hp ?_)
    have : ephemeralCount (itemConds p.items) = ephemeralCount (itemConds p'.items) := he.conds.countP_eq _
    omega
  · intro p' hp' hany hE
    obtain ⟨p, hp, he⟩ := h.mem p' hp'
    refine h2 p hp ?_ (ephP_bperm h.symm he.symm hE)
    have : anyNotEphemeral (itemConds p.items) = anyNotEphemeral (itemConds p'.items) := he.conds.any_eq
    rw [this]; exact hany

/-! ## the deferred rules, acceptance and the summary respect `BPerm` -/

theorem int_sum_perm {l l' : List Int} (h : List.Perm l l') : l.sum = l'.sum := by
  induction h with
  | nil => rfl
  | cons a _ ih => simp only [List.sum_cons, ih]
  | swap a b l => simp only [List.sum_cons]; omega
  | trans _ _ ih1 ih2 => exact ih1.trans ih2

theorem postProcess_scalars (env : Env) (ret : Bundle) (st : PState) :
    (postProcess env ret st).additionAmount = ret.additionAmount ∧
    (postProcess env ret st).removalAmount = ret.removalAmount ∧
    (postProcess env ret st).reserveFee = ret.reserveFee ∧
    (postProcess env ret st).heightAbsolute = ret.heightAbsolute ∧
    (postProcess env ret st).secondsAbsolute = ret.secondsAbsolute ∧
    (postProcess env ret st).beforeHeightAbsolute = ret.beforeHeightAbsolute ∧
    (postProcess env ret st).beforeSecondsAbsolute = ret.beforeSecondsAbsolute ∧
    (postProcess env ret st).conditionCost = ret.conditionCost ∧
    (postProcess env ret st).executionCost = ret.executionCost ∧
    (postProcess env ret st).aggSigUnsafe = ret.aggSigUnsafe ∧
    (postProcess env ret st).spends.length = ret.spends.length := by
  rw [postProcess_eq]
  exact ⟨rfl, rfl, rfl, rfl, rfl, rfl, rfl, rfl, rfl, rfl, by simp⟩

/-- the clauses of `Deferred` that do not name spends by index are carried along `AccEquiv` -/
theorem deferred_transfer (env : Env) {a a' : Bundle × PState} (e : AccEquiv a a')
    (hd : Deferred (postProcess env a.1 a.2) a.2)
    (h8 : ∀ i ∈ a'.2.assertEphemeral, isEphemeral a'.2 (postProcess env a'.1 a'.2).spends i = true)
    (h9 : ∀ i ∈ a'.2.assertNotEphemeral, isEphemeral a'.2 (postProcess env a'.1 a'.2).spends i = false) :
    Deferred (postProcess env a'.1 a'.2) a'.2 := by
  obtain ⟨s1, s2, s3, s4, s5, s6, s7, _, _, _, _⟩ := postProcess_scalars env a.1 a.2
  obtain ⟨t1, t2, t3, t4, t5, t6, t7, _, _, _, _⟩ := postProcess_scalars env a'.1 a'.2
  obtain ⟨d1, d2, d3, d4, d5, d6, d7, _, _, d10, d11⟩ := hd
  rw [s1, s2] at d1
  rw [s1, s2, s3] at d2
  rw [s4, s6] at d3
  rw [s5, s7] at d4
  refine ⟨?_, ?_, ?_, ?_, ?_, ?_, ?_, h8, h9, ?_, ?_⟩
  · rw [t1, t2, ← e.additionAmount, ← e.removalAmount]; exact d1
  · rw [t1, t2, t3, ← e.additionAmount, ← e.removalAmount, ← e.reserveFee]; exact d2
  · rw [t4, t6, ← e.heightAbsolute, ← e.beforeHeightAbsolute]; exact d3
  · rw [t5, t7, ← e.secondsAbsolute, ← e.beforeSecondsAbsolute]; exact d4
  · intro id hid
    exact e.spentCoins.mem_iff.mp (d5 id (e.assertConcurrentSpend.mem_iff.mpr hid))
  · intro ph hph
    exact e.spentPuzzles.mem_iff.mp (d6 ph (e.assertConcurrentPuzzle.mem_iff.mpr hph))
  · intro x hx
    obtain ⟨p, hp, hpe⟩ := d7 x (e.assertCoin.mem_iff.mpr hx)
    exact ⟨p, e.announceCoin.mem_iff.mp hp, hpe⟩
  · intro x hx
    obtain ⟨p, hp, hpe⟩ := d10 x (e.assertPuzzle.mem_iff.mpr hx)
    exact ⟨p, e.announcePuzzle.mem_iff.mp hp, hpe⟩
  · intro m hm
    rw [← int_sum_perm ((e.messages.filter (fun x => x.1 == m.1)).map (·.2))]
    exact d11 m (e.messages.mem_iff.mpr hm)

theorem coinIds_bperm {ps ps' : List PSpend} (h : BPerm ps ps') :
    List.Perm (ps.map (·.attrs.coinId)) (ps'.map (·.attrs.coinId)) :=
  h.map_perm (·.attrs.coinId) (fun _ _ hp => by rw [hp.1])

/-- **the deferred rules respect `BPerm`**, for any two accumulators in closed form that are `AccEquiv` -/
theorem deferred_of_inv (env : Env) {r r' : PSpend → Spend} (hr : RecOk r) (hr' : RecOk r') {ps ps' : List PSpend}
    (h : BPerm ps ps') {F F' : Bundle × PState} (inv : FoldInv r F ps) (inv' : FoldInv r' F' ps') (e : AccEquiv F F')
    (hnd : (ps.map (·.attrs.coinId)).Nodup) (hd : Deferred (postProcess env F.1 F.2) F.2) :
    Deferred (postProcess env F'.1 F'.2) F'.2 := by
  have hnd' := (coinIds_bperm h).nodup_iff.mp hnd
  have heph := (eph_clauses_iff env hr inv hnd).mp ⟨hd.2.2.2.2.2.2.2.1, hd.2.2.2.2.2.2.2.2.1⟩
  have heph' := (eph_clauses_iff env hr' inv' hnd').mpr (ephRules_bperm h heph)
  exact deferred_transfer env e hd heph'.1 heph'.2

theorem deferred_bperm (env : Env) (cc : Nat) {ps ps' : List PSpend} (h : BPerm ps ps')
    (hnd : (ps.map (·.attrs.coinId)).Nodup)
    (hd : Deferred (postProcess env (bundleFold env cc ps).1 (bundleFold env cc ps).2) (bundleFold env cc ps).2) :
    Deferred (postProcess env (bundleFold env cc ps').1 (bundleFold env cc ps').2) (bundleFold env cc ps').2 :=
  deferred_of_inv env (recOk_spendRec env (fun _ => cc)) (recOk_spendRec env (fun _ => cc)) h
    (bundleFold_inv env cc ps) (bundleFold_inv env cc ps') (bundleFold_bperm env cc h) hnd hd

theorem bundleCost_bperm (flags : Nat) {ps ps' : List PSpend} (h : BPerm ps ps') :
    bundleCost flags ps = bundleCost flags ps' :=
  (h.map_perm (spendCost flags) (fun p p' hp => by simp only [spendCost, totalCost_perm flags hp.2])).sum_nat

theorem bundleFee_bperm {ps ps' : List PSpend} (h : BPerm ps ps') : bundleFee ps = bundleFee ps' :=
  (h.map_perm (fun p => feeSum (itemConds p.items)) (fun _ _ hp => (hp.conds.filterMap _).sum_nat)).sum_nat

/-- **the bundle rules respect `BPerm`**: acceptance does not depend on the order of the spends nor on the
order of the conditions inside a spend, provided the signature verdict does not depend on the order of the
(public key, signed text) pairs -/
theorem bundleAccepts_bperm (env : Env) (sigOk : List (Bytes × Bytes) → Bool)
    (hsig : ∀ pairs pairs', List.Perm pairs pairs' → sigOk pairs = sigOk pairs') (L cc : Nat)
    {ps ps' : List PSpend} (h : BPerm ps ps') (ha : BundleAccepts env sigOk L cc ps) :
    BundleAccepts env sigOk L cc ps' := by
  obtain ⟨b1, b2, b3, b4, b5, b6, b7⟩ := ha
  refine ⟨by rw [← h.length_eq]; exact b1, (coinIds_bperm h).nodup_iff.mp b2, by rw [← bundleCost_bperm _ h]; exact b3,
    ?_, by rw [← bundleFee_bperm h]; exact b5, deferred_bperm env cc h b2 b6, ?_⟩
  · intro p' hp'
    obtain ⟨p, hp, he⟩ := h.mem p' hp'
    rw [← he.1]
    exact (accepts_perm env _ 0 1024 he.conds).mp (b4 p hp)
  · intro hf
    rw [← hsig _ _ (bundleFold_bperm env cc h).pkmPairs]
    exact b7 hf

theorem bundleAccepts_bperm_iff (env : Env) (sigOk : List (Bytes × Bytes) → Bool)
    (hsig : ∀ pairs pairs', List.Perm pairs pairs' → sigOk pairs = sigOk pairs') (L cc : Nat)
    {ps ps' : List PSpend} (h : BPerm ps ps') : BundleAccepts env sigOk L cc ps ↔ BundleAccepts env sigOk L cc ps' :=
  ⟨bundleAccepts_bperm env sigOk hsig L cc h, bundleAccepts_bperm env sigOk hsig L cc h.symm⟩

/-- the spend records of the reported summary -/
theorem summary_spends (env : Env) (cc : Nat) (ps : List PSpend) :
    (bundleSummary env cc ps).1.spends =
      ps.map (fun p => ppSpend env (bundleFold env cc ps).2 (spendRec env cc p)) :=
  postProcess_spends env (bundleFold_inv env cc ps)

/-- **the aggregates of the reported summary respect `BPerm`** -/
theorem bundleSummary_bperm (env : Env) (cc : Nat) {ps ps' : List PSpend} (h : BPerm ps ps') :
    (bundleSummary env cc ps').1.cost = (bundleSummary env cc ps).1.cost ∧
    (bundleSummary env cc ps').1.conditionCost = (bundleSummary env cc ps).1.conditionCost ∧
    (bundleSummary env cc ps').1.executionCost = (bundleSummary env cc ps).1.executionCost ∧
    (bundleSummary env cc ps').1.removalAmount = (bundleSummary env cc ps).1.removalAmount ∧
    (bundleSummary env cc ps').1.additionAmount = (bundleSummary env cc ps).1.additionAmount ∧
    (bundleSummary env cc ps').1.reserveFee = (bundleSummary env cc ps).1.reserveFee ∧
    (bundleSummary env cc ps').1.heightAbsolute = (bundleSummary env cc ps).1.heightAbsolute ∧
    (bundleSummary env cc ps').1.secondsAbsolute = (bundleSummary env cc ps).1.secondsAbsolute ∧
    (bundleSummary env cc ps').1.beforeHeightAbsolute = (bundleSummary env cc ps).1.beforeHeightAbsolute ∧
    (bundleSummary env cc ps').1.beforeSecondsAbsolute = (bundleSummary env cc ps).1.beforeSecondsAbsolute ∧
    (bundleSummary env cc ps').1.spends.length = (bundleSummary env cc ps).1.spends.length ∧
    (bundleSummary env cc ps').1.validatedSignature = (bundleSummary env cc ps).1.validatedSignature ∧
    List.Perm (bundleSummary env cc ps').1.aggSigUnsafe (bundleSummary env cc ps).1.aggSigUnsafe := by
  have e := bundleFold_bperm env cc h
  obtain ⟨s1, s2, s3, s4, s5, s6, s7, s8, s9, s10, s11⟩ :=
    postProcess_scalars env (bundleFold env cc ps).1 (bundleFold env cc ps).2
  obtain ⟨t1, t2, t3, t4, t5, t6, t7, t8, t9, t10, t11⟩ :=
    postProcess_scalars env (bundleFold env cc ps').1 (bundleFold env cc ps').2
  refine ⟨(bundleCost_bperm env.flags h).symm, ?_, ?_, ?_, ?_, ?_, ?_, ?_, ?_, ?_, ?_, rfl, ?_⟩
  · exact t8.trans (e.conditionCost.symm.trans s8.symm)
  · exact t9.trans (e.executionCost.symm.trans s9.symm)
  · exact t2.trans (e.removalAmount.symm.trans s2.symm)
  · exact t1.trans (e.additionAmount.symm.trans s1.symm)
  · exact t3.trans (e.reserveFee.symm.trans s3.symm)
  · exact t4.trans (e.heightAbsolute.symm.trans s4.symm)
  · exact t5.trans (e.secondsAbsolute.symm.trans s5.symm)
  · exact t6.trans (e.beforeHeightAbsolute.symm.trans s6.symm)
  · exact t7.trans (e.beforeSecondsAbsolute.symm.trans s7.symm)
  · exact t11.trans (e.spendsLen.symm.trans s11.symm)
  · show List.Perm (postProcess env (bundleFold env cc ps').1 (bundleFold env cc ps').2).aggSigUnsafe
      (postProcess env (bundleFold env cc ps).1 (bundleFold env cc ps).2).aggSigUnsafe
    rw [t10, s10]; exact e.aggSigUnsafe.symm

/-- under a permutation of the spends (conditions untouched) the reported spend records are permuted
accordingly — every field of every record, the mempool eligibility flags included -/
theorem summary_spends_perm (env : Env) (cc : Nat) {ps ps' : List PSpend} (h : List.Perm ps ps') :
    List.Perm (bundleSummary env cc ps).1.spends (bundleSummary env cc ps').1.spends := by
  have e := bundleFold_bperm env cc (BPerm.of_perm h)
  rw [summary_spends, summary_spends]
  have : (fun p => ppSpend env (bundleFold env cc ps').2 (spendRec env cc p)) =
      (fun p => ppSpend env (bundleFold env cc ps).2 (spendRec env cc p)) := by
    funext p
    exact (ppSpend_congr env e.assertConcurrentSpend e.spentCoins _).symm
  rw [this]
  exact h.map _

/-! ## parsing is per spend and per condition -/

theorem parseSpendList_cons (flags : Nat) (x : Sexp) (l : List Sexp) (ps : List PSpend) :
    parseSpendList flags (x :: l) = some ps ↔
      ∃ p ps0, parseSpend flags x = some p ∧ parseSpendList flags l = some ps0 ∧ ps = p :: ps0 := by
  simp only [parseSpendList]
  cases parseSpend flags x <;> cases parseSpendList flags l <;> simp [eq_comm]

theorem parseSpendList_perm (flags : Nat) {xs xs' : List Sexp} (hp : List.Perm xs xs') : ∀ {ps : List PSpend},
    parseSpendList flags xs = some ps → ∃ ps', parseSpendList flags xs' = some ps' ∧ List.Perm ps ps' := by
  induction hp with
  | nil => intro ps h; exact ⟨ps, h, List.Perm.refl _⟩
  | cons x _ ih =>
    intro ps h
    obtain ⟨p, ps0, h1, h2, rfl⟩ := (parseSpendList_cons _ _ _ _).mp h
    obtain ⟨ps0', h2', hp'⟩ := ih h2
    exact ⟨p :: ps0', (parseSpendList_cons _ _ _ _).mpr ⟨p, ps0', h1, h2', rfl⟩, List.Perm.cons _ hp'⟩
  | swap a b l =>
    intro ps h
    obtain ⟨pb, ps0, h1, h2, rfl⟩ := (parseSpendList_cons _ _ _ _).mp h
    obtain ⟨pa, ps1, h3, h4, rfl⟩ := (parseSpendList_cons _ _ _ _).mp h2
    exact ⟨pa :: pb :: ps1, (parseSpendList_cons _ _ _ _).mpr ⟨pa, _, h3,
      (parseSpendList_cons _ _ _ _).mpr ⟨pb, ps1, h1, h4, rfl⟩, rfl⟩, List.Perm.swap _ _ _⟩
  | trans _ _ ih1 ih2 =>
    intro ps h
    obtain ⟨p1, h1, e1⟩ := ih1 h
    obtain ⟨p2, h2, e2⟩ := ih2 h1
    exact ⟨p2, h2, e1.trans e2⟩

theorem parseSpendList_split (flags : Nat) (x : Sexp) (post : List Sexp) : ∀ (pre : List Sexp) (ps : List PSpend),
    parseSpendList flags (pre ++ x :: post) = some ps ↔
      ∃ a p c, parseSpendList flags pre = some a ∧ parseSpend flags x = some p ∧ parseSpendList flags post = some c ∧
        ps = a ++ p :: c
  | [], ps => by
    rw [List.nil_append, parseSpendList_cons]
    constructor
    · rintro ⟨p, c, h1, h2, rfl⟩; exact ⟨[], p, c, rfl, h1, h2, rfl⟩
    · rintro ⟨a, p, c, h0, h1, h2, rfl⟩
      injection h0 with h0; subst h0
      exact ⟨p, c, h1, h2, rfl⟩
  | y :: pre, ps => by
    rw [List.cons_append, parseSpendList_cons]
    constructor
    · rintro ⟨q, ps0, h1, h2, rfl⟩
      obtain ⟨a, p, c, h3, h4, h5, rfl⟩ := (parseSpendList_split flags x post pre ps0).mp h2
      exact ⟨q :: a, p, c, (parseSpendList_cons _ _ _ _).mpr ⟨q, a, h1, h3, rfl⟩, h4, h5, rfl⟩
    · rintro ⟨a0, p, c, h0, h1, h2, rfl⟩
      obtain ⟨q, a, h3, h4, rfl⟩ := (parseSpendList_cons _ _ _ _).mp h0
      exact ⟨q, a ++ p :: c, h3, (parseSpendList_split flags x post pre _).mpr ⟨a, p, c, h4, h1, h2, rfl⟩, rfl⟩

/-- a spend whose condition list is permuted (and whose tail after the condition list is arbitrary) parses
to an equivalent spend -/
theorem parseSpend_conds_perm (flags : Nat) {parent ph amount conds conds' rest rest' : Sexp} {cs cs' : List Sexp}
    (ht : sexpList conds = some cs) (ht' : sexpList conds' = some cs') (hp : List.Perm cs cs') (p : PSpend)
    (h : parseSpend flags (.pair parent (.pair ph (.pair amount (.pair conds rest)))) = some p) :
    ∃ p', parseSpend flags (.pair parent (.pair ph (.pair amount (.pair conds' rest')))) = some p' ∧ PEquiv p p' ∧
      parseAll flags cs = .ok p.items := by
  obtain ⟨conds0, cs0, hst, hl, hpa⟩ := parseSpend_some h
  obtain ⟨pa, pha, amt, r, v, hx, l1, l2, hs, hattr⟩ := spendTuple_some hst
  injection hx with e1 hx; injection hx with e2 hx; injection hx with e3 hx; injection hx with e4 e5
  subst e1 e2 e3 e4
  rw [ht] at hl; injection hl with hl; subst hl
  obtain ⟨items', hpa', hip⟩ := parseAll_perm flags hp hpa
  have hst' : spendTuple (.pair (.atom pa) (.pair (.atom pha) (.pair (.atom amt) (.pair conds' rest')))) = some (p.attrs, conds') := by
    simp [spendTuple, l1, l2, hs, hattr]
  exact ⟨⟨p.attrs, items'⟩, parseSpend_intro hst' ht' hpa', ⟨rfl, hip⟩, hpa⟩

/-! ## the spend records, up to listing order and the positional fast-forward bit -/

/-- two spend records agree on every field, the created coins and the seven AGG_SIG lists up to the order in
which they are listed -/
structure SpendEquiv (s t : Spend) : Prop where
  parentId : s.parentId = t.parentId
  coinAmount : s.coinAmount = t.coinAmount
  puzzleHash : s.puzzleHash = t.puzzleHash
  coinId : s.coinId = t.coinId
  heightRelative : s.heightRelative = t.heightRelative
  secondsRelative : s.secondsRelative = t.secondsRelative
  beforeHeightRelative : s.beforeHeightRelative = t.beforeHeightRelative
  beforeSecondsRelative : s.beforeSecondsRelative = t.beforeSecondsRelative
  birthHeight : s.birthHeight = t.birthHeight
  birthSeconds : s.birthSeconds = t.birthSeconds
  createCoin : List.Perm s.createCoin t.createCoin
  aggSigMe : List.Perm s.aggSigMe t.aggSigMe
  aggSigParent : List.Perm s.aggSigParent t.aggSigParent
  aggSigPuzzle : List.Perm s.aggSigPuzzle t.aggSigPuzzle
  aggSigAmount : List.Perm s.aggSigAmount t.aggSigAmount
  aggSigPuzzleAmount : List.Perm s.aggSigPuzzleAmount t.aggSigPuzzleAmount
  aggSigParentAmount : List.Perm s.aggSigParentAmount t.aggSigParentAmount
  aggSigParentPuzzle : List.Perm s.aggSigParentPuzzle t.aggSigParentPuzzle
  flags : s.flags = t.flags
  executionCost : s.executionCost = t.executionCost
  conditionCost : s.conditionCost = t.conditionCost

theorem SpendEquiv.refl (s : Spend) : SpendEquiv s s := by
  constructor <;> first | rfl | exact List.Perm.refl _

theorem _root_.ChiaModel.Cond.CEquiv.toSpend {s t : CSt} (h : CEquiv s t) : SpendEquiv s.spend t.spend :=
  ⟨h.spend_parentId, h.spend_coinAmount, h.spend_puzzleHash, h.spend_coinId, h.spend_heightRelative,
   h.spend_secondsRelative, h.spend_beforeHeightRelative, h.spend_beforeSecondsRelative, h.spend_birthHeight,
   h.spend_birthSeconds, h.spend_createCoin, h.spend_aggSigMe, h.spend_aggSigParent, h.spend_aggSigPuzzle,
   h.spend_aggSigAmount, h.spend_aggSigPuzzleAmount, h.spend_aggSigParentAmount, h.spend_aggSigParentPuzzle,
   h.spend_flags, h.spend_executionCost, h.spend_conditionCost⟩

/-- clear ELIGIBLE_FOR_FF in a spend record -/
def clrFF (s : Spend) : Spend := { s with flags := clearFlag s.flags ELIGIBLE_FOR_FF }

theorem SpendEquiv.clrFF {s t : Spend} (h : SpendEquiv s t) : SpendEquiv (clrFF s) (clrFF t) := by
  obtain ⟨h1, h2, h3, h4, h5, h6, h7, h8, h9, h10, h11, h12, h13, h14, h15, h16, h17, h18, h19, h20, h21⟩ := h
  exact ⟨h1, h2, h3, h4, h5, h6, h7, h8, h9, h10, h11, h12, h13, h14, h15, h16, h17, h18,
    congrArg (clearFlag · ELIGIBLE_FOR_FF) h19, h20, h21⟩

theorem and_one' (x : Nat) : x &&& ELIGIBLE_FOR_DEDUP = x % 2 := Nat.and_one_is_mod x
theorem and_four' (x : Nat) : x &&& ELIGIBLE_FOR_FF = 4 * (x / 4 % 2) := and_four x

theorem clearFF_and (f : Nat) : clearFlag f ELIGIBLE_FOR_FF &&& ELIGIBLE_FOR_FF = 0 := by
  rw [and_four', clearFlag_four]; split <;> omega

theorem clearFF_idem (f : Nat) : clearFlag (clearFlag f ELIGIBLE_FOR_FF) ELIGIBLE_FOR_FF = clearFlag f ELIGIBLE_FOR_FF := by
  simp only [clearFlag_four]
  repeat' split
  all_goals omega

theorem clearFF_dedup (f : Nat) : clearFlag f ELIGIBLE_FOR_FF &&& ELIGIBLE_FOR_DEDUP = f &&& ELIGIBLE_FOR_DEDUP := by
  rw [and_one', and_one', clearFlag_four]; split <;> omega

theorem clearFlag_comm (f : Nat) :
    clearFlag (clearFlag f ELIGIBLE_FOR_DEDUP) ELIGIBLE_FOR_FF = clearFlag (clearFlag f ELIGIBLE_FOR_FF) ELIGIBLE_FOR_DEDUP := by
  rw [← clr_tt, clr_tt']

/-- the flags computation of `MempoolVisitor::post_spend` -/
def psFlags (f : Nat) (p1 p2 : Bool) : Nat :=
  let f1 := if f &&& ELIGIBLE_FOR_FF ≠ 0 ∧ p1 = true then clearFlag f ELIGIBLE_FOR_FF else f
  if f1 &&& ELIGIBLE_FOR_DEDUP ≠ 0 ∧ p2 = true then clearFlag f1 ELIGIBLE_FOR_DEDUP else f1

/-- up to ELIGIBLE_FOR_FF, `post_spend` does not read ELIGIBLE_FOR_FF -/
theorem psFlags_ff (f : Nat) (p1 p2 : Bool) :
    clearFlag (psFlags f p1 p2) ELIGIBLE_FOR_FF = clearFlag (psFlags (clearFlag f ELIGIBLE_FOR_FF) p1 p2) ELIGIBLE_FOR_FF := by
  unfold psFlags
  dsimp only
  rw [if_neg (show ¬ (clearFlag f ELIGIBLE_FOR_FF &&& ELIGIBLE_FOR_FF ≠ 0 ∧ p1 = true) from fun h => h.1 (clearFF_and f))]
  by_cases c1 : f &&& ELIGIBLE_FOR_FF ≠ 0 ∧ p1 = true
  · rw [if_pos c1]
  · rw [if_neg c1, clearFF_dedup]
    by_cases c : f &&& ELIGIBLE_FOR_DEDUP ≠ 0 ∧ p2 = true
    · rw [if_pos c, if_pos c, clearFlag_comm, clearFlag_comm, clearFF_idem]
    · rw [if_neg c, if_neg c, clearFF_idem]

theorem postSpend_eq (env : Env) (sp : Spend) :
    postSpend env sp = if !env.mempool then sp else
      { sp with
        flags := psFlags sp.flags (!(sp.createCoin.any (fun c => c.ph == sp.puzzleHash && c.amount == sp.coinAmount))) (decide (sp.coinAmount > (sp.createCoin.map (fun c => c.amount)).sum)) } := by
  unfold postSpend psFlags
  simp only [decide_eq_true_eq]

theorem postSpend_clrFF (env : Env) (sp : Spend) : clrFF (postSpend env sp) = clrFF (postSpend env (clrFF sp)) := by
  rw [postSpend_eq, postSpend_eq]
  cases env.mempool with
  | false =>
    simp only [Bool.not_false, if_true, clrFF, clearFF_idem]
  | true =>
    simp only [Bool.not_true, Bool.false_eq_true, if_false, clrFF]
    rw [psFlags_ff]
    rfl

theorem postSpend_congr (env : Env) {s t : Spend} (h : SpendEquiv s t) : SpendEquiv (postSpend env s) (postSpend env t) := by
  rw [postSpend_eq, postSpend_eq]
  cases env.mempool with
  | false => simpa using h
  | true =>
    simp only [Bool.not_true, Bool.false_eq_true, if_false]
    obtain ⟨h1, h2, h3, h4, h5, h6, h7, h8, h9, h10, h11, h12, h13, h14, h15, h16, h17, h18, h19, h20, h21⟩ := h
    refine ⟨h1, h2, h3, h4, h5, h6, h7, h8, h9, h10, h11, h12, h13, h14, h15, h16, h17, h18, ?_, h20, h21⟩
    show psFlags _ _ _ = psFlags _ _ _
    rw [h19, h3, h2, h11.any_eq, (h11.map (fun c => c.amount)).sum_nat]

/-- `post_process` only ever clears ELIGIBLE_FOR_FF -/
theorem ppSpend_clrFF (env : Env) (st : PState) (s : Spend) : clrFF (ppSpend env st s) = clrFF s := by
  unfold ppSpend
  dsimp only
  repeat' split
  all_goals simp only [clrFF, clearFF_idem]

/-- the flags computation of `post_process` for one spend record -/
def ppFlags (env : Env) (st : PState) (coinId : Bytes) (flags : Nat) (cany : Bool) : Nat :=
  if !env.mempool then flags else
  let f1 := if st.assertConcurrentSpend.contains coinId then clearFlag flags ELIGIBLE_FOR_FF else flags
  if f1 &&& ELIGIBLE_FOR_FF = 0 then f1 else if cany then clearFlag f1 ELIGIBLE_FOR_FF else f1

theorem ppSpend_eq (env : Env) (st : PState) (s : Spend) :
    ppSpend env st s = { s with
      flags := ppFlags env st s.coinId s.flags (s.createCoin.any (fun cc => st.spentCoins.contains (newCoinId s.coinId cc.ph cc.amount))) } := by
  unfold ppSpend ppFlags
  cases env.mempool with
  | false => rfl
  | true =>
    simp only [Bool.not_true, Bool.false_eq_true, if_false]
    by_cases c1 : st.assertConcurrentSpend.contains s.coinId = true
    · simp only [c1, if_true]
      split
      · rfl
      · split <;> rfl
    · simp only [c1, if_false, Bool.false_eq_true]
      split
      · rfl
      · split <;> rfl

theorem ppSpend_sim (env : Env) (st : PState) {s t : Spend} (h : SpendEquiv s t) :
    SpendEquiv (ppSpend env st s) (ppSpend env st t) := by
  obtain ⟨h1, h2, h3, h4, h5, h6, h7, h8, h9, h10, h11, h12, h13, h14, h15, h16, h17, h18, h19, h20, h21⟩ := h
  rw [ppSpend_eq env st s, ppSpend_eq env st t]
  refine ⟨h1, h2, h3, h4, h5, h6, h7, h8, h9, h10, h11, h12, h13, h14, h15, h16, h17, h18, ?_, h20, h21⟩
  show ppFlags _ _ _ _ _ = ppFlags _ _ _ _ _
  rw [h4, h19, h11.any_eq]


/-- the per-spend summary entered for a permuted condition list, up to listing order -/
theorem spendResult_cequiv (env : Env) (S : CSt) (hs : FreshSpend S.spend) (hfee : S.ret.reserveFee < 2 ^ 64)
    {cs cs' : List Cond} (hc : List.Perm cs cs')
    (hacc : SpendAccepts env (attrsOf S.spend) S.ret.reserveFee S.countdown cs) :
    CEquiv (spendResult env S cs) (spendResult env S cs') := by
  have h1 := (applyAll_iff env S hs hfee cs _).mpr ⟨hacc, rfl⟩
  obtain ⟨t2, h2, hce⟩ := applyAll_perm env hc h1
  have := ((applyAll_iff env S hs hfee cs' t2).mp h2).2
  subst this
  exact hce

/-- **the spend record pushed for a spend whose conditions are permuted**: equal up to listing order once
ELIGIBLE_FOR_FF is cleared in both; equal up to listing order outright under the empty visitor or when no
item is an ASSERT_MY_PARENT_ID -/
theorem spendRec_sim (env : Env) (cc : Nat) {p p' : PSpend} (he : PEquiv p p')
    (hacc : SpendAccepts env p.attrs 0 1024 (itemConds p.items)) :
    SpendEquiv (clrFF (spendRec env cc p)) (clrFF (spendRec env cc p')) ∧
    ((env.mempool = false ∨ NoParentId p.items) → SpendEquiv (spendRec env cc p) (spendRec env cc p')) := by
  have hce := spendResult_cequiv env (spendStart env cc {} {} p.attrs) (spendStart_fresh env cc {} {} p.attrs)
    (by rw [spendStart_fee]; decide) he.conds
    (by rw [spendStart_attrs, spendStart_fee, spendStart_countdown]; exact hacc)
  have hk := totalCost_perm env.flags he.2
  have hn := totalCount_perm he.2
  unfold spendRec
  rw [← he.1]
  constructor
  · rw [postSpend_clrFF env (wrapF (allBits env.mempool 0 p.items) _ _ _).spend,
      postSpend_clrFF env (wrapF (allBits env.mempool 0 p'.items) _ _ _).spend]
    apply SpendEquiv.clrFF
    apply postSpend_congr
    have h : CEquiv
        (wrapF (false, true) (wrapF (allBits env.mempool 0 p.items)
          (spendResult env (spendStart env cc {} {} p.attrs) (itemConds p.items)) (totalCount p.items) (totalCost env.flags p.items)) 0 0)
        (wrapF (false, true) (wrapF (allBits env.mempool 0 p'.items)
          (spendResult env (spendStart env cc {} {} p.attrs) (itemConds p'.items)) (totalCount p'.items) (totalCost env.flags p'.items)) 0 0) := by
      rw [wrapF_wrapF, wrapF_wrapF, hk, hn, allBits_fst, allBits_fst, bitsOf_perm env.mempool he.2]
      simp only [Bool.or_true]
      exact hce.wrapF _ _ _
    exact h.toSpend
  · intro hno
    have h2 : env.mempool = false ∨ NoParentId p'.items := hno.imp id (NoParentId_perm he.2)
    have hb : allBits env.mempool 0 p.items = allBits env.mempool 0 p'.items := by
      apply Prod.ext
      · rw [allBits_fst, allBits_fst, bitsOf_perm env.mempool he.2]
      · rw [allBits_snd _ _ _ hno, allBits_snd _ _ _ h2, bitsOf_perm env.mempool he.2]
    rw [← hb, ← hk, ← hn]
    exact postSpend_congr env (hce.wrapF _ _ _).toSpend

/-- **the reported spend records when the conditions of one spend are permuted**: all other records are
identical; the record of that spend is equal up to listing order and ELIGIBLE_FOR_FF, and equal up to listing
order outright under the empty visitor or when it has no ASSERT_MY_PARENT_ID -/
theorem summary_spends_replace (env : Env) (cc : Nat) (a c : List PSpend) {p p' : PSpend} (he : PEquiv p p')
    (hacc : SpendAccepts env p.attrs 0 1024 (itemConds p.items)) :
    ∃ sa s s' sc, (bundleSummary env cc (a ++ p :: c)).1.spends = sa ++ s :: sc ∧
      (bundleSummary env cc (a ++ p' :: c)).1.spends = sa ++ s' :: sc ∧ sa.length = a.length ∧
      SpendEquiv (clrFF s) (clrFF s') ∧ ((env.mempool = false ∨ NoParentId p.items) → SpendEquiv s s') := by
  have e := bundleFold_bperm env cc (BPerm.replace he a c)
  have hf : (fun q => ppSpend env (bundleFold env cc (a ++ p' :: c)).2 (spendRec env cc q)) =
      (fun q => ppSpend env (bundleFold env cc (a ++ p :: c)).2 (spendRec env cc q)) := by
    funext q
    exact (ppSpend_congr env e.assertConcurrentSpend e.spentCoins _).symm
  obtain ⟨h1, h2⟩ := spendRec_sim env cc he hacc
  refine ⟨a.map (fun q => ppSpend env (bundleFold env cc (a ++ p :: c)).2 (spendRec env cc q)),
    ppSpend env (bundleFold env cc (a ++ p :: c)).2 (spendRec env cc p),
    ppSpend env (bundleFold env cc (a ++ p :: c)).2 (spendRec env cc p'),
    c.map (fun q => ppSpend env (bundleFold env cc (a ++ p :: c)).2 (spendRec env cc q)), ?_, ?_, by simp, ?_, ?_⟩
  · rw [summary_spends]; simp only [List.map_append, List.map_cons]
  · rw [summary_spends, hf]; simp only [List.map_append, List.map_cons]
  · rw [ppSpend_clrFF, ppSpend_clrFF]; exact h1
  · intro hno; exact ppSpend_sim env _ (h2 hno)

/-! ## small concrete inputs for the non-vacuity examples of Props/C06.lean -/

/-- a spend of 10 mojos (parent id 32 × 1, puzzle hash 32 × 2) that creates a coin of 4 with its own puzzle
hash, reserves a fee of 1 and makes the coin announcement `[7]` -/
def exA : Sexp := spnd 1 [10] [cnd 51 [h32 2, [4]], cnd 52 [[1]], cnd 60 [[7]]]
/-- `exA` with its three conditions in the reverse order -/
def exA' : Sexp := spnd 1 [10] [cnd 60 [[7]], cnd 52 [[1]], cnd 51 [h32 2, [4]]]
/-- the spend of the coin of 4 that `exA` creates: it asserts to be ephemeral (ASSERT_EPHEMERAL) and asserts
the coin announcement of `exA` -/
def exB : Sexp :=
  slist [.atom (coinId (h32 1) (h32 2) [10]), .atom (h32 2), .atom [4],
    slist [cnd 76 [], cnd 61 [sha256 (coinId (h32 1) (h32 2) [10] ++ [7])]]]

end ChiaModel.Rules
