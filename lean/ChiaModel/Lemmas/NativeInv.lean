import ChiaModel.Lemmas.BundleInv
import ChiaModel.Lemmas.CostNative
/-
Invariants of the execution paths (`run_block_generator2`, `run_spendbundle`): every spend is pushed
with the tree hash of its revealed puzzle as puzzle hash, and the bundle invariant of `parse_spends`
(totals, distinct coins, coin ids) holds for these paths as well.
-/
namespace ChiaModel.Gn
open ChiaModel ChiaModel.Cond

/-- `process_single_spend` appends exactly one spend, whose puzzle hash is the atom it was given -/
theorem processSingleSpend_push {env : Env} {ret : Bundle} {st : PState} {parent amount conds : Sexp} {h32 : Bytes} {cc m : Nat}
    {ret' : Bundle} {st' : PState} {m' : Nat}
    (h : processSingleSpend env ret st parent (.atom h32) amount conds cc m = .ok ((ret', st'), m')) :
    ∃ sp, ret'.spends = ret.spends ++ [sp] ∧ sp.puzzleHash = h32 := by
  obtain ⟨s0, m1, s, hh, _, _, hl, hf⟩ := processSingleSpend_ok h
  obtain ⟨parentId, puzzleHash, amountBuf, myAmount, _, _, e2, _, _, _, _, hs0⟩ := spendHeader_ok hh
  injection e2 with e2
  have hP := condLoop_inv env (fun x => x.ret.spends = ret.spends ∧ x.spend.puzzleHash = h32)
    (fun s c hp => by simpa [bump] using hp)
    (fun s cva hp => by simpa [visit] using hp)
    (fun s s' cva hp ha => by
      obtain ⟨_, _, f3, _, _, _, _, _, f9, _⟩ := applyCond_frame env s s' cva ha
      exact ⟨by rw [f3]; exact hp.1, by rw [f9]; exact hp.2⟩)
    conds _ m1 s m' hl
    (by
      have hnv : ∀ x : CSt, (newSpendVisit env x).ret = x.ret ∧ (newSpendVisit env x).spend.puzzleHash = x.spend.puzzleHash := by
        intro x; unfold newSpendVisit; split <;> simp
      rw [(hnv _).1, (hnv _).2, hs0]
      simp [bump, e2])
  simp only [finishSpend] at hf
  injection hf with hf1 hf2
  refine ⟨postSpend env s.spend, ?_, ?_⟩
  · rw [hf1]; simp [hP.1]
  · simp [hP.2]

/-- the puzzle reveals of a generator's spend list, in order -/
def puzzlesOf : Sexp → List Sexp
  | .pair spend nxt => (match extract5 spend with | some (_, puzzle, _, _, _) => [puzzle] | none => []) ++ puzzlesOf nxt
  | .atom _ => []

theorem extract5_parent_amount_allBytes {spend parent puzzle amount sol ext : Sexp} (h : extract5 spend = some (parent, puzzle, amount, sol, ext))
    (hb : spend.AllBytes) : parent.AllBytes ∧ amount.AllBytes := by
  unfold extract5 at h
  split at h
  · injection h with h
    simp only [Prod.mk.injEq] at h
    obtain ⟨rfl, rfl, rfl, rfl, rfl⟩ := h
    simp only [Sexp.AllBytes] at hb
    exact ⟨hb.1, hb.2.2.1⟩
  · cases h

/-- generic invariant of the native spend loop -/
theorem nativeLoop_inv (env : Env) (puz : Nat → RunRes) (Q : Bundle → PState → Prop)
    (hexec : ∀ ret st c, Q ret st → Q { ret with executionCost := ret.executionCost + c } st)
    (hspend : ∀ ret st parent h32 amount conds cc m ret' st' m', Q ret st → amount.AllBytes →
      processSingleSpend env ret st parent (.atom h32) amount conds cc m = .ok ((ret', st'), m') → Q ret' st') :
    ∀ (t : Sexp) i ret st n m ret' st' m', t.AllBytes →
      nativeLoop env puz t i ret st n m = .ok ((ret', st'), m') → Q ret st → Q ret' st' := by
  intro t
  induction t with
  | atom b =>
    intro i ret st n m ret' st' m' _ h hq
    cases b with
    | nil => simp only [nativeLoop] at h; injection h with h; injection h with h1; injection h1 with h1 h2; subst h1; subst h2; exact hq
    | cons x xs => simp [nativeLoop] at h
  | pair spend nxt _ ih =>
    intro i ret st n m ret' st' m' hab h hq
    rw [nativeLoop_pair] at h
    simp only [Sexp.AllBytes] at hab
    by_cases hn : n = 0
    · rw [if_pos hn] at h; cases h
    rw [if_neg hn] at h
    cases he : extract5 spend with
    | none => rw [he] at h; cases h
    | some q =>
      obtain ⟨parent, puzzle, amount, sol, ext⟩ := q
      rw [he] at h; simp only [nativeStep] at h
      obtain ⟨⟨p, m1⟩, _, h⟩ := bind_ok h
      obtain ⟨⟨⟨r1, s1⟩, m2⟩, h1, h⟩ := bind_ok h
      simp only at h1 h
      exact ih (i + 1) r1 s1 (n - 1) m2 ret' st' m' hab.2 h
        (hspend _ _ _ _ _ _ _ _ _ _ _ (hexec ret st p.1 hq) (extract5_parent_amount_allBytes he hab.1).2 h1)

/-- the spends pushed by the native loop carry the tree hashes of the revealed puzzles, in order -/
theorem nativeLoop_puzzleHashes (env : Env) (puz : Nat → RunRes) :
    ∀ (t : Sexp) i ret st n m ret' st' m', nativeLoop env puz t i ret st n m = .ok ((ret', st'), m') →
      ret'.spends.map (·.puzzleHash) = ret.spends.map (·.puzzleHash) ++ (puzzlesOf t).map Sexp.treeHash := by
  intro t
  induction t with
  | atom b =>
    intro i ret st n m ret' st' m' h
    cases b with
    | nil => simp only [nativeLoop] at h; injection h with h; injection h with h1; injection h1 with h1 h2; subst h1; simp [puzzlesOf]
    | cons x xs => simp [nativeLoop] at h
  | pair spend nxt _ ih =>
    intro i ret st n m ret' st' m' h
    rw [nativeLoop_pair] at h
    by_cases hn : n = 0
    · rw [if_pos hn] at h; cases h
    rw [if_neg hn] at h
    cases he : extract5 spend with
    | none => rw [he] at h; cases h
    | some q =>
      obtain ⟨parent, puzzle, amount, sol, ext⟩ := q
      rw [he] at h; simp only [nativeStep] at h
      obtain ⟨⟨p, m1⟩, _, h⟩ := bind_ok h
      obtain ⟨⟨⟨r1, s1⟩, m2⟩, h1, h⟩ := bind_ok h
      simp only at h1 h
      obtain ⟨sp, e1, e2⟩ := processSingleSpend_push h1
      rw [ih (i + 1) r1 s1 (n - 1) m2 ret' st' m' h, e1]
      simp [puzzlesOf, he, e2]

/-! ## `run_spendbundle` -/

theorem bundleLoop_inv (env : Env) (puz : Nat → RunRes) (Q : Bundle → PState → Prop)
    (hexec : ∀ ret st c, Q ret st → Q { ret with executionCost := ret.executionCost + c } st)
    (hspend : ∀ ret st parent h32 amount conds cc m ret' st' m', Q ret st → amount.AllBytes →
      processSingleSpend env ret st parent (.atom h32) amount conds cc m = .ok ((ret', st'), m') → Q ret' st') :
    ∀ (l : List CoinSpendM) i ret st m ret' st' m',
      bundleLoop env puz l i ret st m = .ok ((ret', st'), m') → Q ret st → Q ret' st' := by
  intro l
  induction l with
  | nil =>
    intro i ret st m ret' st' m' h hq
    simp only [bundleLoop] at h; injection h with h; injection h with h1; injection h1 with h1 h2; subst h1; subst h2; exact hq
  | cons cs rest ih =>
    intro i ret st m ret' st' m' h hq
    rw [bundleLoop_cons] at h
    simp only [bundleStep] at h
    obtain ⟨⟨p, m1⟩, _, h⟩ := bind_ok h
    simp only at h
    by_cases hp : cs.puzzleHash ≠ Sexp.treeHash cs.puzzle
    · rw [if_pos hp] at h; cases h
    rw [if_neg hp] at h
    obtain ⟨⟨⟨r1, s1⟩, m2⟩, h1, h⟩ := bind_ok h
    simp only at h1 h
    exact ih (i + 1) r1 s1 m2 ret' st' m' h
      (hspend _ _ _ _ _ _ _ _ _ _ _ (hexec ret st p.1 hq) (by simp only [Sexp.AllBytes]; exact be_isBytes _ _) h1)

/-- every spend of an accepted bundle carries the tree hash of its revealed puzzle, which is also
the puzzle hash declared in the coin -/
theorem bundleLoop_puzzleHashes (env : Env) (puz : Nat → RunRes) :
    ∀ (l : List CoinSpendM) i ret st m ret' st' m', bundleLoop env puz l i ret st m = .ok ((ret', st'), m') →
      ret'.spends.map (·.puzzleHash) = ret.spends.map (·.puzzleHash) ++ l.map (fun cs => Sexp.treeHash cs.puzzle)
      ∧ ∀ cs ∈ l, cs.puzzleHash = Sexp.treeHash cs.puzzle := by
  intro l
  induction l with
  | nil =>
    intro i ret st m ret' st' m' h
    simp only [bundleLoop] at h; injection h with h; injection h with h1; injection h1 with h1 h2; subst h1; simp
  | cons cs rest ih =>
    intro i ret st m ret' st' m' h
    rw [bundleLoop_cons] at h
    simp only [bundleStep] at h
    obtain ⟨⟨p, m1⟩, _, h⟩ := bind_ok h
    simp only at h
    by_cases hp : cs.puzzleHash ≠ Sexp.treeHash cs.puzzle
    · rw [if_pos hp] at h; cases h
    rw [if_neg hp] at h
    obtain ⟨⟨⟨r1, s1⟩, m2⟩, h1, h⟩ := bind_ok h
    simp only at h1 h
    obtain ⟨sp, e1, e2⟩ := processSingleSpend_push h1
    obtain ⟨i1, i2⟩ := ih (i + 1) r1 s1 m2 ret' st' m' h
    refine ⟨?_, ?_⟩
    · rw [i1, e1]; simp [e2]
    · intro c hc
      cases hc with
      | head => exact Classical.not_not.mp hp
      | tail _ hc => exact i2 c hc

end ChiaModel.Gn
