import ChiaModel.Model.BlsCache
/-
Algebra of the normalised formal sums of the ideal BLS model (C15): `bytesLt` is a strict total
order, the coefficient function is additive, normal forms are canonical, and
`a + (−1)•b = 0 ↔ a = b`.  Core only.
-/
namespace ChiaModel.Bls

/-! ## `bytesLt` is a strict total order -/

theorem bytesLt_cons (x y : Nat) (xs ys : Bytes) :
    bytesLt (x :: xs) (y :: ys) = true ↔ x < y ∨ (x = y ∧ bytesLt xs ys = true) := by
  simp only [bytesLt]
  by_cases h1 : x < y
  · simp [h1]
  · by_cases h2 : y < x
    · simp [h1, h2]; omega
    · have : x = y := by omega
      simp [this]

theorem bytesLt_irrefl (a : Bytes) : bytesLt a a = false := by
  induction a with
  | nil => rfl
  | cons x xs ih =>
    cases h : bytesLt (x :: xs) (x :: xs) with
    | false => rfl
    | true =>
      rcases (bytesLt_cons x x xs xs).mp h with h1 | ⟨_, h1⟩
      · omega
      · rw [ih] at h1; cases h1

theorem bytesLt_trans {a b c : Bytes} (h1 : bytesLt a b = true) (h2 : bytesLt b c = true) :
    bytesLt a c = true := by
  induction a generalizing b c with
  | nil =>
    cases b with
    | nil => simp [bytesLt] at h1
    | cons y ys =>
      cases c with
      | nil => simp [bytesLt] at h2
      | cons z zs => simp [bytesLt]
  | cons x xs ih =>
    cases b with
    | nil => simp [bytesLt] at h1
    | cons y ys =>
      cases c with
      | nil => simp [bytesLt] at h2
      | cons z zs =>
        rw [bytesLt_cons] at h1 h2 ⊢
        rcases h1 with h1 | ⟨e1, h1⟩
        · rcases h2 with h2 | ⟨e2, _⟩
          · exact Or.inl (by omega)
          · exact Or.inl (by omega)
        · rcases h2 with h2 | ⟨e2, h2⟩
          · exact Or.inl (by omega)
          · exact Or.inr ⟨by omega, ih h1 h2⟩

theorem bytesLt_total {a b : Bytes} (h1 : bytesLt a b = false) (h2 : bytesLt b a = false) : a = b := by
  induction a generalizing b with
  | nil =>
    cases b with
    | nil => rfl
    | cons y ys => simp [bytesLt] at h1
  | cons x xs ih =>
    cases b with
    | nil => simp [bytesLt] at h2
    | cons y ys =>
      have n1 : ¬ (x < y ∨ (x = y ∧ bytesLt xs ys = true)) := by
        rw [← bytesLt_cons]; simp [h1]
      have n2 : ¬ (y < x ∨ (y = x ∧ bytesLt ys xs = true)) := by
        rw [← bytesLt_cons]; simp [h2]
      have e : x = y := by omega
      subst e
      have t1 : bytesLt xs ys = false := by
        cases h : bytesLt xs ys with
        | false => rfl
        | true => exact absurd (Or.inr ⟨rfl, h⟩) n1
      have t2 : bytesLt ys xs = false := by
        cases h : bytesLt ys xs with
        | false => rfl
        | true => exact absurd (Or.inr ⟨rfl, h⟩) n2
      rw [ih t1 t2]

theorem bytesLt_ne {a b : Bytes} (h : bytesLt a b = true) : a ≠ b := by
  intro e; subst e; rw [bytesLt_irrefl] at h; cases h

/-! ## coefficients -/

/-- the coefficient of the generator `[y]` -/
def coeff (y : Bytes) : FSum → Int
  | [] => 0
  | (x, c) :: r => (if x = y then c else 0) + coeff y r

theorem coeff_addTerm (x y : Bytes) (c : Int) (l : FSum) :
    coeff y (addTerm x c l) = coeff y l + (if x = y then c else 0) := by
  induction l with
  | nil =>
    simp only [addTerm]
    by_cases hc : c = 0
    · simp [hc, coeff]
    · simp [hc, coeff]
  | cons t r ih =>
    obtain ⟨z, d⟩ := t
    simp only [addTerm]
    by_cases hxz : x = z
    · subst hxz
      simp only [if_true]
      by_cases hdc : d + c = 0
      · simp only [hdc, if_true, coeff]
        split <;> omega
      · simp only [hdc, if_false, coeff]
        split <;> omega
    · simp only [hxz, if_false]
      by_cases hlt : bytesLt x z = true
      · simp only [hlt, if_true]
        by_cases hc : c = 0
        · simp [hc, coeff]
        · simp only [hc, if_false, coeff]
          omega
      · simp only [hlt, Bool.false_eq_true, if_false, coeff, ih]
        omega

theorem coeff_add (y : Bytes) (a b : FSum) : coeff y (FSum.add a b) = coeff y a + coeff y b := by
  induction a with
  | nil => simp [FSum.add, coeff]
  | cons t r ih =>
    obtain ⟨x, c⟩ := t
    show coeff y (addTerm x c (FSum.add r b)) = _
    rw [coeff_addTerm, ih]
    simp only [coeff]
    omega

theorem coeff_smul (y : Bytes) (k : Int) (a : FSum) : coeff y (FSum.smul k a) = k * coeff y a := by
  unfold FSum.smul
  by_cases hk : k = 0
  · simp [hk, coeff]
  · rw [if_neg hk]
    induction a with
    | nil => simp [coeff]
    | cons t r ih =>
      obtain ⟨x, c⟩ := t
      simp only [List.map_cons, coeff, ih, Int.mul_add]
      split <;> simp

/-! ## normal forms -/

/-- strictly sorted by generator, no zero coefficient -/
def Normal (l : FSum) : Prop :=
  l.Pairwise (fun a b => bytesLt a.1 b.1 = true) ∧ ∀ t ∈ l, t.2 ≠ 0

theorem normal_nil : Normal [] := ⟨List.Pairwise.nil, by intro t ht; cases ht⟩

theorem Normal.tail {t : Bytes × Int} {r : FSum} (h : Normal (t :: r)) : Normal r :=
  ⟨(List.pairwise_cons.mp h.1).2, fun u hu => h.2 u (List.mem_cons_of_mem _ hu)⟩

theorem coeff_zero_of_ne (y : Bytes) (l : FSum) (h : ∀ t ∈ l, t.1 ≠ y) : coeff y l = 0 := by
  induction l with
  | nil => rfl
  | cons t r ih =>
    obtain ⟨x, c⟩ := t
    simp only [coeff]
    rw [if_neg (h (x, c) (List.mem_cons_self ..)), ih (fun u hu => h u (List.mem_cons_of_mem _ hu))]
    rfl

theorem coeff_head {x : Bytes} {c : Int} {r : FSum} (h : Normal ((x, c) :: r)) :
    coeff x ((x, c) :: r) = c := by
  simp only [coeff, if_true]
  rw [coeff_zero_of_ne x r (fun t ht => (bytesLt_ne ((List.pairwise_cons.mp h.1).1 t ht)).symm)]
  omega

/-- below the head of a normal form every coefficient is zero -/
theorem coeff_lt_head {x y : Bytes} {c : Int} {r : FSum} (h : Normal ((x, c) :: r))
    (hy : bytesLt y x = true) : coeff y ((x, c) :: r) = 0 := by
  apply coeff_zero_of_ne
  intro t ht
  rcases List.mem_cons.mp ht with rfl | ht
  · exact (bytesLt_ne hy).symm
  · exact (bytesLt_ne (bytesLt_trans hy ((List.pairwise_cons.mp h.1).1 t ht))).symm

/-- normal forms are canonical: equal coefficients ⇒ equal lists -/
theorem normal_ext {a b : FSum} (ha : Normal a) (hb : Normal b) (h : ∀ y, coeff y a = coeff y b) : a = b := by
  induction a generalizing b with
  | nil =>
    cases b with
    | nil => rfl
    | cons u rb =>
      obtain ⟨y, d⟩ := u
      have := h y
      rw [coeff_head hb] at this
      exact absurd this.symm (hb.2 (y, d) (List.mem_cons_self ..))
  | cons t ra ih =>
    obtain ⟨x, c⟩ := t
    cases b with
    | nil =>
      have := h x
      rw [coeff_head ha] at this
      exact absurd this (ha.2 (x, c) (List.mem_cons_self ..))
    | cons u rb =>
      obtain ⟨y, d⟩ := u
      have hc : c ≠ 0 := ha.2 (x, c) (List.mem_cons_self ..)
      have hd : d ≠ 0 := hb.2 (y, d) (List.mem_cons_self ..)
      cases hxy : bytesLt x y with
      | true =>
        have := h x
        rw [coeff_head ha, coeff_lt_head hb hxy] at this
        exact absurd this hc
      | false =>
        cases hyx : bytesLt y x with
        | true =>
          have := h y
          rw [coeff_head hb, coeff_lt_head ha hyx] at this
          exact absurd this.symm hd
        | false =>
          have e := bytesLt_total hxy hyx
          subst e
          have ecd : c = d := by
            have := h x
            rw [coeff_head ha, coeff_head hb] at this
            exact this
          subst ecd
          have : ra = rb := by
            apply ih ha.tail hb.tail
            intro z
            have := h z
            simp only [coeff] at this
            omega
          rw [this]

theorem addTerm_keys (x : Bytes) (c : Int) (l : FSum) :
    ∀ t ∈ addTerm x c l, t.1 = x ∨ ∃ u ∈ l, u.1 = t.1 := by
  induction l with
  | nil =>
    intro t ht
    simp only [addTerm] at ht
    split at ht
    · cases ht
    · simp only [List.mem_singleton] at ht
      subst ht
      exact Or.inl rfl
  | cons u r ih =>
    obtain ⟨z, d⟩ := u
    intro t ht
    simp only [addTerm] at ht
    split at ht
    · split at ht
      · exact Or.inr ⟨t, List.mem_cons_of_mem _ ht, rfl⟩
      · rcases List.mem_cons.mp ht with rfl | ht
        · exact Or.inr ⟨(z, d), List.mem_cons_self .., rfl⟩
        · exact Or.inr ⟨t, List.mem_cons_of_mem _ ht, rfl⟩
    · split at ht
      · split at ht
        · exact Or.inr ⟨t, ht, rfl⟩
        · rcases List.mem_cons.mp ht with rfl | ht
          · exact Or.inl rfl
          · exact Or.inr ⟨t, ht, rfl⟩
      · rcases List.mem_cons.mp ht with rfl | ht
        · exact Or.inr ⟨(z, d), List.mem_cons_self .., rfl⟩
        · rcases ih t ht with h | ⟨u, hu, he⟩
          · exact Or.inl h
          · exact Or.inr ⟨u, List.mem_cons_of_mem _ hu, he⟩

theorem addTerm_normal (x : Bytes) (c : Int) {l : FSum} (h : Normal l) : Normal (addTerm x c l) := by
  induction l with
  | nil =>
    simp only [addTerm]
    split
    · exact normal_nil
    · rename_i hc
      exact ⟨List.pairwise_singleton _ _, by intro t ht; simp only [List.mem_singleton] at ht; subst ht; exact hc⟩
  | cons u r ih =>
    obtain ⟨z, d⟩ := u
    have hp := List.pairwise_cons.mp h.1
    simp only [addTerm]
    split
    · rename_i hxz
      split
      · exact h.tail
      · rename_i hdc
        refine ⟨List.pairwise_cons.mpr ⟨hp.1, hp.2⟩, ?_⟩
        intro t ht
        rcases List.mem_cons.mp ht with rfl | ht
        · exact hdc
        · exact h.2 t (List.mem_cons_of_mem _ ht)
    · rename_i hxz
      split
      · rename_i hlt
        split
        · exact h
        · rename_i hc
          refine ⟨List.pairwise_cons.mpr ⟨?_, h.1⟩, ?_⟩
          · intro t ht
            rcases List.mem_cons.mp ht with rfl | ht
            · exact hlt
            · exact bytesLt_trans hlt (hp.1 t ht)
          · intro t ht
            rcases List.mem_cons.mp ht with rfl | ht
            · exact hc
            · exact h.2 t ht
      · rename_i hlt
        have hzx : bytesLt z x = true := by
          cases hh : bytesLt z x with
          | true => rfl
          | false =>
            have hlt' : bytesLt x z = false := by
              cases h' : bytesLt x z with
              | false => rfl
              | true => exact absurd h' hlt
            exact absurd (bytesLt_total hlt' hh) hxz
        have ihn := ih h.tail
        refine ⟨List.pairwise_cons.mpr ⟨?_, ihn.1⟩, ?_⟩
        · intro t ht
          rcases addTerm_keys x c r t ht with e | ⟨u, hu, e⟩
          · rw [e]; exact hzx
          · rw [← e]; exact hp.1 u hu
        · intro t ht
          rcases List.mem_cons.mp ht with rfl | ht
          · exact h.2 _ (List.mem_cons_self ..)
          · exact ihn.2 t ht

theorem add_normal (a : FSum) {b : FSum} (h : Normal b) : Normal (FSum.add a b) := by
  induction a with
  | nil => exact h
  | cons t r ih => exact addTerm_normal t.1 t.2 ih

theorem smul_normal {k : Int} (hk : k ≠ 0) {a : FSum} (h : Normal a) : Normal (FSum.smul k a) := by
  unfold FSum.smul
  rw [if_neg hk]
  refine ⟨?_, ?_⟩
  · rw [List.pairwise_map]
    exact h.1
  · intro t ht
    obtain ⟨u, hu, rfl⟩ := List.mem_map.mp ht
    exact Int.mul_ne_zero hk (h.2 u hu)

theorem smul_normal' (k : Int) {a : FSum} (h : Normal a) : Normal (FSum.smul k a) := by
  by_cases hk : k = 0
  · subst hk; exact normal_nil
  · exact smul_normal hk h

/-- **`a − b = 0 ↔ a = b`** on normal forms -/
theorem add_neg_eq_nil_iff {a b : FSum} (ha : Normal a) (hb : Normal b) :
    FSum.add a (FSum.smul (-1) b) = [] ↔ a = b := by
  constructor
  · intro h
    apply normal_ext ha hb
    intro y
    have := congrArg (coeff y) h
    rw [coeff_add, coeff_smul] at this
    simp only [coeff] at this
    omega
  · intro h
    subst h
    apply normal_ext (add_normal a (smul_normal (by decide) ha)) normal_nil
    intro y
    rw [coeff_add, coeff_smul]
    simp only [coeff]
    omega

/-- the group operation is commutative on normal forms ("order does not matter") -/
theorem add_comm_normal {a b : FSum} (ha : Normal a) (hb : Normal b) : FSum.add a b = FSum.add b a := by
  apply normal_ext (add_normal a hb) (add_normal b ha)
  intro y
  rw [coeff_add, coeff_add]
  omega

/-! ## everything the model builds is in normal form -/

theorem hashToG2_normal (x : Bytes) : Normal (hashToG2 x).terms :=
  ⟨List.pairwise_singleton _ _, by intro t ht; simp only [hashToG2, List.mem_singleton] at ht; subst ht; exact (by decide : (1 : Int) ≠ 0)⟩

theorem pairing_normal (p : Pair) : Normal p.pairing := smul_normal' _ (hashToG2_normal _)

theorem sign_normal (p : Pair) : Normal p.sign.terms := pairing_normal p

theorem sigAdd_normal {a b : Sig} (hb : Normal b.terms) : Normal (Sig.add a b).terms := add_normal _ hb

theorem foldl_add_normal (l : List GT) (hl : ∀ g ∈ l, Normal g) {acc : GT} (h : Normal acc) :
    Normal (l.foldl FSum.add acc) := by
  induction l generalizing acc with
  | nil => exact h
  | cons g r ih =>
    exact ih (fun u hu => hl u (List.mem_cons_of_mem _ hu)) (add_normal _ (hl g (List.mem_cons_self ..)))

/-- `aggregate` of signatures in normal form is in normal form (so is every signature the driver
builds: aggregates of honest signatures and `hash_to_g2("junk")`) -/
theorem aggregate_normal (sigs : List Sig) (h : ∀ s ∈ sigs, Normal s.terms) : Normal (aggregate sigs).terms := by
  unfold aggregate
  have : ∀ (acc : Sig), Normal acc.terms → Normal (sigs.foldl Sig.add acc).terms := by
    induction sigs with
    | nil => intro acc ha; exact ha
    | cons s r ih =>
      intro acc _
      exact ih (fun u hu => h u (List.mem_cons_of_mem _ hu)) _ (sigAdd_normal (h s (List.mem_cons_self ..)))
  exact this _ normal_nil

end ChiaModel.Bls
