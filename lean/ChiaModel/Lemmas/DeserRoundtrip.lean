import ChiaModel.Lemmas.DeserAtom
/-
C17: the back-reference deserialiser reads the plain serialisation of a tree back as that tree.
-/
namespace ChiaModel.TreeHash
open ChiaModel

/-- every atom is a byte string that the serialiser can write (shorter than 2^34 bytes) -/
def AtomsOK : Sexp → Prop
  | .atom b => isBytes b ∧ b.length < 0x400000000
  | .pair l r => AtomsOK l ∧ AtomsOK r

theorem extends_refl (h : Heap) : Extends h h := ⟨Nat.le_refl _, fun _ _ => rfl⟩

theorem extends_trans {a b c : Heap} (h1 : Extends a b) (h2 : Extends b c) : Extends a c :=
  ⟨Nat.le_trans h1.1 h2.1, fun i hi => by rw [h2.2 i (by have := h1.1; omega), h1.2 i hi]⟩

theorem extends_push (h : Heap) (nd : Node) : Extends h (h.push nd) :=
  ⟨by simp, fun i hi => by rw [Array.getElem?_push, if_neg (by omega)]⟩

theorem serAtom_length_pos (b : Bytes) (hb : isBytes b) (hl : b.length < 0x400000000) :
    1 ≤ (Sexp.serAtom b).length := by
  obtain ⟨b0, tl, nd, he, _⟩ := parseAtomNode_serAtom b [] hb hl
  have := congrArg List.length he
  simp at this; omega

theorem size_le_serialize (t : Sexp) (ht : AtomsOK t) : t.size ≤ (Sexp.serialize t).length := by
  induction t with
  | atom b => exact serAtom_length_pos b ht.1 ht.2
  | pair l r ihl ihr =>
    have := ihl ht.1; have := ihr ht.2
    simp only [Sexp.serialize, Sexp.size, List.length_cons, List.length_append]; omega

theorem deserLoop_serialize : ∀ (t : Sexp), AtomsOK t → ∀ (fuel : Nat) (ops : List ParseOp) (vals : Array Val)
    (heap : Heap) (rest : Bytes), DInv heap vals →
    ∃ heap' n,
      deserLoop (fuel + stepsOf t) (.sexp :: ops) vals heap (Sexp.serialize t ++ rest)
        = deserLoop fuel ops (vals.push (n, none)) heap' rest ∧
      Extends heap heap' ∧ WF heap' ∧ n < heap'.size ∧ denote heap' n = t := by
  intro t
  induction t with
  | atom b =>
    intro ht fuel ops vals heap rest hd
    obtain ⟨b0, tl, nd, he, hff, hfe, hp, hbytes, hnp⟩ := parseAtomNode_serAtom b rest ht.1 ht.2
    have hwf : WF (heap.push nd) := wf_push hd.wf nd (by intro l r e; exact absurd e (hnp l r))
    refine ⟨heap.push nd, heap.size, ?_, extends_push heap nd, hwf, by simp, ?_⟩
    · simp only [Sexp.serialize, he, stepsOf, deserLoop, if_neg hff, if_neg hfe, hp]
    · have hget : (heap.push nd)[heap.size]? = some nd := by simp
      cases nd with
      | atom b' => rw [denote_atom hget]; simp only [nodeBytes] at hbytes; rw [hbytes]
      | small v => rw [denote_small hget]; simp only [nodeBytes] at hbytes; rw [hbytes]
      | pair l r => exact absurd rfl (hnp l r)
  | pair l r ihl ihr =>
    intro ht fuel ops vals heap rest hd
    obtain ⟨heap1, nl, runl, ext1, wf1, hnl, dl⟩ :=
      ihl ht.1 ((fuel + 1) + stepsOf r) (.sexp :: .cons :: ops) vals heap (Sexp.serialize r ++ rest) hd
    have hd1 : DInv heap1 (vals.push (nl, none)) :=
      dinv_push (dinv_mono hd wf1 ext1.1) (nl, none) hnl (by intro p hp; cases hp)
    obtain ⟨heap2, nr, runr, ext2, wf2, hnr, dr⟩ :=
      ihr ht.2 (fuel + 1) (.cons :: ops) (vals.push (nl, none)) heap1 rest hd1
    have hnl2 : nl < heap2.size := Nat.lt_of_lt_of_le hnl ext2.1
    have wf3 : WF (heap2.push (Node.pair nl nr)) :=
      wf_push wf2 _ (by intro a b e; cases e; exact ⟨hnl2, hnr⟩)
    have ext3 := extends_push heap2 (Node.pair nl nr)
    refine ⟨heap2.push (Node.pair nl nr), heap2.size, ?_, extends_trans ext1 (extends_trans ext2 ext3), wf3,
      by simp, ?_⟩
    · have e : fuel + stepsOf (Sexp.pair l r) = (((fuel + 1) + stepsOf r) + stepsOf l) + 1 := by
        simp only [stepsOf]; omega
      have e2 : Sexp.serialize (Sexp.pair l r) ++ rest
          = 0xff :: (Sexp.serialize l ++ (Sexp.serialize r ++ rest)) := by
        simp [Sexp.serialize]
      rw [e, e2, deserLoop, if_pos rfl, runl, runr, deserLoop]
      simp only [Array.back?_push, Array.pop_push]
    · have hget : (heap2.push (Node.pair nl nr))[heap2.size]? = some (Node.pair nl nr) := by simp
      rw [denote_pair wf3 hget, denote_extends ext3 wf3 hnr, dr,
        denote_extends (extends_trans ext2 ext3) wf3 hnl, dl]

theorem deserializeBackrefs_serialize (t : Sexp) (ht : AtomsOK t) :
    ∃ heap root, deserializeBackrefs (Sexp.serialize t) = some (heap, root) ∧ denote heap root = t := by
  have hd0 : DInv (#[] : Heap) (#[] : Array Val) :=
    ⟨by intro n l r hn; simp at hn, by intro i v hv; simp at hv⟩
  have hs := stepsOf_le t
  have hl := size_le_serialize t ht
  obtain ⟨f', hf'⟩ : ∃ f', 2 * (Sexp.serialize t).length + 2 = (f' + 1) + stepsOf t :=
    ⟨2 * (Sexp.serialize t).length + 2 - stepsOf t - 1, by omega⟩
  obtain ⟨heap', n, run, _, _, _, dn⟩ := deserLoop_serialize t ht (f' + 1) [] #[] #[] [] hd0
  refine ⟨heap', n, ?_, dn⟩
  unfold deserializeBackrefs
  rw [hf']
  rw [List.append_nil] at run
  rw [run, deserLoop]
  simp

end ChiaModel.TreeHash
