import ChiaModel.Lemmas.BundlePerm
/-
The loop-level form of `runSpendbundle_rules` / `runSpendbundle_reverse` (Lemmas/BundlePerm.lean): the spend
loop of `run_spendbundle` followed by the visitor's post-processing and the deferred validation, with the
budget of the loop as a parameter.  No size cost occurs, so the statements hold for every flag set
(`INTERNED_GENERATOR` included); C09 uses them to go from the generator listing the recovered coin spends in
order to the generator `build_generator` makes of them (reverse order).
-/
set_option linter.unusedSimpArgs false
namespace ChiaModel.Gn
open ChiaModel ChiaModel.Cond ChiaModel.Rules

/-- **The bundle loop with its finish refines the rules**: the loop accepts under the budget `m` and the
deferred validation passes iff every puzzle run succeeds and every spend parses (`ParsedAt`), the total cost
fits, the coin ids are pairwise distinct, every spend satisfies the per-spend rules, the total fee is a u64
and the deferred rules hold of the fold; the result is the fold, the remainder is the budget minus the cost. -/
theorem bundleLoopFin_rules (p : Params) (css : List CoinSpendM) (puz : Nat → RunRes) (m : Nat) (ret : Bundle) (st : PState)
    (left : Nat) :
    (bundleLoop (mpEnv p) puz css 0 {} {} m = .ok ((ret, st), left) ∧
        validateConditions (postProcess (mpEnv p) ret st) st = .ok ()) ↔
      ∃ xs, ParsedAt p.flags puz css 0 xs ∧ costX p.flags xs ≤ m ∧ left = m - costX p.flags xs ∧
        (xs.map (·.2.attrs.coinId)).Nodup ∧
        (∀ x ∈ xs, SpendAccepts (mpEnv p) x.2.attrs 0 1024 (itemConds x.2.items)) ∧
        bundleFee (xs.map (·.2)) < 2 ^ 64 ∧
        Deferred (postProcess (mpEnv p) (foldX (mpEnv p) xs).1 (foldX (mpEnv p) xs).2) (foldX (mpEnv p) xs).2 ∧
        (ret, st) = foldX (mpEnv p) xs := by
  have h0 : ((({} : Bundle), ({} : PState)).2.spentCoins).Nodup := List.nodup_nil
  have hz : (({} : Bundle), ({} : PState)).1.reserveFee < 2 ^ 64 := by decide
  constructor
  · rintro ⟨h2, hv⟩
    obtain ⟨xs, hpa, hK, hleft, hacc, hr⟩ := (bundleLoop_rules (mpEnv p) puz css 0 {} {} _ ret st left (by decide)).mp h2
    simp only [show (mpEnv p).flags = p.flags from rfl] at hpa hK hleft
    obtain ⟨a1, a2, a3⟩ := (acceptFromX_iff (mpEnv p) xs ({}, {}) h0 hz).mp hacc
    have hfold : foldX (mpEnv p) xs = (ret, st) := hr.symm
    refine ⟨xs, hpa, hK, hleft, by simpa using a1, a2, by simpa using a3, ?_, hr⟩
    rw [hfold]; exact (C01.validateConditions_iff _ _).mp hv
  · rintro ⟨xs, hpa, hK, hleft, hnd, hsa, hfee, hdef, hr⟩
    have hl : bundleLoop (mpEnv p) puz css 0 {} {} m =
        .ok (((foldX (mpEnv p) xs).1, (foldX (mpEnv p) xs).2), m - costX p.flags xs) := by
      refine (bundleLoop_rules (mpEnv p) puz css 0 {} {} _ _ _ _ (by decide)).mpr
        ⟨xs, hpa, hK, rfl, ?_, rfl⟩
      exact (acceptFromX_iff (mpEnv p) xs ({}, {}) h0 hz).mpr ⟨by simpa using hnd, hsa, by simpa using hfee⟩
    have hv : validateConditions (postProcess (mpEnv p) (foldX (mpEnv p) xs).1 (foldX (mpEnv p) xs).2) (foldX (mpEnv p) xs).2 = .ok () :=
      (C01.validateConditions_iff _ _).mpr hdef
    have e1 : ret = (foldX (mpEnv p) xs).1 := congrArg Prod.fst hr
    have e2 : st = (foldX (mpEnv p) xs).2 := congrArg Prod.snd hr
    subst e1; subst e2; subst hleft
    exact ⟨hl, hv⟩

/-- **Reversing the coin spends under the bundle loop** (puzzle runs re-indexed accordingly; any flags): if
the loop accepts and the deferred validation passes, the same holds for the reversed list, with the same
remaining budget; the post-processed spend records come out in reverse order (every field), every
bundle-level aggregate is equal, the AGG_SIG_UNSAFE pairs and the (public key, signed text) pairs agree up to
listing order. -/
theorem bundleLoop_reverse (p : Params) (css : List CoinSpendM) (puz puz' : Nat → RunRes) (m : Nat) (ret : Bundle) (st : PState)
    (left : Nat) (hpuz : ∀ k, k < css.length → puz' k = puz (css.length - 1 - k))
    (hl : bundleLoop (mpEnv p) puz css 0 {} {} m = .ok ((ret, st), left))
    (hv : validateConditions (postProcess (mpEnv p) ret st) st = .ok ()) :
    ∃ ret' st', bundleLoop (mpEnv p) puz' css.reverse 0 {} {} m = .ok ((ret', st'), left) ∧
      validateConditions (postProcess (mpEnv p) ret' st') st' = .ok () ∧ List.Perm st.pkmPairs st'.pkmPairs ∧
      (postProcess (mpEnv p) ret' st').spends = (postProcess (mpEnv p) ret st).spends.reverse ∧
      ret'.reserveFee = ret.reserveFee ∧ ret'.heightAbsolute = ret.heightAbsolute ∧ ret'.secondsAbsolute = ret.secondsAbsolute ∧
      ret'.beforeHeightAbsolute = ret.beforeHeightAbsolute ∧ ret'.beforeSecondsAbsolute = ret.beforeSecondsAbsolute ∧
      ret'.removalAmount = ret.removalAmount ∧ ret'.additionAmount = ret.additionAmount ∧
      ret'.conditionCost = ret.conditionCost ∧ ret'.executionCost = ret.executionCost ∧
      List.Perm ret'.aggSigUnsafe ret.aggSigUnsafe := by
  obtain ⟨xs, hpa, hK, hleft, hnd, hsa, hfee, hdef, hr⟩ := (bundleLoopFin_rules p css puz m ret st left).mp ⟨hl, hv⟩
  have er : ret = (foldX (mpEnv p) xs).1 := congrArg Prod.fst hr
  have es : st = (foldX (mpEnv p) xs).2 := congrArg Prod.snd hr
  subst er; subst es
  have hperm : List.Perm xs xs.reverse := (List.reverse_perm xs).symm
  have e : AccEquiv (foldX (mpEnv p) xs) (foldX (mpEnv p) xs.reverse) := foldX_perm (mpEnv p) hperm _
  have hcc : ∀ x ∈ xs, costOf xs x.2 = x.1 := fun x hx => costOf_mem hnd hx
  have hcc' : ∀ x ∈ xs.reverse, costOf xs x.2 = x.1 := fun x hx => costOf_mem hnd (List.mem_reverse.mp hx)
  have inv : FoldInv (fun q => spendRec (mpEnv p) (costOf xs q) q) (foldX (mpEnv p) xs) (xs.map (·.2)) := by
    have := foldInvX (mpEnv p) (costOf xs) xs _ [] hcc (foldInv_init _)
    simpa [foldX] using this
  have inv' : FoldInv (fun q => spendRec (mpEnv p) (costOf xs q) q) (foldX (mpEnv p) xs.reverse) (xs.reverse.map (·.2)) := by
    have := foldInvX (mpEnv p) (costOf xs) xs.reverse _ [] hcc' (foldInv_init _)
    simpa [foldX] using this
  have hbp : BPerm (xs.map (·.2)) (xs.reverse.map (·.2)) := BPerm.of_perm (hperm.map _)
  have hndps : ((xs.map (·.2)).map (·.attrs.coinId)).Nodup := by rw [List.map_map]; exact hnd
  have hdef' := deferred_of_inv (mpEnv p) (recOk_spendRec (mpEnv p) (costOf xs)) (recOk_spendRec (mpEnv p) (costOf xs))
    hbp inv inv' e hndps hdef
  have hcost : costX p.flags xs.reverse = costX p.flags xs := ((hperm.map _).sum_nat).symm
  have hfee' : bundleFee (xs.reverse.map (·.2)) = bundleFee (xs.map (·.2)) := (bundleFee_bperm hbp).symm
  obtain ⟨h1, h2⟩ := (bundleLoopFin_rules p css.reverse puz' m (foldX (mpEnv p) xs.reverse).1 (foldX (mpEnv p) xs.reverse).2 left).mpr
    ⟨xs.reverse, parsedAt_reverse p.flags puz puz' css xs hpuz hpa, by rw [hcost]; exact hK, by rw [hcost]; exact hleft,
      by rw [List.map_reverse]; exact (List.reverse_perm _).nodup_iff.mpr hnd, fun x hx => hsa x (List.mem_reverse.mp hx),
      by rw [hfee']; exact hfee, hdef', rfl⟩
  refine ⟨_, _, h1, h2, e.pkmPairs, ?_, e.reserveFee.symm, e.heightAbsolute.symm, e.secondsAbsolute.symm,
    e.beforeHeightAbsolute.symm, e.beforeSecondsAbsolute.symm, e.removalAmount.symm, e.additionAmount.symm,
    e.conditionCost.symm, e.executionCost.symm, e.aggSigUnsafe.symm⟩
  rw [postProcess_spends (mpEnv p) inv', postProcess_spends (mpEnv p) inv, List.map_reverse, List.map_reverse]
  congr 1
  apply List.map_congr_left
  intro q _
  exact (ppSpend_congr (mpEnv p) e.assertConcurrentSpend e.spentCoins _).symm

end ChiaModel.Gn
