import ChiaModel.Lemmas.StreamableGenTail
/-!
`ProofOfSpace::parse` / `stream`: specification lemma, round trip, canonicity, totality, trusted agreement.
-/
namespace ChiaModel.Streamable
open ChiaModel

theorem codec_g1 (O : Oracles) (tr : Bool) : Codec (decG1 O tr) (encBytesN 48) (wfG1 O tr) := by
  unfold decG1 wfG1; exact codec_opaque _ _ _

theorem codec_g2 (O : Oracles) (tr : Bool) : Codec (decG2 O tr) (encBytesN 96) (wfG2 O tr) := by
  unfold decG2 wfG2; exact codec_opaque _ _ _

theorem total_g1 (O : Oracles) (tr : Bool) : Total (decG1 O tr) := total_opaque _ _ _
theorem total_g2 (O : Oracles) (tr : Bool) : Total (decG2 O tr) := total_opaque _ _ _

theorem agree_g1 (O : Oracles) : Agree (decG1 O false) (decG1 O true) :=
  agree_opaque _ _ _ _ fun _ h => pointOk_trusted h
theorem agree_g2 (O : Oracles) : Agree (decG2 O false) (decG2 O true) :=
  agree_opaque _ _ _ _ fun _ h => pointOk_trusted h

/-- the version-specific remainder of `ProofOfSpace::parse`, after the plot public key -/
def PosTail (k : Nat) (ch pp ct pk : V) (r5 r : Bytes) (v : V) : Prop :=
  (k / 2 = 0 ∧ ∃ sz r6 pf, (decUint 1 r5).out = .ok (sz, r6) ∧ (decBytes r6).out = .ok (pf, r) ∧
      v = .tup [ch, pp, ct, pk, .n 0, .n 0, .n 0, .n 0, sz, pf]) ∨
  (k / 2 = 1 ∧ ∃ pi r6 mg r7 st r8 pf, (decUint 2 r5).out = .ok (pi, r6) ∧ (decUint 1 r6).out = .ok (mg, r7) ∧
      (decUint 1 r7).out = .ok (st, r8) ∧ (decBytes r8).out = .ok (pf, r) ∧
      (isSomeV pp == isSomeV ct) = false ∧
      v = .tup [ch, pp, ct, pk, .n 1, pi, mg, st, .n 0, pf])

theorem decPos_ok {O : Oracles} {tr : Bool} {b r : Bytes} {v : V} :
    (decPos O tr b).out = .ok (v, r) ↔ ∃ ch r1 pp k r3 ct r4 pk r5,
      (decBytesN 32 b).out = .ok (ch, r1) ∧ (decOption (decG1 O tr) r1).out = .ok (pp, k :: r3) ∧
      (decPresent (k % 2 != 0) (decBytesN 32) r3).out = .ok (ct, r4) ∧ (decG1 O tr r4).out = .ok (pk, r5) ∧
      PosTail k ch pp ct pk r5 r v := by
  unfold decPos
  constructor
  · intro h
    obtain ⟨⟨ch, r1⟩, hch, h⟩ := Res.bind_ok.mp h
    obtain ⟨⟨pp, r2⟩, hpp, h⟩ := Res.bind_ok.mp h
    obtain ⟨⟨k, r3⟩, hk, h⟩ := Res.bind_ok.mp h
    have hr2 := readUint1_ok.mp hk
    simp only at hr2; subst hr2
    obtain ⟨⟨ct, r4⟩, hct, h⟩ := Res.bind_ok.mp h
    obtain ⟨⟨pk, r5⟩, hpk, h⟩ := Res.bind_ok.mp h
    refine ⟨ch, r1, pp, k, r3, ct, r4, pk, r5, hch, hpp, hct, hpk, ?_⟩
    simp only at h
    by_cases h0 : k / 2 = 0
    · rw [if_pos h0] at h
      obtain ⟨⟨sz, r6⟩, hsz, h⟩ := Res.bind_ok.mp h
      obtain ⟨⟨pf, r7⟩, hpf, h⟩ := Res.bind_ok.mp h
      simp only [Res.pure_out] at h
      injection h with h; injection h with e1 e2; subst e1; subst e2
      exact Or.inl ⟨h0, sz, r6, pf, hsz, hpf, rfl⟩
    · by_cases h1 : k / 2 = 1
      · rw [if_neg h0, if_pos h1] at h
        obtain ⟨⟨pi, r6⟩, hpi, h⟩ := Res.bind_ok.mp h
        obtain ⟨⟨mg, r7⟩, hmg, h⟩ := Res.bind_ok.mp h
        obtain ⟨⟨st, r8⟩, hst, h⟩ := Res.bind_ok.mp h
        obtain ⟨⟨pf, r9⟩, hpf, h⟩ := Res.bind_ok.mp h
        simp only at h
        by_cases hs : (isSomeV pp == isSomeV ct) = true
        · rw [if_pos hs] at h; simp at h
        · rw [if_neg hs] at h
          simp only [Res.pure_out] at h
          injection h with h; injection h with e1 e2; subst e1; subst e2
          exact Or.inr ⟨h1, pi, r6, mg, r7, st, r8, pf, hpi, hmg, hst, hpf, by simpa using hs, rfl⟩
      · rw [if_neg h0, if_neg h1] at h; simp at h
  · rintro ⟨ch, r1, pp, k, r3, ct, r4, pk, r5, hch, hpp, hct, hpk, ht⟩
    refine Res.bind_ok.mpr ⟨(ch, r1), hch, Res.bind_ok.mpr ⟨(pp, k :: r3), hpp, ?_⟩⟩
    refine Res.bind_ok.mpr ⟨(k, r3), readUint1_ok.mpr rfl, Res.bind_ok.mpr ⟨(ct, r4), hct, ?_⟩⟩
    refine Res.bind_ok.mpr ⟨(pk, r5), hpk, ?_⟩
    simp only
    rcases ht with ⟨h0, sz, r6, pf, hsz, hpf, rfl⟩ | ⟨h1, pi, r6, mg, r7, st, r8, pf, hpi, hmg, hst, hpf, hs, rfl⟩
    · rw [if_pos h0]
      exact Res.bind_ok.mpr ⟨(sz, r6), hsz, Res.bind_ok.mpr ⟨(pf, r), hpf, rfl⟩⟩
    · have h0 : ¬ k / 2 = 0 := by omega
      rw [if_neg h0, if_pos h1]
      refine Res.bind_ok.mpr ⟨(pi, r6), hpi, Res.bind_ok.mpr ⟨(mg, r7), hmg, ?_⟩⟩
      refine Res.bind_ok.mpr ⟨(st, r8), hst, Res.bind_ok.mpr ⟨(pf, r), hpf, ?_⟩⟩
      simp only
      rw [if_neg (by simp [hs])]
      rfl

theorem decPos_np (O : Oracles) (tr : Bool) (b : Bytes) (s : String) : (decPos O tr b).out ≠ .panic s := by
  unfold decPos
  intro h
  rcases Res.bind_panic.mp h with h | ⟨_, _, h⟩
  · exact (total_bytesN 32).np _ _ h
  rcases Res.bind_panic.mp h with h | ⟨_, _, h⟩
  · exact (total_option (total_g1 O tr)).np _ _ h
  rcases Res.bind_panic.mp h with h | ⟨_, _, h⟩
  · exact readUint_no_panic _ _ _ h
  rcases Res.bind_panic.mp h with h | ⟨_, _, h⟩
  · exact decPresent_np (total_bytesN 32).np _ _ h
  rcases Res.bind_panic.mp h with h | ⟨_, _, h⟩
  · exact (total_g1 O tr).np _ _ h
  split at h
  · rcases Res.bind_panic.mp h with h | ⟨_, _, h⟩
    · exact decUint_np _ _ _ h
    rcases Res.bind_panic.mp h with h | ⟨_, _, h⟩
    · exact total_bytes.np _ _ h
    simp at h
  · split at h
    · rcases Res.bind_panic.mp h with h | ⟨_, _, h⟩
      · exact decUint_np _ _ _ h
      rcases Res.bind_panic.mp h with h | ⟨_, _, h⟩
      · exact decUint_np _ _ _ h
      rcases Res.bind_panic.mp h with h | ⟨_, _, h⟩
      · exact decUint_np _ _ _ h
      rcases Res.bind_panic.mp h with h | ⟨_, _, h⟩
      · exact total_bytes.np _ _ h
      split at h <;> simp at h
    · simp at h

theorem total_pos (O : Oracles) (tr : Bool) : Total (decPos O tr) where
  np := decPos_np O tr
  pre := by
    intro b v r hd
    obtain ⟨ch, r1, pp, k, r3, ct, r4, pk, r5, hch, hpp, hct, hpk, ht⟩ := decPos_ok.mp hd
    obtain ⟨p1, rfl⟩ := (total_bytesN 32).pre _ _ _ hch
    obtain ⟨p2, rfl⟩ := (total_option (total_g1 O tr)).pre _ _ _ hpp
    have h3 : ∃ p3, r3 = p3 ++ r4 := by
      rcases decPresent_ok.mp hct with ⟨_, _, rfl⟩ | ⟨_, x, hx, _⟩
      · exact ⟨[], rfl⟩
      · exact (total_bytesN 32).pre _ _ _ hx
    obtain ⟨p3, rfl⟩ := h3
    obtain ⟨p4, rfl⟩ := (total_g1 O tr).pre _ _ _ hpk
    rcases ht with ⟨_, sz, r6, pf, hsz, hpf, _⟩ | ⟨_, pi, r6, mg, r7, st, r8, pf, hpi, hmg, hst, hpf, _, _⟩
    · obtain ⟨p5, rfl⟩ := (total_uint 1).pre _ _ _ hsz
      obtain ⟨p6, rfl⟩ := total_bytes.pre _ _ _ hpf
      exact ⟨p1 ++ p2 ++ k :: p3 ++ p4 ++ p5 ++ p6, by simp⟩
    · obtain ⟨p5, rfl⟩ := (total_uint 2).pre _ _ _ hpi
      obtain ⟨p6, rfl⟩ := (total_uint 1).pre _ _ _ hmg
      obtain ⟨p7, rfl⟩ := (total_uint 1).pre _ _ _ hst
      obtain ⟨p8, rfl⟩ := total_bytes.pre _ _ _ hpf
      exact ⟨p1 ++ p2 ++ k :: p3 ++ p4 ++ p5 ++ p6 ++ p7 ++ p8, by simp⟩

theorem agree_pos (O : Oracles) : Agree (decPos O false) (decPos O true) := by
  intro b x hx
  obtain ⟨v, r⟩ := x
  obtain ⟨ch, r1, pp, k, r3, ct, r4, pk, r5, hch, hpp, hct, hpk, ht⟩ := decPos_ok.mp hx
  exact decPos_ok.mpr ⟨ch, r1, pp, k, r3, ct, r4, pk, r5, hch, agree_option (agree_g1 O) _ (pp, k :: r3) hpp, hct,
    agree_g1 O _ (pk, r5) hpk, ht⟩

end ChiaModel.Streamable
