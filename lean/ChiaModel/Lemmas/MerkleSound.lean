import ChiaModel.Lemmas.MerkleProof
/-
Helper lemmas for C12 soundness: hash pre-image comparison (explicit collisions), the induction
that matches a parsed value tree against the reference trie, and what every successful run of the
proof parser guarantees.
-/
set_option linter.unusedSimpArgs false
namespace ChiaModel.Merkle
open ChiaModel Spec

/-- two different byte strings with the same digest -/
def Collision (H : Bytes → Bytes) : Prop := ∃ u v, u ≠ v ∧ H u = H v

/-- every hashed node of the tree carries the hash of its children's types and hashes, and every
leaf / truncated hash is 32 bytes long (what the parser guarantees for the values it builds) -/
def ValT (H : Bytes → Bytes) : Tree → Prop
  | .empty => True
  | .leaf x => x.length = 32
  | .trunc h => h.length = 32
  | .mid l r h => ValT H l ∧ ValT H r ∧ h = hashNode H l.ntype r.ntype l.hash r.hash

theorem ValT.hash_length {H : Bytes → Bytes} (hH : ∀ u, (H u).length = 32) {t : Tree} (h : ValT H t) :
    t.hash.length = 32 := by
  cases t with
  | empty => exact length_BLANK
  | leaf x => exact h
  | trunc x => exact h
  | mid l r hh => obtain ⟨_, _, rfl⟩ := h; exact hH _

theorem hashNode_eq_cases (H : Bytes → Bytes) {a b a' b' : NodeType} {l r l' r' : Bytes}
    (h : hashNode H a b l r = hashNode H a' b' l' r') (hl : l.length = l'.length) :
    (encodeType a = encodeType a' ∧ encodeType b = encodeType b' ∧ l = l' ∧ r = r') ∨ Collision H := by
  unfold hashNode at h
  by_cases he : zeros 30 ++ [encodeType a, encodeType b] ++ l ++ r = zeros 30 ++ [encodeType a', encodeType b'] ++ l' ++ r'
  · left
    simp only [List.append_assoc] at he
    have h1 := List.append_cancel_left he
    simp only [List.cons_append, List.nil_append, List.cons.injEq] at h1
    obtain ⟨e1, e2, e3⟩ := h1
    obtain ⟨e4, e5⟩ := List.append_inj e3 hl
    exact ⟨e1, e2, e4, e5⟩
  · right; exact ⟨_, _, he, h⟩

theorem hashLeaf_ne_hashNode (H : Bytes → Bytes) {y : Bytes} {a b : NodeType} {l r : Bytes}
    (h : hashLeaf H y = hashNode H a b l r) : Collision H := by
  refine ⟨_, _, ?_, h⟩
  simp [zeros, List.replicate]

theorem enc_eq_zero {t : NodeType} : encodeType t = 0 ↔ t = .empty := by cases t <;> simp [encodeType]
theorem enc_eq_one {t : NodeType} : encodeType t = 1 ↔ t = .term := by cases t <;> simp [encodeType]
theorem enc_eq_two {t : NodeType} : encodeType t = 2 ↔ (t = .mid ∨ t = .midDbl) := by cases t <;> simp [encodeType]

theorem leaf?_eq_some {t : Tree} {y : Bytes} (h : t.leaf? = some y) : t = .leaf y := by
  cases t <;> simp [Tree.leaf?] at h; subst h; rfl

/-- the statement proved by induction on the trie depth -/
def SndAt (H : Bytes → Bytes) (x : Bytes) (n : Nat) : Prop :=
  ∀ (S : List Bytes), (∀ y ∈ S, IsLeaf y) → Agree (256 - n) S → n ≤ 256 →
    ∀ (vt : Tree), ValT H vt → vt.ntype = .mid →
      ((trie H n S).2 = .mid ∨ (trie H n S).2 = .midDbl) → vt.hash = (trie H n S).1 →
      ∀ (d : Nat), ((trie H n S).2 = .mid → d = 256 - n) →
        ∀ (b : Bool) (q : Bytes), vt.genProof x d = some (b, q) → b = decide (x ∈ S) ∨ Collision H

/-- a child of a matched hashed node: same encoded type and hash as the reference value below -/
theorem child_ok (H : Bytes → Bytes) (x : Bytes) (n : Nat) (ih : SndAt H x n) (S : List Bytes)
    (hS : ∀ y ∈ S, IsLeaf y) (hag : Agree (256 - n) S) (hn : n ≤ 256) (t : Tree) (ht : ValT H t)
    (henc : encodeType t.ntype = encodeType (trie H n S).2) (hhash : t.hash = (trie H n S).1)
    (b : Bool) (q : Bytes) (hg : t.genProof x (256 - n) = some (b, q)) :
    b = decide (x ∈ S) ∨ Collision H := by
  cases t with
  | empty =>
    have he : (trie H n S).2 = .empty := enc_eq_zero.mp henc.symm
    have := (trie_type_empty_iff H n S).mp he
    subst this
    simp [Tree.genProof] at hg
    left; simp [hg.1.symm]
  | leaf y =>
    have he : (trie H n S).2 = .term := enc_eq_one.mp henc.symm
    have hv : trie H n S = (y, .term) := by
      have h1 : y = (trie H n S).1 := hhash
      rw [← he, h1]
    obtain ⟨hm, hall⟩ := trie_term H n S y hS hag hv
    simp [Tree.genProof] at hg
    left; rw [← hg.1]
    apply decide_eq_decide.mpr
    constructor
    · intro h; rw [← h]; exact hm
    · intro h; exact (hall x h).symm
  | trunc h => simp [Tree.genProof] at hg
  | mid l r h =>
    have he := enc_eq_two.mp henc.symm
    exact ih S hS hag hn _ ht rfl he hhash (256 - n) (fun _ => rfl) b q hg


theorem ntype_term_leaf? {t : Tree} (h : t.ntype = .term) : t.leaf?.isSome = true := by
  cases t <;> simp [Tree.ntype] at h <;> rfl

/-- soundness engine: a value tree whose hash is the reference value of `S` walks to the
membership of `x` in `S`, or exhibits a collision -/
theorem snd_all (H : Bytes → Bytes) (hH : ∀ u, (H u).length = 32) (x : Bytes) : ∀ n, SndAt H x n := by
  intro n
  induction n with
  | zero =>
    intro S _ _ _ vt _ _ hty
    rcases trie_zero_type H S with h | h <;> rcases hty with h' | h' <;> rw [h] at h' <;> simp at h'
  | succ n ih =>
    intro S hS hag hn vt hvt hnt hty hhash d hd b q hg
    have hSlo : ∀ y ∈ Lo(255 - n, S), IsLeaf y := fun y hy => hS y (List.mem_filter.mp hy).1
    have hShi : ∀ y ∈ Hi(255 - n, S), IsLeaf y := fun y hy => hS y (List.mem_filter.mp hy).1
    rw [trie_succ] at hty hhash hd
    rcases combine_cases H (trie H n (Lo(255 - n, S))) (trie H n (Hi(255 - n, S))) with
      ⟨h1, h1', hc⟩ | ⟨_, h2, h2', hc⟩ | ⟨h1, h2, hc⟩
    · have hlo := (trie_type_empty_iff H n _).mp h1
      have hhi := lo_nil_hi hlo
      rw [hc, hhi] at hty hhash hd
      rw [hhi] at h1'
      exact ih S hS (agree_of_hi_eq hag hhi) (by omega) vt hvt hnt hty hhash d (fun h => absurd h h1') b q hg
    · have hhi := (trie_type_empty_iff H n _).mp h2
      have hlo := hi_nil_lo hhi
      rw [hc, hlo] at hty hhash hd
      rw [hlo] at h2'
      exact ih S hS (agree_of_lo_eq hag hlo) (by omega) vt hvt hnt hty hhash d (fun h => absurd h h2') b q hg
    · rw [hc] at hty hhash hd
      simp only [] at hty hhash hd
      cases vt with
      | empty => simp [Tree.ntype] at hnt
      | leaf y => simp [Tree.ntype] at hnt
      | trunc h => simp [Tree.genProof] at hg
      | mid tl tr hh =>
        obtain ⟨vl, vr, rfl⟩ := hvt
        have hlenl : tl.hash.length = (trie H n (Lo(255 - n, S))).1.length := by
          rw [vl.hash_length hH, trie_hash_length H hH n _ hSlo]
        rcases hashNode_eq_cases H hhash hlenl with ⟨e1, e2, e3, e4⟩ | hcol
        · by_cases hboth : tl.leaf?.isSome = true ∧ tr.leaf?.isSome = true
          · obtain ⟨a', hl⟩ := Option.isSome_iff_exists.mp hboth.1
            obtain ⟨b', hr⟩ := Option.isSome_iff_exists.mp hboth.2
            have := leaf?_eq_some hl; subst this
            have := leaf?_eq_some hr; subst this
            simp [Tree.genProof, Tree.leaf?] at hg
            have ha : (trie H n (Lo(255 - n, S))).2 = .term := enc_eq_one.mp e1.symm
            have hb : (trie H n (Hi(255 - n, S))).2 = .term := enc_eq_one.mp e2.symm
            have hva : trie H n (Lo(255 - n, S)) = (a', .term) := by
              have h1 : a' = (trie H n (Lo(255 - n, S))).1 := e3
              rw [← ha, h1]
            have hvb : trie H n (Hi(255 - n, S)) = (b', .term) := by
              have h1 : b' = (trie H n (Hi(255 - n, S))).1 := e4
              rw [← hb, h1]
            obtain ⟨ma, alla⟩ := trie_term H n _ a' hSlo hag.lo hva
            obtain ⟨mb, allb⟩ := trie_term H n _ b' hShi hag.hi hvb
            left; rw [← hg.1, Bool.eq_iff_iff]
            simp only [Bool.or_eq_true, decide_eq_true_eq]
            constructor
            · rintro (h | h)
              · rw [← h]; exact (List.mem_filter.mp ma).1
              · rw [← h]; exact (List.mem_filter.mp mb).1
            · intro hx
              rcases mem_lo_or_hi (d := 255 - n) hx with h | h
              · exact Or.inl (alla x h).symm
              · exact Or.inr (allb x h).symm
          · have hnt' : ¬((trie H n (Lo(255 - n, S))).2 = .term ∧ (trie H n (Hi(255 - n, S))).2 = .term) := by
              rintro ⟨ha, hb⟩
              apply hboth
              exact ⟨ntype_term_leaf? (enc_eq_one.mp (by rw [e1, ha]; rfl)),
                ntype_term_leaf? (enc_eq_one.mp (by rw [e2, hb]; rfl))⟩
            have hdd : d = 255 - n := by have := hd (by rw [if_neg hnt']); omega
            have hn1 : 1 ≤ n := by
              rcases Nat.eq_zero_or_pos n with h0 | h0
              · subst h0
                exfalso
                rcases trie_zero_type H (Lo(255 - 0, S)) with ha | ha <;>
                  rcases trie_zero_type H (Hi(255 - 0, S)) with hb | hb
                · exact h1 ⟨ha, by rw [hb]; simp⟩
                · exact h1 ⟨ha, by rw [hb]; simp⟩
                · exact h2 ⟨hb, by rw [ha]; simp⟩
                · exact hnt' ⟨ha, hb⟩
              · exact h0
            have hmod : (d + 1) % 256 = d + 1 := Nat.mod_eq_of_lt (by omega)
            have hdn : 256 - n = d + 1 := by omega
            rw [genProof_mid_not_both _ _ _ _ _ hboth] at hg
            by_cases hbit : getBit x d = true
            · rw [if_pos hbit, hmod] at hg
              cases hgr : tr.genProof x (d + 1) with
              | none => simp [hgr] at hg
              | some v =>
                obtain ⟨b', p'⟩ := v
                simp [hgr] at hg
                rcases child_ok H x n ih _ hShi hag.hi (by omega) tr vr e2 e4 b' p' (by rw [hdn]; exact hgr) with h | h
                · left; rw [← hg.1, h]
                  exact decide_eq_decide.mpr (mem_hi_iff (by rw [← hdd]; exact hbit))
                · exact Or.inr h
            · have hbit' : getBit x d = false := by simpa using hbit
              rw [if_neg hbit, hmod] at hg
              cases hgl : tl.genProof x (d + 1) with
              | none => simp [hgl] at hg
              | some v =>
                obtain ⟨b', p'⟩ := v
                simp [hgl] at hg
                rcases child_ok H x n ih _ hSlo hag.lo (by omega) tl vl e1 e3 b' p' (by rw [hdn]; exact hgl) with h | h
                · left; rw [← hg.1, h]
                  exact decide_eq_decide.mpr (mem_lo_iff (by rw [← hdd]; exact hbit'))
                · exact Or.inr h
        · exact Or.inr hcol

def Tree.leaves : Tree → List Bytes
  | .empty => []
  | .leaf x => [x]
  | .trunc _ => []
  | .mid l r _ => l.leaves ++ r.leaves

/-- every leaf of the tree has, as its first bit, the first step of the route (if there is one) -/
def HeadOK (bits : List Bool) (t : Tree) : Prop :=
  ∀ y ∈ t.leaves, ∀ c, bits.head? = some c → getBit y 0 = c

theorem headOK_of_snoc {bits : List Bool} {c : Bool} {t : Tree} (h : HeadOK (bits ++ [c]) t) : HeadOK bits t := by
  intro y hy c' hc'
  apply h y hy c'
  cases bits with
  | nil => simp at hc'
  | cons b t => simpa using hc'

def TyShape (t : Tree) : NodeType → Prop
  | .empty => t = .empty
  | .term => ∃ y, t = .leaf y
  | .mid => True
  | .midDbl => ∃ a b h, t = .mid (.leaf a) (.leaf b) h

/-- the last node pushed is the value itself, or the top of a collapsed chain above it -/
def Top (bits : List Bool) (nt vt : Tree) (ty : NodeType) : Prop :=
  nt = vt ∨ (ty = .midDbl ∧
    ((nt = .mid .empty vt vt.hash ∧ HeadOK (bits ++ [true]) vt) ∨
     (nt = .mid vt .empty vt.hash ∧ HeadOK (bits ++ [false]) vt)))

def ParseInv (H : Bytes → Bytes) (bits : List Bool) (nv nv' : NodeVec) (vi : Nat) (ty : NodeType) : Prop :=
  ∃ ext vt nt, nv' = nv ++ ext ∧ ext ≠ [] ∧ vi < nv'.length ∧ Den nv' vi vt ∧ hashAt nv' vi = vt.hash ∧
    ValT H vt ∧ TyShape vt ty ∧ HeadOK bits vt ∧ Den nv' (nv'.length - 1) nt ∧ Top bits nt vt ty

theorem den_last (nv : NodeVec) (x : ArrayType × Bytes) : (nv ++ [x])[(nv ++ [x]).length - 1]? = some x := by
  simp

theorem audit_head {y : Bytes} {bits : List Bool} {c : Bool} (h : auditOk y bits = true)
    (hc : bits.head? = some c) : getBit y 0 = c := by
  cases bits with
  | nil => simp at hc
  | cons b t =>
    simp at hc; subst hc
    simp [auditOk, auditFrom] at h
    exact h.1

theorem parse_inv (H : Bytes → Bytes) : ∀ (f d : Nat) (bits : List Bool) (inp : Bytes) (nv : NodeVec)
    (rest : Bytes) (nv' : NodeVec) (vi : Nat) (ty : NodeType),
    parseNode H f d bits inp nv = some (rest, nv', vi, ty) → ParseInv H bits nv nv' vi ty := by
  intro f
  induction f with
  | zero => intro d bits inp nv rest nv' vi ty h; simp [parseNode] at h
  | succ f ih =>
    intro d bits inp nv rest nv' vi ty h
    cases inp with
    | nil => simp [parseNode] at h
    | cons b rest0 =>
      unfold parseNode at h
      simp only [] at h
      split at h
      · -- EMPTY
        simp only [Option.some.injEq, Prod.mk.injEq] at h
        obtain ⟨_, rfl, rfl, rfl⟩ := h
        refine ⟨[(.empty, BLANK)], .empty, .empty, rfl, by simp, by simp, ?_, ?_, trivial, rfl, ?_, ?_, Or.inl rfl⟩
        · exact Den.empty (h := BLANK) (getElem?_append_self _ _)
        · simp [hashAt, Tree.hash]
        · intro y hy; simp [Tree.leaves] at hy
        · exact Den.empty (h := BLANK) (den_last _ _)
      · split at h
        · -- TERMINAL
          split at h
          · simp at h
          · split at h
            · rename_i hlen haud
              simp only [Option.some.injEq, Prod.mk.injEq] at h
              obtain ⟨_, rfl, rfl, rfl⟩ := h
              refine ⟨[(.leaf, rest0.take 32)], .leaf (rest0.take 32), .leaf (rest0.take 32), rfl, by simp, by simp,
                ?_, ?_, ?_, ⟨_, rfl⟩, ?_, ?_, Or.inl rfl⟩
              · exact Den.leaf (getElem?_append_self _ _)
              · simp [hashAt, Tree.hash]
              · show (rest0.take 32).length = 32
                rw [List.length_take]; omega
              · intro y hy c hc
                simp [Tree.leaves] at hy; subst hy
                exact audit_head haud hc
              · exact Den.leaf (den_last _ _)
            · simp at h
        · split at h
          · -- TRUNCATED
            split at h
            · simp at h
            · rename_i hlen
              simp only [Option.some.injEq, Prod.mk.injEq] at h
              obtain ⟨_, rfl, rfl, rfl⟩ := h
              refine ⟨[(.truncated, rest0.take 32)], .trunc (rest0.take 32), .trunc (rest0.take 32), rfl, by simp, by simp,
                ?_, ?_, ?_, trivial, ?_, ?_, Or.inl rfl⟩
              · exact Den.trunc (getElem?_append_self _ _)
              · simp [hashAt, Tree.hash]
              · show (rest0.take 32).length = 32
                rw [List.length_take]; omega
              · intro y hy; simp [Tree.leaves] at hy
              · exact Den.trunc (den_last _ _)
          · split at h
            · -- MIDDLE
              split at h
              · simp at h
              · cases h1 : parseNode H f (d + 1) (bits ++ [false]) rest0 nv with
                | none => rw [h1] at h; simp at h
                | some r1 =>
                  obtain ⟨rest1, nv1, li, lt⟩ := r1
                  rw [h1] at h; simp only [] at h
                  cases h2 : parseNode H f (d + 1) (bits ++ [true]) rest1 nv1 with
                  | none => rw [h2] at h; simp at h
                  | some r2 =>
                    obtain ⟨rest2, nv2, ri, rt⟩ := r2
                    rw [h2] at h; simp only [Option.some.injEq, Prod.mk.injEq] at h
                    obtain ⟨_, rfl, rfl, rfl⟩ := h
                    obtain ⟨ext1, vtl, ntl, rfl, hne1, hli, hdl, hhl, hvl, htl, hol, _, _⟩ := ih _ _ _ _ _ _ _ _ h1
                    obtain ⟨ext2, vtr, ntr, rfl, hne2, hri, hdr, hhr, hvr, htr, hor, _, _⟩ := ih _ _ _ _ _ _ _ _ h2
                    have hli' : li < (nv ++ ext1 ++ ext2).length := by
                      simp only [List.length_append] at hli ⊢; omega
                    have hdl' : Den (nv ++ ext1 ++ ext2) li vtl := hdl.append ext2
                    have hhl' : hashAt (nv ++ ext1 ++ ext2) li = vtl.hash := by
                      rw [hashAt_append ext2 hli]; exact hhl
                    unfold parseMiddle
                    by_cases hA : lt = .empty ∧ rt = .midDbl
                    · rw [if_pos hA]
                      obtain ⟨rfl, rfl⟩ := hA
                      simp only [TyShape] at htl
                      subst htl
                      refine ⟨ext1 ++ ext2 ++ [(.middle li ri, hashAt (nv ++ ext1 ++ ext2) ri)], vtr,
                        .mid .empty vtr vtr.hash, by simp, by simp, ?_, hdr.append _, ?_, hvr, htr, headOK_of_snoc hor,
                        ?_, Or.inr ⟨rfl, Or.inl ⟨rfl, hor⟩⟩⟩
                      · simp only [List.length_append, List.length_cons, List.length_nil] at hri ⊢; omega
                      · rw [hashAt_append _ hri]; exact hhr
                      · have : (nv ++ ext1 ++ ext2 ++ [(ArrayType.middle li ri, hashAt (nv ++ ext1 ++ ext2) ri)]).length - 1
                            = (nv ++ ext1 ++ ext2).length := by (simp only [List.length_append, List.length_cons, List.length_nil]; omega)
                        rw [this, hhr]
                        exact Den.mid (getElem?_append_self _ _) hli' hri (hdl'.append _) (hdr.append _)
                    · rw [if_neg hA]
                      by_cases hB : lt = .midDbl ∧ rt = .empty
                      · rw [if_pos hB]
                        obtain ⟨rfl, rfl⟩ := hB
                        simp only [TyShape] at htr
                        subst htr
                        refine ⟨ext1 ++ ext2 ++ [(.middle li ri, hashAt (nv ++ ext1 ++ ext2) li)], vtl,
                          .mid vtl .empty vtl.hash, by simp, by simp, ?_, hdl'.append _, ?_, hvl, htl, headOK_of_snoc hol,
                          ?_, Or.inr ⟨rfl, Or.inr ⟨rfl, hol⟩⟩⟩
                        · simp only [List.length_append, List.length_cons, List.length_nil] at hli' ⊢; omega
                        · rw [hashAt_append _ hli']; exact hhl'
                        · have : (nv ++ ext1 ++ ext2 ++ [(ArrayType.middle li ri, hashAt (nv ++ ext1 ++ ext2) li)]).length - 1
                              = (nv ++ ext1 ++ ext2).length := by (simp only [List.length_append, List.length_cons, List.length_nil]; omega)
                          rw [this, hhl']
                          exact Den.mid (getElem?_append_self _ _) hli' hri (hdl'.append _) (hdr.append _)
                      · rw [if_neg hB]
                        simp only []
                        rw [hdl'.typeAt, hdr.typeAt, hhl', hhr]
                        refine ⟨ext1 ++ ext2 ++ [(.middle li ri, hashNode H vtl.ntype vtr.ntype vtl.hash vtr.hash)],
                          .mid vtl vtr (hashNode H vtl.ntype vtr.ntype vtl.hash vtr.hash),
                          .mid vtl vtr (hashNode H vtl.ntype vtr.ntype vtl.hash vtr.hash), by simp, by simp, by simp,
                          ?_, ?_, ⟨hvl, hvr, rfl⟩, ?_, ?_, ?_, Or.inl rfl⟩
                        · exact Den.mid (getElem?_append_self _ _) hli' hri (hdl'.append _) (hdr.append _)
                        · simp [hashAt, Tree.hash]
                        · by_cases htt : lt = .term ∧ rt = .term
                          · rw [if_pos htt]
                            obtain ⟨rfl, rfl⟩ := htt
                            simp only [TyShape] at htl htr ⊢
                            obtain ⟨a, rfl⟩ := htl
                            obtain ⟨b, rfl⟩ := htr
                            exact ⟨a, b, _, rfl⟩
                          · rw [if_neg htt]; trivial
                        · intro y hy c hc
                          simp only [Tree.leaves, List.mem_append] at hy
                          rcases hy with hy | hy
                          · exact headOK_of_snoc hol y hy c hc
                          · exact headOK_of_snoc hor y hy c hc
                        · have : (nv ++ ext1 ++ ext2 ++ [(ArrayType.middle li ri, hashNode H vtl.ntype vtr.ntype vtl.hash vtr.hash)]).length - 1
                              = (nv ++ ext1 ++ ext2).length := by (simp only [List.length_append, List.length_cons, List.length_nil]; omega)
                          rw [this]
                          exact Den.mid (getElem?_append_self _ _) hli' hri (hdl'.append _) (hdr.append _)
            · simp at h

/-- a `mid`/`midDbl` reference value is the digest of a 96-byte node pre-image -/
theorem trie_mid_is_hash (H : Bytes → Bytes) (n : Nat) (S : List Bytes)
    (h : (trie H n S).2 = .mid ∨ (trie H n S).2 = .midDbl) :
    ∃ a b l r, (trie H n S).1 = hashNode H a b l r := by
  induction n generalizing S with
  | zero => rcases trie_zero_type H S with h' | h' <;> rcases h with h | h <;> rw [h'] at h <;> simp at h
  | succ n ih =>
    rw [trie_succ] at h ⊢
    rcases combine_cases H (trie H n (Lo(255 - n, S))) (trie H n (Hi(255 - n, S))) with
      ⟨_, _, hc⟩ | ⟨_, _, _, hc⟩ | ⟨_, _, hc⟩
    · rw [hc] at h ⊢; exact ih _ h
    · rw [hc] at h ⊢; exact ih _ h
    · rw [hc]; exact ⟨_, _, _, _, rfl⟩

/-- a pre-image of the all-zero digest -/
def ZeroPre (H : Bytes → Bytes) : Prop := ∃ u, H u = zeros 32

theorem BLANK_eq : BLANK = zeros 32 := rfl

/-- a hashed node whose hash is the reference root: the reference value is a hashed node with that
hash, or a collision / zero pre-image is exhibited -/
theorem root_mid_match (H : Bytes → Bytes) (S : List Bytes) (a b : NodeType) (l r : Bytes)
    (h : hashNode H a b l r = rootOfVal H (trie H 256 S)) :
    (((trie H 256 S).2 = .mid ∨ (trie H 256 S).2 = .midDbl) ∧ hashNode H a b l r = (trie H 256 S).1) ∨
      Collision H ∨ ZeroPre H := by
  cases hv : trie H 256 S with
  | mk vh vty =>
    rw [hv] at h
    cases vty with
    | empty => right; right; exact ⟨_, h⟩
    | term => right; left; exact hashLeaf_ne_hashNode H h.symm
    | mid => left; exact ⟨Or.inl rfl, h⟩
    | midDbl => left; exact ⟨Or.inr rfl, h⟩

/-- The walk through the top of a collapsed chain: one empty side, the double-leaf node on the other.
This is the place where soundness needs the leaf-position audit (`HeadOK`, established by
`parse_inv` from `auditOk`): the top of a collapsed `(Empty, MidDbl)` chain keeps its hash when its
sides are swapped, so only the audit ties the side of the empty node to the first bit of the two
leaves.  Without the audit in the model, `parse_inv` cannot establish `HeadOK`. -/
theorem audit_fixes_collapsed_side (H : Bytes → Bytes) (hH : ∀ u, (H u).length = 32) (S : List Bytes) (hS : ∀ y ∈ S, IsLeaf y)
    (x a b hh : Bytes) (side : Bool) (hval : ValT H (.mid (.leaf a) (.leaf b) hh))
    (hho : HeadOK [side] (.mid (.leaf a) (.leaf b) hh))
    (hroot : hh = rootOfVal H (trie H 256 S)) (bb : Bool) (q : Bytes)
    (hwalk : (if side then Tree.mid .empty (.mid (.leaf a) (.leaf b) hh) hh
              else Tree.mid (.mid (.leaf a) (.leaf b) hh) .empty hh).genProof x 0 = some (bb, q)) :
    bb = decide (x ∈ S) ∨ Collision H ∨ ZeroPre H := by
  obtain ⟨hla, hlb, rfl⟩ := hval
  rcases root_mid_match H S _ _ _ _ hroot with ⟨hty, hhash⟩ | hc
  · have hmem := snd_all H hH x 256 S hS (agree_zero S) (Nat.le_refl _)
      (.mid (.leaf a) (.leaf b) _) ⟨hla, hlb, rfl⟩ rfl hty hhash 0 (fun _ => rfl)
      (decide (a = x) || decide (b = x)) _ (by simp [Tree.genProof, Tree.leaf?]; rfl)
    rcases hmem with hmem | hcol
    · have ha : getBit a 0 = side := hho a (by simp [Tree.leaves]) side rfl
      have hb : getBit b 0 = side := hho b (by simp [Tree.leaves]) side rfl
      cases side with
      | true =>
        simp only [if_true] at hwalk
        rw [genProof_mid_not_both _ _ _ _ _ (by simp [Tree.leaf?])] at hwalk
        by_cases hbit : getBit x 0 = true
        · rw [if_pos hbit] at hwalk
          simp [Tree.genProof, Tree.leaf?] at hwalk
          left; rw [← hwalk.1]; exact hmem
        · rw [if_neg hbit] at hwalk
          simp [Tree.genProof] at hwalk
          left; rw [hwalk.1, ← hmem]
          have h1 : a ≠ x := by intro h; rw [h] at ha; exact hbit ha
          have h2 : b ≠ x := by intro h; rw [h] at hb; exact hbit hb
          simp [h1, h2]
      | false =>
        simp only [Bool.false_eq_true, if_false] at hwalk
        rw [genProof_mid_not_both _ _ _ _ _ (by simp [Tree.leaf?])] at hwalk
        by_cases hbit : getBit x 0 = true
        · rw [if_pos hbit] at hwalk
          simp [Tree.genProof] at hwalk
          left; rw [hwalk.1, ← hmem]
          have h1 : a ≠ x := by intro h; rw [h] at ha; rw [ha] at hbit; simp at hbit
          have h2 : b ≠ x := by intro h; rw [h] at hb; rw [hb] at hbit; simp at hbit
          simp [h1, h2]
        · rw [if_neg hbit] at hwalk
          simp [Tree.genProof, Tree.leaf?] at hwalk
          left; rw [← hwalk.1]; exact hmem
    · exact Or.inr (Or.inl hcol)
  · exact Or.inr hc

/-- soundness on the tree level: last node `nt`, value `vt` -/
theorem sound_core (H : Bytes → Bytes) (hH : ∀ u, (H u).length = 32) (S : List Bytes) (hS : ∀ y ∈ S, IsLeaf y)
    (x : Bytes) (vt nt : Tree) (ty : NodeType) (hval : ValT H vt) (hts : TyShape vt ty) (htop : Top [] nt vt ty)
    (hroot : nt.root H = rootOfVal H (trie H 256 S)) (b : Bool) (q : Bytes) (hwalk : nt.genProof x 0 = some (b, q)) :
    b = decide (x ∈ S) ∨ Collision H ∨ ZeroPre H := by
  have hag := agree_zero S
  rcases htop with rfl | ⟨rfl, ⟨rfl, hho⟩ | ⟨rfl, hho⟩⟩
  · cases nt with
    | empty =>
      simp [Tree.genProof] at hwalk
      cases hv : trie H 256 S with
      | mk vh vty =>
        rw [hv] at hroot
        cases vty with
        | empty =>
          have := (trie_type_empty_iff H 256 S).mp (by rw [hv])
          subst this; left; simp [← hwalk.1]
        | term => right; right; exact ⟨_, hroot.symm⟩
        | mid =>
          obtain ⟨a', b', l', r', e⟩ := trie_mid_is_hash H 256 S (Or.inl (by rw [hv]))
          rw [hv] at e
          right; right; exact ⟨_, by rw [← BLANK_eq]; exact (hroot.trans e).symm⟩
        | midDbl =>
          obtain ⟨a', b', l', r', e⟩ := trie_mid_is_hash H 256 S (Or.inr (by rw [hv]))
          rw [hv] at e
          right; right; exact ⟨_, by rw [← BLANK_eq]; exact (hroot.trans e).symm⟩
    | leaf y =>
      simp [Tree.genProof] at hwalk
      cases hv : trie H 256 S with
      | mk vh vty =>
        rw [hv] at hroot
        cases vty with
        | empty => right; right; exact ⟨_, hroot⟩
        | term =>
          by_cases hy : y = vh
          · subst hy
            obtain ⟨hm, hall⟩ := trie_term H 256 S y hS hag hv
            left; rw [← hwalk.1]
            apply decide_eq_decide.mpr
            constructor
            · intro h; rw [← h]; exact hm
            · intro h; exact (hall x h).symm
          · right; left; exact ⟨1 :: y, 1 :: vh, by simp [hy], hroot⟩
        | mid =>
          obtain ⟨a', b', l', r', e⟩ := trie_mid_is_hash H 256 S (Or.inl (by rw [hv]))
          rw [hv] at e
          right; left; exact hashLeaf_ne_hashNode H (hroot.trans e)
        | midDbl =>
          obtain ⟨a', b', l', r', e⟩ := trie_mid_is_hash H 256 S (Or.inr (by rw [hv]))
          rw [hv] at e
          right; left; exact hashLeaf_ne_hashNode H (hroot.trans e)
    | trunc h => simp [Tree.genProof] at hwalk
    | mid tl tr hh =>
      obtain ⟨vl, vr, rfl⟩ := hval
      rcases root_mid_match H S _ _ _ _ hroot with ⟨hty, hhash⟩ | hc
      · rcases snd_all H hH x 256 S hS hag (Nat.le_refl _) (.mid tl tr _) ⟨vl, vr, rfl⟩ rfl hty hhash 0
          (fun _ => rfl) b q hwalk with h | h
        · exact Or.inl h
        · exact Or.inr (Or.inl h)
      · exact Or.inr hc
  · simp only [TyShape] at hts
    obtain ⟨a, b', hh, rfl⟩ := hts
    exact audit_fixes_collapsed_side H hH S hS x a b' hh true hval hho hroot b q (by simpa [Tree.hash] using hwalk)
  · simp only [TyShape] at hts
    obtain ⟨a, b', hh, rfl⟩ := hts
    exact audit_fixes_collapsed_side H hH S hS x a b' hh false hval hho hroot b q (by simpa [Tree.hash] using hwalk)

end ChiaModel.Merkle
