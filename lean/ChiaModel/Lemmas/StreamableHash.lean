import ChiaModel.Lemmas.StreamableMain
/-!
`update_digest` feeds the hasher exactly the prescribed pre-image (`encodeForHash`), and panics exactly when
that pre-image does not exist (version-2 proof of space without a quality string).
-/
namespace ChiaModel.Streamable
open ChiaModel

/-- verdict of `update_digest` against the prescribed pre-image -/
def HashRel (d : Outcome (List Bytes)) (e : Option Bytes) : Prop :=
  match d with
  | .ok cs => e = some cs.flatten
  | .panic s => e = none ∧ s = sitePosQuality
  | .err => False

def HashOK (dg : Dig) (eh : Enc) (w : Wf) : Prop := ∀ v, w v = true → HashRel (dg v) (eh v)

theorem hash_ofEnc {e : Enc} {w : Wf} (h : ∀ v, w v = true → ∃ b, e v = some b) : HashOK (digOfEnc e) e w := by
  intro v hv
  obtain ⟨b, hb⟩ := h v hv
  simp [digOfEnc, hb, HashRel]

theorem hash_ofCodec {d : Dec} {e : Enc} {w : Wf} (h : Codec d e w) : HashOK (digOfEnc e) e w :=
  hash_ofEnc fun v hv => let ⟨b, hb, _⟩ := h.rt v hv; ⟨b, hb⟩

theorem hash_unit : HashOK digUnit encUnit wfUnit := by
  intro v hv
  cases v <;> simp [wfUnit] at hv
  simp [digUnit, encUnit, HashRel]

theorem hash_bytes : HashOK digBytes encBytes wfBytes := by
  intro v hv
  cases v <;> simp [wfBytes] at hv
  simp [digBytes, encBytes, HashRel, hv]

theorem hash_str : HashOK digStr encStr wfStr := by
  intro v hv
  cases v <;> simp [wfStr] at hv
  simp [digStr, encStr, HashRel, hv.1, hv.2]

theorem hash_option {d : Dig} {e : Enc} {w : Wf} (h : HashOK d e w) : HashOK (digOption d) (encOption e) (wfOption w) := by
  intro v hv
  rcases wfOption_iff.mp hv with rfl | ⟨x, rfl, hx⟩
  · simp [digOption, encOption, HashRel]
  · have := h x hx
    simp only [digOption, encOption]
    cases hd : d x with
    | ok cs => rw [hd] at this; simp only [HashRel] at this; simp [Outcome.bind, HashRel, this]
    | err => rw [hd] at this; exact this.elim
    | panic s => rw [hd] at this; simp only [HashRel] at this; simp [Outcome.bind, HashRel, this]

theorem hash_all {d : Dig} {e : Enc} {w : Wf} (h : HashOK d e w) :
    ∀ l : List V, l.all w = true → HashRel (digAll d l) (encAll e l) := by
  intro l
  induction l with
  | nil => intro _; simp [digAll, encAll, HashRel]
  | cons v vs ih =>
    intro hall
    simp only [List.all_cons, Bool.and_eq_true] at hall
    have h1 := h v hall.1
    have h2 := ih hall.2
    simp only [digAll, encAll]
    cases hd : d v with
    | err => rw [hd] at h1; exact h1.elim
    | panic s => rw [hd] at h1; simp only [HashRel] at h1; simp [Outcome.bind, HashRel, h1]
    | ok cs =>
      rw [hd] at h1; simp only [HashRel] at h1
      cases hd2 : digAll d vs with
      | err => rw [hd2] at h2; exact h2.elim
      | panic s => rw [hd2] at h2; simp only [HashRel] at h2; simp [Outcome.bind, HashRel, h1, h2]
      | ok cs2 => rw [hd2] at h2; simp only [HashRel] at h2; simp [Outcome.bind, HashRel, h1, h2]

theorem hash_vec {d : Dig} {e : Enc} {w : Wf} (h : HashOK d e w) : HashOK (digVec d) (encVec e) (wfVec w) := by
  intro v hv
  obtain ⟨l, rfl, hlen, hall⟩ := wfVec_iff.mp hv
  have := hash_all h l hall
  simp only [digVec, encVec, hlen, if_true]
  cases hd : digAll d l with
  | err => rw [hd] at this; exact this.elim
  | panic s => rw [hd] at this; simp only [HashRel] at this; simp [Outcome.bind, HashRel, this]
  | ok cs => rw [hd] at this; simp only [HashRel] at this; simp [Outcome.bind, HashRel, this]

theorem hash_array {n : Nat} {d : Dig} {e : Enc} {w : Wf} (h : HashOK d e w) :
    HashOK (digArray d) (encArray n e) (wfArray n w) := by
  intro v hv
  obtain ⟨l, rfl, hlen, hall⟩ := wfArray_iff.mp hv
  have := hash_all h l hall
  simp only [digArray, encArray, hlen, if_true]
  exact this

theorem hash_optpair {d1 d2 : Dig} {e1 e2 : Enc} {w1 w2 : Wf} (h1 : HashOK d1 e1 w1) (h2 : HashOK d2 e2 w2) :
    HashOK (digOptPair d1 d2) (encOptPair e1 e2) (wfOptPair w1 w2) := by
  intro v hv
  obtain ⟨a, b, rfl, ha, hb⟩ := wfOptPair_iff.mp hv
  rcases wfOption_iff.mp ha with rfl | ⟨x, rfl, hx⟩ <;> rcases wfOption_iff.mp hb with rfl | ⟨y, rfl, hy⟩
  · simp [digOptPair, encOptPair, HashRel]
  · have := h2 y hy
    simp only [digOptPair, encOptPair]
    cases hd : d2 y with
    | ok cs => rw [hd] at this; simp only [HashRel] at this; simp [Outcome.bind, HashRel, this]
    | err => rw [hd] at this; exact this.elim
    | panic s => rw [hd] at this; simp only [HashRel] at this; simp [Outcome.bind, HashRel, this]
  · have := h1 x hx
    simp only [digOptPair, encOptPair]
    cases hd : d1 x with
    | ok cs => rw [hd] at this; simp only [HashRel] at this; simp [Outcome.bind, HashRel, this]
    | err => rw [hd] at this; exact this.elim
    | panic s => rw [hd] at this; simp only [HashRel] at this; simp [Outcome.bind, HashRel, this]
  · have t1 := h1 x hx
    have t2 := h2 y hy
    simp only [digOptPair, encOptPair]
    cases hd : d1 x with
    | err => rw [hd] at t1; exact t1.elim
    | panic s => rw [hd] at t1; simp only [HashRel] at t1; simp [Outcome.bind, HashRel, t1]
    | ok cs =>
      rw [hd] at t1; simp only [HashRel] at t1
      cases hd2 : d2 y with
      | err => rw [hd2] at t2; exact t2.elim
      | panic s => rw [hd2] at t2; simp only [HashRel] at t2; simp [Outcome.bind, HashRel, t1, t2]
      | ok cs2 => rw [hd2] at t2; simp only [HashRel] at t2; simp [Outcome.bind, HashRel, t1, t2]

theorem hash_tup {d : List V → Outcome (List Bytes)} {e : List V → Option Bytes} {w : List V → Bool}
    (h : ∀ l, w l = true → HashRel (d l) (e l)) : HashOK (digTup d) (encTup e) (wfTup w) := by
  intro v hv
  cases v <;> simp [wfTup] at hv
  simp only [digTup, encTup]
  exact h _ hv

/-- sequencing two digests against the concatenation of two encodings -/
theorem hashRel_seq {d1 d2 : Outcome (List Bytes)} {e1 e2 : Option Bytes}
    (h1 : HashRel d1 e1) (h2 : HashRel d2 e2) :
    HashRel (d1.bind fun a => d2.bind fun b => .ok (a ++ b))
      (optAppend e1 e2) := by
  cases d1 with
  | err => exact h1.elim
  | panic s => simp only [HashRel] at h1; simp [Outcome.bind, HashRel, h1]
  | ok cs =>
    simp only [HashRel] at h1
    cases d2 with
    | err => exact h2.elim
    | panic s => simp only [HashRel] at h2; simp [Outcome.bind, HashRel, h1, h2]
    | ok cs2 => simp only [HashRel] at h2; simp [Outcome.bind, HashRel, h1, h2]

theorem hash_gentail (O : Oracles) (hO : OracleContract O) (tr p : Bool) :
    HashOK (digGenTail p) encGenTail (wfGenTail O tr) := by
  intro v hv
  obtain ⟨gen, refs, buf, version, rfl, h⟩ := wfGenTail_iff.mp hv
  rcases h with ⟨rfl, hg, hr, rfl⟩ | ⟨rfl, rfl, rfl, hb⟩
  · have t1 := hash_option (hash_ofCodec (codec_program O hO tr)) gen hg
    have t2 := hash_vec (hash_ofCodec (codec_uint 4)) refs hr
    simp only [digGenTail, encGenTail, if_true]
    exact hashRel_seq t1 t2
  · simp only [digGenTail, encGenTail, if_neg (by decide : ¬ (1 : Nat) = 0), if_true]
    rcases wfOption_iff.mp hb with rfl | ⟨x, rfl, hx⟩
    · simp [HashRel]
    · cases x <;> simp [wfBytes] at hx
      simp [HashRel]

end ChiaModel.Streamable
