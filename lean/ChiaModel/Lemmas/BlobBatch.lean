import ChiaModel.Lemmas.BlobInv
/-
C18, level L2: on a locally well-formed blob the two tree walks of the code (the pseudo-random walk
of `insert` and the breadth-first search of `get_min_height_leaf`) terminate with a live leaf.
-/
namespace ChiaModel.Blob
open M

/-- a list of distinct naturals below `n` has at most `n` elements -/
theorem nodup_bound (n : Nat) (l : List Nat) (hn : l.Nodup) (hb : ∀ x ∈ l, x < n) : l.length ≤ n := by
  induction n generalizing l with
  | zero =>
    cases l with
    | nil => simp
    | cons a _ => exact absurd (hb a (by simp)) (Nat.not_lt_zero _)
  | succ n ih =>
    have h1 : (l.erase n).Nodup := hn.erase n
    have h2 : ∀ x ∈ l.erase n, x < n := by
      intro x hx
      have hm := (hn.mem_erase_iff).mp hx
      have := hb x hm.2
      omega
    have := ih (l.erase n) h1 h2
    have hlen := List.length_erase_le (a := n) (l := l)
    by_cases hmem : n ∈ l
    · rw [List.length_erase_of_mem hmem] at this; omega
    · rw [List.erase_of_not_mem hmem] at this; omega

/-! ### the pseudo-random walk -/

/-- `path` is a downward chain ending in `cur`: consecutive elements are parent and child -/
def Chain (s : Blob) : List Nat → Prop
  | [] => True
  | [_] => True
  | c :: p :: rest => parentOf s c = some p ∧ Chain s (p :: rest)

/-- the walk from a live node that ends a chain of distinct nodes starting at the root finds a leaf -/
theorem walk_ok_aux {s : Blob} (hinv : LInv s) (f : Nat) (cur : Nat) (path : List Nat) (bs : BitSrc)
    (hl : cur < s.blocks.length) (hf : cur ∉ s.free)
    (hch : Chain s (cur :: path)) (hnd : (cur :: path).Nodup)
    (hroot : (cur :: path).getLast? = some 0)
    (hlt : ∀ x ∈ cur :: path, x < s.blocks.length)
    (hfuel : s.blocks.length + 1 ≤ f + (cur :: path).length) :
    ∃ r, walkAux s.blocks f cur bs = some r := by
  induction f generalizing cur path bs with
  | zero =>
    have := nodup_bound s.blocks.length (cur :: path) hnd hlt
    omega
  | succ f ih =>
    simp only [walkAux]
    obtain ⟨b, hb⟩ : ∃ b, s.blocks[cur]? = some b := ⟨s.blocks[cur], List.getElem?_eq_getElem hl⟩
    rw [hb]
    obtain ⟨d, n⟩ := b
    cases n with
    | leaf h p k v => exact ⟨cur, rfl⟩
    | internal h p l r =>
      simp only
      obtain ⟨hl1, hr1, hl2, hr2, _, hpl, hpr⟩ := hinv.children' hf hb
      -- a child of `cur` is not on the path
      have notOn : ∀ c, parentOf s c = some cur → c ∉ cur :: path := by
        intro c hc hmem
        -- walk along the chain: an element of the chain other than the last has its parent next to it
        have key : ∀ (q : List Nat) (x : Nat), Chain s (x :: q) → (x :: q).Nodup → (x :: q).getLast? = some 0 →
            c ∈ x :: q → parentOf s c = some cur → cur = x → False := by
          intro q
          induction q with
          | nil =>
            intro x _ _ hlast hmem' hc' hx
            simp only [List.getLast?_singleton, Option.some.injEq] at hlast
            simp only [List.mem_singleton] at hmem'
            -- c = x = 0 = cur, but the root has no parent
            have h0 : 0 < s.blocks.length := by omega
            have hr := hinv.root
            simp only [rootOk, List.getElem?_eq_getElem h0] at hr
            rw [hmem', hlast] at hc'
            simp only [parentOf, List.getElem?_eq_getElem h0, hr.2] at hc'
            cases hc'
          | cons y q _ =>
            intro x hchain hnd' hlast hmem' hc' hx
            -- c is x itself or further down the list; both contradict distinctness
            rcases List.mem_cons.mp hmem' with e | e
            · -- c = x = cur: cur would be its own parent, so y = cur, not distinct
              subst e
              have := hchain.1
              rw [hc'] at this
              injection this with this
              simp only [List.nodup_cons, List.mem_cons, not_or] at hnd'
              exact hnd'.1.1 (hx.symm.trans this)
            · -- c further down: its parent (next element or beyond) would be cur = x, again on the list twice
              have hnd2 := (List.nodup_cons.mp hnd').2
              have hxn := (List.nodup_cons.mp hnd').1
              -- find c in y :: q and look at its successor
              have find : ∀ (q' : List Nat) (z : Nat), Chain s (z :: q') → (z :: q').getLast? = some 0 →
                  c ∈ z :: q' → x ∉ z :: q' → False := by
                intro q'
                induction q' with
                | nil =>
                  intro z _ hl' hm' _
                  simp only [List.getLast?_singleton, Option.some.injEq] at hl'
                  simp only [List.mem_singleton] at hm'
                  have h0 : 0 < s.blocks.length := by omega
                  have hr := hinv.root
                  simp only [rootOk, List.getElem?_eq_getElem h0] at hr
                  rw [hm', hl'] at hc'
                  simp only [parentOf, List.getElem?_eq_getElem h0, hr.2] at hc'
                  cases hc'
                | cons w q'' ih' =>
                  intro z hch' hl' hm' hx'
                  rcases List.mem_cons.mp hm' with e' | e'
                  · subst e'
                    have := hch'.1
                    rw [hc'] at this
                    injection this with this
                    exact hx' (by rw [← hx, this]; simp)
                  · exact ih' w hch'.2 (by simpa [List.getLast?_cons_cons] using hl') e'
                      (fun h' => hx' (List.mem_cons_of_mem _ h'))
              exact find q y hchain.2 (by simpa [List.getLast?_cons_cons] using hlast) e hxn
        exact key path cur hch hnd hroot hmem hc rfl
      have step : ∀ c, c < s.blocks.length → c ∉ s.free → parentOf s c = some cur →
          ∃ r', walkAux s.blocks f c (bs.next).2 = some r' := by
        intro c hc1 hc2 hc3
        apply ih c (cur :: path) _ hc1 hc2
        · exact ⟨hc3, hch⟩
        · exact List.nodup_cons.mpr ⟨notOn c hc3, hnd⟩
        · rw [List.getLast?_cons_cons]; exact hroot
        · intro x hx
          rcases List.mem_cons.mp hx with e | e
          · rw [e]; exact hc1
          · exact hlt x e
        · simp only [List.length_cons] at hfuel ⊢; omega
      by_cases hbit : (bs.next).1 = true
      · rw [if_pos hbit]; exact step r hr1 hr2 hpr
      · rw [if_neg hbit]; exact step l hl1 hl2 hpl

theorem walk_ok {s : Blob} (hinv : LInv s) (hne : s.blocks ≠ []) (bs : BitSrc) :
    ∃ r, walkAux s.blocks (s.blocks.length + 1) 0 bs = some r := by
  have h0 : 0 < s.blocks.length := List.length_pos_iff.mpr hne
  have hr := hinv.root
  simp only [rootOk, List.getElem?_eq_getElem h0] at hr
  exact walk_ok_aux hinv _ 0 [] bs h0 hr.1 trivial (by simp) (by simp) (by simp; exact h0) (by simp)

/-! ### the breadth-first search of `get_min_height_leaf` -/

structure BfInv (s : Blob) (dq q : List Nat) : Prop where
  live : ∀ x, x ∈ q ∨ x ∈ dq → x < s.blocks.length ∧ x ∉ s.free
  qNodup : q.Nodup
  dqNodup : dq.Nodup
  disj : ∀ x, x ∈ q → x ∉ dq
  par : ∀ x, x ∈ q ∨ x ∈ dq → x ≠ 0 → ∃ p, p ∈ q ∧ parentOf s x = some p

/-- on any block list that agrees with a locally well-formed blob on its live indexes, the
breadth-first search finds a live leaf of that blob -/
theorem bf_ok_aux {s : Blob} (hinv : LInv s) (bl : List Block)
    (hag : ∀ j, j < s.blocks.length → j ∉ s.free → bl[j]? = s.blocks[j]?)
    (f : Nat) (dq q : List Nat) (I : BfInv s dq q) (hdq : dq ≠ [])
    (hfuel : s.blocks.length + 1 ≤ f + q.length) :
    ∃ i b, bfAux bl f dq q = some (i, b) ∧ i ∉ s.free ∧ s.blocks[i]? = some b ∧ b.node.isLeaf = true := by
  induction f generalizing dq q with
  | zero =>
    have := nodup_bound s.blocks.length q I.qNodup (fun x hx => (I.live x (Or.inl hx)).1)
    omega
  | succ f ih =>
    cases dq with
    | nil => exact absurd rfl hdq
    | cons idx rest =>
      obtain ⟨hil, hif⟩ := I.live idx (Or.inr (by simp))
      obtain ⟨b, hb⟩ : ∃ b, s.blocks[idx]? = some b := ⟨s.blocks[idx], List.getElem?_eq_getElem hil⟩
      simp only [bfAux, hag idx hil hif, hb]
      obtain ⟨d, n⟩ := b
      cases n with
      | leaf h p k v => exact ⟨idx, _, rfl, hif, hb, rfl⟩
      | internal h p l r =>
        simp only
        have hidxq : idx ∉ q := fun hq => I.disj idx hq (by simp)
        have hc : q.contains idx = false := by simpa using hidxq
        rw [hc]
        simp only [Bool.false_eq_true, if_false]
        obtain ⟨hl1, hr1, hl2, hr2, hlr, hpl, hpr⟩ := hinv.children' hif hb
        have hrestNodup := (List.nodup_cons.mp I.dqNodup)
        -- a child of idx has not been seen
        have unseen : ∀ c, parentOf s c = some idx → c ∉ q ∧ c ≠ idx ∧ c ∉ rest := by
          intro c hc
          have hc0 : c ≠ 0 := by
            intro e
            have h0 : 0 < s.blocks.length := by omega
            have hr := hinv.root
            simp only [rootOk, List.getElem?_eq_getElem h0] at hr
            rw [e] at hc
            simp only [parentOf, List.getElem?_eq_getElem h0, hr.2] at hc
            cases hc
          have main : ∀ (hm : c ∈ q ∨ c ∈ idx :: rest), False := by
            intro hm
            obtain ⟨p, hp, hpp⟩ := I.par c hm hc0
            rw [hc] at hpp
            injection hpp with hpp
            exact hidxq (hpp ▸ hp)
          refine ⟨fun h' => main (Or.inl h'), ?_, fun h' => main (Or.inr (List.mem_cons_of_mem _ h'))⟩
          intro e; exact main (Or.inr (by rw [e]; simp))
        obtain ⟨ul1, ul2, ul3⟩ := unseen l hpl
        obtain ⟨ur1, ur2, ur3⟩ := unseen r hpr
        apply ih (rest ++ [l, r]) (idx :: q)
        · refine ⟨?_, ?_, ?_, ?_, ?_⟩
          · intro x hx
            rcases hx with hx | hx
            · rcases List.mem_cons.mp hx with e | e
              · rw [e]; exact ⟨hil, hif⟩
              · exact I.live x (Or.inl e)
            · rcases List.mem_append.mp hx with e | e
              · exact I.live x (Or.inr (List.mem_cons_of_mem _ e))
              · simp only [List.mem_cons, List.mem_singleton, List.not_mem_nil, or_false] at e
                rcases e with e | e
                · rw [e]; exact ⟨hl1, hl2⟩
                · rw [e]; exact ⟨hr1, hr2⟩
          · exact List.nodup_cons.mpr ⟨hidxq, I.qNodup⟩
          · rw [List.nodup_append]
            refine ⟨hrestNodup.2, by simp [hlr], ?_⟩
            intro a ha b' hb' hab
            simp only [List.mem_cons, List.mem_singleton, List.not_mem_nil, or_false] at hb'
            rcases hb' with e | e
            · rw [hab, e] at ha; exact ul3 ha
            · rw [hab, e] at ha; exact ur3 ha
          · intro x hx hx'
            rcases List.mem_append.mp hx' with e | e
            · rcases List.mem_cons.mp hx with e2 | e2
              · rw [e2] at e; exact hrestNodup.1 e
              · exact I.disj x e2 (List.mem_cons_of_mem _ e)
            · simp only [List.mem_cons, List.mem_singleton, List.not_mem_nil, or_false] at e
              rcases List.mem_cons.mp hx with e2 | e2
              · rcases e with e | e
                · exact ul2 (e.symm.trans e2)
                · exact ur2 (e.symm.trans e2)
              · rcases e with e | e
                · rw [e] at e2; exact ul1 e2
                · rw [e] at e2; exact ur1 e2
          · intro x hx hx0
            have old : x ∈ q ∨ x ∈ idx :: rest → ∃ p, p ∈ idx :: q ∧ parentOf s x = some p := by
              intro hm
              obtain ⟨p, hp, hpp⟩ := I.par x hm hx0
              exact ⟨p, List.mem_cons_of_mem _ hp, hpp⟩
            rcases hx with hx | hx
            · rcases List.mem_cons.mp hx with e | e
              · exact old (Or.inr (by rw [e]; simp))
              · exact old (Or.inl e)
            · rcases List.mem_append.mp hx with e | e
              · exact old (Or.inr (List.mem_cons_of_mem _ e))
              · simp only [List.mem_cons, List.mem_singleton, List.not_mem_nil, or_false] at e
                rcases e with e | e
                · exact ⟨idx, by simp, by rw [e]; exact hpl⟩
                · exact ⟨idx, by simp, by rw [e]; exact hpr⟩
        · simp
        · simp only [List.length_cons] at hfuel ⊢; omega

theorem bf_ok {s : Blob} (hinv : LInv s) (bl : List Block)
    (hag : ∀ j, j < s.blocks.length → j ∉ s.free → bl[j]? = s.blocks[j]?)
    (hne : s.blocks ≠ []) (f : Nat) (hf : s.blocks.length + 1 ≤ f) :
    ∃ i b, bfAux bl f [0] [] = some (i, b) ∧ i ∉ s.free ∧ s.blocks[i]? = some b ∧ b.node.isLeaf = true := by
  have h0 : 0 < s.blocks.length := List.length_pos_iff.mpr hne
  have hr := hinv.root
  simp only [rootOk, List.getElem?_eq_getElem h0] at hr
  refine bf_ok_aux hinv bl hag f [0] [] ?_ (by simp) (by simpa using hf)
  refine ⟨?_, List.nodup_nil, by simp, by simp, ?_⟩
  · intro x hx
    simp only [List.not_mem_nil, List.mem_singleton, false_or] at hx
    rw [hx]; exact ⟨h0, hr.1⟩
  · intro x hx hx0
    simp only [List.not_mem_nil, List.mem_singleton, false_or] at hx
    exact absurd hx hx0

/-! ### a validated `insert` succeeds, and what it does to the caches -/

/-- the dirty-marking walk does not touch the caches (its lineage consists of internal nodes) -/
theorem markDirtyAux_caches (f : Nat) (i : Nat) (s : Blob) (hinv : LInv s) (hi : i ∉ s.free)
    (hb : ∃ d h p l r, s.blocks[i]? = some { dirty := d, node := .internal h p l r }) :
    (markDirtyAux f i s).2.k2i = s.k2i ∧ (markDirtyAux f i s).2.h2i = s.h2i := by
  induction f generalizing i s with
  | zero => exact ⟨rfl, rfl⟩
  | succ f ih =>
    obtain ⟨d, h, p, l, r, hb⟩ := hb
    have hil : i < s.blocks.length := (List.getElem?_eq_some_iff.mp hb).1
    unfold markDirtyAux
    simp only [bind_run, getBlock_run, hb]
    cases d with
    | true => simp only [if_true]; exact ⟨rfl, rfl⟩
    | false =>
      simp only [Bool.false_eq_true, if_false, Node.parent]
      have hsn := sameNodes_setDirty s i false h p l r hi hb true
      have hT := hsn.linv hinv
      cases p with
      | none =>
        have hw : writeBlock i { dirty := true, node := .internal h none l r } s
            = (.ok (), s.write i { dirty := true, node := .internal h none l r }) := by
          rw [writeBlock_run, if_neg (Nat.not_lt.mpr (Nat.le_of_lt hil))]
        simp only [bind_run, hw, pure_run]
        exact ⟨hsn.k2i, hsn.h2i⟩
      | some q =>
        have hw : writeBlock i { dirty := true, node := .internal h (some q) l r } s
            = (.ok (), s.write i { dirty := true, node := .internal h (some q) l r }) := by
          rw [writeBlock_run, if_neg (Nat.not_lt.mpr (Nat.le_of_lt hil))]
        simp only [bind_run, hw]
        obtain ⟨hqf, dq, qh, qp, ql, qr, hqb, _⟩ := hinv.parent_of hi hb rfl
        have := ih q _ hT (by rw [hsn.free]; exact hqf) (by
          rcases hsn.get q with ⟨a, _⟩ | ⟨d1, d2, n, a, b⟩
          · rw [a] at hqb; cases hqb
          · rw [a] at hqb; injection hqb with hqb; injection hqb with _ hn; subst hn
            exact ⟨_, _, _, _, _, b⟩)
        rw [this.1, this.2]
        exact ⟨hsn.k2i, hsn.h2i⟩

/-- how a successful insert of `(k, h)` changes which keys and hashes the caches know -/
def CacheStep (s s' : Blob) (k : KeyId) (h : Hash) : Prop :=
  (∀ x, mapGet s'.k2i x = none ↔ (x ≠ k ∧ mapGet s.k2i x = none))
  ∧ (∀ x, mapGet s'.h2i x = none ↔ (x ≠ h ∧ mapGet s.h2i x = none))

theorem mapGet_insert_none {κ : Type} [DecidableEq κ] (m : List (κ × Nat)) (k x : κ) (i : Nat) :
    mapGet (mapInsert m k i) x = none ↔ (x ≠ k ∧ mapGet m x = none) := by
  by_cases h : x = k
  · subst h; simp [mapGet_insert_self]
  · rw [mapGet_insert_ne _ _ _ _ h]; simp [h]

theorem mapGet_single {κ : Type} [DecidableEq κ] (m : List (κ × Nat)) (k : κ) (i : Nat)
    (hl : m.length = 1) (hg : mapGet m k = some i) (x : κ) : mapGet m x = none ↔ x ≠ k := by
  match m, hl with
  | [(k', i')], _ =>
    simp only [mapGet] at hg ⊢
    by_cases h1 : k' = k
    · subst h1
      by_cases h2 : k' = x
      · subst h2; simp
      · simp [h2]; exact fun e => h2 e.symm
    · rw [if_neg h1] at hg; cases hg

theorem mapGet_none_iff {κ : Type} [DecidableEq κ] (m : List (κ × Nat)) (x : κ) :
    mapGet m x = none ↔ ∀ e ∈ m, e.1 ≠ x := by
  induction m with
  | nil => simp [mapGet]
  | cons e m ih =>
    obtain ⟨k', i'⟩ := e
    simp only [mapGet, List.mem_cons, forall_eq_or_imp]
    by_cases h : k' = x
    · simp [h]
    · simp [h, ih]

theorem insertSecond_ok' (k : KeyId) (v : ValueId) (h oh : Hash) (ok : KeyId) (ov : ValueId) (ih : Hash)
    (side : Side) (s : Blob) : ∃ a, insertSecond k v h oh ok ov ih side s = (.ok a, secondState k v h oh ok ov ih side) := by
  cases side <;> exact ⟨_, rfl⟩

theorem secondState_k2i (k : KeyId) (v : ValueId) (h oh : Hash) (ok : KeyId) (ov : ValueId) (ih : Hash) (side : Side)
    (x : KeyId) : mapGet (secondState k v h oh ok ov ih side).k2i x = none ↔ (x ≠ k ∧ x ≠ ok) := by
  cases side <;> simp [secondState, mapGet_insert_none, mapGet]

theorem secondState_h2i (k : KeyId) (v : ValueId) (h oh : Hash) (ok : KeyId) (ov : ValueId) (ih : Hash) (side : Side)
    (x : Hash) : mapGet (secondState k v h oh ok ov ih side).h2i x = none ↔ (x ≠ h ∧ x ≠ oh) := by
  cases side <;> simp [secondState, mapGet_insert_none, mapGet]

theorem insertThird_okc {s : Blob} (hinv : LInv s) (k : KeyId) (v : ValueId) (h : Hash) (opi idx : Nat)
    (ih : Hash) (side : Side) (hk : mapGet s.k2i k = none) (hh : mapGet s.h2i h = none)
    (hlen1 : s.k2i.length ≠ 1) {d : Bool} {oh : Hash} {ok : KeyId} {ov : ValueId} (hlive : idx ∉ s.free)
    (hb : s.blocks[idx]? = some { dirty := d, node := .leaf oh (some opi) ok ov })
    (c1 : mapGet s.k2i ok = some idx) (c2 : mapGet s.h2i oh = some idx) :
    ∃ a s', insertThird k v h (some opi) idx ih side s = (.ok a, s') ∧ CacheStep s s' k h := by
  obtain ⟨T, nl, ni, l, r, d', ph, pp, pl, pr, pl', pr', hrun, P, _⟩ :=
    insertThird_post s hinv k v h opi idx ih side hk hh hlen1 hlive hb
  rw [hrun]
  have hTinv := P.linv
  have hopiT := (P.liveOld P.opiLt P.opiFacts.1)
  obtain ⟨_, sT, eT, _⟩ := markLineageDirty_ok opi T hTinv.rangeP hopiT.1
  have hc : sT.k2i = T.k2i ∧ sT.h2i = T.h2i := by
    have := markDirtyAux_caches (T.blocks.length + 1) opi T hTinv hopiT.2 ⟨_, _, _, _, _, P.bOpi⟩
    have e2 : (markLineageDirty opi T).2 = (markDirtyAux (T.blocks.length + 1) opi T).2 := by
      unfold markLineageDirty; simp only [bind_run, M.get]
    rw [eT] at e2
    simp only at e2
    rw [e2]; exact this
  refine ⟨nl, sT, ?_, ?_, ?_⟩
  · show (markLineageDirty opi >>= fun _ => pure nl) T = _
    rw [bind_run, eT]; rfl
  · intro x
    rw [hc.1, P.k2i, mapGet_insert_none, mapGet_insert_none]
    constructor
    · rintro ⟨_, a2, a3⟩; exact ⟨a2, a3⟩
    · rintro ⟨a2, a3⟩
      refine ⟨fun e' => ?_, a2, a3⟩
      rw [e', c1] at a3; cases a3
  · intro x
    rw [hc.2, P.h2i, mapGet_insert_none, mapGet_insert_none]
    constructor
    · rintro ⟨_, a2, a3⟩; exact ⟨a2, a3⟩
    · rintro ⟨a2, a3⟩
      refine ⟨fun e' => ?_, a2, a3⟩
      rw [e', c2] at a3; cases a3

/-- **a validated `insert` at the automatic location succeeds** on a locally well-formed blob; the
result is locally well-formed and the caches know exactly one more key and hash -/
theorem insert_auto_ok {s : Blob} (hinv : LInv s) (k : KeyId) (v : ValueId) (h : Hash)
    (hk : mapGet s.k2i k = none) (hh : mapGet s.h2i h = none) :
    ∃ a s', insert k v h .auto s = (.ok a, s') ∧ LInv s' ∧ CacheStep s s' k h := by
  have hlinv := insert_linv hinv k v h .auto (Or.inl rfl)
  suffices hsuff : ∃ a s', insert k v h .auto s = (.ok a, s') ∧ CacheStep s s' k h by
    obtain ⟨a, s', e, c⟩ := hsuff
    rw [e] at hlinv
    exact ⟨a, s', e, hlinv, c⟩
  unfold insert
  simp only [bind_run, M.get, hk, hh, Option.isSome_none, Bool.false_eq_true, if_false, randomLoc_run]
  by_cases hemp : s.blocks.isEmpty = true
  · rw [if_pos hemp]
    have hs := hinv.empty_of_no_blocks (List.isEmpty_iff.mp hemp)
    subst hs
    refine ⟨0, firstState k v h, rfl, ?_, ?_⟩
    · intro x; simp [firstState, Blob.empty, mapGet_insert_none, mapGet]
    · intro x; simp [firstState, Blob.empty, mapGet_insert_none, mapGet]
  · rw [if_neg hemp]
    have hne : s.blocks ≠ [] := by intro e; rw [e] at hemp; exact hemp rfl
    have h0 : 0 < s.blocks.length := List.length_pos_iff.mpr hne
    obtain ⟨idx, hw⟩ := walk_ok hinv hne (BitSrc.ofKey k)
    have hroot := hinv.root
    simp only [rootOk, List.getElem?_eq_getElem h0] at hroot
    obtain ⟨hlive, d, oh, op, ok, ov, hb⟩ := walk_live hinv _ 0 _ idx h0 hroot.1 hw
    obtain ⟨c1, c2⟩ := hinv.leaf_cached hlive hb
    rw [hw]
    simp only
    unfold insertAtLeaf
    simp only [bind_run, M.get, getNode, getBlock_run, hb, pure_run]
    by_cases hlen1 : s.k2i.length = 1
    · rw [if_pos hlen1]
      obtain ⟨a, e⟩ := insertSecond_ok' k v h oh ok ov
        (match keySide k with | .left => internalHash h oh | .right => internalHash oh h) (keySide k) s
      refine ⟨a, _, e, ?_, ?_⟩
      · intro x
        rw [secondState_k2i, mapGet_single s.k2i ok idx hlen1 c1 x]
      · intro x
        rw [secondState_h2i]
        -- every hash cache entry is the one of the only leaf
        have hall : ∀ e ∈ s.h2i, e.1 = oh := by
          intro e he
          obtain ⟨hef, d0, p0, k0, v0, hbe⟩ := okHash_elim (hinv.hashes e he)
          obtain ⟨ck, _⟩ := hinv.leaf_cached hef hbe
          have hk0 : k0 = ok := by
            have := (mapGet_single s.k2i ok idx hlen1 c1 k0)
            by_cases hk0 : k0 = ok
            · exact hk0
            · rw [this.mpr hk0] at ck; cases ck
          subst hk0
          rw [c1] at ck
          injection ck with ck
          rw [← ck, hb] at hbe
          injection hbe with hbe; injection hbe with _ hn; injection hn with e1 _ _ _
          exact e1.symm
        constructor
        · rintro ⟨a1, a2⟩
          refine ⟨a1, (mapGet_none_iff _ _).mpr (fun e he => ?_)⟩
          rw [hall e he]; exact fun e' => a2 e'.symm
        · rintro ⟨a1, a2⟩
          refine ⟨a1, fun e' => ?_⟩
          rw [e', c2] at a2; cases a2
    · rw [if_neg hlen1]
      obtain ⟨hnone, _⟩ := hinv.leaf_parent hlive hb
      cases op with
      | none => exact absurd (hnone rfl) hlen1
      | some opi =>
        exact insertThird_okc hinv k v h opi idx _ (keySide k) hk hh hlen1 hlive hb c1 c2

end ChiaModel.Blob
