import ChiaModel.Lemmas.CondInv
/-
C06, first half: the strictness flags (NO_UNKNOWN_CONDS, STRICT_ARGS_COUNT, LIMIT_SPENDS) only
restrict.  The tool is the relation `Le x y` on `Except` computations ("if `x` accepts with result
`a` then `y` accepts with the same result"), which is a congruence for `>>=`, `if` and `match`.
-/
namespace ChiaModel.Cond

/-- `x` accepting with result `a` implies `y` accepting with the same result -/
structure Le {α : Type} (x y : R α) : Prop where
  imp : ∀ a, x = .ok a → y = .ok a

theorem Le.refl {α : Type} (x : R α) : Le x x := ⟨fun _ h => h⟩

theorem Le.of_eq {α : Type} {x y : R α} (h : x = y) : Le x y := ⟨fun _ hx => h ▸ hx⟩

theorem Le.error {α : Type} (e : Err) (y : R α) : Le (Except.error e) y := ⟨fun _ h => by cases h⟩

theorem Le.trans {α : Type} {x y z : R α} (h1 : Le x y) (h2 : Le y z) : Le x z := ⟨fun a h => h2.imp a (h1.imp a h)⟩

theorem Le.bind {α β : Type} {x y : R α} {f g : α → R β} (h : Le x y) (hf : ∀ a, Le (f a) (g a)) :
    Le (x >>= f) (y >>= g) := by
  refine ⟨fun b hb => ?_⟩
  obtain ⟨a, ha, hfa⟩ := bind_ok hb
  rw [h.imp a ha]
  exact (hf a).imp b hfa

/-- a failing-or-unit prefix can be dropped -/
theorem Le.drop {α β : Type} (x : R α) {f : α → R β} {z : R β} (hf : ∀ a, Le (f a) z) : Le (x >>= f) z := by
  refine ⟨fun b hb => ?_⟩
  obtain ⟨a, _, hfa⟩ := bind_ok hb
  exact (hf a).imp b hfa

theorem Le.ite {α : Type} {c : Prop} [Decidable c] {x y x' y' : R α} (h1 : Le x y) (h2 : Le x' y') :
    Le (if c then x else x') (if c then y else y') := by
  by_cases h : c
  · rw [if_pos h, if_pos h]; exact h1
  · rw [if_neg h, if_neg h]; exact h2

/-- a guard that is on in the stricter run and possibly off in the laxer run -/
theorem Le.guard {α : Type} {s1 s2 : Bool} (h : s2 = true → s1 = true) {A1 A2 B1 B2 : R α}
    (hA : Le A1 A2) (hAB : Le A1 B2) (hB : Le B1 B2) :
    Le (if s1 = true then A1 else B1) (if s2 = true then A2 else B2) := by
  cases s2 with
  | true => rw [h rfl]; simpa using hA
  | false =>
    cases s1 with
    | true => simpa using hAB
    | false => simpa using hB

/-- a rejection that is on in the stricter run and possibly off in the laxer run -/
theorem Le.rejectGuard {α : Type} {s1 s2 : Bool} (h : s2 = true → s1 = true) (e : Err) {B1 B2 : R α}
    (hB : Le B1 B2) :
    Le (if s1 = true then Except.error e else B1) (if s2 = true then Except.error e else B2) :=
  Le.guard h (Le.refl _) (Le.error _ _) hB

/-- flag word `f1` is at least as strict as `f2`, as far as `parse_args` is concerned -/
structure ArgsStricter (f1 f2 : Nat) : Prop where
  strict : strict f2 = true → strict f1 = true
  nu : hasFlag f2 Gen.flagNoUnknownConds = true → hasFlag f1 Gen.flagNoUnknownConds = true

theorem maybeCheckArgsTerminator_mono {f1 f2 : Nat} (h : ArgsStricter f1 f2) (c : Sexp) :
    Le (maybeCheckArgsTerminator c f1) (maybeCheckArgsTerminator c f2) := by
  unfold maybeCheckArgsTerminator
  refine Le.guard h.strict (Le.refl _) ⟨?_⟩ (Le.refl _)
  intro u _; cases u; rfl

theorem lockArg_mono {f1 f2 : Nat} (h : ArgsStricter f1 f2) (c : Sexp) (w : Nat) :
    Le (lockArg c f1 w) (lockArg c f2 w) := by
  unfold lockArg
  exact Le.bind (maybeCheckArgsTerminator_mono h c) (fun _ => Le.refl _)

/-- `do (if strict f then checkNil x); k` succeeds without the guard with the same result -/
theorem strictCheck_mono {α : Type} {f1 f2 : Nat} (h : ArgsStricter f1 f2) (x : R Unit) (k : Unit → R α) :
    Le (if strict f1 = true then x >>= k else k ()) (if strict f2 = true then x >>= k else k ()) := by
  apply Le.guard h.strict (Le.refl _) _ (Le.refl _)
  exact Le.drop x (fun u => by cases u; exact Le.refl _)

/-- **`parse_args` only restricts under STRICT_ARGS_COUNT / NO_UNKNOWN_CONDS**: whatever the stricter
flag word parses, the laxer flag word parses to the same condition. -/
theorem parseArgs_mono {f1 f2 : Nat} (h : ArgsStricter f1 f2) (c : Sexp) (op : Nat) :
    Le (parseArgs c op f1) (parseArgs c op f2) := by
  unfold parseArgs
  iterate 29 (refine Le.ite ?_ ?_; rotate_left)
  all_goals try (with_reducible exact Le.refl _)
  all_goals try (
    repeat' first
      | with_reducible exact Le.refl _
      | with_reducible exact maybeCheckArgsTerminator_mono h _
      | with_reducible exact lockArg_mono h _ _
      | with_reducible refine Le.rejectGuard h.nu _ ?_
      | with_reducible refine Le.bind ?_ ?_
      | (with_reducible refine Le.guard h.strict (Le.refl _) ?_ (Le.refl _)
         repeat (with_reducible refine Le.drop _ ?_; intro _)
         with_reducible exact Le.refl _)
      | (intro (x : SpendIdKey × Sexp); obtain ⟨_, _⟩ := x; dsimp only)
      | intro _ )
  -- CREATE_COIN
  dsimp only
  have key : ∀ (ph : Bytes) (cc : Sexp) (amount : Nat),
      Le (do
        let c ← rest cc
        match c with
          | .pair params r => do
            maybeCheckArgsTerminator c f1
            match params with
              | .pair (.atom h) r =>
                if List.length h ≤ 32 then
                  pure (Cond.createCoin ph amount (if List.isEmpty h = true then none else some h))
                else pure (Cond.createCoin ph amount none)
              | x => pure (Cond.createCoin ph amount none)
          | .atom b =>
            if strict f1 = true then do
              let __r ← checkNil c
              pure (Cond.createCoin ph amount none)
            else pure (Cond.createCoin ph amount none))
         (do
        let c ← rest cc
        match c with
          | .pair params r => do
            maybeCheckArgsTerminator c f2
            match params with
              | .pair (.atom h) r =>
                if List.length h ≤ 32 then
                  pure (Cond.createCoin ph amount (if List.isEmpty h = true then none else some h))
                else pure (Cond.createCoin ph amount none)
              | x => pure (Cond.createCoin ph amount none)
          | .atom b =>
            if strict f2 = true then do
              let __r ← checkNil c
              pure (Cond.createCoin ph amount none)
            else pure (Cond.createCoin ph amount none)) := by
    intro ph cc amount
    refine Le.bind (Le.refl _) ?_
    intro c'
    cases c' with
    | pair params r => exact Le.bind (maybeCheckArgsTerminator_mono h _) (fun _ => Le.refl _)
    | atom b =>
      refine Le.guard h.strict (Le.refl _) ?_ (Le.refl _)
      exact Le.drop _ (fun _ => Le.refl _)
  generalize sanitizeUint _ 8 = sv
  cases sv <;> exact Le.bind (Le.refl _) (fun amount => key _ _ amount)

/-! ## the environment -/

/-- Environment `e1` is at least as strict as `e2` and otherwise reads the same: same visitor, same
key validity, same COST_CONDITIONS and DONT_VALIDATE_SIGNATURE bits, and each of the three
strictness flags that is set in `e2` is set in `e1`. -/
structure StricterThan (e1 e2 : Env) : Prop where
  mempool : e1.mempool = e2.mempool
  pkOk : e1.pkOk = e2.pkOk
  cc : hasFlag e1.flags Gen.flagCostConditions = hasFlag e2.flags Gen.flagCostConditions
  dvs : hasFlag e1.flags Gen.flagDontValidateSignature = hasFlag e2.flags Gen.flagDontValidateSignature
  nu : hasFlag e2.flags Gen.flagNoUnknownConds = true → hasFlag e1.flags Gen.flagNoUnknownConds = true
  sac : hasFlag e2.flags Gen.flagStrictArgsCount = true → hasFlag e1.flags Gen.flagStrictArgsCount = true
  ls : hasFlag e2.flags Gen.flagLimitSpends = true → hasFlag e1.flags Gen.flagLimitSpends = true

theorem StricterThan.refl (e : Env) : StricterThan e e := ⟨rfl, rfl, rfl, rfl, id, id, id⟩

theorem StricterThan.args {e1 e2 : Env} (h : StricterThan e1 e2) : ArgsStricter e1.flags e2.flags :=
  ⟨h.sac, h.nu⟩

variable {e1 e2 : Env}

/-- `applyCond` reads the environment only through `pkOk`, COST_CONDITIONS and DONT_VALIDATE_SIGNATURE -/
theorem applyCond_env (h : StricterThan e1 e2) (s : CSt) (c : Cond) : applyCond e1 s c = applyCond e2 s c := by
  cases c <;> simp only [applyCond, decrement, toKey, h.pkOk, h.cc, h.dvs]

/-- the visitor reads the environment only through `mempool` -/
theorem visitCondition_env (h : StricterThan e1 e2) (n f : Nat) (c : Cond) :
    visitCondition e1 n f c = visitCondition e2 n f c := by
  unfold visitCondition; rw [h.mempool]

theorem preCharge_env (h : StricterThan e1 e2) (op : Nat) : preCharge e1.flags op = preCharge e2.flags op := by
  simp only [preCharge, h.cc]

theorem spendCharge_env (h : StricterThan e1 e2) : spendCharge e1.flags = spendCharge e2.flags := by
  simp only [spendCharge, h.cc]

theorem newSpendVisit_env (h : StricterThan e1 e2) (s : CSt) : newSpendVisit e1 s = newSpendVisit e2 s := by
  simp only [newSpendVisit, h.mempool]

theorem finishSpend_env (h : StricterThan e1 e2) (s : CSt) : finishSpend e1 s = finishSpend e2 s := by
  unfold finishSpend postSpend; rw [h.mempool]

theorem postProcess_env (h : StricterThan e1 e2) (ret : Bundle) (st : PState) :
    postProcess e1 ret st = postProcess e2 ret st := by
  unfold postProcess; rw [h.mempool]

theorem finishBundle_env (h : StricterThan e1 e2) (sigOk : List (Bytes × Bytes) → Bool) (ret : Bundle) (st : PState) :
    finishBundle e1 sigOk ret st = finishBundle e2 sigOk ret st := by
  unfold finishBundle
  rw [postProcess_env h, h.dvs]

theorem spendLimit_le (h : StricterThan e1 e2) : spendLimit e1.flags ≤ spendLimit e2.flags := by
  unfold spendLimit
  cases h2 : hasFlag e2.flags Gen.flagLimitSpends with
  | true => rw [h.ls h2]; exact Nat.le_refl _
  | false =>
    cases hasFlag e1.flags Gen.flagLimitSpends with
    | true => simp [MAX_SPENDS_PER_BLOCK]
    | false => exact Nat.le_refl _

theorem pureCond_mono (h : StricterThan e1 e2) (s : CSt) (c : Sexp) (op : Nat) :
    Le (pureCond e1 s c op) (pureCond e2 s c op) := by
  unfold pureCond
  refine Le.bind (Le.refl _) (fun args => Le.bind (parseArgs_mono h.args _ _) (fun cva => ?_))
  dsimp only
  rw [visitCondition_env h, applyCond_env h]
  exact Le.refl _

theorem stepCond_mono (h : StricterThan e1 e2) (s : CSt) (m : Nat) (c : Sexp) :
    Le (stepCond e1 s m c) (stepCond e2 s m c) := by
  unfold stepCond
  refine Le.bind (Le.refl _) (fun opn => ?_)
  cases parseOpcode opn with
  | none =>
    dsimp only
    rw [h.cc]
    exact Le.rejectGuard h.nu _ (Le.refl _)
  | some op =>
    dsimp only
    rw [preCharge_env h]
    exact Le.bind (Le.refl _) (fun ⟨s, m⟩ => Le.bind (pureCond_mono h _ _ _) (fun _ => Le.refl _))

theorem condLoop_mono (h : StricterThan e1 e2) : ∀ (t : Sexp) (s : CSt) (m : Nat),
    Le (condLoop e1 t s m) (condLoop e2 t s m) := by
  intro t
  induction t with
  | atom b => intro s m; cases b <;> simp only [condLoop] <;> exact Le.refl _
  | pair c nxt _ ih =>
    intro s m
    simp only [condLoop]
    exact Le.bind (stepCond_mono h _ _ _) (fun ⟨s, m⟩ => ih s m)

theorem processSingleSpend_mono (h : StricterThan e1 e2) (ret : Bundle) (st : PState) (parent ph amount conds : Sexp)
    (cc m : Nat) :
    Le (processSingleSpend e1 ret st parent ph amount conds cc m)
       (processSingleSpend e2 ret st parent ph amount conds cc m) := by
  unfold processSingleSpend
  cases spendHeader ret st parent ph amount cc with
  | error e => exact Le.refl _
  | ok s0 =>
    dsimp only
    rw [spendCharge_env h]
    refine Le.bind (Le.refl _) (fun ⟨s0, m⟩ => ?_)
    dsimp only
    rw [newSpendVisit_env h]
    refine Le.bind (condLoop_mono h _ _ _) (fun ⟨s, m⟩ => ?_)
    dsimp only
    rw [finishSpend_env h]
    exact Le.refl _

/-- the spend loop accepts identically under a laxer environment and any larger spend allowance -/
theorem spendLoop_mono (h : StricterThan e1 e2) (cc : Nat) : ∀ (t : Sexp) (ret : Bundle) (st : PState) (n n' m : Nat),
    n ≤ n' → Le (spendLoop e1 cc t ret st n m) (spendLoop e2 cc t ret st n' m) := by
  intro t
  induction t with
  | atom b => intro ret st n n' m _; cases b <;> simp only [spendLoop] <;> exact Le.refl _
  | pair sp nxt _ ih =>
    intro ret st n n' m hn
    simp only [spendLoop]
    by_cases h0 : n = 0
    · rw [if_pos h0]; exact Le.error _ _
    · rw [if_neg h0, if_neg (by omega : ¬ n' = 0)]
      cases parseSingleSpend sp with
      | error e => exact Le.refl _
      | ok q =>
        obtain ⟨parent, ph, amount, conds⟩ := q
        dsimp only
        exact Le.bind (processSingleSpend_mono h _ _ _ _ _ _ _ _)
          (fun ⟨⟨ret, st⟩, m⟩ => ih _ _ _ _ _ (by omega))

theorem parseSpends_mono (h : StricterThan e1 e2) (sigOk : List (Bytes × Bytes) → Bool) (t : Sexp) (L cc : Nat) :
    Le (parseSpends e1 sigOk t L cc) (parseSpends e2 sigOk t L cc) := by
  unfold parseSpends
  cases first t with
  | error e => exact Le.refl _
  | ok iter =>
    dsimp only
    cases hl : spendLoop e1 cc iter {} {} (spendLimit e1.flags) L with
    | error e => exact Le.error _ _
    | ok p =>
      obtain ⟨⟨ret, st⟩, left⟩ := p
      rw [(spendLoop_mono h cc iter {} {} _ _ L (spendLimit_le h)).imp _ hl]
      dsimp only
      rw [finishBundle_env h]
      exact Le.refl _

/-! ## flag words -/

theorem hasFlag_or_disjoint (a S f : Nat) (h : S &&& f = 0) : hasFlag (a ||| S) f = hasFlag a f := by
  unfold hasFlag; rw [Nat.and_or_distrib_right, h, Nat.or_zero]

theorem hasFlag_or_mono (a S f : Nat) (h : hasFlag a f = true) : hasFlag (a ||| S) f = true := by
  unfold hasFlag at h ⊢
  rw [Nat.and_or_distrib_right]
  simp only [ne_eq, decide_eq_true_eq, Nat.or_eq_zero_iff, not_and] at h ⊢
  exact fun h0 => absurd h0 h

/-- or-ing extra bits `S` into the flag word gives an environment at least as strict, provided `S` does
not touch COST_CONDITIONS or DONT_VALIDATE_SIGNATURE -/
theorem stricterThan_or (env : Env) (S : Nat) (h1 : S &&& Gen.flagCostConditions = 0)
    (h2 : S &&& Gen.flagDontValidateSignature = 0) :
    StricterThan { env with flags := env.flags ||| S } env :=
  ⟨rfl, rfl, hasFlag_or_disjoint _ _ _ h1, hasFlag_or_disjoint _ _ _ h2,
   hasFlag_or_mono _ _ _, hasFlag_or_mono _ _ _, hasFlag_or_mono _ _ _⟩

/-- the eight bitwise-or combinations of the three strictness flag constants -/
def strictMask (nu sac ls : Bool) : Nat :=
  (if nu then Gen.flagNoUnknownConds else 0) ||| (if sac then Gen.flagStrictArgsCount else 0)
    ||| (if ls then Gen.flagLimitSpends else 0)

theorem strictMask_disjoint (nu sac ls : Bool) :
    strictMask nu sac ls &&& Gen.flagCostConditions = 0 ∧ strictMask nu sac ls &&& Gen.flagDontValidateSignature = 0 := by
  cases nu <;> cases sac <;> cases ls <;> decide

end ChiaModel.Cond
