import ChiaModel.Model.JsonDict
import ChiaModel.Lemmas.StreamableMain
/-!
Lemmas for C20 (`Props/C20.lean`): hex strings, the list combinators, dict lookup, leaf round trips.
-/
namespace ChiaModel.JsonDict
open ChiaModel ChiaModel.Streamable

/-! ## hex -/

theorem hexValB_hexDigitB : ∀ d, d < 16 → hexValB (hexDigitB d) = some d := by decide

theorem unhexB_hexB (c : Bytes) (h : c.all (· < 256) = true) : unhexB (hexB c) = some c := by
  induction c with
  | nil => rfl
  | cons x r ih =>
    simp only [List.all_cons, Bool.and_eq_true, decide_eq_true_eq] at h
    simp only [hexB, unhexB, hexValB_hexDigitB (x / 16 % 16) (Nat.mod_lt _ (by decide)),
      hexValB_hexDigitB (x % 16) (Nat.mod_lt _ (by decide)), ih h.2]
    congr 2
    omega

/-- an accepted hex string has two digits per byte … -/
theorem unhexB_length : ∀ (h c : Bytes), unhexB h = some c → h.length = 2 * c.length
  | [], c, hh => by simp [unhexB] at hh; subst hh; rfl
  | [_], c, hh => by simp [unhexB] at hh
  | a :: b :: rest, c, hh => by
    simp only [unhexB] at hh
    split at hh
    · rename_i x y r hx hy hr
      injection hh with hh; subst hh
      have := unhexB_length rest r hr
      simp [this]; omega
    · simp at hh

/-- … and consists of hex digits only -/
theorem unhexB_digits : ∀ (h c : Bytes), unhexB h = some c → ∀ x ∈ h, hexValB x ≠ none
  | [], _, _ => by simp
  | [_], c, hh => by simp [unhexB] at hh
  | a :: b :: rest, c, hh => by
    simp only [unhexB] at hh
    split at hh
    · rename_i x y r hx hy hr
      intro z hz
      simp only [List.mem_cons] at hz
      rcases hz with rfl | rfl | hz
      · simp [hx]
      · simp [hy]
      · exact unhexB_digits rest r hr z hz
    · simp at hh

theorem strip0x_pfx (h : Bytes) : strip0x (pfx0x ++ h) = some h := rfl

theorem strip0x_some {s h : Bytes} : strip0x s = some h ↔ s = pfx0x ++ h := by
  constructor
  · intro hs
    unfold strip0x at hs
    split at hs
    · injection hs with hs; subst hs; rfl
    · simp at hs
  · rintro rfl; rfl

/-! ## round trip of one conversion pair -/

/-- `f` then `g` is the identity on the values accepted by `w` whose byte strings consist of bytes -/
def RT (f : ToJ) (g : FromJ) (w : Wf) : Prop :=
  ∀ v, w v = true → bytesOK v = true → ∃ j, f v = some j ∧ g j = .ok v

/-- the conversion never produces `null` -/
def NonNull (f : ToJ) : Prop := ∀ v j, f v = some j → j ≠ .null

theorem rt_uint (n : Nat) : RT toUint (fromUint n) (wfUint n) := by
  intro v hv _
  obtain ⟨x, rfl, hx⟩ := wfUint_iff.mp hv
  refine ⟨.int x, rfl, ?_⟩
  have : (0 : Int) ≤ (x : Int) ∧ (x : Int) < ((256 ^ n : Nat) : Int) := ⟨Int.natCast_nonneg x, Int.ofNat_lt.mpr hx⟩
  simp only [fromUint, pyIndex, this, and_self, if_true, Int.toNat_natCast]

theorem rt_sint (n : Nat) : RT toSint (fromSint n) (wfSint n) := by
  intro v hv _
  obtain ⟨x, rfl, hx⟩ := wfSint_iff.mp hv
  exact ⟨.int x, rfl, by simp [fromSint, pyIndex, hx]⟩

theorem rt_bool : RT toBool fromBool wfBool := by
  intro v hv _
  cases v <;> simp [wfBool] at hv
  exact ⟨_, rfl, rfl⟩

theorem rt_str : RT toStr fromStr wfStr := by
  intro v hv _
  cases v <;> simp [wfStr] at hv
  exact ⟨_, rfl, rfl⟩

theorem hexOfBytesJ_toBytesJ (c : Bytes) (hc : c.all (· < 256) = true) :
    hexOfBytesJ (.str (if c.isEmpty then [] else pfx0x ++ hexB c)) = .ok c := by
  cases c with
  | nil => rfl
  | cons x r =>
    have h1 : (pfx0x ++ hexB (x :: r)).isEmpty = false := rfl
    simp only [List.isEmpty_cons, Bool.false_eq_true, if_false, hexOfBytesJ, h1, strip0x_pfx, unhexB_hexB _ hc]

theorem rt_bytes : RT toBytesJ fromBytesJ wfBytes := by
  intro v hv hb
  cases v <;> simp [wfBytes] at hv
  rename_i c
  simp only [bytesOK] at hb
  exact ⟨_, rfl, by simp only [fromBytesJ, hexOfBytesJ_toBytesJ c hb]⟩

theorem rt_program (O : Oracles) : RT toBytesJ (fromProgram O) (wfProgram O false) := by
  intro v hv hb
  cases v <;> simp only [wfProgram, Bool.false_eq_true] at hv
  rename_i c
  simp only [bytesOK] at hb
  exact ⟨_, rfl, by simp only [fromProgram, hexOfBytesJ_toBytesJ c hb, hv, if_true]⟩

theorem rt_bytesN (n : Nat) : RT toHexJ (fromBytesN n) (wfBytesN n) := by
  intro v hv hb
  obtain ⟨c, rfl, hc⟩ := wfBytesN_enc hv
  simp only [bytesOK] at hb
  exact ⟨_, rfl, by simp only [fromBytesN, strip0x_pfx, unhexB_hexB c hb, hc, if_true]⟩

theorem rt_bls (n : Nat) (valid : Bytes → Bool) : RT toHexJ (fromBls n valid) (wfOpaque n valid) := by
  intro v hv hb
  obtain ⟨c, rfl, hc, hval⟩ := wfOpaque_iff.mp hv
  simp only [bytesOK] at hb
  exact ⟨_, rfl, by simp only [fromBls, parseHexString, strip0x_pfx, unhexB_hexB c hb, hc, if_true, hval]⟩

theorem rt_enum (vals : List Nat) (h : vals.all (· < 256) = true) : RT toEnum (fromEnum vals) (wfEnum vals) := by
  intro v hv hb
  cases v <;> simp only [wfEnum, Bool.false_eq_true] at hv
  rename_i x
  refine ⟨.int x, rfl, ?_⟩
  have hx : x < 256 := by
    have := List.all_eq_true.mp h x (by simpa using hv)
    simpa using this
  have : (0 : Int) ≤ (x : Int) ∧ (x : Int) < ((256 ^ 1 : Nat) : Int) := ⟨Int.natCast_nonneg x, Int.ofNat_lt.mpr (by simpa using hx)⟩
  simp only [fromEnum, fromUint, pyIndex, this, and_self, if_true, Int.toNat_natCast, hv]

theorem nonNull_toUint : NonNull toUint := by intro v j h; cases v <;> simp [toUint] at h; subst h; simp
theorem nonNull_toSint : NonNull toSint := by intro v j h; cases v <;> simp [toSint] at h; subst h; simp
theorem nonNull_toBool : NonNull toBool := by intro v j h; cases v <;> simp [toBool] at h; subst h; simp
theorem nonNull_toStr : NonNull toStr := by intro v j h; cases v <;> simp [toStr] at h; subst h; simp
theorem nonNull_toBytesJ : NonNull toBytesJ := by intro v j h; cases v <;> simp [toBytesJ] at h; subst h; simp
theorem nonNull_toHexJ : NonNull toHexJ := by intro v j h; cases v <;> simp [toHexJ] at h; subst h; simp
theorem nonNull_toEnum : NonNull toEnum := by intro v j h; cases v <;> simp [toEnum] at h; subst h; simp
theorem nonNull_toU8Vec : NonNull toU8Vec := by intro v j h; cases v <;> simp [toU8Vec] at h; subst h; simp
theorem nonNull_toVec (f : ToJ) : NonNull (toVec f) := by
  intro v j h
  cases v <;> simp [toVec] at h
  obtain ⟨a, _, rfl⟩ := h
  simp
theorem nonNull_toPos : NonNull toPos := by
  intro v j h
  cases v <;> simp [toPos] at h
  obtain ⟨a, _, rfl⟩ := h
  simp

/-! ## combinators -/

theorem rt_option {f : ToJ} {g : FromJ} {w : Wf} (h : RT f g w) (hn : NonNull f) :
    RT (toOption f) (fromOption g) (wfOption w) := by
  intro v hv hb
  rcases wfOption_iff.mp hv with rfl | ⟨x, rfl, hx⟩
  · exact ⟨.null, rfl, rfl⟩
  · simp only [bytesOK] at hb
    obtain ⟨j, hj, hg⟩ := h x hx hb
    refine ⟨j, hj, ?_⟩
    have := hn x j hj
    cases j <;> first | exact absurd rfl this | simp only [fromOption, hg]

theorem bytesOKL_all {l : List V} : bytesOKL l = true ↔ ∀ v ∈ l, bytesOK v = true := by
  induction l with
  | nil => simp [bytesOKL]
  | cons x r ih => simp [bytesOKL, ih]

theorem all_rt {f : ToJ} {g : FromJ} {w : Wf} (h : RT f g w) :
    ∀ l : List V, l.all w = true → bytesOKL l = true → ∃ js, allToJ f l = some js ∧ js.length = l.length ∧ allFromJ g js = .ok l
  | [], _, _ => ⟨[], rfl, rfl, rfl⟩
  | v :: vs, hw, hb => by
    simp only [List.all_cons, Bool.and_eq_true] at hw
    simp only [bytesOKL, Bool.and_eq_true] at hb
    obtain ⟨j, hj, hg⟩ := h v hw.1 hb.1
    obtain ⟨js, hjs, hlen, hgs⟩ := all_rt h vs hw.2 hb.2
    exact ⟨j :: js, by simp only [allToJ, hj, hjs], by simp [hlen], by simp only [allFromJ, hg, hgs]⟩

theorem rt_vec {f : ToJ} {g : FromJ} {w : Wf} (h : RT f g w) : RT (toVec f) (fromVec g) (wfVec w) := by
  intro v hv hb
  obtain ⟨l, rfl, _, hall⟩ := wfVec_iff.mp hv
  simp only [bytesOK] at hb
  obtain ⟨js, hjs, _, hgs⟩ := all_rt h l hall hb
  exact ⟨.list js, by simp only [toVec, hjs, Option.map_some], by simp only [fromVec, iterJ, hgs]⟩

theorem rt_array (n : Nat) {f : ToJ} {g : FromJ} {w : Wf} (h : RT f g w) : RT (toVec f) (fromArray n g) (wfArray n w) := by
  intro v hv hb
  obtain ⟨l, rfl, hn, hall⟩ := wfArray_iff.mp hv
  simp only [bytesOK] at hb
  obtain ⟨js, hjs, hlen, hgs⟩ := all_rt h l hall hb
  exact ⟨.list js, by simp only [toVec, hjs, Option.map_some],
    by simp only [fromArray, fixedSeq, hlen, hn, if_true, hgs]⟩

theorem map_nOf (c : List Nat) : (c.map V.n).map nOf = c := by
  induction c with
  | nil => rfl
  | cons x r ih => simp only [List.map_cons, nOf, ih]

theorem allFromJ_u8 : ∀ c : Bytes, c.all (· < 256) = true →
    allFromJ (fromUint 1) (c.map fun x => J.int (Int.ofNat x)) = .ok (c.map V.n)
  | [], _ => rfl
  | x :: r, h => by
    simp only [List.all_cons, Bool.and_eq_true, decide_eq_true_eq] at h
    have h1 : (0 : Int) ≤ Int.ofNat x ∧ Int.ofNat x < ((256 ^ 1 : Nat) : Int) :=
      ⟨Int.natCast_nonneg x, Int.ofNat_lt.mpr (by simpa using h.1)⟩
    have ih := allFromJ_u8 r h.2
    simp only [List.map_cons, allFromJ, fromUint, pyIndex, h1, and_self, if_true, ih]
    rfl

theorem rt_u8vec : RT toU8Vec fromU8Vec wfBytes := by
  intro v hv hb
  cases v <;> simp [wfBytes] at hv
  rename_i c
  simp only [bytesOK] at hb
  exact ⟨_, rfl, by simp only [fromU8Vec, iterJ, allFromJ_u8 c hb, map_nOf]⟩

/-! ## dict lookup -/

theorem lookup_of_nodup : ∀ (kvs : List (String × J)), (kvs.map Prod.fst).Nodup →
    ∀ kj ∈ kvs, kvs.lookup kj.1 = some kj.2
  | [], _, kj, h => by simp at h
  | (k, j) :: r, hn, kj, h => by
    simp only [List.map_cons, List.nodup_cons] at hn
    simp only [List.mem_cons] at h
    rcases h with rfl | h
    · simp [List.lookup]
    · have hne : kj.1 ≠ k := by
        intro he
        exact hn.1 (he ▸ List.mem_map_of_mem (f := Prod.fst) h)
      have : (kj.1 == k) = false := by simpa using hne
      simp only [List.lookup, this]
      exact lookup_of_nodup r hn.2 kj h

end ChiaModel.JsonDict
