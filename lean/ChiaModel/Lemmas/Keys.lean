import ChiaModel.Model.Keys
import ChiaModel.Lemmas.Ints
import ChiaModel.Lemmas.BlsCache
/-
Helper lemmas for C16 (Props/C16.lean): `be`/`beVal` inverse, SHA-256 output shape, padding of
minimal big-endian strings, truncating vs. Euclidean remainder.
-/
namespace ChiaModel.Keys
open ChiaModel

/-! ## `be` and `beVal` are inverse on `n`-byte strings -/

theorem be_add_mul_pow (n a w : Nat) : be n (a * 256 ^ n + w) = be n w := by
  simp only [be]
  apply List.map_congr_left
  intro i hi
  simp at hi
  have h1 : 256 ^ n = 256 ^ i * (256 * 256 ^ (n - i - 1)) := by
    rw [← Nat.pow_succ', ← Nat.pow_add]; congr 1; omega
  have h2 : a * 256 ^ n = 256 ^ i * (256 * (a * 256 ^ (n - i - 1))) := by
    rw [h1, Nat.mul_left_comm a, Nat.mul_left_comm a]
  rw [h2, Nat.mul_add_div (Nat.pow_pos (by decide)), Nat.mul_add_mod]

theorem be_beVal (b : Bytes) (hb : isBytes b) : be b.length (beVal b) = b := by
  induction b with
  | nil => simp
  | cons x t ih =>
    have hx : x < 256 := hb x (by simp)
    have ht : isBytes t := fun y hy => hb y (by simp [hy])
    have hlt := beVal_lt t ht
    rw [List.length_cons, be_succ, beVal_cons, be_add_mul_pow, ih ht]
    congr 1
    rw [Nat.mul_comm, Nat.mul_add_div (Nat.pow_pos (by decide)), Nat.div_eq_of_lt hlt, Nat.add_zero,
      Nat.mod_eq_of_lt hx]

theorem be_beVal' (n : Nat) (b : Bytes) (hl : b.length = n) (hb : isBytes b) : be n (beVal b) = b := by
  subst hl; exact be_beVal b hb

theorem isBytes_reverse {b : Bytes} (hb : isBytes b) : isBytes b.reverse :=
  fun x hx => hb x (List.mem_reverse.mp hx)

theorem isBytes_append {a b : Bytes} (ha : isBytes a) (hb : isBytes b) : isBytes (a ++ b) := by
  intro x hx
  rcases List.mem_append.mp hx with h | h
  · exact ha x h
  · exact hb x h

/-! ## SHA-256 output: 32 bytes -/

theorem sha256_length (m : Bytes) : (sha256 m).length = 32 := by
  simp [sha256, Sha256.sha256, Sha256.digest, be_length]

theorem sha256_isBytes (m : Bytes) : isBytes (sha256 m) := by
  simp only [sha256, Sha256.sha256, Sha256.digest]
  repeat' apply isBytes_append
  all_goals exact be_isBytes _ _

/-! ## all-zero strings -/

theorem isAllZero_eq_replicate {b : Bytes} (h : isAllZero b = true) : b = List.replicate b.length 0 := by
  induction b with
  | nil => rfl
  | cons x t ih =>
    simp only [isAllZero, List.all_cons, Bool.and_eq_true, beq_iff_eq] at h
    have := ih (by simpa [isAllZero] using h.2)
    rw [List.length_cons, List.replicate_succ, h.1, ← this]

theorem isAllZero_replicate (n : Nat) : isAllZero (List.replicate n 0) = true := by
  simp [isAllZero]

theorem beVal_replicate_zero (n : Nat) : beVal (List.replicate n 0) = 0 := by
  induction n with
  | zero => rfl
  | succ n ih => rw [List.replicate_succ, beVal_cons, ih]; simp

theorem beVal_of_isAllZero {b : Bytes} (h : isAllZero b = true) : beVal b = 0 := by
  rw [isAllZero_eq_replicate h, beVal_replicate_zero]

theorem be_zero_val (n : Nat) : be n 0 = List.replicate n 0 := by
  induction n with
  | zero => simp
  | succ n ih => rw [be_succ, ih, List.replicate_succ]; simp

/-! ## left-padding a minimal big-endian string restores the fixed-width string -/

theorem dropWhile_length_le (l : Bytes) : (l.dropWhile (fun x => x == 0)).length ≤ l.length := by
  induction l with
  | nil => simp
  | cons x t ih =>
    simp only [List.dropWhile_cons]
    split
    · simp only [List.length_cons]; omega
    · simp

theorem pad_dropWhile (l : Bytes) :
    List.replicate (l.length - (l.dropWhile (fun x => x == 0)).length) 0 ++ l.dropWhile (fun x => x == 0) = l := by
  induction l with
  | nil => simp
  | cons x t ih =>
    simp only [List.dropWhile_cons]
    split
    · rename_i hx
      have hx0 : x = 0 := by simpa using hx
      have hle := dropWhile_length_le t
      have : (x :: t).length - (t.dropWhile (fun x => x == 0)).length
          = (t.length - (t.dropWhile (fun x => x == 0)).length) + 1 := by
        simp only [List.length_cons]; omega
      rw [this, List.replicate_succ, List.cons_append, ih, hx0]
    · simp

/-! ## truncating remainder, as `((v % r) + r) % r` uses it, is the Euclidean remainder -/

theorem tmod_add_tmod (v R : Int) (hR : 0 < R) : ((v.tmod R) + R).tmod R = v % R := by
  have h1 : -R < v.tmod R := Int.lt_tmod_of_pos v hR
  have hnn : 0 ≤ v.tmod R + R := by omega
  rw [Int.tmod_eq_emod_of_nonneg hnn, Int.add_emod_right]
  rw [Int.tmod_eq_emod]
  split
  · simp
  · have : ((R.natAbs : Nat) : Int) = R := Int.natAbs_of_nonneg (Int.le_of_lt hR)
    rw [this, Int.sub_emod_right, Int.emod_emod]

/-! ## modular arithmetic of the scalar model -/

theorem add_mod_mod (a s m : Nat) : ((a % m + s) % m) % m = ((a * 1) % m + s % m) % m := by
  rw [Nat.mul_one, Nat.mod_mod, Nat.add_mod (a % m) s m, Nat.mod_mod]

theorem mod_add_hom (a b m : Nat) : ((a + b) % m) % m = (a % m + b % m) % m := by
  rw [Nat.mod_mod, Nat.add_mod]

end ChiaModel.Keys
