import ChiaModel.Lemmas.Perm
/-
C06, order of the conditions of one spend at the level of the condition loop (`condLoop`) and of
`processSingleSpend`, for both visitors.  The loop is factored into: parse every element, apply the
parsed conditions in order (`applyAll`), then book the total cost, count the conditions and clear the
eligibility flags the visitor wants cleared (`wrapF`).
-/
set_option linter.unusedSimpArgs false
namespace ChiaModel.Cond

/-! ## bit facts about the spend flags (bits 1, 2, 4) -/

theorem and_two (x : Nat) : x &&& 2 = 2 * (x / 2 % 2) := by
  have h1 : (x &&& 2) / 2 = x / 2 % 2 := by
    rw [Nat.and_div_two]; exact Nat.and_one_is_mod _
  have h2 : (x &&& 2) % 2 = 0 := by
    have := @Nat.and_mod_two_pow x 2 1
    simpa using this
  omega

theorem and_four (x : Nat) : x &&& 4 = 4 * (x / 4 % 2) := by
  have h1 : (x &&& 4) / 4 = x / 4 % 2 := by
    have := @Nat.and_div_two_pow x 4 2
    simp only [Nat.reducePow, Nat.reduceDiv] at this
    rw [this]; exact Nat.and_one_is_mod _
  have h2 : (x &&& 4) % 4 = 0 := by
    have := @Nat.and_mod_two_pow x 4 2
    simpa using this
  omega

theorem clearFlag_one (f : Nat) : clearFlag f ELIGIBLE_FOR_DEDUP = if f % 2 = 1 then f - 1 else f := by
  unfold clearFlag ELIGIBLE_FOR_DEDUP
  rw [Nat.and_one_is_mod]
  by_cases h : f % 2 = 1
  · rw [if_pos h, if_pos (by omega)]
  · rw [if_neg h, if_neg (by omega)]

theorem clearFlag_four (f : Nat) : clearFlag f ELIGIBLE_FOR_FF = if f / 4 % 2 = 1 then f - 4 else f := by
  unfold clearFlag ELIGIBLE_FOR_FF
  rw [and_four]
  by_cases h : f / 4 % 2 = 1
  · rw [if_pos h, if_pos (by omega)]
  · rw [if_neg h, if_neg (by omega)]

/-- clear DEDUP if `b.1`, clear FF if `b.2` -/
def clr (b : Bool × Bool) (f : Nat) : Nat :=
  let f := if b.1 then clearFlag f ELIGIBLE_FOR_DEDUP else f
  if b.2 then clearFlag f ELIGIBLE_FOR_FF else f

theorem clr_and_two (b : Bool × Bool) (f : Nat) : clr b f &&& HAS_RELATIVE_CONDITION = f &&& HAS_RELATIVE_CONDITION := by
  obtain ⟨b1, b2⟩ := b
  unfold HAS_RELATIVE_CONDITION
  rw [and_two, and_two]
  cases b1 <;> cases b2 <;> simp only [clr, clearFlag_one, clearFlag_four, if_true, if_false, Bool.false_eq_true] <;>
    (repeat' split) <;> omega

theorem clr_add_two (b : Bool × Bool) (f : Nat) (h : f &&& HAS_RELATIVE_CONDITION = 0) :
    clr b (f + HAS_RELATIVE_CONDITION) = clr b f + HAS_RELATIVE_CONDITION := by
  obtain ⟨b1, b2⟩ := b
  unfold HAS_RELATIVE_CONDITION at h ⊢
  rw [and_two] at h
  cases b1 <;> cases b2 <;> simp only [clr, clearFlag_one, clearFlag_four, if_true, if_false, Bool.false_eq_true] <;>
    (repeat' split) <;> omega

theorem clr_clr (b c : Bool × Bool) (f : Nat) : clr c (clr b f) = clr (b.1 || c.1, b.2 || c.2) f := by
  obtain ⟨b1, b2⟩ := b
  obtain ⟨c1, c2⟩ := c
  cases b1 <;> cases b2 <;> cases c1 <;> cases c2 <;>
    simp only [clr, clearFlag_one, clearFlag_four, if_true, if_false, Bool.false_eq_true, Bool.or_self, Bool.or_true,
      Bool.true_or, Bool.or_false] <;>
    (repeat' split) <;> omega

/-- which of the two eligibility flags the visitor clears for a parsed condition (DEDUP, FF);
`n` is the condition counter -/
def visitBits (mempool : Bool) (n : Nat) (c : Cond) : Bool × Bool :=
  if !mempool then (false, false) else
  match c with
  | .assertMyCoinId _ | .assertHeightRelative _ | .assertSecondsRelative _ | .assertBeforeHeightRelative _
  | .assertBeforeSecondsRelative _ | .assertMyBirthHeight _ | .assertMyBirthSeconds _ | .assertEphemeral => (false, true)
  | .assertMyParentId _ => (false, decide (n ≠ 1))
  | .aggSig op _ _ =>
    (true, decide (op = Gen.opAggSigMe ∨ op = Gen.opAggSigParent ∨ op = Gen.opAggSigParentAmount ∨ op = Gen.opAggSigParentPuzzle))
  | .sendMessage srcMode _ _ => (true, decide (srcMode / 4 % 2 = 1))
  | .receiveMessage _ dstMode _ => (true, decide (dstMode / 4 % 2 = 1))
  | .createCoinAnnouncement _ => (false, true)
  | _ => (false, false)

theorem clr_ff (f : Nat) : clr (false, false) f = f := rfl
theorem clr_ft (f : Nat) : clr (false, true) f = clearFlag f ELIGIBLE_FOR_FF := rfl
theorem clr_tf (f : Nat) : clr (true, false) f = clearFlag f ELIGIBLE_FOR_DEDUP := rfl
theorem clr_tt (f : Nat) : clr (true, true) f = clearFlag (clearFlag f ELIGIBLE_FOR_DEDUP) ELIGIBLE_FOR_FF := rfl
theorem clr_tt' (f : Nat) : clr (true, true) f = clearFlag (clearFlag f ELIGIBLE_FOR_FF) ELIGIBLE_FOR_DEDUP := by
  have := clr_clr (false, true) (true, false) f
  simpa [clr_ft, clr_tf] using this.symm

/-- the visitor's effect on the spend flags is "clear the bits `visitBits`" -/
theorem visitCondition_eq (env : Env) (n f : Nat) (c : Cond) :
    visitCondition env n f c = clr (visitBits env.mempool n c) f := by
  unfold visitCondition visitBits
  cases env.mempool with
  | false => rfl
  | true =>
    simp only [Bool.not_true, Bool.false_eq_true, if_false]
    cases c <;> simp only [clr_ff, clr_ft, clr_tf]
    case assertMyParentId id =>
      by_cases h : n ≠ 1 <;> simp [h, clr_ff, clr_ft]
    case aggSig op pk msg =>
      by_cases h : (op = Gen.opAggSigMe ∨ op = Gen.opAggSigParent ∨ op = Gen.opAggSigParentAmount ∨ op = Gen.opAggSigParentPuzzle)
      · rw [if_pos h]; simp only [h, decide_true, clr_tt]
      · rw [if_neg h]; simp only [h, decide_false, clr_tf]
    case sendMessage m d g =>
      by_cases h : m / 4 % 2 = 1
      · rw [if_pos h]; simp only [h, decide_true, clr_tt']
      · rw [if_neg h]; simp only [h, decide_false, clr_tf]
    case receiveMessage d m g =>
      by_cases h : m / 4 % 2 = 1
      · rw [if_pos h]; simp only [h, decide_true, clr_tt']
      · rw [if_neg h]; simp only [h, decide_false, clr_tf]



/-! ## wrappers: cost bookkeeping, the condition counter, the visitor's flag clearing -/

/-- what the loop does around `applyCond`: clear eligibility flags `b`, count `n` conditions, book
cost `k` -/
def wrapF (b : Bool × Bool) (s : CSt) (n k : Nat) : CSt :=
  { s with ret := { s.ret with conditionCost := s.ret.conditionCost + k },
           spend := { s.spend with conditionCost := s.spend.conditionCost + k, flags := clr b s.spend.flags },
           counter := s.counter + n }

theorem wrapF_zero (s : CSt) : wrapF (false, false) s 0 0 = s := rfl

theorem wrapF_wrapF (b c : Bool × Bool) (s : CSt) (n k n' k' : Nat) :
    wrapF c (wrapF b s n k) n' k' = wrapF (b.1 || c.1, b.2 || c.2) s (n + n') (k + k') := by
  simp only [wrapF, Nat.add_assoc, clr_clr]

theorem bump_eq_wrapF (s : CSt) (k : Nat) : bump s k = wrapF (false, false) s 0 k := rfl

theorem visit_eq_wrapF (env : Env) (s : CSt) (cva : Cond) :
    visit env s cva = wrapF (visitBits env.mempool s.counter cva) s 1 0 := by
  simp only [visit, visitCondition_eq]; rfl

theorem condOk_wrapF (env : Env) (b : Bool × Bool) (s : CSt) (n k : Nat) (c : Cond) :
    condOk env (wrapF b s n k) c = condOk env s c := by
  cases c <;> rfl

theorem ane_wrapF (b : Bool × Bool) (s : CSt) (n k : Nat) : ane (wrapF b s n k) = wrapF b (ane s) n k := by
  unfold ane wrapF
  dsimp only
  by_cases h : s.spend.flags &&& HAS_RELATIVE_CONDITION ≠ 0
  · have h' : clr b s.spend.flags &&& HAS_RELATIVE_CONDITION ≠ 0 := by rw [clr_and_two]; exact h
    rw [if_pos h, if_pos h, if_pos h', if_pos h']
  · have h0 : s.spend.flags &&& HAS_RELATIVE_CONDITION = 0 := Decidable.not_not.mp h
    have h' : ¬ (clr b s.spend.flags &&& HAS_RELATIVE_CONDITION ≠ 0) := by rw [clr_and_two]; exact h
    rw [if_neg h, if_neg h, if_neg h', if_neg h', clr_add_two b _ h0]

theorem condUpd_wrapF (env : Env) (b : Bool × Bool) (s : CSt) (n k : Nat) (c : Cond) :
    condUpd env (wrapF b s n k) c = wrapF b (condUpd env s c) n k := by
  cases c <;> first | rfl | skip
  case assertSecondsRelative v =>
    exact ane_wrapF b { s with spend := { s.spend with secondsRelative := optMax s.spend.secondsRelative v } } n k
  case assertHeightRelative v =>
    exact ane_wrapF b { s with spend := { s.spend with heightRelative := optMax s.spend.heightRelative v } } n k
  case assertBeforeSecondsRelative v =>
    exact ane_wrapF b { s with spend := { s.spend with beforeSecondsRelative := optMin s.spend.beforeSecondsRelative v } } n k
  case assertBeforeHeightRelative v =>
    exact ane_wrapF b { s with spend := { s.spend with beforeHeightRelative := optMin s.spend.beforeHeightRelative v } } n k
  case assertMyBirthSeconds v =>
    exact ane_wrapF b { s with spend := { s.spend with birthSeconds := some v } } n k
  case assertMyBirthHeight v =>
    exact ane_wrapF b { s with spend := { s.spend with birthHeight := some v } } n k
  case skipRelativeCondition => exact ane_wrapF b s n k

theorem applyCond_wrapF (env : Env) (b : Bool × Bool) (s : CSt) (n k : Nat) (c : Cond) :
    applyCond env (wrapF b s n k) c = (applyCond env s c >>= fun u => .ok (wrapF b u n k)) := by
  rw [applyCond_eq, applyCond_eq, condOk_wrapF, condUpd_wrapF]
  by_cases h : condOk env s c = true
  · rw [if_pos h, if_pos h]; rfl
  · rw [if_neg h, if_neg h]; rfl

theorem applyAll_wrapF (env : Env) (b : Bool × Bool) (n k : Nat) : ∀ (l : List Cond) (s : CSt),
    applyAll env (wrapF b s n k) l = (applyAll env s l >>= fun u => .ok (wrapF b u n k)) := by
  intro l
  induction l with
  | nil => intro s; rfl
  | cons c l ih =>
    intro s
    rw [applyAll_cons, applyAll_cons, applyCond_wrapF]
    cases applyCond env s c with
    | error e => rfl
    | ok u => exact ih u

theorem CEquiv.wrapF {s t : CSt} (h : CEquiv s t) (b : Bool × Bool) (n k : Nat) : CEquiv (wrapF b s n k) (wrapF b t n k) := by
  obtain ⟨h_ret_spends, h_ret_reserveFee, h_ret_heightAbsolute, h_ret_secondsAbsolute, h_ret_aggSigUnsafe, h_ret_beforeHeightAbsolute, h_ret_beforeSecondsAbsolute, h_ret_cost, h_ret_executionCost, h_ret_conditionCost, h_ret_removalAmount, h_ret_additionAmount, h_ret_validatedSignature, h_st_announceCoin, h_st_announcePuzzle, h_st_assertCoin, h_st_assertPuzzle, h_st_messages, h_st_assertConcurrentSpend, h_st_assertConcurrentPuzzle, h_st_spentCoins, h_st_spentPuzzles, h_st_assertEphemeral, h_st_assertNotEphemeral, h_st_pkmPairs, h_spend_parentId, h_spend_coinAmount, h_spend_puzzleHash, h_spend_coinId, h_spend_heightRelative, h_spend_secondsRelative, h_spend_beforeHeightRelative, h_spend_beforeSecondsRelative, h_spend_birthHeight, h_spend_birthSeconds, h_spend_createCoin, h_spend_aggSigMe, h_spend_aggSigParent, h_spend_aggSigPuzzle, h_spend_aggSigAmount, h_spend_aggSigPuzzleAmount, h_spend_aggSigParentAmount, h_spend_aggSigParentPuzzle, h_spend_flags, h_spend_executionCost, h_spend_conditionCost, h_countdown, h_counter⟩ := h
  constructor <;> first
    | assumption
    | exact congrArg (· + k) h_ret_conditionCost
    | exact congrArg (· + k) h_spend_conditionCost
    | exact congrArg (· + n) h_counter
    | exact congrArg (clr b) h_spend_flags

theorem condUpd_counter (env : Env) (s : CSt) (c : Cond) : (condUpd env s c).counter = s.counter := by
  cases c <;> rfl

/-! ## the loop as parse-then-run over a list of items -/

/-- one element of a condition list after opcode recognition and argument parsing -/
inductive Item where
  | unknown                          -- not an opcode: ignored (or rejected under NO_UNKNOWN_CONDS)
  | known (op : Nat) (cva : Cond)

/-- the state-independent part of `stepCond`: recognise the opcode and parse the arguments -/
def parseItem (flags : Nat) (c : Sexp) : R Item := do
  let opn ← first c
  match parseOpcode opn with
  | none => if hasFlag flags Gen.flagNoUnknownConds then .error .reject else .ok .unknown
  | some op => do
    let args ← rest c
    let cva ← parseArgs args op flags
    .ok (.known op cva)

/-- total cost charged for an item -/
def itemCost (flags : Nat) : Item → Nat
  | .unknown => if hasFlag flags Gen.flagCostConditions then Gen.genericConditionCost else 0
  | .known op cva => preCharge flags op + condExtraCost cva

def itemCount : Item → Nat
  | .unknown => 0
  | .known _ _ => 1

def itemConds : List Item → List Cond
  | [] => []
  | .unknown :: l => itemConds l
  | .known _ cva :: l => cva :: itemConds l

def totalCost (flags : Nat) : List Item → Nat
  | [] => 0
  | it :: l => itemCost flags it + totalCost flags l

def totalCount : List Item → Nat
  | [] => 0
  | it :: l => itemCount it + totalCount l

def parseAll (flags : Nat) : List Sexp → R (List Item)
  | [] => .ok []
  | c :: cs => do
    let it ← parseItem flags c
    let its ← parseAll flags cs
    .ok (it :: its)


/-- the effect of an item on the state, cost bookkeeping aside -/
def applyItem (env : Env) (s : CSt) : Item → R CSt
  | .unknown => .ok s
  | .known _ cva => applyCond env s cva

/-- the eligibility flags the visitor clears for an item seen at condition counter `n` -/
def itemBits (mempool : Bool) (n : Nat) : Item → Bool × Bool
  | .unknown => (false, false)
  | .known _ cva => visitBits mempool n cva

/-- all flags cleared over a list of items, the first one seen at counter `n` -/
def allBits (mempool : Bool) : Nat → List Item → Bool × Bool
  | _, [] => (false, false)
  | n, it :: l => ((itemBits mempool n it).1 || (allBits mempool (n + itemCount it) l).1,
                   (itemBits mempool n it).2 || (allBits mempool (n + itemCount it) l).2)

theorem applyItem_counter {env : Env} {s u : CSt} {it : Item} (h : applyItem env s it = .ok u) : u.counter = s.counter := by
  cases it with
  | unknown => injection h with h; rw [← h]
  | known op cva => obtain ⟨_, rfl⟩ := applyCond_ok h; exact condUpd_counter env s cva

theorem ok_bind {α β : Type} (a : α) (f : α → R β) : ((Except.ok a : R α) >>= f) = f a := rfl
theorem err_bind {α β : Type} (e : Err) (f : α → R β) : ((Except.error e : R α) >>= f) = .error e := rfl

theorem addCost_iff {s : CSt} {m c : Nat} {s' : CSt} {m' : Nat} :
    addCost s m c = .ok (s', m') ↔ c ≤ m ∧ s' = wrapF (false, false) s 0 c ∧ m' = m - c := by
  constructor
  · intro h; obtain ⟨a, b, c⟩ := addCost_ok h; exact ⟨b, a, c⟩
  · rintro ⟨h1, rfl, rfl⟩
    unfold addCost
    rw [charge_ok_iff.mpr ⟨h1, rfl⟩]; rfl

/-- **one loop iteration = parse the element, then apply it, book its cost, count it and let the
visitor clear flags** -/
theorem stepCond_iff (env : Env) (s : CSt) (m : Nat) (c : Sexp) (s' : CSt) (m' : Nat) :
    stepCond env s m c = .ok (s', m') ↔
      ∃ it, parseItem env.flags c = .ok it ∧ itemCost env.flags it ≤ m ∧ m' = m - itemCost env.flags it ∧
        ∃ u, applyItem env s it = .ok u ∧
          s' = wrapF (itemBits env.mempool s.counter it) u (itemCount it) (itemCost env.flags it) := by
  unfold stepCond parseItem
  cases hf : first c with
  | error e =>
    rw [err_bind, err_bind]
    exact ⟨fun h => (by cases h), fun ⟨_, h, _⟩ => (by cases h)⟩
  | ok opn =>
    rw [ok_bind, ok_bind]
    cases ho : parseOpcode opn with
    | none =>
      dsimp only
      by_cases hnu : hasFlag env.flags Gen.flagNoUnknownConds = true
      · rw [if_pos hnu, if_pos hnu]
        exact ⟨fun h => (by cases h), fun ⟨_, h, _⟩ => (by cases h)⟩
      · rw [if_neg hnu, if_neg hnu]
        by_cases hcc : hasFlag env.flags Gen.flagCostConditions = true
        · rw [if_pos hcc, addCost_iff]
          constructor
          · rintro ⟨h1, h2, h3⟩
            exact ⟨.unknown, rfl, by simpa [itemCost, hcc] using h1, by simpa [itemCost, hcc] using h3, s, rfl,
              by simpa [itemCost, hcc, itemBits, itemCount] using h2⟩
          · rintro ⟨it, hit, h1, h3, u, hu, h2⟩
            injection hit with hit; subst hit
            injection hu with hu; subst hu
            exact ⟨by simpa [itemCost, hcc] using h1, by simpa [itemCost, hcc, itemBits, itemCount] using h2,
              by simpa [itemCost, hcc] using h3⟩
        · rw [if_neg hcc]
          constructor
          · intro h
            injection h with h; injection h with h1 h2
            refine ⟨.unknown, rfl, by simp [itemCost, hcc], by simp [itemCost, hcc, h2], s, rfl, ?_⟩
            simp only [itemCost, hcc, itemBits, itemCount]; exact h1.symm
          · rintro ⟨it, hit, h1, h3, u, hu, h2⟩
            injection hit with hit; subst hit
            injection hu with hu; subst hu
            simp only [itemCost, hcc, itemBits, itemCount] at h2 h3
            have : m' = m := by simpa using h3
            rw [h2, this]; rfl
    | some op =>
      dsimp only
      constructor
      · intro h
        obtain ⟨⟨s2, m2⟩, ha, h⟩ := bind_ok h
        obtain ⟨⟨s3, extra⟩, hpc, h⟩ := bind_ok h
        obtain ⟨args, cva, hr, hp, happ, hex⟩ := pureCond_ok hpc
        obtain ⟨a1, a2, a3⟩ := addCost_iff.mp ha
        obtain ⟨b1, b2, b3⟩ := addCost_iff.mp h
        subst a2 hex
        rw [visit_eq_wrapF, wrapF_wrapF, applyCond_wrapF] at happ
        obtain ⟨u, hu, hw⟩ := bind_ok happ
        injection hw with hw
        refine ⟨.known op cva, ?_, ?_, ?_, u, hu, ?_⟩
        · rw [hr, ok_bind, hp]; rfl
        · simp only [itemCost]; omega
        · simp only [itemCost]; omega
        · rw [b2, ← hw, wrapF_wrapF]
          simp only [itemCost, itemBits, itemCount, Nat.zero_add, Nat.add_zero, Bool.false_or, Bool.or_false]
          rfl
      · rintro ⟨it, hit, h1, h3, h2⟩
        obtain ⟨args, hr, hit⟩ := bind_ok hit
        obtain ⟨cva, hp, hit⟩ := bind_ok hit
        injection hit with hit; subst hit
        obtain ⟨u, hu, hs'⟩ := h2
        change applyCond env s cva = .ok u at hu
        simp only [itemCost, itemBits, itemCount] at h1 h3 hs'
        have ha : addCost s m (preCharge env.flags op) = .ok (wrapF (false, false) s 0 (preCharge env.flags op), m - preCharge env.flags op) :=
          addCost_iff.mpr ⟨by omega, rfl, rfl⟩
        rw [ha, ok_bind]
        have hpc : pureCond env (wrapF (false, false) s 0 (preCharge env.flags op)) c op
            = .ok (wrapF (visitBits env.mempool s.counter cva) u 1 (preCharge env.flags op), condExtraCost cva) := by
          unfold pureCond
          rw [hr, ok_bind, hp, ok_bind]
          show (applyCond env (visit env _ cva) cva >>= _) = _
          rw [visit_eq_wrapF, wrapF_wrapF, applyCond_wrapF, hu, ok_bind]
          rfl
        dsimp only
        rw [hpc, ok_bind]
        dsimp only
        rw [addCost_iff]
        refine ⟨by omega, ?_, by omega⟩
        rw [hs', wrapF_wrapF]
        simp only [Bool.or_false, Nat.add_zero]

theorem applyAll_itemConds_cons (env : Env) (s : CSt) (it : Item) (l : List Item) :
    applyAll env s (itemConds (it :: l)) = applyItem env s it >>= fun u => applyAll env u (itemConds l) := by
  cases it with
  | unknown => rfl
  | known op cva => exact applyAll_cons env s cva _

theorem sexpList_nil {t : Sexp} (h : sexpList t = some []) : t = .atom [] := by
  cases t with
  | atom b =>
    cases b with
    | nil => rfl
    | cons x xs => simp [sexpList] at h
  | pair a r =>
    simp only [sexpList] at h
    cases hr : sexpList r with
    | none => rw [hr] at h; cases h
    | some l => rw [hr] at h; simp at h

theorem sexpList_cons {t : Sexp} {c : Sexp} {cs : List Sexp} (h : sexpList t = some (c :: cs)) :
    ∃ nxt, t = .pair c nxt ∧ sexpList nxt = some cs := by
  cases t with
  | atom b =>
    cases b with
    | nil => simp [sexpList] at h
    | cons x xs => simp [sexpList] at h
  | pair a r =>
    simp only [sexpList] at h
    cases hr : sexpList r with
    | none => rw [hr] at h; cases h
    | some l =>
      rw [hr] at h
      simp only [Option.map_some, Option.some.injEq, List.cons.injEq] at h
      obtain ⟨rfl, rfl⟩ := h
      exact ⟨r, rfl, hr⟩


/-- **The condition loop as parse-all, apply-all, then book the costs / count / clear flags**: it accepts
iff every element parses, the total charge fits the countdown and the parsed conditions are accepted in
order; the result is the result of the conditions, wrapped. -/
theorem condLoop_iff (env : Env) : ∀ (cs : List Sexp) (t : Sexp), sexpList t = some cs →
    ∀ (s : CSt) (m : Nat) (s' : CSt) (m' : Nat),
    (condLoop env t s m = .ok (s', m') ↔
      ∃ items, parseAll env.flags cs = .ok items ∧ totalCost env.flags items ≤ m ∧ m' = m - totalCost env.flags items ∧
        ∃ u, applyAll env s (itemConds items) = .ok u ∧
          s' = wrapF (allBits env.mempool s.counter items) u (totalCount items) (totalCost env.flags items)) := by
  intro cs
  induction cs with
  | nil =>
    intro t ht s m s' m'
    rw [sexpList_nil ht]
    simp only [condLoop, parseAll]
    constructor
    · intro h
      injection h with h; injection h with h1 h2
      exact ⟨[], rfl, Nat.zero_le _, by simp [totalCost, h2], s, rfl, by rw [← h1]; rfl⟩
    · rintro ⟨items, hi, _, h3, u, hu, hs⟩
      injection hi with hi; subst hi
      injection hu with hu; subst hu
      simp only [totalCost, Nat.sub_zero] at h3
      rw [hs, h3]; rfl
  | cons c cs ih =>
    intro t ht s m s' m'
    obtain ⟨nxt, rfl, hn⟩ := sexpList_cons ht
    simp only [condLoop, parseAll]
    constructor
    · intro h
      obtain ⟨⟨s1, m1⟩, hstep, hrest⟩ := bind_ok h
      obtain ⟨it, hp, hk, hm1, u1, hu1, hs1⟩ := (stepCond_iff env s m c s1 m1).mp hstep
      obtain ⟨items, hps, hK, hm', u', hu', hs'⟩ := (ih nxt hn s1 m1 s' m').mp hrest
      have hc1 : s1.counter = s.counter + itemCount it := by rw [hs1]; show u1.counter + _ = _; rw [applyItem_counter hu1]
      rw [hs1, applyAll_wrapF] at hu'
      obtain ⟨v, hv, hw⟩ := bind_ok hu'
      injection hw with hw
      refine ⟨it :: items, ?_, ?_, ?_, v, ?_, ?_⟩
      · rw [hp, ok_bind, hps]; rfl
      · simp only [totalCost]; omega
      · simp only [totalCost]; omega
      · rw [applyAll_itemConds_cons, hu1]; exact hv
      · rw [hs', ← hw, wrapF_wrapF, hc1]; rfl
    · rintro ⟨items, hps, hK, hm', v, hv, hs'⟩
      obtain ⟨it, hp, hps⟩ := bind_ok hps
      obtain ⟨items', hps', hi⟩ := bind_ok hps
      injection hi with hi; subst hi
      rw [applyAll_itemConds_cons] at hv
      obtain ⟨u1, hu1, hv⟩ := bind_ok hv
      simp only [totalCost, totalCount, allBits] at hK hm' hs'
      have hstep : stepCond env s m c = .ok (wrapF (itemBits env.mempool s.counter it) u1 (itemCount it) (itemCost env.flags it), m - itemCost env.flags it) :=
        (stepCond_iff env s m c _ _).mpr ⟨it, hp, by omega, rfl, u1, hu1, rfl⟩
      rw [hstep, ok_bind]
      have hc1 : (wrapF (itemBits env.mempool s.counter it) u1 (itemCount it) (itemCost env.flags it)).counter = s.counter + itemCount it := by
        show u1.counter + _ = _; rw [applyItem_counter hu1]
      refine (ih nxt hn _ _ s' m').mpr ⟨items', hps', by omega, by omega, wrapF (itemBits env.mempool s.counter it) v (itemCount it) (itemCost env.flags it), ?_, ?_⟩
      · rw [applyAll_wrapF, hv]; rfl
      · rw [hs', wrapF_wrapF, hc1]

/-! ## permutations -/

theorem parseAll_perm (flags : Nat) {cs cs' : List Sexp} (hp : List.Perm cs cs') : ∀ {items : List Item},
    parseAll flags cs = .ok items → ∃ items', parseAll flags cs' = .ok items' ∧ List.Perm items items' := by
  induction hp with
  | nil => intro items h; exact ⟨items, h, List.Perm.refl _⟩
  | cons c _ ih =>
    intro items h
    simp only [parseAll] at h ⊢
    obtain ⟨it, h1, h⟩ := bind_ok h
    obtain ⟨its, h2, h⟩ := bind_ok h
    injection h with h; subst h
    obtain ⟨its', h2', hp'⟩ := ih h2
    exact ⟨it :: its', by rw [h1, ok_bind, h2']; rfl, List.Perm.cons _ hp'⟩
  | swap a b l =>
    intro items h
    simp only [parseAll] at h ⊢
    obtain ⟨ib, h1, h⟩ := bind_ok h
    obtain ⟨r, h, h'⟩ := bind_ok h
    obtain ⟨ia, h2, h⟩ := bind_ok h
    obtain ⟨its, h3, h⟩ := bind_ok h
    injection h with h; subst h
    injection h' with h'; subst h'
    exact ⟨ia :: ib :: its, by rw [h2, ok_bind, h1, ok_bind, h3]; rfl, List.Perm.swap _ _ _⟩
  | trans _ _ ih1 ih2 =>
    intro items h
    obtain ⟨i1, h1, p1⟩ := ih1 h
    obtain ⟨i2, h2, p2⟩ := ih2 h1
    exact ⟨i2, h2, p1.trans p2⟩

theorem itemConds_perm {l l' : List Item} (hp : List.Perm l l') : List.Perm (itemConds l) (itemConds l') := by
  induction hp with
  | nil => exact List.Perm.refl _
  | cons it _ ih => cases it <;> simp only [itemConds] <;> first | exact ih | exact List.Perm.cons _ ih
  | swap a b l =>
    cases a <;> cases b <;> simp only [itemConds] <;> first | exact List.Perm.refl _ | exact List.Perm.swap _ _ _
  | trans _ _ ih1 ih2 => exact ih1.trans ih2

theorem totalCost_perm (flags : Nat) {l l' : List Item} (hp : List.Perm l l') : totalCost flags l = totalCost flags l' := by
  induction hp with
  | nil => rfl
  | cons it _ ih => simp only [totalCost, ih]
  | swap a b l => simp only [totalCost]; omega
  | trans _ _ ih1 ih2 => exact ih1.trans ih2

theorem totalCount_perm {l l' : List Item} (hp : List.Perm l l') : totalCount l = totalCount l' := by
  induction hp with
  | nil => rfl
  | cons it _ ih => simp only [totalCount, ih]
  | swap a b l => simp only [totalCount]; omega
  | trans _ _ ih1 ih2 => exact ih1.trans ih2


/-- no item of the list is an ASSERT_MY_PARENT_ID (the one condition the mempool visitor treats
positionally) -/
def NoParentId (l : List Item) : Prop := ∀ it ∈ l, ∀ op id, it ≠ Item.known op (Cond.assertMyParentId id)

theorem visitBits_fst_counter (mp : Bool) (n n' : Nat) (c : Cond) : (visitBits mp n c).1 = (visitBits mp n' c).1 := by
  unfold visitBits; cases mp <;> cases c <;> rfl

theorem visitBits_counter (mp : Bool) (n n' : Nat) (c : Cond) (h : mp = false ∨ ∀ id, c ≠ Cond.assertMyParentId id) :
    visitBits mp n c = visitBits mp n' c := by
  cases mp with
  | false => rfl
  | true =>
    rcases h with h | h
    · cases h
    · unfold visitBits; cases c <;> first | rfl | exact absurd rfl (h _)

/-- the flags cleared over a list of items, position-free -/
def bitsOf (mp : Bool) (l : List Item) : Bool × Bool :=
  (l.any (fun it => (itemBits mp 0 it).1), l.any (fun it => (itemBits mp 0 it).2))

theorem itemBits_fst_counter (mp : Bool) (n n' : Nat) (it : Item) : (itemBits mp n it).1 = (itemBits mp n' it).1 := by
  cases it with
  | unknown => rfl
  | known op cva => exact visitBits_fst_counter mp n n' cva

theorem allBits_fst (mp : Bool) : ∀ (l : List Item) (n : Nat), (allBits mp n l).1 = (bitsOf mp l).1 := by
  intro l
  induction l with
  | nil => intro n; rfl
  | cons it l ih =>
    intro n
    simp only [allBits, bitsOf, List.any_cons]
    rw [ih, itemBits_fst_counter mp n 0]; rfl

theorem allBits_snd (mp : Bool) : ∀ (l : List Item) (n : Nat), (mp = false ∨ NoParentId l) →
    (allBits mp n l).2 = (bitsOf mp l).2 := by
  intro l
  induction l with
  | nil => intro n _; rfl
  | cons it l ih =>
    intro n h
    simp only [allBits, bitsOf, List.any_cons]
    have h' : mp = false ∨ NoParentId l := by
      rcases h with h | h
      · exact Or.inl h
      · exact Or.inr (fun x hx => h x (List.mem_cons_of_mem _ hx))
    rw [ih _ h']
    have : itemBits mp n it = itemBits mp 0 it := by
      cases it with
      | unknown => rfl
      | known op cva =>
        refine visitBits_counter mp n 0 cva ?_
        rcases h with h | h
        · exact Or.inl h
        · exact Or.inr (fun id hc => h _ (List.mem_cons_self) op id (by rw [hc]))
    rw [this]; rfl

theorem bitsOf_perm (mp : Bool) {l l' : List Item} (hp : List.Perm l l') : bitsOf mp l = bitsOf mp l' := by
  simp only [bitsOf, hp.any_eq]

theorem NoParentId_perm {l l' : List Item} (hp : List.Perm l l') (h : NoParentId l) : NoParentId l' :=
  fun it hit => h it (hp.symm.subset hit)

/-- **Order of the conditions of a spend, at the level of the condition loop** (either visitor).
If `condLoop` accepts the NIL-terminated condition list `t`, it accepts every list `t'` whose elements
are a permutation of those of `t`, with the same remaining cost budget; the final per-spend states agree
up to listing order once ELIGIBLE_FOR_FF is cleared in both, and agree up to listing order outright when
the visitor is the empty one or no element parses to ASSERT_MY_PARENT_ID. -/
theorem condLoop_perm (env : Env) {t t' : Sexp} {cs cs' : List Sexp}
    (ht : sexpList t = some cs) (ht' : sexpList t' = some cs') (hp : List.Perm cs cs')
    {s : CSt} {m : Nat} {s1 : CSt} {m1 : Nat} (hrun : condLoop env t s m = .ok (s1, m1)) :
    ∃ s2, condLoop env t' s m = .ok (s2, m1) ∧
      CEquiv (wrapF (false, true) s1 0 0) (wrapF (false, true) s2 0 0) ∧
      ((env.mempool = false ∨ ∀ items, parseAll env.flags cs = .ok items → NoParentId items) → CEquiv s1 s2) := by
  obtain ⟨items, hps, hK, hm1, u, hu, hs1⟩ := (condLoop_iff env cs t ht s m s1 m1).mp hrun
  obtain ⟨items', hps', hip⟩ := parseAll_perm env.flags hp hps
  obtain ⟨u', hu', he⟩ := applyAll_perm env (itemConds_perm hip) hu
  have hc := totalCost_perm env.flags hip
  have hn := totalCount_perm hip
  refine ⟨wrapF (allBits env.mempool s.counter items') u' (totalCount items') (totalCost env.flags items'), ?_, ?_, ?_⟩
  · exact (condLoop_iff env cs' t' ht' s m _ _).mpr ⟨items', hps', by omega, by omega, u', hu', rfl⟩
  · rw [hs1, wrapF_wrapF, wrapF_wrapF, hc, hn, allBits_fst, allBits_fst, bitsOf_perm env.mempool hip]
    simp only [Bool.or_true]
    exact he.wrapF _ _ _
  · intro hno
    have h1 : env.mempool = false ∨ NoParentId items := hno.imp id (fun h => h items hps)
    have h2 : env.mempool = false ∨ NoParentId items' := h1.imp id (NoParentId_perm hip)
    have hb : allBits env.mempool s.counter items = allBits env.mempool s.counter items' := by
      apply Prod.ext
      · rw [allBits_fst, allBits_fst, bitsOf_perm env.mempool hip]
      · rw [allBits_snd _ _ _ h1, allBits_snd _ _ _ h2, bitsOf_perm env.mempool hip]
    rw [hs1, hb, hc, hn]
    exact he.wrapF _ _ _

/-! ## one spend -/

/-- a successful `processSingleSpend`, rebuilt from its parts -/
theorem processSingleSpend_intro {env : Env} {ret : Bundle} {st : PState} {parent ph amount conds : Sexp} {cc m : Nat}
    {s0 s : CSt} {m' : Nat}
    (hh : spendHeader ret st parent ph amount cc = .ok s0) (hc : spendCharge env.flags ≤ m)
    (hl : condLoop env conds (newSpendVisit env (bump s0 (spendCharge env.flags))) (m - spendCharge env.flags) = .ok (s, m')) :
    processSingleSpend env ret st parent ph amount conds cc m = .ok (finishSpend env s, m') := by
  unfold processSingleSpend
  rw [hh]
  dsimp only
  rw [addCost_iff.mpr ⟨hc, rfl, rfl⟩, ok_bind]
  show (condLoop env conds (newSpendVisit env (bump s0 (spendCharge env.flags))) (m - spendCharge env.flags) >>= _) = _
  rw [hl]; rfl

/-- **Order of the conditions of one spend**: `process_single_spend` + `parse_conditions` accept the spend
with the permuted condition list and leave the same cost budget; the per-spend states from which the two
results are finished (`finishSpend`: `post_spend`, push the spend) are related as in `condLoop_perm`. -/
theorem processSingleSpend_perm (env : Env) {conds conds' : Sexp} {cs cs' : List Sexp}
    (ht : sexpList conds = some cs) (ht' : sexpList conds' = some cs') (hp : List.Perm cs cs')
    {ret : Bundle} {st : PState} {parent ph amount : Sexp} {cc m : Nat} {r1 : Bundle} {p1 : PState} {m1 : Nat}
    (h : processSingleSpend env ret st parent ph amount conds cc m = .ok ((r1, p1), m1)) :
    ∃ s1 s2, (r1, p1) = finishSpend env s1 ∧
      processSingleSpend env ret st parent ph amount conds' cc m = .ok (finishSpend env s2, m1) ∧
      CEquiv (wrapF (false, true) s1 0 0) (wrapF (false, true) s2 0 0) ∧
      ((env.mempool = false ∨ ∀ items, parseAll env.flags cs = .ok items → NoParentId items) → CEquiv s1 s2) := by
  obtain ⟨s0, m0, s1, hh, hc, hm0, hl, hf⟩ := processSingleSpend_ok h
  subst hm0
  obtain ⟨s2, hl2, he, he'⟩ := condLoop_perm env ht ht' hp hl
  exact ⟨s1, s2, hf, processSingleSpend_intro hh hc hl2, he, he'⟩

end ChiaModel.Cond
