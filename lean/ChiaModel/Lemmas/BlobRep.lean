import ChiaModel.Lemmas.BlobBatch2
import ChiaModel.Lemmas.BlobUps
import ChiaModel.Lemmas.Blob
/-
C18, level L2 → L1: the representation relation.  `Rep bl p t` says that the index-annotated tree `t`
is stored in the block list `bl` below a node whose parent pointer is `p`; `Good s t` adds the cache
and free-list facts.  `SInv s t` is the (structural) invariant of the index-level model; its tree,
with the indexes erased, is the L1 tree `abs s`.
-/
namespace ChiaModel.Blob
open List

/-- the parent pointer stored at index `j` of a block list -/
def parentOfL (bl : List Block) (j : Nat) : Option Nat :=
  match bl[j]? with
  | some b => b.node.parent
  | none => none

theorem parentOf_eq (s : Blob) (j : Nat) : parentOf s j = parentOfL s.blocks j := rfl

namespace IT

theorem idx_mem (t : IT) : t.idx ∈ t.indices := by cases t <;> simp [idx, indices]

theorem erase_entries (t : IT) : t.erase.entries = t.leaves.map (·.2) := by
  induction t with
  | leaf i k v h => rfl
  | node i l r ihl ihr => simp [erase, T.entries, leaves, ihl, ihr]

theorem leaf_idx_mem (t : IT) (e : Nat × KVH) (he : e ∈ t.leaves) : e.1 ∈ t.indices := by
  induction t with
  | leaf i k v h => simp only [leaves, List.mem_singleton] at he; subst he; simp [indices]
  | node i l r ihl ihr =>
    simp only [leaves, List.mem_append] at he
    simp only [indices, List.mem_cons, List.mem_append]
    rcases he with he | he
    · exact Or.inr (Or.inl (ihl he))
    · exact Or.inr (Or.inr (ihr he))

theorem depth_lt_indices (t : IT) : t.depth < t.indices.length := by
  induction t with
  | leaf i k v h => simp [depth, indices]
  | node i l r ihl ihr =>
    simp only [depth, indices, List.length_cons, List.length_append]
    omega

end IT

/-- `t` is stored in `bl` below parent pointer `p` (dirty flags and stored hashes of internal nodes
are not looked at; a leaf is never dirty) -/
def Rep (bl : List Block) : Option Nat → IT → Prop
  | p, .leaf i k v h => bl[i]? = some { dirty := false, node := .leaf h p k v }
  | p, .node i l r =>
    (∃ d hh, bl[i]? = some { dirty := d, node := .internal hh p l.idx r.idx })
      ∧ Rep bl (some i) l ∧ Rep bl (some i) r

theorem Rep.congr {bl bl' : List Block} {p : Option Nat} {t : IT}
    (h : Rep bl p t) (hag : ∀ j ∈ t.indices, bl'[j]? = bl[j]?) : Rep bl' p t := by
  induction t generalizing p with
  | leaf i k v hh =>
    simp only [Rep] at h ⊢
    rw [hag i (by simp [IT.indices])]; exact h
  | node i l r ihl ihr =>
    simp only [Rep] at h ⊢
    obtain ⟨⟨d, hh, hb⟩, hl, hr⟩ := h
    refine ⟨⟨d, hh, by rw [hag i (by simp [IT.indices])]; exact hb⟩, ?_, ?_⟩
    · exact ihl hl (fun j hj => hag j (by simp [IT.indices, hj]))
    · exact ihr hr (fun j hj => hag j (by simp [IT.indices, hj]))

theorem Rep.lt {bl : List Block} {p : Option Nat} {t : IT} (h : Rep bl p t) :
    ∀ j ∈ t.indices, j < bl.length := by
  induction t generalizing p with
  | leaf i k v hh =>
    intro j hj
    simp only [IT.indices, List.mem_singleton] at hj
    simp only [Rep] at h
    rw [hj]; exact (List.getElem?_eq_some_iff.mp h).1
  | node i l r ihl ihr =>
    intro j hj
    simp only [Rep] at h
    obtain ⟨⟨d, hh, hb⟩, hl, hr⟩ := h
    simp only [IT.indices, List.mem_cons, List.mem_append] at hj
    rcases hj with e | e | e
    · rw [e]; exact (List.getElem?_eq_some_iff.mp hb).1
    · exact ihl hl j e
    · exact ihr hr j e

/-- the block of the root of a represented tree -/
theorem Rep.root_parent {bl : List Block} {p : Option Nat} {t : IT} (h : Rep bl p t) :
    parentOfL bl t.idx = p := by
  cases t with
  | leaf i k v hh => simp only [Rep] at h; simp [parentOfL, IT.idx, h, Node.parent]
  | node i l r =>
    simp only [Rep] at h
    obtain ⟨⟨d, hh, hb⟩, _, _⟩ := h
    simp [parentOfL, IT.idx, hb, Node.parent]

/-! ### association lists up to permutation -/

theorem mapGet_of_mem {κ : Type} [DecidableEq κ] (m : List (κ × Nat)) (k : κ) (i : Nat)
    (hn : (m.map (·.1)).Nodup) (h : (k, i) ∈ m) : mapGet m k = some i := by
  induction m with
  | nil => cases h
  | cons x m ih =>
    obtain ⟨k', i'⟩ := x
    simp only [List.map_cons, List.nodup_cons] at hn
    simp only [mapGet]
    rcases List.mem_cons.mp h with e | e
    · injection e with e1 e2; subst e1; subst e2; simp
    · have : k' ≠ k := fun e' => hn.1 (by rw [e']; exact List.mem_map_of_mem (f := (·.1)) e)
      rw [if_neg this]; exact ih hn.2 e

theorem mapGet_perm {κ : Type} [DecidableEq κ] {a b : List (κ × Nat)} (p : a ~ b)
    (hn : (a.map (·.1)).Nodup) (k : κ) : mapGet a k = mapGet b k := by
  cases h : mapGet a k with
  | some i =>
    have hm := mapGet_mem a k i h
    exact (mapGet_of_mem b k i ((p.map _).nodup_iff.mp hn) (p.mem_iff.mp hm)).symm
  | none =>
    cases h2 : mapGet b k with
    | none => rfl
    | some i =>
      have hm := mapGet_mem b k i h2
      have := mapGet_of_mem a k i hn (p.mem_iff.mpr hm)
      rw [h] at this; cases this

/-! ### local facts about a represented tree -/

theorem Rep.leaf_block {bl : List Block} {p : Option Nat} {t : IT} (h : Rep bl p t)
    {e : Nat × KVH} (he : e ∈ t.leaves) :
    ∃ q, bl[e.1]? = some { dirty := false, node := .leaf e.2.2.2 q e.2.1 e.2.2.1 } := by
  induction t generalizing p with
  | leaf i k v hh =>
    simp only [IT.leaves, List.mem_singleton] at he
    subst he
    exact ⟨p, h⟩
  | node i l r ihl ihr =>
    simp only [Rep] at h
    simp only [IT.leaves, List.mem_append] at he
    rcases he with he | he
    · exact ihl h.2.1 he
    · exact ihr h.2.2 he

/-- what the blocks say at an index of a represented tree -/
structure InfoAt (bl : List Block) (t : IT) (p : Option Nat) (i : Nat) : Prop where
  shape : (∃ k v h q, bl[i]? = some { dirty := false, node := .leaf h q k v } ∧ (i, k, v, h) ∈ t.leaves) ∨
    (∃ d hh q l r, bl[i]? = some { dirty := d, node := .internal hh q l r } ∧ l ∈ t.indices ∧ r ∈ t.indices
      ∧ l ≠ r ∧ parentOfL bl l = some i ∧ parentOfL bl r = some i)
  rootParent : i = t.idx → parentOfL bl i = p
  parent : i ≠ t.idx → ∃ q, q ∈ t.indices ∧ parentOfL bl i = some q ∧
    ∃ d hh pp l r, bl[q]? = some { dirty := d, node := .internal hh pp l r } ∧ (i = l ∨ i = r)

theorem Rep.info {bl : List Block} {p : Option Nat} {t : IT} (h : Rep bl p t) (hn : t.indices.Nodup) :
    ∀ i ∈ t.indices, InfoAt bl t p i := by
  induction t generalizing p with
  | leaf j k v hh =>
    intro i hi
    simp only [IT.indices, List.mem_singleton] at hi
    subst hi
    simp only [Rep] at h
    exact ⟨Or.inl ⟨k, v, hh, p, h, by simp [IT.leaves]⟩, fun _ => by simp [parentOfL, h, Node.parent],
      fun hne => absurd rfl hne⟩
  | node j l r ihl ihr =>
    intro i hi
    have hrep := h
    simp only [Rep] at h
    obtain ⟨⟨d, hh, hb⟩, hl, hr⟩ := h
    simp only [IT.indices, List.nodup_cons, List.mem_append, not_or] at hn
    obtain ⟨⟨hjl, hjr⟩, hlr⟩ := hn
    obtain ⟨hln, hrn, hdis⟩ := T.nodup_append' hlr
    simp only [IT.indices, List.mem_cons, List.mem_append] at hi
    have lift : ∀ (c : IT), Rep bl (some j) c → (c.idx = l.idx ∨ c.idx = r.idx) →
        (∀ x, x ∈ c.indices → x ∈ (IT.node j l r).indices) → (∀ e, e ∈ c.leaves → e ∈ (IT.node j l r).leaves) →
        j ∉ c.indices → InfoAt bl c (some j) i → i ∈ c.indices → InfoAt bl (.node j l r) p i := by
      intro c hc hcidx hsub hleaf hjc info hic
      have hij : i ≠ j := fun e => hjc (e ▸ hic)
      refine ⟨?_, fun e => absurd e hij, fun _ => ?_⟩
      · rcases info.shape with ⟨k, v, h', q, e1, e2⟩ | ⟨d', hh', q, l', r', e1, e2, e3, e4, e5, e6⟩
        · exact Or.inl ⟨k, v, h', q, e1, hleaf _ e2⟩
        · exact Or.inr ⟨d', hh', q, l', r', e1, hsub _ e2, hsub _ e3, e4, e5, e6⟩
      · by_cases hic' : i = c.idx
        · refine ⟨j, by simp [IT.indices], info.rootParent hic', d, hh, p, l.idx, r.idx, hb, ?_⟩
          rw [hic']; exact hcidx
        · obtain ⟨q, hq, hpq, rest⟩ := info.parent hic'
          exact ⟨q, hsub _ hq, hpq, rest⟩
    rcases hi with e | e | e
    · subst e
      refine ⟨Or.inr ⟨d, hh, p, l.idx, r.idx, hb, ?_, ?_, ?_, hl.root_parent, hr.root_parent⟩,
        fun _ => by simp [parentOfL, hb, Node.parent], fun hne => absurd rfl hne⟩
      · simp [IT.indices, IT.idx_mem]
      · simp [IT.indices, IT.idx_mem]
      · intro e; exact hdis l.idx (IT.idx_mem l) (e ▸ IT.idx_mem r)
    · exact lift l hl (Or.inl rfl) (fun x hx => by simp [IT.indices, hx]) (fun e he => by simp [IT.leaves, he])
        hjl (ihl hl hln i e) e
    · exact lift r hr (Or.inr rfl) (fun x hx => by simp [IT.indices, hx]) (fun e he => by simp [IT.leaves, he])
        hjr (ihr hr hrn i e) e

/-! ### the structural invariant -/

/-- the blob `s` stores exactly the tree `t`: the blocks reachable from index 0 are `t`, the free list
holds exactly the other indexes, the two caches hold exactly the leaves of `t`, keys and leaf hashes
are pairwise distinct, and every parent pointer ever written (also in stale blocks) is in range -/
structure Good (s : Blob) (t : IT) : Prop where
  rep : Rep s.blocks none t
  root : t.idx = 0
  nodup : t.indices.Nodup
  freeNodup : s.free.Nodup
  free : ∀ i, i ∈ s.free ↔ (i < s.blocks.length ∧ i ∉ t.indices)
  k2i : s.k2i ~ t.leaves.map (fun e => (e.2.1, e.1))
  h2i : s.h2i ~ t.leaves.map (fun e => (e.2.2.2, e.1))
  keys : (t.leaves.map (·.2.1)).Nodup
  hashes : (t.leaves.map (·.2.2.2)).Nodup
  range : RangeP s

/-- the structural invariant: the empty blob, or a blob that stores a tree -/
def SInv (s : Blob) : Option IT → Prop
  | none => s = Blob.empty
  | some t => Good s t

namespace Good

variable {s : Blob} {t : IT}

theorem live_iff (g : Good s t) (i : Nat) : (i < s.blocks.length ∧ i ∉ s.free) ↔ i ∈ t.indices := by
  constructor
  · rintro ⟨h1, h2⟩
    cases Classical.em (i ∈ t.indices) with
    | inl h => exact h
    | inr h => exact absurd ((g.free i).mpr ⟨h1, h⟩) h2
  · intro h
    exact ⟨g.rep.lt i h, fun hf => ((g.free i).mp hf).2 h⟩

theorem k2i_keys_nodup (g : Good s t) : (s.k2i.map (·.1)).Nodup := by
  have := (g.k2i.map (·.1)).nodup_iff.mpr
  apply this
  rw [List.map_map]
  exact g.keys

theorem mapGet_k2i (g : Good s t) {e : Nat × KVH} (he : e ∈ t.leaves) : mapGet s.k2i e.2.1 = some e.1 := by
  apply mapGet_of_mem _ _ _ g.k2i_keys_nodup
  exact g.k2i.mem_iff.mpr (List.mem_map_of_mem (f := fun e => (e.2.1, e.1)) he)

theorem h2i_keys_nodup (g : Good s t) : (s.h2i.map (·.1)).Nodup := by
  have := (g.h2i.map (·.1)).nodup_iff.mpr
  apply this
  rw [List.map_map]
  exact g.hashes

theorem mapGet_h2i (g : Good s t) {e : Nat × KVH} (he : e ∈ t.leaves) : mapGet s.h2i e.2.2.2 = some e.1 := by
  apply mapGet_of_mem _ _ _ g.h2i_keys_nodup
  exact g.h2i.mem_iff.mpr (List.mem_map_of_mem (f := fun e => (e.2.2.2, e.1)) he)

theorem k2i_length (g : Good s t) : s.k2i.length = t.leaves.length := by
  rw [g.k2i.length_eq, List.length_map]

end Good

theorem IT.leaves_pos (t : IT) : 0 < t.leaves.length := by
  induction t with
  | leaf i k v hh => simp [IT.leaves]
  | node i l r ihl ihr => simp only [IT.leaves, List.length_append]; omega

theorem IT.leaves_length_one (t : IT) (h : t.leaves.length = 1) : ∃ i k v hh, t = .leaf i k v hh := by
  cases t with
  | leaf i k v hh => exact ⟨i, k, v, hh, rfl⟩
  | node i l r =>
    have hl := l.leaves_pos
    have hr := r.leaves_pos
    simp only [IT.leaves, List.length_append] at h
    omega

/-- **the structural invariant implies the local invariant** (so every success / atomicity result
proved under `LInv` holds under `Good`) -/
theorem Good.linv {s : Blob} {t : IT} (g : Good s t) : LInv s where
  freeLt := fun i hi => ((g.free i).mp hi).1
  freeNodup := g.freeNodup
  parentRange := by
    intro i _
    simp only [parentInRange]
    split
    · rename_i b hb
      split
      · rename_i p hp; exact g.range i b hb p hp
      · trivial
    · trivial
  root := by
    simp only [rootOk]
    split
    · rename_i b hb
      have h0 : (0 : Nat) ∈ t.indices := g.root ▸ t.idx_mem
      refine ⟨fun hf => ((g.free 0).mp hf).2 h0, ?_⟩
      have := g.rep.root_parent
      rw [g.root] at this
      simpa [parentOfL, hb] using this
    · trivial
  node := by
    intro i hil hif
    have hi : i ∈ t.indices := (g.live_iff i).mp ⟨hil, hif⟩
    have info := g.rep.info g.nodup i hi
    have liveOf : ∀ x, x ∈ t.indices → x < s.blocks.length ∧ x ∉ s.free := fun x hx => (g.live_iff x).mpr hx
    refine ⟨?_, ?_, ?_⟩
    · -- children
      rcases info.shape with ⟨k, v, h, q, e1, _⟩ | ⟨d, hh, q, l, r, e1, e2, e3, e4, e5, e6⟩
      · simp only [okChildren, e1]
      · simp only [okChildren, e1]
        exact ⟨(liveOf l e2).1, (liveOf r e3).1, (liveOf l e2).2, (liveOf r e3).2, e4, e5, e6⟩
    · -- parent
      obtain ⟨b, hb⟩ : ∃ b, s.blocks[i]? = some b := ⟨s.blocks[i], List.getElem?_eq_getElem hil⟩
      simp only [okParent, hb]
      cases hp : b.node.parent with
      | some q =>
        simp only
        have hpo : parentOfL s.blocks i = some q := by simp [parentOfL, hb, hp]
        have hne : i ≠ t.idx := by
          intro e
          have := info.rootParent e
          rw [hpo] at this; cases this
        obtain ⟨q', hq', hpq', d, hh, pp, l, r, hqb, hc⟩ := info.parent hne
        rw [hpo] at hpq'
        injection hpq' with hpq'
        subst hpq'
        refine ⟨(liveOf q hq').2, ?_⟩
        rw [hqb]; exact hc
      | none =>
        simp only
        intro hleaf
        have hie : i = t.idx := by
          cases Classical.em (i = t.idx) with
          | inl h => exact h
          | inr h =>
            obtain ⟨q', _, hpq', _⟩ := info.parent h
            simp [parentOfL, hb, hp] at hpq'
        -- the root block is a leaf, so the tree is a single leaf
        cases t with
        | leaf j k v h => rw [g.k2i_length]; rfl
        | node j l r =>
          have hr := g.rep
          simp only [Rep] at hr
          obtain ⟨⟨d, hh, hjb⟩, _, _⟩ := hr
          rw [hie] at hb
          simp only [IT.idx] at hb
          rw [hjb] at hb
          injection hb with hb
          rw [← hb] at hleaf
          simp [Node.isLeaf] at hleaf
    · -- caches
      rcases info.shape with ⟨k, v, h, q, e1, e2⟩ | ⟨d, hh, q, l, r, e1, _⟩
      · simp only [okLeaf, e1]
        exact ⟨g.mapGet_k2i e2, g.mapGet_h2i e2⟩
      · simp only [okLeaf, e1]
  keys := by
    intro e he
    have hm := g.k2i.mem_iff.mp he
    obtain ⟨lf, hlf, rfl⟩ := List.mem_map.mp hm
    obtain ⟨q, hb⟩ := g.rep.leaf_block hlf
    exact okKey_intro (fun hf => ((g.free lf.1).mp hf).2 (t.leaf_idx_mem lf hlf)) hb
  hashes := by
    intro e he
    have hm := g.h2i.mem_iff.mp he
    obtain ⟨lf, hlf, rfl⟩ := List.mem_map.mp hm
    obtain ⟨q, hb⟩ := g.rep.leaf_block hlf
    exact okHash_intro (fun hf => ((g.free lf.1).mp hf).2 (t.leaf_idx_mem lf hlf)) hb
  keysNodup := g.k2i_keys_nodup

/-! ### the abstraction function computes the represented tree -/

theorem Rep.absH {bl : List Block} {p : Option Nat} {t : IT} (h : Rep bl p t) (f : Nat) (hf : t.depth < f) :
    ∃ ht, absHAux bl f t.idx p = some ht ∧ ht.erase = t.erase := by
  induction t generalizing p f with
  | leaf i k v hh =>
    cases f with
    | zero => omega
    | succ f =>
      simp only [Rep] at h
      refine ⟨HT.leaf k v hh, ?_, rfl⟩
      show absHAux bl (f + 1) i p = _
      simp only [absHAux, h, Node.parent, ne_eq, not_true_eq_false, if_false, Bool.false_eq_true]
  | node i l r ihl ihr =>
    cases f with
    | zero => omega
    | succ f =>
      simp only [Rep] at h
      obtain ⟨⟨d, hh, hb⟩, hl, hr⟩ := h
      simp only [IT.depth] at hf
      obtain ⟨hl', e1, e2⟩ := ihl hl f (by omega)
      obtain ⟨hr', e3, e4⟩ := ihr hr f (by omega)
      refine ⟨HT.node hh d hl' hr', ?_, by simp [HT.erase, IT.erase, e2, e4]⟩
      show absHAux bl (f + 1) i p = _
      simp only [absHAux, hb, Node.parent, ne_eq, not_true_eq_false, if_false, e1, e3]

/-- **`abs` of a blob that stores `t` is `t` with the indexes erased** -/
theorem Good.abs {s : Blob} {t : IT} (g : Good s t) : abs s = some (some t.erase) := by
  have hlen : t.indices.length ≤ s.blocks.length := nodup_bound _ _ g.nodup g.rep.lt
  have hd := t.depth_lt_indices
  obtain ⟨ht, e1, e2⟩ := g.rep.absH (s.blocks.length + 1) (by omega)
  rw [g.root] at e1
  have hne : s.blocks.isEmpty = false := by
    have := g.rep.lt 0 (g.root ▸ t.idx_mem)
    cases hb : s.blocks with
    | nil => rw [hb] at this; simp at this
    | cons _ _ => rfl
  simp only [Blob.abs, Blob.absH, hne, Bool.false_eq_true, if_false, e1, e2]

theorem SInv.abs {s : Blob} {t : Option IT} (h : SInv s t) : abs s = some (t.map IT.erase) := by
  cases t with
  | none => simp only [SInv] at h; subst h; rfl
  | some t => exact Good.abs h

end ChiaModel.Blob
