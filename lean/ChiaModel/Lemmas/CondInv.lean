import ChiaModel.Lemmas.Cost
/-
Frame and invariant lemmas for the condition loop of the `parse_spends` model.
-/
namespace ChiaModel.Cond

@[simp] theorem assertNotEphemeral_ret (s : CSt) : (assertNotEphemeral s).ret = s.ret := by
  unfold assertNotEphemeral; split <;> rfl
@[simp] theorem assertNotEphemeral_cc (s : CSt) : (assertNotEphemeral s).spend.conditionCost = s.spend.conditionCost := by
  unfold assertNotEphemeral; split <;> rfl
@[simp] theorem assertNotEphemeral_createCoin (s : CSt) : (assertNotEphemeral s).spend.createCoin = s.spend.createCoin := by
  unfold assertNotEphemeral; split <;> rfl
@[simp] theorem assertNotEphemeral_amount (s : CSt) : (assertNotEphemeral s).spend.coinAmount = s.spend.coinAmount := by
  unfold assertNotEphemeral; split <;> rfl
@[simp] theorem assertNotEphemeral_coinId (s : CSt) : (assertNotEphemeral s).spend.coinId = s.spend.coinId := by
  unfold assertNotEphemeral; split <;> rfl
@[simp] theorem assertNotEphemeral_parentId (s : CSt) : (assertNotEphemeral s).spend.parentId = s.spend.parentId := by
  unfold assertNotEphemeral; split <;> rfl
@[simp] theorem assertNotEphemeral_puzzleHash (s : CSt) : (assertNotEphemeral s).spend.puzzleHash = s.spend.puzzleHash := by
  unfold assertNotEphemeral; split <;> rfl
@[simp] theorem assertNotEphemeral_spentCoins (s : CSt) : (assertNotEphemeral s).st.spentCoins = s.st.spentCoins := by
  unfold assertNotEphemeral; split <;> rfl

theorem decrement_frame (env : Env) (s s' : CSt) (h : decrement env s = .ok s') :
    s'.ret = s.ret ∧ s'.spend = s.spend ∧ s'.st = s.st := by
  unfold decrement at h
  split at h
  · injection h with h; subst h; simp
  · split at h
    · cases h
    · injection h with h; subst h; simp

/-- what one accepted condition cannot change -/
def Frame (s s' : CSt) : Prop :=
  s'.ret.conditionCost = s.ret.conditionCost ∧ s'.spend.conditionCost = s.spend.conditionCost
    ∧ s'.ret.spends = s.ret.spends ∧ s'.ret.removalAmount = s.ret.removalAmount
    ∧ s'.st.spentCoins = s.st.spentCoins ∧ s'.spend.coinAmount = s.spend.coinAmount
    ∧ s'.spend.coinId = s.spend.coinId ∧ s'.spend.parentId = s.spend.parentId
    ∧ s'.spend.puzzleHash = s.spend.puzzleHash
    ∧ ((s'.spend.createCoin = s.spend.createCoin ∧ s'.ret.additionAmount = s.ret.additionAmount) ∨
       (∃ nc : NewCoin, s'.spend.createCoin = s.spend.createCoin ++ [nc]
          ∧ s'.ret.additionAmount = s.ret.additionAmount + nc.amount
          ∧ (s.spend.createCoin.any (fun x => x.ph == nc.ph && x.amount == nc.amount)) = false))

theorem bind_ok {α β : Type} {x : R α} {f : α → R β} {b : β} (h : (x >>= f) = .ok b) :
    ∃ a, x = .ok a ∧ f a = .ok b := by
  cases x with
  | error e => cases h
  | ok a => exact ⟨a, rfl, h⟩

theorem toKey_ok (env : Env) (pk k : Bytes) (h : toKey env pk = .ok k) : k = pk ∧ env.pkOk pk = true := by
  unfold toKey at h; split at h
  · injection h with h; exact ⟨h.symm, by assumption⟩
  · cases h

theorem applyCond_frame (env : Env) (s s' : CSt) (c : Cond) (h : applyCond env s c = .ok s') : Frame s s' := by
  cases c <;> simp only [applyCond] at h
  case aggSig op pk msg =>
    split at h
    · split at h
      · cases h
      · obtain ⟨k, _, h⟩ := bind_ok h
        injection h with h; subst h
        split <;> simp [Frame]
    · obtain ⟨k, _, h⟩ := bind_ok h
      injection h with h; subst h
      simp only [Frame, pushAggSig]
      repeat' split
      all_goals simp
  case createCoin ph amount hint =>
    split at h
    · cases h
    · rename_i hany
      injection h with h; subst h
      simp only [Frame, true_and]
      exact Or.inr ⟨⟨ph, amount, hint⟩, rfl, rfl, by simpa using hany⟩
  all_goals first
    | (injection h with h; subst h; simp [Frame]; done)
    | (split at h <;> first | (injection h with h; subst h; simp [Frame]; done) | (cases h; done))
    | (obtain ⟨s1, hd, h⟩ := bind_ok h; obtain ⟨d1, d2, d3⟩ := decrement_frame _ _ _ hd; injection h with h; subst h; simp [Frame, d1, d2, d3]; done)

/-! ## generic loop invariants -/

theorem addCost_ok {s : CSt} {m c : Nat} {s' : CSt} {m' : Nat} (h : addCost s m c = .ok (s', m')) :
    s' = bump s c ∧ c ≤ m ∧ m' = m - c := by
  unfold addCost at h
  obtain ⟨m1, hc, h⟩ := bind_ok h
  injection h with h; injection h with h1 h2
  obtain ⟨hc1, hc2⟩ := charge_ok_iff.mp hc
  exact ⟨h1.symm, hc1, by omega⟩

/-- the visitor step only touches the spend's flags and the condition counter -/
def visit (env : Env) (s : CSt) (cva : Cond) : CSt :=
  { s with spend := { s.spend with flags := visitCondition env s.counter s.spend.flags cva }, counter := s.counter + 1 }

theorem pureCond_ok {env : Env} {s : CSt} {c : Sexp} {op : Nat} {s' : CSt} {extra : Nat}
    (h : pureCond env s c op = .ok (s', extra)) :
    ∃ args cva, rest c = .ok args ∧ parseArgs args op env.flags = .ok cva ∧
      applyCond env (visit env s cva) cva = .ok s' ∧ extra = condExtraCost cva := by
  unfold pureCond at h
  obtain ⟨args, h1, h⟩ := bind_ok h
  obtain ⟨cva, h2, h⟩ := bind_ok h
  obtain ⟨s1, h3, h⟩ := bind_ok h
  injection h with h; injection h with h4 h5
  exact ⟨args, cva, h1, h2, by rw [← h4]; exact h3, h5.symm⟩

/-- An invariant of the per-spend state that is preserved by cost bookkeeping, by the visitor's flag
updates and by every accepted condition holds at the end of the condition loop. -/
theorem condLoop_inv (env : Env) (P : CSt → Prop)
    (hbump : ∀ s c, P s → P (bump s c))
    (hvisit : ∀ s cva, P s → P (visit env s cva))
    (hstep : ∀ s s' cva, P s → applyCond env s cva = .ok s' → P s') :
    ∀ (t : Sexp) (s : CSt) (m : Nat) (s' : CSt) (m' : Nat), condLoop env t s m = .ok (s', m') → P s → P s' := by
  intro t
  induction t with
  | atom b =>
    intro s m s' m' h hp
    cases b with
    | nil => simp only [condLoop] at h; injection h with h; injection h with h1; rw [← h1]; exact hp
    | cons x xs => simp [condLoop] at h
  | pair c nxt _ ih =>
    intro s m s' m' h hp
    simp only [condLoop] at h
    obtain ⟨⟨s1, m1⟩, hs, h⟩ := bind_ok h
    refine ih s1 m1 s' m' h ?_
    -- one step
    unfold stepCond at hs
    obtain ⟨opn, _, hs⟩ := bind_ok hs
    cases ho : parseOpcode opn with
    | none =>
      rw [ho] at hs; simp only at hs
      split at hs
      · cases hs
      · split at hs
        · rw [(addCost_ok hs).1]; exact hbump _ _ hp
        · injection hs with hs; injection hs with hs1; rw [← hs1]; exact hp
    | some op =>
      rw [ho] at hs; simp only at hs
      obtain ⟨⟨s2, m2⟩, ha, hs⟩ := bind_ok hs
      obtain ⟨⟨s3, extra⟩, hpc, hs⟩ := bind_ok hs
      obtain ⟨args, cva, _, _, happ, _⟩ := pureCond_ok hpc
      rw [(addCost_ok hs).1]
      apply hbump
      apply hstep _ _ _ _ happ
      apply hvisit
      rw [(addCost_ok ha).1]
      exact hbump _ _ hp

end ChiaModel.Cond

namespace ChiaModel.Cond

theorem sanitizeHash_ok {n : Sexp} {size : Nat} {b : Bytes} (h : sanitizeHash n size = .ok b) :
    n = .atom b ∧ b.length = size := by
  unfold sanitizeHash at h
  obtain ⟨b', h1, h⟩ := bind_ok h
  cases n with
  | pair l r => cases h1
  | atom x =>
    injection h1 with h1; subst h1
    split at h
    · injection h with h; subst h; exact ⟨rfl, by assumption⟩
    · cases h

theorem parseAmount_ok {n : Sexp} {v : Nat} (h : parseAmount n = .ok v) :
    ∃ b, n = .atom b ∧ sanitizeUint b 8 = .ok v := by
  unfold parseAmount at h
  obtain ⟨b, h1, h⟩ := bind_ok h
  cases n with
  | pair l r => cases h1
  | atom x =>
    injection h1 with h1; subst h1
    refine ⟨x, rfl, ?_⟩
    split at h
    · rename_i v' hv; injection h with h; subst h; exact hv
    · cases h

/-- what `spendHeader` produced when it succeeded -/
theorem spendHeader_ok {ret : Bundle} {st : PState} {parent ph amount : Sexp} {cc : Nat} {s0 : CSt}
    (h : spendHeader ret st parent ph amount cc = .ok s0) :
    ∃ parentId puzzleHash amountBuf myAmount,
      parent = .atom parentId ∧ parentId.length = 32 ∧ ph = .atom puzzleHash ∧ puzzleHash.length = 32 ∧
      amount = .atom amountBuf ∧ sanitizeUint amountBuf 8 = .ok myAmount ∧
      st.spentCoins.contains (coinId parentId puzzleHash amountBuf) = false ∧
      s0 = { ret := { ret with removalAmount := ret.removalAmount + myAmount },
             st := { st with spentCoins := st.spentCoins ++ [coinId parentId puzzleHash amountBuf],
                             spentPuzzles := puzzleHash :: st.spentPuzzles },
             spend := { parentId := parentId, coinAmount := myAmount, puzzleHash := puzzleHash,
                        coinId := coinId parentId puzzleHash amountBuf, executionCost := cc } } := by
  unfold spendHeader at h
  obtain ⟨parentId, h1, h⟩ := bind_ok h
  obtain ⟨puzzleHash, h2, h⟩ := bind_ok h
  obtain ⟨myAmount, h3, h⟩ := bind_ok h
  obtain ⟨amountBuf, h4, h⟩ := bind_ok h
  obtain ⟨e1, l1⟩ := sanitizeHash_ok h1
  obtain ⟨e2, l2⟩ := sanitizeHash_ok h2
  obtain ⟨b, e3, hs⟩ := parseAmount_ok h3
  subst e3
  injection h4 with h4; subst h4
  simp only at h
  by_cases hc : st.spentCoins.contains (coinId parentId puzzleHash b) = true
  · rw [if_pos hc] at h; cases h
  · rw [if_neg hc] at h
    injection h with h
    exact ⟨parentId, puzzleHash, b, myAmount, e1, l1, e2, l2, rfl, hs, by simpa using hc, h.symm⟩

theorem processSingleSpend_ok {env : Env} {ret : Bundle} {st : PState} {parent ph amount conds : Sexp} {cc m : Nat}
    {ret' : Bundle} {st' : PState} {m' : Nat}
    (h : processSingleSpend env ret st parent ph amount conds cc m = .ok ((ret', st'), m')) :
    ∃ s0 m1 s, spendHeader ret st parent ph amount cc = .ok s0 ∧ spendCharge env.flags ≤ m ∧ m1 = m - spendCharge env.flags ∧
      condLoop env conds (newSpendVisit env (bump s0 (spendCharge env.flags))) m1 = .ok (s, m') ∧
      (ret', st') = finishSpend env s := by
  unfold processSingleSpend at h
  cases hh : spendHeader ret st parent ph amount cc with
  | error e => rw [hh] at h; cases h
  | ok s0 =>
    rw [hh] at h; simp only at h
    obtain ⟨⟨s1, m1⟩, ha, h⟩ := bind_ok h
    obtain ⟨⟨s, m2⟩, hl, h⟩ := bind_ok h
    injection h with h; injection h with h1 h2
    obtain ⟨a1, a2, a3⟩ := addCost_ok ha
    subst a1; subst h2
    exact ⟨s0, m1, s, rfl, a2, a3, hl, h1.symm⟩

theorem parseSingleSpend_ok {sp parent ph amount conds : Sexp} (h : parseSingleSpend sp = .ok (parent, ph, amount, conds)) :
    ∃ r, sp = .pair parent (.pair ph (.pair amount (.pair conds r))) := by
  unfold parseSingleSpend at h
  cases sp with
  | atom b => cases h
  | pair a r1 =>
    cases r1 with
    | atom b => cases h
    | pair b r2 =>
      cases r2 with
      | atom b => cases h
      | pair c r3 =>
        cases r3 with
        | atom b => cases h
        | pair d r4 =>
          simp only [first, rest, bind, Except.bind, pure, Except.pure] at h
          injection h with h; injection h with h1 h; injection h with h2 h; injection h with h3 h4
          subst h1; subst h2; subst h3; subst h4
          exact ⟨r4, rfl⟩

theorem parseSingleSpend_allBytes {sp parent ph amount conds : Sexp} (h : parseSingleSpend sp = .ok (parent, ph, amount, conds))
    (hb : sp.AllBytes) : parent.AllBytes ∧ ph.AllBytes ∧ amount.AllBytes ∧ conds.AllBytes := by
  unfold parseSingleSpend at h
  cases sp with
  | atom b => cases h
  | pair a r1 =>
    cases r1 with
    | atom b => cases h
    | pair b r2 =>
      cases r2 with
      | atom b => cases h
      | pair c r3 =>
        cases r3 with
        | atom b => cases h
        | pair d r4 =>
          simp only [first, rest, bind, Except.bind, pure, Except.pure] at h
          injection h with h; injection h with h1 h; injection h with h2 h; injection h with h3 h4
          subst h1; subst h2; subst h3; subst h4
          simp only [Sexp.AllBytes] at hb
          exact ⟨hb.1, hb.2.1, hb.2.2.1, hb.2.2.2.1⟩

/-- A bundle-level invariant preserved by every accepted spend holds after the spend loop.
(The obligation may use that every atom of the spend is a byte string.) -/
theorem spendLoop_inv (env : Env) (cc : Nat) (Q : Bundle → PState → Prop)
    (hspend : ∀ ret st parent ph amount conds m ret' st' m', Q ret st →
      parent.AllBytes → ph.AllBytes → amount.AllBytes → conds.AllBytes →
      processSingleSpend env ret st parent ph amount conds cc m = .ok ((ret', st'), m') → Q ret' st') :
    ∀ (t : Sexp) ret st n m ret' st' m', t.AllBytes →
      spendLoop env cc t ret st n m = .ok ((ret', st'), m') → Q ret st → Q ret' st' := by
  intro t
  induction t with
  | atom b =>
    intro ret st n m ret' st' m' _ h hq
    cases b with
    | nil => simp only [spendLoop] at h; injection h with h; injection h with h1; injection h1 with h1 h2; subst h1; subst h2; exact hq
    | cons x xs => simp [spendLoop] at h
  | pair sp nxt _ ih =>
    intro ret st n m ret' st' m' hab h hq
    simp only [spendLoop] at h
    simp only [Sexp.AllBytes] at hab
    split at h
    · cases h
    · cases hp : parseSingleSpend sp with
      | error e => rw [hp] at h; cases h
      | ok q =>
        obtain ⟨parent, ph, amount, conds⟩ := q
        rw [hp] at h; simp only at h
        obtain ⟨⟨⟨r1, s1⟩, m1⟩, h1, h⟩ := bind_ok h
        obtain ⟨b1, b2, b3, b4⟩ := parseSingleSpend_allBytes hp hab.1
        exact ih r1 s1 (n - 1) m1 ret' st' m' hab.2 h (hspend _ _ _ _ _ _ _ _ _ _ hq b1 b2 b3 b4 h1)

end ChiaModel.Cond
